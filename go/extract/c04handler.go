package main

import (
	"go/ast"
	"strings"
)

// C04 round 4: the statements of the inbound bridge-call handler and of the refund of an outgoing bridge call, in source
// order, with the context (outer `ctx` or the cache context) and the party every money-moving statement names:
//
//	BridgeCallHandler            credit loop (BridgeTokenToBaseCoin) / CacheContext() / BridgeCallEvm (BaseCoinToEvm loop + CallEVM)
//	                             / `if err == nil { commit(); return nil }` / SendCoins(receiver -> refund) / BridgeCallFailedRefund
//	                             (-> AddOutgoingBridgeCall -> BaseCoinToBridgeToken loop), parameters resolved through the callees
//	HandleOutgoingBridgeCallRefund   bridgeCallTransferCoins / `if HasBridgeCallFromMsg { return }` / bridgeCallTransferTokens
//	bridgeCallTransferTokens     per coin: FX branch (skip if sender = receiver, SendCoins) and the ConvertCoin branch
//
// The model (`Model/C04Handler.lean`) INTERPRETS these lists; `Props/C04.lean` obliges the interpretation to be the flows
// of the operations `bcin` / `bcinfail` / `bcresult` / `bctimeout`.

// c04HRef: the party an address expression names (closed vocabulary `HRef`), after resolving local aliases
func c04HRef(src string, alias map[string]string) string {
	q := c04Space.ReplaceAllString(src, "")
	q = strings.TrimSuffix(q, ".Bytes()")
	q = strings.TrimSuffix(q, ".String()")
	if strings.HasPrefix(q, "common.BytesToAddress(") && strings.HasSuffix(q, ")") {
		q = q[len("common.BytesToAddress(") : len(q)-1]
	}
	if a, ok := alias[q]; ok {
		return a
	}
	switch q {
	case "msg.GetRefundAddr()":
		return ".refund"
	case "msg.GetToAddr()":
		return ".to"
	case "msg.GetSenderAddr()":
		return ".sender"
	}
	return ".other"
}

func c04Params(fd *ast.FuncDecl) []string {
	var ps []string
	if fd == nil || fd.Type.Params == nil {
		return ps
	}
	for _, f := range fd.Type.Params.List {
		for _, n := range f.Names {
			ps = append(ps, n.Name)
		}
	}
	return ps
}

// c04FindCall: the first call of method `name` inside n
func c04FindCall(n ast.Node, name string) *ast.CallExpr {
	var res *ast.CallExpr
	if n == nil {
		return nil
	}
	ast.Inspect(n, func(x ast.Node) bool {
		if res != nil {
			return false
		}
		if ce, ok := x.(*ast.CallExpr); ok {
			switch f := ce.Fun.(type) {
			case *ast.SelectorExpr:
				if f.Sel.Name == name {
					res = ce
					return false
				}
			case *ast.Ident:
				if f.Name == name {
					res = ce
					return false
				}
			}
		}
		return true
	})
	return res
}

func c04ArgSrc(c *ctxT, ce *ast.CallExpr, i int) string {
	if ce == nil || i >= len(ce.Args) {
		return "?"
	}
	return c04Space.ReplaceAllString(c.src(ce.Args[i]), "")
}

// c04Through: inside callee `fd`, the call `inner` names its argument `argIdx` by an identifier (possibly `.Bytes()`); which
// parameter of `fd` is it?  -1 if it is anything else.
func c04Through(c *ctxT, fd *ast.FuncDecl, inner *ast.CallExpr, argIdx int) int {
	q := strings.TrimSuffix(c04ArgSrc(c, inner, argIdx), ".Bytes()")
	for i, p := range c04Params(fd) {
		if p == q {
			return i
		}
	}
	return -1
}

func c04Handler(c *ctxT, sb *strings.Builder) {
	const keeper = "x/crosschain/keeper"
	squash := func(s string) string { return c04Space.ReplaceAllString(s, "") }
	cached := func(ce *ast.CallExpr) string { return leanBool(c04ArgSrc(c, ce, 0) == "cacheCtx") }

	// ---- BridgeCallHandler ----
	{
		var steps, notes []string
		fd := c.findFunc(keeper, "Keeper", "BridgeCallHandler")
		evmFd := c.findFunc(keeper, "Keeper", "BridgeCallEvm")
		refFd := c.findFunc(keeper, "Keeper", "BridgeCallFailedRefund")
		addFd := c.findFunc(keeper, "Keeper", "AddOutgoingBridgeCall")
		alias := map[string]string{}
		note := func(step string, n ast.Node) {
			steps = append(steps, step)
			line := c.src(n)
			if j := strings.IndexByte(line, '\n'); j >= 0 {
				line = line[:j] + " …"
			}
			notes = append(notes, step+"  <=  "+line)
		}
		if fd != nil && fd.Body != nil {
			for _, st := range fd.Body.List {
				// local aliases: `receiverAddr := msg.GetToAddr()` (re-bound to the sender only for memo-send-call-to claims)
				if as, ok := st.(*ast.AssignStmt); ok && len(as.Lhs) == 1 && len(as.Rhs) == 1 {
					if id, ok := as.Lhs[0].(*ast.Ident); ok && id.Name == "receiverAddr" && squash(c.src(as.Rhs[0])) == "msg.GetToAddr()" {
						alias["receiverAddr"] = ".receiver"
					}
				}
				switch s := st.(type) {
				case *ast.RangeStmt, *ast.ForStmt:
					if ce := c04FindCall(s, "BridgeTokenToBaseCoin"); ce != nil {
						note(".credit "+cached(ce)+" "+c04HRef(c04ArgSrc(c, ce, 3), alias), st)
					}
				case *ast.AssignStmt:
					if strings.Contains(squash(c.src(s)), ".CacheContext()") {
						note(".openCache", st)
					}
				case *ast.IfStmt:
					if ce := c04FindCall(s.Init, "BridgeCallEvm"); ce != nil {
						// the holder of the ERC-20 conversion inside BridgeCallEvm, resolved to the call site's argument
						holder := ".other"
						if inner := c04FindCall(evmFd, "BaseCoinToEvm"); inner != nil && evmFd != nil {
							ps := c04Params(evmFd)
							if i := c04Through(c, evmFd, inner, 2); i >= 0 && len(ps) > 0 && c04ArgSrc(c, inner, 0) == ps[0] {
								holder = c04HRef(c04ArgSrc(c, ce, i), alias)
							}
						}
						note(".evm "+cached(ce)+" "+holder, s.Init)
						body := squash(c.src(s.Body))
						if strings.HasSuffix(squash(c.src(s.Cond)), "err==nil") && strings.Contains(body, "commit()") && strings.Contains(body, "returnnil") {
							note(".commitIfOk", s.Cond)
						}
						continue
					}
					if ce := c04FindCall(s.Body, "SendCoins"); ce != nil {
						al := map[string]string{}
						for k, v := range alias {
							al[k] = v
						}
						if as, ok := s.Init.(*ast.AssignStmt); ok && len(as.Lhs) == 1 && len(as.Rhs) == 1 {
							if id, ok := as.Lhs[0].(*ast.Ident); ok {
								al[id.Name] = c04HRef(c.src(as.Rhs[0]), alias)
							}
						}
						skip := strings.Contains(squash(c.src(s.Cond)), "!bytes.Equal(")
						note(".handOver "+cached(ce)+" "+leanBool(skip)+" "+c04HRef(c04ArgSrc(c, ce, 1), al)+" "+c04HRef(c04ArgSrc(c, ce, 2), al), s.Cond)
					}
				case *ast.ReturnStmt:
					if ce := c04FindCall(s, "BridgeCallFailedRefund"); ce != nil {
						sender, refund := ".other", ".other"
						if add := c04FindCall(refFd, "AddOutgoingBridgeCall"); add != nil && refFd != nil && addFd != nil {
							// the withdrawing party: AddOutgoingBridgeCall's BaseCoinToBridgeToken holder must be its own `sender` (parameter 1)
							loopOk := false
							if inner := c04FindCall(addFd, "BaseCoinToBridgeToken"); inner != nil {
								loopOk = c04Through(c, addFd, inner, 2) == 1
							}
							if i := c04Through(c, refFd, add, 1); i >= 0 && loopOk {
								sender = c04HRef(c04ArgSrc(c, ce, i), alias)
							}
							if i := c04Through(c, refFd, add, 2); i >= 0 {
								refund = c04HRef(c04ArgSrc(c, ce, i), alias)
							}
						}
						note(".refundOut "+cached(ce)+" "+sender+" "+refund, st)
					}
				}
			}
		}
		sb.WriteString("/-! `BridgeCallHandler` — money-moving statements in source order (context, party):\n")
		for _, n := range notes {
			sb.WriteString("  " + strings.ReplaceAll(n, "-/", "- /") + "\n")
		}
		sb.WriteString("-/\ndef bridgeCallHandler_steps : List HStep := " + leanList(steps) + "\n\n")
		c.facts["C04.bridgeCallHandler_steps"] = steps
	}

	// ---- HandleOutgoingBridgeCallRefund ----
	{
		var steps []string
		if fd := c.findFunc(keeper, "Keeper", "HandleOutgoingBridgeCallRefund"); fd != nil && fd.Body != nil {
			alias := map[string]string{}
			for _, st := range fd.Body.List {
				if as, ok := st.(*ast.AssignStmt); ok && len(as.Lhs) == 1 && len(as.Rhs) == 1 {
					if id, ok := as.Lhs[0].(*ast.Ident); ok && strings.Contains(squash(c.src(as.Rhs[0])), "data.GetRefund()") {
						alias[id.Name] = ".refund"
					}
				}
				if ce := c04FindCall(st, "bridgeCallTransferCoins"); ce != nil {
					steps = append(steps, ".transferCoins "+c04HRef(c04ArgSrc(c, ce, 1), alias))
					continue
				}
				if ifs, ok := st.(*ast.IfStmt); ok {
					if strings.Contains(squash(c.src(ifs.Cond)), "k.HasBridgeCallFromMsg(") && !strings.HasPrefix(squash(c.src(ifs.Cond)), "!") && c04ReturnOf(ifs.Body) != nil {
						steps = append(steps, ".returnIfFromMsg")
						continue
					}
				}
				if ce := c04FindCall(st, "bridgeCallTransferTokens"); ce != nil {
					steps = append(steps, ".transferTokens "+c04HRef(c04ArgSrc(c, ce, 1), alias)+" "+c04HRef(c04ArgSrc(c, ce, 2), alias))
				}
			}
		}
		sb.WriteString("/-- `HandleOutgoingBridgeCallRefund` — statements in source order -/\n")
		sb.WriteString("def handleRefund_steps : List RfStep := " + leanList(steps) + "\n\n")
		c.facts["C04.handleRefund_steps"] = steps
	}

	// ---- bridgeCallTransferCoins: WHICH tokens are minted before the unlock (guard of `mintCoins = mintCoins.Add(coin)`) ----
	{
		guard, where := "unknown", "(no mintCoins.Add found)"
		if fd := c.findFunc(keeper, "Keeper", "bridgeCallTransferCoins"); fd != nil && fd.Body != nil {
			fromDenomCheck := strings.Contains(squash(c.src(fd.Body)), "isOriginOrConverted:=k.erc20Keeper.IsOriginOrConvertedDenom(ctx,bridgeDenom)")
			var walk func(n ast.Node, cond string)
			walk = func(n ast.Node, cond string) {
				ast.Inspect(n, func(x ast.Node) bool {
					switch s := x.(type) {
					case *ast.IfStmt:
						walk(s.Body, squash(c.src(s.Cond)))
						if s.Else != nil {
							walk(s.Else, "else")
						}
						return false
					case *ast.AssignStmt:
						if squash(c.src(s)) == "mintCoins=mintCoins.Add(coin)" {
							where = c.pos(s) + " under `" + cond + "`"
							switch {
							case cond == "!isOriginOrConverted" && fromDenomCheck:
								guard = "notOrigin"
							case cond == "isOriginOrConverted" && fromDenomCheck:
								guard = "origin"
							case cond == "":
								guard = "always"
							}
						}
					}
					return true
				})
			}
			for _, st := range fd.Body.List {
				if fs, ok := st.(*ast.ForStmt); ok {
					walk(fs.Body, "")
				}
				if rs, ok := st.(*ast.RangeStmt); ok {
					walk(rs.Body, "")
				}
			}
		}
		sb.WriteString("/-- `bridgeCallTransferCoins`: the tokens added to `mintCoins` — " + strings.ReplaceAll(where, "-/", "- /") + " -/\n")
		sb.WriteString("def bridgeCallTransferCoins_mintGuard : MintGuard := ." + guard + "\n\n")
		c.facts["C04.bridgeCallTransferCoins_mintGuard"] = guard
	}

	// ---- bridgeCallTransferTokens: per coin ----
	{
		var fxSteps, otherSteps []string
		if fd := c.findFunc(keeper, "Keeper", "bridgeCallTransferTokens"); fd != nil && fd.Body != nil {
			alias := map[string]string{}
			ps := c04Params(fd)
			if len(ps) >= 3 {
				alias[ps[1]] = ".sender"
				alias[ps[2]] = ".receiver"
			}
			for _, st := range fd.Body.List {
				rs, ok := st.(*ast.RangeStmt)
				if !ok {
					continue
				}
				inFx := false
				for _, b := range rs.Body.List {
					if ifs, ok := b.(*ast.IfStmt); ok && squash(c.src(ifs.Cond)) == "coin.Denom==fxtypes.DefaultDenom" {
						inFx = true
						for _, f := range ifs.Body.List {
							if i2, ok := f.(*ast.IfStmt); ok {
								q := squash(c.src(i2.Cond))
								if strings.HasPrefix(q, "bytes.Equal(") && strings.Contains(squash(c.src(i2.Body)), "continue") {
									a, b2 := "?", "?"
									if ce := c04FindCall(i2.Cond, "Equal"); ce != nil {
										a, b2 = c04HRef(c04ArgSrc(c, ce, 0), alias), c04HRef(c04ArgSrc(c, ce, 1), alias)
									}
									if (a == ".sender" && b2 == ".receiver") || (a == ".receiver" && b2 == ".sender") {
										fxSteps = append(fxSteps, ".skipIfSame")
									} else {
										fxSteps = append(fxSteps, ".unknown")
									}
									continue
								}
								if ce := c04FindCall(i2.Init, "SendCoins"); ce != nil {
									fxSteps = append(fxSteps, ".sendCoins "+c04HRef(c04ArgSrc(c, ce, 1), alias)+" "+c04HRef(c04ArgSrc(c, ce, 2), alias))
								}
							}
						}
						continue
					}
					if ce := c04FindCall(b, "ConvertCoin"); ce != nil && inFx {
						s, r := ".other", ".other"
						ast.Inspect(ce, func(x ast.Node) bool {
							if kv, ok := x.(*ast.KeyValueExpr); ok {
								if id, ok := kv.Key.(*ast.Ident); ok {
									switch id.Name {
									case "Sender":
										s = c04HRef(c.src(kv.Value), alias)
									case "Receiver":
										r = c04HRef(c.src(kv.Value), alias)
									}
								}
							}
							return true
						})
						otherSteps = append(otherSteps, ".convertCoin "+s+" "+r)
					}
				}
			}
		}
		sb.WriteString("/-- `bridgeCallTransferTokens`, one coin: the FX branch and the ERC-20 branch -/\n")
		sb.WriteString("def transferTokens_fx_steps : List TStep := " + leanList(fxSteps) + "\n")
		sb.WriteString("def transferTokens_other_steps : List TStep := " + leanList(otherSteps) + "\n\n")
		c.facts["C04.transferTokens_steps"] = []any{fxSteps, otherSteps}
	}
}
