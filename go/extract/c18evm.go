package main

import (
	"go/ast"
	"go/parser"
	"go/token"
	"os"
	"path/filepath"
	"regexp"
	"sort"
	"strconv"
	"strings"
)

// C18, fourth translator (round 5): what the two EVM helpers behind the three EVM-failure boundaries do with the
// RESPONSE of the interpreter before their callers test it.
//
//   x/evm/keeper.Keeper.CallEVM            -> inbound bridge call (BridgeCallEvm), IBC follow-up call (HandlerIbcCallEvm)
//   x/evm/keeper.Keeper.CallEVMWithoutGas  -> gov MsgCallContract
//
// The callers decide "did the contract call fail" from `txResp.Failed()` (= `len(VmError) > 0`, ethermint) resp. from
// the returned error.  So every statement between `res, err := k.ApplyMessage(…)` and the return that WRITES the
// response (res.VmError = …, res.Ret = …, res = …, a call that is handed res), every return, and the conditions they
// sit under are part of the boundary: a helper that rewrites VmError can turn a failed call into a "successful" one.
// Emitted as a small program `RStmt` that Model/C18E.lean interprets; also regenerated from the dependencies at the
// versions / replacements of /repo/go.mod: the body of MsgEthereumTxResponse.Failed(), the texts of the interpreter's
// errors (core/vm/errors.go), the selectors abi.UnpackRevert decodes.

func init() { register(extractC18Evm) }

type c18evmT struct {
	c        *ctxT
	res      string            // the response variable
	cause    map[string]bool   // variables holding the decoded revert reason
	unpackE  map[string]bool   // error variables of abi.UnpackRevert
	vmTexts  map[string]string // ErrX -> text
	aliasVm  string            // import alias of core/vm
	applyErr string            // error variable of ApplyMessage
}

func (t *c18evmT) flat(n ast.Node) string { return strings.Join(strings.Fields(t.c.src(n)), " ") }

// writesRes: does the node contain an assignment to the response (variable, field, dereference) or hand it to a call?
func (t *c18evmT) touches(n ast.Node) (writes, returns bool) {
	ast.Inspect(n, func(x ast.Node) bool {
		switch s := x.(type) {
		case *ast.AssignStmt:
			for _, l := range s.Lhs {
				if t.isResLhs(l) {
					writes = true
				}
			}
		case *ast.IncDecStmt:
			if t.isResLhs(s.X) {
				writes = true
			}
		case *ast.CallExpr:
			for _, a := range s.Args {
				if id, ok := a.(*ast.Ident); ok && id.Name == t.res {
					writes = true
				}
				if u, ok := a.(*ast.UnaryExpr); ok && u.Op == token.AND && strings.HasPrefix(t.flat(u.X), t.res+".") {
					writes = true
				}
			}
		case *ast.ReturnStmt:
			returns = true
		case *ast.FuncLit:
			return false
		}
		return true
	})
	return
}

func (t *c18evmT) isResLhs(e ast.Expr) bool {
	switch x := e.(type) {
	case *ast.Ident:
		return x.Name == t.res
	case *ast.SelectorExpr:
		return t.isResLhs(x.X)
	case *ast.StarExpr:
		return t.isResLhs(x.X)
	case *ast.IndexExpr:
		return t.isResLhs(x.X)
	case *ast.ParenExpr:
		return t.isResLhs(x.X)
	}
	return false
}

func (t *c18evmT) text(e ast.Expr) (string, bool) {
	switch x := e.(type) {
	case *ast.BasicLit:
		if x.Kind == token.STRING {
			if s, err := strconv.Unquote(x.Value); err == nil {
				return s, true
			}
		}
	case *ast.CallExpr: // vm.ErrX.Error()
		if sel, ok := x.Fun.(*ast.SelectorExpr); ok && sel.Sel.Name == "Error" && len(x.Args) == 0 {
			if in, ok := sel.X.(*ast.SelectorExpr); ok {
				if id, ok := in.X.(*ast.Ident); ok && id.Name == t.aliasVm {
					if s, ok := t.vmTexts[in.Sel.Name]; ok {
						return s, true
					}
				}
			}
		}
	}
	return "", false
}

func (t *c18evmT) isVmErrorField(e ast.Expr) bool {
	sel, ok := e.(*ast.SelectorExpr)
	if !ok || sel.Sel.Name != "VmError" {
		return false
	}
	id, ok := sel.X.(*ast.Ident)
	return ok && id.Name == t.res
}

func (t *c18evmT) cond(e ast.Expr) string {
	switch x := e.(type) {
	case *ast.ParenExpr:
		return t.cond(x.X)
	case *ast.UnaryExpr:
		if x.Op == token.NOT {
			return "(.not " + t.cond(x.X) + ")"
		}
	case *ast.CallExpr:
		if sel, ok := x.Fun.(*ast.SelectorExpr); ok && sel.Sel.Name == "Failed" && len(x.Args) == 0 {
			if id, ok := sel.X.(*ast.Ident); ok && id.Name == t.res {
				return ".failed"
			}
		}
	case *ast.BinaryExpr:
		switch x.Op {
		case token.LAND:
			return "(.and " + t.cond(x.X) + " " + t.cond(x.Y) + ")"
		case token.LOR:
			return "(.or " + t.cond(x.X) + " " + t.cond(x.Y) + ")"
		case token.EQL, token.NEQ:
			wrap := func(s string) string {
				if x.Op == token.NEQ {
					return "(.not " + s + ")"
				}
				return s
			}
			for _, pr := range [][2]ast.Expr{{x.X, x.Y}, {x.Y, x.X}} {
				if t.isVmErrorField(pr[0]) {
					if s, ok := t.text(pr[1]); ok {
						return wrap("(.vmErrorIs " + leanStr(s) + ")")
					}
				}
				if id, ok := pr[0].(*ast.Ident); ok {
					if nl, ok := pr[1].(*ast.Ident); ok && nl.Name == "nil" {
						if t.unpackE[id.Name] {
							return wrap(".unpackOk")
						}
					}
				}
			}
		case token.GTR:
			// len(res.VmError) > 0
			if c, ok := x.X.(*ast.CallExpr); ok && len(c.Args) == 1 && t.flat(c.Fun) == "len" && t.isVmErrorField(c.Args[0]) && t.flat(x.Y) == "0" {
				return "(.not (.vmErrorIs \"\"))"
			}
		}
	}
	return "(.opaque " + leanStr(t.flat(e)) + ")"
}

func (t *c18evmT) val(e ast.Expr) string {
	if s, ok := t.text(e); ok {
		return "(.lit " + leanStr(s) + ")"
	}
	if id, ok := e.(*ast.Ident); ok && t.cause[id.Name] {
		return ".cause"
	}
	if t.isVmErrorField(e) {
		return ".vmError"
	}
	return "(.opaque " + leanStr(t.flat(e)) + ")"
}

func c18seq(xs []string) string {
	var ys []string
	for _, x := range xs {
		if x != ".skip" {
			ys = append(ys, x)
		}
	}
	if len(ys) == 0 {
		return ".skip"
	}
	out := ys[len(ys)-1]
	for i := len(ys) - 2; i >= 0; i-- {
		out = "(.seq " + ys[i] + " " + out + ")"
	}
	return out
}

func (t *c18evmT) isUnpack(e ast.Expr) bool {
	c, ok := e.(*ast.CallExpr)
	if !ok {
		return false
	}
	sel, ok := c.Fun.(*ast.SelectorExpr)
	return ok && sel.Sel.Name == "UnpackRevert"
}

func (t *c18evmT) stmt(s ast.Stmt) string {
	if s == nil {
		return ".skip"
	}
	switch x := s.(type) {
	case *ast.BlockStmt:
		var xs []string
		for _, y := range x.List {
			xs = append(xs, t.stmt(y))
		}
		return c18seq(xs)
	case *ast.AssignStmt:
		if len(x.Rhs) == 1 && t.isUnpack(x.Rhs[0]) && len(x.Lhs) == 2 {
			if a, ok := x.Lhs[0].(*ast.Ident); ok {
				t.cause[a.Name] = true
			}
			if b, ok := x.Lhs[1].(*ast.Ident); ok {
				t.unpackE[b.Name] = true
			}
			return ".unpack"
		}
		var xs []string
		for i, l := range x.Lhs {
			if !t.isResLhs(l) {
				continue
			}
			if t.isVmErrorField(l) && len(x.Lhs) == len(x.Rhs) && x.Tok == token.ASSIGN {
				xs = append(xs, "(.setVmError "+t.val(x.Rhs[i])+")")
			} else {
				xs = append(xs, "(.opaqueWrite "+leanStr(t.flat(x))+")")
			}
		}
		if len(xs) == 0 {
			if w, _ := t.touches(x); w {
				return "(.opaqueWrite " + leanStr(t.flat(x)) + ")"
			}
		}
		return c18seq(xs)
	case *ast.ReturnStmt:
		// (response, error): the error result decides
		if len(x.Results) == 2 {
			if id, ok := x.Results[1].(*ast.Ident); ok && id.Name == "nil" {
				if r, ok := x.Results[0].(*ast.Ident); ok && r.Name == t.res {
					return ".retResp"
				}
				return "(.opaqueWrite " + leanStr(t.flat(x)) + ")"
			}
			return ".retErr"
		}
		return "(.opaqueWrite " + leanStr(t.flat(x)) + ")"
	case *ast.IfStmt:
		w, r := t.touches(x)
		if !w && !r {
			return ".skip"
		}
		init := ".skip"
		if x.Init != nil {
			init = t.stmt(x.Init)
		}
		c := t.cond(x.Cond)
		th := t.stmt(x.Body)
		el := ".skip"
		if x.Else != nil {
			el = t.stmt(x.Else)
		}
		return c18seq([]string{init, "(.ite " + c + " " + th + " " + el + ")"})
	case *ast.ForStmt, *ast.RangeStmt, *ast.SwitchStmt, *ast.TypeSwitchStmt, *ast.SelectStmt:
		w, r := t.touches(x)
		if w {
			return "(.opaqueWrite " + leanStr(firstWords(t.flat(x), 12)) + ")"
		}
		if r {
			// a loop whose body may leave the function: does it? decided by the environment; all such returns hand back an error
			onlyErr := true
			ast.Inspect(x, func(n ast.Node) bool {
				if rs, ok := n.(*ast.ReturnStmt); ok {
					if len(rs.Results) != 2 || t.flat(rs.Results[1]) == "nil" {
						onlyErr = false
					}
				}
				return true
			})
			if onlyErr {
				return "(.ite (.opaque " + leanStr("leaves: "+firstWords(t.flat(x), 8)) + ") .retErr .skip)"
			}
			return "(.opaqueWrite " + leanStr(firstWords(t.flat(x), 12)) + ")"
		}
		return ".skip"
	default:
		if w, _ := t.touches(s); w {
			return "(.opaqueWrite " + leanStr(firstWords(t.flat(s), 12)) + ")"
		}
		return ".skip"
	}
}

// post: the statements after `res, err := k.ApplyMessage(…)`; the `if err != nil { return nil, err }` that follows it
// directly is the propagation of ApplyMessage's own error (Env.ok of the leaf) and is recorded separately.
func (t *c18evmT) post(fd *ast.FuncDecl) (prog string, propagates bool, found bool) {
	if fd == nil || fd.Body == nil {
		return ".skip", false, false
	}
	idx := -1
	for i, s := range fd.Body.List {
		as, ok := s.(*ast.AssignStmt)
		if !ok || len(as.Rhs) != 1 || len(as.Lhs) != 2 {
			continue
		}
		if c, ok := as.Rhs[0].(*ast.CallExpr); ok {
			if sel, ok := c.Fun.(*ast.SelectorExpr); ok && sel.Sel.Name == "ApplyMessage" {
				if a, ok := as.Lhs[0].(*ast.Ident); ok {
					t.res = a.Name
				}
				if b, ok := as.Lhs[1].(*ast.Ident); ok {
					t.applyErr = b.Name
				}
				idx = i
			}
		}
	}
	if idx < 0 {
		return ".skip", false, false
	}
	rest := fd.Body.List[idx+1:]
	if len(rest) > 0 {
		if is, ok := rest[0].(*ast.IfStmt); ok && is.Init == nil && t.flat(is.Cond) == t.applyErr+" != nil" && len(is.Body.List) == 1 {
			if rs, ok := is.Body.List[0].(*ast.ReturnStmt); ok && len(rs.Results) == 2 && t.flat(rs.Results[1]) == t.applyErr {
				propagates = true
				rest = rest[1:]
			}
		}
	}
	var xs []string
	for _, s := range rest {
		xs = append(xs, t.stmt(s))
	}
	return c18seq(xs), propagates, true
}

func extractC18Evm(c *ctxT) {
	var sb strings.Builder
	sb.WriteString("namespace FxVerif.Gen.C18E\n\n")
	sb.WriteString(`/-- a condition on the response of the interpreter inside CallEVM / CallEVMWithoutGas -/
inductive RCond where
  | vmErrorIs (text : String)   -- res.VmError == text  (vm.ErrX.Error() resolved through core/vm/errors.go)
  | failed                      -- res.Failed()
  | unpackOk                    -- the error of the last abi.UnpackRevert(res.Ret) is nil
  | opaque (src : String)       -- anything else: decided by the environment
  | not (c : RCond)
  | and (a b : RCond)
  | or (a b : RCond)
deriving DecidableEq, Repr

inductive RVal where
  | lit (s : String) | cause | vmError | opaque (src : String)
deriving DecidableEq, Repr

/-- the statements after ` + "`res, err := k.ApplyMessage(…)`" + ` that write the response or leave the function -/
inductive RStmt where
  | skip
  | seq (a b : RStmt)
  | unpack                      -- cause, e := abi.UnpackRevert(res.Ret)
  | setVmError (v : RVal)       -- res.VmError = v
  | opaqueWrite (src : String)  -- any other write of the response / unrecognised return
  | ite (c : RCond) (t e : RStmt)
  | retResp                     -- return res, nil
  | retErr                      -- return …, <error>
deriving DecidableEq, Repr

/-- the body of ` + "`MsgEthereumTxResponse.Failed()`" + ` -/
inductive FailedDef where
  | vmErrorNonEmpty             -- len(m.VmError) > 0  /  m.VmError != ""
  | opaque (src : String)
deriving DecidableEq, Repr

`)
	// --- dependencies
	vmTexts := map[string]string{}
	var vmOrder []string
	var vmFormats []string
	if dir := c.depDir("github.com/ethereum/go-ethereum"); dir != "" {
		if bz, err := os.ReadFile(filepath.Join(dir, "core", "vm", "errors.go")); err == nil {
			re := regexp.MustCompile(`(?m)^\s*(Err\w+)\s*=\s*errors\.New\(("(?:[^"\\]|\\.)*")\)`)
			for _, m := range re.FindAllStringSubmatch(string(bz), -1) {
				if s, err := strconv.Unquote(m[2]); err == nil {
					vmTexts[m[1]] = s
					vmOrder = append(vmOrder, m[1])
				}
			}
			// struct errors: func (e *ErrX) Error() string { return fmt.Sprintf("…", …) }
			re2 := regexp.MustCompile(`(?m)func \(e \*?(\w+)\) Error\(\) string \{\s*return fmt\.Sprintf\(("(?:[^"\\]|\\.)*")`)
			for _, m := range re2.FindAllStringSubmatch(string(bz), -1) {
				if s, err := strconv.Unquote(m[2]); err == nil {
					// the literal prefix before the first verb
					if i := strings.IndexByte(s, '%'); i >= 0 {
						s = s[:i]
					}
					vmFormats = append(vmFormats, "("+leanStr(m[1])+", "+leanStr(s)+")")
				}
			}
		}
	}
	var vt []string
	for _, n := range vmOrder {
		vt = append(vt, "("+leanStr(n)+", "+leanStr(vmTexts[n])+")")
	}
	sb.WriteString("/-- texts of the interpreter's errors (go-ethereum core/vm/errors.go at the version / replacement of /repo/go.mod) -/\n")
	sb.WriteString("def vmErrorTexts : List (String × String) := " + leanList(vt) + "\n\n")
	sb.WriteString("/-- struct errors of the interpreter: type, literal prefix of the Sprintf format of Error() -/\n")
	sb.WriteString("def vmErrorFormats : List (String × String) := " + leanList(vmFormats) + "\n\n")
	sb.WriteString("def revertText : String := " + leanStr(vmTexts["ErrExecutionReverted"]) + "\n\n")

	failedDef := "(.opaque \"not found\")"
	if fd := c.depFunc("github.com/evmos/ethermint", "x/evm/types/tx.go", "MsgEthereumTxResponse", "Failed"); fd != nil && fd.Body != nil && len(fd.Body.List) == 1 {
		if rs, ok := fd.Body.List[0].(*ast.ReturnStmt); ok && len(rs.Results) == 1 {
			s := strings.Join(strings.Fields(c.src(rs.Results[0])), " ")
			recv := ""
			if fd.Recv != nil && len(fd.Recv.List) == 1 && len(fd.Recv.List[0].Names) == 1 {
				recv = fd.Recv.List[0].Names[0].Name
			}
			switch s {
			case "len(" + recv + ".VmError) > 0", recv + ".VmError != \"\"", "len(" + recv + ".VmError) != 0":
				failedDef = ".vmErrorNonEmpty"
			default:
				failedDef = "(.opaque " + leanStr(s) + ")"
			}
		}
	}
	sb.WriteString("def failedDef : FailedDef := " + failedDef + "\n\n")

	// selectors abi.UnpackRevert decodes: Keccak256([]byte("Sig(…)")) in accounts/abi/abi.go referenced from UnpackRevert
	var sels []string
	if dir := c.depDir("github.com/ethereum/go-ethereum"); dir != "" {
		path := filepath.Join(dir, "accounts", "abi", "abi.go")
		fset := token.NewFileSet()
		if f, err := parser.ParseFile(fset, path, nil, 0); err == nil {
			vars := map[string]string{}
			re := regexp.MustCompile(`Keccak256\(\[\]byte\(("(?:[^"\\]|\\.)*")\)\)`)
			saved := c.fset
			c.fset = fset
			for _, d := range f.Decls {
				if gd, ok := d.(*ast.GenDecl); ok && gd.Tok == token.VAR {
					for _, sp := range gd.Specs {
						vs := sp.(*ast.ValueSpec)
						for i, n := range vs.Names {
							if i < len(vs.Values) {
								if m := re.FindStringSubmatch(c.src(vs.Values[i])); m != nil {
									if s, err := strconv.Unquote(m[1]); err == nil {
										vars[n.Name] = s
									}
								}
							}
						}
					}
				}
			}
			for _, d := range f.Decls {
				if fd, ok := d.(*ast.FuncDecl); ok && fd.Name.Name == "UnpackRevert" && fd.Body != nil {
					ast.Inspect(fd.Body, func(n ast.Node) bool {
						if id, ok := n.(*ast.Ident); ok {
							if s, ok := vars[id.Name]; ok {
								dup := false
								for _, x := range sels {
									dup = dup || x == s
								}
								if !dup {
									sels = append(sels, s)
								}
							}
						}
						return true
					})
				}
			}
			c.fset = saved
		}
	}
	sort.Strings(sels)
	sb.WriteString("/-- signatures whose selector abi.UnpackRevert decodes into a reason string -/\n")
	sb.WriteString("def unpackRevertSelectors : List String := " + leanStrs(sels) + "\n\n")

	// --- ApplyMessageWithConfig (ethermint fork): where the response's VmError and Ret come from
	{
		vmExpr, retExpr := "?", "?"
		var assigns, callers []string
		if fd := c.depFunc("github.com/evmos/ethermint", "x/evm/keeper/state_transition.go", "Keeper", "ApplyMessageWithConfig"); fd != nil && fd.Body != nil {
			flat := func(n ast.Node) string { return strings.Join(strings.Fields(c.src(n)), " ") }
			ast.Inspect(fd.Body, func(n ast.Node) bool {
				if cl, ok := n.(*ast.CompositeLit); ok && strings.HasSuffix(flat(cl.Type), "MsgEthereumTxResponse") {
					for _, el := range cl.Elts {
						if kv, ok := el.(*ast.KeyValueExpr); ok {
							switch flat(kv.Key) {
							case "VmError":
								vmExpr = flat(kv.Value)
							case "Ret":
								retExpr = flat(kv.Value)
							}
						}
					}
				}
				return true
			})
			// every assignment to the VmError variable with its enclosing if-condition; every assignment to the variable it reads
			var walk func(n ast.Node, cond string)
			walk = func(n ast.Node, cond string) {
				switch x := n.(type) {
				case *ast.BlockStmt:
					for _, st := range x.List {
						walk(st, cond)
					}
				case *ast.IfStmt:
					walk(x.Body, strings.TrimSpace(cond+" "+flat(x.Cond)))
					if x.Else != nil {
						walk(x.Else, strings.TrimSpace(cond+" !("+flat(x.Cond)+")"))
					}
				case *ast.ForStmt:
					walk(x.Body, cond+" for")
				case *ast.RangeStmt:
					walk(x.Body, cond+" for")
				case *ast.AssignStmt:
					for i, l := range x.Lhs {
						if flat(l) == vmExpr {
							rhs := flat(x.Rhs[0])
							if len(x.Rhs) == len(x.Lhs) {
								rhs = flat(x.Rhs[i])
							}
							assigns = append(assigns, "("+leanStr(cond)+", "+leanStr(rhs)+")")
						}
						if flat(l) == "vmErr" && len(x.Rhs) == 1 {
							if ce, ok := x.Rhs[0].(*ast.CallExpr); ok {
								callers = append(callers, leanStr(flat(ce.Fun)))
							}
						}
					}
				}
			}
			walk(fd.Body, "")
		}
		sb.WriteString("/-- `ApplyMessageWithConfig` (ethermint fork at the replacement of /repo/go.mod): the expressions of the response's\n`VmError` and `Ret` fields, every assignment to the `VmError` variable (enclosing conditions, right-hand side), and the\ninterpreter entry points whose error becomes `vmErr` -/\n")
		sb.WriteString("def applyMessageVmErrorExpr : String := " + leanStr(vmExpr) + "\n")
		sb.WriteString("def applyMessageRetExpr : String := " + leanStr(retExpr) + "\n")
		sb.WriteString("def applyMessageVmErrorAssigns : List (String × String) := " + leanList(assigns) + "\n")
		sb.WriteString("def applyMessageVmErrSources : List String := " + leanList(callers) + "\n\n")
	}

	// --- the two helpers of fx-core
	alias := "vm"
	if p := c.pkg("x/evm/keeper"); p != nil {
		for _, f := range p {
			for a, path := range imports(f) {
				if path == "github.com/ethereum/go-ethereum/core/vm" {
					alias = a
				}
			}
		}
	}
	facts := map[string]any{}
	for _, fn := range []struct{ goName, leanName string }{{"CallEVM", "callEVMPost"}, {"CallEVMWithoutGas", "callEVMWithoutGasPost"}} {
		t := &c18evmT{c: c, cause: map[string]bool{}, unpackE: map[string]bool{}, vmTexts: vmTexts, aliasVm: alias}
		fd := c.findFunc("x/evm/keeper", "Keeper", fn.goName)
		prog, prop, found := t.post(fd)
		if !found {
			prog = "(.opaqueWrite " + leanStr("no `res, err := k.ApplyMessage(…)` in "+fn.goName) + ")"
		}
		sb.WriteString("/-- `x/evm/keeper.Keeper." + fn.goName + "` after `res, err := k.ApplyMessage(…)` -/\n")
		sb.WriteString("def " + fn.leanName + " : RStmt := " + prog + "\n\n")
		sb.WriteString("/-- `if err != nil { return nil, err }` directly follows ApplyMessage -/\n")
		sb.WriteString("def " + fn.leanName + "Propagates : Bool := " + map[bool]string{true: "true", false: "false"}[prop] + "\n\n")
		facts[fn.goName] = prog
	}
	sb.WriteString("end FxVerif.Gen.C18E\n")
	c.write("C18E.lean", sb.String())
	c.facts["C18E.post"] = facts
	c.facts["C18E.vmErrorTexts"] = vmTexts
	c.facts["C18E.unpackRevertSelectors"] = sels
}
