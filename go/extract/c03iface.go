package main

import (
	"fmt"
	"go/ast"
	"sort"
	"strings"
)

// C03, round 4: every use of a value of the INTERFACE type `types.ExternalClaim` in x/crosschain/keeper.
//
// The typed scans (c03view.go, c03flow.go) follow variables of a concrete claim type.  Before a claim reaches a handler it
// travels as `types.ExternalClaim` through `MsgServer.Claim`, `claimLogicCheck`, `Attest`, `TryAttestation`,
// `processAttestation`, `AttestationHandler`, `SavePendingExecuteClaim`, `ExecuteClaim`, the iterators and genesis.  This scan
// tracks, per function, the set of local variables that hold such a value — parameters of that type, results of calls whose
// declared result type is `types.ExternalClaim` (repository functions are looked up), type assertions to it, closure
// parameters of that type, and plain re-bindings `y := x` of a tracked variable (a small forward data-flow to a fixed
// point) — and records every use of a tracked variable:
//
//   call   v.M(...)            a method of the interface
//   pass   f(..., v, ...)      the value handed to a function (callee name; which argument)
//   typed  v.(type) / v.(*T)   a type switch or assertion (the typed scans take over from there)
//   value  anything else       stored in a composite literal, returned, compared, …
//
// `Props/C03.lean` `interface_uses_classified` checks the regenerated table against an allow-list (getters of fields every
// ClaimHash covers, the hash itself, the type, hand-overs to functions that are themselves scanned or that store the claim
// as it is); logging and telemetry calls are skipped.

type c03IUse struct {
	Fn, Kind, What, Where string
}

func (c *ctxT) c03ResultIsClaim(fun ast.Expr) bool {
	name := ""
	switch f := fun.(type) {
	case *ast.SelectorExpr:
		name = f.Sel.Name
	case *ast.Ident:
		name = f.Name
	}
	if name == "" {
		return false
	}
	for _, rel := range []string{c03Keeper, c03Pkg} {
		for _, fd := range c.funcDecls(rel) {
			if fd.Name.Name != name || fd.Type.Results == nil {
				continue
			}
			for _, r := range fd.Type.Results.List {
				if t := c.src(r.Type); t == "types.ExternalClaim" || t == "ExternalClaim" {
					return true
				}
			}
		}
	}
	return false
}

func (c *ctxT) c03InterfaceUses() []c03IUse {
	var out []c03IUse
	isClaimT := func(t ast.Expr) bool {
		s := c.src(t)
		return s == "types.ExternalClaim" || s == "ExternalClaim"
	}
	for _, fd := range c.funcDecls(c03Keeper) {
		if fd.Body == nil {
			continue
		}
		tracked := map[string]bool{}
		for _, p := range fd.Type.Params.List {
			if isClaimT(p.Type) {
				for _, nm := range p.Names {
					tracked[nm.Name] = true
				}
			}
		}
		// closure parameters of the interface type
		ast.Inspect(fd.Body, func(n ast.Node) bool {
			if fl, ok := n.(*ast.FuncLit); ok {
				for _, p := range fl.Type.Params.List {
					if isClaimT(p.Type) {
						for _, nm := range p.Names {
							tracked[nm.Name] = true
						}
					}
				}
			}
			return true
		})
		// forward data-flow: locals bound to a claim value
		for changed := true; changed; {
			changed = false
			ast.Inspect(fd.Body, func(n ast.Node) bool {
				as, ok := n.(*ast.AssignStmt)
				if !ok || len(as.Rhs) != 1 || len(as.Lhs) == 0 {
					return true
				}
				lhs, ok := as.Lhs[0].(*ast.Ident)
				if !ok || lhs.Name == "_" || tracked[lhs.Name] {
					return true
				}
				is := false
				switch r := as.Rhs[0].(type) {
				case *ast.Ident:
					is = tracked[r.Name]
				case *ast.TypeAssertExpr:
					is = r.Type != nil && isClaimT(r.Type)
				case *ast.CallExpr:
					is = c.c03ResultIsClaim(r.Fun)
				}
				if is {
					tracked[lhs.Name] = true
					changed = true
				}
				return true
			})
		}
		if len(tracked) == 0 {
			continue
		}
		fn := fd.Name.Name
		add := func(kind, what string, n ast.Node) {
			out = append(out, c03IUse{fn, kind, what, c.pos(n)})
		}
		isTracked := func(e ast.Expr) bool {
			id, ok := e.(*ast.Ident)
			return ok && tracked[id.Name]
		}
		var visit func(n ast.Node) bool
		visit = func(n ast.Node) bool {
			switch m := n.(type) {
			case *ast.CallExpr:
				fun := c.src(m.Fun)
				if c03IsLogCall(fun) {
					return false
				}
				if se, ok := m.Fun.(*ast.SelectorExpr); ok && isTracked(se.X) {
					add("call", se.Sel.Name, m)
					for _, a := range m.Args {
						ast.Inspect(a, visit)
					}
					return false
				}
				short := fun
				if i := strings.LastIndex(short, "."); i >= 0 {
					short = short[i+1:]
				}
				for i, a := range m.Args {
					if isTracked(a) {
						add("pass", fmt.Sprintf("%s#%d", short, i), m)
					} else {
						ast.Inspect(a, visit)
					}
				}
				ast.Inspect(m.Fun, visit)
				return false
			case *ast.TypeAssertExpr:
				if isTracked(m.X) {
					t := "(type)"
					if m.Type != nil {
						t = c.src(m.Type)
					}
					add("typed", t, m)
					return false
				}
			case *ast.AssignStmt:
				// the binding occurrences and plain re-bindings of tracked variables are not uses
				for _, r := range m.Rhs {
					if id, ok := r.(*ast.Ident); ok && tracked[id.Name] && len(m.Lhs) == len(m.Rhs) {
						continue
					}
					ast.Inspect(r, visit)
				}
				for _, l := range m.Lhs {
					if _, ok := l.(*ast.Ident); !ok {
						ast.Inspect(l, visit)
					}
				}
				return false
			case *ast.SelectorExpr:
				if isTracked(m.X) {
					add("value", "selector "+m.Sel.Name, m)
					return false
				}
			case *ast.Ident:
				if tracked[m.Name] {
					add("value", "used as a value", m)
				}
				return false
			case *ast.Field:
				return false
			}
			return true
		}
		ast.Inspect(fd.Body, visit)
	}
	// dedupe (fn, kind, what)
	seen := map[string]bool{}
	var ded []c03IUse
	for _, u := range out {
		k := u.Fn + "\x00" + u.Kind + "\x00" + u.What
		if !seen[k] {
			seen[k] = true
			ded = append(ded, u)
		}
	}
	sort.SliceStable(ded, func(i, j int) bool {
		if ded[i].Fn != ded[j].Fn {
			return ded[i].Fn < ded[j].Fn
		}
		if ded[i].Kind != ded[j].Kind {
			return ded[i].Kind < ded[j].Kind
		}
		return ded[i].What < ded[j].What
	})
	return ded
}

func (c *ctxT) c03InterfaceLean() string {
	uses := c.c03InterfaceUses()
	var sb strings.Builder
	sb.WriteString("/-- every use of a value of the interface type `types.ExternalClaim` in x/crosschain/keeper: (function, kind, what) —\n`call` a method of the interface, `pass` handed to `callee#argument`, `typed` a type switch / assertion, `value` anything else -/\ndef interfaceUses : List (String × String × String) := [")
	var facts []map[string]string
	for i, u := range uses {
		if i > 0 {
			sb.WriteString(",")
		}
		fmt.Fprintf(&sb, "\n  -- %s\n  (%s, %s, %s)", u.Where, leanStr(u.Fn), leanStr(u.Kind), leanStr(u.What))
		facts = append(facts, map[string]string{"fn": u.Fn, "kind": u.Kind, "what": u.What, "where": u.Where})
	}
	sb.WriteString("\n]\n\n")
	c.facts["C03.interfaceUses"] = facts
	return sb.String()
}
