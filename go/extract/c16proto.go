package main

// C16: who the SDK takes as the signer of an authority-carrying message is declared in the .proto files
// (`option (cosmos.msg.v1.signer) = "authority";`).  Text scanner over /repo/proto -> Gen/C16Proto.lean.

import (
	"fmt"
	"os"
	"path/filepath"
	"regexp"
	"sort"
	"strings"
)

func init() { register(extractC16Proto) }

func extractC16Proto(c *ctxT) {
	type pm struct {
		name    string
		signers []string
		auth    bool
	}
	var out []pm
	pkgRe := regexp.MustCompile(`(?m)^\s*package\s+([\w.]+)\s*;`)
	msgRe := regexp.MustCompile(`(?m)^message\s+(\w+)\s*\{`)
	sigRe := regexp.MustCompile(`option\s*\(\s*cosmos\.msg\.v1\.signer\s*\)\s*=\s*"([^"]*)"\s*;`)
	authRe := regexp.MustCompile(`(?m)^\s*string\s+authority\s*=\s*\d+`)
	cmtRe := regexp.MustCompile(`(?m)//.*$`)
	_ = filepath.Walk(filepath.Join(c.repo, "proto"), func(p string, info os.FileInfo, err error) error {
		if err != nil || info.IsDir() || !strings.HasSuffix(p, ".proto") {
			return nil
		}
		bz, err := os.ReadFile(p)
		if err != nil {
			return nil
		}
		src := cmtRe.ReplaceAllString(string(bz), "")
		pkg := ""
		if m := pkgRe.FindStringSubmatch(src); m != nil {
			pkg = m[1]
		}
		for _, loc := range msgRe.FindAllStringSubmatchIndex(src, -1) {
			name := src[loc[2]:loc[3]]
			// body: up to the matching brace
			depth, i := 0, loc[1]-1
			end := len(src)
			for ; i < len(src); i++ {
				if src[i] == '{' {
					depth++
				} else if src[i] == '}' {
					depth--
					if depth == 0 {
						end = i
						break
					}
				}
			}
			body := src[loc[1]:end]
			m := pm{name: pkg + "." + name, auth: authRe.MatchString(body)}
			for _, s := range sigRe.FindAllStringSubmatch(body, -1) {
				m.signers = append(m.signers, s[1])
			}
			if m.auth || len(m.signers) > 0 {
				out = append(out, m)
			}
		}
		return nil
	})
	sort.Slice(out, func(i, j int) bool { return out[i].name < out[j].name })
	var sb strings.Builder
	sb.WriteString("namespace FxVerif.Gen.C16Proto\n\n")
	sb.WriteString("/-- (proto full name, values of `option (cosmos.msg.v1.signer)`, has a `string authority` field) for every message of\n/repo/proto that has a signer option or an authority field -/\ndef msgs : List (String × List String × Bool) := [\n")
	facts := map[string][]string{}
	for i, m := range out {
		sep := ","
		if i == len(out)-1 {
			sep = ""
		}
		fmt.Fprintf(&sb, "  (%s, %s, %v)%s\n", leanStr(m.name), leanStrList(m.signers), m.auth, sep)
		if m.auth {
			facts[m.name] = m.signers
		}
	}
	sb.WriteString("]\n\nend FxVerif.Gen.C16Proto\n")
	c.write("C16Proto.lean", sb.String())
	c.facts["C16.protoSigners"] = facts
}
