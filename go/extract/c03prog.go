package main

import (
	"fmt"
	"go/ast"
	"go/token"
	"regexp"
	"strconv"
	"strings"
)

var regexpVar = regexp.MustCompile(`\.var "([^"]+)"`)

// C03, round 3: the statement list of a claim handler as a program the Lean model INTERPRETS (Model/C03Prog.lean).
//
// `AddBridgeTokenExecuted` is the handler whose stored effect depends on a voted field in a non-trivial way (`Symbol` only
// through `== "FX"`, `Decimals` only when it is, the module name and `TokenContract` through `NewBridgeDenom`).  Its body is
// translated statement by statement into lines `(guards, statement)`: an `if c { body }` contributes `c` to the guards of every
// statement of `body` (the translator refuses — emits `.unknown` — when a guard reads something its own body changes, since
// the guards are evaluated when the statement is reached).  String expressions: fields of the claim, locals, `k.moduleName`,
// string constants of the repository, and calls of types-package functions whose body is `return fmt.Sprintf("%s…%s", …)`
// (concatenation, e.g. `NewBridgeDenom`).  Keeper helpers are recognised by their BODY: `store.Has(types.<K>(p))` is
// `hasKey p`, `store.Set(types.<K>(p), []byte(q))` is `setKey p q` for the same key function <K>.  Anything else becomes
// `.unknown "<source>"`, which makes `bridgeToken_prog_modelled` (and the correspondence with the real handler) fail.

type c03Line struct {
	Guards []string
	Stmt   string
	Src    string
}

type c03Prog struct {
	c        *ctxT
	file     *ast.File
	imports  map[string]string
	claimVar string
	ftype    map[string]string
	keyFn    string // the key function both store helpers use
	problems []string
}

// storeHelper: is keeper method `name` of the shape `store := ctx.KVStore(k.storeKey); [return] store.<op>(types.<K>(p0)[, []byte(p1)])`
func (p *c03Prog) storeHelper(name, op string) (keyFn string, ok bool) {
	fd := p.c.findFunc(c03Keeper, "Keeper", name)
	if fd == nil || fd.Body == nil {
		return "", false
	}
	names, _ := p.c.fnParams(fd)
	var found string
	ast.Inspect(fd.Body, func(n ast.Node) bool {
		ce, ok := n.(*ast.CallExpr)
		if !ok || p.c.src(ce.Fun) != "store."+op {
			return true
		}
		if len(ce.Args) == 0 {
			return true
		}
		kc, ok := ce.Args[0].(*ast.CallExpr)
		if !ok || len(kc.Args) != 1 || len(names) < 2 || p.c.src(kc.Args[0]) != names[1] {
			return true
		}
		if op == "Set" && (len(ce.Args) != 2 || len(names) < 3 || p.c.src(ce.Args[1]) != "[]byte("+names[2]+")") {
			return true
		}
		found = strings.TrimPrefix(p.c.src(kc.Fun), "types.")
		return false
	})
	// no other store write in the helper
	writes := 0
	ast.Inspect(fd.Body, func(n ast.Node) bool {
		if ce, ok := n.(*ast.CallExpr); ok {
			if f := p.c.src(ce.Fun); f == "store.Set" || f == "store.Delete" {
				writes++
			}
		}
		return true
	})
	if found == "" || (op == "Has" && writes != 0) || (op == "Set" && writes != 1) {
		return "", false
	}
	return found, true
}

// sprintfConcat: a types-package function `func F(a, b string) string { return fmt.Sprintf("%s%s", a, b) }` as the order of its
// parameters (and literal pieces) in the result
func (p *c03Prog) sprintfConcat(rel, name string) ([]string, bool) {
	fd := p.c.findFunc(rel, "", name)
	if fd == nil || fd.Body == nil || len(fd.Body.List) != 1 {
		return nil, false
	}
	rs, ok := fd.Body.List[0].(*ast.ReturnStmt)
	if !ok || len(rs.Results) != 1 {
		return nil, false
	}
	ce, ok := rs.Results[0].(*ast.CallExpr)
	if !ok || p.c.src(ce.Fun) != "fmt.Sprintf" || len(ce.Args) < 1 {
		return nil, false
	}
	lit, ok := ce.Args[0].(*ast.BasicLit)
	if !ok || lit.Kind != token.STRING {
		return nil, false
	}
	format, err := strconv.Unquote(lit.Value)
	if err != nil {
		return nil, false
	}
	names, tys := p.c.fnParams(fd)
	idx := map[string]int{}
	for i, n := range names {
		if tys[i] != "string" {
			return nil, false
		}
		idx[n] = i
	}
	var parts []string
	arg := 1
	for len(format) > 0 {
		i := strings.Index(format, "%")
		if i < 0 {
			parts = append(parts, "lit:"+format)
			break
		}
		if i > 0 {
			parts = append(parts, "lit:"+format[:i])
		}
		if i+1 >= len(format) || format[i+1] != 's' || arg >= len(ce.Args) {
			return nil, false
		}
		id, ok := ce.Args[arg].(*ast.Ident)
		if !ok {
			return nil, false
		}
		j, ok := idx[id.Name]
		if !ok {
			return nil, false
		}
		parts = append(parts, fmt.Sprintf("arg:%d", j))
		arg++
		format = format[i+2:]
	}
	return parts, true
}

func (p *c03Prog) relOf(alias string) string {
	ip := p.imports[alias]
	if strings.HasPrefix(ip, modPath) {
		return strings.TrimPrefix(ip, modPath)
	}
	return ""
}

func (p *c03Prog) sexpr(e ast.Expr) string {
	c := p.c
	switch n := e.(type) {
	case *ast.ParenExpr:
		return p.sexpr(n.X)
	case *ast.BasicLit:
		if n.Kind == token.STRING {
			if s, err := strconv.Unquote(n.Value); err == nil {
				return ".lit " + c03CharList(s)
			}
		}
	case *ast.Ident:
		return ".var " + leanStr(n.Name)
	case *ast.SelectorExpr:
		if id, ok := n.X.(*ast.Ident); ok {
			if id.Name == p.claimVar && p.ftype[n.Sel.Name] == "string" {
				return ".field " + leanStr(n.Sel.Name)
			}
			if (id.Name == "k" || id.Name == "s") && n.Sel.Name == "moduleName" {
				return ".moduleName"
			}
			if rel := p.relOf(id.Name); rel != "" {
				if s := c.constString(rel, n.Sel.Name); s != "" {
					return ".lit " + c03CharList(s)
				}
			}
		}
	case *ast.CallExpr:
		if se, ok := n.Fun.(*ast.SelectorExpr); ok {
			if id, ok := se.X.(*ast.Ident); ok {
				if rel := p.relOf(id.Name); rel != "" {
					if parts, ok := p.sprintfConcat(rel, se.Sel.Name); ok && len(parts) > 0 {
						var terms []string
						for _, pt := range parts {
							if strings.HasPrefix(pt, "lit:") {
								terms = append(terms, "(.lit "+c03CharList(strings.TrimPrefix(pt, "lit:"))+")")
							} else {
								j, _ := strconv.Atoi(strings.TrimPrefix(pt, "arg:"))
								if j >= len(n.Args) {
									return ".unknown " + leanStr(c.src(e))
								}
								terms = append(terms, "("+p.sexpr(n.Args[j])+")")
							}
						}
						out := terms[len(terms)-1]
						for i := len(terms) - 2; i >= 0; i-- {
							out = "(.cat " + terms[i] + " " + out + ")"
						}
						return strings.TrimSuffix(strings.TrimPrefix(out, "("), ")")
					}
				}
			}
		}
	}
	return ".unknown " + leanStr(strings.Join(strings.Fields(c.src(e)), " "))
}

func (p *c03Prog) nexpr(e ast.Expr) string {
	c := p.c
	switch n := e.(type) {
	case *ast.ParenExpr:
		return p.nexpr(n.X)
	case *ast.BasicLit:
		if n.Kind == token.INT {
			return ".lit " + n.Value
		}
	case *ast.SelectorExpr:
		if id, ok := n.X.(*ast.Ident); ok {
			if id.Name == p.claimVar && (p.ftype[n.Sel.Name] == "uint64" || p.ftype[n.Sel.Name] == "uint32") {
				return ".field " + leanStr(n.Sel.Name)
			}
			if rel := p.relOf(id.Name); rel != "" {
				if v := c.valueSpec(rel, n.Sel.Name); v != nil {
					if bl, ok := v.(*ast.BasicLit); ok && bl.Kind == token.INT {
						return ".lit " + bl.Value
					}
				}
			}
		}
	case *ast.CallExpr:
		if id, ok := n.Fun.(*ast.Ident); ok && (id.Name == "uint64" || id.Name == "uint32" || id.Name == "int64" || id.Name == "int") && len(n.Args) == 1 {
			return p.nexpr(n.Args[0])
		}
	}
	return ".unknown " + leanStr(strings.Join(strings.Fields(c.src(e)), " "))
}

// isNumeric: does the expression denote a number (a numeric field, an integer constant, a conversion of one)
func (p *c03Prog) isNumeric(e ast.Expr) bool { return !strings.HasPrefix(p.nexpr(e), ".unknown") }

// cond translates a condition; `init` is the init statement of the `if` (e.g. `has := k.HasBridgeToken(ctx, e)`)
func (p *c03Prog) cond(init ast.Stmt, e ast.Expr) string {
	c := p.c
	if init != nil {
		if as, ok := init.(*ast.AssignStmt); ok && len(as.Lhs) == 1 && len(as.Rhs) == 1 {
			if id, ok := e.(*ast.Ident); ok && c.src(as.Lhs[0]) == id.Name {
				return p.cond(nil, as.Rhs[0])
			}
		}
		return ".unknown " + leanStr(strings.Join(strings.Fields(c.src(init)+"; "+c.src(e)), " "))
	}
	switch n := e.(type) {
	case *ast.ParenExpr:
		return p.cond(nil, n.X)
	case *ast.CallExpr:
		if se, ok := n.Fun.(*ast.SelectorExpr); ok {
			if id, ok := se.X.(*ast.Ident); ok && (id.Name == "k" || id.Name == "s") && len(n.Args) == 2 {
				if kf, ok := p.storeHelper(se.Sel.Name, "Has"); ok {
					if p.keyFn == "" {
						p.keyFn = kf
					}
					if kf == p.keyFn {
						return ".hasKey (" + p.sexpr(n.Args[1]) + ")"
					}
				}
			}
		}
	case *ast.BinaryExpr:
		if n.Op == token.EQL || n.Op == token.NEQ {
			neg := n.Op == token.NEQ
			if p.isNumeric(n.X) && p.isNumeric(n.Y) {
				if neg {
					return ".natNe (" + p.nexpr(n.X) + ") (" + p.nexpr(n.Y) + ")"
				}
				return ".natEq (" + p.nexpr(n.X) + ") (" + p.nexpr(n.Y) + ")"
			}
			a, b := p.sexpr(n.X), p.sexpr(n.Y)
			if !strings.HasPrefix(a, ".unknown") && !strings.HasPrefix(b, ".unknown") {
				if neg {
					return ".strNe (" + a + ") (" + b + ")"
				}
				return ".strEq (" + a + ") (" + b + ")"
			}
		}
	}
	return ".unknown " + leanStr(strings.Join(strings.Fields(c.src(e)), " "))
}

// reads / writes of a translated piece, for the guard-stability check
func c03Mentions(term string) (vars []string, store bool) {
	for _, m := range regexpVar.FindAllStringSubmatch(term, -1) {
		vars = append(vars, m[1])
	}
	return vars, strings.Contains(term, ".hasKey")
}

func (p *c03Prog) stmts(list []ast.Stmt, guards []string) (out []c03Line) {
	c := p.c
	for _, st := range list {
		src := strings.Join(strings.Fields(c.src(st)), " ")
		if len(src) > 120 {
			src = src[:120] + "…"
		}
		emit := func(s string) { out = append(out, c03Line{append([]string{}, guards...), s, src}) }
		switch n := st.(type) {
		case *ast.ExprStmt:
			ce, ok := n.X.(*ast.CallExpr)
			if !ok {
				emit(".unknown " + leanStr(src))
				continue
			}
			if c03IsLogCall(c.src(ce.Fun)) {
				continue
			}
			if se, ok := ce.Fun.(*ast.SelectorExpr); ok {
				if id, ok := se.X.(*ast.Ident); ok && (id.Name == "k" || id.Name == "s") && len(ce.Args) == 3 {
					if kf, ok := p.storeHelper(se.Sel.Name, "Set"); ok {
						if p.keyFn == "" {
							p.keyFn = kf
						}
						if kf == p.keyFn {
							emit(".setKey (" + p.sexpr(ce.Args[1]) + ") (" + p.sexpr(ce.Args[2]) + ")")
							continue
						}
					}
				}
			}
			emit(".unknown " + leanStr(src))
		case *ast.AssignStmt:
			if len(n.Lhs) == 1 && len(n.Rhs) == 1 {
				if id, ok := n.Lhs[0].(*ast.Ident); ok {
					emit(".assign " + leanStr(id.Name) + " (" + p.sexpr(n.Rhs[0]) + ")")
					continue
				}
			}
			emit(".unknown " + leanStr(src))
		case *ast.ReturnStmt:
			if len(n.Results) == 1 && c.src(n.Results[0]) == "nil" {
				emit(".retNil")
			} else if len(n.Results) == 1 {
				emit(".retErr")
			} else {
				emit(".unknown " + leanStr(src))
			}
		case *ast.IfStmt:
			if n.Else != nil {
				emit(".unknown " + leanStr("if/else: "+src))
				continue
			}
			g := p.cond(n.Init, n.Cond)
			body := p.stmts(n.Body.List, append(append([]string{}, guards...), g))
			// guards are evaluated when a statement is reached: the body must not change what its guard reads
			gv, gs := c03Mentions(g)
			stable := true
			for i, ln := range body {
				if i == len(body)-1 {
					break // the last statement's effect is not seen by any later statement of the body
				}
				if strings.HasPrefix(ln.Stmt, ".setKey") && gs {
					stable = false
				}
				for _, v := range gv {
					if strings.HasPrefix(ln.Stmt, ".assign "+leanStr(v)+" ") {
						stable = false
					}
				}
			}
			if !stable {
				emit(".unknown " + leanStr("guard reads what its body changes: "+src))
				continue
			}
			out = append(out, body...)
		default:
			emit(".unknown " + leanStr(src))
		}
	}
	return out
}

// c03ProgLean: the program of `AddBridgeTokenExecuted`
func (c *ctxT) c03ProgLean() string {
	var sb strings.Builder
	fn := "AddBridgeTokenExecuted"
	tn := "MsgBridgeTokenClaim"
	fd := c.findFunc(c03Keeper, "Keeper", fn)
	var lines []c03Line
	keyFn := ""
	where := ""
	if fd == nil || fd.Body == nil {
		lines = []c03Line{{nil, ".unknown " + leanStr(fn+" not found"), ""}}
	} else {
		where = c.pos(fd)
		var file *ast.File
		for _, f := range c.pkg(c03Keeper) {
			if f.Pos() <= fd.Pos() && fd.End() <= f.End() {
				file = f
			}
		}
		ftype := map[string]string{}
		if st := c.structs(c03Pkg)[tn]; st != nil {
			for _, f := range st.Fields.List {
				for _, n := range f.Names {
					ftype[n.Name] = c.src(f.Type)
				}
			}
		}
		claimVar := ""
		for _, prm := range fd.Type.Params.List {
			if t := c.src(prm.Type); t == "*types."+tn && len(prm.Names) == 1 {
				claimVar = prm.Names[0].Name
			}
		}
		p := &c03Prog{c: c, file: file, imports: imports(file), claimVar: claimVar, ftype: ftype}
		lines = p.stmts(fd.Body.List, nil)
		keyFn = p.keyFn
	}
	fmt.Fprintf(&sb, "/-- `Keeper.%s` (%s), statement by statement: `(guards, statement)`; the store it reads and writes is the one\nkeyed by `types.%s` -/\ndef addBridgeTokenProg : List HLine := [", fn, where, keyFn)
	var flines []map[string]any
	for i, ln := range lines {
		if i > 0 {
			sb.WriteString(",")
		}
		var gs []string
		for _, g := range ln.Guards {
			gs = append(gs, g)
		}
		fmt.Fprintf(&sb, "\n  -- %s\n  ⟨[%s], %s⟩", strings.ReplaceAll(ln.Src, "-/", "- /"), strings.Join(gs, ", "), ln.Stmt)
		flines = append(flines, map[string]any{"guards": ln.Guards, "stmt": ln.Stmt, "src": ln.Src})
	}
	sb.WriteString("\n]\n\n")
	fmt.Fprintf(&sb, "def addBridgeTokenStoreKey : String := %s\n\n", leanStr(keyFn))
	c.facts["C03.addBridgeTokenProg"] = flines
	return sb.String()
}
