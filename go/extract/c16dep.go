package main

// C16, dependency handlers: the message servers of the Cosmos SDK / IBC / ethermint modules the app wires in also carry
// authority-checked messages (MsgUpdateParams of every module, MsgSoftwareUpgrade, MsgCommunityPoolSpend, …).  Their
// source is not in /repo but in the Go module cache, at the versions (and replacements) /repo/go.mod pins; this
// translator finds them from what app/keepers/keepers.go and app/modules.go import, reads the keeper packages with the
// same statement-level translator as the fx-core handlers (c16sem.go) and emits Gen/C16Dep.lean: `impls`, `helpers`,
// `types` as terms of Model/C16Syntax.lean.  A dependency bump that changes a guard changes this file.

import (
	"fmt"
	"go/ast"
	"os"
	"path/filepath"
	"regexp"
	"sort"
	"strings"
)

func init() { register(extractC16Dep) }

type goMod struct {
	req map[string]string    // module path -> version
	rep map[string][2]string // module path -> (new path, new version)
}

func readGoMod(path string) goMod {
	gm := goMod{map[string]string{}, map[string][2]string{}}
	bz, err := os.ReadFile(path)
	if err != nil {
		return gm
	}
	block := ""
	reqRe := regexp.MustCompile(`^(\S+)\s+(v\S+)`)
	repRe := regexp.MustCompile(`^(\S+)(?:\s+v\S+)?\s+=>\s+(\S+)(?:\s+(v\S+))?`)
	for _, ln := range strings.Split(string(bz), "\n") {
		ln = strings.TrimSpace(ln)
		if i := strings.Index(ln, "//"); i >= 0 {
			ln = strings.TrimSpace(ln[:i])
		}
		switch {
		case ln == ")":
			block = ""
			continue
		case strings.HasPrefix(ln, "require ("):
			block = "require"
			continue
		case strings.HasPrefix(ln, "replace ("):
			block = "replace"
			continue
		case strings.HasPrefix(ln, "require "):
			if m := reqRe.FindStringSubmatch(strings.TrimPrefix(ln, "require ")); m != nil {
				gm.req[m[1]] = m[2]
			}
			continue
		case strings.HasPrefix(ln, "replace "):
			if m := repRe.FindStringSubmatch(strings.TrimPrefix(ln, "replace ")); m != nil {
				gm.rep[m[1]] = [2]string{m[2], m[3]}
			}
			continue
		}
		switch block {
		case "require":
			if m := reqRe.FindStringSubmatch(ln); m != nil {
				gm.req[m[1]] = m[2]
			}
		case "replace":
			if m := repRe.FindStringSubmatch(ln); m != nil {
				gm.rep[m[1]] = [2]string{m[2], m[3]}
			}
		}
	}
	return gm
}

func escMod(p string) string {
	var sb strings.Builder
	for _, r := range p {
		if r >= 'A' && r <= 'Z' {
			sb.WriteByte('!')
			sb.WriteRune(r + 32)
		} else {
			sb.WriteRune(r)
		}
	}
	return sb.String()
}

func modCache() string {
	if d := os.Getenv("GOMODCACHE"); d != "" {
		return d
	}
	if d := os.Getenv("GOPATH"); d != "" {
		return filepath.Join(strings.Split(d, string(os.PathListSeparator))[0], "pkg", "mod")
	}
	h, _ := os.UserHomeDir()
	return filepath.Join(h, "go", "pkg", "mod")
}

// moduleOf: the required module an import path belongs to (longest prefix) and its directory.
func (gm goMod) moduleOf(repo, ip string) (mod, dir string) {
	for m := range gm.req {
		if (ip == m || strings.HasPrefix(ip, m+"/")) && len(m) > len(mod) {
			mod = m
		}
	}
	if mod == "" {
		return "", ""
	}
	path, ver := mod, gm.req[mod]
	if r, ok := gm.rep[mod]; ok {
		path, ver = r[0], r[1]
		if ver == "" { // local directory replacement
			if filepath.IsAbs(path) {
				return mod, path
			}
			return mod, filepath.Join(repo, path)
		}
	}
	return mod, filepath.Join(modCache(), escMod(path)+"@"+ver)
}

func hasGoFiles(dir string) bool {
	ents, err := os.ReadDir(dir)
	if err != nil {
		return false
	}
	for _, e := range ents {
		if !e.IsDir() && strings.HasSuffix(e.Name(), ".go") && !strings.HasSuffix(e.Name(), "_test.go") {
			return true
		}
	}
	return false
}

func extractC16Dep(c *ctxT) {
	gm := readGoMod(filepath.Join(c.repo, "go.mod"))
	// keeper packages of dependencies imported where the app is assembled
	keeperPkgs := map[string]bool{}
	for _, fn := range []string{"app/keepers", "app"} {
		for _, f := range c.pkg(fn) {
			for _, ip := range imports(f) {
				if !strings.HasPrefix(ip, modPath) && (strings.HasSuffix(ip, "/keeper") || strings.Contains(ip, "/keeper/")) {
					keeperPkgs[ip] = true
				}
			}
		}
	}
	type implT struct{ recv, method, msg, pos, body string }
	var impls []implT
	var helpers, types, notes []string
	var fImpls []map[string]string
	for _, kp := range sortedKeys(keeperPkgs) {
		mod, dir := gm.moduleOf(c.repo, kp)
		if mod == "" {
			notes = append(notes, kp+": no required module")
			continue
		}
		rel := strings.TrimPrefix(strings.TrimPrefix(kp, mod), "/")
		if !hasGoFiles(filepath.Join(dir, rel)) {
			notes = append(notes, kp+": sources not found at "+filepath.Join(dir, rel))
			continue
		}
		c2 := &ctxT{repo: dir, out: c.out, fset: c.fset, facts: map[string]any{}, pkgs: map[string]map[string]*ast.File{}}
		// the keeper package and the same-module packages it imports (message types)
		dirs := []string{rel}
		seen := map[string]bool{rel: true}
		for _, f := range c2.pkg(rel) {
			for _, ip := range imports(f) {
				if ip == mod || strings.HasPrefix(ip, mod+"/") {
					r := strings.TrimPrefix(strings.TrimPrefix(ip, mod), "/")
					if !seen[r] && hasGoFiles(filepath.Join(dir, r)) {
						seen[r] = true
						dirs = append(dirs, r)
					}
				}
			}
		}
		sort.Strings(dirs)
		x := &c16x{c: c2, dirs: dirs, authMsgs: map[string]map[string]bool{}, types: map[string]*c16Type{},
			methods: map[string]map[string]*ast.FuncDecl{}, fileOf: map[*ast.FuncDecl]*ast.File{}, relOf: map[*ast.FuncDecl]string{},
			helpers: map[string]string{}, atoms: map[string]bool{}, mod: mod + "/"}
		x.load()
		p := c2.pkg(rel)
		used := map[string]bool{}
		for _, fn := range sortedKeys(p) {
			if strings.HasSuffix(fn, ".pb.go") || strings.HasSuffix(fn, ".pb.gw.go") {
				continue
			}
			for _, d := range p[fn].Decls {
				fd, ok := d.(*ast.FuncDecl)
				if !ok || fd.Recv == nil || fd.Body == nil || fd.Type.Params == nil || !fd.Name.IsExported() {
					continue
				}
				if fd.Type.Results == nil || len(fd.Type.Results.List) != 2 || len(fd.Type.Params.List) < 2 {
					continue
				}
				for _, prm := range fd.Type.Params.List {
					st, ok := prm.Type.(*ast.StarExpr)
					if !ok || len(prm.Names) != 1 {
						continue
					}
					tn := x.typeName(rel, p[fn], st.X)
					if !x.isAuthMsg(tn) {
						continue
					}
					fc := x.fnCtx(fd, prm.Names[0].Name)
					body := leanList(x.depBody(fc))
					im := implT{mod + "/" + fc.recvType, fd.Name.Name, mod + "/" + tn, filepath.Base(dir) + "/" + c2.pos(fd), body}
					impls = append(impls, im)
					used[fc.recvType] = true
				}
			}
		}
		for _, k := range x.hOrder {
			helpers = append(helpers, fmt.Sprintf("  { key := %s, body := %s }", leanStr(k), x.helpers[k]))
		}
		// struct types of the keeper package with their embeddings (method promotion)
		for _, tn := range sortedKeys(x.types) {
			td := x.types[tn]
			if td.rel != rel || !(used[tn] || len(td.embeds) > 0) {
				continue
			}
			var es []string
			for _, e := range td.embeds {
				if strings.HasPrefix(e, "ext:") || strings.HasPrefix(e, "?") {
					es = append(es, e)
				} else {
					es = append(es, mod+"/"+e)
				}
			}
			types = append(types, fmt.Sprintf("  { name := %s, embeds := %s }", leanStr(mod+"/"+tn), leanStrList(es)))
		}
	}
	// ---- wiring: the expression app/keepers/keepers.go passes as the `authority` parameter of every dependency keeper
	// constructor (the parameter is found by NAME in the constructor's declaration in the module cache)
	var wiring [][3]string
	if kf, ok := c.pkg("app/keepers")["keepers.go"]; ok {
		imps := imports(kf)
		ast.Inspect(kf, func(n ast.Node) bool {
			call, ok := n.(*ast.CallExpr)
			if !ok {
				return true
			}
			se, ok := call.Fun.(*ast.SelectorExpr)
			if !ok || !strings.HasPrefix(se.Sel.Name, "New") {
				return true
			}
			alias, ok := se.X.(*ast.Ident)
			if !ok {
				return true
			}
			ip := imps[alias.Name]
			if !keeperPkgs[ip] {
				return true
			}
			mod, dir := gm.moduleOf(c.repo, ip)
			if mod == "" {
				return true
			}
			rel := strings.TrimPrefix(strings.TrimPrefix(ip, mod), "/")
			if !hasGoFiles(filepath.Join(dir, rel)) {
				return true
			}
			c2 := &ctxT{repo: dir, out: c.out, fset: c.fset, facts: map[string]any{}, pkgs: map[string]map[string]*ast.File{}}
			for _, f := range c2.pkg(rel) {
				for _, d := range f.Decls {
					fd, ok := d.(*ast.FuncDecl)
					if !ok || fd.Recv != nil || fd.Name.Name != se.Sel.Name || fd.Type.Params == nil {
						continue
					}
					idx, i := -1, 0
					for _, prm := range fd.Type.Params.List {
						for j, nm := range prm.Names {
							if nm.Name == "authority" {
								idx = i + j
							}
						}
						if len(prm.Names) == 0 {
							i++
						} else {
							i += len(prm.Names)
						}
					}
					if idx >= 0 && idx < len(call.Args) {
						wiring = append(wiring, [3]string{ip, alias.Name + "." + se.Sel.Name, oneLine(c.src(call.Args[idx]), 120)})
					}
				}
			}
			return true
		})
	}
	pkgSet := map[string]bool{}
	for _, im := range impls {
		pkgSet[im.recv[:strings.LastIndex(im.recv, ".")]] = true
	}

	var sb strings.Builder
	sb.WriteString("import FxVerif.Model.C16Syntax\nnamespace FxVerif.Gen.C16Dep\nopen FxVerif.Model.C16\n\n")
	sb.WriteString("/-- (dependency keeper package, constructor called in app/keepers/keepers.go, expression passed as its `authority` parameter) -/\ndef wiring : List (String × String × String) := [\n")
	for i, w := range wiring {
		sep := ","
		if i == len(wiring)-1 {
			sep = ""
		}
		fmt.Fprintf(&sb, "  (%s, %s, %s)%s\n", leanStr(w[0]), leanStr(w[1]), leanStr(w[2]), sep)
	}
	sb.WriteString("]\n\n/-- the packages of the handlers below -/\ndef handlerPkgs : List String := " + leanStrList(sortedKeys(pkgSet)) + "\n\n")
	c.facts["C16.depWiring"] = wiring
	sb.WriteString("/-- helpers of the dependency keepers that their authority checks call (followed one level) -/\ndef helpers : List Helper := [\n" + strings.Join(helpers, ",\n") + "\n]\n\n")
	sb.WriteString("/-- every method of a dependency keeper package (Cosmos SDK / IBC / ethermint, at the versions go.mod pins) whose request carries an `Authority` -/\ndef impls : List Impl := [\n")
	for i, im := range impls {
		sep := ","
		if i == len(impls)-1 {
			sep = ""
		}
		fmt.Fprintf(&sb, "  { recv := %s, method := %s, msg := %s, pos := %s,\n    body := %s }%s\n",
			leanStr(im.recv), leanStr(im.method), leanStr(im.msg), leanStr(im.pos), im.body, sep)
		fImpls = append(fImpls, map[string]string{"recv": im.recv, "method": im.method, "msg": im.msg, "pos": im.pos, "body": im.body})
	}
	sb.WriteString("]\n\ndef types : List TypeDecl := [\n" + strings.Join(types, ",\n") + "\n]\n\n")
	sb.WriteString("/-- keeper packages the app imports whose sources could not be read -/\ndef unread : List String := " + leanStrList(notes) + "\n\n")
	sb.WriteString("end FxVerif.Gen.C16Dep\n")
	c.write("C16Dep.lean", sb.String())
	c.facts["C16.depImpls"] = fImpls
	c.facts["C16.depUnread"] = notes
}

// depBody: the statement list of a dependency handler.  Beyond what `body` recognises: a leading definition of a local
// from a pure address expression (`govAcct := k.authKeeper.GetModuleAddress(types.ModuleName).String()`) is a no-op and
// the local then stands for that expression in the guard.
func (x *c16x) depBody(fc *c16fn) []string {
	return x.body(fc)
}
