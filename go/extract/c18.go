package main

import (
	"bufio"
	"fmt"
	"go/ast"
	"go/parser"
	"go/token"
	"os"
	"path/filepath"
	"strings"
)

// C18: for each tolerated-failure boundary, the ordered list of state-touching calls of the function together with
//   - which context they run on (the outer ctx or the CacheContext() branch),
//   - whether they come before or after the CacheContext() statement,
//   - the branch conditions they are nested in, as (holds?, source text) pairs ((false, c) for an else branch and for the
//     statements that follow an `if c { …; return }`; `!c` is normalised to (false, c)),
// and the branch conditions under which the commit function of the cache is called.
// The Lean model's composition of every boundary must be equal to these generated lists (`decide`).
func init() { register(extractC18) }

type c18Call struct {
	Name, Ctx, Phase string
	Path             []string
	InLoop           bool
}

type c18Fn struct {
	Name, CacheVar, CommitVar string
	Calls                     []c18Call
	Commits                   [][]string
}

type c18walker struct {
	c        *ctxT
	fn       *c18Fn
	ctxNames map[string]bool
	seenCC   bool
}

var c18SkipPrefixes = []string{"Get", "Has", "Is", "Logger", "EventManager", "Must", "String", "Wrap", "New", "Error", "Sprint", "Len", "Bytes", "Unwrap", "zeroGasConfigCtx"}

func (w *c18walker) ctxOf(e ast.Expr) string {
	switch x := e.(type) {
	case *ast.Ident:
		if x.Name == w.fn.CacheVar && w.fn.CacheVar != "" {
			return "cache"
		}
		if w.ctxNames[x.Name] {
			return "outer"
		}
	case *ast.CallExpr: // zeroGasConfigCtx(ctx), sdk.UnwrapSDKContext(ctx)
		if len(x.Args) == 1 {
			return w.ctxOf(x.Args[0])
		}
	}
	return ""
}

func (w *c18walker) calls(n ast.Node, path []string, loop bool) {
	if n == nil {
		return
	}
	ast.Inspect(n, func(m ast.Node) bool {
		if _, ok := m.(*ast.FuncLit); ok {
			return false
		}
		ce, ok := m.(*ast.CallExpr)
		if !ok {
			return true
		}
		name := w.c.src(ce.Fun)
		if id, ok := ce.Fun.(*ast.Ident); ok && id.Name == w.fn.CommitVar && w.fn.CommitVar != "" {
			w.fn.Commits = append(w.fn.Commits, append([]string{}, path...))
			return true
		}
		if sel, ok := ce.Fun.(*ast.SelectorExpr); ok && sel.Sel.Name == "CacheContext" {
			return true
		}
		if strings.HasSuffix(name, "NewErrorAcknowledgement") {
			ph := "before"
			if w.seenCC {
				ph = "after"
			}
			w.fn.Calls = append(w.fn.Calls, c18Call{Name: "return NewErrorAcknowledgement", Ctx: "none", Phase: ph, Path: append([]string{}, path...), InLoop: loop})
			return true
		}
		if len(ce.Args) == 0 {
			return true
		}
		cx := w.ctxOf(ce.Args[0])
		if cx == "" {
			return true
		}
		last := name
		if i := strings.LastIndex(name, "."); i >= 0 {
			last = name[i+1:]
		}
		for _, p := range c18SkipPrefixes {
			if strings.HasPrefix(last, p) {
				return true
			}
		}
		phase := "before"
		if w.seenCC {
			phase = "after"
		}
		w.fn.Calls = append(w.fn.Calls, c18Call{Name: name, Ctx: cx, Phase: phase, Path: append([]string{}, path...), InLoop: loop})
		return true
	})
}

// a branch condition is encoded as "+<source>" (holds) or "-<source>" (does not hold); `!x` is normalised to "-x"
func c18Flip(c string) string {
	if strings.HasPrefix(c, "+") {
		return "-" + c[1:]
	}
	return "+" + c[1:]
}

func (w *c18walker) condOf(e ast.Expr) string {
	switch x := e.(type) {
	case *ast.UnaryExpr:
		if x.Op == token.NOT {
			return c18Flip(w.condOf(x.X))
		}
	case *ast.ParenExpr:
		return w.condOf(x.X)
	}
	return "+" + w.c.src(e)
}

func c18LeanPath(path []string) string {
	var ps []string
	for _, p := range path {
		ps = append(ps, fmt.Sprintf("(%v, %s)", p[0] == '+', leanStr(p[1:])))
	}
	return leanList(ps)
}

func endsWithReturn(b *ast.BlockStmt) bool {
	if b == nil || len(b.List) == 0 {
		return false
	}
	switch b.List[len(b.List)-1].(type) {
	case *ast.ReturnStmt:
		return true
	case *ast.BranchStmt: // break / continue leave the enclosing statement list as well
		return true
	}
	return false
}

func (w *c18walker) stmts(list []ast.Stmt, path []string, loop bool) {
	path = append([]string{}, path...)
	for _, st := range list {
		switch s := st.(type) {
		case *ast.AssignStmt:
			isCC := false
			if len(s.Rhs) == 1 {
				if ce, ok := s.Rhs[0].(*ast.CallExpr); ok {
					if sel, ok := ce.Fun.(*ast.SelectorExpr); ok && sel.Sel.Name == "CacheContext" && len(s.Lhs) == 2 && !w.seenCC {
						w.fn.CacheVar = w.c.src(s.Lhs[0])
						w.fn.CommitVar = w.c.src(s.Lhs[1])
						w.seenCC = true
						isCC = true
					}
				}
			}
			if !isCC {
				// assignments to fields of the tracked object (gov: proposal.Status = v1.StatusFailed) are recorded as pseudo calls
				for i, l := range s.Lhs {
					if sel, ok := l.(*ast.SelectorExpr); ok && i < len(s.Rhs) {
						if id, ok := sel.X.(*ast.Ident); ok && id.Name == "proposal" && sel.Sel.Name == "Status" {
							ph := "before"
							if w.seenCC {
								ph = "after"
							}
							w.fn.Calls = append(w.fn.Calls, c18Call{Name: "set " + w.c.src(l) + " = " + w.c.src(s.Rhs[i]), Ctx: "outer", Phase: ph, Path: append([]string{}, path...), InLoop: loop})
						}
					}
				}
				w.calls(s, path, loop)
			}
		case *ast.IfStmt:
			w.calls(s.Init, path, loop)
			cond := w.condOf(s.Cond)
			w.stmts(s.Body.List, append(path, cond), loop)
			switch e := s.Else.(type) {
			case *ast.BlockStmt:
				w.stmts(e.List, append(path, c18Flip(cond)), loop)
			case *ast.IfStmt:
				w.stmts([]ast.Stmt{e}, append(path, c18Flip(cond)), loop)
			}
			if endsWithReturn(s.Body) {
				path = append(path, c18Flip(cond))
			}
		case *ast.ForStmt:
			w.stmts(s.Body.List, path, true)
		case *ast.RangeStmt:
			w.stmts(s.Body.List, path, true)
		case *ast.BlockStmt:
			w.stmts(s.List, path, loop)
		case *ast.SwitchStmt:
			for _, cc := range s.Body.List {
				w.stmts(cc.(*ast.CaseClause).Body, path, loop)
			}
		case *ast.TypeSwitchStmt:
			for _, cc := range s.Body.List {
				w.stmts(cc.(*ast.CaseClause).Body, path, loop)
			}
		default:
			w.calls(st, path, loop)
		}
	}
}

func (c *ctxT) c18Analyse(name string, body []ast.Stmt, ctxNames ...string) c18Fn {
	fn := c18Fn{Name: name}
	w := &c18walker{c: c, fn: &fn, ctxNames: map[string]bool{}}
	for _, n := range ctxNames {
		w.ctxNames[n] = true
	}
	w.stmts(body, nil, false)
	return fn
}

func c18Lean(ident string, fn c18Fn) string {
	var sb strings.Builder
	fmt.Fprintf(&sb, "def %s : Fn := {\n  name := %s, cacheVar := %s, commitVar := %s,\n  calls := [\n", ident, leanStr(fn.Name), leanStr(fn.CacheVar), leanStr(fn.CommitVar))
	for i, cl := range fn.Calls {
		sep := ","
		if i == len(fn.Calls)-1 {
			sep = ""
		}
		fmt.Fprintf(&sb, "    ⟨%s, %s, %s, %s, %v⟩%s\n", leanStr(cl.Name), leanStr(cl.Ctx), leanStr(cl.Phase), c18LeanPath(cl.Path), cl.InLoop, sep)
	}
	sb.WriteString("  ],\n  commits := [")
	for i, cm := range fn.Commits {
		if i > 0 {
			sb.WriteString(", ")
		}
		sb.WriteString(c18LeanPath(cm))
	}
	sb.WriteString("] }\n\n")
	return sb.String()
}

// ibcGoDir locates the ibc-go module directory named in /repo/go.mod inside the module cache.
func (c *ctxT) ibcGoDir() string {
	f, err := os.Open(filepath.Join(c.repo, "go.mod"))
	if err != nil {
		return ""
	}
	defer f.Close()
	ver := ""
	sc := bufio.NewScanner(f)
	for sc.Scan() {
		fs := strings.Fields(sc.Text())
		if len(fs) >= 2 && fs[0] == "github.com/cosmos/ibc-go/v8" {
			ver = fs[1]
		}
	}
	if ver == "" {
		return ""
	}
	cache := os.Getenv("GOMODCACHE")
	if cache == "" {
		gp := os.Getenv("GOPATH")
		if gp == "" {
			home, _ := os.UserHomeDir()
			gp = filepath.Join(home, "go")
		}
		cache = filepath.Join(gp, "pkg", "mod")
	}
	d := filepath.Join(cache, "github.com", "cosmos", "ibc-go", "v8@"+ver)
	if _, err := os.Stat(d); err != nil {
		return ""
	}
	return d
}

func extractC18(c *ctxT) {
	var sb strings.Builder
	sb.WriteString(`namespace FxVerif.Gen.C18

/-- one state-touching call of a boundary function: callee (source text), context it runs on ("outer" | "cache"),
position relative to the CacheContext() statement ("before" | "after"), enclosing branch conditions, in a loop? -/
structure Call where
  name : String
  ctx : String
  phase : String
  path : List (Bool × String)
  inLoop : Bool
deriving DecidableEq, Repr

structure Fn where
  name : String
  cacheVar : String
  commitVar : String
  calls : List Call
  commits : List (List (Bool × String))
deriving DecidableEq, Repr

`)
	empty := func(n string) c18Fn { return c18Fn{Name: n + " (NOT FOUND)"} }
	body := func(rel, recv, name string) []ast.Stmt {
		fd := c.findFunc(rel, recv, name)
		if fd == nil || fd.Body == nil {
			return nil
		}
		return fd.Body.List
	}
	emit := func(ident, name string, b []ast.Stmt, ctxNames ...string) c18Fn {
		fn := empty(name)
		if b != nil {
			fn = c.c18Analyse(name, b, ctxNames...)
		}
		sb.WriteString(c18Lean(ident, fn))
		c.facts["C18."+ident] = fn
		return fn
	}
	emit("tryAttestation", "crosschain/keeper.TryAttestation", body("x/crosschain/keeper", "Keeper", "TryAttestation"), "ctx")
	emit("processAttestation", "crosschain/keeper.processAttestation", body("x/crosschain/keeper", "Keeper", "processAttestation"), "ctx")
	emit("bridgeCallHandler", "crosschain/keeper.BridgeCallHandler", body("x/crosschain/keeper", "Keeper", "BridgeCallHandler"), "ctx")
	emit("bridgeCallFailedRefund", "crosschain/keeper.BridgeCallFailedRefund", body("x/crosschain/keeper", "Keeper", "BridgeCallFailedRefund"), "ctx")
	emit("executeClaim", "crosschain/keeper.ExecuteClaim", body("x/crosschain/keeper", "Keeper", "ExecuteClaim"), "ctx")

	// gov EndBlocker: the `case passes:` clause of the tally switch (the first case clause containing a CacheContext())
	var govBody []ast.Stmt
	if fd := c.findFunc("x/gov", "", "EndBlocker"); fd != nil {
		ast.Inspect(fd.Body, func(n ast.Node) bool {
			cc, ok := n.(*ast.CaseClause)
			if !ok || govBody != nil {
				return true
			}
			has := false
			for _, st := range cc.Body {
				ast.Inspect(st, func(m ast.Node) bool {
					if sel, ok := m.(*ast.SelectorExpr); ok && sel.Sel.Name == "CacheContext" {
						has = true
					}
					return true
				})
			}
			if has {
				govBody = cc.Body
			}
			return true
		})
	}
	emit("govExecute", "gov.EndBlocker[case passes]", govBody, "ctx")

	emit("ibcOnRecvPacket", "ibc/middleware.IBCMiddleware.OnRecvPacket", body("x/ibc/middleware", "IBCMiddleware", "OnRecvPacket"), "ctx")
	emit("ibcKeeperOnRecvPacket", "ibc/middleware/keeper.OnRecvPacket", body("x/ibc/middleware/keeper", "Keeper", "OnRecvPacket"), "ctx")

	// ibc-go core (dependency): msg_server.go RecvPacket — second CacheContext (application callback)
	var coreBody []ast.Stmt
	coreFset := token.NewFileSet()
	if d := c.ibcGoDir(); d != "" {
		f, err := parser.ParseFile(coreFset, filepath.Join(d, "modules", "core", "keeper", "msg_server.go"), nil, 0)
		if err == nil {
			for _, dcl := range f.Decls {
				if fd, ok := dcl.(*ast.FuncDecl); ok && fd.Name.Name == "RecvPacket" && fd.Body != nil {
					// keep the statements from the second CacheContext() on
					n := 0
					for i, st := range fd.Body.List {
						if as, ok := st.(*ast.AssignStmt); ok && len(as.Rhs) == 1 {
							if ce, ok := as.Rhs[0].(*ast.CallExpr); ok {
								if sel, ok := ce.Fun.(*ast.SelectorExpr); ok && sel.Sel.Name == "CacheContext" {
									n++
									if n == 2 {
										coreBody = fd.Body.List[i:]
									}
								}
							}
						}
					}
				}
			}
		}
	}
	// the second cache assignment is `cacheCtx, writeFn = ctx.CacheContext()` (plain `=`): handled as AssignStmt too
	{
		fn := empty("ibc-go/core/keeper.RecvPacket[app callback]")
		if coreBody != nil {
			saved := c.fset
			c.fset = coreFset
			fn = c.c18Analyse("ibc-go/core/keeper.RecvPacket[app callback]", coreBody, "ctx")
			c.fset = saved
		}
		sb.WriteString(c18Lean("coreRecvPacket", fn))
		c.facts["C18.coreRecvPacket"] = fn
	}
	sb.WriteString(c.c18Programs())
	sb.WriteString(c.c18Inventory())
	sb.WriteString("end FxVerif.Gen.C18\n")
	c.write("C18.lean", sb.String())
}
