package main

import (
	"fmt"
	"go/ast"
	"go/token"
	"sort"
	"strings"
)

// C13 / C07: facts of x/crosschain/keeper the oracle-registry / end-blocker model is parameterised by.
//   Gen/C13.lean: constants (30 % cap, MaxOracleSize), which uniqueness / bound checks BondedOracle and EditBridger make
//     before they write, comparison shapes and SlashOracle argument of the three slashing loops, cursor start offsets
//     and window comparisons of the GetUnSlashed* functions, the shape of the unbonding-delegation test in UnbondedOracle.
//   Gen/C07.lean: inventory of panic / Must* / partial-arithmetic sites reachable from Keeper.EndBlocker.
func init() { register(extractC13) }

const c13Keeper = "x/crosschain/keeper"
const c13Types = "x/crosschain/types"

func lb(b bool) string {
	if b {
		return "true"
	}
	return "false"
}

func cmpOf(op token.Token) string {
	switch op {
	case token.GTR:
		return ".gt"
	case token.GEQ:
		return ".ge"
	case token.LSS:
		return ".lt"
	case token.LEQ:
		return ".le"
	}
	return ".other"
}

// flip a comparison so that the operand matching `left` is on the left
func flipCmp13(c string) string {
	switch c {
	case ".gt":
		return ".lt"
	case ".lt":
		return ".gt"
	case ".ge":
		return ".le"
	case ".le":
		return ".ge"
	}
	return c
}

func squash(s string) string { return strings.Join(strings.Fields(s), " ") }

// blockReturnsErr: the block's last statement is a return whose last result is not the literal nil.
func blockReturnsErr(b *ast.BlockStmt) bool {
	if b == nil || len(b.List) == 0 {
		return false
	}
	r, ok := b.List[len(b.List)-1].(*ast.ReturnStmt)
	if !ok || len(r.Results) == 0 {
		return false
	}
	if id, ok := r.Results[len(r.Results)-1].(*ast.Ident); ok && id.Name == "nil" {
		return false
	}
	return true
}

// guardBefore: among the top-level statements of fd that precede the first statement containing any of `writes`,
// is there an `if` whose condition contains `cond` and whose body returns an error?
func (c *ctxT) guardBefore(fd *ast.FuncDecl, cond string, writes []string) bool {
	if fd == nil || fd.Body == nil {
		return false
	}
	for _, st := range fd.Body.List {
		src := squash(c.src(st))
		if ifs, ok := st.(*ast.IfStmt); ok {
			if strings.Contains(squash(c.src(ifs.Cond)), cond) && blockReturnsErr(ifs.Body) {
				return true
			}
		}
		for _, w := range writes {
			if strings.Contains(src, w) {
				return false
			}
		}
	}
	return false
}

type c13Loop struct {
	startSkip   string // Cmp: `uint64(oracles[i].StartHeight) <op> obj.Height { continue }`
	missing     bool   // `if _, ok := confirmOracleMap[oracles[i].ExternalAddress]; !ok { ... SlashOracle ... }`
	arg         string // SlashArg
	argSrc      string
	cursorAfter bool // a SetLastSlashed* call follows the inner loop inside the outer loop
	fillKey     string // field of the stored confirm the map is keyed by: `confirmOracleMap[confirm.<F>] = …`
	lookupKey   string // field of the oracle record looked up: `confirmOracleMap[oracles[i].<F>]`
	domain      string // what the inner loop walks: the online-oracle snapshot or the members of the oracle set
}

func keyField(f string) string {
	switch f {
	case "ExternalAddress":
		return ".external"
	case "BridgerAddress":
		return ".bridger"
	case "OracleAddress":
		return ".oracle"
	}
	return ".other"
}

// fillKeyOf: `confirmOracleMap[confirm.<F>] = …` among the statements before the inner loop
func (c *ctxT) fillKeyOf(stmts []ast.Stmt, res *c13Loop) {
	for _, st := range stmts {
		ast.Inspect(st, func(n ast.Node) bool {
			if as, ok := n.(*ast.AssignStmt); ok && len(as.Lhs) == 1 {
				if ix, ok := as.Lhs[0].(*ast.IndexExpr); ok && squash(c.src(ix.X)) == "confirmOracleMap" {
					if se, ok := ix.Index.(*ast.SelectorExpr); ok && squash(c.src(se.X)) == "confirm" {
						res.fillKey = keyField(se.Sel.Name)
					}
				}
			}
			return true
		})
	}
}

func (c *ctxT) c13SlashLoop(name string) c13Loop {
	res := c13Loop{startSkip: ".other", arg: ".other", fillKey: ".other", lookupKey: ".other", domain: ".other"}
	fd := c.findFunc(c13Keeper, "Keeper", name)
	if fd == nil || fd.Body == nil {
		return res
	}
	var outer *ast.RangeStmt
	ast.Inspect(fd.Body, func(n ast.Node) bool {
		if r, ok := n.(*ast.RangeStmt); ok && outer == nil {
			outer = r
		}
		return outer == nil
	})
	if outer == nil {
		return res
	}
	var inner *ast.ForStmt
	innerIdx := -1
	for i, st := range outer.Body.List {
		if f, ok := st.(*ast.ForStmt); ok {
			inner, innerIdx = f, i
			break
		}
	}
	if inner == nil {
		// inner loop over the members of the object: `for _, member := range <obj>.Members { … }`
		for i, st := range outer.Body.List {
			r, ok := st.(*ast.RangeStmt)
			if !ok || !strings.HasSuffix(squash(c.src(r.X)), ".Members") {
				continue
			}
			res.domain = ".setMembers"
			c.fillKeyOf(outer.Body.List[:i], &res)
			for _, st2 := range outer.Body.List[i+1:] {
				if strings.Contains(c.src(st2), "SetLastSlashed") {
					res.cursorAfter = true
				}
			}
			elem := squash(c.src(r.Value))
			resolved := map[string]string{} // variable ← unchecked / checked index lookup
			for _, bst := range r.Body.List {
				switch x := bst.(type) {
				case *ast.IfStmt:
					if x.Init != nil && strings.Contains(squash(c.src(x.Init)), "confirmOracleMap["+elem+".") && len(x.Body.List) == 1 {
						init := squash(c.src(x.Init))
						f := init[strings.Index(init, "confirmOracleMap["+elem+".")+len("confirmOracleMap["+elem+"."):]
						if j := strings.Index(f, "]"); j >= 0 {
							res.lookupKey = keyField(f[:j])
						}
						if br, ok := x.Body.List[0].(*ast.BranchStmt); ok && br.Tok == token.CONTINUE {
							res.missing = squash(c.src(x.Cond)) == "ok" // confirmed → continue, i.e. slash when missing
						}
					}
				case *ast.AssignStmt:
					if len(x.Lhs) == 2 && len(x.Rhs) == 1 && strings.Contains(squash(c.src(x.Rhs[0])), "GetOracleAddrByExternalAddr(ctx, "+elem+".ExternalAddress)") {
						if squash(c.src(x.Lhs[1])) == "_" {
							resolved[squash(c.src(x.Lhs[0]))] = ".indexLookupUnchecked"
						} else {
							resolved[squash(c.src(x.Lhs[0]))] = ".other" // a checked lookup: shape not modelled
						}
					}
				}
			}
			ast.Inspect(r.Body, func(n ast.Node) bool {
				ce, ok := n.(*ast.CallExpr)
				if !ok {
					return true
				}
				if se, ok := ce.Fun.(*ast.SelectorExpr); ok && se.Sel.Name == "SlashOracle" && len(ce.Args) == 2 {
					res.argSrc = squash(c.src(ce.Args[1]))
					v := strings.TrimSuffix(res.argSrc, ".String()")
					if a, ok := resolved[v]; ok {
						res.arg = a
					}
				}
				return true
			})
			return res
		}
		return res
	}
	if be, ok := inner.Cond.(*ast.BinaryExpr); ok && squash(c.src(be)) == "i < len(oracles)" {
		res.domain = ".onlineSnapshot"
	}
	for _, st := range outer.Body.List[:innerIdx] {
		ast.Inspect(st, func(n ast.Node) bool {
			if as, ok := n.(*ast.AssignStmt); ok && len(as.Lhs) == 1 {
				if ix, ok := as.Lhs[0].(*ast.IndexExpr); ok && squash(c.src(ix.X)) == "confirmOracleMap" {
					if se, ok := ix.Index.(*ast.SelectorExpr); ok && squash(c.src(se.X)) == "confirm" {
						res.fillKey = keyField(se.Sel.Name)
					}
				}
			}
			return true
		})
	}
	for _, st := range outer.Body.List[innerIdx+1:] {
		if strings.Contains(c.src(st), "SetLastSlashed") {
			res.cursorAfter = true
		}
	}
	for _, st := range inner.Body.List {
		ifs, ok := st.(*ast.IfStmt)
		if !ok {
			continue
		}
		if be, ok := ifs.Cond.(*ast.BinaryExpr); ok && ifs.Init == nil {
			l, r := squash(c.src(be.X)), squash(c.src(be.Y))
			isCont := len(ifs.Body.List) == 1
			if isCont {
				br, ok := ifs.Body.List[0].(*ast.BranchStmt)
				isCont = ok && br.Tok == token.CONTINUE
			}
			if isCont && strings.Contains(l, "oracles[i].StartHeight") {
				res.startSkip = cmpOf(be.Op)
			} else if isCont && strings.Contains(r, "oracles[i].StartHeight") {
				res.startSkip = flipCmp13(cmpOf(be.Op))
			}
			continue
		}
		if ifs.Init != nil && strings.Contains(squash(c.src(ifs.Init)), "confirmOracleMap[oracles[i].") {
			init := squash(c.src(ifs.Init))
			f := init[strings.Index(init, "confirmOracleMap[oracles[i].")+len("confirmOracleMap[oracles[i]."):]
			if j := strings.Index(f, "]"); j >= 0 {
				res.lookupKey = keyField(f[:j])
			}
			cond := squash(c.src(ifs.Cond))
			hasSlash := false
			ast.Inspect(ifs.Body, func(n ast.Node) bool {
				ce, ok := n.(*ast.CallExpr)
				if !ok {
					return true
				}
				if se, ok := ce.Fun.(*ast.SelectorExpr); ok && se.Sel.Name == "SlashOracle" && len(ce.Args) == 2 {
					hasSlash = true
					res.argSrc = squash(c.src(ce.Args[1]))
					switch res.argSrc {
					case "oracles[i].OracleAddress", "oracles[i].GetOracleAddress()":
						res.arg = ".oracleAddress"
					case "oracles[i].String()":
						res.arg = ".protoText"
					}
				}
				return true
			})
			if hasSlash {
				res.missing = cond == "!ok"
			}
		}
	}
	return res
}

// cursorOffset: `x := k.<getter>(ctx) + N` (N literal) or without `+ N` → 0; -1 if the getter is not used.
func (c *ctxT) c13CursorOffset(fn, getter string) (int, string) {
	fd := c.findFunc(c13Keeper, "Keeper", fn)
	off, cmp := -1, ".other"
	if fd == nil || fd.Body == nil {
		return off, cmp
	}
	ast.Inspect(fd.Body, func(n ast.Node) bool {
		as, ok := n.(*ast.AssignStmt)
		if !ok || len(as.Rhs) != 1 {
			return true
		}
		src := squash(c.src(as.Rhs[0]))
		if !strings.Contains(src, getter+"(ctx)") {
			return true
		}
		if src == "k."+getter+"(ctx)" {
			off = 0
		} else if be, ok := as.Rhs[0].(*ast.BinaryExpr); ok && be.Op == token.ADD {
			if bl, ok := be.Y.(*ast.BasicLit); ok {
				fmt.Sscanf(bl.Value, "%d", &off)
			}
		}
		return true
	})
	return off, cmp
}

// windowCmp: inside fn, `if <a> <op> <b> { append...; return false }` → (op, a, b)
func (c *ctxT) c13WindowCmp(fn string) (string, string, string) {
	fd := c.findFunc(c13Keeper, "Keeper", fn)
	if fd == nil || fd.Body == nil {
		return ".other", "", ""
	}
	op, a, b := ".other", "", ""
	ast.Inspect(fd.Body, func(n ast.Node) bool {
		ifs, ok := n.(*ast.IfStmt)
		if !ok {
			return true
		}
		be, ok := ifs.Cond.(*ast.BinaryExpr)
		if !ok || !strings.Contains(c.src(ifs.Body), "append(") {
			return true
		}
		op, a, b = cmpOf(be.Op), squash(c.src(be.X)), squash(c.src(be.Y))
		return false
	})
	return op, a, b
}

type c13Cap struct {
	totalOnline, deleteOnline, deleteOldOnly, againstLoopTotal, zeroGuard, beforeWrites bool
	denom                                                                       int
	cmp                                                                         string
}

// c13CapFacts reads the power-change cap of UpdateProposalOracles off the AST (see the doc comment emitted with the facts).
func (c *ctxT) c13CapFacts(fd *ast.FuncDecl) c13Cap {
	r := c13Cap{cmp: ".other"}
	if fd == nil || fd.Body == nil {
		return r
	}
	// accumulations inside the loop over the records, with the conditions of the enclosing `if`s
	var walk func(n ast.Stmt, conds []string)
	acc := map[string][]string{}
	seen := map[string]int{}
	walk = func(n ast.Stmt, conds []string) {
		switch st := n.(type) {
		case *ast.BlockStmt:
			for _, x := range st.List {
				walk(x, conds)
			}
		case *ast.IfStmt:
			cond := squash(c.src(st.Cond))
			if st.Init != nil {
				cond = squash(c.src(st.Init)) + "; " + cond
			}
			walk(st.Body, append(append([]string{}, conds...), cond))
			if st.Else != nil {
				walk(st.Else, append(append([]string{}, conds...), "!("+cond+")"))
			}
		case *ast.RangeStmt:
			walk(st.Body, conds)
		case *ast.ForStmt:
			walk(st.Body, conds)
		case *ast.AssignStmt:
			if len(st.Lhs) == 1 && len(st.Rhs) == 1 {
				if id, ok := st.Lhs[0].(*ast.Ident); ok && (id.Name == "totalPower" || id.Name == "deleteTotalPower") && st.Tok == token.ASSIGN {
					if strings.HasPrefix(squash(c.src(st.Rhs[0])), id.Name+".Add(oracle.GetPower())") {
						acc[id.Name] = conds
						seen[id.Name]++
					}
				}
			}
		}
	}
	walk(fd.Body, nil)
	has := func(conds []string, sub string) bool {
		for _, x := range conds {
			if strings.Contains(x, sub) {
				return true
			}
		}
		return false
	}
	if seen["totalPower"] == 1 {
		r.totalOnline = len(acc["totalPower"]) == 1 && acc["totalPower"][0] == "oracle.Online"
	}
	if seen["deleteTotalPower"] == 1 {
		r.deleteOnline = has(acc["deleteTotalPower"], "oracle.Online") && !has(acc["deleteTotalPower"], "!oracle.Online")
		r.deleteOldOnly = has(acc["deleteTotalPower"], "oldOracleMap[oracle.OracleAddress]; ok")
	}
	// the "in the new list → continue" skip must come before the old-list test
	src := squash(c.src(fd.Body))
	if !strings.Contains(src, "if _, ok := newOracleMap[oracle.OracleAddress]; ok { continue }") {
		r.deleteOldOnly = false
	}
	// threshold := Cap.Mul(<x>).Quo(sdkmath.NewInt(<n>)); refusal: if <a> && <b> { return … }
	capPos, writePos := token.NoPos, token.NoPos
	ast.Inspect(fd.Body, func(n ast.Node) bool {
		switch st := n.(type) {
		case *ast.AssignStmt:
			if len(st.Lhs) == 1 && len(st.Rhs) == 1 {
				if id, ok := st.Lhs[0].(*ast.Ident); ok && id.Name == "maxChangePowerThreshold" {
					rhs := squash(c.src(st.Rhs[0]))
					var n int
					if _, err := fmt.Sscanf(rhs, "types.AttestationProposalOracleChangePowerThreshold.Mul(totalPower).Quo(sdkmath.NewInt(%d))", &n); err == nil {
						r.againstLoopTotal = seen["totalPower"] == 1
						r.denom = n
					}
				}
			}
		case *ast.IfStmt:
			cond := squash(c.src(st.Cond))
			if !strings.Contains(cond, "maxChangePowerThreshold") || !strings.Contains(squash(c.src(st.Body)), "return ") {
				return true
			}
			capPos = st.Pos()
			parts := []ast.Expr{st.Cond}
			if be, ok := st.Cond.(*ast.BinaryExpr); ok && be.Op == token.LAND {
				parts = []ast.Expr{be.X, be.Y}
			}
			for _, p := range parts {
				ps := squash(c.src(p))
				switch {
				case ps == "deleteTotalPower.GT(sdkmath.ZeroInt())" || ps == "deleteTotalPower.IsPositive()":
					r.zeroGuard = true
				case ps == "deleteTotalPower.GTE(maxChangePowerThreshold)":
					r.cmp = ".ge"
				case ps == "deleteTotalPower.GT(maxChangePowerThreshold)":
					r.cmp = ".gt"
				case ps == "maxChangePowerThreshold.LTE(deleteTotalPower)":
					r.cmp = ".ge"
				case ps == "maxChangePowerThreshold.LT(deleteTotalPower)":
					r.cmp = ".gt"
				}
			}
		case *ast.CallExpr:
			cs := squash(c.src(st.Fun))
			if (cs == "k.SetProposalOracle" || cs == "k.UnbondedOracleFromProposal") && (writePos == token.NoPos || st.Pos() < writePos) {
				writePos = st.Pos()
			}
		}
		return true
	})
	r.beforeWrites = capPos != token.NoPos && writePos != token.NoPos && capPos < writePos
	return r
}

func extractC13(c *ctxT) {
	var sb strings.Builder
	sb.WriteString("namespace FxVerif.Gen.C13\n\n")
	sb.WriteString("inductive Cmp where | gt | ge | lt | le | other\n  deriving DecidableEq, Repr\n\n")
	sb.WriteString("/-- what a slashing loop passes to `SlashOracle` -/\ninductive SlashArg where\n  | oracleAddress          -- the record's own address\n  | protoText              -- the record's proto text (`String()`)\n  | indexLookupUnchecked   -- `addr, _ := GetOracleAddrByExternalAddr(…)`; `addr.String()` — empty when the index entry is gone\n  | other\n  deriving DecidableEq, Repr\n\n")
	sb.WriteString("/-- `UnbondedOracle`: how the result of `GetUnbondingDelegation` is tested -/\ninductive UbdTest where\n  | rejectIfExists   -- an unbonding delegation still exists → error\n  | rejectIfImmature -- only an entry whose completion time is after the block time is refused (matured, unpaid entries pass)\n  | rejectIfMissing  -- `err != nil → return err`: error when there is none (SDK ≥ 0.50 returns ErrNoUnbondingDelegation)\n  | none\n  | other\n  deriving DecidableEq, Repr\n\n")

	// --- constants
	maxOracle, cap := -1, -1
	for _, f := range c.pkg(c13Types) {
		ast.Inspect(f, func(n ast.Node) bool {
			vs, ok := n.(*ast.ValueSpec)
			if !ok {
				return true
			}
			for i, nm := range vs.Names {
				if i >= len(vs.Values) {
					continue
				}
				v := squash(c.src(vs.Values[i]))
				switch nm.Name {
				case "MaxOracleSize":
					fmt.Sscanf(v, "%d", &maxOracle)
				case "AttestationProposalOracleChangePowerThreshold":
					fmt.Sscanf(v, "sdkmath.NewInt(%d)", &cap)
				}
			}
			return true
		})
	}
	if maxOracle < 0 || cap < 0 {
		fail("C13: MaxOracleSize / AttestationProposalOracleChangePowerThreshold not found")
	}
	fmt.Fprintf(&sb, "def maxOracleSize : Nat := %d\ndef powerChangeCap : Nat := %d\n", maxOracle, cap)
	upd := c.findFunc(c13Keeper, "Keeper", "UpdateProposalOracles")
	capShape := false
	if upd != nil {
		src := squash(c.src(upd.Body))
		capShape = strings.Contains(src, "types.AttestationProposalOracleChangePowerThreshold.Mul(totalPower).Quo(sdkmath.NewInt(100))") &&
			strings.Contains(src, "deleteTotalPower.GT(sdkmath.ZeroInt()) && deleteTotalPower.GTE(maxChangePowerThreshold)") &&
			strings.Contains(src, "len(oracles) > types.MaxOracleSize")
	}
	fmt.Fprintf(&sb, "/-- `cap·total/100`, rejected when `delete > 0 ∧ delete ≥ max`, list length `> MaxOracleSize` rejected -/\ndef capShapeOk : Bool := %s\n\n", lb(capShape))
	// the cap guard as STRUCTURE (interpreted by Model.C13.govUpdate): which records enter the two sums, what the threshold is
	// a fraction of, how the removed power is compared with it, and whether the refusal comes before the first write
	cf := c.c13CapFacts(upd)
	fmt.Fprintf(&sb, "/-- `UpdateProposalOracles`: the power-change cap read off the AST.  `capTotalOnlineOnly` / `capDeleteOnlineOnly`: the accumulation of\n`totalPower` / `deleteTotalPower` sits inside `if oracle.Online`; `capAgainstLoopTotal`: the threshold is `Cap.Mul(totalPower)` of that accumulator\n(not the stored last total power); `capDenominator`: `.Quo(NewInt(n))`; `capZeroGuard`: the conjunct `deleteTotalPower.GT(0)`;\n`capCmp`: `deleteTotalPower.<cmp>(maxChangePowerThreshold)`; `capBeforeWrites`: the refusing `if` precedes `SetProposalOracle` and every\n`UnbondedOracleFromProposal`; `capDeleteOldListOnly`: removed power is counted only for records on the old list that the new list drops -/\n")
	fmt.Fprintf(&sb, "def capTotalOnlineOnly : Bool := %s\ndef capDeleteOnlineOnly : Bool := %s\ndef capDeleteOldListOnly : Bool := %s\ndef capAgainstLoopTotal : Bool := %s\ndef capDenominator : Nat := %d\ndef capZeroGuard : Bool := %s\ndef capCmp : Cmp := %s\ndef capBeforeWrites : Bool := %s\n\n",
		lb(cf.totalOnline), lb(cf.deleteOnline), lb(cf.deleteOldOnly), lb(cf.againstLoopTotal), cf.denom, lb(cf.zeroGuard), cf.cmp, lb(cf.beforeWrites))
	c.facts["C13.capGuard"] = fmt.Sprintf("totalOnlineOnly=%v deleteOnlineOnly=%v deleteOldListOnly=%v againstLoopTotal=%v denom=%d zeroGuard=%v cmp=%s beforeWrites=%v", cf.totalOnline, cf.deleteOnline, cf.deleteOldOnly, cf.againstLoopTotal, cf.denom, cf.zeroGuard, cf.cmp, cf.beforeWrites)

	// --- BondedOracle / EditBridger guards
	bondFd := c.findFunc(c13Keeper, "MsgServer", "BondedOracle")
	editFd := c.findFunc(c13Keeper, "MsgServer", "EditBridger")
	writes := []string{"s.SetOracle(", "SendCoins(", "stakingMsgServer.Delegate(", "s.SetOracleAddrBy", "s.DelOracleAddrBy"}
	g := map[string]bool{
		"bondChecksProposal": c.guardBefore(bondFd, "!s.IsProposalOracle(ctx, msg.OracleAddress)", writes),
		"bondChecksOracle":   c.guardBefore(bondFd, "s.HasOracle(ctx, oracleAddr)", writes),
		"bondChecksBridger":  c.guardBefore(bondFd, "s.HasOracleAddrByBridgerAddr(ctx, bridgerAddr)", writes),
		"bondChecksExt":      c.guardBefore(bondFd, "s.HasOracleAddrByExternalAddr(ctx, msg.ExternalAddress)", writes),
		"bondChecksBelow":    c.guardBefore(bondFd, "msg.DelegateAmount.IsLT(threshold)", writes),
		"bondChecksAbove":    c.guardBefore(bondFd, "msg.DelegateAmount.Amount.GT(threshold.Amount.Mul(sdkmath.NewInt(s.GetOracleDelegateMultiple(ctx))))", writes),
		"editChecksBridger":  c.guardBefore(editFd, "s.HasOracleAddrByBridgerAddr(ctx, bridgerAddr)", writes),
	}
	for _, k := range sortedKeys(g) {
		fmt.Fprintf(&sb, "def %s : Bool := %s\n", k, lb(g[k]))
	}
	sb.WriteString("\n")

	// --- slashing loops
	sb.WriteString("/-- what the inner loop of a slashing function walks -/\ninductive LoopDomain where\n  | onlineSnapshot   -- `for i := 0; i < len(oracles); i++` over GetAllOracles(ctx, true) taken at the start of `slashing`\n  | setMembers       -- `for _, member := range oracleSet.Members`\n  | other\n  deriving DecidableEq, Repr\n\n")
	loops := map[string]c13Loop{}
	allMissing := true
	for _, nm := range []string{"oracleSetSlashing", "batchSlashing", "bridgeCallSlashing"} {
		l := c.c13SlashLoop(nm)
		loops[nm] = l
		allMissing = allMissing && l.missing
	}
	pref := map[string]string{"oracleSetSlashing": "oracleSet", "batchSlashing": "batch", "bridgeCallSlashing": "bridgeCall"}
	for _, nm := range []string{"oracleSetSlashing", "batchSlashing", "bridgeCallSlashing"} {
		l := loops[nm]
		fmt.Fprintf(&sb, "/-- %s: `if uint64(oracles[i].StartHeight) <cmp> obj.Height { continue }`; SlashOracle(ctx, %s) -/\n", nm, l.argSrc)
		fmt.Fprintf(&sb, "def %sStartSkip : Cmp := %s\ndef %sSlashArg : SlashArg := %s\ndef %sCursorSetAfterLoop : Bool := %s\ndef %sLoopDomain : LoopDomain := %s\n", pref[nm], l.startSkip, pref[nm], l.arg, pref[nm], lb(l.cursorAfter), pref[nm], l.domain)
	}
	fmt.Fprintf(&sb, "/-- all three loops slash when the oracle's key is NOT among the stored confirms (`!ok`) -/\ndef slashWhenConfirmMissing : Bool := %s\n\n", lb(allMissing))
	sb.WriteString("/-- which field keys the per-object map of confirms / which field of the oracle record is looked up in it -/\ninductive KeyField where | external | bridger | oracle | other\n  deriving DecidableEq, Repr\n\n")
	fill, look := loops["oracleSetSlashing"].fillKey, loops["oracleSetSlashing"].lookupKey
	for _, nm := range []string{"batchSlashing", "bridgeCallSlashing"} {
		if loops[nm].fillKey != fill {
			fill = ".other"
		}
		if loops[nm].lookupKey != look {
			look = ".other"
		}
	}
	fmt.Fprintf(&sb, "/-- `confirmOracleMap[confirm.<field>] = struct{}{}` in all three loops (`.other` if they differ) -/\ndef slashConfirmFill : KeyField := %s\n/-- `confirmOracleMap[oracles[i].<field>]` in all three loops -/\ndef slashConfirmLookup : KeyField := %s\n\n", fill, look)

	// --- GetUnSlashed*
	o1, _ := c.c13CursorOffset("GetUnSlashedOracleSets", "GetLastSlashedOracleSetNonce")
	o2, _ := c.c13CursorOffset("GetUnSlashedBatches", "GetLastSlashedBatchBlock")
	o3, _ := c.c13CursorOffset("GetUnSlashedBridgeCalls", "GetLastSlashedBridgeCallNonce")
	if o1 < 0 || o2 < 0 || o3 < 0 {
		fail("C13: GetUnSlashed* cursor reads not found (%d %d %d)", o1, o2, o3)
	}
	fmt.Fprintf(&sb, "def oracleSetCursorOffset : Nat := %d\ndef batchCursorOffset : Nat := %d\n/-- 0 = the last slashed bridge call is visited again every block -/\ndef bridgeCallCursorOffset : Nat := %d\n", o1, o2, o3)
	w1, a1, b1 := c.c13WindowCmp("GetUnSlashedOracleSets")
	if !(a1 == "maxHeight" && b1 == "oracleSet.Height") {
		if a1 == "oracleSet.Height" && b1 == "maxHeight" {
			w1 = flipCmp13(w1)
		} else {
			w1 = ".other"
		}
	}
	w3, a3, b3 := c.c13WindowCmp("GetUnSlashedBridgeCalls")
	if !(a3 == "bridgeCall.BlockHeight" && b3 == "height") {
		if a3 == "height" && b3 == "bridgeCall.BlockHeight" {
			w3 = flipCmp13(w3)
		} else {
			w3 = ".other"
		}
	}
	fmt.Fprintf(&sb, "/-- `maxHeight <cmp> oracleSet.Height` selects a set -/\ndef oracleSetWindowCmp : Cmp := %s\n/-- `bridgeCall.BlockHeight <cmp> height` selects a bridge call -/\ndef bridgeCallWindowCmp : Cmp := %s\n", w1, w3)
	batchRange := false
	if fd := c.findFunc(c13Keeper, "Keeper", "GetUnSlashedBatches"); fd != nil {
		batchRange = strings.Contains(squash(c.src(fd.Body)), "k.IterateBatchByBlockHeight(ctx, lastSlashedBatchBlock, maxHeight,")
	}
	if fd := c.findFunc(c13Keeper, "Keeper", "IterateBatchByBlockHeight"); fd != nil {
		src := squash(c.src(fd.Body))
		batchRange = batchRange && strings.Contains(src, "store.Iterator(startKey, endKey)") &&
			strings.Contains(src, "sdk.Uint64ToBigEndian(start)") && strings.Contains(src, "sdk.Uint64ToBigEndian(end)")
	} else {
		batchRange = false
	}
	fmt.Fprintf(&sb, "/-- batches are read with the half-open block-index range `[cursor+offset, maxHeight)` -/\ndef batchRangeHalfOpen : Bool := %s\n", lb(batchRange))
	guard := ".other"
	if fd := c.findFunc(c13Keeper, "Keeper", "slashing"); fd != nil && len(fd.Body.List) > 0 {
		if ifs, ok := fd.Body.List[0].(*ast.IfStmt); ok {
			if be, ok := ifs.Cond.(*ast.BinaryExpr); ok && squash(c.src(be.X)) == "uint64(ctx.BlockHeight())" && squash(c.src(be.Y)) == "signedWindow" {
				if len(ifs.Body.List) == 1 {
					if _, ok := ifs.Body.List[0].(*ast.ReturnStmt); ok {
						guard = cmpOf(be.Op)
					}
				}
			}
		}
	}
	fmt.Fprintf(&sb, "/-- `slashing`: `if uint64(ctx.BlockHeight()) <cmp> signedWindow { return }` -/\ndef slashingGuardCmp : Cmp := %s\n\n", guard)

	// --- UnbondedOracle: unbonding-delegation test
	ubd := ".none"
	ubdSrc := ""
	if fd := c.findFunc(c13Keeper, "MsgServer", "UnbondedOracle"); fd != nil {
		for _, st := range fd.Body.List {
			ifs, ok := st.(*ast.IfStmt)
			if !ok || ifs.Init == nil || !strings.Contains(c.src(ifs.Init), "GetUnbondingDelegation(") {
				continue
			}
			ubdSrc = squash(c.src(ifs.Cond))
			switch {
			case ubdSrc == "err != nil" && blockReturnsErr(ifs.Body):
				ubd = ".rejectIfMissing"
			case ubdSrc == "err == nil" && blockReturnsErr(ifs.Body):
				ubd = ".rejectIfExists"
			case (ubdSrc == "found" || ubdSrc == "ok") && blockReturnsErr(ifs.Body):
				ubd = ".rejectIfExists"
			}
		}
	}
	if fd := c.findFunc(c13Keeper, "MsgServer", "UnbondedOracle"); fd != nil && ubd == ".none" {
		// `ubd, err := GetUnbondingDelegation(…)` followed by `for _, entry := range ubd.Entries { if !entry.IsMature(…) { return err } }`
		for _, st := range fd.Body.List {
			r, ok := st.(*ast.RangeStmt)
			if !ok || !strings.HasSuffix(squash(c.src(r.X)), ".Entries") {
				continue
			}
			for _, bst := range r.Body.List {
				if ifs, ok := bst.(*ast.IfStmt); ok && blockReturnsErr(ifs.Body) {
					ubdSrc = "range Entries: " + squash(c.src(ifs.Cond))
					if strings.HasPrefix(squash(c.src(ifs.Cond)), "!") && strings.Contains(ubdSrc, ".IsMature(ctx.BlockTime())") {
						ubd = ".rejectIfImmature"
					} else {
						ubd = ".other"
					}
				}
			}
		}
	}
	fmt.Fprintf(&sb, "/-- `if _, err = GetUnbondingDelegation(…); %s { return … }` -/\ndef unbondUbdTest : UbdTest := %s\n\n", ubdSrc, ubd)
	c13RefreshFacts(c, &sb)
	c13SetFacts(c, &sb)
	c13AddFacts(c, &sb)
	sb.WriteString("end FxVerif.Gen.C13\n")
	c.write("C13.lean", sb.String())
	c.facts["C13.bridgeCallSlashArg"] = loops["bridgeCallSlashing"].argSrc
	c.facts["C13.unbondUbdTest"] = ubd
	c.facts["C13.guards"] = g

	extractC07(c)
}

// ---------------------------------------------------------------------------------------------------------------
// C07: panic / Must* / partial-arithmetic sites reachable from Keeper.EndBlocker (name-based call graph inside
// x/crosschain/keeper and the hand-written files of x/crosschain/types).

type c07Site struct{ Fn, Kind, What, Where string }

func extractC07(c *ctxT) {
	type fnT struct {
		fd  *ast.FuncDecl
		pkg string
	}
	byName := map[string][]fnT{}
	for _, fd := range c.funcDecls(c13Keeper) {
		byName[fd.Name.Name] = append(byName[fd.Name.Name], fnT{fd, "keeper"})
	}
	p := c.pkg(c13Types)
	for _, fn := range sortedKeys(p) {
		if strings.HasSuffix(fn, ".pb.go") || strings.HasSuffix(fn, ".pb.gw.go") {
			continue
		}
		for _, d := range p[fn].Decls {
			if fd, ok := d.(*ast.FuncDecl); ok {
				byName[fd.Name.Name] = append(byName[fd.Name.Name], fnT{fd, "types"})
			}
		}
	}
	root := c.findFunc(c13Keeper, "Keeper", "EndBlocker")
	if root == nil {
		fail("C07: Keeper.EndBlocker not found")
	}
	seen := map[*ast.FuncDecl]bool{}
	var order []fnT
	var visit func(f fnT)
	var sites []c07Site
	qual := func(f fnT) string {
		r := recvName(f.fd)
		if r != "" {
			return f.pkg + "." + r + "." + f.fd.Name.Name
		}
		return f.pkg + "." + f.fd.Name.Name
	}
	arith := map[string]bool{"Uint64": true, "Int64": true, "QuoUint64": true, "Quo": true, "QuoRaw": true}
	visit = func(f fnT) {
		if seen[f.fd] || f.fd.Body == nil {
			return
		}
		seen[f.fd] = true
		order = append(order, f)
		ast.Inspect(f.fd.Body, func(n ast.Node) bool {
			ce, ok := n.(*ast.CallExpr)
			if !ok {
				return true
			}
			name, recvSrc := "", ""
			switch fn := ce.Fun.(type) {
			case *ast.Ident:
				name = fn.Name
			case *ast.SelectorExpr:
				name = fn.Sel.Name
				recvSrc = squash(c.src(fn.X))
			}
			switch {
			case name == "panic" && recvSrc == "":
				sites = append(sites, c07Site{qual(f), "panic", squash(c.src(ce))[:min(60, len(squash(c.src(ce))))], c.pos(ce)})
			case strings.HasPrefix(name, "Must"):
				what := name
				if recvSrc != "" {
					what = recvSrc + "." + name
				}
				sites = append(sites, c07Site{qual(f), "must", what, c.pos(ce)})
			case arith[name] && recvSrc != "" && len(ce.Args) <= 1:
				sites = append(sites, c07Site{qual(f), "arith", name, c.pos(ce)})
			}
			// follow calls: k.X / s.X → keeper methods; types.X → types functions; other selectors → types methods by name
			for _, g := range byName[name] {
				switch {
				case recvSrc == "k" || recvSrc == "s" || recvSrc == "":
					if g.pkg == "keeper" || (recvSrc == "" && g.pkg == f.pkg) {
						visit(g)
					}
				case recvSrc == "types":
					if g.pkg == "types" && g.fd.Recv == nil {
						visit(g)
					}
				default:
					if g.pkg == "types" && g.fd.Recv != nil {
						visit(g)
					}
				}
			}
			return true
		})
	}
	visit(fnT{root, "keeper"})
	// dedupe (fn, kind, what)
	type key struct{ a, b, c string }
	uniq := map[key]c07Site{}
	for _, s := range sites {
		k := key{s.Fn, s.Kind, s.What}
		if _, ok := uniq[k]; !ok {
			uniq[k] = s
		}
	}
	var ks []key
	for k := range uniq {
		ks = append(ks, k)
	}
	sort.Slice(ks, func(i, j int) bool {
		if ks[i].a != ks[j].a {
			return ks[i].a < ks[j].a
		}
		if ks[i].b != ks[j].b {
			return ks[i].b < ks[j].b
		}
		return ks[i].c < ks[j].c
	})
	var sb strings.Builder
	sb.WriteString("namespace FxVerif.Gen.C07\n\n")
	sb.WriteString("/-- a place where the crosschain end-blocker can panic: explicit `panic(…)`, a `Must*` call, or a partial\narithmetic method (`Uint64()`, `Quo…`) — function, kind, callee -/\nstructure Site where\n  fn : String\n  kind : String\n  what : String\n  deriving DecidableEq, Repr\n\n")
	sb.WriteString("def endBlockerSites : List Site := [\n")
	var fs []map[string]string
	for i, k := range ks {
		s := uniq[k]
		sep := ","
		if i == len(ks)-1 {
			sep = ""
		}
		fmt.Fprintf(&sb, "  ⟨%s, %s, %s⟩%s  -- %s\n", leanStr(s.Fn), leanStr(s.Kind), leanStr(s.What), sep, s.Where)
		fs = append(fs, map[string]string{"fn": s.Fn, "kind": s.Kind, "what": s.What, "where": s.Where})
	}
	sb.WriteString("]\n\n")
	var fns []string
	for _, f := range order {
		fns = append(fns, leanStr(qual(f)))
	}
	sort.Strings(fns)
	fmt.Fprintf(&sb, "/-- functions reachable from `Keeper.EndBlocker` (name-based call graph) -/\ndef endBlockerFns : List String := %s\n\n", leanList(fns))
	c07GovFacts(c, &sb)
	c07EscrowFacts(c, &sb)
	c07AppFacts(c, &sb)
	sb.WriteString("end FxVerif.Gen.C07\n")
	c.write("C07.lean", sb.String())
	c.facts["C07.sites"] = fs
}
