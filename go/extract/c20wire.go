package main

import (
	"fmt"
	"go/ast"
	"go/token"
	"strconv"
	"strings"
)

// C20, part 3: wiring facts read off the AST (appended to Gen/C20.lean by extractC20):
//   * the decorator chain of newCosmosAnteHandler, in order, with the argument list of each constructor;
//   * the routing of NewAnteHandler (extension option -> handler / reject);
//   * app.go hands `fxante.NewCheckTxFeees(<bypass types>, <max gas>).Check` (both read from the node configuration)
//     to the ante handler as TxFeeChecker;
//   * the regular expression of `ValidateModuleName` and that it is anchored at both ends;
//   * the shape of `Byte32ToString` (strip trailing zero bytes).
func c20Wire(c *ctxT, sb *strings.Builder, unknowns *[]string) {
	norm := func(n ast.Node) string { return strings.Join(strings.Fields(c.src(n)), " ") }
	// ---- cosmos ante chain ----
	var chain []string
	if fd := c.findFunc("ante", "", "newCosmosAnteHandler"); fd != nil {
		ast.Inspect(fd.Body, func(n ast.Node) bool {
			if ce, ok := n.(*ast.CallExpr); ok && strings.HasSuffix(norm(ce.Fun), "ChainAnteDecorators") && chain == nil {
				for _, a := range ce.Args {
					chain = append(chain, norm(a))
				}
				return false
			}
			return true
		})
	}
	if chain == nil {
		*unknowns = append(*unknowns, "newCosmosAnteHandler: decorator chain not found")
	}
	fmt.Fprintf(sb, "\n/-- the decorators of `newCosmosAnteHandler`, in the order `sdk.ChainAnteDecorators` runs them -/\ndef cosmosAnteChain : List String := %s\n", leanList(mapStr(chain, leanStr)))

	// ---- NewAnteHandler routing ----
	var routes []string
	if fd := c.findFunc("ante", "", "NewAnteHandler"); fd != nil {
		ast.Inspect(fd.Body, func(n ast.Node) bool {
			ss, ok := n.(*ast.SwitchStmt)
			if !ok || ss.Init == nil || !strings.Contains(norm(ss.Init), "GetTypeUrl()") {
				return true
			}
			for _, cl := range ss.Body.List {
				cc := cl.(*ast.CaseClause)
				target := "other"
				body := ""
				for _, st := range cc.Body {
					body += norm(st) + " "
				}
				switch {
				case strings.Contains(body, "newEthAnteHandler(options)(ctx, tx, sim)"):
					target = "eth"
				case strings.Contains(body, "newCosmosAnteHandler("):
					target = "cosmos"
				case strings.Contains(body, "ErrUnknownExtensionOptions"):
					target = "reject"
				}
				if cc.List == nil {
					routes = append(routes, "default=>"+target)
				}
				for _, e := range cc.List {
					if bl, ok := e.(*ast.BasicLit); ok && bl.Kind == token.STRING {
						u, _ := strconv.Unquote(bl.Value)
						routes = append(routes, u+"=>"+target)
					}
				}
			}
			return false
		})
		// no extension options: the cosmos handler
		if strings.Contains(norm(fd.Body), "case sdk.Tx: return newCosmosAnteHandler(options)(ctx, tx, sim)") {
			routes = append(routes, "none=>cosmos")
		}
	}
	fmt.Fprintf(sb, "\n/-- `NewAnteHandler`: first extension option's type URL ↦ handler (`none` = a transaction without extension options) -/\ndef anteRouting : List String := %s\n", leanList(mapStr(routes, leanStr)))

	// ---- app wiring ----
	// setAnteHandler: both values are read from the application options, assigned exactly once (no rewriting of "0" or
	// "absent" into something else) and handed unchanged to NewCheckTxFeees, whose `.Check` is the TxFeeChecker
	wired := false
	for _, f := range c.pkg("app") {
		for _, d := range f.Decls {
			fd, ok := d.(*ast.FuncDecl)
			if !ok || fd.Body == nil || fd.Name.Name != "setAnteHandler" {
				continue
			}
			assigns := map[string][]string{}
			ast.Inspect(fd.Body, func(n ast.Node) bool {
				switch x := n.(type) {
				case *ast.AssignStmt:
					for i, l := range x.Lhs {
						if id, ok := l.(*ast.Ident); ok && (id.Name == "BypassMinFeeMsgTypes" || id.Name == "MaxBypassMinFeeMsgGasUsage") {
							rhs := "?"
							if len(x.Rhs) == len(x.Lhs) {
								rhs = norm(x.Rhs[i])
							}
							assigns[id.Name] = append(assigns[id.Name], x.Tok.String()+" "+rhs)
						}
					}
				case *ast.IncDecStmt:
					if id, ok := x.X.(*ast.Ident); ok {
						assigns[id.Name] = append(assigns[id.Name], x.Tok.String())
					}
				case *ast.UnaryExpr:
					if x.Op == token.AND { // address taken: could be written through a pointer
						if id, ok := x.X.(*ast.Ident); ok && (id.Name == "BypassMinFeeMsgTypes" || id.Name == "MaxBypassMinFeeMsgGasUsage") {
							assigns[id.Name] = append(assigns[id.Name], "&")
						}
					}
				}
				return true
			})
			t, m := assigns["BypassMinFeeMsgTypes"], assigns["MaxBypassMinFeeMsgGasUsage"]
			wired = len(t) == 1 && t[0] == ":= cast.ToStringSlice(appOpts.Get(fxcfg.BypassMinFeeMsgTypesKey))" &&
				len(m) == 1 && m[0] == ":= cast.ToUint64(appOpts.Get(fxcfg.BypassMinFeeMsgMaxGasUsageKey))" &&
				strings.Contains(norm(fd.Body), "TxFeeChecker: fxante.NewCheckTxFeees(BypassMinFeeMsgTypes, MaxBypassMinFeeMsgGasUsage).Check") &&
				strings.Contains(norm(fd.Body), "app.SetAnteHandler(fxante.NewAnteHandler(anteOptions))")
		}
	}
	fmt.Fprintf(sb, "\n/-- app.go `setAnteHandler`: the exempt types and the allowance are read from the application options\n(`bypass-min-fee.msg-types`, `bypass-min-fee.msg-max-gas-usage`), assigned exactly once, and handed unchanged to\n`fxante.NewCheckTxFeees(…).Check`, the `TxFeeChecker` of the ante handler the app installs -/\ndef appWiresFeeChecker : Bool := %v\n", wired)

	// ---- ValidateModuleName ----
	re, anchored, matches := "", false, false
	for _, f := range c.pkg("x/crosschain/types") {
		ast.Inspect(f, func(n ast.Node) bool {
			switch x := n.(type) {
			case *ast.AssignStmt:
				if len(x.Lhs) == 1 && len(x.Rhs) == 1 && norm(x.Lhs[0]) == "reModuleNameString" {
					if bl, ok := x.Rhs[0].(*ast.BasicLit); ok && bl.Kind == token.STRING {
						re, _ = strconv.Unquote(bl.Value)
					}
				}
				if len(x.Lhs) == 1 && norm(x.Lhs[0]) == "reModuleName" && norm(x.Rhs[0]) == "regexp.MustCompile(fmt.Sprintf(`^%s$`, reModuleNameString))" {
					anchored = true
				}
			case *ast.FuncDecl:
				if x.Name.Name == "ValidateModuleName" && x.Body != nil {
					b := norm(x.Body)
					matches = strings.HasPrefix(b, "{ if !reModuleName.MatchString(moduleName) { return fmt.Errorf(") && strings.HasSuffix(b, "} return nil }")
				}
			}
			return true
		})
	}
	fmt.Fprintf(sb, "\n/-- `ValidateModuleName`: the pattern, `^…$` anchoring, and `error ⇔ !MatchString` -/\ndef moduleNameRegex : String := %s\ndef moduleNameAnchored : Bool := %v\ndef moduleNameErrIffNoMatch : Bool := %v\n", leanStr(re), anchored, matches)

	// ---- Byte32ToString ----
	b32 := false
	if fd := c.findFunc("types", "", "Byte32ToString"); fd != nil {
		b32 = norm(fd.Body) == "{ for i := len(bytes) - 1; i >= 0; i-- { if bytes[i] != 0 { return string(bytes[:i+1]) } } return \"\" }"
	}
	fmt.Fprintf(sb, "\n/-- `Byte32ToString` is \"drop the trailing zero bytes\" (loop from the end, first non-zero byte ends the string) -/\ndef byte32ToStringShape : Bool := %v\n", b32)
}
