package main

import (
	"fmt"
	"go/ast"
	"go/token"
	"strconv"
	"strings"
)

// C20, part 3: wiring facts read off the AST (appended to Gen/C20.lean by extractC20):
//   * the decorator chain of newCosmosAnteHandler, in order, with the argument list of each constructor;
//   * the routing of NewAnteHandler (extension option -> handler / reject);
//   * app.go hands `fxante.NewCheckTxFeees(<bypass types>, <max gas>).Check` (both read from the node configuration)
//     to the ante handler as TxFeeChecker;
//   * the regular expression of `ValidateModuleName` and that it is anchored at both ends;
//   * the shape of `Byte32ToString` (strip trailing zero bytes).
func c20Wire(c *ctxT, sb *strings.Builder, unknowns *[]string) {
	norm := func(n ast.Node) string { return strings.Join(strings.Fields(c.src(n)), " ") }
	// ---- cosmos ante chain ----
	var chain []string
	if fd := c.findFunc("ante", "", "newCosmosAnteHandler"); fd != nil {
		ast.Inspect(fd.Body, func(n ast.Node) bool {
			if ce, ok := n.(*ast.CallExpr); ok && strings.HasSuffix(norm(ce.Fun), "ChainAnteDecorators") && chain == nil {
				for _, a := range ce.Args {
					chain = append(chain, norm(a))
				}
				return false
			}
			return true
		})
	}
	if chain == nil {
		*unknowns = append(*unknowns, "newCosmosAnteHandler: decorator chain not found")
	}
	fmt.Fprintf(sb, "\n/-- the decorators of `newCosmosAnteHandler`, in the order `sdk.ChainAnteDecorators` runs them -/\ndef cosmosAnteChain : List String := %s\n", leanList(mapStr(chain, leanStr)))

	// ---- NewAnteHandler routing ----
	var routes []string
	if fd := c.findFunc("ante", "", "NewAnteHandler"); fd != nil {
		ast.Inspect(fd.Body, func(n ast.Node) bool {
			ss, ok := n.(*ast.SwitchStmt)
			if !ok || ss.Init == nil || !strings.Contains(norm(ss.Init), "GetTypeUrl()") {
				return true
			}
			for _, cl := range ss.Body.List {
				cc := cl.(*ast.CaseClause)
				target := "other"
				body := ""
				for _, st := range cc.Body {
					body += norm(st) + " "
				}
				switch {
				case strings.Contains(body, "newEthAnteHandler(options)(ctx, tx, sim)"):
					target = "eth"
				case strings.Contains(body, "newCosmosAnteHandler("):
					target = "cosmos"
				case strings.Contains(body, "ErrUnknownExtensionOptions"):
					target = "reject"
				}
				if cc.List == nil {
					routes = append(routes, "default=>"+target)
				}
				for _, e := range cc.List {
					if bl, ok := e.(*ast.BasicLit); ok && bl.Kind == token.STRING {
						u, _ := strconv.Unquote(bl.Value)
						routes = append(routes, u+"=>"+target)
					}
				}
			}
			return false
		})
		// no extension options: the cosmos handler
		if strings.Contains(norm(fd.Body), "case sdk.Tx: return newCosmosAnteHandler(options)(ctx, tx, sim)") {
			routes = append(routes, "none=>cosmos")
		}
	}
	fmt.Fprintf(sb, "\n/-- `NewAnteHandler`: first extension option's type URL ↦ handler (`none` = a transaction without extension options) -/\ndef anteRouting : List String := %s\n", leanList(mapStr(routes, leanStr)))

	// ---- app wiring ----
	// setAnteHandler is TRANSLATED: the two configuration values (`bypass-min-fee.msg-types`, `…msg-max-gas-usage`, read with
	// cast.ToStringSlice / cast.ToUint64 — absent = [] / 0) flow through whatever statements touch the two locals into the
	// arguments of NewCheckTxFeees.  `wiredCheckTxFeees cfgTypes cfgMaxGas` is the checker the app installs as a function of
	// the CONFIGURED values; any defaulting / rewriting in app.go shows up in this definition (unknown shapes become
	// `unknownNat`), and the theorems about the node's fee rule are stated over it.
	wired := false
	var lets []string
	typesArg, maxArg := "(unknownList \"NewCheckTxFeees not found\")", "(unknownNat \"NewCheckTxFeees not found\")"
	natExpr := func(e ast.Expr) string {
		switch x := e.(type) {
		case *ast.BasicLit:
			if x.Kind == token.INT {
				return strings.ReplaceAll(x.Value, "_", "")
			}
		case *ast.Ident:
			if x.Name == "MaxBypassMinFeeMsgGasUsage" {
				return x.Name
			}
		case *ast.SelectorExpr:
			if norm(x) == "math.MaxUint64" {
				return "(2 ^ 64 - 1)"
			}
		}
		*unknowns = append(*unknowns, "setAnteHandler: value "+norm(e))
		return "(unknownNat " + leanStr(norm(e)) + ")"
	}
	for _, f := range c.pkg("app") {
		for _, d := range f.Decls {
			fd, ok := d.(*ast.FuncDecl)
			if !ok || fd.Body == nil || fd.Name.Name != "setAnteHandler" {
				continue
			}
			readT, readM := false, false
			touches := func(n ast.Node) bool {
				t := false
				ast.Inspect(n, func(m ast.Node) bool {
					if as, ok := m.(*ast.AssignStmt); ok {
						for _, l := range as.Lhs {
							if id, ok := l.(*ast.Ident); ok && (id.Name == "BypassMinFeeMsgTypes" || id.Name == "MaxBypassMinFeeMsgGasUsage") {
								t = true
							}
						}
					}
					if ue, ok := m.(*ast.UnaryExpr); ok && ue.Op == token.AND {
						if id, ok := ue.X.(*ast.Ident); ok && (id.Name == "BypassMinFeeMsgTypes" || id.Name == "MaxBypassMinFeeMsgGasUsage") {
							t = true
						}
					}
					if ids, ok := m.(*ast.IncDecStmt); ok {
						if id, ok := ids.X.(*ast.Ident); ok && id.Name == "MaxBypassMinFeeMsgGasUsage" {
							t = true
						}
					}
					return true
				})
				return t
			}
			for _, st := range fd.Body.List {
				src := norm(st)
				switch {
				case src == "BypassMinFeeMsgTypes := cast.ToStringSlice(appOpts.Get(fxcfg.BypassMinFeeMsgTypesKey))":
					readT = true
					lets = append(lets, "let BypassMinFeeMsgTypes := cfgTypes")
				case src == "MaxBypassMinFeeMsgGasUsage := cast.ToUint64(appOpts.Get(fxcfg.BypassMinFeeMsgMaxGasUsageKey))":
					readM = true
					lets = append(lets, "let MaxBypassMinFeeMsgGasUsage := cfgMaxGas")
				case touches(st):
					// `if MaxBypassMinFeeMsgGasUsage == k { MaxBypassMinFeeMsgGasUsage = e }` / `MaxBypassMinFeeMsgGasUsage = e`
					done := false
					if is, ok := st.(*ast.IfStmt); ok && is.Init == nil && is.Else == nil && len(is.Body.List) == 1 {
						if be, ok := is.Cond.(*ast.BinaryExpr); ok && norm(be.X) == "MaxBypassMinFeeMsgGasUsage" {
							if as, ok := is.Body.List[0].(*ast.AssignStmt); ok && as.Tok == token.ASSIGN && len(as.Lhs) == 1 && len(as.Rhs) == 1 && norm(as.Lhs[0]) == "MaxBypassMinFeeMsgGasUsage" {
								op := map[token.Token]string{token.EQL: "=", token.NEQ: "≠", token.LSS: "<", token.GTR: ">", token.LEQ: "≤", token.GEQ: "≥"}[be.Op]
								if op != "" {
									lets = append(lets, fmt.Sprintf("let MaxBypassMinFeeMsgGasUsage := if MaxBypassMinFeeMsgGasUsage %s %s then %s else MaxBypassMinFeeMsgGasUsage   -- %s", op, natExpr(be.Y), natExpr(as.Rhs[0]), src))
									done = true
								}
							}
						}
					}
					if as, ok := st.(*ast.AssignStmt); ok && !done && as.Tok == token.ASSIGN && len(as.Lhs) == 1 && len(as.Rhs) == 1 && norm(as.Lhs[0]) == "MaxBypassMinFeeMsgGasUsage" {
						lets = append(lets, fmt.Sprintf("let MaxBypassMinFeeMsgGasUsage := %s   -- %s", natExpr(as.Rhs[0]), src))
						done = true
					}
					if !done {
						*unknowns = append(*unknowns, "setAnteHandler: "+src)
						lets = append(lets, fmt.Sprintf("let MaxBypassMinFeeMsgGasUsage := unknownNat %s", leanStr(src)), fmt.Sprintf("let BypassMinFeeMsgTypes := unknownList %s", leanStr(src)))
					}
				}
			}
			ast.Inspect(fd.Body, func(n ast.Node) bool {
				if ce, ok := n.(*ast.CallExpr); ok && norm(ce.Fun) == "fxante.NewCheckTxFeees" && len(ce.Args) == 2 {
					if norm(ce.Args[0]) == "BypassMinFeeMsgTypes" {
						typesArg = "BypassMinFeeMsgTypes"
					} else {
						*unknowns = append(*unknowns, "setAnteHandler: exempt types argument "+norm(ce.Args[0]))
						typesArg = "(unknownList " + leanStr(norm(ce.Args[0])) + ")"
					}
					maxArg = natExpr(ce.Args[1])
				}
				return true
			})
			wired = readT && readM &&
				strings.Contains(norm(fd.Body), "TxFeeChecker: fxante.NewCheckTxFeees(") && strings.Contains(norm(fd.Body), ").Check,") &&
				strings.Contains(norm(fd.Body), "app.SetAnteHandler(fxante.NewAnteHandler(anteOptions))")
		}
	}
	fmt.Fprintf(sb, "\n/-- app.go `setAnteHandler`: both values are read from the application options, `NewCheckTxFeees(…).Check` is the\n`TxFeeChecker` of the ante handler the app installs -/\ndef appWiresFeeChecker : Bool := %v\n", wired)
	sb.WriteString("\n/-- the checker the app installs, as a function of the CONFIGURED values (`bypass-min-fee.msg-types`,\n`bypass-min-fee.msg-max-gas-usage`; an absent key reads as `[]` / `0`): `setAnteHandler` translated statement by statement -/\ndef wiredCheckTxFeees (cfgTypes : List String) (cfgMaxGas : Nat) : CheckTxFeees :=\n")
	if len(lets) == 0 {
		lets = []string{"let BypassMinFeeMsgTypes := unknownList \"setAnteHandler not found\"", "let MaxBypassMinFeeMsgGasUsage := unknownNat \"setAnteHandler not found\""}
	}
	for _, l := range lets {
		sb.WriteString("  " + l + "\n")
	}
	fmt.Fprintf(sb, "  ⟨%s, %s⟩\n", typesArg, maxArg)

	// ---- ValidateModuleName ----
	re, anchored, matches := "", false, false
	for _, f := range c.pkg("x/crosschain/types") {
		ast.Inspect(f, func(n ast.Node) bool {
			switch x := n.(type) {
			case *ast.AssignStmt:
				if len(x.Lhs) == 1 && len(x.Rhs) == 1 && norm(x.Lhs[0]) == "reModuleNameString" {
					if bl, ok := x.Rhs[0].(*ast.BasicLit); ok && bl.Kind == token.STRING {
						re, _ = strconv.Unquote(bl.Value)
					}
				}
				if len(x.Lhs) == 1 && norm(x.Lhs[0]) == "reModuleName" && norm(x.Rhs[0]) == "regexp.MustCompile(fmt.Sprintf(`^%s$`, reModuleNameString))" {
					anchored = true
				}
			case *ast.FuncDecl:
				if x.Name.Name == "ValidateModuleName" && x.Body != nil {
					b := norm(x.Body)
					matches = strings.HasPrefix(b, "{ if !reModuleName.MatchString(moduleName) { return fmt.Errorf(") && strings.HasSuffix(b, "} return nil }")
				}
			}
			return true
		})
	}
	fmt.Fprintf(sb, "\n/-- `ValidateModuleName`: the pattern, `^…$` anchoring, and `error ⇔ !MatchString` -/\ndef moduleNameRegex : String := %s\ndef moduleNameAnchored : Bool := %v\ndef moduleNameErrIffNoMatch : Bool := %v\n", leanStr(re), anchored, matches)

	// ---- Byte32ToString ----
	b32 := false
	if fd := c.findFunc("types", "", "Byte32ToString"); fd != nil {
		b32 = norm(fd.Body) == "{ for i := len(bytes) - 1; i >= 0; i-- { if bytes[i] != 0 { return string(bytes[:i+1]) } } return \"\" }"
	}
	fmt.Fprintf(sb, "\n/-- `Byte32ToString` is \"drop the trailing zero bytes\" (loop from the end, first non-zero byte ends the string) -/\ndef byte32ToStringShape : Bool := %v\n", b32)
}
