package main

import (
	"fmt"
	"go/ast"
	"go/token"
	"sort"
	"strings"
)

// C03, round 4: the claim handlers as control-flow programs the Lean model INTERPRETS (Model/C03Flow.lean).
//
// For every claim type the translator finds the code that executes a claim of that type — the single-type case of the type
// switch of `AttestationHandler` / `ExecuteClaim`; when that case hands the claim whole to a keeper method taking the concrete
// type (`return k.SendToFxExecuted(ctx, claim)`), the body of that method — and compiles its statements into a flat
// instruction list: assignments, expression statements, `if`/`else` as conditional jumps, `range` loops, returns.  Every Go
// expression becomes ⟨source text, leaves⟩ where the leaves are (a) the maximal claim-rooted expressions in it, named by the
// SAME (function, shape) key under which the handler view lists them (the view scan of c03view.go is re-used on the
// expression), and (b) the local variables it mentions.  The meaning of the source text is opaque (a parameter of the
// interpreter); what the model fixes is the control flow, the order of the statements, and that the claim is visible only
// through the view.  Statements the translator does not recognise become `.unknown` (`flows_modelled` fails).

type c03FE struct {
	Src    string
	Leaves []string
}

type c03FI struct {
	Kind    string
	Vars    []string
	E       *c03FE
	Es      []*c03FE
	Target  int
	It, K, V string
	Src     string
}

type c03Flow struct {
	c        *ctxT
	v        *c03Viewer
	claimVar string
	fn       string
	locals   map[string]bool
	code     []*c03FI
	nIter    int
}

func c03OneLine(s string) string {
	return strings.Join(strings.Fields(s), " ")
}

func (f *c03Flow) expr(nodes ...ast.Node) *c03FE {
	var srcs []string
	var leaves []string
	seen := map[string]bool{}
	for _, e := range nodes {
		if e == nil {
			continue
		}
		srcs = append(srcs, c03OneLine(f.c.src(e)))
		for _, en := range f.v.walk(e, f.claimVar, f.fn, map[string]bool{}) {
			l := ".read " + leanStr(en.Fn) + " " + leanStr(en.Expr)
			if !seen[l] {
				seen[l] = true
				leaves = append(leaves, l)
			}
		}
	}
	for _, e := range nodes {
		if e == nil {
			continue
		}
		var vis func(n ast.Node) bool
		vis = func(n ast.Node) bool {
			switch m := n.(type) {
			case *ast.SelectorExpr:
				ast.Inspect(m.X, vis)
				return false
			case *ast.KeyValueExpr:
				ast.Inspect(m.Value, vis)
				if _, isID := m.Key.(*ast.Ident); !isID {
					ast.Inspect(m.Key, vis)
				}
				return false
			case *ast.Ident:
				if f.locals[m.Name] && m.Name != f.claimVar {
					l := ".var " + leanStr(m.Name)
					if !seen[l] {
						seen[l] = true
						leaves = append(leaves, l)
					}
				}
			}
			return true
		}
		ast.Inspect(e, vis)
	}
	return &c03FE{Src: strings.Join(srcs, " ; "), Leaves: leaves}
}

func (f *c03Flow) emit(i *c03FI) int {
	f.code = append(f.code, i)
	return len(f.code) - 1
}

func (f *c03Flow) unknown(s ast.Node, why string) {
	f.emit(&c03FI{Kind: "unknown", Src: why + ": " + c03OneLine(f.c.src(s))})
}

// lhsVar: the local an assignment target writes (the variable itself, or the local a field / element of which is written)
func (f *c03Flow) lhsVar(e ast.Expr) (name string, whole bool, ok bool) {
	switch m := e.(type) {
	case *ast.Ident:
		return m.Name, true, true
	case *ast.SelectorExpr:
		if id, isID := m.X.(*ast.Ident); isID && f.locals[id.Name] {
			return id.Name, false, true
		}
	case *ast.IndexExpr:
		if id, isID := m.X.(*ast.Ident); isID && f.locals[id.Name] {
			return id.Name, false, true
		}
	}
	return "", false, false
}

func (f *c03Flow) onlyLogging(body *ast.BlockStmt) bool {
	if body == nil {
		return false
	}
	for _, s := range body.List {
		es, ok := s.(*ast.ExprStmt)
		if !ok {
			return false
		}
		ce, ok := es.X.(*ast.CallExpr)
		if !ok || !c03IsLogCall(f.c.src(ce.Fun)) {
			return false
		}
	}
	return true
}

func (f *c03Flow) stmts(list []ast.Stmt) {
	for _, s := range list {
		f.stmt(s)
	}
}

func (f *c03Flow) stmt(s ast.Stmt) {
	c := f.c
	src := c03OneLine(strings.SplitN(c.src(s), "\n", 2)[0])
	switch n := s.(type) {
	case *ast.AssignStmt:
		var names []string
		allWhole := true
		for _, l := range n.Lhs {
			nm, whole, ok := f.lhsVar(l)
			if !ok {
				f.unknown(s, "assignment target")
				return
			}
			names = append(names, nm)
			allWhole = allWhole && whole
		}
		switch {
		case len(n.Rhs) == 1 && allWhole && (n.Tok == token.DEFINE || n.Tok == token.ASSIGN):
			f.emit(&c03FI{Kind: "assign", Vars: names, E: f.expr(n.Rhs[0]), Src: src})
		case len(n.Rhs) == 1 && len(n.Lhs) == 1:
			// `x.F = e`, `x[i] = e`, `x += e`: the new value of x is a function of the old one and of e
			f.emit(&c03FI{Kind: "assign", Vars: names, E: f.expr(s), Src: src})
		case len(n.Rhs) == len(n.Lhs) && allWhole:
			// parallel assignment: only when no right-hand side mentions an assigned variable
			for _, r := range n.Rhs {
				for _, l := range f.expr(r).Leaves {
					for _, nm := range names {
						if l == ".var "+leanStr(nm) {
							f.unknown(s, "parallel assignment reading an assigned variable")
							return
						}
					}
				}
			}
			for i := range n.Lhs {
				f.emit(&c03FI{Kind: "assign", Vars: []string{names[i]}, E: f.expr(n.Rhs[i]), Src: src})
			}
		default:
			f.unknown(s, "assignment")
		}
	case *ast.DeclStmt:
		gd, ok := n.Decl.(*ast.GenDecl)
		if !ok || gd.Tok != token.VAR {
			f.unknown(s, "declaration")
			return
		}
		for _, sp := range gd.Specs {
			vs := sp.(*ast.ValueSpec)
			var names []string
			for _, nm := range vs.Names {
				names = append(names, nm.Name)
			}
			switch {
			case len(vs.Values) == 0:
				for _, nm := range names {
					f.emit(&c03FI{Kind: "assign", Vars: []string{nm}, E: &c03FE{Src: "zero value of " + c03OneLine(c.src(vs.Type))}, Src: src})
				}
			case len(vs.Values) == 1:
				f.emit(&c03FI{Kind: "assign", Vars: names, E: f.expr(vs.Values[0]), Src: src})
			default:
				f.unknown(s, "declaration")
			}
		}
	case *ast.ExprStmt:
		if ce, ok := n.X.(*ast.CallExpr); ok {
			fun := c.src(ce.Fun)
			if fun == "panic" {
				f.emit(&c03FI{Kind: "ret", Es: []*c03FE{f.expr(n.X)}, Src: src})
				return
			}
			if c03IsLogCall(fun) {
				f.emit(&c03FI{Kind: "skip", Src: "logging: " + src})
				return
			}
		}
		f.emit(&c03FI{Kind: "eval", E: f.expr(n.X), Src: src})
	case *ast.IncDecStmt:
		nm, _, ok := f.lhsVar(n.X)
		if !ok {
			f.unknown(s, "inc/dec target")
			return
		}
		f.emit(&c03FI{Kind: "assign", Vars: []string{nm}, E: f.expr(s), Src: src})
	case *ast.IfStmt:
		if n.Init != nil {
			f.stmt(n.Init)
		}
		br := f.emit(&c03FI{Kind: "brFalse", E: f.expr(n.Cond), Src: "if " + c03OneLine(c.src(n.Cond))})
		f.stmts(n.Body.List)
		if n.Else == nil {
			f.code[br].Target = len(f.code)
			return
		}
		j := f.emit(&c03FI{Kind: "jmp", Src: "else"})
		f.code[br].Target = len(f.code)
		if eb, ok := n.Else.(*ast.BlockStmt); ok {
			f.stmts(eb.List)
		} else {
			f.stmt(n.Else)
		}
		f.code[j].Target = len(f.code)
	case *ast.ReturnStmt:
		var es []*c03FE
		for _, r := range n.Results {
			es = append(es, f.expr(r))
		}
		f.emit(&c03FI{Kind: "ret", Es: es, Src: src})
	case *ast.RangeStmt:
		hasBranch := false
		ast.Inspect(n.Body, func(m ast.Node) bool {
			if _, ok := m.(*ast.BranchStmt); ok {
				hasBranch = true
			}
			return true
		})
		if hasBranch {
			f.unknown(s, "range loop with break/continue")
			return
		}
		name := func(e ast.Expr) string {
			if id, ok := e.(*ast.Ident); ok {
				return id.Name
			}
			return "_"
		}
		it := fmt.Sprintf("#range%d", f.nIter)
		f.nIter++
		f.emit(&c03FI{Kind: "iterInit", It: it, E: f.expr(n.X), Src: src})
		head := f.emit(&c03FI{Kind: "iterNext", It: it, K: name(n.Key), V: name(n.Value), Src: "next element"})
		f.stmts(n.Body.List)
		f.emit(&c03FI{Kind: "jmp", Target: head, Src: "loop"})
		f.code[head].Target = len(f.code)
	case *ast.DeferStmt:
		if fl, ok := n.Call.Fun.(*ast.FuncLit); ok && f.onlyLogging(fl.Body) {
			f.emit(&c03FI{Kind: "skip", Src: "deferred logging / telemetry"})
			return
		}
		if c03IsLogCall(c.src(n.Call.Fun)) {
			f.emit(&c03FI{Kind: "skip", Src: "deferred logging / telemetry"})
			return
		}
		f.unknown(s, "defer")
	case *ast.BlockStmt:
		f.stmts(n.List)
	case *ast.EmptyStmt:
	default:
		f.unknown(s, fmt.Sprintf("%T", s))
	}
}

func c03FELean(e *c03FE) string {
	return "⟨" + leanStr(e.Src) + ", " + leanList(e.Leaves) + "⟩"
}

func (i *c03FI) lean() string {
	q := func(xs []string) string {
		var o []string
		for _, x := range xs {
			o = append(o, leanStr(x))
		}
		return leanList(o)
	}
	switch i.Kind {
	case "assign":
		return ".assign " + q(i.Vars) + " " + c03FELean(i.E)
	case "eval":
		return ".eval " + c03FELean(i.E)
	case "brFalse":
		return fmt.Sprintf(".brFalse %s %d", c03FELean(i.E), i.Target)
	case "jmp":
		return fmt.Sprintf(".jmp %d", i.Target)
	case "iterInit":
		return ".iterInit " + leanStr(i.It) + " " + c03FELean(i.E)
	case "iterNext":
		return fmt.Sprintf(".iterNext %s %s %s %d", leanStr(i.It), leanStr(i.K), leanStr(i.V), i.Target)
	case "ret":
		var es []string
		for _, e := range i.Es {
			es = append(es, c03FELean(e))
		}
		return ".ret " + leanList(es)
	case "skip":
		return ".skip " + leanStr(i.Src)
	}
	return ".unknown " + leanStr(i.Src)
}

// c03CollectLocals: every name a function body defines (parameters, :=, var, range), except the state handles
func (c *ctxT) c03CollectLocals(params *ast.FieldList, body ast.Node, claimVar string) map[string]bool {
	locals := map[string]bool{}
	add := func(n string) {
		if n != "_" && n != "" && n != claimVar && n != "ctx" && n != "k" {
			locals[n] = true
		}
	}
	if params != nil {
		for _, p := range params.List {
			for _, nm := range p.Names {
				add(nm.Name)
			}
		}
	}
	ast.Inspect(body, func(n ast.Node) bool {
		switch m := n.(type) {
		case *ast.AssignStmt:
			if m.Tok == token.DEFINE {
				for _, l := range m.Lhs {
					if id, ok := l.(*ast.Ident); ok {
						add(id.Name)
					}
				}
			}
		case *ast.ValueSpec:
			for _, nm := range m.Names {
				add(nm.Name)
			}
		case *ast.RangeStmt:
			if m.Tok == token.DEFINE {
				if id, ok := m.Key.(*ast.Ident); ok {
					add(id.Name)
				}
				if id, ok := m.Value.(*ast.Ident); ok {
					add(id.Name)
				}
			}
		case *ast.FuncLit:
			for _, p := range m.Type.Params.List {
				for _, nm := range p.Names {
					add(nm.Name)
				}
			}
		}
		return true
	})
	return locals
}

var c03FlowTags = map[string]string{"MsgSendToFxClaim": "stf", "MsgBridgeCallClaim": "bc", "MsgBridgeCallResultClaim": "bcr",
	"MsgSendToExternalClaim": "ste", "MsgBridgeTokenClaim": "bt", "MsgOracleSetUpdatedClaim": "osu"}

// c03FlowOf: the code that executes a claim of type tn
func (c *ctxT) c03FlowOf(tn string, ftype map[string]string, classOnly map[string]map[int]bool) (code []*c03FI, fns []string, where string) {
	v := &c03Viewer{c: c, tn: tn, ftype: ftype, classOnly: classOnly, scanned: map[string]bool{}}
	isT := func(t ast.Expr) bool {
		s := c.src(t)
		return s == "*types."+tn || s == "types."+tn || s == "*"+tn
	}
	for _, fd := range c.funcDecls(c03Keeper) {
		if fd.Body == nil {
			continue
		}
		for _, p := range fd.Type.Params.List {
			if isT(p.Type) {
				v.scanned[fd.Name.Name] = true
			}
		}
	}
	for _, disp := range []string{"AttestationHandler", "ExecuteClaim"} {
		fd := c.findFunc(c03Keeper, "Keeper", disp)
		if fd == nil || fd.Body == nil {
			continue
		}
		var clause *ast.CaseClause
		bind := ""
		ast.Inspect(fd.Body, func(n ast.Node) bool {
			ts, ok := n.(*ast.TypeSwitchStmt)
			if !ok {
				return true
			}
			as, ok := ts.Assign.(*ast.AssignStmt)
			if !ok || len(as.Lhs) != 1 {
				return true
			}
			for _, cc := range ts.Body.List {
				cl := cc.(*ast.CaseClause)
				if len(cl.List) == 1 && isT(cl.List[0]) && clause == nil {
					clause = cl
					bind = c.src(as.Lhs[0])
				}
			}
			return true
		})
		if clause == nil {
			continue
		}
		// does the case hand the claim whole to a keeper method that takes the concrete type?
		var callee *ast.FuncDecl
		for _, st := range clause.Body {
			ast.Inspect(st, func(n ast.Node) bool {
				ce, ok := n.(*ast.CallExpr)
				if !ok {
					return true
				}
				se, ok := ce.Fun.(*ast.SelectorExpr)
				if !ok {
					return true
				}
				for _, a := range ce.Args {
					if id, ok := a.(*ast.Ident); ok && id.Name == bind && v.scanned[se.Sel.Name] && callee == nil {
						callee = c.findFunc(c03Keeper, "Keeper", se.Sel.Name)
					}
				}
				return true
			})
		}
		if callee != nil && callee.Body != nil {
			claimVar := ""
			for _, p := range callee.Type.Params.List {
				if isT(p.Type) && len(p.Names) == 1 {
					claimVar = p.Names[0].Name
				}
			}
			f := &c03Flow{c: c, v: v, claimVar: claimVar, fn: callee.Name.Name}
			f.locals = c.c03CollectLocals(callee.Type.Params, callee.Body, claimVar)
			f.stmts(callee.Body.List)
			return f.code, []string{callee.Name.Name}, c.pos(callee) + " Keeper." + callee.Name.Name + " (called from the " + tn + " case of " + disp + ")"
		}
		f := &c03Flow{c: c, v: v, claimVar: bind, fn: disp}
		f.locals = c.c03CollectLocals(nil, clause, bind)
		f.stmts(clause.Body)
		return f.code, []string{disp}, c.pos(clause) + " the " + tn + " case of Keeper." + disp
	}
	return []*c03FI{{Kind: "unknown", Src: "no single-type case for " + tn + " in AttestationHandler / ExecuteClaim"}}, nil, ""
}

func (c *ctxT) c03FlowLean(ftypes map[string]map[string]string, classOnly map[string]map[int]bool) string {
	var sb strings.Builder
	var tns []string
	for tn := range c03FlowTags {
		tns = append(tns, tn)
	}
	sort.Strings(tns)
	facts := map[string]any{}
	for _, tn := range tns {
		tag := c03FlowTags[tn]
		code, fns, where := c.c03FlowOf(tn, ftypes[tn], classOnly)
		fmt.Fprintf(&sb, "/-- what executes a %s: %s, compiled to instructions (jump targets are instruction indices) -/\ndef flow_%s : List FInstr := [", tn, where, tag)
		var fl []string
		for i, in := range code {
			if i > 0 {
				sb.WriteString(",")
			}
			fmt.Fprintf(&sb, "\n  -- %d: %s\n  %s", i, strings.ReplaceAll(in.Src, "-/", "- /"), in.lean())
			fl = append(fl, in.lean())
		}
		sb.WriteString("\n]\n\n")
		var q []string
		for _, f := range fns {
			q = append(q, leanStr(f))
		}
		fmt.Fprintf(&sb, "def flowFns_%s : List String := %s\n\n", tag, leanList(q))
		facts[tn] = map[string]any{"where": where, "fns": fns, "code": fl}
	}
	c.facts["C03.flows"] = facts
	return sb.String()
}
