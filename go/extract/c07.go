package main

import (
	"fmt"
	"go/ast"
	"go/token"
	"strconv"
	"strings"
)

// C07 (second file): facts read off the AST for
//   * the oracle-set refresh decision `isNeedOracleSetRequest` (x/crosschain/keeper/abci.go): the ORDER of its checks, how the
//     float64 power difference is turned into text (format verb / strconv arguments), which parser reads it back, whether a
//     parse error panics, the cap at 1 and the comparison with the change percent  → Gen/C13.lean (the model uses them);
//   * the x/gov end-blocker: the decision tail of `Keeper.Tally` (x/gov/keeper/tally.go) as a small straight-line program
//     (bindings, conditional returns, final return) over the tally quantities, the divisor of every `.Quo(` in `Tally`, and
//     the inventory of error-return / panic sites of `EndBlocker` + `Tally`  → Gen/C07.lean.

const c07GovKeeper = "x/gov/keeper"
const c07GovMod = "x/gov"

// ---------------------------------------------------------------------------------------------------------------
// refresh decision

func isErrNotNil(e ast.Expr) bool {
	be, ok := e.(*ast.BinaryExpr)
	if !ok || be.Op != token.NEQ {
		return false
	}
	x, ok1 := be.X.(*ast.Ident)
	y, ok2 := be.Y.(*ast.Ident)
	return ok1 && ok2 && x.Name == "err" && y.Name == "nil"
}

func blockPanics(b *ast.BlockStmt) bool {
	found := false
	ast.Inspect(b, func(n ast.Node) bool {
		if ce, ok := n.(*ast.CallExpr); ok {
			if id, ok := ce.Fun.(*ast.Ident); ok && id.Name == "panic" {
				found = true
			}
		}
		return !found
	})
	return found
}

// returnsBool: the block's last statement is `return <x>, true|false`
func c07LastReturnBool(b *ast.BlockStmt) (bool, bool) {
	if b == nil || len(b.List) == 0 {
		return false, false
	}
	r, ok := b.List[len(b.List)-1].(*ast.ReturnStmt)
	if !ok || len(r.Results) == 0 {
		return false, false
	}
	id, ok := r.Results[len(r.Results)-1].(*ast.Ident)
	if !ok {
		return false, false
	}
	return id.Name == "true", id.Name == "true" || id.Name == "false"
}

// floatFmtOf: how a float64 expression is rendered as text.
//
//	fmt.Sprintf("%.Nf", x)                 → .fixed N
//	strconv.FormatFloat(x, 'f', N, 64)     → .fixed N (N ≥ 0), .shortest (N = -1)
//	anything else                          → .other
func (c *ctxT) floatFmtOf(e ast.Expr) (string, string) {
	ce, ok := e.(*ast.CallExpr)
	if !ok {
		return ".other", squash(c.src(e))
	}
	fn := squash(c.src(ce.Fun))
	switch fn {
	case "fmt.Sprintf":
		if len(ce.Args) == 2 {
			if bl, ok := ce.Args[0].(*ast.BasicLit); ok && bl.Kind == token.STRING {
				verb, _ := strconv.Unquote(bl.Value)
				var n int
				if k, err := fmt.Sscanf(verb, "%%.%df", &n); err == nil && k == 1 && verb == fmt.Sprintf("%%.%df", n) {
					return fmt.Sprintf("(.fixed %d)", n), verb
				}
				if verb == "%f" {
					return "(.fixed 6)", verb
				}
				return ".other", verb
			}
		}
	case "strconv.FormatFloat":
		if len(ce.Args) == 4 {
			f, p, bits := squash(c.src(ce.Args[1])), squash(c.src(ce.Args[2])), squash(c.src(ce.Args[3]))
			if f == "'f'" && bits == "64" {
				if n, err := strconv.Atoi(p); err == nil {
					if n >= 0 {
						return fmt.Sprintf("(.fixed %d)", n), fn + "(…, 'f', " + p + ", 64)"
					}
					return ".shortest", fn + "(…, 'f', " + p + ", 64)"
				}
			}
			return ".other", fn + "(…, " + f + ", " + p + ", " + bits + ")"
		}
	}
	return ".other", fn
}

func c13RefreshFacts(c *ctxT, sb *strings.Builder) {
	sb.WriteString("/-- how the float64 power difference is rendered before it is parsed back as a decimal -/\ninductive FloatFmt where\n  | fixed (decimals : Nat)   -- `%.Nf` / FormatFloat(x, 'f', N, 64)\n  | shortest                 -- FormatFloat(x, 'f', -1, 64): as many digits as the float needs\n  | other\n  deriving DecidableEq, Repr\n\n")
	sb.WriteString("/-- the checks of `isNeedOracleSetRequest`, in source order -/\ninductive NeedCheck where\n  | latestNil        -- `if latestOracleSet == nil { return cur, true }`\n  | slashThisBlock   -- `if GetLastOracleSlashBlockHeight == height { return cur, true }`\n  | powerDiff        -- format + parse + cap + compare with the change percent\n  | other\n  deriving DecidableEq, Repr\n\n")
	fd := c.findFunc(c13Keeper, "Keeper", "isNeedOracleSetRequest")
	var checks []string
	format, formatSrc := ".other", ""
	parser, parsePanics, capAtOne, geReturnsTrue, fallsFalse := "", false, false, false, false
	diffVar, decVar := "", ""
	if fd != nil && fd.Body != nil {
		for _, st := range fd.Body.List {
			switch s := st.(type) {
			case *ast.IfStmt:
				cond := squash(c.src(s.Cond))
				val, isBool := c07LastReturnBool(s.Body)
				switch {
				case cond == "latestOracleSet == nil" && isBool && val:
					checks = append(checks, ".latestNil")
				case strings.Contains(cond, "GetLastOracleSlashBlockHeight(ctx)") && strings.Contains(cond, "==") && strings.Contains(cond, "ctx.BlockHeight()") && isBool && val:
					checks = append(checks, ".slashThisBlock")
				case isErrNotNil(s.Cond) && decVar != "":
					parsePanics = blockPanics(s.Body)
				case strings.Contains(cond, ".GT(sdkmath.LegacyOneDec())") && len(s.Body.List) == 1 && strings.Contains(squash(c.src(s.Body.List[0])), "= sdkmath.LegacyOneDec()"):
					capAtOne = true
				case decVar != "" && strings.HasPrefix(cond, decVar+".GTE(") && isBool && val:
					geReturnsTrue = true
				case isBool:
					checks = append(checks, ".other")
				}
			case *ast.AssignStmt:
				if len(s.Rhs) != 1 {
					continue
				}
				rhs := squash(c.src(s.Rhs[0]))
				lhs0 := squash(c.src(s.Lhs[0]))
				switch {
				case strings.Contains(rhs, ".PowerDiff("):
					diffVar = lhs0
					format, formatSrc = c.floatFmtOf(s.Rhs[0])
					checks = append(checks, ".powerDiff")
				case diffVar != "" && strings.HasSuffix(rhs, "("+diffVar+")"):
					decVar = lhs0
					parser = strings.TrimSuffix(rhs, "("+diffVar+")")
				}
			case *ast.ReturnStmt:
				if len(s.Results) == 2 {
					if id, ok := s.Results[1].(*ast.Ident); ok && id.Name == "false" {
						fallsFalse = true
					}
				}
			}
		}
	}
	fmt.Fprintf(sb, "/-- `isNeedOracleSetRequest`: order of the checks as written -/\ndef needChecks : List NeedCheck := %s\n", leanList(checks))
	fmt.Fprintf(sb, "/-- power difference rendered with %s -/\ndef powerDiffFormat : FloatFmt := %s\n", leanStr(formatSrc), format)
	fmt.Fprintf(sb, "/-- the text is read back with this parser (`LegacyNewDecFromStr` accepts at most 18 decimals) -/\ndef powerDiffParser : String := %s\n", leanStr(parser))
	fmt.Fprintf(sb, "/-- `if err != nil { panic(…) }` after the parse -/\ndef powerDiffParseErrPanics : Bool := %s\n", lb(parsePanics))
	fmt.Fprintf(sb, "/-- the change percent is capped at 1 before the comparison -/\ndef powerDiffCapAtOne : Bool := %s\n", lb(capAtOne))
	fmt.Fprintf(sb, "/-- `if powerDiffDec.GTE(percent) { return cur, true }` and the function ends with `return cur, false` -/\ndef powerDiffGeRefreshes : Bool := %s\n\n", lb(geReturnsTrue && fallsFalse))
	c.facts["C13.powerDiffFormat"] = format
	c.facts["C13.needChecks"] = checks
}

// ---------------------------------------------------------------------------------------------------------------
// GetCurrentOracleSet skip condition and pruneOracleSet comparisons

func c13SetFacts(c *ctxT, sb *strings.Builder) {
	sb.WriteString("/-- which oracles `GetCurrentOracleSet` leaves out before it sums and normalises the powers -/\ninductive PowerSkip where\n  | nonPositive   -- `if power.LTE(0) { continue }`\n  | negative      -- only negative powers are skipped: zero-power members stay in\n  | none\n  | other\n  deriving DecidableEq, Repr\n\n")
	skip := ".none"
	if fd := c.findFunc(c13Keeper, "Keeper", "GetCurrentOracleSet"); fd != nil && fd.Body != nil {
		ast.Inspect(fd.Body, func(n ast.Node) bool {
			ifs, ok := n.(*ast.IfStmt)
			if !ok || len(ifs.Body.List) != 1 {
				return true
			}
			br, ok := ifs.Body.List[0].(*ast.BranchStmt)
			if !ok || br.Tok != token.CONTINUE {
				return true
			}
			switch squash(c.src(ifs.Cond)) {
			case "power.LTE(sdkmath.ZeroInt())", "!power.IsPositive()", "power.LTE(sdkmath.NewInt(0))":
				skip = ".nonPositive"
			case "power.IsNegative()", "power.LT(sdkmath.ZeroInt())":
				skip = ".negative"
			default:
				skip = ".other"
			}
			return true
		})
	}
	fmt.Fprintf(sb, "def currentSetSkip : PowerSkip := %s\n\n", skip)
	// pruneOracleSet: tooEarly := currentBlock <cmp> window ; if earliestToPrune <cmp> set.Height && lastObserved.Nonce <cmp> set.Nonce
	early, hcmp, ncmp := ".other", ".other", ".other"
	guarded := false
	if fd := c.findFunc(c13Keeper, "Keeper", "pruneOracleSet"); fd != nil && fd.Body != nil {
		ast.Inspect(fd.Body, func(n ast.Node) bool {
			switch x := n.(type) {
			case *ast.AssignStmt:
				if len(x.Lhs) == 1 && len(x.Rhs) == 1 && squash(c.src(x.Lhs[0])) == "tooEarly" {
					if be, ok := x.Rhs[0].(*ast.BinaryExpr); ok && squash(c.src(be.X)) == "currentBlock" {
						early = cmpOf(be.Op)
					}
				}
			case *ast.IfStmt:
				cond := squash(c.src(x.Cond))
				if cond == "lastObserved != nil && !tooEarly" {
					guarded = true
				}
				if be, ok := x.Cond.(*ast.BinaryExpr); ok && be.Op == token.LAND {
					if l, ok := be.X.(*ast.BinaryExpr); ok && squash(c.src(l.X)) == "earliestToPrune" && squash(c.src(l.Y)) == "set.Height" {
						hcmp = cmpOf(l.Op)
					}
					if r, ok := be.Y.(*ast.BinaryExpr); ok && squash(c.src(r.X)) == "lastObserved.Nonce" && squash(c.src(r.Y)) == "set.Nonce" {
						ncmp = cmpOf(r.Op)
					}
				}
			}
			return true
		})
	}
	fmt.Fprintf(sb, "/-- `pruneOracleSet`: `tooEarly := currentBlock <cmp> window` -/\ndef pruneTooEarlyCmp : Cmp := %s\n/-- pruning runs only under `lastObserved != nil && !tooEarly` -/\ndef pruneGuarded : Bool := %s\n/-- `earliestToPrune <cmp> set.Height` -/\ndef pruneHeightCmp : Cmp := %s\n/-- `lastObserved.Nonce <cmp> set.Nonce` -/\ndef pruneNonceCmp : Cmp := %s\n\n", early, lb(guarded), hcmp, ncmp)
	c.facts["C13.currentSetSkip"] = skip
}

// ---------------------------------------------------------------------------------------------------------------
// AddDelegate guards (C13)

func c13AddFacts(c *ctxT, sb *strings.Builder) {
	fd := c.findFunc(c13Keeper, "MsgServer", "AddDelegate")
	writes := []string{"s.SetOracle(", "SendCoins(", "stakingMsgServer.Delegate(", "BurnCoins(", "s.SetLastTotalPower("}
	g := map[string]bool{
		"addChecksProposal":  c.guardBefore(fd, "!s.IsProposalOracle(ctx, msg.OracleAddress)", writes),
		"addChecksRecord":    c.guardBefore(fd, "!found", writes),
		"addChecksBelow":     c.guardBefore(fd, "oracle.DelegateAmount.Sub(threshold.Amount).IsNegative()", writes),
		"addChecksAbove":     c.guardBefore(fd, "oracle.DelegateAmount.GT(threshold.Amount.Mul(sdkmath.NewInt(s.GetOracleDelegateMultiple(ctx))))", writes),
		"addChecksSlashPaid": c.guardBefore(fd, "slashAmount.IsPositive() && msg.Amount.Amount.LT(slashAmount.Amount)", writes),
	}
	sb.WriteString("/-- `AddDelegate`: guards before the first write -/\n")
	for _, k := range sortedKeys(g) {
		fmt.Fprintf(sb, "def %s : Bool := %s\n", k, lb(g[k]))
	}
	sb.WriteString("\n")
	c.facts["C13.addGuards"] = g

	// --- re-activation path: which fields of the record AddDelegate (and the keeper helpers it hands the record to) sets.
	// `oracle.<F> = <rhs>` statements in AddDelegate after the amount update, and in every keeper method called as
	// `s.<M>(ctx, oracle)` whose parameter is the record; `guarded` = the statement sits inside `if !oracle.Online { … }`.
	type asg struct {
		rhs     string
		guarded bool
	}
	sets := map[string]asg{}
	var scan func(body *ast.BlockStmt, depth int)
	scan = func(body *ast.BlockStmt, depth int) {
		if body == nil {
			return
		}
		var walk func(list []ast.Stmt, guarded bool)
		walk = func(list []ast.Stmt, guarded bool) {
			for _, st := range list {
				switch x := st.(type) {
				case *ast.AssignStmt:
					if len(x.Lhs) == 1 && len(x.Rhs) == 1 {
						if se, ok := x.Lhs[0].(*ast.SelectorExpr); ok && squash(c.src(se.X)) == "oracle" {
							sets[se.Sel.Name] = asg{squash(c.src(x.Rhs[0])), guarded}
						}
					}
				case *ast.IfStmt:
					cond := squash(c.src(x.Cond))
					walk(x.Body.List, guarded || cond == "!oracle.Online" || strings.HasPrefix(cond, "!oracle.Online &&"))
				case *ast.ExprStmt:
					if ce, ok := x.X.(*ast.CallExpr); ok && depth < 2 && len(ce.Args) == 2 && squash(c.src(ce.Args[1])) == "oracle" {
						if se, ok := ce.Fun.(*ast.SelectorExpr); ok && se.Sel.Name != "SetOracle" {
							if callee := c.findFunc(c13Keeper, "Keeper", se.Sel.Name); callee != nil {
								scan(callee.Body, depth+1)
							}
						}
					}
				}
			}
		}
		walk(body.List, false)
	}
	if fd != nil {
		scan(fd.Body, 0)
	}
	on := sets["Online"]
	sh := sets["StartHeight"]
	st := sets["SlashTimes"]
	sb.WriteString("/-- re-activation through `AddDelegate` (incl. keeper helpers the record is handed to): fields it sets -/\n")
	fmt.Fprintf(sb, "def addSetsOnline : Bool := %s\n", lb(on.rhs == "true"))
	fmt.Fprintf(sb, "/-- `oracle.StartHeight = ctx.BlockHeight()` … -/\ndef addSetsStartHeight : Bool := %s\n/-- … only inside `if !oracle.Online { … }` (an online oracle keeps its start height) -/\ndef addStartHeightOnlyWhenOffline : Bool := %s\n", lb(sh.rhs == "ctx.BlockHeight()"), lb(sh.guarded))
	fmt.Fprintf(sb, "def addResetsSlashTimes : Bool := %s\n\n", lb(st.rhs == "0"))
	c.facts["C13.reactivation"] = map[string]string{"Online": on.rhs, "StartHeight": sh.rhs, "SlashTimes": st.rhs}
}

// ---------------------------------------------------------------------------------------------------------------
// gov: Tally tail + sites

type tallyTr struct {
	c     *ctxT
	binds map[string]bool
	param map[string]string
}

func (t *tallyTr) tv(e ast.Expr) string {
	switch x := e.(type) {
	case *ast.ParenExpr:
		return t.tv(x.X)
	case *ast.Ident:
		switch {
		case x.Name == "totalVotingPower":
			return ".total"
		case x.Name == "totalBonded":
			return ".bonded"
		case t.binds[x.Name]:
			return "(.var " + leanStr(x.Name) + ")"
		case t.param[x.Name] != "":
			return t.param[x.Name]
		}
	case *ast.IndexExpr:
		if squash(t.c.src(x.X)) == "results" {
			switch squash(t.c.src(x.Index)) {
			case "v1.OptionYes":
				return ".yes"
			case "v1.OptionAbstain":
				return ".abstain"
			case "v1.OptionNo":
				return ".no"
			case "v1.OptionNoWithVeto":
				return ".veto"
			}
		}
	case *ast.CallExpr:
		fn := squash(t.c.src(x.Fun))
		switch fn {
		case "math.LegacyZeroDec", "sdkmath.LegacyZeroDec":
			return ".zero"
		case "math.LegacyNewDecFromInt", "sdkmath.LegacyNewDecFromInt":
			if len(x.Args) == 1 {
				return t.tv(x.Args[0])
			}
		}
		if se, ok := x.Fun.(*ast.SelectorExpr); ok && len(x.Args) == 1 {
			switch se.Sel.Name {
			case "Quo":
				return "(.quo " + t.tv(se.X) + " " + t.tv(x.Args[0]) + ")"
			case "Sub":
				return "(.sub " + t.tv(se.X) + " " + t.tv(x.Args[0]) + ")"
			}
		}
	}
	return ".other"
}

func (t *tallyTr) cond(e ast.Expr) string {
	if ce, ok := e.(*ast.CallExpr); ok {
		if se, ok := ce.Fun.(*ast.SelectorExpr); ok {
			switch {
			case se.Sel.Name == "IsZero" && len(ce.Args) == 0:
				return "(.isZero " + t.tv(se.X) + ")"
			case len(ce.Args) == 1:
				op := map[string]string{"Equal": "eq", "LT": "lt", "LTE": "le", "GT": "gt", "GTE": "ge"}[se.Sel.Name]
				if op != "" {
					return "(." + op + " " + t.tv(se.X) + " " + t.tv(ce.Args[0]) + ")"
				}
			}
		}
	}
	return ".other"
}

func (t *tallyTr) ret(r *ast.ReturnStmt) (string, string, bool) {
	if len(r.Results) != 4 {
		return "false", ".other", false
	}
	if id, ok := r.Results[3].(*ast.Ident); !ok || id.Name != "nil" {
		return "false", ".other", false // error return
	}
	p := squash(t.c.src(r.Results[0]))
	if p != "true" && p != "false" {
		return "false", ".other", false
	}
	b := ".other"
	switch squash(t.c.src(r.Results[1])) {
	case "false":
		b = ".never"
	case "true":
		b = ".always"
	case "params.BurnVoteQuorum":
		b = ".quorumFlag"
	case "params.BurnVoteVeto":
		b = ".vetoFlag"
	}
	return p, b, true
}

func c07GovFacts(c *ctxT, sb *strings.Builder) {
	sb.WriteString("/-! ## x/gov: the decision tail of `Keeper.Tally` as a straight-line program -/\n\n")
	sb.WriteString("/-- tally quantities (18-decimal fixed point, as `LegacyDec`) -/\ninductive TV where\n  | total | bonded | yes | abstain | no | veto   -- totalVotingPower, TotalBondedTokens, results[…]\n  | quorum | vetoThr | thr | zero                -- parameters (quorum after GetCustomMsgQuorum, threshold by `Expedited`)\n  | var (n : String)                             -- a local bound by an earlier `.bind`\n  | sub (a b : TV) | quo (a b : TV)              -- `a.Sub(b)`, `a.Quo(b)` (panics when b = 0)\n  | other\n  deriving DecidableEq, Repr\n\n")
	sb.WriteString("inductive TCond where\n  | isZero (a : TV) | eq (a b : TV) | lt (a b : TV) | le (a b : TV) | gt (a b : TV) | ge (a b : TV) | other\n  deriving DecidableEq, Repr\n\n")
	sb.WriteString("inductive TBurn where | never | always | quorumFlag | vetoFlag | other\n  deriving DecidableEq, Repr\n\n")
	sb.WriteString("inductive TStep where\n  | bind (n : String) (v : TV)                       -- `n := v` (evaluated here)\n  | retIf (c : TCond) (passes : Bool) (burn : TBurn) -- `if c { return passes, burn, …, nil }`\n  | ret (passes : Bool) (burn : TBurn)               -- final `return`\n  | other (src : String)\n  deriving DecidableEq, Repr\n\n")
	fd := c.findFunc(c07GovKeeper, "Keeper", "Tally")
	var steps []string
	var divisors []string
	skipsNonVoters := false
	if fd != nil && fd.Body != nil {
		// every `.Quo(` in Tally, in source order
		ast.Inspect(fd.Body, func(n ast.Node) bool {
			if ce, ok := n.(*ast.CallExpr); ok {
				if se, ok := ce.Fun.(*ast.SelectorExpr); ok && strings.HasPrefix(se.Sel.Name, "Quo") && len(ce.Args) == 1 {
					divisors = append(divisors, leanStr(se.Sel.Name+" "+squash(c.src(ce.Args[0]))))
				}
			}
			return true
		})
		// post-order of ast.Inspect is pre-order of calls: a.Quo(b.Quo(c)) lists outer first; source order is good enough for an inventory
		ast.Inspect(fd.Body, func(n ast.Node) bool {
			if r, ok := n.(*ast.RangeStmt); ok && squash(c.src(r.X)) == "currValidators" && len(r.Body.List) > 0 {
				if ifs, ok := r.Body.List[0].(*ast.IfStmt); ok && squash(c.src(ifs.Cond)) == "len(val.Vote) == 0" && len(ifs.Body.List) == 1 {
					if br, ok := ifs.Body.List[0].(*ast.BranchStmt); ok && br.Tok == token.CONTINUE {
						skipsNonVoters = true
					}
				}
			}
			return true
		})
		tr := &tallyTr{c: c, binds: map[string]bool{}, param: map[string]string{}}
		start := -1
		for i, st := range fd.Body.List {
			if as, ok := st.(*ast.AssignStmt); ok && len(as.Lhs) == 1 && squash(c.src(as.Lhs[0])) == "tallyResults" {
				start = i
			}
		}
		if start >= 0 {
			for _, st := range fd.Body.List[start+1:] {
				switch s := st.(type) {
				case *ast.DeclStmt:
					// `var thresholdStr string`
				case *ast.AssignStmt:
					if len(s.Rhs) != 1 {
						steps = append(steps, "(.other "+leanStr(squash(c.src(s)))+")")
						continue
					}
					lhs0 := squash(c.src(s.Lhs[0]))
					rhs := squash(c.src(s.Rhs[0]))
					switch {
					case strings.HasSuffix(rhs, ".TotalBondedTokens(ctx)"):
						// totalBonded, err := …  (error site, listed in govSites)
					case strings.Contains(rhs, "GetCustomMsgQuorum("):
						tr.param[lhs0] = ".quorum" // the text of the quorum
					case strings.HasSuffix(strings.SplitN(rhs, "(", 2)[0], "LegacyNewDecFromStr"):
						arg := squash(c.src(s.Rhs[0].(*ast.CallExpr).Args[0]))
						switch {
						case tr.param[arg] == ".quorum":
							tr.param[lhs0] = ".quorum"
						case arg == "params.VetoThreshold":
							tr.param[lhs0] = ".vetoThr"
						case arg == "thresholdStr":
							tr.param[lhs0] = ".thr"
						case arg == "params.Quorum":
							tr.param[lhs0] = ".quorum"
						default:
							tr.param[lhs0] = ".other"
						}
					default:
						v := tr.tv(s.Rhs[0])
						steps = append(steps, "(.bind "+leanStr(lhs0)+" "+v+")")
						tr.binds[lhs0] = true
					}
				case *ast.IfStmt:
					if isErrNotNil(s.Cond) {
						continue // error site
					}
					cond := squash(c.src(s.Cond))
					if cond == "proposal.Expedited" {
						continue // selects the threshold text
					}
					if len(s.Body.List) == 1 {
						if r, ok := s.Body.List[0].(*ast.ReturnStmt); ok && s.Else == nil && s.Init == nil {
							if p, b, ok := tr.ret(r); ok {
								steps = append(steps, "(.retIf "+tr.cond(s.Cond)+" "+p+" "+b+")")
								continue
							}
						}
					}
					steps = append(steps, "(.other "+leanStr(cond)+")")
				case *ast.ReturnStmt:
					if p, b, ok := tr.ret(s); ok {
						steps = append(steps, "(.ret "+p+" "+b+")")
					} else {
						steps = append(steps, "(.other "+leanStr(squash(c.src(s)))+")")
					}
				default:
					steps = append(steps, "(.other "+leanStr(squash(c.src(st))[:min(40, len(squash(c.src(st))))])+")")
				}
			}
		}
	}
	fmt.Fprintf(sb, "/-- statements of `Tally` after `tallyResults = …`, in source order (error returns are listed in `govSites`) -/\ndef tallyTail : List TStep := [\n  %s\n]\n\n", strings.Join(steps, ",\n  "))
	fmt.Fprintf(sb, "/-- every `.Quo…(` call of `Tally` with its divisor, in source order -/\ndef tallyQuoDivisors : List String := [\n  %s\n]\n\n", strings.Join(divisors, ",\n  "))
	fmt.Fprintf(sb, "/-- the validator loop starts with `if len(val.Vote) == 0 { continue }` -/\ndef tallySkipsNonVotingValidators : Bool := %s\n\n", lb(skipsNonVoters))

	// --- sites of gov.EndBlocker + Tally: error returns (callee that produced err), panics, Must*
	var sites []c07Site
	scan := func(qual string, fd *ast.FuncDecl) {
		if fd == nil || fd.Body == nil {
			return
		}
		var walkBlock func(list []ast.Stmt)
		lastErrCall := func(list []ast.Stmt, i int) string {
			ifs := list[i].(*ast.IfStmt)
			find := func(st ast.Stmt) string {
				as, ok := st.(*ast.AssignStmt)
				if !ok || len(as.Rhs) != 1 {
					return ""
				}
				hasErr := false
				for _, l := range as.Lhs {
					if squash(c.src(l)) == "err" {
						hasErr = true
					}
				}
				if !hasErr {
					return ""
				}
				if ce, ok := as.Rhs[0].(*ast.CallExpr); ok {
					return squash(c.src(ce.Fun))
				}
				return squash(c.src(as.Rhs[0]))
			}
			if ifs.Init != nil {
				if s := find(ifs.Init); s != "" {
					return s
				}
			}
			for j := i - 1; j >= 0; j-- {
				if s := find(list[j]); s != "" {
					return s
				}
				if _, ok := list[j].(*ast.IfStmt); ok {
					// `if cond { err = A } else { err = B }` immediately before
					var names []string
					ast.Inspect(list[j], func(n ast.Node) bool {
						if st, ok := n.(ast.Stmt); ok {
							if s := find(st); s != "" {
								names = append(names, s)
							}
						}
						return true
					})
					if len(names) > 0 {
						return strings.Join(names, "|")
					}
				}
			}
			return "?"
		}
		walkBlock = func(list []ast.Stmt) {
			for i, st := range list {
				if ifs, ok := st.(*ast.IfStmt); ok && isErrNotNil(ifs.Cond) && blockReturnsErr(ifs.Body) {
					sites = append(sites, c07Site{qual, "err", lastErrCall(list, i), c.pos(ifs)})
				}
			}
		}
		ast.Inspect(fd.Body, func(n ast.Node) bool {
			switch x := n.(type) {
			case *ast.BlockStmt:
				walkBlock(x.List)
			case *ast.CaseClause:
				walkBlock(x.Body)
			case *ast.ReturnStmt:
				// `return false, keeper.Votes.Remove(…)`: an error produced directly in a return
				if len(x.Results) > 0 {
					if ce, ok := x.Results[len(x.Results)-1].(*ast.CallExpr); ok {
						sites = append(sites, c07Site{qual, "err", squash(c.src(ce.Fun)), c.pos(x)})
					}
				}
			case *ast.CallExpr:
				name := ""
				switch fn := x.Fun.(type) {
				case *ast.Ident:
					name = fn.Name
				case *ast.SelectorExpr:
					name = fn.Sel.Name
				}
				if name == "panic" {
					sites = append(sites, c07Site{qual, "panic", "panic", c.pos(x)})
				} else if strings.HasPrefix(name, "Must") {
					sites = append(sites, c07Site{qual, "must", squash(c.src(x.Fun)), c.pos(x)})
				}
			}
			return true
		})
	}
	scan("gov.EndBlocker", c.findFunc(c07GovMod, "", "EndBlocker"))
	scan("gov.failUnsupportedProposal", c.findFunc(c07GovMod, "", "failUnsupportedProposal"))
	scan("keeper.Keeper.Tally", fd)
	type key struct{ a, b, c string }
	seen := map[key]bool{}
	var rows []string
	var fs []map[string]string
	for _, s := range sites {
		k := key{s.Fn, s.Kind, s.What}
		if seen[k] {
			continue
		}
		seen[k] = true
		rows = append(rows, fmt.Sprintf("⟨%s, %s, %s⟩", leanStr(s.Fn), leanStr(s.Kind), leanStr(s.What)))
		fs = append(fs, map[string]string{"fn": s.Fn, "kind": s.Kind, "what": s.What, "where": s.Where})
	}
	fmt.Fprintf(sb, "/-- places where the gov end-blocker returns an error (which halts the chain) or panics: function, kind, callee -/\ndef govSites : List Site := [\n  %s\n]\n\n", strings.Join(rows, ",\n  "))
	c.facts["C07.govSites"] = fs
	c.facts["C07.tallyTail"] = steps
}
