package main

import (
	"fmt"
	"go/ast"
	"go/parser"
	"go/token"
	"os"
	"path/filepath"
	"strings"
)

// C18, second translator: every tolerated-failure boundary as ONE structured program (`Stmt`) regenerated from the Go
// AST, with the helper functions on its spine inlined:
//   - where each CacheContext() is opened (a fresh cache id per CacheContext() assignment),
//   - on which context every call runs (outer / cache k / none = pure),
//   - which VARIABLE OBJECT receives the error of each call (go/parser object resolution: a shadowing `err :=` is a
//     different variable, numbered apart), which variable every condition tests and every `return` hands back,
//   - the condition that decides after an EVM call whether it counts as failed (`r.Failed()` = any VM error vs
//     `r.VmError == vm.ErrExecutionReverted.Error()` = revert only),
//   - loops (a cache opened inside vs outside the loop over messages / tokens), break / continue / return,
//   - deferred recover() and the variable it assigns.
// The Lean semantics (`Model/C18P.lean`) executes these programs; the `*_failure_outcome_prog` theorems are stated over
// the generated terms.

type irVar struct {
	Name string `json:"name"`
	ID   int    `json:"id"`
}

type irCond struct {
	K    string  `json:"k"` // ok evmFailed evmReverted other not and or
	V    *irVar  `json:"v,omitempty"`
	Text string  `json:"text,omitempty"`
	A, B *irCond `json:"a,omitempty"`
}

type irStmt struct {
	K     string    `json:"k"` // skip seq open commit call setErr ite loop brk cont ret inl block
	Name  string    `json:"name,omitempty"`
	Ctx   string    `json:"ctx,omitempty"` // outer | cache:<k> | none
	Err   *irVar    `json:"err,omitempty"`
	Resp  *irVar    `json:"resp,omitempty"`
	Args  []*irVar  `json:"args,omitempty"` // tracked (error / acknowledgement) variables passed as arguments
	Named *irVar    `json:"named,omitempty"`
	Recov *irVar    `json:"recov,omitempty"`
	Cond  *irCond   `json:"cond,omitempty"`
	ID    int       `json:"id,omitempty"`
	Ok    bool      `json:"ok,omitempty"`
	Ret   string    `json:"ret,omitempty"` // nil | var | fail | opaque
	List  []*irStmt `json:"list,omitempty"`
	A, B  *irStmt   `json:"a,omitempty"`
}

// callee bindings across packages / interfaces (the app wiring is trusted: app/keepers wires the transfer stack as
// IBCMiddleware(transfer module), see fact C18.wiring)
type c18Bind struct{ rel, recv, name string }

var c18Bindings = map[string]c18Bind{
	"cbs.OnRecvPacket":       {"x/ibc/middleware", "IBCMiddleware", "OnRecvPacket"},
	"im.Keeper.OnRecvPacket": {"x/ibc/middleware/keeper", "Keeper", "OnRecvPacket"},
}

// functions on the spine of a boundary that are inlined even though they do not open a cache themselves
var c18Spine = map[string]bool{
	"processAttestation": true, "BridgeCallHandler": true, "BridgeCallEvm": true, "BridgeCallFailedRefund": true,
	"safeExecuteHandler": true, "HandlerIbcCall": true, "HandlerIbcCallEvm": true,
}

type c18prog struct {
	c      *ctxT
	occ    map[string][]token.Pos // qualified condition text -> source positions (in order of first translation)
	sites  map[string][]token.Pos // leaf call name -> source positions
	vars   map[*ast.Object]*irVar
	nvars  int
	caches int
	loops  int
	stack  []string
	extra  map[string]c18Bind // additional callee bindings of ONE program (composed programs: a leaf of one program inlined with another)
}

type c18fn struct {
	p            *c18prog
	rel          string
	qual         string // "Recv.Func" of the function being translated: qualifies uninterpreted conditions
	ctxKind      map[*ast.Object]string
	ctxNames     map[string]string // fallback by name (identifiers the parser could not resolve)
	commitOf     map[*ast.Object]int
	cacheVarObjs map[*ast.Object]bool
	commitObjs   map[*ast.Object]bool
	nilTested    map[*ast.Object]bool
	ackVars      map[*ast.Object]bool
	respVars     map[*ast.Object]bool
	named        *irVar
	recov        *irVar
	siteID       map[*ast.AssignStmt]int // CacheContext() assignment -> cache id (allocated in source order at prescan)
	firstSite    map[*ast.Object]int     // cache / commit variable -> id of its first CacheContext() site
	assigns      map[*ast.Object]int     // number of assignment statements that (re)define the variable
}

func (p *c18prog) varOf(id *ast.Ident) *irVar {
	if id == nil || id.Name == "_" {
		return nil
	}
	if id.Obj == nil {
		return &irVar{Name: id.Name, ID: 0}
	}
	if v, ok := p.vars[id.Obj]; ok {
		return v
	}
	p.nvars++
	v := &irVar{Name: id.Name, ID: p.nvars}
	p.vars[id.Obj] = v
	return v
}

func (p *c18prog) fresh(name string) *irVar {
	p.nvars++
	return &irVar{Name: name, ID: p.nvars}
}

func seqOf(list ...*irStmt) *irStmt {
	var out []*irStmt
	for _, s := range list {
		if s == nil || s.K == "skip" {
			continue
		}
		if s.K == "seq" {
			out = append(out, s.List...)
			continue
		}
		out = append(out, s)
	}
	if len(out) == 0 {
		return &irStmt{K: "skip"}
	}
	if len(out) == 1 {
		return out[0]
	}
	return &irStmt{K: "seq", List: out}
}

// prescan collects, for one function body, the variable objects that are compared with nil, asked .Success(), used as an
// EVM response, or assigned from CacheContext().
func (f *c18fn) prescan(n ast.Node) {
	ast.Inspect(n, func(m ast.Node) bool {
		switch x := m.(type) {
		case *ast.BinaryExpr:
			if x.Op == token.EQL || x.Op == token.NEQ {
				for _, pr := range [][2]ast.Expr{{x.X, x.Y}, {x.Y, x.X}} {
					if id, ok := pr[0].(*ast.Ident); ok && id.Obj != nil {
						if nl, ok := pr[1].(*ast.Ident); ok && nl.Name == "nil" {
							f.nilTested[id.Obj] = true
						}
					}
				}
			}
		case *ast.SwitchStmt:
			if id, ok := x.Tag.(*ast.Ident); ok && id.Obj != nil {
				for _, cc := range x.Body.List {
					for _, e := range cc.(*ast.CaseClause).List {
						if nl, ok := e.(*ast.Ident); ok && nl.Name == "nil" {
							f.nilTested[id.Obj] = true
						}
					}
				}
			}
		case *ast.SelectorExpr:
			if id, ok := x.X.(*ast.Ident); ok && id.Obj != nil {
				switch x.Sel.Name {
				case "Success":
					f.ackVars[id.Obj] = true
				case "Failed", "VmError":
					f.respVars[id.Obj] = true
				}
			}
		case *ast.AssignStmt:
			for _, l := range x.Lhs {
				if id, ok := l.(*ast.Ident); ok && id.Obj != nil {
					f.assigns[id.Obj]++
				}
			}
			if len(x.Rhs) == 1 && len(x.Lhs) == 2 {
				if ce, ok := x.Rhs[0].(*ast.CallExpr); ok {
					if sel, ok := ce.Fun.(*ast.SelectorExpr); ok && sel.Sel.Name == "CacheContext" {
						if _, seen := f.siteID[x]; !seen {
							f.p.caches++
							f.siteID[x] = f.p.caches
						}
						k := f.siteID[x]
						if id, ok := x.Lhs[0].(*ast.Ident); ok && id.Obj != nil {
							f.cacheVarObjs[id.Obj] = true
							if _, ok := f.firstSite[id.Obj]; !ok {
								f.firstSite[id.Obj] = k
							}
						}
						if id, ok := x.Lhs[1].(*ast.Ident); ok && id.Obj != nil {
							f.commitObjs[id.Obj] = true
							if _, ok := f.firstSite[id.Obj]; !ok {
								f.firstSite[id.Obj] = k
							}
						}
					}
				}
			}
		}
		return true
	})
}

// other builds an uninterpreted condition.  Its text is qualified by the function it occurs in, and numbered when the
// same text occurs at several places of that function, so that two different `ok` variables are two different
// environment inputs.
func (f *c18fn) other(text string, pos token.Pos) *irCond {
	key := f.qual + ": " + text
	ps := f.p.occ[key]
	idx := -1
	for i, q := range ps {
		if q == pos {
			idx = i
		}
	}
	if idx < 0 {
		f.p.occ[key] = append(ps, pos)
		idx = len(ps)
	}
	if idx > 0 {
		key = fmt.Sprintf("%s #%d", key, idx+1)
	}
	return &irCond{K: "other", Text: key}
}

// leafName numbers the second, third … call SITE of the same callee text inside one program ("k.X #2"): the
// behaviour of a leaf is a parameter per (name, iteration), and two sites must not be forced to behave alike.
func (p *c18prog) leafName(name string, pos token.Pos) string {
	ps := p.sites[name]
	idx := -1
	for i, q := range ps {
		if q == pos {
			idx = i
		}
	}
	if idx < 0 {
		p.sites[name] = append(ps, pos)
		idx = len(ps)
	}
	if idx > 0 {
		return fmt.Sprintf("%s #%d", name, idx+1)
	}
	return name
}

func (p *c18prog) newFn(rel string) *c18fn {
	return &c18fn{p: p, rel: rel, ctxKind: map[*ast.Object]string{}, ctxNames: map[string]string{}, commitOf: map[*ast.Object]int{},
		cacheVarObjs: map[*ast.Object]bool{}, commitObjs: map[*ast.Object]bool{}, nilTested: map[*ast.Object]bool{}, assigns: map[*ast.Object]int{},
		ackVars: map[*ast.Object]bool{}, respVars: map[*ast.Object]bool{}, siteID: map[*ast.AssignStmt]int{}, firstSite: map[*ast.Object]int{}}
}

func isCtxType(e ast.Expr, src string) bool {
	return src == "sdk.Context" || src == "context.Context" || src == "types.Context"
}

// ctxOf: which context does the expression denote ("" = not a context)
func (f *c18fn) ctxOf(e ast.Expr) string {
	switch x := e.(type) {
	case *ast.Ident:
		if x.Obj != nil {
			if k, ok := f.ctxKind[x.Obj]; ok {
				return k
			}
			return ""
		}
		return f.ctxNames[x.Name]
	case *ast.ParenExpr:
		return f.ctxOf(x.X)
	case *ast.CallExpr:
		// wrappers: zeroGasConfigCtx(ctx), sdk.UnwrapSDKContext(ctx), ctx.WithX(...), sdk.WrapSDKContext(ctx)
		if sel, ok := x.Fun.(*ast.SelectorExpr); ok {
			if k := f.ctxOf(sel.X); k != "" && (strings.HasPrefix(sel.Sel.Name, "With")) {
				return k
			}
		}
		if len(x.Args) == 1 {
			return f.ctxOf(x.Args[0])
		}
		// stateDB.Context(): the context of the EVM state database itself — writes on it are NOT journaled
		if sel, ok := x.Fun.(*ast.SelectorExpr); ok && sel.Sel.Name == "Context" && len(x.Args) == 0 {
			return "outer"
		}
	}
	return ""
}

func c18IsErrCtor(name string) bool {
	last := name
	if i := strings.LastIndex(name, "."); i >= 0 {
		last = name[i+1:]
	}
	switch last {
	case "Wrap", "Wrapf", "Errorf", "New", "NewErrorAcknowledgement", "Error":
		return true
	}
	return false
}

func c18Skipped(name string) bool {
	last := name
	if i := strings.LastIndex(name, "."); i >= 0 {
		last = name[i+1:]
	}
	for _, p := range c18SkipPrefixes {
		if strings.HasPrefix(last, p) {
			return true
		}
	}
	return false
}

// containsCache: does the function (transitively through same-package callees, depth 3) open a cache?
func (p *c18prog) containsCache(rel string, fd *ast.FuncDecl, depth int) bool {
	if fd == nil || fd.Body == nil {
		return false
	}
	found := false
	ast.Inspect(fd.Body, func(m ast.Node) bool {
		if sel, ok := m.(*ast.SelectorExpr); ok && sel.Sel.Name == "CacheContext" {
			found = true
		}
		return !found
	})
	if found || depth <= 0 {
		return found
	}
	ast.Inspect(fd.Body, func(m ast.Node) bool {
		ce, ok := m.(*ast.CallExpr)
		if !ok || found {
			return !found
		}
		if g := p.lookup(rel, ce); g != nil && g != fd {
			if p.containsCache(rel, g, depth-1) {
				found = true
			}
		}
		return !found
	})
	return found
}

// lookup resolves a call to a function declaration of the same package directory (by name; receiver ignored) or
// through the binding table.
func (p *c18prog) lookup(rel string, ce *ast.CallExpr) *ast.FuncDecl {
	name := ""
	switch fn := ce.Fun.(type) {
	case *ast.Ident:
		if fn.Obj != nil && fn.Obj.Kind != ast.Fun {
			return nil // a function VALUE (parameter / local): not resolvable
		}
		name = fn.Name
		return p.c.findFunc(rel, "", name)
	case *ast.SelectorExpr:
		name = fn.Sel.Name
		// only receivers that are plain identifiers / field chains of the receiver (k.X, im.Keeper.X): a call on another
		// keeper (k.evmKeeper.CallEVM, k.bankKeeper.SendCoins) is a different package
		if id, ok := fn.X.(*ast.Ident); ok && id.Obj != nil && id.Obj.Kind == ast.Var {
			if fd := p.c.findFunc(rel, "*", name); fd != nil && fd.Recv != nil {
				return fd
			}
		}
	}
	return nil
}

func (p *c18prog) resolve(rel string, ce *ast.CallExpr) (string, *ast.FuncDecl) {
	full := p.c.src(ce.Fun)
	if b, ok := p.extra[full]; ok {
		if fd := p.c.findFunc(b.rel, b.recv, b.name); fd != nil {
			return b.rel, fd
		}
		return "", nil
	}
	if b, ok := c18Bindings[full]; ok {
		if fd := p.c.findFunc(b.rel, b.recv, b.name); fd != nil {
			return b.rel, fd
		}
		return "", nil
	}
	fd := p.lookup(rel, ce)
	if fd == nil || fd.Body == nil {
		return "", nil
	}
	if c18Spine[fd.Name.Name] || p.containsCache(rel, fd, 3) {
		return rel, fd
	}
	return "", nil
}

func (f *c18fn) isTracked(id *ast.Ident) bool {
	if id == nil || id.Name == "_" || id.Name == "nil" {
		return false
	}
	if id.Obj == nil {
		return id.Name == "err"
	}
	if f.commitObjs[id.Obj] || f.cacheVarObjs[id.Obj] {
		return false
	}
	return id.Name == "err" || f.nilTested[id.Obj] || f.ackVars[id.Obj]
}

// inline translates the body of a callee with its context parameters bound to the caller's argument contexts.
func (f *c18fn) inline(rel string, fd *ast.FuncDecl, ce *ast.CallExpr, errV *irVar) *irStmt {
	p := f.p
	name := p.c.src(ce.Fun)
	key := rel + "." + recvName(fd) + "." + fd.Name.Name
	for _, s := range p.stack {
		if s == key {
			return &irStmt{K: "call", Name: name + " (recursive)", Ctx: "outer", Err: errV}
		}
	}
	if len(p.stack) > 8 {
		return &irStmt{K: "call", Name: name + " (too deep)", Ctx: "outer", Err: errV}
	}
	g := p.newFn(rel)
	g.qual = fd.Name.Name
	if r := recvName(fd); r != "" {
		g.qual = r + "." + fd.Name.Name
	}
	g.prescan(fd.Body)
	idx := 0
	for _, fl := range fd.Type.Params.List {
		tsrc := p.c.src(fl.Type)
		names := fl.Names
		if len(names) == 0 {
			idx++
			continue
		}
		for _, nm := range names {
			if isCtxType(fl.Type, tsrc) {
				k := "outer"
				if idx < len(ce.Args) {
					if kk := f.ctxOf(ce.Args[idx]); kk != "" {
						k = kk
					}
				}
				if nm.Obj != nil {
					g.ctxKind[nm.Obj] = k
				}
				g.ctxNames[nm.Name] = k
			}
			idx++
		}
	}
	if fd.Type.Results != nil && len(fd.Type.Results.List) > 0 {
		last := fd.Type.Results.List[len(fd.Type.Results.List)-1]
		if len(last.Names) > 0 {
			g.named = p.varOf(last.Names[len(last.Names)-1])
		}
	}
	p.stack = append(p.stack, key)
	body := g.stmts(fd.Body.List)
	p.stack = p.stack[:len(p.stack)-1]
	return &irStmt{K: "inl", Name: name, Named: g.named, Recov: g.recov, A: body, Err: errV}
}

// closure translates a function literal that the callee runs synchronously (Walk callback, native action): it shares
// the variables of the enclosing function; its context parameters denote ctxKind ("" = whatever the identifier
// already denotes); its last result goes to errV.
func (f *c18fn) closure(fl *ast.FuncLit, ctxKind, name string, errV *irVar) *irStmt {
	if ctxKind != "" {
		for _, fld := range fl.Type.Params.List {
			if isCtxType(fld.Type, f.p.c.src(fld.Type)) {
				for _, nm := range fld.Names {
					if nm.Obj != nil {
						f.ctxKind[nm.Obj] = ctxKind
					}
				}
			}
		}
	}
	savedNamed, savedRecov := f.named, f.recov
	f.named, f.recov = nil, nil
	body := f.stmts(fl.Body.List)
	recov := f.recov
	f.named, f.recov = savedNamed, savedRecov
	return &irStmt{K: "inl", Name: name, Recov: recov, A: body, Err: errV}
}

// nestedCalls translates the state-touching calls nested in the arguments / operands of an expression (inner first).
func (f *c18fn) nestedCalls(e ast.Node, skip *ast.CallExpr) []*irStmt {
	var out []*irStmt
	if e == nil {
		return nil
	}
	var walk func(n ast.Node)
	walk = func(n ast.Node) {
		ast.Inspect(n, func(m ast.Node) bool {
			if m == nil {
				return false
			}
			if fl, ok := m.(*ast.FuncLit); ok {
				// a closure is not followed; if it touches state it is recorded as ONE opaque leaf on the outer context, so
				// that it shows up in (and breaks) the designated outcome instead of silently disappearing
				if inner := f.closureTouches(fl); inner != "" {
					out = append(out, &irStmt{K: "call", Name: f.p.leafName("closure: "+inner, fl.Pos()), Ctx: "outer"})
				}
				return false
			}
			ce, ok := m.(*ast.CallExpr)
			if !ok {
				return true
			}
			syncClosure := false
			if sel, ok := ce.Fun.(*ast.SelectorExpr); ok && len(ce.Args) > 0 && (sel.Sel.Name == "Walk" || sel.Sel.Name == "ExecuteNativeAction") {
				_, syncClosure = ce.Args[len(ce.Args)-1].(*ast.FuncLit)
			}
			for i, a := range ce.Args {
				if syncClosure && i == len(ce.Args)-1 {
					continue
				}
				walk(a)
			}
			if sel, ok := ce.Fun.(*ast.SelectorExpr); ok {
				walk(sel.X)
			}
			if ce != skip {
				if s := f.call(ce, nil, nil, false); s != nil {
					out = append(out, s)
				}
			}
			return false
		})
	}
	walk(e)
	return out
}

// closureTouches returns the name of the first state-touching call (or commit) inside a function literal, "" if none.
func (f *c18fn) closureTouches(fl *ast.FuncLit) string {
	res := ""
	ast.Inspect(fl.Body, func(m ast.Node) bool {
		if res != "" {
			return false
		}
		ce, ok := m.(*ast.CallExpr)
		if !ok {
			return true
		}
		if id, ok := ce.Fun.(*ast.Ident); ok && id.Obj != nil && (f.commitObjs[id.Obj]) {
			res = id.Name + "()"
			return false
		}
		if len(ce.Args) > 0 {
			name := f.p.c.src(ce.Fun)
			if cx := f.ctxOf(ce.Args[0]); cx != "" && !c18Skipped(name) {
				res = name
				return false
			}
		}
		return true
	})
	return res
}

// call translates one call expression (not its nested calls). force: emit a pure leaf even without a context argument
// (because a tracked variable receives its result).
func (f *c18fn) call(ce *ast.CallExpr, errV, respV *irVar, force bool) *irStmt {
	p := f.p
	name := p.c.src(ce.Fun)
	if id, ok := ce.Fun.(*ast.Ident); ok {
		if id.Obj != nil {
			if k, ok := f.commitOf[id.Obj]; ok {
				return &irStmt{K: "commit", ID: k}
			}
			if f.commitObjs[id.Obj] {
				return &irStmt{K: "commit", ID: 0} // the commit function of a cache that is not open on this path
			}
		}
		switch id.Name {
		case "recover", "panic", "len", "append", "make", "new", "string", "uint64", "int64", "float32", "cap", "copy", "delete":
			if id.Name == "panic" {
				return &irStmt{K: "call", Name: "panic", Ctx: "none", Err: nil, Ok: false, Ret: "panic"}
			}
			return nil
		}
	}
	if sel, ok := ce.Fun.(*ast.SelectorExpr); ok && sel.Sel.Name == "CacheContext" {
		return nil
	}
	if sel, ok := ce.Fun.(*ast.SelectorExpr); ok && len(ce.Args) > 0 {
		if fl, ok := ce.Args[len(ce.Args)-1].(*ast.FuncLit); ok {
			switch sel.Sel.Name {
			case "Walk":
				// collections Walk: the callback runs once per entry; a returned error ends the walk and is returned by Walk
				p.loops++
				id := p.loops
				w := errV
				if w == nil {
					w = p.fresh("walkErr")
				}
				body := f.closure(fl, "", "Walk callback of "+name, w)
				return &irStmt{K: "loop", ID: id, A: seqOf(body, &irStmt{K: "ite", Cond: &irCond{K: "not", A: &irCond{K: "ok", V: w}}, A: &irStmt{K: "brk"}, B: &irStmt{K: "skip"}})}
			case "ExecuteNativeAction":
				// statedb native action: snapshot, run the closure on the statedb context, revert to the snapshot on error,
				// journal the snapshot otherwise — a cache that is committed iff the closure returns nil
				p.caches++
				k := p.caches
				w := errV
				if w == nil {
					w = p.fresh("nativeErr")
				}
				body := f.closure(fl, fmt.Sprintf("cache:%d", k), "native action", w)
				return seqOf(&irStmt{K: "open", ID: k, Ctx: "outer"}, body,
					&irStmt{K: "ite", Cond: &irCond{K: "ok", V: w}, A: &irStmt{K: "commit", ID: k}, B: &irStmt{K: "skip"}})
			}
		}
	}
	if rel, fd := p.resolve(f.rel, ce); fd != nil {
		return f.inline(rel, fd, ce, errV)
	}
	cx := ""
	for _, a := range ce.Args { // the first argument that is a context (failUnsupportedProposal(logger, ctx, …))
		if cx = f.ctxOf(a); cx != "" {
			break
		}
	}
	if cx != "" && !c18Skipped(name) {
		var args []*irVar
		for _, a := range ce.Args {
			if id, ok := a.(*ast.Ident); ok && f.isTracked(id) {
				args = append(args, p.varOf(id))
			}
		}
		return &irStmt{K: "call", Name: p.leafName(name, ce.Pos()), Ctx: cx, Err: errV, Resp: respV, Args: args}
	}
	if force && (errV != nil || respV != nil) {
		if c18IsErrCtor(name) && errV != nil {
			return &irStmt{K: "setErr", Err: errV, Ok: false}
		}
		return &irStmt{K: "call", Name: p.leafName(name, ce.Pos()), Ctx: "none", Err: errV, Resp: respV}
	}
	return nil
}

func (f *c18fn) cond(e ast.Expr) *irCond {
	p := f.p
	switch x := e.(type) {
	case *ast.ParenExpr:
		return f.cond(x.X)
	case *ast.UnaryExpr:
		if x.Op == token.NOT {
			return &irCond{K: "not", A: f.cond(x.X)}
		}
	case *ast.BinaryExpr:
		switch x.Op {
		case token.LAND:
			return &irCond{K: "and", A: f.cond(x.X), B: f.cond(x.Y)}
		case token.LOR:
			return &irCond{K: "or", A: f.cond(x.X), B: f.cond(x.Y)}
		case token.EQL, token.NEQ:
			for _, pr := range [][2]ast.Expr{{x.X, x.Y}, {x.Y, x.X}} {
				if id, ok := pr[0].(*ast.Ident); ok && id.Obj != nil && (f.commitObjs[id.Obj] || f.cacheVarObjs[id.Obj]) {
					if nl, ok := pr[1].(*ast.Ident); ok && nl.Name == "nil" {
						// the commit function / cache context variable is still nil: no CacheContext() has been assigned to it
						c := &irCond{K: "cacheUnset", Text: fmt.Sprint(f.firstSite[id.Obj])}
						if x.Op == token.NEQ {
							return &irCond{K: "not", A: c}
						}
						return c
					}
				}
				if id, ok := pr[0].(*ast.Ident); ok {
					if nl, ok := pr[1].(*ast.Ident); ok && nl.Name == "nil" && f.isTracked(id) && (id.Obj == nil || !f.ackVars[id.Obj]) {
						c := &irCond{K: "ok", V: p.varOf(id)}
						if x.Op == token.NEQ {
							return &irCond{K: "not", A: c}
						}
						return c
					}
				}
				// `v == nil` / `v != nil` for a variable whose nil test is NOT its success test (an acknowledgement: nil =
				// asynchronous): ONE uninterpreted condition per variable object, `!=` as its negation — the two tests of core
				// RecvPacket (`ack == nil || ack.Success()`, `ack != nil`) are complementary by construction.  Only when the
				// variable is assigned exactly once (otherwise two tests may see two values: numbered per position as before).
				if id, ok := pr[0].(*ast.Ident); ok && id.Obj != nil && f.ackVars[id.Obj] && f.assigns[id.Obj] == 1 {
					if nl, ok := pr[1].(*ast.Ident); ok && nl.Name == "nil" {
						c := f.other(id.Name+" == nil", id.Obj.Pos())
						if x.Op == token.NEQ {
							return &irCond{K: "not", A: c}
						}
						return c
					}
				}
				// r.VmError == vm.ErrExecutionReverted.Error()   /   r.VmError == ""
				if sel, ok := pr[0].(*ast.SelectorExpr); ok && sel.Sel.Name == "VmError" {
					if id, ok := sel.X.(*ast.Ident); ok {
						other := p.c.src(pr[1])
						var c *irCond
						switch {
						case strings.Contains(other, "ErrExecutionReverted"):
							c = &irCond{K: "evmReverted", V: p.varOf(id)}
						case other == `""`:
							c = &irCond{K: "not", A: &irCond{K: "evmFailed", V: p.varOf(id)}}
						}
						if c != nil {
							if x.Op == token.NEQ {
								return &irCond{K: "not", A: c}
							}
							return c
						}
					}
				}
			}
		case token.GTR:
			// len(r.VmError) > 0
			if ce, ok := x.X.(*ast.CallExpr); ok && p.c.src(ce.Fun) == "len" && len(ce.Args) == 1 && p.c.src(x.Y) == "0" {
				if sel, ok := ce.Args[0].(*ast.SelectorExpr); ok && sel.Sel.Name == "VmError" {
					if id, ok := sel.X.(*ast.Ident); ok {
						return &irCond{K: "evmFailed", V: p.varOf(id)}
					}
				}
			}
		}
	case *ast.CallExpr:
		if sel, ok := x.Fun.(*ast.SelectorExpr); ok && len(x.Args) == 0 {
			if id, ok := sel.X.(*ast.Ident); ok {
				switch sel.Sel.Name {
				case "Success":
					return &irCond{K: "ok", V: p.varOf(id)}
				case "Failed":
					return &irCond{K: "evmFailed", V: p.varOf(id)}
				}
			}
		}
	}
	return f.other(p.c.src(e), e.Pos())
}

func (f *c18fn) assign(s *ast.AssignStmt) *irStmt {
	p := f.p
	// cacheVar, commitVar := <ctx>.CacheContext()
	if len(s.Rhs) == 1 && len(s.Lhs) == 2 {
		if ce, ok := s.Rhs[0].(*ast.CallExpr); ok {
			if sel, ok := ce.Fun.(*ast.SelectorExpr); ok && sel.Sel.Name == "CacheContext" {
				k, ok := f.siteID[s]
				if !ok {
					p.caches++
					k = p.caches
				}
				if id, ok := s.Lhs[0].(*ast.Ident); ok && id.Obj != nil {
					f.ctxKind[id.Obj] = fmt.Sprintf("cache:%d", k)
				}
				if id, ok := s.Lhs[1].(*ast.Ident); ok && id.Obj != nil {
					f.commitOf[id.Obj] = k
				}
				parent := f.ctxOf(sel.X)
				return seqOf(append(f.nestedCalls(sel.X, nil), &irStmt{K: "open", ID: k, Ctx: parent})...)
			}
		}
	}
	var out []*irStmt
	if len(s.Rhs) == 1 {
		if ce, ok := s.Rhs[0].(*ast.CallExpr); ok {
			var errV, respV *irVar
			if n := len(s.Lhs); n > 0 {
				if id, ok := s.Lhs[n-1].(*ast.Ident); ok && f.isTracked(id) {
					errV = p.varOf(id)
				}
				if id, ok := s.Lhs[0].(*ast.Ident); ok && id.Obj != nil && f.respVars[id.Obj] && n >= 1 {
					respV = p.varOf(id)
				}
			}
			// ctx alias: newCtx := ctx.WithX(...)
			if len(s.Lhs) == 1 {
				if id, ok := s.Lhs[0].(*ast.Ident); ok && id.Obj != nil {
					if k := f.ctxOf(ce); k != "" && !f.cacheVarObjs[id.Obj] {
						f.ctxKind[id.Obj] = k
						return seqOf(f.nestedCalls(ce, ce)...)
					}
				}
			}
			out = append(out, f.nestedCalls(ce, ce)...)
			if st := f.call(ce, errV, respV, true); st != nil {
				out = append(out, st)
			}
			return seqOf(out...)
		}
	}
	for i, l := range s.Lhs {
		if i >= len(s.Rhs) {
			break
		}
		r := s.Rhs[i]
		out = append(out, f.nestedCalls(r, nil)...)
		switch lx := l.(type) {
		case *ast.Ident:
			if lx.Obj != nil {
				if k := f.ctxOf(r); k != "" {
					if !f.cacheVarObjs[lx.Obj] {
						f.ctxKind[lx.Obj] = k
					}
					continue // `xCtx := ctx`: until a cache is opened, calls on a cache variable go to the outer context
				}
				if f.commitObjs[lx.Obj] {
					continue // `commit := func() {}`
				}
			}
			if f.isTracked(lx) {
				if id, ok := r.(*ast.Ident); ok && id.Name == "nil" {
					out = append(out, &irStmt{K: "setErr", Err: p.varOf(lx), Ok: true})
				} else if ce, ok := r.(*ast.CallExpr); ok && c18IsErrCtor(p.c.src(ce.Fun)) {
					out = append(out, &irStmt{K: "setErr", Err: p.varOf(lx), Ok: false})
				} else {
					out = append(out, &irStmt{K: "call", Name: "assign " + p.c.src(r), Ctx: "none", Err: p.varOf(lx)})
				}
			}
		case *ast.SelectorExpr:
			// in-memory field of the tracked object, stored later (gov: proposal.Status = v1.StatusFailed)
			if id, ok := lx.X.(*ast.Ident); ok && id.Name == "proposal" && lx.Sel.Name == "Status" {
				out = append(out, &irStmt{K: "call", Name: p.leafName("set "+p.c.src(l)+" = "+p.c.src(r), l.Pos()), Ctx: "outer"})
			}
		}
	}
	return seqOf(out...)
}

func (f *c18fn) ret(s *ast.ReturnStmt) *irStmt {
	p := f.p
	if len(s.Results) == 0 {
		if f.named != nil {
			return &irStmt{K: "ret", Ret: "var", Err: f.named}
		}
		return &irStmt{K: "ret", Ret: "nil"}
	}
	var pre []*irStmt
	for _, r := range s.Results[:len(s.Results)-1] {
		pre = append(pre, f.nestedCalls(r, nil)...)
	}
	last := s.Results[len(s.Results)-1]
	switch x := last.(type) {
	case *ast.Ident:
		if x.Name == "nil" {
			return seqOf(append(pre, &irStmt{K: "ret", Ret: "nil"})...)
		}
		if x.Name == "true" || x.Name == "false" {
			return seqOf(append(pre, &irStmt{K: "ret", Ret: "nil"})...)
		}
		if f.isTracked(x) {
			return seqOf(append(pre, &irStmt{K: "ret", Ret: "var", Err: p.varOf(x)})...)
		}
		return seqOf(append(pre, &irStmt{K: "ret", Ret: "opaque", Name: f.qual + ": " + x.Name})...)
	case *ast.CallExpr:
		name := p.c.src(x.Fun)
		pre = append(pre, f.nestedCalls(x, x)...)
		if c18IsErrCtor(name) {
			return seqOf(append(pre, &irStmt{K: "ret", Ret: "fail", Name: name})...)
		}
		tmp := p.fresh("ret")
		if st := f.call(x, tmp, nil, true); st != nil {
			pre = append(pre, st)
		}
		return seqOf(append(pre, &irStmt{K: "ret", Ret: "var", Err: tmp})...)
	}
	return seqOf(append(pre, &irStmt{K: "ret", Ret: "opaque", Name: f.qual + ": " + p.c.src(last)})...)
}

func (f *c18fn) caseCond(tag ast.Expr, list []ast.Expr) *irCond {
	p := f.p
	var c *irCond
	for _, e := range list {
		var one *irCond
		if tag == nil {
			one = f.cond(e)
		} else if id, ok := tag.(*ast.Ident); ok && f.isTracked(id) && p.c.src(e) == "nil" {
			one = &irCond{K: "ok", V: p.varOf(id)}
		} else {
			one = f.other(p.c.src(tag)+" == "+p.c.src(e), e.Pos())
		}
		if c == nil {
			c = one
		} else {
			c = &irCond{K: "or", A: c, B: one}
		}
	}
	return c
}

func (f *c18fn) cases(tag ast.Expr, tagText string, clauses []ast.Stmt, typeSwitch bool) *irStmt {
	p := f.p
	var deflt *irStmt = &irStmt{K: "skip"}
	type arm struct {
		c *irCond
		b *irStmt
	}
	var arms []arm
	for _, st := range clauses {
		cc := st.(*ast.CaseClause)
		body := f.stmts(cc.Body)
		if cc.List == nil {
			deflt = body
			continue
		}
		var c *irCond
		if typeSwitch {
			var ts []string
			for _, e := range cc.List {
				ts = append(ts, p.c.src(e))
			}
			c = f.other(tagText+".(type) is "+strings.Join(ts, " | "), cc.Pos())
		} else {
			c = f.caseCond(tag, cc.List)
		}
		arms = append(arms, arm{c, body})
	}
	res := deflt
	for i := len(arms) - 1; i >= 0; i-- {
		res = &irStmt{K: "ite", Cond: arms[i].c, A: arms[i].b, B: res}
	}
	return &irStmt{K: "block", A: res}
}

// c18Deferred: a deferred state-touching call (or a deferred commit) runs at function exit on every path; it is
// recorded at the defer point as an opaque leaf on the outer context (fail-safe: it breaks the designated outcome).
func c18Deferred(c *irStmt) *irStmt {
	switch c.K {
	case "call":
		return &irStmt{K: "call", Name: "defer: " + c.Name, Ctx: "outer"}
	case "commit":
		return &irStmt{K: "call", Name: fmt.Sprintf("defer: commit of cache %d", c.ID), Ctx: "outer"}
	case "inl":
		return &irStmt{K: "call", Name: "defer: " + c.Name, Ctx: "outer"}
	}
	return c
}

func (f *c18fn) stmts(list []ast.Stmt) *irStmt {
	p := f.p
	var out []*irStmt
	for _, st := range list {
		switch s := st.(type) {
		case *ast.AssignStmt:
			out = append(out, f.assign(s))
		case *ast.ExprStmt:
			if ce, ok := s.X.(*ast.CallExpr); ok {
				out = append(out, f.nestedCalls(ce, ce)...)
				if x := f.call(ce, nil, nil, false); x != nil {
					out = append(out, x)
				}
			} else {
				out = append(out, f.nestedCalls(s.X, nil)...)
			}
		case *ast.DeclStmt:
			if gd, ok := s.Decl.(*ast.GenDecl); ok && gd.Tok == token.VAR {
				for _, sp := range gd.Specs {
					vs := sp.(*ast.ValueSpec)
					for i, nm := range vs.Names {
						if f.isTracked(nm) && len(vs.Values) == 0 {
							out = append(out, &irStmt{K: "setErr", Err: p.varOf(nm), Ok: true})
						} else if i < len(vs.Values) {
							out = append(out, f.nestedCalls(vs.Values[i], nil)...)
						}
					}
				}
			}
		case *ast.IfStmt:
			if s.Init != nil {
				out = append(out, f.stmts([]ast.Stmt{s.Init}))
			}
			out = append(out, f.nestedCalls(s.Cond, nil)...)
			c := f.cond(s.Cond)
			a := f.stmts(s.Body.List)
			b := &irStmt{K: "skip"}
			switch e := s.Else.(type) {
			case *ast.BlockStmt:
				b = f.stmts(e.List)
			case *ast.IfStmt:
				b = f.stmts([]ast.Stmt{e})
			}
			if a.K == "skip" && b.K == "skip" {
				continue
			}
			out = append(out, &irStmt{K: "ite", Cond: c, A: a, B: b})
		case *ast.ForStmt:
			if s.Init != nil {
				out = append(out, f.stmts([]ast.Stmt{s.Init}))
			}
			p.loops++
			id := p.loops
			out = append(out, &irStmt{K: "loop", ID: id, A: f.stmts(s.Body.List)})
		case *ast.RangeStmt:
			out = append(out, f.nestedCalls(s.X, nil)...)
			p.loops++
			id := p.loops
			out = append(out, &irStmt{K: "loop", ID: id, A: f.stmts(s.Body.List)})
		case *ast.BlockStmt:
			out = append(out, f.stmts(s.List))
		case *ast.LabeledStmt:
			out = append(out, f.stmts([]ast.Stmt{s.Stmt}))
		case *ast.SwitchStmt:
			if s.Init != nil {
				out = append(out, f.stmts([]ast.Stmt{s.Init}))
			}
			if s.Tag != nil {
				out = append(out, f.nestedCalls(s.Tag, nil)...)
			}
			out = append(out, f.cases(s.Tag, "", s.Body.List, false))
		case *ast.TypeSwitchStmt:
			tagText := ""
			switch a := s.Assign.(type) {
			case *ast.AssignStmt:
				if len(a.Rhs) == 1 {
					if ta, ok := a.Rhs[0].(*ast.TypeAssertExpr); ok {
						tagText = p.c.src(ta.X)
					}
				}
			case *ast.ExprStmt:
				if ta, ok := a.X.(*ast.TypeAssertExpr); ok {
					tagText = p.c.src(ta.X)
				}
			}
			out = append(out, f.cases(nil, tagText, s.Body.List, true))
		case *ast.BranchStmt:
			switch s.Tok {
			case token.BREAK:
				out = append(out, &irStmt{K: "brk"})
			case token.CONTINUE:
				out = append(out, &irStmt{K: "cont"})
			}
		case *ast.ReturnStmt:
			out = append(out, f.ret(s))
		case *ast.DeferStmt:
			// defer func() { if r := recover(); r != nil { <v> = … } }()
			if fl, ok := s.Call.Fun.(*ast.FuncLit); ok {
				recovers := false
				ast.Inspect(fl.Body, func(m ast.Node) bool {
					if ce, ok := m.(*ast.CallExpr); ok {
						if id, ok := ce.Fun.(*ast.Ident); ok && id.Name == "recover" {
							recovers = true
						}
					}
					return true
				})
				if recovers {
					f.recov = &irVar{Name: "(recovered, nothing assigned)", ID: 0}
					ast.Inspect(fl.Body, func(m ast.Node) bool {
						if as, ok := m.(*ast.AssignStmt); ok {
							for _, l := range as.Lhs {
								if id, ok := l.(*ast.Ident); ok && f.isTracked(id) && id.Name != "r" && f.recov.ID == 0 {
									f.recov = p.varOf(id)
								}
							}
						}
						return true
					})
					continue
				}
				// other deferred closures: state-touching calls inside them run at function exit; recorded at the defer point
				for _, c := range f.nestedCalls(fl.Body, nil) {
					out = append(out, c18Deferred(c))
				}
				continue
			}
			for _, c := range f.nestedCalls(s.Call, nil) {
				out = append(out, c18Deferred(c))
			}
		case *ast.GoStmt, *ast.IncDecStmt, *ast.EmptyStmt:
		default:
			out = append(out, f.nestedCalls(st, nil)...)
		}
	}
	return seqOf(out...)
}

// ------------------------------------------------------------------------------------------------------------------
// Lean output

func leanVar(v *irVar) string {
	if v == nil {
		return "none"
	}
	return fmt.Sprintf("(some ⟨%s, %d⟩)", leanStr(v.Name), v.ID)
}

func leanVar1(v *irVar) string {
	if v == nil {
		return "⟨\"?\", 0⟩"
	}
	return fmt.Sprintf("⟨%s, %d⟩", leanStr(v.Name), v.ID)
}

func leanCtx(c string) string {
	switch {
	case c == "outer":
		return ".outer"
	case strings.HasPrefix(c, "cache:"):
		return "(.cache " + c[6:] + ")"
	}
	return ".none"
}

func leanCond(c *irCond) string {
	switch c.K {
	case "ok", "evmFailed", "evmReverted":
		return fmt.Sprintf("(.%s %s)", c.K, leanVar1(c.V))
	case "other":
		return "(.other " + leanStr(c.Text) + ")"
	case "cacheUnset":
		return "(.cacheUnset " + c.Text + ")"
	case "not":
		return "(.not " + leanCond(c.A) + ")"
	case "and", "or":
		return fmt.Sprintf("(.%s %s %s)", c.K, leanCond(c.A), leanCond(c.B))
	}
	return "(.other \"?\")"
}

func leanStmt(s *irStmt, ind string) string {
	in2 := ind + "  "
	switch s.K {
	case "skip":
		return ".skip"
	case "seq":
		var parts []string
		for _, x := range s.List {
			parts = append(parts, in2+leanStmt(x, in2))
		}
		return "seqs [\n" + strings.Join(parts, ",\n") + "]"
	case "open":
		return fmt.Sprintf(".openCache %d %s", s.ID, leanCtx(s.Ctx))
	case "commit":
		return fmt.Sprintf(".commit %d", s.ID)
	case "call":
		if s.Ret == "panic" {
			return ".panic"
		}
		var as []string
		for _, a := range s.Args {
			as = append(as, leanVar1(a))
		}
		return fmt.Sprintf(".call %s %s %s %s %s", leanStr(s.Name), leanCtx(s.Ctx), leanVar(s.Err), leanVar(s.Resp), leanList(as))
	case "setErr":
		return fmt.Sprintf(".setErr %s %v", leanVar1(s.Err), s.Ok)
	case "ite":
		return fmt.Sprintf(".ite %s\n%s(%s)\n%s(%s)", leanCond(s.Cond), in2, leanStmt(s.A, in2), in2, leanStmt(s.B, in2))
	case "loop":
		return fmt.Sprintf(".loop %d\n%s(%s)", s.ID, in2, leanStmt(s.A, in2))
	case "brk":
		return ".brk"
	case "cont":
		return ".cont"
	case "ret":
		switch s.Ret {
		case "nil":
			return ".ret .nil"
		case "var":
			return ".ret (.var " + leanVar1(s.Err) + ")"
		case "fail":
			return ".ret (.fail " + leanStr(s.Name) + ")"
		}
		return ".ret (.opaque " + leanStr(s.Name) + ")"
	case "inl":
		return fmt.Sprintf(".inl %s %s %s %s\n%s(%s)", leanStr(s.Name), leanVar(s.Named), leanVar(s.Recov), leanVar(s.Err), in2, leanStmt(s.A, in2))
	case "block":
		return fmt.Sprintf(".block\n%s(%s)", in2, leanStmt(s.A, in2))
	}
	return ".skip"
}

const c18ProgPreamble = `
/-! ## structured programs of the boundaries (second translator, go/extract/c18prog.go) -/

/-- a variable OBJECT of the Go source (go/parser scope resolution): a shadowing declaration is another object -/
structure Var where
  name : String
  id : Nat
deriving DecidableEq, Repr

inductive Ctx where
  | outer | cache (k : Nat) | none
deriving DecidableEq, Repr

inductive Cond where
  | ok (v : Var)              -- v == nil  /  v.Success()
  | evmFailed (v : Var)       -- v.Failed()  /  v.VmError != ""
  | evmReverted (v : Var)     -- v.VmError == vm.ErrExecutionReverted.Error()
  | other (text : String)     -- anything else: decided by the environment
  | cacheUnset (k : Nat)      -- the commit / cache variable of CacheContext() site k is still nil (never assigned)
  | not (c : Cond)
  | and (a b : Cond)
  | or (a b : Cond)
deriving DecidableEq, Repr

inductive Ret where
  | nil | var (v : Var) | fail (what : String) | opaque (what : String)
deriving DecidableEq, Repr

inductive Stmt where
  | skip
  | seq (a b : Stmt)
  | openCache (k : Nat) (parent : Ctx)
  | commit (k : Nat)
  | call (name : String) (ctx : Ctx) (err : Option Var) (resp : Option Var) (args : List Var)
  | panic
  | setErr (v : Var) (ok : Bool)
  | ite (c : Cond) (t e : Stmt)
  | loop (id : Nat) (body : Stmt)
  | brk
  | cont
  | ret (r : Ret)
  | inl (name : String) (named recov err : Option Var) (body : Stmt)
  | block (body : Stmt)
deriving DecidableEq, Repr

def seqs : List Stmt → Stmt
  | [] => .skip
  | [a] => a
  | a :: b :: rest => .seq a (seqs (b :: rest))

`

func (c *ctxT) c18NewProg() *c18prog {
	return &c18prog{c: c, vars: map[*ast.Object]*irVar{}, occ: map[string][]token.Pos{}, sites: map[string][]token.Pos{}}
}

// c18Programs emits the four boundary programs.
func (c *ctxT) c18Programs() string {
	var sb strings.Builder
	sb.WriteString(c18ProgPreamble)
	emit := func(ident, doc string, body *irStmt) {
		if body == nil {
			body = &irStmt{K: "call", Name: ident + " (NOT FOUND)", Ctx: "outer"}
		}
		fmt.Fprintf(&sb, "/-- %s -/\ndef %s : Stmt :=\n  %s\n\n", doc, ident, leanStmt(body, "  "))
		c.facts["C18.prog."+ident] = body
	}
	var extraBind map[string]c18Bind
	top := func(rel string, fd *ast.FuncDecl, list []ast.Stmt, prescanRoot ast.Node) *irStmt {
		if fd == nil || list == nil {
			return nil
		}
		p := c.c18NewProg()
		p.extra = extraBind
		f := p.newFn(rel)
		f.qual = fd.Name.Name
		f.prescan(prescanRoot)
		for _, fl := range fd.Type.Params.List {
			if isCtxType(fl.Type, c.src(fl.Type)) {
				for _, nm := range fl.Names {
					if nm.Obj != nil {
						f.ctxKind[nm.Obj] = "outer"
					}
					f.ctxNames[nm.Name] = "outer"
				}
			}
		}
		if fd.Type.Results != nil && len(fd.Type.Results.List) > 0 {
			last := fd.Type.Results.List[len(fd.Type.Results.List)-1]
			if len(last.Names) > 0 {
				f.named = p.varOf(last.Names[len(last.Names)-1])
			}
		}
		p.stack = []string{fd.Name.Name}
		return f.stmts(list)
	}

	// 1. TryAttestation, from the point where the power threshold is reached (the tail of the vote loop's body after the
	//    last guard that `continue`s), processAttestation inlined
	if fd := c.findFunc("x/crosschain/keeper", "Keeper", "TryAttestation"); fd != nil && fd.Body != nil {
		list := fd.Body.List
		ast.Inspect(fd.Body, func(n ast.Node) bool {
			if rs, ok := n.(*ast.RangeStmt); ok {
				last := -1
				for i, st := range rs.Body.List {
					if is, ok := st.(*ast.IfStmt); ok && len(is.Body.List) > 0 {
						if bs, ok := is.Body.List[len(is.Body.List)-1].(*ast.BranchStmt); ok && bs.Tok == token.CONTINUE {
							last = i
						}
					}
				}
				if last >= 0 {
					list = rs.Body.List[last+1:]
				}
				return false
			}
			return true
		})
		emit("attestationProg", "`TryAttestation` once the power threshold is reached (tail of the vote loop body), `processAttestation` inlined", top("x/crosschain/keeper", fd, list, fd.Body))
	} else {
		emit("attestationProg", "NOT FOUND", nil)
	}

	// 2. ExecuteClaim with BridgeCallHandler, BridgeCallEvm, BridgeCallFailedRefund inlined
	if fd := c.findFunc("x/crosschain/keeper", "Keeper", "ExecuteClaim"); fd != nil && fd.Body != nil {
		emit("executeClaimProg", "`ExecuteClaim` with `BridgeCallHandler`, `BridgeCallEvm`, `BridgeCallFailedRefund` inlined", top("x/crosschain/keeper", fd, fd.Body.List, fd.Body))
	} else {
		emit("executeClaimProg", "NOT FOUND", nil)
	}

	// 3. gov EndBlocker from the end of the inactive-proposal walk on: everything declared before the walk over the
	//    active proposals, the walk itself as a LOOP over the proposals of the block (Walk callback), with the whole
	//    per-proposal body (tally, deposits, the switch with `case passes`, SetProposal, hooks)
	{
		var prog *irStmt
		if fd := c.findFunc("x/gov", "", "EndBlocker"); fd != nil && fd.Body != nil {
			list := fd.Body.List
			for i, st := range fd.Body.List {
				if as, ok := st.(*ast.AssignStmt); ok && len(as.Rhs) == 1 && strings.Contains(c.src(as.Rhs[0]), "InactiveProposalsQueue.Walk") {
					list = fd.Body.List[i+1:]
					if len(list) > 0 {
						if is, ok := list[0].(*ast.IfStmt); ok && strings.Contains(c.src(is.Cond), "err != nil") {
							list = list[1:] // the error check of the inactive walk
						}
					}
					break
				}
			}
			prog = top("x/gov", fd, list, fd.Body)
		}
		// 3a. the FIRST part of EndBlocker: the walk over the inactive proposals whose deposit period ended (delete, refund
		//     or burn the deposits, AfterProposalFailedMinDeposit hook on a branch that is written only if the hook succeeds)
		{
			var inactive *irStmt
			if fd := c.findFunc("x/gov", "", "EndBlocker"); fd != nil && fd.Body != nil {
				for i, st := range fd.Body.List {
					if as, ok := st.(*ast.AssignStmt); ok && len(as.Rhs) == 1 && strings.Contains(c.src(as.Rhs[0]), "InactiveProposalsQueue.Walk") {
						end := i + 1
						if end < len(fd.Body.List) {
							if is, ok := fd.Body.List[end].(*ast.IfStmt); ok && strings.Contains(c.src(is.Cond), "err != nil") {
								end++
							}
						}
						inactive = top("x/gov", fd, fd.Body.List[:end], fd.Body)
						break
					}
				}
			}
			emit("govInactiveProg", "gov `EndBlocker`, first part: the walk over the inactive proposals whose deposit period ended, as a loop over the proposals of the block", inactive)
		}
		emit("govProg", "gov `EndBlocker` after the walk over the inactive proposals: the walk over the active proposals whose voting period ended as a loop over the proposals of the block, `safeExecuteHandler` inlined", prog)
	}

	// 3b. the executeClaim precompile method: on which context the keeper's ExecuteClaim runs (inside a statedb native
	//     action, i.e. on a snapshot that is reverted on error, or on stateDB.Context() directly)
	if fd := c.findFunc("x/crosschain/precompile", "ExecuteClaimMethod", "Run"); fd != nil && fd.Body != nil {
		emit("executeClaimPrecompileProg", "`ExecuteClaimMethod.Run` of the crosschain precompile (`ExecuteClaim` of the keeper is a leaf here; its body is `executeClaimProg`)", top("x/crosschain/precompile", fd, fd.Body.List, fd.Body))
	} else {
		emit("executeClaimPrecompileProg", "NOT FOUND", nil)
	}

	// 3c. the WHOLE executeClaim transaction: the precompile method with the keeper's ExecuteClaim inlined (router binding
	//     crosschainKeeper.ExecuteClaim -> x/crosschain/keeper.Keeper.ExecuteClaim): the native action is cache 1, the
	//     cache BridgeCallHandler opens is a branch OF that cache
	if fd := c.findFunc("x/crosschain/precompile", "ExecuteClaimMethod", "Run"); fd != nil && fd.Body != nil {
		extraBind = map[string]c18Bind{"crosschainKeeper.ExecuteClaim": {"x/crosschain/keeper", "Keeper", "ExecuteClaim"}}
		emit("executeClaimTxProg", "`ExecuteClaimMethod.Run` with the keeper's `ExecuteClaim` (→ `BridgeCallHandler` → `BridgeCallEvm` / `BridgeCallFailedRefund`) inlined into the native action", top("x/crosschain/precompile", fd, fd.Body.List, fd.Body))
		extraBind = nil
	} else {
		emit("executeClaimTxProg", "NOT FOUND", nil)
	}

	// 4. ibc-go core RecvPacket (the version named in /repo/go.mod) with the application callback bound to
	//    IBCMiddleware.OnRecvPacket → Keeper.OnRecvPacket → HandlerIbcCall → HandlerIbcCallEvm
	{
		var prog *irStmt
		if d := c.ibcGoDir(); d != "" {
			file, err := parser.ParseFile(c.fset, filepath.Join(d, "modules", "core", "keeper", "msg_server.go"), nil, 0)
			if err == nil {
				for _, dcl := range file.Decls {
					if fd, ok := dcl.(*ast.FuncDecl); ok && fd.Name.Name == "RecvPacket" && fd.Body != nil {
						p := c.c18NewProg()
						f := p.newFn("x/ibc/middleware") // nothing of core itself is inlined
						f.qual = "RecvPacket"
						f.prescan(fd.Body)
						for _, fl := range fd.Type.Params.List {
							if isCtxType(fl.Type, c.src(fl.Type)) {
								for _, nm := range fl.Names {
									if nm.Obj != nil {
										f.ctxKind[nm.Obj] = "outer"
									}
								}
							}
						}
						p.stack = []string{"RecvPacket"}
						prog = f.stmts(fd.Body.List)
					}
				}
			}
		}
		emit("recvPacketProg", "ibc-go core `RecvPacket` with the application callback bound to `IBCMiddleware.OnRecvPacket` → `Keeper.OnRecvPacket` → `HandlerIbcCall` → `HandlerIbcCallEvm`", prog)
	}

	// wiring fact: the transfer route is the fx middleware around the transfer module
	wiring := false
	if _, err := os.Stat(filepath.Join(c.repo, "app", "keepers")); err == nil {
		for _, file := range c.pkg("app/keepers") {
			ast.Inspect(file, func(n ast.Node) bool {
				if ce, ok := n.(*ast.CallExpr); ok && strings.HasSuffix(c.src(ce.Fun), "NewIBCMiddleware") {
					wiring = true
				}
				return true
			})
		}
	}
	fmt.Fprintf(&sb, "/-- app wiring: the transfer stack is built with `NewIBCMiddleware` -/\ndef transferStackUsesMiddleware : Bool := %v\n\n", wiring)
	c.facts["C18.wiring"] = wiring
	return sb.String()
}
