package main

// C11 (third translator): the thin precompile wrappers delegateV2 / undelegateV2 / redelegateV2 / withdraw /
// approveShares.  The model treats these operations as the SDK call made *for the transaction's caller* with the
// arguments as given; this table — which message-server / keeper method each `Run` calls, with which delegator,
// validator(s) and amount, inside ExecuteNativeAction, with the error handed back — is what that reading rests on.

import (
	"go/ast"
	"strings"
)

type c11Wrap struct {
	method, call, delegator, validator, validatorDst, amount string
	native, errPropagated                                     bool
}

// c11Resolve replaces simple local aliases (`sender := sdk.AccAddress(contract.Caller().Bytes())`) and normalises
// the ways of naming the caller / a validator argument.
func c11Resolve(s string, alias map[string]string) string {
	s = c11Norm(s)
	for i := 0; i < 3; i++ {
		for k, v := range alias {
			if s == k || strings.HasPrefix(s, k+".") {
				s = v + strings.TrimPrefix(s, k)
			}
		}
	}
	switch s {
	case "sdk.AccAddress(contract.Caller().Bytes()).String()", "sdk.AccAddress(contract.Caller().Bytes())", "contract.Caller()",
		"contract.Caller().Bytes()":
		return "caller"
	case "args.GetValidator().String()", "args.GetValidator()":
		return "args.Validator"
	case "m.NewStakingCoin(args.Amount)":
		return "args.Amount"
	case "args.Spender.Bytes()":
		return "args.Spender"
	}
	return s
}

func (c *ctxT) c11Wrappers() []c11Wrap {
	specs := []struct{ recv, callee string }{
		{"DelegateV2Method", "Delegate"}, {"UndelegateV2Method", "Undelegate"}, {"RedelegateMethodV2", "BeginRedelegate"},
		{"WithdrawMethod", "WithdrawDelegatorReward"}, {"ApproveSharesMethod", "SetAllowance"},
	}
	var out []c11Wrap
	for _, sp := range specs {
		w := c11Wrap{method: sp.recv}
		fd := c.findFunc(c11Dir, sp.recv, "Run")
		if fd == nil || fd.Body == nil {
			out = append(out, w)
			continue
		}
		// the function literal handed to ExecuteNativeAction
		var lit *ast.FuncLit
		for _, ce := range c11Calls(fd.Body, "ExecuteNativeAction") {
			for _, a := range ce.Args {
				if fl, ok := a.(*ast.FuncLit); ok {
					lit = fl
				}
			}
		}
		alias := map[string]string{}
		ast.Inspect(fd.Body, func(n ast.Node) bool {
			if as, ok := n.(*ast.AssignStmt); ok && len(as.Lhs) == 1 && len(as.Rhs) == 1 {
				if id, ok := as.Lhs[0].(*ast.Ident); ok && id.Name != "err" && id.Name != "result" {
					alias[id.Name] = c11Norm(c.src(as.Rhs[0]))
				}
			}
			return true
		})
		for _, ce := range c11Calls(fd.Body, sp.callee) {
			se, ok := ce.Fun.(*ast.SelectorExpr)
			if !ok {
				continue
			}
			w.call = strings.TrimPrefix(c11Norm(c.src(se.X)), "m.") + "." + sp.callee
			w.native = lit != nil && c11Contains(lit, ce)
			if sp.callee == "SetAllowance" {
				if len(ce.Args) == 5 {
					w.validator = c11Resolve(c.src(ce.Args[1]), alias)
					w.delegator = c11Resolve(c.src(ce.Args[2]), alias)
					w.validatorDst = c11Resolve(c.src(ce.Args[3]), alias) // the spender
					w.amount = c11Resolve(c.src(ce.Args[4]), alias)
				}
				w.errPropagated = true // SetAllowance returns nothing
				break
			}
			// &types.Msg…{ field: value, … }
			ast.Inspect(ce, func(n ast.Node) bool {
				kv, ok := n.(*ast.KeyValueExpr)
				if !ok {
					return true
				}
				key := c11Norm(c.src(kv.Key))
				val := c11Resolve(c.src(kv.Value), alias)
				switch key {
				case "DelegatorAddress":
					w.delegator = val
				case "ValidatorAddress", "ValidatorSrcAddress":
					w.validator = val
				case "ValidatorDstAddress":
					w.validatorDst = val
				case "Amount":
					w.amount = val
				}
				return true
			})
			// the statement holding the call hands the error back: `if …; err != nil { return err }` or
			// `x, err := call` followed by `if err != nil { return err }`
			if lit != nil {
				for i, st := range lit.Body.List {
					if !c11Contains(st, ce) {
						continue
					}
					if is, ok := st.(*ast.IfStmt); ok && c11Norm(c.src(is.Cond)) == "err != nil" && c11ReturnsErr(is.Body) {
						w.errPropagated = true
					}
					if i+1 < len(lit.Body.List) {
						if is, ok := lit.Body.List[i+1].(*ast.IfStmt); ok && c11Norm(c.src(is.Cond)) == "err != nil" && c11ReturnsErr(is.Body) {
							w.errPropagated = true
						}
					}
				}
			}
			break
		}
		out = append(out, w)
	}
	return out
}

func c11WrapLean(ws []c11Wrap) string {
	var items []string
	for _, w := range ws {
		b := func(x bool) string {
			if x {
				return "true"
			}
			return "false"
		}
		items = append(items, "{ method := "+leanStr(w.method)+", call := "+leanStr(w.call)+", delegator := "+leanStr(w.delegator)+
			", validator := "+leanStr(w.validator)+", validatorDst := "+leanStr(w.validatorDst)+", amount := "+leanStr(w.amount)+
			", native := "+b(w.native)+", errPropagated := "+b(w.errPropagated)+" }")
	}
	return "[\n      " + strings.Join(items, ",\n      ") + "]"
}

const c11WrapType = `/-- one thin precompile wrapper: the ` + "`Run`" + ` method of ` + "`method`" + ` calls ` + "`call`" + ` for ` + "`delegator`" + ` at
` + "`validator`" + ` (and ` + "`validatorDst`" + ` = destination validator of a redelegation / spender of an approval) with ` + "`amount`" + `,
inside ExecuteNativeAction (` + "`native`" + `), handing the error back (` + "`errPropagated`" + `) -/
structure Wrapper where
  method : String
  call : String
  delegator : String
  validator : String
  validatorDst : String
  amount : String
  native : Bool
  errPropagated : Bool
deriving Repr, DecidableEq

`
