package main

// C11: facts of x/staking/precompile/transfer_shares.go (handlerTransferShares, decrementAllowance, the two Run
// methods) and of the argument validators in x/staking/types/contract.go, read from the AST.  The Lean model of the
// share transfer is parametrised by these facts and the property theorems are stated for the generated `cfg`, so
// an edit of the guard / the order of the steps / the hand-edited reference counts changes a definition the proofs
// depend on.

import (
	"fmt"
	"go/ast"
	"go/token"
	"strconv"
	"strings"
)

func init() { register(extractC11) }

const c11Dir = "x/staking/precompile"

func c11Norm(s string) string { return strings.Join(strings.Fields(s), " ") }

// c11Calls lists, in source order, every call whose function name (last selector) is in names.
func c11Calls(root ast.Node, names ...string) []*ast.CallExpr {
	want := map[string]bool{}
	for _, n := range names {
		want[n] = true
	}
	var out []*ast.CallExpr
	ast.Inspect(root, func(n ast.Node) bool {
		if ce, ok := n.(*ast.CallExpr); ok {
			if want[c11CallName(ce)] {
				out = append(out, ce)
			}
		}
		return true
	})
	return out
}

func c11CallName(ce *ast.CallExpr) string {
	switch f := ce.Fun.(type) {
	case *ast.SelectorExpr:
		return f.Sel.Name
	case *ast.Ident:
		return f.Name
	}
	return ""
}

// c11ReturnsErr: the block contains a return whose last result is not the identifier nil.
func c11ReturnsErr(b *ast.BlockStmt) bool {
	found := false
	ast.Inspect(b, func(n ast.Node) bool {
		if r, ok := n.(*ast.ReturnStmt); ok && len(r.Results) > 0 {
			if id, ok := r.Results[len(r.Results)-1].(*ast.Ident); !ok || id.Name != "nil" {
				found = true
			}
		}
		return true
	})
	return found
}

// c11ReturnsNil: the last statement of the block is a return whose last result is nil.
func c11ReturnsNil(b *ast.BlockStmt) bool {
	if len(b.List) == 0 {
		return false
	}
	r, ok := b.List[len(b.List)-1].(*ast.ReturnStmt)
	if !ok || len(r.Results) == 0 {
		return false
	}
	id, ok := r.Results[len(r.Results)-1].(*ast.Ident)
	return ok && id.Name == "nil"
}

func c11Contains(outer, inner ast.Node) bool {
	return outer != nil && inner != nil && outer.Pos() <= inner.Pos() && inner.End() <= outer.End()
}

func extractC11(c *ctxT) {
	h := c.findFunc(c11Dir, "TransferShare", "handlerTransferShares")
	da := c.findFunc(c11Dir, "TransferShare", "decrementAllowance")
	runFrom := c.findFunc(c11Dir, "TransferFromShares", "Run")
	runTo := c.findFunc(c11Dir, "TransferShares", "Run")
	b := func(x bool) string { return strconv.FormatBool(x) }

	selfGuard, refuse, withdrawFrom, lookupFirst, withdrawTo, incPeriod := false, false, false, false, false, false
	decRef, delInfo, incRef := false, false, false
	sharesCmp := ""
	offset := 0
	var steps []string
	var prog []string

	if h != nil && h.Body != nil {
		body := h.Body
		// ordered list of the keeper-level calls (documentation + evidence)
		ast.Inspect(body, func(n ast.Node) bool {
			if ce, ok := n.(*ast.CallExpr); ok {
				switch nm := c11CallName(ce); nm {
				case "GetValidator", "GetDelegation", "HasReceivingRedelegation", "WithdrawDelegatorReward",
					"IncrementValidatorPeriod", "GetDelegatorStartingInfo", "RemoveDelegation", "SetDelegation",
					"decrementReferenceCount", "incrementReferenceCount", "DeleteDelegatorStartingInfo",
					"SetDelegatorStartingInfo", "GetValidatorCurrentRewards":
					arg := ""
					if len(ce.Args) > 1 {
						arg = c11Norm(c.src(ce.Args[len(ce.Args)-1]))
						if nm == "WithdrawDelegatorReward" {
							if strings.Contains(arg, "from.Bytes()") {
								arg = "from"
							} else if strings.Contains(arg, "to.Bytes()") {
								arg = "to"
							}
						}
						if len(arg) > 40 {
							arg = arg[:40]
						}
					}
					steps = append(steps, nm+"("+arg+")")
				}
			}
			return true
		})

		withdraws := c11Calls(body, "WithdrawDelegatorReward")
		var wFrom, wTo *ast.CallExpr
		for _, w := range withdraws {
			s := c.src(w)
			if wFrom == nil && strings.Contains(s, "from.Bytes()") {
				wFrom = w
			}
			if wTo == nil && strings.Contains(s, "to.Bytes()") {
				wTo = w
			}
		}
		firstWrite := token.Pos(1 << 40)
		for _, w := range c11Calls(body, "WithdrawDelegatorReward", "IncrementValidatorPeriod", "SetDelegation", "RemoveDelegation",
			"SetDelegatorStartingInfo", "DeleteDelegatorStartingInfo", "decrementReferenceCount", "incrementReferenceCount") {
			if w.Pos() < firstWrite {
				firstWrite = w.Pos()
			}
		}
		var toLookup *ast.CallExpr
		for _, g := range c11Calls(body, "GetDelegation") {
			if len(g.Args) >= 2 && strings.HasPrefix(c11Norm(c.src(g.Args[1])), "to.") {
				toLookup = g
				break
			}
		}
		var fromWrite token.Pos = 1 << 40
		for _, w := range c11Calls(body, "SetDelegation", "RemoveDelegation") {
			if len(w.Args) >= 2 && c11Norm(c.src(w.Args[1])) == "fromDel" && w.Pos() < fromWrite {
				fromWrite = w.Pos()
			}
		}
		withdrawFrom = wFrom != nil && (toLookup == nil || wFrom.Pos() < toLookup.Pos()) && wFrom.Pos() < fromWrite
		lookupFirst = toLookup != nil && toLookup.Pos() < fromWrite

		for _, st := range body.List {
			is, ok := st.(*ast.IfStmt)
			if !ok {
				continue
			}
			cond := c11Norm(c.src(is.Cond))
			switch {
			case cond == "from == to" || cond == "to == from" ||
				cond == "bytes.Equal(from.Bytes(), to.Bytes())" || cond == "bytes.Equal(to.Bytes(), from.Bytes())":
				if is.Pos() < firstWrite && c11ReturnsNil(is.Body) && is.Init == nil {
					selfGuard = true
				}
			case cond == "has":
				// preceded by has, err := …HasReceivingRedelegation(ctx, from.Bytes(), valAddr)
				for _, hr := range c11Calls(body, "HasReceivingRedelegation") {
					if hr.Pos() < is.Pos() && len(hr.Args) == 3 && strings.HasPrefix(c11Norm(c.src(hr.Args[1])), "from.") &&
						c11Norm(c.src(hr.Args[2])) == "valAddr" && c11ReturnsErr(is.Body) && is.Pos() < firstWrite {
						refuse = true
					}
				}
			}
			// fromDel.GetShares().<cmp>(shares) { return error }
			if ce, ok := is.Cond.(*ast.CallExpr); ok {
				if se, ok := ce.Fun.(*ast.SelectorExpr); ok && len(ce.Args) == 1 {
					if c11Norm(c.src(se.X)) == "fromDel.GetShares()" && c11Norm(c.src(ce.Args[0])) == "shares" &&
						c11ReturnsErr(is.Body) && is.Pos() < firstWrite {
						sharesCmp = se.Sel.Name
					}
				}
			}
			// if fromDel.GetShares().IsZero() { remove … } else { … }
			if cond == "fromDel.GetShares().IsZero()" {
				for _, d := range c11Calls(is.Body, "decrementReferenceCount") {
					if len(d.Args) > 0 && c11Norm(c.src(d.Args[len(d.Args)-1])) == "fromDelStartingInfo.PreviousPeriod" {
						decRef = true
					}
				}
				for _, d := range c11Calls(is.Body, "DeleteDelegatorStartingInfo") {
					if len(d.Args) == 3 && strings.HasPrefix(c11Norm(c.src(d.Args[2])), "from.") {
						delInfo = true
					}
				}
			}
			// the recipient lookup's `if err != nil { … IncrementValidatorPeriod … } else { … withdraw to … }`
			if toLookup != nil && cond == "err != nil" && is.Pos() > toLookup.Pos() && is.Else != nil {
				if len(c11Calls(is.Body, "IncrementValidatorPeriod")) > 0 {
					incPeriod = true
					if wTo != nil && c11Contains(is.Else, wTo) {
						withdrawTo = true
					}
				}
			}
			if cond == "!toDelFound" {
				for _, s2 := range is.Body.List {
					if as, ok := s2.(*ast.AssignStmt); ok && len(as.Lhs) == 1 && c11Norm(c.src(as.Lhs[0])) == "previousPeriod" {
						r := c11Norm(c.src(as.Rhs[0]))
						const pfx = "validatorCurrentRewards.Period - "
						if strings.HasPrefix(r, pfx) {
							if n, err := strconv.Atoi(strings.TrimPrefix(r, pfx)); err == nil {
								offset = n
							}
						} else if r == "validatorCurrentRewards.Period" {
							offset = 0
						} else {
							offset = 999
						}
					}
				}
				for _, d := range c11Calls(is.Body, "incrementReferenceCount") {
					if len(d.Args) > 0 && c11Norm(c.src(d.Args[len(d.Args)-1])) == "previousPeriod" {
						incRef = true
					}
				}
			}
		}
	}

	if h != nil && h.Body != nil {
		prog = c.c11Prog(h.Body, c11ProgStart(c, h.Body))
	}

	allowCheck, allowSub := false, false
	if da != nil && da.Body != nil {
		for _, st := range da.Body.List {
			if is, ok := st.(*ast.IfStmt); ok && c11Norm(c.src(is.Cond)) == "allowance.Cmp(decrease) < 0" && c11ReturnsErr(is.Body) {
				allowCheck = true
			}
		}
		src := c11Norm(c.src(da.Body))
		getOK := strings.Contains(src, "allowance := m.stakingKeeper.GetAllowance(ctx, valAddr, owner, spender)")
		subOK := strings.Contains(src, "newAllowance := big.NewInt(0).Sub(allowance, decrease)")
		setOK := strings.Contains(src, "m.stakingKeeper.SetAllowance(ctx, valAddr, owner, spender, newAllowance)")
		allowSub = getOK && subOK && setOK
	}

	runArgs := false
	if runFrom != nil && runFrom.Body != nil && runTo != nil && runTo.Body != nil {
		okFrom, okTo := false, false
		ds := c11Calls(runFrom.Body, "decrementAllowance")
		hs := c11Calls(runFrom.Body, "handlerTransferShares")
		if len(ds) == 1 && len(hs) == 1 && ds[0].Pos() < hs[0].Pos() {
			var a, bb []string
			for _, x := range ds[0].Args {
				a = append(a, c11Norm(c.src(x)))
			}
			for _, x := range hs[0].Args {
				bb = append(bb, c11Norm(c.src(x)))
			}
			okFrom = strings.Join(a, "|") == "ctx|valAddr|args.From.Bytes()|spender.Bytes()|args.Shares" &&
				strings.Join(bb, "|") == "ctx|evm|valAddr|args.From|args.To|args.Shares" &&
				strings.Contains(c11Norm(c.src(runFrom.Body)), "spender := contract.Caller()")
		}
		hs = c11Calls(runTo.Body, "handlerTransferShares")
		if len(hs) == 1 {
			var bb []string
			for _, x := range hs[0].Args {
				bb = append(bb, c11Norm(c.src(x)))
			}
			okTo = strings.Join(bb, "|") == "ctx|evm|valAddr|contract.Caller()|args.To|args.Shares"
		}
		runArgs = okFrom && okTo
	}

	sharesPositive := true
	for _, tn := range []string{"TransferSharesArgs", "TransferFromSharesArgs"} {
		fd := c.findFunc("x/staking/types", tn, "Validate")
		ok := false
		if fd != nil && fd.Body != nil {
			for _, st := range fd.Body.List {
				if is, isIf := st.(*ast.IfStmt); isIf && strings.Contains(c11Norm(c.src(is.Cond)), "args.Shares.Sign() <= 0") && c11ReturnsErr(is.Body) {
					ok = true
				}
			}
		}
		sharesPositive = sharesPositive && ok
	}

	var sb strings.Builder
	sb.WriteString(`namespace FxVerif.Gen.C11

/-- facts read from the AST of handlerTransferShares, decrementAllowance, the two Run methods
(x/staking/precompile/transfer_shares.go) and the argument validators (x/staking/types/contract.go) -/
` + c11ProgTypes + c11WrapType + c11RunTypes + `structure Cfg where
  /-- an ` + "`if from == to { … return …, nil }`" + ` stands before the first state-changing call -/
  selfGuard : Bool
  /-- HasReceivingRedelegation(ctx, from…, valAddr) followed by ` + "`if has { return error }`" + ` -/
  refuseRecvRedel : Bool
  /-- method used in fromDel.GetShares().<cmp>(shares) guarding the "insufficient shares" error -/
  sharesCmp : String
  /-- the sender's rewards are withdrawn before the recipient lookup and before anything is rewritten -/
  withdrawFrom : Bool
  /-- the recipient's delegation is looked up before the sender's delegation is written -/
  toLookupBeforeFromWrite : Bool
  /-- found recipient: its rewards are withdrawn -/
  withdrawTo : Bool
  /-- new recipient: IncrementValidatorPeriod is called -/
  incPeriodForNewTo : Bool
  /-- sender emptied: decrementReferenceCount(… fromDelStartingInfo.PreviousPeriod) -/
  decRefOnRemoval : Bool
  /-- sender emptied: DeleteDelegatorStartingInfo(…, from) -/
  delInfoOnRemoval : Bool
  /-- new recipient: incrementReferenceCount(… previousPeriod) -/
  incRefForNewTo : Bool
  /-- new recipient: previousPeriod := validatorCurrentRewards.Period - k -/
  newToPeriodOffset : Nat
  /-- decrementAllowance: if allowance.Cmp(decrease) < 0 { error } -/
  allowanceCheck : Bool
  /-- decrementAllowance: reads (val, owner, spender), writes Sub(allowance, decrease) to the same key -/
  allowanceSubDecrease : Bool
  /-- Run methods: allowance decremented for (args.From, caller) by args.Shares before the handler runs with the
  same args.From/To/Shares; transferShares acts for contract.Caller() -/
  transferFromArgs : Bool
  /-- Validate() of both argument structs rejects Shares.Sign() <= 0 -/
  sharesPositive : Bool
  /-- the body of handlerTransferShares after the guards, statement by statement (see go/extract/c11prog.go) -/
  prog : List Stmt
  /-- the Run methods of delegateV2 / undelegateV2 / redelegateV2 / withdraw / approveShares (see go/extract/c11wrap.go) -/
  wrappers : List Wrapper
  /-- the native action of TransferShares.Run, statement by statement (see go/extract/c11run.go) -/
  runTransfer : List RStmt
  /-- the native action of TransferFromShares.Run, statement by statement: which call, for whom, in which order, under
  which condition -/
  runFrom : List RStmt
deriving Repr, DecidableEq

`)
	fmt.Fprintf(&sb, "def cfg : Cfg :=\n  { selfGuard := %s, refuseRecvRedel := %s, sharesCmp := %s, withdrawFrom := %s,\n"+
		"    toLookupBeforeFromWrite := %s, withdrawTo := %s, incPeriodForNewTo := %s, decRefOnRemoval := %s,\n"+
		"    delInfoOnRemoval := %s, incRefForNewTo := %s, newToPeriodOffset := %d, allowanceCheck := %s,\n"+
		"    allowanceSubDecrease := %s, transferFromArgs := %s, sharesPositive := %s,\n    prog := [\n      %s],\n    wrappers := %s,\n    runTransfer := [%s],\n    runFrom := [%s] }\n\n",
		b(selfGuard), b(refuse), leanStr(sharesCmp), b(withdrawFrom), b(lookupFirst), b(withdrawTo), b(incPeriod), b(decRef),
		b(delInfo), b(incRef), offset, b(allowCheck), b(allowSub), b(runArgs), b(sharesPositive), strings.Join(prog, ",\n      "), c11WrapLean(c.c11Wrappers()),
		strings.Join(c.c11RunProg(runTo), ", "), strings.Join(c.c11RunProg(runFrom), ", "))
	var ls []string
	for _, s := range steps {
		ls = append(ls, leanStr(s))
	}
	sb.WriteString("/-- keeper-level calls of handlerTransferShares in source order -/\ndef steps : List String :=\n  " + leanList(ls) + "\n\nend FxVerif.Gen.C11\n")
	c.write("C11.lean", sb.String())

	c.facts["C11.cfg"] = map[string]any{
		"selfGuard": selfGuard, "refuseRecvRedel": refuse, "sharesCmp": sharesCmp, "withdrawFrom": withdrawFrom,
		"toLookupBeforeFromWrite": lookupFirst, "withdrawTo": withdrawTo, "incPeriodForNewTo": incPeriod,
		"decRefOnRemoval": decRef, "delInfoOnRemoval": delInfo, "incRefForNewTo": incRef, "newToPeriodOffset": offset,
		"allowanceCheck": allowCheck, "allowanceSubDecrease": allowSub, "transferFromArgs": runArgs, "sharesPositive": sharesPositive,
	}
	c.facts["C11.steps"] = steps
	c.facts["C11.prog"] = prog
	c.facts["C11.runTransfer"] = c.c11RunProg(runTo)
	c.facts["C11.runFrom"] = c.c11RunProg(runFrom)
	c.facts["C11.handlerFound"] = h != nil
}
