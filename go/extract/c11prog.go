package main

// C11 (second translator): the state-changing part of handlerTransferShares — everything from the first keeper write
// to the final return — is translated statement by statement into a small instruction list (`Gen.C11.prog`) that the
// Lean model *interprets* (Model/C11.lean, `interp`).  Local variables of the Go function (fromDel, toDel, toDelFound,
// the two starting infos, validatorCurrentRewards, previousPeriod, stakeToken) are locals of the interpreter, so stale
// copies, the order of reads and writes, the arithmetic of every assignment (`fromDel.Shares.Sub(shares)`,
// `validator.TokensFromSharesTruncated(…)`, `Period - 1`) and the branch conditions are those of the source as it is
// now.  The theorems are proved for the reference program (`Model.C11.refProg`) and `good cfg` demands
// `cfg.prog = refProg`; any edit of the body therefore changes a definition the proofs depend on, while the driver
// keeps following the edited code, so the correspondence and the monitors can exhibit a concrete input.
//
// Statements with no effect on the staking / distribution stores (event packing and emission, reads of the withdraw
// address and of balances, the `if err != nil { return … }` checks, the computation of the returned values) are
// skipped; a keeper call the translator does not know is emitted as `.unknown "<source>"`.

import (
	"go/ast"
	"go/token"
	"regexp"
	"strconv"
	"strings"
)

// c11Party maps an expression mentioning one of the two parties to its Lean constructor.
func c11Party(s string) string {
	s = c11Norm(s)
	switch {
	case strings.HasPrefix(s, "from"), strings.Contains(s, "from.Bytes()"):
		return ".from_"
	case strings.HasPrefix(s, "to"), strings.Contains(s, "to.Bytes()"):
		return ".to"
	}
	return ""
}

// c11SE translates a Go expression over the handler's locals into the Lean term of type `SE`.
func (c *ctxT) c11SE(e ast.Expr) string {
	unknown := func() string { return "(.unknown " + leanStr(c11Norm(c.src(e))) + ")" }
	switch x := e.(type) {
	case *ast.ParenExpr:
		return c.c11SE(x.X)
	case *ast.Ident:
		switch x.Name {
		case "shares":
			return ".x"
		case "stakeToken":
			return ".stakeTok"
		}
		return unknown()
	case *ast.SelectorExpr:
		base := c11Norm(c.src(x.X))
		switch {
		case x.Sel.Name == "Shares" && (base == "fromDel" || base == "toDel"):
			return "(.shares " + c11Party(base) + ")"
		case x.Sel.Name == "Stake" && (base == "fromDelStartingInfo" || base == "toDelStartingInfo"):
			return "(.stake " + c11Party(base) + ")"
		}
		return unknown()
	case *ast.CallExpr:
		se, ok := x.Fun.(*ast.SelectorExpr)
		if !ok {
			return unknown()
		}
		recv := c11Norm(c.src(se.X))
		switch {
		case se.Sel.Name == "GetShares" && len(x.Args) == 0 && (recv == "fromDel" || recv == "toDel"):
			return "(.shares " + c11Party(recv) + ")"
		case (se.Sel.Name == "Sub" || se.Sel.Name == "Add") && len(x.Args) == 1:
			op := ".sub"
			if se.Sel.Name == "Add" {
				op = ".add"
			}
			return "(" + op + " " + c.c11SE(se.X) + " " + c.c11SE(x.Args[0]) + ")"
		case se.Sel.Name == "TokensFromSharesTruncated" && recv == "validator" && len(x.Args) == 1:
			return "(.tfsTrunc " + c.c11SE(x.Args[0]) + ")"
		case se.Sel.Name == "TokensFromShares" && recv == "validator" && len(x.Args) == 1:
			return "(.tfs " + c.c11SE(x.Args[0]) + ")"
		case se.Sel.Name == "TruncateInt" && len(x.Args) == 0:
			return "(.truncInt " + c.c11SE(se.X) + ")"
		case se.Sel.Name == "TruncateDec" && len(x.Args) == 0:
			return "(.truncInt " + c.c11SE(se.X) + ")"
		case se.Sel.Name == "LegacyZeroDec" && len(x.Args) == 0:
			return ".zero"
		}
		return unknown()
	}
	return unknown()
}

// c11PE translates a period expression (argument of the two reference-count helpers / of NewDelegatorStartingInfo).
func (c *ctxT) c11PE(e ast.Expr) string {
	s := c11Norm(c.src(e))
	switch s {
	case "fromDelStartingInfo.PreviousPeriod":
		return "(.infoPeriod .from_)"
	case "toDelStartingInfo.PreviousPeriod":
		return "(.infoPeriod .to)"
	case "previousPeriod":
		return ".prev"
	}
	const pfx = "validatorCurrentRewards.Period"
	if s == pfx {
		return "(.curMinus 0)"
	}
	if strings.HasPrefix(s, pfx+" - ") {
		if n, err := strconv.Atoi(strings.TrimPrefix(s, pfx+" - ")); err == nil {
			return "(.curMinus " + strconv.Itoa(n) + ")"
		}
	}
	return "(.unknown " + leanStr(s) + ")"
}

// c11OnlyReturnsErr: the block is nothing but error propagation (`return nil, nil, err` and nested error checks).
func c11OnlyReturnsErr(b *ast.BlockStmt) bool {
	for _, st := range b.List {
		switch x := st.(type) {
		case *ast.ReturnStmt:
		case *ast.IfStmt:
			if x.Init != nil || !c11OnlyReturnsErr(x.Body) || x.Else != nil {
				return false
			}
		default:
			return false
		}
	}
	return true
}

type c11Tr struct {
	c           *ctxT
	afterLookup bool              // `err` currently holds the result of `<p>Del, err := …GetDelegation(…)`
	subst       map[string]string // while a helper method is inlined: parameter name -> argument source
	depth       int
}

// nsrc: normalised source of a node with the parameters of the helper being inlined replaced by the arguments.
func (t *c11Tr) nsrc(n ast.Node) string {
	s := c11Norm(t.c.src(n))
	for k, v := range t.subst {
		s = regexp.MustCompile(`\b`+regexp.QuoteMeta(k)+`\b`).ReplaceAllString(s, v)
	}
	return s
}

// c11StableCond: conditions whose value cannot change while the guarded statements run (the validator object is a
// local copy read once at the top of the handler)
func c11StableCond(cond string) (pos, neg string) {
	switch cond {
	case "validator.IsBonded()":
		return ".isBonded", ".notBonded"
	case "!validator.IsBonded()":
		return ".notBonded", ".isBonded"
	}
	return "", ""
}

// calls translates a call; a call of another method of the precompile (`m.helper(…)`) is inlined: its body is
// translated with the parameters replaced by the arguments.
func (t *c11Tr) calls(ce *ast.CallExpr, lhs []ast.Expr) []string {
	if se, ok := ce.Fun.(*ast.SelectorExpr); ok && t.depth < 2 {
		if id, ok := se.X.(*ast.Ident); ok && id.Name == "m" && se.Sel.Name != "handlerTransferShares" {
			if fd := t.c.findFunc(c11Dir, "*", se.Sel.Name); fd != nil && fd.Body != nil && fd.Recv != nil && fd.Type.Params != nil {
				var params []string
				for _, f := range fd.Type.Params.List {
					for _, n := range f.Names {
						params = append(params, n.Name)
					}
				}
				if len(params) == len(ce.Args) {
					inner := &c11Tr{c: t.c, subst: map[string]string{}, depth: t.depth + 1}
					for i, p := range params {
						inner.subst[p] = t.nsrc(ce.Args[i])
					}
					return inner.block(fd.Body)
				}
			}
		}
	}
	if s := t.call(ce, lhs); s != "" {
		return []string{s}
	}
	return nil
}

// c11AssignsErr: the statement assigns the variable err.
func c11AssignsErr(st ast.Stmt) bool {
	as, ok := st.(*ast.AssignStmt)
	if !ok {
		return false
	}
	for _, l := range as.Lhs {
		if id, ok := l.(*ast.Ident); ok && id.Name == "err" {
			return true
		}
	}
	return false
}

// call translates one keeper-level call into a simple instruction ("" = no effect on the modelled stores).
func (t *c11Tr) call(ce *ast.CallExpr, lhs []ast.Expr) string {
	c := t.c
	nm := c11CallName(ce)
	arg := func(i int) string {
		if i < len(ce.Args) {
			return t.nsrc((ce.Args[i]))
		}
		return ""
	}
	last := func() string { return arg(len(ce.Args) - 1) }
	unknown := func() string { return "(.unknown " + leanStr(t.nsrc((ce))) + ")" }
	switch nm {
	case "WithdrawDelegatorReward":
		s := t.nsrc((ce))
		if strings.Contains(s, "DelegatorAddress: sdk.AccAddress(from.Bytes()).String()") && strings.Contains(s, "ValidatorAddress: valAddr.String()") {
			return "(.withdraw .from_)"
		}
		if strings.Contains(s, "DelegatorAddress: sdk.AccAddress(to.Bytes()).String()") && strings.Contains(s, "ValidatorAddress: valAddr.String()") {
			return "(.withdraw .to)"
		}
		return unknown()
	case "GetDelegation":
		if len(lhs) >= 1 && arg(2) == "valAddr" {
			switch t.nsrc((lhs[0])) + "|" + arg(1) {
			case "toDel|to.Bytes()":
				return "(.getDel .to)"
			case "fromDel|from.Bytes()":
				return "(.getDel .from_)"
			}
		}
		return unknown()
	case "IncrementValidatorPeriod":
		if arg(1) == "validator" {
			return ".incPeriod"
		}
		return unknown()
	case "GetDelegatorStartingInfo":
		if len(lhs) >= 1 && arg(1) == "valAddr" {
			switch t.nsrc((lhs[0])) + "|" + arg(2) {
			case "fromDelStartingInfo|from.Bytes()":
				return "(.readInfo .from_)"
			case "toDelStartingInfo|to.Bytes()":
				return "(.readInfo .to)"
			}
		}
		return unknown()
	case "GetValidatorCurrentRewards":
		if len(lhs) >= 1 && t.nsrc((lhs[0])) == "validatorCurrentRewards" && arg(1) == "valAddr" {
			return ".readCur"
		}
		return unknown()
	case "RemoveDelegation":
		if p := c11Party(last()); p != "" && (last() == "fromDel" || last() == "toDel") {
			return "(.removeDel " + p + ")"
		}
		return unknown()
	case "SetDelegation":
		if p := c11Party(last()); p != "" && (last() == "fromDel" || last() == "toDel") {
			return "(.setDel " + p + ")"
		}
		return unknown()
	case "decrementReferenceCount":
		if arg(2) == "valAddr" && len(ce.Args) == 4 {
			return "(.decRef " + c.c11PE(ce.Args[3]) + ")"
		}
		return unknown()
	case "incrementReferenceCount":
		if arg(2) == "valAddr" && len(ce.Args) == 4 {
			return "(.incRef " + c.c11PE(ce.Args[3]) + ")"
		}
		return unknown()
	case "DeleteDelegatorStartingInfo":
		if p := c11Party(arg(2)); p != "" && arg(1) == "valAddr" && (arg(2) == "from.Bytes()" || arg(2) == "to.Bytes()") {
			return "(.deleteInfo " + p + ")"
		}
		return unknown()
	case "SetDelegatorStartingInfo":
		if len(ce.Args) == 4 && arg(1) == "valAddr" && (arg(2) == "from.Bytes()" || arg(2) == "to.Bytes()") &&
			(arg(3) == "fromDelStartingInfo" || arg(3) == "toDelStartingInfo") {
			return "(.writeInfo " + c11Party(arg(2)) + " " + c11Party(arg(3)) + ")"
		}
		return unknown()
	case "NewDelegation":
		if len(lhs) == 1 && len(ce.Args) == 3 {
			if p := c11Party(t.nsrc((lhs[0]))); p != "" && strings.HasSuffix(t.nsrc((lhs[0])), "Del") {
				return "(.setShares " + p + " " + c.c11SE(ce.Args[2]) + ")"
			}
		}
		return unknown()
	case "NewDelegatorStartingInfo":
		if len(lhs) == 1 && len(ce.Args) == 3 {
			l := t.nsrc((lhs[0]))
			if l == "fromDelStartingInfo" || l == "toDelStartingInfo" {
				hb := arg(2) == "uint64(ctx.BlockHeight())"
				return "(.newInfo " + c11Party(l) + " " + c.c11PE(ce.Args[0]) + " " + c.c11SE(ce.Args[1]) + " " + strconv.FormatBool(hb) + ")"
			}
		}
		return unknown()
	}
	// reads and pure computations that do not touch the modelled stores
	switch nm {
	case "GetDelegatorWithdrawAddr", "GetBalance", "NewWithdrawMethod", "NewWithdrawEvent", "NewTransferShareEvent", "EmitEvent",
		"Sub", "Add", "TruncateInt", "BigInt", "TokensFromShares", "TokensFromSharesTruncated", "AmountOf", "String", "Is",
		"LegacyZeroDec", "NewInt", "Bytes", "AccAddress", "GetShares", "BlockHeight", "uint64", "LegacyNewDecFromBigInt", "Errorf", "New":
		return ""
	}
	// anything reached through a keeper / message server is state-relevant
	s := t.nsrc((ce))
	if strings.Contains(s, "Keeper.") || strings.Contains(s, "MsgServer.") {
		return unknown()
	}
	return ""
}

// simple translates a non-branching statement; ok=false when the statement is a branch.
func (t *c11Tr) simple(st ast.Stmt) (out []string, isBranch bool) {
	c := t.c
	switch x := st.(type) {
	case *ast.ExprStmt:
		if ce, ok := x.X.(*ast.CallExpr); ok {
			out = append(out, t.calls(ce, nil)...)
		}
	case *ast.AssignStmt:
		if len(x.Rhs) == 1 {
			l0 := t.nsrc((x.Lhs[0]))
			if ce, ok := x.Rhs[0].(*ast.CallExpr); ok {
				nm := c11CallName(ce)
				// keeper calls, constructors and helper methods
				_ = nm
				if ss := t.calls(ce, x.Lhs); len(ss) > 0 {
					return ss, false
				}
			}
			switch {
			case l0 == "fromDel.Shares" || l0 == "toDel.Shares":
				out = append(out, "(.setShares "+c11Party(l0)+" "+c.c11SE(x.Rhs[0])+")")
			case l0 == "fromDelStartingInfo.Stake" || l0 == "toDelStartingInfo.Stake":
				out = append(out, "(.setStake "+c11Party(l0)+" "+c.c11SE(x.Rhs[0])+")")
			case l0 == "fromDelStartingInfo.PreviousPeriod" || l0 == "toDelStartingInfo.PreviousPeriod":
				out = append(out, "(.setInfoPeriod "+c11Party(l0)+" "+c.c11PE(x.Rhs[0])+")")
			case l0 == "toDelFound":
				if id, ok := x.Rhs[0].(*ast.Ident); ok && (id.Name == "true" || id.Name == "false") {
					out = append(out, "(.setFlag "+id.Name+")")
				} else {
					out = append(out, "(.unknown "+leanStr(t.nsrc((st)))+")")
				}
			case l0 == "previousPeriod":
				out = append(out, "(.setPrev "+c.c11PE(x.Rhs[0])+")")
			case l0 == "stakeToken":
				out = append(out, "(.setStakeTok "+c.c11SE(x.Rhs[0])+")")
			case l0 == "fromDel" || l0 == "toDel" || l0 == "fromDelStartingInfo" || l0 == "toDelStartingInfo" || l0 == "validator" || l0 == "shares":
				out = append(out, "(.unknown "+leanStr(t.nsrc((st)))+")")
			}
		}
	case *ast.IfStmt:
		return nil, true
	case *ast.DeclStmt, *ast.ReturnStmt, *ast.EmptyStmt:
	default:
		out = append(out, "(.unknown "+leanStr(t.nsrc((st)))+")")
	}
	return out, false
}

// block translates a branch body; nested branches other than error propagation become `.unknown`.
func (t *c11Tr) block(b *ast.BlockStmt) []string {
	var out []string
	if b == nil {
		return out
	}
	for _, st := range b.List {
		ss, br := t.simple(st)
		out = append(out, ss...)
		if br {
			is := st.(*ast.IfStmt)
			if is.Init != nil {
				ss, _ := t.simple(is.Init)
				out = append(out, ss...)
			}
			if c11OnlyReturnsErr(is.Body) && is.Else == nil {
				continue
			}
			if pos, neg := c11StableCond(t.nsrc(is.Cond)); pos != "" && is.Init == nil {
				for _, x := range t.block(is.Body) {
					out = append(out, "(.guarded "+pos+" "+x+")")
				}
				for _, x := range t.block(c11ElseBlock(is)) {
					out = append(out, "(.guarded "+neg+" "+x+")")
				}
				continue
			}
			out = append(out, "(.unknown "+leanStr("nested: if "+t.nsrc((is.Cond)))+")")
		}
	}
	return out
}

func c11ElseBlock(is *ast.IfStmt) *ast.BlockStmt {
	if b, ok := is.Else.(*ast.BlockStmt); ok {
		return b
	}
	return nil
}

// c11ProgStart: the instruction list starts right after the last guard (`if has`, the shares comparison, the
// self-transfer guard) standing before the first state-changing call, or at the statement holding that call when no
// guard precedes it.
func c11ProgStart(c *ctxT, body *ast.BlockStmt) token.Pos {
	firstWrite := token.Pos(1 << 40)
	for _, w := range c11Calls(body, "WithdrawDelegatorReward", "IncrementValidatorPeriod", "SetDelegation", "RemoveDelegation",
		"SetDelegatorStartingInfo", "DeleteDelegatorStartingInfo", "decrementReferenceCount", "incrementReferenceCount") {
		if w.Pos() < firstWrite {
			firstWrite = w.Pos()
		}
	}
	start := token.Pos(1 << 40)
	var lastGuardEnd token.Pos
	for _, st := range body.List {
		if st.Pos() <= firstWrite && firstWrite < st.End() {
			start = st.Pos()
		}
		if is, ok := st.(*ast.IfStmt); ok && is.End() <= firstWrite {
			cond := c11Norm(c.src(is.Cond))
			if cond == "has" || cond == "from == to" || cond == "to == from" || strings.HasPrefix(cond, "fromDel.GetShares().") {
				lastGuardEnd = is.End()
			}
		}
	}
	if lastGuardEnd != 0 {
		return lastGuardEnd
	}
	return start
}

// c11Prog translates the statements of the handler body that follow the guards.
func (c *ctxT) c11Prog(body *ast.BlockStmt, start token.Pos) []string {
	t := &c11Tr{c: c}
	var prog []string
	simpleStmt := func(s string) { prog = append(prog, "(.s "+s+")") }
	for _, st := range body.List {
		if st.Pos() < start {
			continue
		}
		ss, br := t.simple(st)
		for _, s := range ss {
			simpleStmt(s)
		}
		if c11AssignsErr(st) {
			t.afterLookup = len(ss) == 1 && strings.HasPrefix(ss[0], "(.getDel")
		}
		if !br {
			continue
		}
		is := st.(*ast.IfStmt)
		if is.Init != nil {
			ss, _ := t.simple(is.Init)
			for _, s := range ss {
				simpleStmt(s)
			}
			if c11AssignsErr(is.Init) {
				t.afterLookup = false
			}
		}
		if c11OnlyReturnsErr(is.Body) && is.Else == nil && !t.afterLookup {
			continue
		}
		cond := c11Norm(c.src(is.Cond))
		var cnd string
		switch {
		case cond == "err != nil" && t.afterLookup:
			cnd = ".lookupErr"
		case cond == "toDelFound":
			cnd = ".flag"
		case cond == "!toDelFound":
			cnd = ".notFlag"
		case cond == "validator.IsBonded()":
			cnd = ".isBonded"
		case cond == "!validator.IsBonded()":
			cnd = ".notBonded"
		default:
			if ce, ok := is.Cond.(*ast.CallExpr); ok {
				if se, ok := ce.Fun.(*ast.SelectorExpr); ok && se.Sel.Name == "IsZero" && len(ce.Args) == 0 {
					cnd = "(.isZero " + c.c11SE(se.X) + ")"
				}
			}
			if cnd == "" {
				cnd = "(.unknown " + leanStr(cond) + ")"
			}
		}
		t.afterLookup = false
		prog = append(prog, "(.ite "+cnd+" "+leanList(t.block(is.Body))+" "+leanList(t.block(c11ElseBlock(is)))+")")
	}
	return prog
}

const c11ProgTypes = `inductive Party
  | from_ | to
deriving Repr, DecidableEq

/-- expressions over the locals of handlerTransferShares (LegacyDec valued) -/
inductive SE
  | x                       -- shares (LegacyNewDecFromBigInt(sharesInt))
  | zero                    -- LegacyZeroDec()
  | stakeTok                -- local stakeToken
  | shares (p : Party)      -- fromDel.GetShares() / toDel.GetShares() (the local copy, as last assigned)
  | stake (p : Party)       -- <p>DelStartingInfo.Stake (the local copy)
  | add (a b : SE)
  | sub (a b : SE)
  | tfs (a : SE)            -- validator.TokensFromShares(a), validator = the object read at the start
  | tfsTrunc (a : SE)       -- validator.TokensFromSharesTruncated(a)
  | truncInt (a : SE)       -- a.TruncateInt() / TruncateDec()
  | unknown (src : String)
deriving Repr, DecidableEq

/-- period expressions -/
inductive PE
  | infoPeriod (p : Party)  -- <p>DelStartingInfo.PreviousPeriod (the local copy)
  | prev                    -- local previousPeriod
  | curMinus (k : Nat)      -- validatorCurrentRewards.Period - k (the local copy)
  | unknown (src : String)
deriving Repr, DecidableEq

inductive Cond
  | lookupErr               -- err != nil right after a GetDelegation
  | flag | notFlag          -- toDelFound / !toDelFound
  | isBonded | notBonded    -- validator.IsBonded() of the validator object read at the start / its negation
  | isZero (e : SE)         -- e.IsZero()
  | unknown (src : String)
deriving Repr, DecidableEq

/-- non-branching statements, one per keeper call / assignment to a tracked local -/
inductive Simple
  | withdraw (p : Party)              -- distrMsgServer.WithdrawDelegatorReward for p at valAddr
  | getDel (p : Party)                -- <p>Del, err := stakingKeeper.GetDelegation(ctx, p, valAddr)
  | incPeriod                         -- distrKeeper.IncrementValidatorPeriod(ctx, validator)
  | readInfo (p : Party)              -- <p>DelStartingInfo, err := distrKeeper.GetDelegatorStartingInfo(ctx, valAddr, p)
  | readCur                           -- validatorCurrentRewards, err := distrKeeper.GetValidatorCurrentRewards(ctx, valAddr)
  | setShares (p : Party) (e : SE)    -- <p>Del.Shares = e   (also <p>Del = NewDelegation(…, e))
  | setStake (p : Party) (e : SE)     -- <p>DelStartingInfo.Stake = e
  | setInfoPeriod (p : Party) (e : PE)
  | setFlag (b : Bool)                -- toDelFound = b
  | setPrev (e : PE)                  -- previousPeriod := e
  | setStakeTok (e : SE)              -- stakeToken := e
  | newInfo (p : Party) (period : PE) (stake : SE) (heightIsBlock : Bool)  -- <p>DelStartingInfo := NewDelegatorStartingInfo(…)
  | removeDel (p : Party)             -- stakingKeeper.RemoveDelegation(ctx, <p>Del)
  | setDel (p : Party)                -- stakingKeeper.SetDelegation(ctx, <p>Del)
  | decRef (e : PE)                   -- decrementReferenceCount(…, valAddr, e)
  | incRef (e : PE)                   -- incrementReferenceCount(…, valAddr, e)
  | deleteInfo (p : Party)            -- distrKeeper.DeleteDelegatorStartingInfo(ctx, valAddr, p)
  | writeInfo (p src : Party)         -- distrKeeper.SetDelegatorStartingInfo(ctx, valAddr, p, <src>DelStartingInfo)
  | guarded (c : Cond) (x : Simple)   -- x inside a nested if c { … } (c is a condition that cannot change meanwhile)
  | unknown (src : String)
deriving Repr, DecidableEq

inductive Stmt
  | s (x : Simple)
  | ite (c : Cond) (thenB elseB : List Simple)
deriving Repr, DecidableEq

`
