package main

import (
	"go/ast"
	"go/token"
	"strings"
)

// C04 round 5: how fxcore decides that a movement of an EXTERNALLY-OWNED ERC-20 token (a contract it does not control)
// took place.  Two wrappers reach such a token:
//
//	x/evm/keeper  Keeper.ERC20Transfer       (ConvertERC20NativeToken: holder -> erc20 module, ConvertCoinNativeERC20: module -> receiver;
//	                                          MsgConvertERC20, MsgConvertCoin, the bridgeCall precompile's EvmToBaseCoin, every refund / deposit to ERC-20)
//	contract      ERC20Call.TransferFrom     (precompile handlerERC20Token: crossChain, increaseBridgeFee)
//
// Each is translated into a Lean boolean function of four atoms (same vocabulary as Gen/C08c):
//
//	vmOk       the EVM call neither failed nor reverted
//	retEmpty   the call returned no data
//	unpackErr  the return data does not decode as bool
//	value      the decoded bool (false when decoding failed)
//
// and the sites that move an externally-owned token are listed with the wrapper they call.  Model/C04Tok.lean evaluates the
// functions against tokens of every signalling style; Props/C04.lean proves "accepted => moved" from them.
func init() { register(extractC04Tok) }

type c04TokCtx struct {
	c      *ctxT
	errSrc string // "vm" | "unpack"
	valVar string // the variable holding the decoded bool
	ok     bool
}

func (x *c04TokCtx) cond(e ast.Expr) string {
	switch v := e.(type) {
	case *ast.ParenExpr:
		return "(" + x.cond(v.X) + ")"
	case *ast.UnaryExpr:
		if v.Op == token.NOT {
			return "(!" + x.cond(v.X) + ")"
		}
	case *ast.Ident:
		if x.valVar != "" && v.Name == x.valVar {
			return "value"
		}
	case *ast.BinaryExpr:
		switch v.Op {
		case token.LAND:
			return "(" + x.cond(v.X) + " && " + x.cond(v.Y) + ")"
		case token.LOR:
			return "(" + x.cond(v.X) + " || " + x.cond(v.Y) + ")"
		case token.NEQ, token.EQL:
			l, r := x.c.src(v.X), x.c.src(v.Y)
			if l == "err" && r == "nil" {
				atom := "(!vmOk)"
				if x.errSrc == "unpack" {
					atom = "unpackErr"
				}
				if v.Op == token.NEQ {
					return atom
				}
				return "(!" + atom + ")"
			}
			if l == "len(ret)" && r == "0" {
				if v.Op == token.NEQ {
					return "(!retEmpty)"
				}
				return "retEmpty"
			}
		}
	}
	x.ok = false
	return "false /- untranslated: " + strings.ReplaceAll(x.c.src(e), "-/", "- /") + " -/"
}

// accepts: the statements after the packing of the call data, as nested `if c then <returns nil?> else …`
func (x *c04TokCtx) accepts(stmts []ast.Stmt) string {
	expr := ""
	seenCall := false
	for _, st := range stmts {
		switch s := st.(type) {
		case *ast.AssignStmt:
			src := x.c.src(s)
			switch {
			case strings.Contains(src, ".call("):
				x.errSrc = "vm"
				seenCall = true
			case strings.Contains(src, "UnpackTransferFrom("):
				x.errSrc = "unpack"
				if id, ok := s.Lhs[0].(*ast.Ident); ok {
					x.valVar = id.Name
				}
			}
		case *ast.IfStmt:
			if !seenCall { // the packing error check before the call: not a statement about the token's answer
				continue
			}
			if len(s.Body.List) == 0 {
				continue
			}
			rs, ok := s.Body.List[len(s.Body.List)-1].(*ast.ReturnStmt)
			if !ok || len(rs.Results) != 1 {
				x.ok = false
				continue
			}
			res := "false"
			if x.c.src(rs.Results[0]) == "nil" {
				res = "true"
			}
			expr += "if " + x.cond(s.Cond) + " then " + res + " else "
		case *ast.ReturnStmt:
			switch {
			case len(s.Results) == 1 && x.c.src(s.Results[0]) == "nil":
				return expr + "true"
			case len(s.Results) == 1 && x.c.src(s.Results[0]) == "err":
				if x.errSrc == "unpack" {
					return expr + "(!unpackErr)"
				}
				return expr + "vmOk"
			}
			x.ok = false
			return expr + "false"
		}
	}
	x.ok = false
	return expr + "false"
}

func extractC04Tok(c *ctxT) {
	var sb strings.Builder
	sb.WriteString("namespace FxVerif.Gen.C04Tok\n\n")
	facts := map[string]any{}
	b := func(v bool) string {
		if v {
			return "true"
		}
		return "false"
	}

	// the evm keeper's wrapper (same translation as Gen/C08c, emitted again so that C04 stands on its own Gen file)
	{
		x := &c08cCtx{c: c, ok: true}
		expr, where := "false", "(function not found)"
		if fd := c.findFunc("x/evm/keeper", "Keeper", "ERC20Transfer"); fd != nil && fd.Body != nil {
			expr, _ = x.accepts(fd.Body.List)
			where = c.pos(fd)
		} else {
			x.ok = false
		}
		sb.WriteString("/-- `Keeper.ERC20Transfer` " + where + ": the keeper treats the token's `transfer` as done iff … -/\n")
		sb.WriteString("def keeperTransfer_accepts (vmOk retEmpty unpackErr value : Bool) : Bool :=\n  " + expr + "\n")
		sb.WriteString("def keeperTransfer_translated : Bool := " + b(x.ok) + "\n\n")
		facts["ERC20Transfer"] = map[string]any{"accepts": expr, "translated": x.ok}
	}
	// the in-EVM wrapper used by the precompile
	{
		x := &c04TokCtx{c: c, ok: true}
		expr, where := "false", "(function not found)"
		if fd := c.findFunc("contract", "ERC20Call", "TransferFrom"); fd != nil && fd.Body != nil {
			expr = x.accepts(fd.Body.List)
			where = c.pos(fd)
		} else {
			x.ok = false
		}
		sb.WriteString("/-- `ERC20Call.TransferFrom` " + where + ": the precompile treats the token's `transferFrom` as done iff … -/\n")
		sb.WriteString("def callTransferFrom_accepts (vmOk retEmpty unpackErr value : Bool) : Bool :=\n  " + expr + "\n")
		sb.WriteString("def callTransferFrom_translated : Bool := " + b(x.ok) + "\n\n")
		facts["TransferFrom"] = map[string]any{"accepts": expr, "translated": x.ok}
	}
	// the sites that move a token of an externally-owned pair, with the wrapper(s) they call
	var sites []string
	for _, s := range []struct{ rel, recv, fn string }{
		{"x/erc20/keeper", "Keeper", "ConvertERC20NativeToken"},
		{"x/erc20/keeper", "Keeper", "ConvertCoinNativeERC20"},
		{"x/crosschain/precompile", "Keeper", "handlerERC20Token"},
	} {
		var via []string
		if fd := c.findFunc(s.rel, s.recv, s.fn); fd != nil && fd.Body != nil {
			ast.Inspect(fd.Body, func(n ast.Node) bool {
				call, ok := n.(*ast.CallExpr)
				if !ok {
					return true
				}
				sel, ok := call.Fun.(*ast.SelectorExpr)
				if !ok {
					return true
				}
				switch sel.Sel.Name {
				case "ERC20Transfer", "TransferFrom", "Transfer", "ApplyContract", "CallEVM", "CallEVMWithoutGas", "Call":
					via = append(via, leanStr(sel.Sel.Name))
				}
				return true
			})
		}
		sites = append(sites, "("+leanStr(s.fn)+", "+leanList(via)+")")
	}
	sb.WriteString("/-- the functions that move a token of an externally-owned pair, each with the token-calling functions it uses, in source order -/\n")
	sb.WriteString("def tokenSites : List (String × List String) := " + leanList(sites) + "\n\n")
	facts["sites"] = sites
	sb.WriteString("end FxVerif.Gen.C04Tok\n")
	c.write("C04Tok.lean", sb.String())
	c.facts["C04Tok"] = facts
}
