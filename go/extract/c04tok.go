package main

import (
	"go/ast"
	"go/token"
	"strings"
)

// C04 round 5: how fxcore decides that a movement of an EXTERNALLY-OWNED ERC-20 token (a contract it does not control)
// took place.  Two wrappers reach such a token:
//
//	x/evm/keeper  Keeper.ERC20Transfer       (ConvertERC20NativeToken: holder -> erc20 module, ConvertCoinNativeERC20: module -> receiver;
//	                                          MsgConvertERC20, MsgConvertCoin, the bridgeCall precompile's EvmToBaseCoin, every refund / deposit to ERC-20)
//	contract      ERC20Call.TransferFrom     (precompile handlerERC20Token: crossChain, increaseBridgeFee)
//
// Each is translated into a Lean boolean function of four atoms (same vocabulary as Gen/C08c):
//
//	vmOk       the EVM call neither failed nor reverted
//	retEmpty   the call returned no data
//	unpackErr  the return data does not decode as bool
//	value      the decoded bool (false when decoding failed)
//
// and the sites that move an externally-owned token are listed with the wrapper they call.  Model/C04Tok.lean evaluates the
// functions against tokens of every signalling style; Props/C04.lean proves "accepted => moved" from them.
func init() { register(extractC04Tok) }

type c04TokCtx struct {
	c      *ctxT
	errSrc string // "vm" | "unpack"
	valVar string // the variable holding the decoded bool
	ok     bool
}

func (x *c04TokCtx) cond(e ast.Expr) string {
	switch v := e.(type) {
	case *ast.ParenExpr:
		return "(" + x.cond(v.X) + ")"
	case *ast.UnaryExpr:
		if v.Op == token.NOT {
			return "(!" + x.cond(v.X) + ")"
		}
	case *ast.Ident:
		if x.valVar != "" && v.Name == x.valVar {
			return "value"
		}
	case *ast.BinaryExpr:
		switch v.Op {
		case token.LAND:
			return "(" + x.cond(v.X) + " && " + x.cond(v.Y) + ")"
		case token.LOR:
			return "(" + x.cond(v.X) + " || " + x.cond(v.Y) + ")"
		case token.NEQ, token.EQL:
			l, r := x.c.src(v.X), x.c.src(v.Y)
			if l == "err" && r == "nil" {
				atom := "(!vmOk)"
				if x.errSrc == "unpack" {
					atom = "unpackErr"
				}
				if v.Op == token.NEQ {
					return atom
				}
				return "(!" + atom + ")"
			}
			if l == "len(ret)" && r == "0" {
				if v.Op == token.NEQ {
					return "(!retEmpty)"
				}
				return "retEmpty"
			}
		}
	}
	x.ok = false
	return "false /- untranslated: " + strings.ReplaceAll(x.c.src(e), "-/", "- /") + " -/"
}

// accepts: the statements after the packing of the call data, as nested `if c then <returns nil?> else …`
func (x *c04TokCtx) accepts(stmts []ast.Stmt) string {
	expr := ""
	seenCall := false
	for _, st := range stmts {
		switch s := st.(type) {
		case *ast.AssignStmt:
			src := x.c.src(s)
			switch {
			case strings.Contains(src, ".call("):
				x.errSrc = "vm"
				seenCall = true
			case strings.Contains(src, "UnpackTransferFrom("):
				x.errSrc = "unpack"
				if id, ok := s.Lhs[0].(*ast.Ident); ok {
					x.valVar = id.Name
				}
			}
		case *ast.IfStmt:
			if !seenCall { // the packing error check before the call: not a statement about the token's answer
				continue
			}
			if s.Init != nil && strings.Contains(x.c.src(s.Init), "UnpackTransferFrom(") {
				x.errSrc = "unpack"
			}
			if len(s.Body.List) == 0 {
				continue
			}
			rs, ok := s.Body.List[len(s.Body.List)-1].(*ast.ReturnStmt)
			if !ok || len(rs.Results) != 1 {
				x.ok = false
				continue
			}
			res := "false"
			if x.c.src(rs.Results[0]) == "nil" {
				res = "true"
			}
			expr += "if " + x.cond(s.Cond) + " then " + res + " else "
		case *ast.ReturnStmt:
			switch {
			case len(s.Results) == 1 && x.c.src(s.Results[0]) == "nil":
				return expr + "true"
			case len(s.Results) == 1 && x.c.src(s.Results[0]) == "err":
				if x.errSrc == "unpack" {
					return expr + "(!unpackErr)"
				}
				return expr + "vmOk"
			}
			x.ok = false
			return expr + "false"
		}
	}
	x.ok = false
	return expr + "false"
}

func extractC04Tok(c *ctxT) {
	var sb strings.Builder
	sb.WriteString("namespace FxVerif.Gen.C04Tok\n\n")
	facts := map[string]any{}
	b := func(v bool) string {
		if v {
			return "true"
		}
		return "false"
	}

	// the evm keeper's wrapper (same translation as Gen/C08c, emitted again so that C04 stands on its own Gen file)
	{
		x := &c08cCtx{c: c, ok: true}
		expr, where := "false", "(function not found)"
		if fd := c.findFunc("x/evm/keeper", "Keeper", "ERC20Transfer"); fd != nil && fd.Body != nil {
			expr, _ = x.accepts(fd.Body.List)
			where = c.pos(fd)
		} else {
			x.ok = false
		}
		sb.WriteString("/-- `Keeper.ERC20Transfer` " + where + ": the keeper treats the token's `transfer` as done iff … -/\n")
		sb.WriteString("def keeperTransfer_accepts (vmOk retEmpty unpackErr value : Bool) : Bool :=\n  " + expr + "\n")
		sb.WriteString("def keeperTransfer_translated : Bool := " + b(x.ok) + "\n\n")
		facts["ERC20Transfer"] = map[string]any{"accepts": expr, "translated": x.ok}
	}
	// the in-EVM wrapper used by the precompile
	{
		x := &c04TokCtx{c: c, ok: true}
		expr, where := "false", "(function not found)"
		if fd := c.findFunc("contract", "ERC20Call", "TransferFrom"); fd != nil && fd.Body != nil {
			expr = x.accepts(fd.Body.List)
			where = c.pos(fd)
		} else {
			x.ok = false
		}
		sb.WriteString("/-- `ERC20Call.TransferFrom` " + where + ": the precompile treats the token's `transferFrom` as done iff … -/\n")
		sb.WriteString("def callTransferFrom_accepts (vmOk retEmpty unpackErr value : Bool) : Bool :=\n  " + expr + "\n")
		sb.WriteString("def callTransferFrom_translated : Bool := " + b(x.ok) + "\n\n")
		facts["TransferFrom"] = map[string]any{"accepts": expr, "translated": x.ok}
	}
	// the sites that move a token of an externally-owned pair, with the wrapper(s) they call
	var sites []string
	for _, s := range []struct{ rel, recv, fn string }{
		{"x/erc20/keeper", "Keeper", "ConvertERC20NativeToken"},
		{"x/erc20/keeper", "Keeper", "ConvertCoinNativeERC20"},
		{"x/crosschain/precompile", "Keeper", "handlerERC20Token"},
	} {
		var via []string
		if fd := c.findFunc(s.rel, s.recv, s.fn); fd != nil && fd.Body != nil {
			ast.Inspect(fd.Body, func(n ast.Node) bool {
				call, ok := n.(*ast.CallExpr)
				if !ok {
					return true
				}
				sel, ok := call.Fun.(*ast.SelectorExpr)
				if !ok {
					return true
				}
				switch sel.Sel.Name {
				case "ERC20Transfer", "TransferFrom", "Transfer", "ApplyContract", "CallEVM", "CallEVMWithoutGas", "Call":
					via = append(via, leanStr(sel.Sel.Name))
				}
				return true
			})
		}
		sites = append(sites, "("+leanStr(s.fn)+", "+leanList(via)+")")
	}
	sb.WriteString("/-- the functions that move a token of an externally-owned pair, each with the token-calling functions it uses, in source order -/\n")
	sb.WriteString("def tokenSites : List (String × List String) := " + leanList(sites) + "\n\n")
	facts["sites"] = sites
	sb.WriteString("end FxVerif.Gen.C04Tok\n")
	c.write("C04Tok.lean", sb.String())
	c.facts["C04Tok"] = facts
}

// ---------------------------------------------------------------------------------------------------------------------
// C04 round 5: which IBC alias (voucher) of a base coin is chosen for an IBC target.  Both look-ups (crosschain
// BaseDenomToBridgeDenom, erc20 ToTargetDenom) walk the aliases in metadata order and SKIP a voucher when a condition on
// its denom-trace path and on the target's "port/channel" holds; the first voucher not skipped is the route.  The
// condition is translated into a Lean Bool over `path hop : List Char`; the format string and arguments of `hop` are
// emitted too.  Model/C04Tok.lean `chooseAlias` interprets it, Props/C04.lean proves "not skipped <=> same last hop".
func init() { register(extractC04Hop) }

type c04HopCtx struct {
	c   *ctxT
	hop  string   // source text of the expression `hop` stands for
	hopE ast.Expr // … and the expression itself
	ok   bool
}

func (x *c04HopCtx) term(e ast.Expr) string {
	src := c04Space.ReplaceAllString(x.c.src(e), "")
	switch {
	case src == "path" || src == "denomTrace.GetPath()":
		return "path"
	case src == "hop" || (strings.HasPrefix(src, "fmt.Sprintf(") && src == c04Space.ReplaceAllString(x.hop, "")):
		return "hop"
	}
	switch v := e.(type) {
	case *ast.ParenExpr:
		return x.term(v.X)
	case *ast.BasicLit:
		if v.Kind == token.STRING {
			return "(" + leanStr(strings.Trim(v.Value, "\"`")) + ").toList"
		}
	case *ast.BinaryExpr:
		if v.Op == token.ADD {
			return "(" + x.term(v.X) + " ++ " + x.term(v.Y) + ")"
		}
	case *ast.CallExpr:
		if strings.HasPrefix(src, "fmt.Sprintf(") { // an inline hop (the shape before fix 94a3933)
			if x.hop == "" {
				x.hop = x.c.src(e)
				x.hopE = e
			}
			if c04Space.ReplaceAllString(x.hop, "") == src {
				return "hop"
			}
		}
	}
	x.ok = false
	return "([] : List Char) /- untranslated: " + strings.ReplaceAll(x.c.src(e), "-/", "- /") + " -/"
}

func (x *c04HopCtx) cond(e ast.Expr) string {
	switch v := e.(type) {
	case *ast.ParenExpr:
		return "(" + x.cond(v.X) + ")"
	case *ast.UnaryExpr:
		if v.Op == token.NOT {
			return "(!" + x.cond(v.X) + ")"
		}
	case *ast.BinaryExpr:
		switch v.Op {
		case token.LAND:
			return "(" + x.cond(v.X) + " && " + x.cond(v.Y) + ")"
		case token.LOR:
			return "(" + x.cond(v.X) + " || " + x.cond(v.Y) + ")"
		case token.NEQ:
			return "(" + x.term(v.X) + " != " + x.term(v.Y) + ")"
		case token.EQL:
			return "(" + x.term(v.X) + " == " + x.term(v.Y) + ")"
		}
	case *ast.CallExpr:
		if x.c.src(v.Fun) == "strings.HasPrefix" && len(v.Args) == 2 {
			return "(List.isPrefixOf " + x.term(v.Args[1]) + " " + x.term(v.Args[0]) + ")"
		}
	}
	x.ok = false
	return "true /- untranslated: " + strings.ReplaceAll(x.c.src(e), "-/", "- /") + " -/"
}

// skipCond: inside fd, the `if … { continue }` that follows the GetDenomTrace look-up and mentions the trace path
func (x *c04HopCtx) skipCond(fd *ast.FuncDecl) (string, string, []string) {
	expr, format := "", ""
	var args []string
	if fd == nil || fd.Body == nil {
		x.ok = false
		return "true", "", nil
	}
	ast.Inspect(fd.Body, func(n ast.Node) bool {
		switch s := n.(type) {
		case *ast.AssignStmt:
			if len(s.Lhs) == 1 && x.c.src(s.Lhs[0]) == "hop" && len(s.Rhs) == 1 {
				x.hop = x.c.src(s.Rhs[0])
				x.hopE = s.Rhs[0]
			}
		case *ast.IfStmt:
			if expr != "" || len(s.Body.List) != 1 {
				return true
			}
			if br, ok := s.Body.List[0].(*ast.BranchStmt); !ok || br.Tok != token.CONTINUE {
				return true
			}
			all := x.c.src(s.Cond)
			if s.Init != nil {
				all += x.c.src(s.Init)
			}
			if !strings.Contains(all, "GetPath()") {
				return true
			}
			expr = x.cond(s.Cond)
		}
		return true
	})
	if expr == "" {
		x.ok = false
		return "true", "", nil
	}
	if call, ok := x.hopE.(*ast.CallExpr); ok && len(call.Args) >= 1 {
		if bl, ok := call.Args[0].(*ast.BasicLit); ok {
			format = strings.Trim(bl.Value, "\"`")
		}
		for _, a := range call.Args[1:] {
			args = append(args, leanStr(x.c.src(a)))
		}
	} else {
		x.ok = false
	}
	return expr, format, args
}

func extractC04Hop(c *ctxT) {
	var sb strings.Builder
	sb.WriteString("namespace FxVerif.Gen.C04Hop\n\n")
	facts := map[string]any{}
	for _, s := range []struct{ rel, fn, lean string }{
		{"x/crosschain/keeper", "BaseDenomToBridgeDenom", "crosschain"},
		{"x/erc20/keeper", "ToTargetDenom", "erc20"},
	} {
		x := &c04HopCtx{c: c, ok: true}
		fd := c.findFunc(s.rel, "Keeper", s.fn)
		expr, format, args := x.skipCond(fd)
		where := "(function not found)"
		if fd != nil {
			where = c.pos(fd)
		}
		sb.WriteString("/-- `" + s.fn + "` " + where + ": a voucher with denom-trace path `path` is SKIPPED for the target whose port/channel text is `hop` iff … -/\n")
		sb.WriteString("def " + s.lean + "_skips (path hop : List Char) : Bool :=\n  " + expr + "\n")
		sb.WriteString("/-- how `hop` is built: format string and arguments -/\n")
		sb.WriteString("def " + s.lean + "_hop : String × List String := (" + leanStr(format) + ", " + leanList(args) + ")\n")
		if x.ok {
			sb.WriteString("def " + s.lean + "_translated : Bool := true\n\n")
		} else {
			sb.WriteString("def " + s.lean + "_translated : Bool := false\n\n")
		}
		facts[s.fn] = map[string]any{"skips": expr, "format": format, "args": args, "translated": x.ok}
	}
	sb.WriteString("end FxVerif.Gen.C04Hop\n")
	c.write("C04Hop.lean", sb.String())
	c.facts["C04Hop"] = facts
}
