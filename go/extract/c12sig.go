package main

// C12 (round 3): facts about WHICH checkpoint encoder a confirm handler runs on which chain style, about the bytes the two
// signature decoders hash before the curve recovery, and about the signature check of the bridge contract
// (FxBridgeLogic*.sol: verifySig, checkOracleSignatures and the hash each entry point hands to it).  Emits Gen/C12Sig.lean.

import (
	"fmt"
	"go/ast"
	"os"
	"path/filepath"
	"regexp"
	"strings"
)

func init() { register(extractC12Sig) }

// ---- 1. checkpoint routes ------------------------------------------------------------------------------------------

type c12Route struct {
	Conds []string `json:"conds"` // enclosing conditions: "+<cond>" then-branch, "-<cond>" else-branch, "case <T>" / "default"
	Call  string   `json:"call"`  // "trontypes.GetCheckpointX" | "<ReceiverType>.GetCheckpoint" | "?<text>"
}

func typeName(e ast.Expr) string {
	switch x := e.(type) {
	case *ast.StarExpr:
		return typeName(x.X)
	case *ast.SelectorExpr:
		return x.Sel.Name
	case *ast.Ident:
		return x.Name
	}
	return ""
}

type c12RouteWalker struct {
	c      *ctxT
	routes []c12Route
}

// pkgDirOf maps an import alias used in the keeper / tron types packages to its directory
func c12PkgDir(alias string) string {
	switch alias {
	case "trontypes":
		return "x/tron/types"
	case "types":
		return "x/crosschain/types"
	}
	return ""
}

func (w *c12RouteWalker) resultType(fd *ast.FuncDecl) string {
	if fd == nil || fd.Type.Results == nil || len(fd.Type.Results.List) == 0 {
		return ""
	}
	return typeName(fd.Type.Results.List[0].Type)
}

func (w *c12RouteWalker) walkFunc(fd *ast.FuncDecl, dir string, env map[string]string, conds []string, depth int) {
	if fd == nil || fd.Body == nil || depth > 5 {
		return
	}
	recv := ""
	if fd.Recv != nil && len(fd.Recv.List) > 0 && len(fd.Recv.List[0].Names) > 0 {
		recv = fd.Recv.List[0].Names[0].Name
	}
	w.walkStmts(fd.Body.List, dir, recv, env, conds, depth)
}

func copyEnv(env map[string]string) map[string]string {
	out := map[string]string{}
	for k, v := range env {
		out[k] = v
	}
	return out
}

func (w *c12RouteWalker) walkStmts(stmts []ast.Stmt, dir, recv string, env map[string]string, conds []string, depth int) {
	c := w.c
	for _, st := range stmts {
		switch s := st.(type) {
		case *ast.IfStmt:
			if s.Init != nil {
				w.walkStmts([]ast.Stmt{s.Init}, dir, recv, env, conds, depth)
			}
			cond := solWS.ReplaceAllString(c.src(s.Cond), " ")
			w.exprCalls(s.Cond, dir, recv, env, conds, depth)
			w.walkStmts(s.Body.List, dir, recv, env, append(append([]string{}, conds...), "+"+cond), depth)
			switch el := s.Else.(type) {
			case *ast.BlockStmt:
				w.walkStmts(el.List, dir, recv, env, append(append([]string{}, conds...), "-"+cond), depth)
			case *ast.IfStmt:
				w.walkStmts([]ast.Stmt{el}, dir, recv, env, append(append([]string{}, conds...), "-"+cond), depth)
			}
		case *ast.TypeSwitchStmt:
			// switch o := obj.(type): with the dynamic type of obj known, only the matching clause is taken
			bind, subject := "", ""
			switch a := s.Assign.(type) {
			case *ast.AssignStmt:
				bind = exprIdent(a.Lhs[0])
				if ta, ok := a.Rhs[0].(*ast.TypeAssertExpr); ok {
					subject = exprIdent(ta.X)
				}
			case *ast.ExprStmt:
				if ta, ok := a.X.(*ast.TypeAssertExpr); ok {
					subject = exprIdent(ta.X)
				}
			}
			known := env[subject]
			var clauses []*ast.CaseClause
			for _, cl := range s.Body.List {
				clauses = append(clauses, cl.(*ast.CaseClause))
			}
			matched := false
			if known != "" {
				for _, cl := range clauses {
					for _, t := range cl.List {
						if typeName(t) == known {
							e2 := copyEnv(env)
							if bind != "" {
								e2[bind] = known
							}
							w.walkStmts(cl.Body, dir, recv, e2, conds, depth)
							matched = true
						}
					}
				}
				if !matched {
					for _, cl := range clauses {
						if cl.List == nil {
							e2 := copyEnv(env)
							if bind != "" {
								e2[bind] = known
							}
							w.walkStmts(cl.Body, dir, recv, e2, conds, depth)
							matched = true
						}
					}
				}
			}
			if known == "" {
				for _, cl := range clauses {
					label := "default"
					e2 := copyEnv(env)
					if cl.List != nil {
						var ts []string
						for _, t := range cl.List {
							ts = append(ts, typeName(t))
						}
						label = "case " + strings.Join(ts, ",")
						if bind != "" && len(ts) == 1 {
							e2[bind] = ts[0]
						}
					}
					w.walkStmts(cl.Body, dir, recv, e2, append(append([]string{}, conds...), label), depth)
				}
			}
		case *ast.SwitchStmt:
			for _, cl := range s.Body.List {
				cc := cl.(*ast.CaseClause)
				label := "default"
				if cc.List != nil {
					var ts []string
					for _, t := range cc.List {
						ts = append(ts, solWS.ReplaceAllString(c.src(t), " "))
					}
					label = "case " + strings.Join(ts, ",")
				}
				tag := ""
				if s.Tag != nil {
					tag = solWS.ReplaceAllString(c.src(s.Tag), " ") + " "
				}
				w.walkStmts(cc.Body, dir, recv, env, append(append([]string{}, conds...), "switch "+tag+label), depth)
			}
		case *ast.BlockStmt:
			w.walkStmts(s.List, dir, recv, env, conds, depth)
		case *ast.AssignStmt:
			for _, r := range s.Rhs {
				w.exprCalls(r, dir, recv, env, conds, depth)
			}
			// types of assigned variables: x := k.GetFoo(...) / x, found := k.GetFoo(...)
			if len(s.Rhs) == 1 && len(s.Lhs) >= 1 {
				if ce, ok := s.Rhs[0].(*ast.CallExpr); ok {
					if se, ok := ce.Fun.(*ast.SelectorExpr); ok {
						if id, ok := se.X.(*ast.Ident); ok && id.Name == recv && recv != "" {
							if t := w.resultType(c.findFunc(dir, "*", se.Sel.Name)); t != "" {
								if n := exprIdent(s.Lhs[0]); n != "" && n != "_" {
									env[n] = t
								}
							}
						}
					}
				} else if id, ok := s.Rhs[0].(*ast.Ident); ok {
					if t, ok := env[id.Name]; ok {
						env[exprIdent(s.Lhs[0])] = t
					}
				}
			}
		case *ast.ExprStmt:
			w.exprCalls(s.X, dir, recv, env, conds, depth)
		case *ast.ReturnStmt:
			for _, r := range s.Results {
				w.exprCalls(r, dir, recv, env, conds, depth)
			}
		case *ast.DeclStmt:
			// var x T
			if gd, ok := s.Decl.(*ast.GenDecl); ok {
				for _, sp := range gd.Specs {
					if vs, ok := sp.(*ast.ValueSpec); ok && vs.Type != nil {
						for _, n := range vs.Names {
							if t := typeName(vs.Type); t != "" && t != "byte" && t != "error" {
								env[n.Name] = t
							}
						}
					}
				}
			}
		}
	}
}

// exprCalls records every GetCheckpoint… call in an expression and follows calls into functions that reach one.
func (w *c12RouteWalker) exprCalls(e ast.Expr, dir, recv string, env map[string]string, conds []string, depth int) {
	c := w.c
	ast.Inspect(e, func(n ast.Node) bool {
		ce, ok := n.(*ast.CallExpr)
		if !ok {
			return true
		}
		se, ok := ce.Fun.(*ast.SelectorExpr)
		if !ok {
			if id, ok := ce.Fun.(*ast.Ident); ok {
				// package-local function
				if fd := c.findFunc(dir, "", id.Name); fd != nil && strings.Contains(c.src(fd), "GetCheckpoint") {
					if strings.HasPrefix(id.Name, "GetCheckpoint") && w.isEncoder(fd) {
						q := map[string]string{"x/tron/types": "trontypes.", "x/crosschain/types": "types."}[dir]
						w.routes = append(w.routes, c12Route{Conds: conds, Call: q + id.Name})
					} else {
						w.follow(fd, dir, ce.Args, env, conds, depth)
					}
				}
			}
			return true
		}
		x := exprIdent(se.X)
		name := se.Sel.Name
		pkgDir := c12PkgDir(x)
		switch {
		case pkgDir != "" && env[x] == "":
			fd := c.findFunc(pkgDir, "", name)
			if fd == nil {
				return true
			}
			if strings.HasPrefix(name, "GetCheckpoint") && w.isEncoder(fd) {
				w.routes = append(w.routes, c12Route{Conds: conds, Call: x + "." + name})
			} else if strings.Contains(c.src(fd), "GetCheckpoint") {
				w.follow(fd, pkgDir, ce.Args, env, conds, depth)
			}
		case x == recv && recv != "":
			if fd := c.findFunc(dir, "*", name); fd != nil && name != "GetGravityID" && strings.Contains(c.src(fd), "GetCheckpoint") {
				w.follow(fd, dir, ce.Args, env, conds, depth)
			}
		case strings.HasPrefix(name, "GetCheckpoint"):
			t := env[x]
			if t == "" {
				t = "?" + x
			}
			w.routes = append(w.routes, c12Route{Conds: conds, Call: t + "." + name})
		}
		return true
	})
}

// isEncoder: the function packs ABI parameters itself (it does not merely dispatch)
func (w *c12RouteWalker) isEncoder(fd *ast.FuncDecl) bool {
	s := w.c.src(fd)
	return strings.Contains(s, "GetPaddedParam") || strings.Contains(s, ".Pack(")
}

func (w *c12RouteWalker) follow(fd *ast.FuncDecl, dir string, args []ast.Expr, env map[string]string, conds []string, depth int) {
	names, _ := w.c.fnParams(fd)
	e2 := map[string]string{}
	// declared parameter types, refined by the caller's knowledge of the argument's dynamic type
	i := 0
	for _, f := range fd.Type.Params.List {
		for range f.Names {
			if i < len(names) {
				if t := typeName(f.Type); t != "" {
					e2[names[i]] = t
				}
				if i < len(args) {
					if a := exprIdent(args[i]); a != "" && env[a] != "" {
						e2[names[i]] = env[a]
					}
				}
			}
			i++
		}
	}
	w.walkFunc(fd, dir, e2, conds, depth+1)
}

func (c *ctxT) c12Routes(handler string) []c12Route {
	fd := c.findFunc("x/crosschain/keeper", "Keeper", handler)
	w := &c12RouteWalker{c: c}
	if fd == nil {
		return nil
	}
	env := map[string]string{}
	for _, f := range fd.Type.Params.List {
		for _, n := range f.Names {
			env[n.Name] = typeName(f.Type)
		}
	}
	w.walkFunc(fd, "x/crosschain/keeper", env, nil, 0)
	return w.routes
}

// ---- 2. what the Go signature functions hash -----------------------------------------------------------------------

type c12SigHash struct {
	Func    string      `json:"func"`
	Parts   [][2]string `json:"parts"`   // ("const", name) | ("digest", param) | ("other", text): arguments of append(...) inside Keccak256Hash
	HashVar string      `json:"hashVar"` // variable the hash is bound to
	EcCall  string      `json:"ecCall"`  // the curve call: crypto.SigToPub(<hashVar>.Bytes(), signature) / crypto.Sign(...)
	Render  []string    `json:"render"`  // address rendering calls, in source order
}

func (c *ctxT) c12SigHash(rel, fn string) c12SigHash {
	r := c12SigHash{Func: fn}
	fd := c.findFunc(rel, "", fn)
	if fd == nil || fd.Body == nil {
		return r
	}
	params, _ := c.fnParams(fd)
	first := ""
	if len(params) > 0 {
		first = params[0]
	}
	ast.Inspect(fd.Body, func(n ast.Node) bool {
		switch x := n.(type) {
		case *ast.AssignStmt:
			if len(x.Rhs) == 1 {
				if ce, ok := x.Rhs[0].(*ast.CallExpr); ok && strings.HasPrefix(c.src(ce.Fun), "crypto.Keccak256") && len(ce.Args) == 1 {
					r.HashVar = exprIdent(x.Lhs[0])
					if ap, ok := ce.Args[0].(*ast.CallExpr); ok && c.src(ap.Fun) == "append" {
						for i, a := range ap.Args {
							s := solWS.ReplaceAllString(c.src(a), "")
							switch {
							case strings.HasPrefix(s, "[]uint8(") || strings.HasPrefix(s, "[]byte("):
								r.Parts = append(r.Parts, [2]string{"const", strings.TrimSuffix(s[strings.Index(s, "(")+1:], ")")})
							case s == first && i == len(ap.Args)-1 && ap.Ellipsis.IsValid():
								r.Parts = append(r.Parts, [2]string{"digest", s})
							default:
								r.Parts = append(r.Parts, [2]string{"other", s})
							}
						}
					} else {
						r.Parts = append(r.Parts, [2]string{"other", solWS.ReplaceAllString(c.src(ce.Args[0]), " ")})
					}
				}
			}
		case *ast.CallExpr:
			s := c.src(x.Fun)
			switch {
			case s == "crypto.SigToPub" || s == "crypto.Sign" || s == "crypto.Ecrecover":
				r.EcCall = solWS.ReplaceAllString(c.src(x), " ")
			case strings.HasSuffix(s, "PubkeyToAddress") || s == "addr.Hex" || s == "addr.String":
				r.Render = append(r.Render, solWS.ReplaceAllString(c.src(x), " "))
			}
		}
		return true
	})
	return r
}

// ---- 3. the contract's signature check ----------------------------------------------------------------------------

type c12SolPacked struct {
	Kind string `json:"kind"` // lit | var
	Lit  []byte `json:"lit,omitempty"`
	Name string `json:"name,omitempty"`
	Ty   string `json:"ty,omitempty"`
}

type c12SolVerify struct {
	File      string         `json:"file"`
	Params    [][2]string    `json:"params"` // (type, name)
	PackFn    string         `json:"packFn"` // the encoding function inside keccak256(...): abi.encodePacked | abi.encode | …
	Packed    []c12SolPacked `json:"packed"`
	DigestVar string         `json:"digestVar"`
	EcArgs    []string       `json:"ecArgs"`
	RetLhs    string         `json:"retLhs"`
	RetOp     string         `json:"retOp"`
}

type c12SolCheck struct {
	File         string   `json:"file"`
	Params       []string `json:"params"`
	Guard        string   `json:"guard"`
	VerifyArgs   []string `json:"verifyArgs"`
	Required     bool     `json:"required"`
	Accumulate   string   `json:"accumulate"`
	BreakCond    string   `json:"breakCond"`
	FinalRequire string   `json:"finalRequire"`
}

type c12SolEntry struct {
	File      string      `json:"file"`
	Func      string      `json:"func"`
	CheckArgs []string    `json:"checkArgs"`
	Hash      string      `json:"hash"`   // site | call | unknown
	HashFn    string      `json:"hashFn"` // the function whose abi.encode computes the hash
	HashArgs  [][2]string `json:"hashArgs"`
}

// solFuncText returns (parameter declarations, body text) of a Solidity function
func solFuncText(src, name string) (params []string, body string, ok bool) {
	re := regexp.MustCompile(`\bfunction\s+` + regexp.QuoteMeta(name) + `\s*\(`)
	m := re.FindStringIndex(src)
	if m == nil {
		return nil, "", false
	}
	popen := m[1] - 1
	pcl := matchParen(src, popen)
	if pcl < 0 {
		return nil, "", false
	}
	params = splitTop(src[popen+1 : pcl])
	bo := strings.Index(src[pcl:], "{")
	if bo < 0 {
		return params, "", false
	}
	bo += pcl
	bc := matchParen(src, bo)
	if bc < 0 {
		return params, "", false
	}
	return params, src[bo+1 : bc], true
}

func solCallArgs(text, fn string) ([]string, int, bool) {
	re := regexp.MustCompile(`(^|[^\w.])` + regexp.QuoteMeta(fn) + `\s*\(`)
	m := re.FindStringIndex(text)
	if m == nil {
		return nil, -1, false
	}
	open := m[1] - 1
	cl := matchParen(text, open)
	if cl < 0 {
		return nil, -1, false
	}
	args := splitTop(text[open+1 : cl])
	for i := range args {
		args[i] = solWS.ReplaceAllString(strings.TrimSpace(args[i]), " ")
	}
	return args, m[0], true
}

func solNorm(s string) string { return solWS.ReplaceAllString(strings.TrimSpace(s), " ") }

func c12SolSig(path string) (v c12SolVerify, ck c12SolCheck, entries []c12SolEntry) {
	bz, err := os.ReadFile(path)
	if err != nil {
		return
	}
	file := filepath.Base(path)
	src := solStripComments(string(bz))
	v.File, ck.File = file, file
	// verifySig
	if params, body, ok := solFuncText(src, "verifySig"); ok {
		for _, d := range params {
			t, n := solDecl(d)
			v.Params = append(v.Params, [2]string{t, n})
		}
		ptype := map[string]string{}
		for _, p := range v.Params {
			ptype[p[1]] = p[0]
		}
		if m := regexp.MustCompile(`keccak256\s*\(\s*([\w.]+)\s*\(`).FindStringSubmatch(body); m != nil {
			v.PackFn = m[1]
		}
		if args, _, ok := solCallArgs(body, v.PackFn); ok && v.PackFn != "" {
			for _, a := range args {
				if strings.HasPrefix(a, "\"") {
					v.Packed = append(v.Packed, c12SolPacked{Kind: "lit", Lit: solUnescape(strings.Trim(a, "\""))})
				} else {
					v.Packed = append(v.Packed, c12SolPacked{Kind: "var", Name: a, Ty: ptype[a]})
				}
			}
		}
		if m := regexp.MustCompile(`bytes32\s+(\w+)\s*=\s*keccak256\s*\(`).FindStringSubmatch(body); m != nil {
			v.DigestVar = m[1]
		}
		if args, _, ok := solCallArgs(body, "ecrecover"); ok {
			v.EcArgs = args
		}
		if m := regexp.MustCompile(`return\s+(\w+)\s*(==|!=)\s*ecrecover`).FindStringSubmatch(body); m != nil {
			v.RetLhs, v.RetOp = m[1], m[2]
		}
	}
	// checkOracleSignatures
	if params, body, ok := solFuncText(src, "checkOracleSignatures"); ok {
		for _, d := range params {
			_, n := solDecl(d)
			ck.Params = append(ck.Params, n)
		}
		if i := strings.Index(body, "for"); i >= 0 {
			fo := strings.Index(body[i:], "{")
			if fo >= 0 {
				fo += i
				if fc := matchParen(body, fo); fc > 0 {
					loop := body[fo+1 : fc]
					if m := regexp.MustCompile(`^\s*if\s*\(`).FindStringIndex(loop); m != nil {
						o := m[1] - 1
						if cl := matchParen(loop, o); cl > 0 {
							ck.Guard = solNorm(loop[o+1 : cl])
						}
					}
					if args, at, ok := solCallArgs(loop, "verifySig"); ok {
						ck.VerifyArgs = args
						ck.Required = regexp.MustCompile(`require\s*\(\s*$`).MatchString(loop[:at+1])
					}
					if m := regexp.MustCompile(`(\w+\s*=\s*\w+\s*\+\s*\w+\[\w+\])\s*;`).FindStringSubmatch(loop); m != nil {
						ck.Accumulate = solNorm(m[1])
					}
					if m := regexp.MustCompile(`if\s*\(([^()]*)\)\s*\{\s*break\s*;`).FindStringSubmatch(loop); m != nil {
						ck.BreakCond = solNorm(m[1])
					}
					rest := body[fc:]
					if args, _, ok := solCallArgs(rest, "require"); ok && len(args) > 0 {
						ck.FinalRequire = args[0]
					}
				}
			}
		}
	}
	// entry points: every function that calls checkOracleSignatures
	hashPos := -1
	for i, p := range ck.Params {
		if p == "_theHash" {
			hashPos = i
		}
	}
	for _, m := range solFuncRe.FindAllStringSubmatch(src, -1) {
		fn := m[1]
		if fn == "checkOracleSignatures" {
			continue
		}
		_, body, ok := solFuncText(src, fn)
		if !ok {
			continue
		}
		args, _, ok := solCallArgs(body, "checkOracleSignatures")
		if !ok {
			continue
		}
		e := c12SolEntry{File: file, Func: fn, CheckArgs: args, Hash: "unknown"}
		if hashPos >= 0 && hashPos < len(args) {
			h := args[hashPos]
			if solIdentRe.MatchString(h) {
				if _, init := localDecl(body, h); init != "" {
					h = solNorm(init)
				}
			}
			switch {
			case strings.HasPrefix(h, "keccak256") && strings.Contains(h, "abi.encode("):
				e.Hash, e.HashFn = "site", fn
			default:
				if mm := regexp.MustCompile(`^(\w+)\s*\(`).FindStringSubmatch(h); mm != nil {
					callee := mm[1]
					if cargs, _, ok := solCallArgs(h, callee); ok {
						if cparams, cbody, ok := solFuncText(src, callee); ok && strings.Contains(cbody, "abi.encode(") {
							e.Hash, e.HashFn = "call", callee
							for i, d := range cparams {
								_, n := solDecl(d)
								a := ""
								if i < len(cargs) {
									a = cargs[i]
								}
								e.HashArgs = append(e.HashArgs, [2]string{n, a})
							}
						}
					}
				}
			}
		}
		entries = append(entries, e)
	}
	return
}

// ---- 4. ValidateConfirmSign as a statement program ----------------------------------------------------------------

type c12VStmt struct {
	Conds []string `json:"conds"` // enclosing branch conditions ("+c" / "-c")
	Kind  string   `json:"kind"`  // assign | failIf | check | ret | other
	Fn    string   `json:"fn"`    // assign / check: the callee; failIf: the condition
	Args  []string `json:"args"`  // call arguments (ctx dropped)
	Lhs   []string `json:"lhs"`   // assign: left-hand sides
	Err   string   `json:"err"`   // failIf / check: what is returned (error constant or the Wrapf format's first words)
}

func (c *ctxT) c12ErrOf(body *ast.BlockStmt) string {
	for _, st := range body.List {
		if rs, ok := st.(*ast.ReturnStmt); ok && len(rs.Results) > 0 {
			e := rs.Results[len(rs.Results)-1]
			if ce, ok := e.(*ast.CallExpr); ok && len(ce.Args) > 0 {
				if bl, ok := ce.Args[0].(*ast.BasicLit); ok {
					t := strings.Trim(bl.Value, "\"`")
					w := strings.Fields(t)
					if len(w) > 2 {
						w = w[:2]
					}
					return strings.Join(w, " ")
				}
			}
			return solWS.ReplaceAllString(c.src(e), " ")
		}
	}
	return ""
}

func (c *ctxT) c12CallParts(e ast.Expr) (string, []string, bool) {
	ce, ok := e.(*ast.CallExpr)
	if !ok {
		return "", nil, false
	}
	fn := solWS.ReplaceAllString(c.src(ce.Fun), "")
	var args []string
	for _, a := range ce.Args {
		t := solWS.ReplaceAllString(c.src(a), " ")
		if t == "ctx" {
			continue
		}
		args = append(args, t)
	}
	return fn, args, true
}

func (c *ctxT) c12VWalk(stmts []ast.Stmt, conds []string, out *[]c12VStmt) {
	for _, st := range stmts {
		switch s := st.(type) {
		case *ast.AssignStmt:
			if len(s.Rhs) == 1 {
				if fn, args, ok := c.c12CallParts(s.Rhs[0]); ok {
					var lhs []string
					for _, l := range s.Lhs {
						lhs = append(lhs, exprIdent(l))
					}
					*out = append(*out, c12VStmt{Conds: conds, Kind: "assign", Fn: fn, Args: args, Lhs: lhs})
					continue
				}
			}
			*out = append(*out, c12VStmt{Conds: conds, Kind: "other", Fn: solWS.ReplaceAllString(c.src(s), " ")})
		case *ast.IfStmt:
			cond := solWS.ReplaceAllString(c.src(s.Cond), " ")
			returns := false
			for _, b := range s.Body.List {
				if _, ok := b.(*ast.ReturnStmt); ok {
					returns = true
				}
			}
			if s.Init != nil {
				if as, ok := s.Init.(*ast.AssignStmt); ok && len(as.Rhs) == 1 && returns && s.Else == nil {
					if fn, args, ok := c.c12CallParts(as.Rhs[0]); ok {
						*out = append(*out, c12VStmt{Conds: conds, Kind: "check", Fn: fn, Args: args, Err: c.c12ErrOf(s.Body)})
						continue
					}
				}
			}
			if returns && s.Else == nil && s.Init == nil {
				// a binary condition is split into [lhs, operator, rhs]
				args := []string{cond}
				if be, ok := s.Cond.(*ast.BinaryExpr); ok {
					args = []string{solWS.ReplaceAllString(c.src(be.X), " "), be.Op.String(), solWS.ReplaceAllString(c.src(be.Y), " ")}
				}
				*out = append(*out, c12VStmt{Conds: conds, Kind: "failIf", Fn: cond, Args: args, Err: c.c12ErrOf(s.Body)})
				continue
			}
			c.c12VWalk(s.Body.List, append(append([]string{}, conds...), "+"+cond), out)
			if el, ok := s.Else.(*ast.BlockStmt); ok {
				c.c12VWalk(el.List, append(append([]string{}, conds...), "-"+cond), out)
			}
		case *ast.ReturnStmt:
			var rs []string
			for _, r := range s.Results {
				rs = append(rs, solWS.ReplaceAllString(c.src(r), " "))
			}
			*out = append(*out, c12VStmt{Conds: conds, Kind: "ret", Args: rs})
		default:
			*out = append(*out, c12VStmt{Conds: conds, Kind: "other", Fn: solWS.ReplaceAllString(c.src(st), " ")})
		}
	}
}

// the decoder a Validate…Signature function calls, and its comparison
func (c *ctxT) c12ValidateDecoder(rel, fn string) string {
	fd := c.findFunc(rel, "", fn)
	dec := ""
	if fd == nil || fd.Body == nil {
		return dec
	}
	ast.Inspect(fd.Body, func(n ast.Node) bool {
		if ce, ok := n.(*ast.CallExpr); ok {
			s := c.src(ce.Fun)
			if strings.HasSuffix(s, "AddressFromSignature") && dec == "" {
				dec = s
			}
		}
		return true
	})
	return dec
}

// ---- 5. genesis import of confirmations: which field decides the owner ---------------------------------------------

// c12GenesisMatch: for every `for` over state.<X>Confirms in InitGenesis, the comparison that selects the oracle a
// confirmation is filed under: (list, confirmation-side expression, operator, oracle-side expression, store call)
func (c *ctxT) c12GenesisMatch() [][5]string {
	var out [][5]string
	fd := c.findFunc("x/crosschain/keeper", "", "InitGenesis")
	if fd == nil || fd.Body == nil {
		return out
	}
	ast.Inspect(fd.Body, func(n ast.Node) bool {
		fs, ok := n.(*ast.ForStmt)
		if !ok {
			return true
		}
		hdr := ""
		if fs.Cond != nil {
			hdr = c.src(fs.Cond)
		}
		m := regexp.MustCompile(`state\.(\w*Confirms)`).FindStringSubmatch(hdr)
		if m == nil {
			return true
		}
		ast.Inspect(fs.Body, func(n2 ast.Node) bool {
			is, ok := n2.(*ast.IfStmt)
			if !ok {
				return true
			}
			be, ok := is.Cond.(*ast.BinaryExpr)
			if !ok {
				return true
			}
			store := ""
			ast.Inspect(is.Body, func(n3 ast.Node) bool {
				if ce, ok := n3.(*ast.CallExpr); ok && store == "" {
					if name, _, ok := keeperCall(ce); ok && strings.HasPrefix(name, "Set") {
						store = name
					}
				}
				return true
			})
			out = append(out, [5]string{m[1], solWS.ReplaceAllString(c.src(be.X), " "), be.Op.String(), solWS.ReplaceAllString(c.src(be.Y), " "), store})
			return false
		})
		return false
	})
	return out
}

// ---- emit ---------------------------------------------------------------------------------------------------------

func leanPairs(ps [][2]string) string {
	var xs []string
	for _, p := range ps {
		xs = append(xs, "("+leanStr(p[0])+", "+leanStr(p[1])+")")
	}
	return leanList(xs)
}

func extractC12Sig(c *ctxT) {
	var sb strings.Builder
	sb.WriteString(`namespace FxVerif.Gen.C12Sig

/-- one way a confirm handler reaches a checkpoint encoder: the conditions on the path ("+c": then-branch of ` + "`if c`" + `,
"-c": its else-branch, "case T" / "default": clause of a type switch whose subject's type is not known statically) and the
encoder reached ("trontypes.GetCheckpointX", or "<type of the receiver>.GetCheckpoint"); calls into helpers are followed,
type switches are resolved with the static type of the handler's object variable -/
structure CpRoute where
  conds : List String
  call : String
  deriving DecidableEq, Repr

`)
	hs := [][2]string{{"BatchConfirmHandler", "batch"}, {"OracleSetConfirmHandler", "oracleSet"}, {"BridgeCallConfirmHandler", "bridgeCall"}}
	routes := map[string][]c12Route{}
	sb.WriteString("/-- (handler, object kind, routes) -/\ndef cpRoutes : List (String × String × List CpRoute) := [\n")
	for i, h := range hs {
		rs := c.c12Routes(h[0])
		routes[h[0]] = rs
		var xs []string
		for _, r := range rs {
			xs = append(xs, "⟨"+c12LeanStrs(r.Conds)+", "+leanStr(r.Call)+"⟩")
		}
		sep := ","
		if i == len(hs)-1 {
			sep = ""
		}
		fmt.Fprintf(&sb, "  (%s, %s, %s)%s\n", leanStr(h[0]), leanStr(h[1]), leanList(xs), sep)
	}
	sb.WriteString("]\n\n")
	c.facts["C12.cpRoutes"] = routes
	// which layout table an encoder's layout was read into (the functions the layout translator reads)
	sb.WriteString("/-- the encoder functions whose argument lists are `goLayouts` / `tronLayouts`: name ↦ (is it a tron layout, object kind) -/\n")
	sb.WriteString("def encoderLayouts : List (String × Bool × String) := [\n")
	encs := [][3]string{{"OracleSet.GetCheckpoint", "false", "oracleSet"}, {"OutgoingTxBatch.GetCheckpoint", "false", "batch"}, {"OutgoingBridgeCall.GetCheckpoint", "false", "bridgeCall"},
		{"trontypes.GetCheckpointOracleSet", "true", "oracleSet"}, {"trontypes.GetCheckpointConfirmBatch", "true", "batch"}, {"trontypes.GetCheckpointBridgeCall", "true", "bridgeCall"}}
	for i, e := range encs {
		// only encoders that exist in the source
		parts := strings.SplitN(e[0], ".", 2)
		var fd *ast.FuncDecl
		if parts[0] == "trontypes" {
			fd = c.findFunc("x/tron/types", "", parts[1])
		} else {
			fd = c.findFunc("x/crosschain/types", parts[0], parts[1])
		}
		if fd == nil {
			continue
		}
		sep := ","
		if i == len(encs)-1 {
			sep = ""
		}
		fmt.Fprintf(&sb, "  (%s, %s, %s)%s\n", leanStr(e[0]), e[1], leanStr(e[2]), sep)
	}
	sb.WriteString("]\n\n")

	sb.WriteString(`/-- what a Go signature function hashes before the curve operation: the arguments of ` + "`append(...)`" + ` inside
` + "`crypto.Keccak256Hash(...)`" + ` ("const": a package constant converted to bytes, "digest": the function's first parameter spread
with ` + "`...`" + `), the variable the hash is bound to, the curve call, the address rendering calls -/
structure SigHash where
  func : String
  parts : List (String × String)
  hashVar : String
  ecCall : String
  render : List String
  deriving DecidableEq, Repr

`)
	sigs := []c12SigHash{
		c.c12SigHash("x/crosschain/types", "EthAddressFromSignature"),
		c.c12SigHash("x/crosschain/types", "NewEthereumSignature"),
		c.c12SigHash("x/tron/types", "TronAddressFromSignature"),
		c.c12SigHash("x/tron/types", "NewTronSignature"),
	}
	sb.WriteString("def sigHashes : List SigHash := [\n")
	for i, s := range sigs {
		sep := ","
		if i == len(sigs)-1 {
			sep = ""
		}
		fmt.Fprintf(&sb, "  ⟨%s, %s, %s, %s, %s⟩%s\n", leanStr(s.Func), leanPairs(s.Parts), leanStr(s.HashVar), leanStr(s.EcCall), c12LeanStrs(s.Render), sep)
	}
	sb.WriteString("]\n\n")
	c.facts["C12.sigHashes"] = sigs

	// ValidateConfirmSign
	var prog []c12VStmt
	if fd := c.findFunc("x/crosschain/keeper", "Keeper", "ValidateConfirmSign"); fd != nil && fd.Body != nil {
		c.c12VWalk(fd.Body.List, nil, &prog)
	}
	vparams := []string{}
	if fd := c.findFunc("x/crosschain/keeper", "Keeper", "ValidateConfirmSign"); fd != nil {
		vparams, _ = c.fnParams(fd)
	}
	sb.WriteString(`/-- one statement of ` + "`ValidateConfirmSign`" + `, in source order: the branch conditions it sits under, its kind
("assign": lhs := fn(args); "failIf": ` + "`if fn { return nil, err }`" + `; "check": ` + "`if err = fn(args); err != nil { return nil, err }`" + `;
"ret": return args), ctx arguments dropped, err = the error constant or the first words of the Wrapf text -/
structure VStmt where
  conds : List String
  kind : String
  fn : String
  args : List String
  lhs : List String
  err : String
  deriving DecidableEq, Repr

`)
	fmt.Fprintf(&sb, "def validateParams : List String := %s\n\n", c12LeanStrs(vparams))
	sb.WriteString("def validateProg : List VStmt := [\n")
	for i, v := range prog {
		sep := ","
		if i == len(prog)-1 {
			sep = ""
		}
		fmt.Fprintf(&sb, "  ⟨%s, %s, %s, %s, %s, %s⟩%s\n", c12LeanStrs(v.Conds), leanStr(v.Kind), leanStr(v.Fn), c12LeanStrs(v.Args), c12LeanStrs(v.Lhs), leanStr(v.Err), sep)
	}
	sb.WriteString("]\n\n")
	fmt.Fprintf(&sb, "/-- the decoder each Validate…Signature function calls -/\ndef validateDecoders : List (String × String) := [(\"types.ValidateEthereumSignature\", %s), (\"trontypes.ValidateTronSignature\", %s)]\n\n",
		leanStr(c.c12ValidateDecoder("x/crosschain/types", "ValidateEthereumSignature")), leanStr(c.c12ValidateDecoder("x/tron/types", "ValidateTronSignature")))
	c.facts["C12.validateProg"] = prog

	gm := c.c12GenesisMatch()
	sb.WriteString("/-- InitGenesis: per imported confirmation list, the comparison that selects the oracle a confirmation is filed under\n(list, confirmation side, operator, oracle side, store call) -/\ndef genesisConfirmMatch : List (String × String × String × String × String) := [")
	for i, g := range gm {
		if i > 0 {
			sb.WriteString(", ")
		}
		fmt.Fprintf(&sb, "(%s, %s, %s, %s, %s)", leanStr(g[0]), leanStr(g[1]), leanStr(g[2]), leanStr(g[3]), leanStr(g[4]))
	}
	sb.WriteString("]\n\n")
	c.facts["C12.genesisConfirmMatch"] = gm

	sb.WriteString(`/-- an argument of ` + "`abi.encodePacked(...)`" + ` in verifySig: a string literal (its bytes) or a parameter (name, declared type) -/
inductive SolPacked where
  | lit (bytes : List Nat)
  | var (name ty : String)
  deriving DecidableEq, Repr

/-- ` + "`verifySig`" + ` as written: parameters (type, name), the encodePacked arguments, the variable bound to their keccak256, the
arguments of ` + "`ecrecover`" + `, and ` + "`return <retLhs> <retOp> ecrecover(...)`" + ` -/
structure SolVerifySig where
  file : String
  params : List (String × String)
  packFn : String                          -- the encoding function inside keccak256(...)
  packed : List SolPacked
  digestVar : String
  ecArgs : List String
  retLhs : String
  retOp : String
  deriving DecidableEq, Repr

/-- ` + "`checkOracleSignatures`" + ` as written: parameter names, the ` + "`if`" + ` guarding each slot, the arguments of the verifySig call and
whether it is the condition of a ` + "`require`" + `, the power accumulation, the early-exit condition, the final ` + "`require`" + ` -/
structure SolCheckSigs where
  file : String
  params : List String
  guard : String
  verifyArgs : List String
  required : Bool
  accumulate : String
  breakCond : String
  finalRequire : String
  deriving DecidableEq, Repr

/-- an entry point that calls checkOracleSignatures: the arguments as written, and where the hash argument comes from
("site": ` + "`keccak256(abi.encode(...))`" + ` in the entry point itself; "call": a call of hashFn with (parameter, argument) pairs) -/
structure SolEntry where
  file : String
  func : String
  checkArgs : List String
  hash : String
  hashFn : String
  hashArgs : List (String × String)
  deriving DecidableEq, Repr

`)
	var vs []c12SolVerify
	var cks []c12SolCheck
	var ents []c12SolEntry
	for _, n := range []string{"FxBridgeLogic.sol", "FxBridgeLogicETH.sol", "FxBridgeLogicBSC.sol"} {
		p := filepath.Join(c.repo, "solidity", "contracts", "bridge", n)
		if _, err := os.Stat(p); err != nil {
			continue
		}
		v, ck, es := c12SolSig(p)
		vs, cks, ents = append(vs, v), append(cks, ck), append(ents, es...)
	}
	sb.WriteString("def solVerifySigs : List SolVerifySig := [\n")
	for i, v := range vs {
		var ps []string
		for _, p := range v.Packed {
			if p.Kind == "lit" {
				ps = append(ps, "(.lit "+c12Bytes(p.Lit)+")")
			} else {
				ps = append(ps, "(.var "+leanStr(p.Name)+" "+leanStr(p.Ty)+")")
			}
		}
		sep := ","
		if i == len(vs)-1 {
			sep = ""
		}
		fmt.Fprintf(&sb, "  ⟨%s, %s, %s, %s, %s, %s, %s, %s⟩%s\n", leanStr(v.File), leanPairs(v.Params), leanStr(v.PackFn), leanList(ps), leanStr(v.DigestVar), c12LeanStrs(v.EcArgs), leanStr(v.RetLhs), leanStr(v.RetOp), sep)
	}
	sb.WriteString("]\n\ndef solCheckSigs : List SolCheckSigs := [\n")
	for i, k := range cks {
		sep := ","
		if i == len(cks)-1 {
			sep = ""
		}
		req := "false"
		if k.Required {
			req = "true"
		}
		fmt.Fprintf(&sb, "  ⟨%s, %s, %s, %s, %s, %s, %s, %s⟩%s\n", leanStr(k.File), c12LeanStrs(k.Params), leanStr(k.Guard), c12LeanStrs(k.VerifyArgs), req, leanStr(k.Accumulate), leanStr(k.BreakCond), leanStr(k.FinalRequire), sep)
	}
	sb.WriteString("]\n\ndef solEntries : List SolEntry := [\n")
	for i, e := range ents {
		sep := ","
		if i == len(ents)-1 {
			sep = ""
		}
		fmt.Fprintf(&sb, "  ⟨%s, %s, %s, %s, %s, %s⟩%s\n", leanStr(e.File), leanStr(e.Func), c12LeanStrs(e.CheckArgs), leanStr(e.Hash), leanStr(e.HashFn), leanPairs(e.HashArgs), sep)
	}
	sb.WriteString("]\n\nend FxVerif.Gen.C12Sig\n")
	c.write("C12Sig.lean", sb.String())
	c.facts["C12.solVerifySigs"] = vs
	c.facts["C12.solCheckSigs"] = cks
	c.facts["C12.solEntries"] = ents
}
