package main

import (
	"go/ast"
	"os"
	"path/filepath"
	"regexp"
	"sort"
	"strings"
)

// C04 / C08: for the Go functions that move money between bank accounts and ERC-20 contracts, the ordered list of
// bank-keeper / ERC-20-keeper calls on every success path, per branch.  Emitted as `List Call` definitions
// (`Gen/C04.lean`); `Props/C04.lean` and `Props/C08.lean` oblige the model's flows to make exactly these calls in this
// order, so dropping, duplicating or reordering a mint / burn / send changes a definition the theorems are stated over.
func init() { register(extractC04) }

var c04Tracked = map[string]string{
	"SendCoinsFromAccountToModule": ".sendAccToMod",
	"SendCoinsFromModuleToAccount": ".sendModToAcc",
	"MintCoins":                    ".mintCoins",
	"BurnCoins":                    ".burnCoins",
	"ERC20Mint":                    ".erc20Mint",
	"ERC20Burn":                    ".erc20Burn",
	"ERC20Transfer":                ".erc20Transfer",
}

// C08: index-maintaining calls of the erc20 keeper
var c08Mode = false
var c08Tracked = map[string]string{
	"SetAliasesDenom":    ".setAliases",
	"DeleteAliasesDenom": ".deleteAliases",
	"SetDenomMetaData":   ".setMetadata",
	"AddTokenPair":       ".addTokenPair",
	"SetTokenPair":       ".setTokenPair",
}

type c04Path struct {
	conds []string
	calls []string
	sigs  []string // per tracked call: ⟨call, first address-like argument, second, coins / contract argument⟩ (C04 round 3)
	done  bool // returned successfully
	fail  bool // returned an error
}

func (p c04Path) clone() c04Path {
	return c04Path{conds: append([]string{}, p.conds...), calls: append([]string{}, p.calls...), sigs: append([]string{}, p.sigs...), done: p.done, fail: p.fail}
}

// c04Refs: the closed lexical vocabulary of argument expressions (`Model/C04Sig.lean`, `Ref`); anything else is `.other`
var c04Refs = map[string]bool{
	"k_moduleName": true, "types_ModuleName": true, "ibctransfertypes_ModuleName": true, "k_moduleAddress": true,
	"holder": true, "sender": true, "receiver": true, "from_": true, "erc20Contract": true, "pair_GetERC20Contract": true,
	"bridgeToken": true, "coin": true, "targetCoin": true, "baseCoin": true, "ibcCoin": true, "addBridgeFee": true, "coins": true,
	"mintCoins": true, "unlockCoins": true, "erc20types_ModuleName": true, "tokenPair_GetERC20Contract": true, "amount": true,
	"crosschaintypes_GetAddress": true, "evmtypes_ModuleName": true, "totalCoins": true,
}

var c04Space = regexp.MustCompile(`\s+`)

// c04Ref turns an argument expression into a constructor of `Ref`, lexically: `sdk.NewCoins(x)` -> x, `x.Bytes()` -> x,
// `a.b` -> a_b, `f()` -> f
func c04Ref(src string) string {
	q := c04Space.ReplaceAllString(src, "")
	if strings.HasPrefix(q, "sdk.NewCoins(") && strings.HasSuffix(q, ")") {
		q = q[len("sdk.NewCoins(") : len(q)-1]
	}
	q = strings.TrimSuffix(q, ".Bytes()")
	q = strings.TrimSuffix(q, "()")
	q = strings.ReplaceAll(q, ".", "_")
	if q == "from" {
		q = "from_"
	}
	if c04Refs[q] {
		return "." + q
	}
	return ".other"
}

// trackedCall returns the Lean constructor of the first tracked keeper call inside an expression, or "".
func c04TrackedCall(n ast.Node) string {
	call, _ := c04TrackedCallSig(nil, n)
	return call
}

// c04TrackedCallSig: the constructor and (with c != nil) the typed signature of the first tracked keeper call
func c04TrackedCallSig(c *ctxT, n ast.Node) (string, string) {
	res, sig := "", ""
	ast.Inspect(n, func(x ast.Node) bool {
		if res != "" {
			return false
		}
		if ce, ok := x.(*ast.CallExpr); ok {
			if se, ok := ce.Fun.(*ast.SelectorExpr); ok {
				if v, ok := c04Tracked[se.Sel.Name]; ok {
					if inner, ok := se.X.(*ast.SelectorExpr); ok && strings.HasSuffix(inner.Sel.Name, "eeper") {
						res = v
						if c != nil {
							arg := func(i int) string {
								if i < len(ce.Args) {
									return c04Ref(c.src(ce.Args[i]))
								}
								return ".other"
							}
							switch se.Sel.Name {
							case "SendCoinsFromAccountToModule", "SendCoinsFromModuleToAccount":
								sig = "⟨" + v + ", " + arg(1) + ", " + arg(2) + ", " + arg(3) + "⟩"
							case "MintCoins", "BurnCoins":
								sig = "⟨" + v + ", " + arg(1) + ", .none, " + arg(2) + "⟩"
							default: // ERC20Mint / ERC20Burn / ERC20Transfer(ctx, contract, from, to, amount)
								sig = "⟨" + v + ", " + arg(2) + ", " + arg(3) + ", " + arg(1) + "⟩"
							}
						}
						return false
					}
				}
				if v, ok := c08Tracked[se.Sel.Name]; ok && c08Mode {
					res = v
					return false
				}
			}
		}
		return true
	})
	return res, sig
}

func c04IsErrCond(c *ctxT, e ast.Expr) bool {
	s := c.src(e)
	return s == "err != nil" || strings.HasSuffix(s, "err != nil")
}

func c04Walk(c *ctxT, stmts []ast.Stmt, paths []c04Path) []c04Path {
	for _, st := range stmts {
		var next []c04Path
		for _, p := range paths {
			if p.done || p.fail {
				next = append(next, p)
				continue
			}
			switch s := st.(type) {
			case *ast.IfStmt:
				if s.Init != nil {
					if call, sig := c04TrackedCallSig(c, s.Init); call != "" {
						p.calls = append(p.calls, call)
						p.sigs = append(p.sigs, sig)
					}
				}
				if c04IsErrCond(c, s.Cond) {
					// error branch: not a success path
					next = append(next, p)
					continue
				}
				cond := c.src(s.Cond)
				t := p.clone()
				t.conds = append(t.conds, "+"+cond)
				next = append(next, c04Walk(c, s.Body.List, []c04Path{t})...)
				f := p.clone()
				f.conds = append(f.conds, "-"+cond)
				switch e := s.Else.(type) {
				case *ast.BlockStmt:
					next = append(next, c04Walk(c, e.List, []c04Path{f})...)
				case *ast.IfStmt:
					next = append(next, c04Walk(c, []ast.Stmt{e}, []c04Path{f})...)
				default:
					next = append(next, f)
				}
			case *ast.ReturnStmt:
				if len(s.Results) == 0 {
					p.done = true
				} else {
					last := s.Results[len(s.Results)-1]
					if call, sig := c04TrackedCallSig(c, last); call != "" {
						p.calls = append(p.calls, call)
						p.sigs = append(p.sigs, sig)
						p.done = true
					} else if id, ok := last.(*ast.Ident); ok && id.Name == "nil" {
						p.done = true
					} else {
						p.fail = true
					}
				}
				next = append(next, p)
			default:
				if call, sig := c04TrackedCallSig(c, st); call != "" {
					p.calls = append(p.calls, call)
					p.sigs = append(p.sigs, sig)
				}
				next = append(next, p)
			}
		}
		paths = next
	}
	return paths
}

type c04Want struct {
	name  string
	must  []string // substrings of signed conditions that must all be present
}

func extractC04(c *ctxT) {
	type fn struct {
		pkg, recv, name string
		wants          []c04Want
	}
	fx := "Denom == fxtypes.DefaultDenom"
	fns := []fn{
		{"x/crosschain/keeper", "Keeper", "DepositBridgeToken", []c04Want{
			{"depositBridgeToken_fx", []string{"+bridgeToken." + fx}},
			{"depositBridgeToken_nativeCoin", []string{"-bridgeToken." + fx, "+tokenPair.IsNativeCoin()"}},
			{"depositBridgeToken_nativeERC20", []string{"-bridgeToken." + fx, "-tokenPair.IsNativeCoin()"}}}},
		{"x/crosschain/keeper", "Keeper", "WithdrawBridgeToken", []c04Want{
			{"withdrawBridgeToken_fx", []string{"+bridgeToken." + fx}},
			{"withdrawBridgeToken_nativeERC20", []string{"-bridgeToken." + fx, "+tokenPair.IsNativeERC20()"}},
			{"withdrawBridgeToken_nativeCoin", []string{"-bridgeToken." + fx, "-tokenPair.IsNativeERC20()"}}}},
		{"x/crosschain/keeper", "Keeper", "ConversionCoin", []c04Want{
			{"conversionCoin_fx", []string{"+coin." + fx}},
			{"conversionCoin_nativeERC20", []string{"-coin." + fx, "+tokenPair.IsNativeERC20()"}},
			{"conversionCoin_baseToBridge", []string{"-tokenPair.IsNativeERC20()", "+coin.Denom == baseDenom"}},
			{"conversionCoin_bridgeToBase", []string{"-tokenPair.IsNativeERC20()", "-coin.Denom == baseDenom"}}}},
		{"x/crosschain/keeper", "Keeper", "AddUnbatchedTxBridgeFee", []c04Want{
			{"addUnbatchedTxBridgeFee_origin", []string{"+isOriginOrConverted"}},
			{"addUnbatchedTxBridgeFee_other", []string{"-isOriginOrConverted"}}}},
		{"x/erc20/keeper", "Keeper", "ConvertCoinNativeCoin", []c04Want{
			{"convertCoinNativeCoin_fx", []string{"+pair." + fx}},
			{"convertCoinNativeCoin_other", []string{"-pair." + fx}}}},
		{"x/erc20/keeper", "Keeper", "ConvertERC20NativeCoin", []c04Want{
			{"convertERC20NativeCoin_fx", []string{"+pair." + fx}},
			{"convertERC20NativeCoin_other", []string{"-pair." + fx}}}},
		{"x/erc20/keeper", "Keeper", "ConvertCoinNativeERC20", []c04Want{{"convertCoinNativeERC20", nil}}},
		{"x/erc20/keeper", "Keeper", "ConvertERC20NativeToken", []c04Want{{"convertERC20NativeToken", nil}}},
		// IBC aliases: voucher <-> base coin through the transfer module account
		{"x/crosschain/keeper", "Keeper", "IBCCoinToBaseCoin", []c04Want{
			{"ibcCoinToBaseCoin_notVoucher", []string{"+!strings.HasPrefix(coin.Denom"}},
			{"ibcCoinToBaseCoin_voucher", []string{"-!strings.HasPrefix(coin.Denom"}}}},
		{"x/crosschain/keeper", "Keeper", "BaseCoinToIBCCoin", []c04Want{
			{"baseCoinToIBCCoin", []string{"-strings.HasPrefix(coin.Denom"}}}},
		// refund of an outgoing bridge call: mint unless origin, unlock; then the older conversion system
		{"x/crosschain/keeper", "Keeper", "bridgeCallTransferCoins", []c04Want{
			{"bridgeCallTransferCoins_mint", []string{"+mintCoins.IsAllPositive()", "+unlockCoins.IsAllPositive()"}},
			{"bridgeCallTransferCoins_unlock", []string{"-mintCoins.IsAllPositive()", "+unlockCoins.IsAllPositive()"}}}},
		{"x/erc20/keeper", "Keeper", "ConvertDenomToTarget", []c04Want{
			{"convertDenomToTarget_same", []string{"+coin.Denom == targetCoin.Denom"}},
			{"convertDenomToTarget", []string{"-coin.Denom == targetCoin.Denom"}}}},
		{"x/erc20/keeper", "Keeper", "convertNativeCoin", []c04Want{
			{"convertNativeCoin_fromBase", []string{"+coin.Denom == metadata.Base"}},
			{"convertNativeCoin_toBase", []string{"-coin.Denom == metadata.Base", "+targetCoin.Denom == metadata.Base"}},
			{"convertNativeCoin_alias", []string{"-coin.Denom == metadata.Base", "-targetCoin.Denom == metadata.Base"}}}},
		{"x/erc20/keeper", "Keeper", "convertNativeERC20", []c04Want{
			{"convertNativeERC20_fromBase", []string{"+coin.Denom == metadata.Base"}},
			{"convertNativeERC20_toBase", []string{"-coin.Denom == metadata.Base", "+targetCoin.Denom == metadata.Base"}},
			{"convertNativeERC20_alias", []string{"-coin.Denom == metadata.Base", "-targetCoin.Denom == metadata.Base"}}}},
		// precompile entry: ERC-20 in, base coin out (the bank part; the ERC-20 burn goes through the running EVM)
		{"x/crosschain/precompile", "Keeper", "convertERC20", []c04Want{
			{"precompileConvertERC20_fx", []string{"+tokenPair.IsNativeCoin()", "+tokenPair.GetDenom() == fxtypes.DefaultDenom"}},
			{"precompileConvertERC20_nativeCoin", []string{"+tokenPair.IsNativeCoin()", "-tokenPair.GetDenom() == fxtypes.DefaultDenom"}},
			{"precompileConvertERC20_nativeERC20", []string{"-tokenPair.IsNativeCoin()", "+tokenPair.IsNativeERC20()"}}}},
		// precompile entry with msg.value: the origin coin goes precompile account -> evm module -> sender
		{"x/crosschain/precompile", "Keeper", "handlerOriginToken", []c04Want{{"handlerOriginToken", nil}}},
	}
	var sb strings.Builder
	sb.WriteString("import FxVerif.Model.C04Handler\nnamespace FxVerif.Gen.C04\nopen FxVerif.Model.Flows (Call)\nopen FxVerif.Model.C04 (BStep BGuard BExit RStep RGuard RExit Cmp CancelRule XStep Sig Ref FCall HStep HRef RfStep TStep CancelArg MintGuard)\n\n")
	facts := map[string]any{}
	for _, f := range fns {
		fd := c.findFunc(f.pkg, f.recv, f.name)
		var paths []c04Path
		if fd != nil && fd.Body != nil {
			paths = c04Walk(c, fd.Body.List, []c04Path{{}})
		}
		// keep success paths (explicitly returned or fell off the end)
		var ok []c04Path
		for _, p := range paths {
			if !p.fail {
				ok = append(ok, p)
			}
		}
		var all []string
		for _, p := range ok {
			all = append(all, strings.Join(p.conds, " ; ")+" => "+strings.Join(p.calls, ","))
		}
		sort.Strings(all)
		facts[f.name] = all
		where := "(function not found)"
		if fd != nil {
			where = c.pos(fd)
		}
		sb.WriteString("/-! `" + f.name + "` " + where + " — success paths:\n")
		for _, a := range all {
			sb.WriteString("  " + strings.ReplaceAll(a, "-/", "- /") + "\n")
		}
		sb.WriteString("-/\n")
		for _, w := range f.wants {
			var hit []c04Path
			for _, p := range ok {
				key := strings.Join(p.conds, "\n")
				match := true
				for _, m := range w.must {
					if !strings.Contains(key, m) {
						match = false
					}
				}
				// ignore paths that took a branch ending in a not-found style error we could not classify
				if match {
					hit = append(hit, p)
				}
			}
			// several paths may match (e.g. extra unrelated conditions); they must agree, else emit the first and the
			// count so that the obligation fails visibly
			calls := []string{}
			if len(hit) > 0 {
				calls = hit[0].calls
				for _, h := range hit[1:] {
					if strings.Join(h.calls, ",") != strings.Join(calls, ",") {
						calls = append(append([]string{}, calls...), ".burnCoins", ".burnCoins", ".burnCoins") // ambiguous: poison
						break
					}
				}
			}
			sb.WriteString("def " + w.name + " : List Call := " + leanList(calls) + "\n")
			// typed signatures (module / account / coin expression of every call), same path
			sigs := []string{}
			if len(hit) > 0 {
				sigs = hit[0].sigs
				for _, h := range hit[1:] {
					if strings.Join(h.sigs, ",") != strings.Join(sigs, ",") {
						sigs = append(append([]string{}, sigs...), "⟨.burnCoins, .other, .other, .other⟩") // ambiguous: poison
						break
					}
				}
			}
			sb.WriteString("def " + w.name + "_sigs : List Sig := " + leanList(sigs) + "\n")
		}
		sb.WriteString("\n")
	}
	c04Compose(c, &sb)
	c04Batch(c, &sb)
	c04ExecuteClaim(c, &sb)
	c04Handler(c, &sb)
	sb.WriteString("end FxVerif.Gen.C04\n")
	c.write("C04.lean", sb.String())
	c.facts["C04.paths"] = facts
}

// ---------------------------------------------------------------------------------------------------------------
// batch life cycle: the statements of MsgServer.RequestBatch and Keeper.BuildOutgoingTxBatch in source order (guards
// with the way they leave the function, the pool-removing pick, the store), the guard of the cancel loop of
// OutgoingTxBatchExecuted, and the batch-nonce rule of the bridge contracts' submitBatch.

var c04CallRe = regexp.MustCompile(`\b(pickUnBatchedTx|StoreBatch|BuildOutgoingTxBatch|AccAddressFromBech32|GetContractByBridgeDenom|autoIncrementID)\(`)

// c04LastCall returns the name of the tracked call an assignment / init statement makes, or "".
func c04LastCall(c *ctxT, n ast.Node) string {
	if n == nil {
		return ""
	}
	if m := c04CallRe.FindStringSubmatch(c.src(n)); m != nil {
		return m[1]
	}
	return ""
}

// c04ReturnOf returns the first return statement directly inside a block (not nested in further ifs), or nil.
func c04ReturnOf(b *ast.BlockStmt) *ast.ReturnStmt {
	for _, st := range b.List {
		if r, ok := st.(*ast.ReturnStmt); ok {
			return r
		}
	}
	return nil
}

func c04IsNil(e ast.Expr) bool {
	id, ok := e.(*ast.Ident)
	return ok && id.Name == "nil"
}

type c04Stmt struct {
	kind  string // "guard", "call"
	cond  string // guard: condition text (outer && inner for nested guards)
	last  string // guard: tracked call that produced `err` / `found`
	okRet bool   // guard: the return's last result is nil (success)
	name  string // call: tracked call name
}

// c04Statements flattens a function body into guards (ifs that return) and tracked calls, in source order.
func c04Statements(c *ctxT, stmts []ast.Stmt, outer string, last *string, out *[]c04Stmt) {
	for _, st := range stmts {
		switch s := st.(type) {
		case *ast.AssignStmt, *ast.ExprStmt, *ast.DeclStmt:
			if n := c04LastCall(c, s); n != "" {
				*last = n
				*out = append(*out, c04Stmt{kind: "call", name: n})
			}
		case *ast.IfStmt:
			if n := c04LastCall(c, s.Init); n != "" {
				*last = n
				*out = append(*out, c04Stmt{kind: "call", name: n})
			}
			cond := c.src(s.Cond)
			if s.Init != nil {
				cond = c.src(s.Init) + "; " + cond
			}
			if outer != "" {
				cond = outer + " && " + cond
			}
			if r := c04ReturnOf(s.Body); r != nil && len(r.Results) > 0 {
				*out = append(*out, c04Stmt{kind: "guard", cond: cond, last: *last, okRet: c04IsNil(r.Results[len(r.Results)-1])})
			} else {
				c04Statements(c, s.Body.List, cond, last, out)
			}
			if e, ok := s.Else.(*ast.BlockStmt); ok {
				c04Statements(c, e.List, "!("+cond+")", last, out)
			}
		case *ast.ReturnStmt:
			*out = append(*out, c04Stmt{kind: "return", cond: c.src(s)})
		}
	}
}

func c04Batch(c *ctxT, sb *strings.Builder) {
	const keeper = "x/crosschain/keeper"
	squash := func(s string) string { return regexp.MustCompile(`\s+`).ReplaceAllString(s, "") }
	// ---- BuildOutgoingTxBatch ----
	{
		var steps, notes []string
		if fd := c.findFunc(keeper, "Keeper", "BuildOutgoingTxBatch"); fd != nil && fd.Body != nil {
			var sts []c04Stmt
			last := ""
			c04Statements(c, fd.Body.List, "", &last, &sts)
			for _, st := range sts {
				switch st.kind {
				case "call":
					switch st.name {
					case "pickUnBatchedTx":
						steps = append(steps, ".pick")
					case "StoreBatch":
						steps = append(steps, ".store")
					}
				case "guard":
					q := squash(st.cond)
					g := ".unknown"
					switch {
					case strings.HasSuffix(q, "err!=nil") && st.last == "pickUnBatchedTx":
						g = ".pickErr"
					case strings.HasSuffix(q, "err!=nil") && st.last == "StoreBatch":
						g = ".storeErr"
					case q == "maxElements==0":
						g = ".maxZero"
					case strings.Contains(q, ".GetFees().GT("):
						g = ".notProfitable"
					case q == "len(selectedTx)==0":
						g = ".noTx"
					case strings.Contains(q, ".LT(minimumFee)"):
						g = ".belowMinFee"
					case q == "batchTimeout<=0":
						g = ".zeroTimeout"
					}
					x := ".err"
					if st.okRet {
						x = ".okNoBatch"
					}
					steps = append(steps, ".guard "+g+" "+x)
					notes = append(notes, g+" "+x+"  <=  if "+st.cond)
				}
			}
		}
		sb.WriteString("/-! `BuildOutgoingTxBatch` — statements in source order:\n")
		for _, n := range notes {
			sb.WriteString("  " + strings.ReplaceAll(n, "-/", "- /") + "\n")
		}
		sb.WriteString("-/\ndef buildOutgoingTxBatch_steps : List BStep := " + leanList(steps) + "\n\n")
		c.facts["C04.buildOutgoingTxBatch_steps"] = steps
	}
	// ---- MsgServer.RequestBatch ----
	{
		var steps, notes []string
		if fd := c.findFunc(keeper, "MsgServer", "RequestBatch"); fd != nil && fd.Body != nil {
			var sts []c04Stmt
			last := ""
			c04Statements(c, fd.Body.List, "", &last, &sts)
			for _, st := range sts {
				switch st.kind {
				case "call":
					if st.name == "BuildOutgoingTxBatch" {
						steps = append(steps, ".build")
					}
				case "guard":
					q := squash(st.cond)
					g := ".unknown"
					switch {
					case strings.HasSuffix(q, "err!=nil") && st.last == "AccAddressFromBech32":
						g = ".badSender"
					case strings.HasSuffix(q, "err!=nil") && st.last == "BuildOutgoingTxBatch":
						g = ".buildErr"
					case q == "!found" && st.last == "GetContractByBridgeDenom":
						g = ".noToken"
					case strings.Contains(q, "!s.HasOracleAddrByBridgerAddr(") && strings.Contains(q, "!s.IsProposalOracle("):
						g = ".notOracle"
					case q == "batch==nil":
						g = ".nilBatch"
					}
					x := ".err"
					if st.okRet {
						x = ".okEmpty"
					}
					steps = append(steps, ".guard "+g+" "+x)
					notes = append(notes, g+" "+x+"  <=  if "+st.cond)
				case "return":
					// the final return: dereferences the batch it answers with
					if strings.Contains(squash(st.cond), "batch.BatchNonce") {
						steps = append(steps, ".respond")
					}
					notes = append(notes, "return  <=  "+st.cond)
				}
			}
		}
		sb.WriteString("/-! `MsgServer.RequestBatch` — statements in source order:\n")
		for _, n := range notes {
			sb.WriteString("  " + strings.ReplaceAll(strings.ReplaceAll(n, "-/", "- /"), "\n", " ") + "\n")
		}
		sb.WriteString("-/\ndef requestBatch_steps : List RStep := " + leanList(steps) + "\n\n")
		c.facts["C04.requestBatch_steps"] = steps
	}
	// ---- OutgoingTxBatchExecuted: guard of the cancel loop ----
	{
		cmp, same, where := "unknown", false, "(no comparison of batch nonces found)"
		if fd := c.findFunc(keeper, "Keeper", "OutgoingTxBatchExecuted"); fd != nil && fd.Body != nil {
			re := regexp.MustCompile(`\w+\.BatchNonce(<=|>=|<|>|==|!=)batch\.BatchNonce`)
			ast.Inspect(fd.Body, func(n ast.Node) bool {
				ifs, ok := n.(*ast.IfStmt)
				if !ok || cmp != "unknown" {
					return true
				}
				q := squash(c.src(ifs.Cond))
				if m := re.FindStringSubmatch(q); m != nil {
					cmp = c04Cmp(m[1])
					same = regexp.MustCompile(`\w+\.TokenContract==(tokenContract|batch\.TokenContract)`).MatchString(q)
					where = c.pos(ifs) + ": if " + c.src(ifs.Cond)
				}
				return true
			})
		}
		sb.WriteString("/-- guard of the cancel loop of `OutgoingTxBatchExecuted` — " + strings.ReplaceAll(where, "-/", "- /") + " -/\n")
		sb.WriteString("def executedCancelRule : CancelRule := ⟨." + cmp + ", " + leanBool(same) + "⟩\n\n")
		c.facts["C04.executedCancelRule"] = []any{cmp, same}
		// WHICH batch the loop cancels: the nonce argument of CancelOutgoingTxBatch inside the loop (the iterated batch's / the
		// executed batch's)
		carg, cwhere := "unknown", "(no CancelOutgoingTxBatch call found)"
		if fd := c.findFunc(keeper, "Keeper", "OutgoingTxBatchExecuted"); fd != nil && fd.Body != nil {
			if ce := c04FindCall(fd.Body, "CancelOutgoingTxBatch"); ce != nil && len(ce.Args) >= 3 {
				a := squash(c.src(ce.Args[2]))
				switch {
				case a == "batch.BatchNonce" || a == "batchNonce":
					carg = "executed"
				case regexp.MustCompile(`^\w+\.BatchNonce$`).MatchString(a):
					carg = "iter"
				}
				tok := squash(c.src(ce.Args[1]))
				if tok != "tokenContract" && tok != "batch.TokenContract" && !regexp.MustCompile(`^\w+\.TokenContract$`).MatchString(tok) {
					carg = "unknown"
				}
				cwhere = c.pos(ce) + ": " + c.src(ce)
			}
		}
		sb.WriteString("/-- the batch the cancel loop of `OutgoingTxBatchExecuted` cancels — " + strings.ReplaceAll(cwhere, "-/", "- /") + " -/\n")
		sb.WriteString("def executedCancelArg : CancelArg := ." + carg + "\n\n")
		c.facts["C04.executedCancelArg"] = carg
	}
	// ---- Solidity: submitBatch's nonce rule, per bridge-logic file ----
	{
		var rows []string
		for _, f := range []string{"FxBridgeLogic.sol", "FxBridgeLogicETH.sol", "FxBridgeLogicBSC.sol"} {
			bz, err := os.ReadFile(filepath.Join(c.repo, "solidity", "contracts", "bridge", f))
			if err != nil {
				continue
			}
			sol := string(bz)
			body := ""
			if i := strings.Index(sol, "function submitBatch("); i >= 0 {
				body = sol[i:]
				if j := strings.Index(body[10:], "\n    function "); j >= 0 {
					body = body[:10+j]
				}
			}
			q := squash(body)
			cmp := "unknown"
			if m := regexp.MustCompile(`require\(state_lastBatchNonces\[_tokenContract\](<=|>=|<|>|==|!=)_nonceArray\[1\],`).FindStringSubmatch(q); m != nil {
				cmp = c04Cmp(m[1])
			}
			perToken := strings.Contains(q, "state_lastBatchNonces[_tokenContract]=_nonceArray[1];") &&
				regexp.MustCompile(`mapping\(address=>uint256\)publicstate_lastBatchNonces;`).MatchString(squash(sol))
			rows = append(rows, "("+leanStr(f)+", ."+cmp+", "+leanBool(perToken)+")")
		}
		sb.WriteString("/-- `submitBatch` of every bridge-logic contract: `require(state_lastBatchNonces[_tokenContract] <cmp> batchNonce)`, and\nwhether the last executed nonce is kept PER TOKEN (`mapping(address => uint256)`, set to the executed nonce) -/\n")
		sb.WriteString("def solBatchNonceRules : List (String × Cmp × Bool) := " + leanList(rows) + "\n\n")
		c.facts["C04.solBatchNonceRules"] = rows
	}
}

func c04Cmp(op string) string {
	switch op {
	case "<":
		return "lt"
	case "<=":
		return "le"
	case ">":
		return "gt"
	case ">=":
		return "ge"
	case "==":
		return "eq"
	case "!=":
		return "ne"
	}
	return "unknown"
}


// ---------------------------------------------------------------------------------------------------------------
// ExecuteClaim: the order of "look the pending claim up", "delete it", "run its handler".  The handlers hand control
// to arbitrary EVM code (BridgeCallHandler -> CallEVM), which can call the executeClaim precompile again: the claim
// must be gone from the pending store BEFORE its handler runs.
func c04ExecuteClaim(c *ctxT, sb *strings.Builder) {
	type hit struct {
		pos  int
		step string
	}
	var steps, notes []string
	if fd := c.findFunc("x/crosschain/keeper", "Keeper", "ExecuteClaim"); fd != nil && fd.Body != nil {
		handler := regexp.MustCompile(`\b(SendToFxExecuted|BridgeCallHandler|BridgeCallResultHandler|executeClaim)\(`)
		for _, st := range fd.Body.List {
			src := c.src(st)
			var hs []hit
			if i := strings.Index(src, "GetPendingExecuteClaim("); i >= 0 {
				hs = append(hs, hit{i, ".lookup"})
			}
			if i := strings.Index(src, "DeletePendingExecuteClaim("); i >= 0 {
				hs = append(hs, hit{i, ".delete"})
			}
			if loc := handler.FindStringIndex(src); loc != nil {
				hs = append(hs, hit{loc[0], ".handle"})
			}
			sort.Slice(hs, func(i, j int) bool { return hs[i].pos < hs[j].pos })
			for _, h := range hs {
				steps = append(steps, h.step)
				line := src
				if j := strings.IndexByte(line, '\n'); j >= 0 {
					line = line[:j] + " …"
				}
				notes = append(notes, h.step+"  <=  "+line)
			}
		}
	}
	sb.WriteString("/-! `ExecuteClaim` — statements in source order:\n")
	for _, n := range notes {
		sb.WriteString("  " + strings.ReplaceAll(n, "-/", "- /") + "\n")
	}
	sb.WriteString("-/\ndef executeClaim_steps : List XStep := " + leanList(steps) + "\n\n")
	c.facts["C04.executeClaim_steps"] = steps
}

// ---------------------------------------------------------------------------------------------------------------
// composition: which money-moving functions a composite function calls, in source order (`List FCall`); for the
// outgoing pool also the expression whose amount is moved.
var c04FCalls = map[string]string{
	"DepositBridgeToken": ".depositBridgeToken", "WithdrawBridgeToken": ".withdrawBridgeToken", "ConversionCoin": ".conversionCoin",
	"BridgeTokenToBaseCoin": ".bridgeTokenToBaseCoin", "BaseCoinToBridgeToken": ".baseCoinToBridgeToken",
	"IBCCoinToBaseCoin": ".ibcCoinToBaseCoin", "BaseCoinToIBCCoin": ".baseCoinToIBCCoin", "Transfer": ".ibcTransfer",
	"ConvertCoin": ".convertCoin", "BaseCoinToEvm": ".baseCoinToEvm", "transferIBCHandler": ".transferIBCHandler",
	"IbcRefund": ".ibcRefund", "AddUnbatchedTx": ".addUnbatchedTx",
}

func c04CallOrder(fd *ast.FuncDecl) []string {
	var res []string
	if fd == nil || fd.Body == nil {
		return res
	}
	ast.Inspect(fd.Body, func(n ast.Node) bool {
		if ce, ok := n.(*ast.CallExpr); ok {
			if se, ok := ce.Fun.(*ast.SelectorExpr); ok {
				if v, ok := c04FCalls[se.Sel.Name]; ok {
					res = append(res, v)
				}
			}
		}
		return true
	})
	return res
}

func c04Compose(c *ctxT, sb *strings.Builder) {
	type fn struct{ pkg, recv, name, def string }
	for _, f := range []fn{
		{"x/crosschain/keeper", "Keeper", "BridgeTokenToBaseCoin", "bridgeTokenToBaseCoin_calls"},
		{"x/crosschain/keeper", "Keeper", "BaseCoinToBridgeToken", "baseCoinToBridgeToken_calls"},
		{"x/crosschain/keeper", "Keeper", "IBCCoinToEvm", "ibcCoinToEvm_calls"},
		{"x/crosschain/keeper", "Keeper", "IBCCoinRefund", "ibcCoinRefund_calls"},
		{"x/crosschain/keeper", "Keeper", "SendToFxExecuted", "sendToFxExecuted_calls"},
		{"x/crosschain/keeper", "Keeper", "transferIBCHandler", "transferIBCHandler_calls"},
		{"x/crosschain/keeper", "Keeper", "addToOutgoingPool", "addToOutgoingPool_calls"},
		{"x/crosschain/precompile", "Keeper", "ibcTransfer", "precompileIbcTransfer_calls"},
	} {
		fd := c.findFunc(f.pkg, f.recv, f.name)
		calls := c04CallOrder(fd)
		where := "(function not found)"
		if fd != nil {
			where = c.pos(fd)
		}
		sb.WriteString("/-- money-moving calls of `" + f.name + "` in source order — " + where + " -/\n")
		sb.WriteString("def " + f.def + " : List FCall := " + leanList(calls) + "\n\n")
		c.facts["C04."+f.def] = calls
	}
	// addToOutgoingPool: the coin handed to BaseCoinToBridgeToken
	arg := "(not found)"
	if fd := c.findFunc("x/crosschain/keeper", "Keeper", "addToOutgoingPool"); fd != nil && fd.Body != nil {
		ast.Inspect(fd.Body, func(n ast.Node) bool {
			if ce, ok := n.(*ast.CallExpr); ok {
				if se, ok := ce.Fun.(*ast.SelectorExpr); ok && se.Sel.Name == "BaseCoinToBridgeToken" && len(ce.Args) >= 2 {
					arg = c04Space.ReplaceAllString(c.src(ce.Args[1]), "")
				}
			}
			return true
		})
	}
	sb.WriteString("/-- the coin `addToOutgoingPool` hands to `BaseCoinToBridgeToken`: `" + strings.ReplaceAll(arg, "-/", "- /") + "` -/\n")
	sb.WriteString("def addToOutgoingPool_movesAmountPlusFee : Bool := " + leanBool(arg == "amount.Add(fee)" || arg == "fee.Add(amount)") + "\n\n")
	c.facts["C04.addToOutgoingPool_arg"] = arg
}
