package main

import (
	"go/ast"
	"sort"
	"strings"
)

// C04 / C08: for the Go functions that move money between bank accounts and ERC-20 contracts, the ordered list of
// bank-keeper / ERC-20-keeper calls on every success path, per branch.  Emitted as `List Call` definitions
// (`Gen/C04.lean`); `Props/C04.lean` and `Props/C08.lean` oblige the model's flows to make exactly these calls in this
// order, so dropping, duplicating or reordering a mint / burn / send changes a definition the theorems are stated over.
func init() { register(extractC04) }

var c04Tracked = map[string]string{
	"SendCoinsFromAccountToModule": ".sendAccToMod",
	"SendCoinsFromModuleToAccount": ".sendModToAcc",
	"MintCoins":                    ".mintCoins",
	"BurnCoins":                    ".burnCoins",
	"ERC20Mint":                    ".erc20Mint",
	"ERC20Burn":                    ".erc20Burn",
	"ERC20Transfer":                ".erc20Transfer",
}

// C08: index-maintaining calls of the erc20 keeper
var c08Mode = false
var c08Tracked = map[string]string{
	"SetAliasesDenom":    ".setAliases",
	"DeleteAliasesDenom": ".deleteAliases",
	"SetDenomMetaData":   ".setMetadata",
	"AddTokenPair":       ".addTokenPair",
	"SetTokenPair":       ".setTokenPair",
}

type c04Path struct {
	conds []string
	calls []string
	done  bool // returned successfully
	fail  bool // returned an error
}

func (p c04Path) clone() c04Path {
	return c04Path{conds: append([]string{}, p.conds...), calls: append([]string{}, p.calls...), done: p.done, fail: p.fail}
}

// trackedCall returns the Lean constructor of the first tracked keeper call inside an expression, or "".
func c04TrackedCall(n ast.Node) string {
	res := ""
	ast.Inspect(n, func(x ast.Node) bool {
		if res != "" {
			return false
		}
		if ce, ok := x.(*ast.CallExpr); ok {
			if se, ok := ce.Fun.(*ast.SelectorExpr); ok {
				if v, ok := c04Tracked[se.Sel.Name]; ok {
					if inner, ok := se.X.(*ast.SelectorExpr); ok && strings.HasSuffix(inner.Sel.Name, "eeper") {
						res = v
						return false
					}
				}
				if v, ok := c08Tracked[se.Sel.Name]; ok && c08Mode {
					res = v
					return false
				}
			}
		}
		return true
	})
	return res
}

func c04IsErrCond(c *ctxT, e ast.Expr) bool {
	s := c.src(e)
	return s == "err != nil" || strings.HasSuffix(s, "err != nil")
}

func c04Walk(c *ctxT, stmts []ast.Stmt, paths []c04Path) []c04Path {
	for _, st := range stmts {
		var next []c04Path
		for _, p := range paths {
			if p.done || p.fail {
				next = append(next, p)
				continue
			}
			switch s := st.(type) {
			case *ast.IfStmt:
				if s.Init != nil {
					if call := c04TrackedCall(s.Init); call != "" {
						p.calls = append(p.calls, call)
					}
				}
				if c04IsErrCond(c, s.Cond) {
					// error branch: not a success path
					next = append(next, p)
					continue
				}
				cond := c.src(s.Cond)
				t := p.clone()
				t.conds = append(t.conds, "+"+cond)
				next = append(next, c04Walk(c, s.Body.List, []c04Path{t})...)
				f := p.clone()
				f.conds = append(f.conds, "-"+cond)
				switch e := s.Else.(type) {
				case *ast.BlockStmt:
					next = append(next, c04Walk(c, e.List, []c04Path{f})...)
				case *ast.IfStmt:
					next = append(next, c04Walk(c, []ast.Stmt{e}, []c04Path{f})...)
				default:
					next = append(next, f)
				}
			case *ast.ReturnStmt:
				if len(s.Results) == 0 {
					p.done = true
				} else {
					last := s.Results[len(s.Results)-1]
					if call := c04TrackedCall(last); call != "" {
						p.calls = append(p.calls, call)
						p.done = true
					} else if id, ok := last.(*ast.Ident); ok && id.Name == "nil" {
						p.done = true
					} else {
						p.fail = true
					}
				}
				next = append(next, p)
			default:
				if call := c04TrackedCall(st); call != "" {
					p.calls = append(p.calls, call)
				}
				next = append(next, p)
			}
		}
		paths = next
	}
	return paths
}

type c04Want struct {
	name  string
	must  []string // substrings of signed conditions that must all be present
}

func extractC04(c *ctxT) {
	type fn struct {
		pkg, recv, name string
		wants          []c04Want
	}
	fx := "Denom == fxtypes.DefaultDenom"
	fns := []fn{
		{"x/crosschain/keeper", "Keeper", "DepositBridgeToken", []c04Want{
			{"depositBridgeToken_fx", []string{"+bridgeToken." + fx}},
			{"depositBridgeToken_nativeCoin", []string{"-bridgeToken." + fx, "+tokenPair.IsNativeCoin()"}},
			{"depositBridgeToken_nativeERC20", []string{"-bridgeToken." + fx, "-tokenPair.IsNativeCoin()"}}}},
		{"x/crosschain/keeper", "Keeper", "WithdrawBridgeToken", []c04Want{
			{"withdrawBridgeToken_fx", []string{"+bridgeToken." + fx}},
			{"withdrawBridgeToken_nativeERC20", []string{"-bridgeToken." + fx, "+tokenPair.IsNativeERC20()"}},
			{"withdrawBridgeToken_nativeCoin", []string{"-bridgeToken." + fx, "-tokenPair.IsNativeERC20()"}}}},
		{"x/crosschain/keeper", "Keeper", "ConversionCoin", []c04Want{
			{"conversionCoin_fx", []string{"+coin." + fx}},
			{"conversionCoin_nativeERC20", []string{"-coin." + fx, "+tokenPair.IsNativeERC20()"}},
			{"conversionCoin_baseToBridge", []string{"-tokenPair.IsNativeERC20()", "+coin.Denom == baseDenom"}},
			{"conversionCoin_bridgeToBase", []string{"-tokenPair.IsNativeERC20()", "-coin.Denom == baseDenom"}}}},
		{"x/crosschain/keeper", "Keeper", "AddUnbatchedTxBridgeFee", []c04Want{
			{"addUnbatchedTxBridgeFee_origin", []string{"+isOriginOrConverted"}},
			{"addUnbatchedTxBridgeFee_other", []string{"-isOriginOrConverted"}}}},
		{"x/erc20/keeper", "Keeper", "ConvertCoinNativeCoin", []c04Want{
			{"convertCoinNativeCoin_fx", []string{"+pair." + fx}},
			{"convertCoinNativeCoin_other", []string{"-pair." + fx}}}},
		{"x/erc20/keeper", "Keeper", "ConvertERC20NativeCoin", []c04Want{
			{"convertERC20NativeCoin_fx", []string{"+pair." + fx}},
			{"convertERC20NativeCoin_other", []string{"-pair." + fx}}}},
		{"x/erc20/keeper", "Keeper", "ConvertCoinNativeERC20", []c04Want{{"convertCoinNativeERC20", nil}}},
		{"x/erc20/keeper", "Keeper", "ConvertERC20NativeToken", []c04Want{{"convertERC20NativeToken", nil}}},
	}
	var sb strings.Builder
	sb.WriteString("import FxVerif.Model.Flows\nnamespace FxVerif.Gen.C04\nopen FxVerif.Model.Flows (Call)\n\n")
	facts := map[string]any{}
	for _, f := range fns {
		fd := c.findFunc(f.pkg, f.recv, f.name)
		var paths []c04Path
		if fd != nil && fd.Body != nil {
			paths = c04Walk(c, fd.Body.List, []c04Path{{}})
		}
		// keep success paths (explicitly returned or fell off the end)
		var ok []c04Path
		for _, p := range paths {
			if !p.fail {
				ok = append(ok, p)
			}
		}
		var all []string
		for _, p := range ok {
			all = append(all, strings.Join(p.conds, " ; ")+" => "+strings.Join(p.calls, ","))
		}
		sort.Strings(all)
		facts[f.name] = all
		where := "(function not found)"
		if fd != nil {
			where = c.pos(fd)
		}
		sb.WriteString("/-! `" + f.name + "` " + where + " — success paths:\n")
		for _, a := range all {
			sb.WriteString("  " + strings.ReplaceAll(a, "-/", "- /") + "\n")
		}
		sb.WriteString("-/\n")
		for _, w := range f.wants {
			var hit []c04Path
			for _, p := range ok {
				key := strings.Join(p.conds, "\n")
				match := true
				for _, m := range w.must {
					if !strings.Contains(key, m) {
						match = false
					}
				}
				// ignore paths that took a branch ending in a not-found style error we could not classify
				if match {
					hit = append(hit, p)
				}
			}
			// several paths may match (e.g. extra unrelated conditions); they must agree, else emit the first and the
			// count so that the obligation fails visibly
			calls := []string{}
			if len(hit) > 0 {
				calls = hit[0].calls
				for _, h := range hit[1:] {
					if strings.Join(h.calls, ",") != strings.Join(calls, ",") {
						calls = append(append([]string{}, calls...), ".burnCoins", ".burnCoins", ".burnCoins") // ambiguous: poison
						break
					}
				}
			}
			sb.WriteString("def " + w.name + " : List Call := " + leanList(calls) + "\n")
		}
		sb.WriteString("\n")
	}
	sb.WriteString("end FxVerif.Gen.C04\n")
	c.write("C04.lean", sb.String())
	c.facts["C04.paths"] = facts
}
