package main

import (
	"fmt"
	"go/ast"
	"go/parser"
	"go/token"
	"path/filepath"
	"strings"
)

// C08 (fifth table, round 5): the storage-cache and journal code of the ethermint fork's StateDB that Model/C08Cache.lean
// and Model/C08Journal.lean are a model of, re-read FROM THE MODULE CACHE (fork and version resolved through /repo/go.mod)
// on every run and emitted as statement lists that Model/C08Dep.lean INTERPRETS:
//
//   x/evm/statedb/state_object.go  (*stateObject).GetCommittedState / GetState / SetState / setState
//   x/evm/statedb/journal.go       storageChange.Revert, the loop of (*journal).Revert (direction, truncation)
//   x/evm/statedb/statedb.go       the per-slot loop body of (*StateDB).Commit, and whether the native store is committed
//                                  before it
//   x/evm/keeper/state_transition.go  ApplyMessageWithConfig builds a NEW StateDB over the ctx it is given and commits it
//                                  only when `commit` (the keeper-level nested call of the model)
//
// Props/C08.lean proves the hand model (Outer.read / Outer.write / Outer.commit / Outer.revertTo) equal to the
// interpretation, for every StateDB state, slot and value; a statement that is dropped, reordered or changed in the fork
// becomes a different statement list and the proof stops compiling.  A statement the translator does not know is emitted
// as `.other "<source>"`, on which the interpretation gets stuck (so the proof, not the translator, breaks).
func init() { register(extractC08e) }

func c08eFlat(s string) string { return strings.Join(strings.Fields(s), " ") }

// mapOf: `s.dirtyStorage` / `obj.originStorage` / … -> Lean MapId
func c08eMap(src string) string {
	switch {
	case strings.HasSuffix(src, ".dirtyStorage"):
		return ".dirty"
	case strings.HasSuffix(src, ".originStorage"):
		return ".origin"
	case strings.HasSuffix(src, ".overrideStorage"):
		return ".override"
	}
	return ""
}

func (c *ctxT) c08eStmt(st ast.Stmt) string {
	src := c08eFlat(c.src(st))
	other := ".other " + leanStr(src)
	switch s := st.(type) {
	case *ast.IfStmt:
		// if s.overrideStorage != nil { … }
		if s.Init == nil {
			if be, ok := s.Cond.(*ast.BinaryExpr); ok {
				l, r := c08eFlat(c.src(be.X)), c08eFlat(c.src(be.Y))
				if be.Op == token.NEQ && c08eMap(l) == ".override" && r == "nil" {
					return ".overrideGuard"
				}
				// if prev == value { return }            (SetState)
				// if value == obj.originStorage[key] { continue }   (Commit)
				if be.Op == token.EQL && len(s.Body.List) == 1 && s.Else == nil {
					switch b := s.Body.List[0].(type) {
					case *ast.ReturnStmt:
						if len(b.Results) == 0 && isIdent(be.X) && isIdent(be.Y) {
							return fmt.Sprintf(".retIfEq %s %s", leanStr(l), leanStr(r))
						}
					case *ast.BranchStmt:
						if b.Tok == token.CONTINUE && isIdent(be.X) {
							if ix, ok := be.Y.(*ast.IndexExpr); ok && c08eFlat(c.src(ix.Index)) == "key" {
								if m := c08eMap(c08eFlat(c.src(ix.X))); m != "" {
									return fmt.Sprintf(".skipIfEqMap %s %s", leanStr(l), m)
								}
							}
						}
					}
				}
			}
			return other
		}
		// if value, ok := s.<map>[key]; ok { return value }
		as, ok := s.Init.(*ast.AssignStmt)
		if !ok || len(as.Lhs) != 2 || len(as.Rhs) != 1 || s.Else != nil || len(s.Body.List) != 1 {
			return other
		}
		ix, ok := as.Rhs[0].(*ast.IndexExpr)
		if !ok || c08eFlat(c.src(ix.Index)) != "key" {
			return other
		}
		m := c08eMap(c08eFlat(c.src(ix.X)))
		ret, ok2 := s.Body.List[0].(*ast.ReturnStmt)
		if m == "" || !ok2 || len(ret.Results) != 1 || c.src(ret.Results[0]) != c.src(as.Lhs[0]) || c.src(s.Cond) != c.src(as.Lhs[1]) {
			return other
		}
		return ".retIfIn " + m
	case *ast.AssignStmt:
		if len(s.Lhs) != 1 || len(s.Rhs) != 1 {
			return other
		}
		lhs, rhs := c08eFlat(c.src(s.Lhs[0])), c08eFlat(c.src(s.Rhs[0]))
		// s.<map>[key] = x
		if ix, ok := s.Lhs[0].(*ast.IndexExpr); ok && s.Tok == token.ASSIGN {
			if m := c08eMap(c08eFlat(c.src(ix.X))); m != "" && c08eFlat(c.src(ix.Index)) == "key" && isIdent(s.Rhs[0]) {
				return fmt.Sprintf(".put %s %s", m, leanStr(rhs))
			}
			return other
		}
		if !isIdent(s.Lhs[0]) || s.Tok != token.DEFINE {
			return other
		}
		// x := s.db.keeper.GetState(s.db.ctx, s.Address(), key)
		if rhs == "s.db.keeper.GetState(s.db.ctx, s.Address(), key)" {
			return ".load " + leanStr(lhs)
		}
		// x := obj.<map>[key]
		if ix, ok := s.Rhs[0].(*ast.IndexExpr); ok && c08eFlat(c.src(ix.Index)) == "key" {
			if m := c08eMap(c08eFlat(c.src(ix.X))); m != "" {
				return fmt.Sprintf(".getMap %s %s", leanStr(lhs), m)
			}
		}
		// x := s.F(key)
		if ce, ok := s.Rhs[0].(*ast.CallExpr); ok && len(ce.Args) == 1 && c.src(ce.Args[0]) == "key" {
			if se, ok := ce.Fun.(*ast.SelectorExpr); ok && c.src(se.X) == "s" {
				return fmt.Sprintf(".call %s %s", leanStr(lhs), leanStr(se.Sel.Name))
			}
		}
		return other
	case *ast.ReturnStmt:
		if len(s.Results) != 1 {
			return other
		}
		if isIdent(s.Results[0]) {
			return ".ret " + leanStr(c.src(s.Results[0]))
		}
		if ce, ok := s.Results[0].(*ast.CallExpr); ok && len(ce.Args) == 1 && c.src(ce.Args[0]) == "key" {
			if se, ok := ce.Fun.(*ast.SelectorExpr); ok && c.src(se.X) == "s" {
				return ".retCall " + leanStr(se.Sel.Name)
			}
		}
		return other
	case *ast.ExprStmt:
		ce, ok := s.X.(*ast.CallExpr)
		if !ok {
			return other
		}
		fn := c08eFlat(c.src(ce.Fun))
		switch {
		case fn == "s.db.journal.append" && len(ce.Args) == 1:
			// storageChange{account: &s.address, key: key, prevalue: prev}
			if cl, ok := ce.Args[0].(*ast.CompositeLit); ok && c.src(cl.Type) == "storageChange" {
				key, prev := "", ""
				for _, el := range cl.Elts {
					if kv, ok := el.(*ast.KeyValueExpr); ok {
						switch c.src(kv.Key) {
						case "key":
							key = c.src(kv.Value)
						case "prevalue":
							prev = c.src(kv.Value)
						}
					}
				}
				if key == "key" && prev != "" {
					return ".journal " + leanStr(prev)
				}
			}
		case fn == "s.keeper.SetState" && len(ce.Args) == 4 && c.src(ce.Args[2]) == "key":
			// s.keeper.SetState(s.origCtx, obj.Address(), key, value.Bytes())
			v := strings.TrimSuffix(c08eFlat(c.src(ce.Args[3])), ".Bytes()")
			return ".storeSet " + leanStr(v)
		case len(ce.Args) == 2:
			// s.setState(key, value)  /  s.getStateObject(*ch.account).setState(ch.key, ch.prevalue)
			if se, ok := ce.Fun.(*ast.SelectorExpr); ok {
				recv, k, v := c08eFlat(c.src(se.X)), c.src(ce.Args[0]), c.src(ce.Args[1])
				if (recv == "s" && k == "key") || (recv == "s.getStateObject(*ch.account)" && k == "ch.key") {
					return fmt.Sprintf(".proc %s %s", leanStr(se.Sel.Name), leanStr(strings.TrimPrefix(v, "ch.")))
				}
			}
		}
		return other
	}
	return other
}

func isIdent(e ast.Expr) bool { _, ok := e.(*ast.Ident); return ok }

func extractC08e(c *ctxT) {
	var sb strings.Builder
	sb.WriteString("import FxVerif.Model.C08Dep\nnamespace FxVerif.Gen.C08e\nopen FxVerif.Model.C08Dep\n\n")
	edir := c.depDir("github.com/evmos/ethermint")
	sb.WriteString("def ethermintDir : String := " + leanStr(filepath.Base(edir)) + "\n\n")
	parse := func(rel ...string) *ast.File {
		f, err := parser.ParseFile(c.fset, filepath.Join(append([]string{edir}, rel...)...), nil, 0)
		if err != nil {
			return nil
		}
		return f
	}
	find := func(f *ast.File, recv, name string) *ast.FuncDecl {
		if f == nil {
			return nil
		}
		for _, d := range f.Decls {
			if fd, ok := d.(*ast.FuncDecl); ok && fd.Name.Name == name && fd.Body != nil && recvName(fd) == recv {
				return fd
			}
		}
		return nil
	}
	emitBody := func(def string, list []ast.Stmt) {
		var xs []string
		for _, st := range list {
			xs = append(xs, c.c08eStmt(st))
		}
		sb.WriteString("def " + def + " : List Stmt := [\n  " + strings.Join(xs, ",\n  ") + "]\n\n")
		c.facts["C08e."+def] = xs
	}
	so := parse("x", "evm", "statedb", "state_object.go")
	for _, fn := range [][2]string{{"GetCommittedState", "getCommittedState_body"}, {"GetState", "getState_body"}, {"SetState", "setStateJ_body"}, {"setState", "setState_body"}} {
		var list []ast.Stmt
		if fd := find(so, "stateObject", fn[0]); fd != nil {
			list = fd.Body.List
		}
		emitBody(fn[1], list)
	}
	// journal.go: storageChange.Revert and the loop of (*journal).Revert
	jf := parse("x", "evm", "statedb", "journal.go")
	var rev []ast.Stmt
	if fd := find(jf, "storageChange", "Revert"); fd != nil {
		rev = fd.Body.List
	}
	emitBody("storageChangeRevert_body", rev)
	newestFirst, truncates, revertsEntry := false, false, false
	if fd := find(jf, "journal", "Revert"); fd != nil {
		for _, st := range fd.Body.List {
			switch s := st.(type) {
			case *ast.ForStmt:
				init, cond, post := "", "", ""
				if s.Init != nil {
					init = c08eFlat(c.src(s.Init))
				}
				if s.Cond != nil {
					cond = c08eFlat(c.src(s.Cond))
				}
				if s.Post != nil {
					post = c08eFlat(c.src(s.Post))
				}
				newestFirst = init == "i := len(j.entries) - 1" && cond == "i >= snapshot" && post == "i--"
				if len(s.Body.List) > 0 {
					revertsEntry = c08eFlat(c.src(s.Body.List[0])) == "j.entries[i].Revert(statedb)"
				}
			case *ast.AssignStmt:
				if c08eFlat(c.src(s)) == "j.entries = j.entries[:snapshot]" {
					truncates = true
				}
			}
		}
	}
	fmt.Fprintf(&sb, "/-- `for i := len(j.entries) - 1; i >= snapshot; i--`: the entries appended since the snapshot are undone newest first -/\ndef journalRevert_newestFirst : Bool := %v\n", newestFirst)
	fmt.Fprintf(&sb, "/-- the first statement of the loop body is `j.entries[i].Revert(statedb)` -/\ndef journalRevert_revertsEntry : Bool := %v\n", revertsEntry)
	fmt.Fprintf(&sb, "/-- `j.entries = j.entries[:snapshot]` -/\ndef journalRevert_truncates : Bool := %v\n\n", truncates)
	// statedb.go Commit: the loop over obj.dirtyStorage.SortedKeys(), and commitMS() before the loop over the dirty objects
	sf := parse("x", "evm", "statedb", "statedb.go")
	var loop []ast.Stmt
	nativeFirst, overDirtyKeys := false, false
	if fd := find(sf, "StateDB", "Commit"); fd != nil {
		seenCommitMS := false
		for _, st := range fd.Body.List {
			if c08eFlat(c.src(st)) == "s.commitMS()" {
				seenCommitMS = true
			}
			if fs, ok := st.(*ast.RangeStmt); ok {
				nativeFirst = seenCommitMS
				ast.Inspect(fs.Body, func(n ast.Node) bool {
					if rs, ok := n.(*ast.RangeStmt); ok && c08eFlat(c.src(rs.X)) == "obj.dirtyStorage.SortedKeys()" && c.src(rs.Value) == "key" {
						overDirtyKeys = true
						loop = rs.Body.List
						return false
					}
					return true
				})
			}
		}
	}
	emitBody("commitSlot_body", loop)
	fmt.Fprintf(&sb, "/-- the slot loop of Commit ranges over `obj.dirtyStorage.SortedKeys()` -/\ndef commit_rangesOverDirtyKeys : Bool := %v\n", overDirtyKeys)
	fmt.Fprintf(&sb, "/-- `s.commitMS()` precedes the loop over the dirty objects: the native store (with whatever nested calls wrote) is written first, the dirty slots over it -/\ndef commit_nativeStoreFirst : Bool := %v\n\n", nativeFirst)
	// keeper: ApplyMessageWithConfig builds a new StateDB and commits iff `commit`
	kf := parse("x", "evm", "keeper", "state_transition.go")
	fresh, commitIff := false, false
	if fd := find(kf, "Keeper", "ApplyMessageWithConfig"); fd != nil {
		for _, st := range fd.Body.List {
			src := c08eFlat(c.src(st))
			if as, ok := st.(*ast.AssignStmt); ok && len(as.Lhs) == 1 && c.src(as.Lhs[0]) == "stateDB" && as.Tok == token.DEFINE &&
				(strings.HasPrefix(src, "stateDB := statedb.New(ctx,") || strings.HasPrefix(src, "stateDB := statedb.NewWithParams(ctx,")) {
				fresh = true
			}
			if is, ok := st.(*ast.IfStmt); ok && is.Init == nil && c.src(is.Cond) == "commit" && strings.Contains(src, "stateDB.Commit()") {
				commitIff = true
			}
		}
	}
	fmt.Fprintf(&sb, "/-- ApplyMessageWithConfig: `stateDB := statedb.New…(ctx, k, …)` — a keeper-level call runs on a NEW StateDB over the ctx it is given -/\ndef applyMessage_freshStateDB : Bool := %v\n", fresh)
	fmt.Fprintf(&sb, "/-- ApplyMessageWithConfig: `if commit { … stateDB.Commit() … }` -/\ndef applyMessage_commitsIffAsked : Bool := %v\n\n", commitIff)
	sb.WriteString("end FxVerif.Gen.C08e\n")
	c.write("C08e.lean", sb.String())
	c.facts["C08e.journalRevert_newestFirst"] = newestFirst
	c.facts["C08e.commit_nativeStoreFirst"] = nativeFirst
	c.facts["C08e.applyMessage_freshStateDB"] = fresh
}
