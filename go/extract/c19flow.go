package main

import (
	"fmt"
	"go/ast"
	"go/token"
	"strconv"
	"strings"
)

// C19, second part: facts that decide WHICH record / WHICH account / WHICH coins a callback touches.
//   - the guard expression of Keeper.OnRecvPacket that decides "convert to ERC-20" (translated to a small expression
//     language over the received denom) and what its body does, in order;
//   - the expressions (in the callback's own scope) that flow, through every intermediate function's parameters, into
//     the two arguments of the relation key function: for the success acknowledgement, for the refund, for the send;
//   - the key's format string; the channel the precompile transfers on and the variable holding the transfer response;
//   - the expressions that flow into IntermediateSender (memo-call sender) from Keeper.OnRecvPacket;
//   - which channel end parseIBCCoinDenom uses for "coin returns home" and for the voucher prefix;
//   - the receiver and the coin of IbcRefund's ConvertCoin;
//   - the calls of IBCCoinToBaseCoin in order (alias resolution before / after ManyToOne).

func paramNames(fd *ast.FuncDecl) []string {
	var out []string
	if fd == nil || fd.Type.Params == nil {
		return out
	}
	for _, f := range fd.Type.Params.List {
		if len(f.Names) == 0 {
			out = append(out, "_")
		}
		for _, n := range f.Names {
			out = append(out, n.Name)
		}
	}
	return out
}

// findCall returns the first call under n whose function expression ends with suffix.
func (c *ctxT) findCall(n ast.Node, suffix string) *ast.CallExpr {
	var res *ast.CallExpr
	if n == nil {
		return nil
	}
	ast.Inspect(n, func(m ast.Node) bool {
		if res != nil {
			return false
		}
		if ce, ok := m.(*ast.CallExpr); ok && strings.HasSuffix(c.src(ce.Fun), suffix) {
			res = ce
			return false
		}
		return true
	})
	return res
}

type hopT struct {
	fd   *ast.FuncDecl // function the call is in
	call *ast.CallExpr // call to the next function of the chain
}

// resolve follows argument idx of the LAST call of the chain back through the parameters of every intermediate function
// and returns the source of the expression in the scope of the first function ("?…" when some hop is not a plain
// pass-through of a parameter, "" when the chain is broken).
func (c *ctxT) resolve(chain []hopT, idx int) string {
	if len(chain) == 0 {
		return ""
	}
	for _, h := range chain {
		if h.fd == nil || h.call == nil {
			return ""
		}
	}
	last := chain[len(chain)-1]
	if idx >= len(last.call.Args) {
		return ""
	}
	var e ast.Expr = last.call.Args[idx]
	suffix := ""
	for i := len(chain) - 1; i >= 1; i-- {
		// a field path rooted at a parameter (data.Sender) is followed through its root
		for {
			se, ok := e.(*ast.SelectorExpr)
			if !ok {
				break
			}
			if _, isId := se.X.(*ast.Ident); !isId {
				if _, isSel := se.X.(*ast.SelectorExpr); !isSel {
					break
				}
			}
			suffix = "." + se.Sel.Name + suffix
			e = se.X
		}
		id, ok := e.(*ast.Ident)
		if !ok {
			return "?" + c.src(e) + suffix
		}
		j := -1
		for k, p := range paramNames(chain[i].fd) {
			if p == id.Name {
				j = k
			}
		}
		if j < 0 || j >= len(chain[i-1].call.Args) {
			return "?" + id.Name + suffix
		}
		e = chain[i-1].call.Args[j]
	}
	return c.src(e) + suffix
}

// c19Const resolves a constant expression to its string value.
func (c *ctxT) c19Const(e ast.Expr) (string, bool) {
	switch x := e.(type) {
	case *ast.BasicLit:
		if x.Kind == token.STRING {
			s, err := strconv.Unquote(x.Value)
			return s, err == nil
		}
	case *ast.ParenExpr:
		return c.c19Const(x.X)
	case *ast.BinaryExpr:
		if x.Op == token.ADD {
			a, ok1 := c.c19Const(x.X)
			b, ok2 := c.c19Const(x.Y)
			return a + b, ok1 && ok2
		}
	case *ast.SelectorExpr:
		switch c.src(x) {
		case "transfertypes.DenomPrefix", "ibctransfertypes.DenomPrefix":
			return "ibc", true // dependency constant (ibc-go transfer/types/keys.go)
		case "fxtypes.DefaultDenom":
			// read the value from /repo/types
			for _, fn := range sortedKeys(c.pkg("types")) {
				for _, d := range c.pkg("types")[fn].Decls {
					gd, ok := d.(*ast.GenDecl)
					if !ok || gd.Tok != token.CONST {
						continue
					}
					for _, sp := range gd.Specs {
						vs := sp.(*ast.ValueSpec)
						for i, nm := range vs.Names {
							if nm.Name == "DefaultDenom" && i < len(vs.Values) {
								return c.c19Const(vs.Values[i])
							}
						}
					}
				}
			}
		}
	}
	return "", false
}

// c19Guard translates a boolean Go expression over the received denom into a Lean term of type GuardE.
func (c *ctxT) c19Guard(e ast.Expr, atoms map[string]bool) string {
	unknown := func() string { return "(.unknown " + leanStr(c.src(e)) + ")" }
	switch x := e.(type) {
	case *ast.ParenExpr:
		return c.c19Guard(x.X, atoms)
	case *ast.UnaryExpr:
		if x.Op == token.NOT {
			return "(.not " + c.c19Guard(x.X, atoms) + ")"
		}
	case *ast.BinaryExpr:
		switch x.Op {
		case token.LAND:
			return "(.and " + c.c19Guard(x.X, atoms) + " " + c.c19Guard(x.Y, atoms) + ")"
		case token.LOR:
			return "(.or " + c.c19Guard(x.X, atoms) + " " + c.c19Guard(x.Y, atoms) + ")"
		case token.NEQ, token.EQL:
			var k ast.Expr
			if atoms[c.src(x.X)] {
				k = x.Y
			} else if atoms[c.src(x.Y)] {
				k = x.X
			}
			if k != nil {
				if v, ok := c.c19Const(k); ok {
					if x.Op == token.NEQ {
						return "(.neConst " + leanStr(v) + ")"
					}
					return "(.eqConst " + leanStr(v) + ")"
				}
			}
		}
	case *ast.CallExpr:
		if c.src(x.Fun) == "strings.HasPrefix" && len(x.Args) == 2 && atoms[c.src(x.Args[0])] {
			if v, ok := c.c19Const(x.Args[1]); ok {
				return "(.hasPrefix " + leanStr(v) + ")"
			}
		}
	case *ast.Ident:
		if x.Name == "true" {
			return ".tt"
		}
	}
	return unknown()
}

func (c *ctxT) c19Flow(sb *strings.Builder) {
	str := func(name, v, doc string) {
		fmt.Fprintf(sb, "/-- %s -/\ndef %s : String := %s\n", doc, name, leanStr(v))
		c.facts["C19."+name] = v
	}
	strs := func(name string, v []string, doc string) {
		fmt.Fprintf(sb, "/-- %s -/\ndef %s : List String := %s\n", doc, name, leanStrs(v))
		c.facts["C19."+name] = v
	}

	sb.WriteString(`/-- boolean expressions over the received denom (translated from the Go AST) -/
inductive GuardE where
  | neConst (c : String) | eqConst (c : String) | hasPrefix (p : String)
  | not (g : GuardE) | and (a b : GuardE) | or (a b : GuardE) | tt | unknown (src : String)
  deriving DecidableEq, Repr
`)

	// ---- Keeper.OnRecvPacket: the conversion guard, its body, the memo call -----------------------------------------
	mwRecv := c.findFunc("x/ibc/middleware/keeper", "Keeper", "OnRecvPacket")
	guard, guardSrc := "(.unknown \"\")", ""
	var body, order []string
	var toEvmArgs []string
	if mwRecv != nil {
		// the variable holding the received coin / denom
		atoms := map[string]bool{}
		ast.Inspect(mwRecv.Body, func(m ast.Node) bool {
			as, ok := m.(*ast.AssignStmt)
			if !ok || len(as.Lhs) != 1 || len(as.Rhs) != 1 {
				return true
			}
			lhs := c.src(as.Lhs[0])
			rhs := c.src(as.Rhs[0])
			if strings.HasPrefix(rhs, "parseIBCCoinDenom(") {
				atoms[lhs] = true
			}
			if ce, ok := as.Rhs[0].(*ast.CallExpr); ok && c.src(ce.Fun) == "sdk.NewCoin" && len(ce.Args) == 2 && atoms[c.src(ce.Args[0])] {
				atoms[lhs+".GetDenom()"] = true
				atoms[lhs+".Denom"] = true
			}
			return true
		})
		for _, st := range mwRecv.Body.List {
			is, ok := st.(*ast.IfStmt)
			if !ok {
				continue
			}
			if ce := c.findCall(is.Body, ".IBCCoinToEvm"); ce != nil && is.Init == nil {
				guard, guardSrc = c.c19Guard(is.Cond, atoms), c.src(is.Cond)
				order = append(order, "convert")
				for _, bs := range is.Body.List {
					bi, ok := bs.(*ast.IfStmt)
					if !ok {
						body = append(body, "?"+firstLine(c.src(bs)))
						continue
					}
					switch {
					case c.src(bi.Cond) == "!isEvmAddr" && endsWithReturn(bi.Body) && !strings.Contains(c.src(bi.Body), "return nil"):
						body = append(body, "requireHex")
					case bi.Init != nil && strings.Contains(c.src(bi.Init), ".IBCCoinToEvm(") && c.src(bi.Cond) == "err != nil" && strings.Contains(c.src(bi.Body), "return err"):
						body = append(body, "IBCCoinToEvm")
						for _, a := range c.findCall(bi.Init, ".IBCCoinToEvm").Args {
							toEvmArgs = append(toEvmArgs, c.src(a))
						}
					default:
						body = append(body, "?"+firstLine(c.src(bi.Cond)))
					}
				}
			} else if c.findCall(is.Body, ".HandlerIbcCall") != nil {
				order = append(order, "memo:"+c.src(is.Cond))
			}
		}
	}
	fmt.Fprintf(sb, "/-- Keeper.OnRecvPacket: condition of the block that moves the received coin to the EVM: `%s` -/\ndef recvGuard : GuardE := %s\n", strings.ReplaceAll(guardSrc, "-/", "- /"), guard)
	c.facts["C19.recvGuard"] = guardSrc
	strs("recvGuardBody", body, "what that block does, in order")
	strs("recvToEvmArgs", toEvmArgs, "arguments of IBCCoinToEvm")
	strs("recvHookOrder", order, "Keeper.OnRecvPacket: order of the conversion block and the memo block (with its condition)")

	// ---- parseIBCCoinDenom: which channel end decides "returns home" / prefixes the voucher ---------------------------
	retChan, vchChan := "", ""
	if fd := c.findFunc("x/ibc/middleware/keeper", "", "parseIBCCoinDenom"); fd != nil {
		if ce := c.findCall(fd.Body, "ReceiverChainIsSource"); ce != nil && len(ce.Args) == 3 {
			retChan = c.src(ce.Args[1])
		}
		ast.Inspect(fd.Body, func(m ast.Node) bool {
			as, ok := m.(*ast.AssignStmt)
			if ok && len(as.Lhs) == 1 && c.src(as.Lhs[0]) == "sourcePrefix" {
				if ce, ok := as.Rhs[0].(*ast.CallExpr); ok && len(ce.Args) == 2 {
					vchChan = c.src(ce.Args[1])
				}
			}
			return true
		})
	}
	str("recvReturningChanExpr", retChan, "parseIBCCoinDenom: channel compared with the packet denom's prefix to decide that a coin returns home")
	str("recvVoucherChanExpr", vchChan, "parseIBCCoinDenom: channel that prefixes a foreign coin's voucher")

	// ---- memo-call sender: Keeper.OnRecvPacket -> HandlerIbcCall -> IntermediateSender ------------------------------
	hCall := c.findFunc("x/ibc/middleware/keeper", "Keeper", "HandlerIbcCall")
	isFn := c.findFunc("x/ibc/middleware/types", "", "IntermediateSender")
	var memoChain []hopT
	if mwRecv != nil && hCall != nil {
		memoChain = []hopT{{mwRecv, c.findCall(mwRecv.Body, ".HandlerIbcCall")}, {hCall, c.findCall(hCall.Body, ".IntermediateSender")}}
	}
	// IntermediateSender's parameters decide which argument is the port / channel / sender
	isParams := paramNames(isFn)
	strs("intermediateSenderParams", isParams, "IntermediateSender: parameter names in order")
	memoArgs := []string{}
	for i := range isParams {
		memoArgs = append(memoArgs, c.resolve(memoChain, i))
	}
	// data.X inside HandlerIbcCall is the packet data handed over by OnRecvPacket: keep the field path
	strs("memoSenderArgs", memoArgs, "expressions (scope of Keeper.OnRecvPacket) that flow into IntermediateSender's parameters")

	// ---- relation key: format and argument flows --------------------------------------------------------------------
	keyFmt, keyFmtArgs := "", []string{}
	keyFn := c.findFunc("x/erc20/types", "", "GetIBCTransferKey")
	if keyFn != nil {
		if ce := c.findCall(keyFn.Body, "fmt.Sprintf"); ce != nil && len(ce.Args) > 0 {
			if bl, ok := ce.Args[0].(*ast.BasicLit); ok {
				keyFmt, _ = strconv.Unquote(bl.Value)
			}
			ps := paramNames(keyFn)
			for _, a := range ce.Args[1:] {
				s := c.src(a)
				for i, p := range ps {
					if p == s {
						s = fmt.Sprintf("#%d", i)
					}
				}
				keyFmtArgs = append(keyFmtArgs, s)
			}
		}
	}
	str("relationKeyFmt", keyFmt, "GetIBCTransferKey: format string")
	strs("relationKeyFmtArgs", keyFmtArgs, "its arguments (#i = i-th parameter of the key function)")

	erc := func(m string) *ast.FuncDecl { return c.findFunc("x/erc20/keeper", "Keeper", m) }
	keyCall := func(fd *ast.FuncDecl) *ast.CallExpr {
		if fd == nil {
			return nil
		}
		var res *ast.CallExpr
		ast.Inspect(fd.Body, func(m ast.Node) bool {
			if ce, ok := m.(*ast.CallExpr); ok && res == nil {
				s := c.src(ce.Fun)
				if strings.HasPrefix(s, "types.Get") && strings.HasSuffix(s, "Key") {
					res = ce
				}
			}
			return true
		})
		return res
	}

	// success acknowledgement
	mwAck := c.findFunc("x/ibc/middleware/keeper", "Keeper", "OnAcknowledgementPacket")
	after := c.findFunc("x/crosschain/keeper", "Keeper", "AfterIBCAckSuccess")
	var ackChain []hopT
	if mwAck != nil && after != nil {
		var def ast.Node
		ast.Inspect(mwAck.Body, func(m ast.Node) bool {
			if cc, ok := m.(*ast.CaseClause); ok && len(cc.List) == 0 {
				def = &ast.BlockStmt{List: cc.Body}
			}
			return true
		})
		ackCallName := ""
		if cs := c.selCalls(after.Body, "k.erc20Keeper"); len(cs) > 0 {
			ackCallName = cs[0]
		}
		ackChain = []hopT{{mwAck, c.findCall(def, ".AfterIBCAckSuccess")}, {after, c.findCall(after.Body, "k.erc20Keeper."+ackCallName)},
			{erc(ackCallName), keyCall(erc(ackCallName))}}
	}
	str("ackSuccessKeyChanExpr", c.resolve(ackChain, 0), "expression (scope of Keeper.OnAcknowledgementPacket, success branch) that becomes the channel of the deleted key")
	str("ackSuccessKeySeqExpr", c.resolve(ackChain, 1), "… and the sequence of the deleted key")

	// refund
	hook := c.findFunc("x/ibc/middleware/keeper", "Keeper", "refundPacketTokenHook")
	coinRefund := c.findFunc("x/crosschain/keeper", "Keeper", "IBCCoinRefund")
	ibcRefund := erc("IbcRefund")
	del := erc("DeleteIBCTransferRelation")
	var refChain []hopT
	if hook != nil && coinRefund != nil && ibcRefund != nil && del != nil {
		refChain = []hopT{{hook, c.findCall(hook.Body, ".IBCCoinRefund")}, {coinRefund, c.findCall(coinRefund.Body, ".IbcRefund")},
			{ibcRefund, c.findCall(ibcRefund.Body, ".DeleteIBCTransferRelation")}, {del, keyCall(del)}}
	}
	str("refundKeyChanExpr", c.resolve(refChain, 0), "expression (scope of refundPacketTokenHook) that becomes the channel of the key IbcRefund deletes")
	str("refundKeySeqExpr", c.resolve(refChain, 1), "… and its sequence")
	// receiver and coin of IbcRefund's ConvertCoin
	recvExpr, coinExpr := "", ""
	if len(refChain) == 4 && ibcRefund != nil {
		if cc := c.findCall(ibcRefund.Body, ".ConvertCoin"); cc != nil {
			ast.Inspect(cc, func(m ast.Node) bool {
				kv, ok := m.(*ast.KeyValueExpr)
				if !ok {
					return true
				}
				switch c.src(kv.Key) {
				case "Receiver", "Coin":
					// the parameter of IbcRefund the value is built from
					var ids []string
					ast.Inspect(kv.Value, func(x ast.Node) bool {
						if id, ok := x.(*ast.Ident); ok {
							for _, p := range paramNames(ibcRefund) {
								if p == id.Name {
									ids = append(ids, p)
								}
							}
						}
						return true
					})
					r := "?" + c.src(kv.Value)
					if len(ids) == 1 {
						// follow the parameter up to refundPacketTokenHook
						j := -1
						for k, p := range paramNames(ibcRefund) {
							if p == ids[0] {
								j = k
							}
						}
						fake := &ast.CallExpr{Args: make([]ast.Expr, j+1)}
						fake.Args[j] = ast.NewIdent(ids[0])
						r = c.resolve([]hopT{refChain[0], refChain[1], {ibcRefund, fake}}, j)
					}
					if c.src(kv.Key) == "Receiver" {
						recvExpr = r
					} else {
						coinExpr = r
					}
				}
				return true
			})
		}
		// `sender, err := sdk.AccAddressFromBech32(data.Sender)` in the hook
		ast.Inspect(hook.Body, func(m ast.Node) bool {
			as, ok := m.(*ast.AssignStmt)
			if ok && len(as.Lhs) >= 1 && c.src(as.Lhs[0]) == recvExpr && len(as.Rhs) == 1 {
				if ce, ok := as.Rhs[0].(*ast.CallExpr); ok && strings.HasSuffix(c.src(ce.Fun), "AccAddressFromBech32") && len(ce.Args) == 1 {
					recvExpr = c.src(ce.Args[0])
				}
			}
			return true
		})
	}
	str("refundReceiverExpr", recvExpr, "whom IbcRefund's ConvertCoin credits (expression in refundPacketTokenHook)")
	str("refundCoinExpr", coinExpr, "the coin IbcRefund converts, as far as it is a parameter (`?x` = local of an intermediate function)")

	// send
	ibcT := c.findFunc("x/crosschain/precompile", "Keeper", "ibcTransfer")
	set := erc("SetIBCTransferRelation")
	var sendChain []hopT
	transferChan, respVar := "", ""
	if ibcT != nil && set != nil {
		sendChain = []hopT{{ibcT, c.findCall(ibcT.Body, ".SetIBCTransferRelation")}, {set, keyCall(set)}}
		if ce := c.findCall(ibcT.Body, "NewMsgTransfer"); ce != nil && len(ce.Args) > 1 {
			transferChan = c.src(ce.Args[1])
		}
		ast.Inspect(ibcT.Body, func(m ast.Node) bool {
			as, ok := m.(*ast.AssignStmt)
			if ok && len(as.Rhs) == 1 && len(as.Lhs) >= 1 {
				if ce, ok := as.Rhs[0].(*ast.CallExpr); ok && strings.HasSuffix(c.src(ce.Fun), "ibcTransferKeeper.Transfer") {
					respVar = c.src(as.Lhs[0])
				}
			}
			return true
		})
	}
	str("sendKeyChanExpr", c.resolve(sendChain, 0), "expression (scope of ibcTransfer) that becomes the channel of the recorded key")
	str("sendKeySeqExpr", c.resolve(sendChain, 1), "… and its sequence")
	str("sendTransferChanExpr", transferChan, "the channel the precompile transfers on (NewMsgTransfer's source channel)")
	str("sendResponseVar", respVar, "variable holding the response of ibcTransferKeeper.Transfer")

	// DeleteIBCTransferRelation reports whether the record existed: `if !store.Has(key) { return false }` before the
	// delete, `return true` after it
	reports := false
	if del != nil {
		seenHas, seenDelete := false, false
		for _, st := range del.Body.List {
			switch x := st.(type) {
			case *ast.IfStmt:
				if strings.Contains(c.src(x.Cond), ".Has(") && strings.HasPrefix(c.src(x.Cond), "!") && len(x.Body.List) == 1 && c.src(x.Body.List[0]) == "return false" && !seenDelete {
					seenHas = true
				}
			case *ast.ExprStmt:
				if strings.Contains(c.src(x), ".Delete(") {
					seenDelete = true
				}
			case *ast.ReturnStmt:
				if c.src(x) == "return true" && seenHas && seenDelete {
					reports = true
				}
			}
		}
	}
	fmt.Fprintf(sb, "/-- DeleteIBCTransferRelation returns false when there is no record (`if !store.Has(key) { return false }`), true after deleting one -/\ndef deleteReportsMissing : Bool := %v\n", reports)
	c.facts["C19.deleteReportsMissing"] = reports

	// ---- IntermediateSender: the BODY (early returns in front of the hash, what is finally returned) ------------------
	var early [][2]string
	isRet, hashVar := "", ""
	if isFn != nil {
		for _, st := range isFn.Body.List {
			switch x := st.(type) {
			case *ast.IfStmt:
				ast.Inspect(x, func(m ast.Node) bool {
					if rs, ok := m.(*ast.ReturnStmt); ok && len(rs.Results) == 1 {
						early = append(early, [2]string{firstLine(c.src(x.Cond)), firstLine(c.src(rs.Results[0]))})
					}
					return true
				})
			case *ast.AssignStmt:
				if len(x.Rhs) == 1 && len(x.Lhs) >= 1 {
					if ce, ok := x.Rhs[0].(*ast.CallExpr); ok && c.src(ce.Fun) == "address.Hash" {
						hashVar = c.src(x.Lhs[0])
					}
				}
			case *ast.ReturnStmt:
				if len(x.Results) == 1 {
					isRet = c.src(x.Results[0])
				}
			case *ast.SwitchStmt, *ast.TypeSwitchStmt, *ast.ForStmt, *ast.RangeStmt:
				early = append(early, [2]string{"?" + firstLine(c.src(x)), "?"})
			}
		}
	}
	{
		var items []string
		for _, e := range early {
			items = append(items, "("+leanStr(e[0])+", "+leanStr(e[1])+")")
		}
		fmt.Fprintf(sb, "/-- IntermediateSender: returns in front of the hash, as (condition, returned expression) -/\ndef intermediateSenderEarlyReturns : List (String × String) := %s\n", leanList(items))
		c.facts["C19.intermediateSenderEarlyReturns"] = early
	}
	str("intermediateSenderHashVar", hashVar, "IntermediateSender: variable holding the result of address.Hash")
	str("intermediateSenderReturn", isRet, "IntermediateSender: the final return expression")

	// ---- error handling along the refund path: is every callee's error handed up to IBC core? -----------------------
	mwT := c.findFunc("x/ibc/middleware", "IBCMiddleware", "OnTimeoutPacket")
	mwA := c.findFunc("x/ibc/middleware", "IBCMiddleware", "OnAcknowledgementPacket")
	kT := c.findFunc("x/ibc/middleware/keeper", "Keeper", "OnTimeoutPacket")
	toBaseFn := c.findFunc("x/crosschain/keeper", "Keeper", "IBCCoinToBaseCoin")
	_ = toBaseFn
	type hopE struct {
		name   string
		fd     *ast.FuncDecl
		suffix string
	}
	var chain []string
	hookCtx := ""
	for _, h := range []hopE{
		{"IBCMiddleware.OnTimeoutPacket>Keeper.OnTimeoutPacket", mwT, "im.Keeper.OnTimeoutPacket"},
		{"IBCMiddleware.OnAcknowledgementPacket>Keeper.OnAcknowledgementPacket", mwA, "im.Keeper.OnAcknowledgementPacket"},
		{"Keeper.OnTimeoutPacket>refundPacketTokenHook", kT, ".refundPacketTokenHook"},
		{"Keeper.OnAcknowledgementPacket>refundPacketTokenHook", mwAck, ".refundPacketTokenHook"},
		{"refundPacketTokenHook>IBCCoinRefund", hook, ".IBCCoinRefund"},
		{"IBCCoinRefund>IBCCoinToBaseCoin", coinRefund, ".IBCCoinToBaseCoin"},
		{"IBCCoinRefund>IbcRefund", coinRefund, ".IbcRefund"},
		{"IbcRefund>ConvertCoin", ibcRefund, ".ConvertCoin"},
	} {
		kind, ctxArg := c.c19ErrHandling(h.fd, h.suffix)
		chain = append(chain, "("+leanStr(h.name)+", "+leanStr(kind)+")")
		if h.suffix == ".IBCCoinRefund" {
			hookCtx = ctxArg
		}
	}
	fmt.Fprintf(sb, "/-- how each caller on the refund path treats its callee's error: `return` (returned directly), `checked` (`if err != nil { return err }`), `swallowed` (error branch returns something else), `ignored` -/\ndef refundErrorChain : List (String × String) := %s\n", leanList(chain))
	c.facts["C19.refundErrorChain"] = chain
	str("refundHookCtx", hookCtx, "the context refundPacketTokenHook hands to IBCCoinRefund: `ctx`, or `cache:<written|dropped>` for a CacheContext")

	// IBCCoinToBaseCoin: calls in order
	var toBase []string
	if fd := c.findFunc("x/crosschain/keeper", "Keeper", "IBCCoinToBaseCoin"); fd != nil {
		toBase = c.selCalls(fd.Body, "k")
	}
	strs("ibcCoinToBaseCalls", toBase, "IBCCoinToBaseCoin: keeper calls in order")
}

// c19ErrHandling classifies how fd treats the error of the call whose function ends with suffix, and names the
// context argument of that call.
func (c *ctxT) c19ErrHandling(fd *ast.FuncDecl, suffix string) (kind, ctxArg string) {
	if fd == nil {
		return "", ""
	}
	isCall := func(n ast.Node) *ast.CallExpr {
		ce := c.findCall(n, suffix)
		return ce
	}
	returnsErr := func(b *ast.BlockStmt) bool {
		ok := false
		ast.Inspect(b, func(m ast.Node) bool {
			if rs, isR := m.(*ast.ReturnStmt); isR {
				for _, r := range rs.Results {
					if strings.Contains(c.src(r), "err") {
						ok = true
					}
				}
			}
			return true
		})
		return ok
	}
	var walk func(list []ast.Stmt)
	var call *ast.CallExpr
	walk = func(list []ast.Stmt) {
		for i, st := range list {
			if kind != "" {
				return
			}
			switch x := st.(type) {
			case *ast.ReturnStmt:
				if ce := isCall(x); ce != nil {
					kind, call = "return", ce
				}
			case *ast.ExprStmt:
				if ce := isCall(x); ce != nil {
					kind, call = "ignored", ce
				}
			case *ast.AssignStmt:
				if ce := isCall(x); ce != nil {
					call = ce
					kind = "unchecked"
					if i+1 < len(list) {
						switch nx := list[i+1].(type) {
						case *ast.IfStmt:
							if strings.Contains(c.src(nx.Cond), "err != nil") {
								if returnsErr(nx.Body) {
									kind = "checked"
								} else {
									kind = "swallowed"
								}
							}
						case *ast.ReturnStmt:
							if strings.Contains(c.src(nx), "err") {
								kind = "checked"
							}
						}
					}
				}
			case *ast.IfStmt:
				if x.Init != nil {
					if ce := isCall(x.Init); ce != nil {
						call = ce
						if strings.Contains(c.src(x.Cond), "err != nil") && returnsErr(x.Body) {
							kind = "checked"
						} else {
							kind = "swallowed"
						}
						continue
					}
				}
				walk(x.Body.List)
				if eb, ok := x.Else.(*ast.BlockStmt); ok {
					walk(eb.List)
				}
			case *ast.SwitchStmt:
				walk(x.Body.List)
			case *ast.TypeSwitchStmt:
				walk(x.Body.List)
			case *ast.CaseClause:
				walk(x.Body)
			case *ast.BlockStmt:
				walk(x.List)
			}
		}
	}
	walk(fd.Body.List)
	if call != nil && len(call.Args) > 0 {
		a := c.src(call.Args[0])
		ctxArg = a
		// a variable that comes from `….CacheContext()`?
		writeFn := ""
		ast.Inspect(fd.Body, func(m ast.Node) bool {
			as, ok := m.(*ast.AssignStmt)
			if ok && len(as.Lhs) == 2 && len(as.Rhs) == 1 && c.src(as.Lhs[0]) == a && strings.HasSuffix(c.src(as.Rhs[0]), ".CacheContext()") {
				writeFn = c.src(as.Lhs[1])
			}
			return true
		})
		if writeFn != "" {
			ctxArg = "cache:dropped"
			if writeFn != "_" && c.findCall(fd.Body, writeFn) != nil {
				ctxArg = "cache:written"
			}
		}
	}
	return kind, ctxArg
}

func firstLine(s string) string {
	if i := strings.IndexByte(s, '\n'); i >= 0 {
		s = s[:i]
	}
	if len(s) > 80 {
		s = s[:80]
	}
	return s
}
