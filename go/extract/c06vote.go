package main

// C06 (round 5) — facts about how VOTES of several oracles turn into the observed external height that runs the timeout
// clean-ups: Gen/C06.lean.
//
//   claimHashFields : for each claim type, the fields of the message that its ClaimHash formats into the hashed path, in
//                     argument order (m.X, m.X.String(), … → "X").  The attestation a vote is added to is looked up by
//                     (event nonce, ClaimHash): two votes are summed iff they agree on every field listed here.
//   observedHeightFromVoter : TryAttestation stores `claim.GetBlockHeight()` of ITS `claim` parameter, and Attest passes the
//                     current voter's claim — so the height that runs the clean-ups is the one the quorum-completing voter
//                     reported (harmless exactly when the hash covers the height).
//   attestKeyArgs   : the arguments of GetAttestation / SetAttestation in Attest (event nonce and claim hash of the voter's claim)

import (
	"fmt"
	"go/ast"
	"regexp"
	"strings"
)

func init() { register(extractC06Vote) }

func extractC06Vote(c *ctxT) {
	const typesPkg = "x/crosschain/types"
	const keeperPkg = "x/crosschain/keeper"
	var sb strings.Builder
	facts := map[string]any{}
	sb.WriteString("namespace FxVerif.Gen.C06\n\n")

	hashTypes := []string{"MsgSendToFxClaim", "MsgBridgeCallClaim", "MsgBridgeCallResultClaim", "MsgSendToExternalClaim", "MsgBridgeTokenClaim", "MsgOracleSetUpdatedClaim"}
	reField := regexp.MustCompile(`\bm\.([A-Z][A-Za-z0-9_]*)`)
	var rows []string
	for _, tn := range hashTypes {
		var fields []string
		if fd := c.findFunc(typesPkg, tn, "ClaimHash"); fd != nil && fd.Body != nil {
			ast.Inspect(fd.Body, func(x ast.Node) bool {
				ce, ok := x.(*ast.CallExpr)
				if !ok {
					return true
				}
				se, ok := ce.Fun.(*ast.SelectorExpr)
				if !ok {
					return true
				}
				switch se.Sel.Name {
				case "Sprintf", "Fprintf", "Sprint", "Sprintln", "WriteString", "Write", "Sum", "Sum256":
					for _, a := range ce.Args {
						for _, m := range reField.FindAllStringSubmatch(c.src(a), -1) {
							dup := false
							for _, f := range fields {
								dup = dup || f == m[1]
							}
							if !dup {
								fields = append(fields, m[1])
							}
						}
					}
				}
				return true
			})
		}
		var fs []string
		for _, f := range fields {
			fs = append(fs, leanStr(f))
		}
		rows = append(rows, fmt.Sprintf("(%s, %s)", leanStr(tn), leanList(fs)))
		facts["C06.claimHashFields."+tn] = fields
	}
	fmt.Fprintf(&sb, "/-- x/crosschain/types/msgs.go: for each claim type the message fields its ClaimHash() formats into the hashed path -/\ndef claimHashFields : List (String × List String) :=\n  [%s]\n\n", strings.Join(rows, ",\n   "))

	// TryAttestation: SetLastObservedBlockHeight(ctx, <claim param>.GetBlockHeight(), …); Attest: TryAttestation(ctx, att, <claim param>)
	fromVoter := false
	heightArg, tryArg := "", ""
	paramName := func(fd *ast.FuncDecl, i int) string {
		k := 0
		for _, f := range fd.Type.Params.List {
			for _, n := range f.Names {
				if k == i {
					return n.Name
				}
				k++
			}
		}
		return ""
	}
	if try := c.findFunc(keeperPkg, "Keeper", "TryAttestation"); try != nil && try.Body != nil {
		claimParam := paramName(try, 2)
		ast.Inspect(try.Body, func(x ast.Node) bool {
			if ce, ok := x.(*ast.CallExpr); ok {
				if se, ok := ce.Fun.(*ast.SelectorExpr); ok && se.Sel.Name == "SetLastObservedBlockHeight" && len(ce.Args) >= 2 && heightArg == "" {
					heightArg = c.src(ce.Args[1])
				}
			}
			return true
		})
		if att := c.findFunc(keeperPkg, "Keeper", "Attest"); att != nil && att.Body != nil {
			attClaim := paramName(att, 2)
			ast.Inspect(att.Body, func(x ast.Node) bool {
				if ce, ok := x.(*ast.CallExpr); ok {
					if se, ok := ce.Fun.(*ast.SelectorExpr); ok && se.Sel.Name == "TryAttestation" && len(ce.Args) >= 3 && tryArg == "" {
						tryArg = c.src(ce.Args[2])
					}
				}
				return true
			})
			fromVoter = claimParam != "" && heightArg == claimParam+".GetBlockHeight()" && attClaim != "" && tryArg == attClaim
		}
	}
	fmt.Fprintf(&sb, "/-- TryAttestation stores `%s` as the observed external height and Attest hands it `%s` (its own claim parameter):\nthe height that runs the timeout clean-ups is the one reported by the voter whose vote completes the quorum -/\ndef observedHeightFromVoter : Bool := %s\n\n", heightArg, tryArg, leanBool(fromVoter))
	facts["C06.observedHeightArg"] = heightArg
	facts["C06.tryAttestationClaimArg"] = tryArg

	// Attest: GetAttestation(ctx, <nonce>, <hash>) looked up with the voter's own claim
	lookup := ""
	if att := c.findFunc(keeperPkg, "Keeper", "Attest"); att != nil && att.Body != nil {
		ast.Inspect(att.Body, func(x ast.Node) bool {
			if ce, ok := x.(*ast.CallExpr); ok {
				if se, ok := ce.Fun.(*ast.SelectorExpr); ok && se.Sel.Name == "GetAttestation" && len(ce.Args) == 3 && lookup == "" {
					lookup = c.src(ce.Args[1]) + ", " + c.src(ce.Args[2])
				}
			}
			return true
		})
	}
	fmt.Fprintf(&sb, "/-- Attest looks the attestation up with these two arguments (event nonce, claim hash) -/\ndef attestLookupArgs : String := %s\n\n", leanStr(lookup))
	facts["C06.attestLookupArgs"] = lookup

	sb.WriteString("end FxVerif.Gen.C06\n")
	c.write("C06.lean", sb.String())
	for k, v := range facts {
		c.facts[k] = v
	}
}
