package main

import (
	"fmt"
	"go/ast"
	"go/token"
	"os"
	"path/filepath"
	"strings"
)

// C16: every message-server method of fx-core whose request type has an `Authority` field, with the shape of its
// body: guard (first statement compares the keeper authority with req.Authority and returns an error), forward (the
// crosschain router: look up the per-chain server, return server.Same(ctx,msg)), or unguarded.
func init() { register(extractC16) }

type c16Handler struct {
	Module, Recv, Method, Msg, MsgPkg, Shape, Cmp, Where string
}

func extractC16(c *ctxT) {
	xs, _ := filepath.Glob(filepath.Join(c.repo, "x", "*", "keeper"))
	var hs []c16Handler
	for _, kd := range xs {
		rel, _ := filepath.Rel(c.repo, kd)
		module := strings.Split(rel, string(os.PathSeparator))[1]
		p := c.pkg(rel)
		for _, fn := range sortedKeys(p) {
			f := p[fn]
			imps := imports(f)
			for _, d := range f.Decls {
				fd, ok := d.(*ast.FuncDecl)
				if !ok || fd.Recv == nil || fd.Body == nil || fd.Type.Params == nil || !fd.Name.IsExported() {
					continue
				}
				for _, prm := range fd.Type.Params.List {
					st, ok := prm.Type.(*ast.StarExpr)
					if !ok {
						continue
					}
					se, ok := st.X.(*ast.SelectorExpr)
					if !ok {
						continue
					}
					alias, ok := se.X.(*ast.Ident)
					if !ok {
						continue
					}
					ip, ok := imps[alias.Name]
					if !ok || !strings.HasPrefix(ip, modPath) {
						continue
					}
					sts := c.structs(strings.TrimPrefix(ip, modPath))
					s, ok := sts[se.Sel.Name]
					if !ok || !hasField(s, "Authority") || !strings.HasPrefix(se.Sel.Name, "Msg") {
						continue
					}
					if len(prm.Names) != 1 {
						continue
					}
					h := c16Handler{Module: module, Recv: recvName(fd), Method: fd.Name.Name, Msg: se.Sel.Name,
						MsgPkg: strings.TrimPrefix(ip, modPath), Where: c.pos(fd)}
					h.Shape, h.Cmp = c16Shape(c, fd, prm.Names[0].Name)
					hs = append(hs, h)
				}
			}
		}
	}
	if len(hs) == 0 {
		fail("C16: no authority-carrying handlers found")
	}
	var sb strings.Builder
	sb.WriteString("namespace FxVerif.Gen.C16\n\n")
	sb.WriteString("inductive Cmp where | strict | fold\n  deriving DecidableEq, Repr\n\n")
	sb.WriteString("/-- shape of a handler body as read from the Go source -/\ninductive Shape where\n  | guard (c : Cmp)      -- first statement: `if authority != req.Authority { return nil, err }`\n  | forward (method : String) -- crosschain router: per-chain server lookup, then `server.<method>(ctx, msg)`\n  | unguarded\n  deriving DecidableEq, Repr\n\n")
	sb.WriteString("structure Handler where\n  module : String\n  recv : String\n  method : String\n  msg : String\n  shape : Shape\n  deriving Repr\n\n")
	sb.WriteString("def handlers : List Handler := [\n")
	var fh []map[string]string
	for i, h := range hs {
		shape := ".unguarded"
		switch h.Shape {
		case "guard":
			shape = ".guard ." + h.Cmp
		case "forward":
			shape = ".forward " + leanStr(h.Cmp)
		}
		sep := ","
		if i == len(hs)-1 {
			sep = ""
		}
		fmt.Fprintf(&sb, "  { module := %s, recv := %s, method := %s, msg := %s, shape := %s }%s  -- %s\n",
			leanStr(h.Module), leanStr(h.Recv), leanStr(h.Method), leanStr(h.MsgPkg+"."+h.Msg), shape, sep, h.Where)
		fh = append(fh, map[string]string{"module": h.Module, "recv": h.Recv, "method": h.Method, "msg": h.MsgPkg + "." + h.Msg, "shape": h.Shape, "cmp": h.Cmp, "where": h.Where})
	}
	sb.WriteString("]\n\n")
	// ---- how the authority each keeper compares against is wired in app/keepers/keepers.go
	def, wiring := c16Wiring(c)
	fmt.Fprintf(&sb, "/-- right-hand side of `authAddr := …` in app/keepers/keepers.go -/\ndef authAddrDef : String := %s\n\n", leanStr(def))
	sb.WriteString("/-- (keeper field assigned, expression passed as the `authority` parameter of an fx-core keeper constructor) -/\ndef wiring : List (String × String) := [\n")
	for i, w := range wiring {
		sep := ","
		if i == len(wiring)-1 {
			sep = ""
		}
		fmt.Fprintf(&sb, "  (%s, %s)%s\n", leanStr(w[0]), leanStr(w[1]), sep)
	}
	sb.WriteString("]\n\nend FxVerif.Gen.C16\n")
	c.write("C16.lean", sb.String())
	c.facts["C16.handlers"] = fh
	c.facts["C16.wiring"] = wiring
}

// c16Wiring reads app/keepers/keepers.go: the definition of authAddr and, for every call of an fx-core `NewKeeper` that
// has a parameter named `authority`, the argument passed in that position.
func c16Wiring(c *ctxT) (string, [][2]string) {
	p := c.pkg("app/keepers")
	f, ok := p["keepers.go"]
	if !ok {
		return "", nil
	}
	imps := imports(f)
	def := ""
	var wiring [][2]string
	ast.Inspect(f, func(n ast.Node) bool {
		as, ok := n.(*ast.AssignStmt)
		if !ok || len(as.Lhs) != 1 || len(as.Rhs) != 1 {
			return true
		}
		if id, ok := as.Lhs[0].(*ast.Ident); ok && id.Name == "authAddr" {
			def = c.src(as.Rhs[0])
			return true
		}
		ast.Inspect(as.Rhs[0], func(m ast.Node) bool {
			call, ok := m.(*ast.CallExpr)
			if !ok {
				return true
			}
			se, ok := call.Fun.(*ast.SelectorExpr)
			if !ok || se.Sel.Name != "NewKeeper" {
				return true
			}
			alias, ok := se.X.(*ast.Ident)
			if !ok {
				return true
			}
			ip := imps[alias.Name]
			if !strings.HasPrefix(ip, modPath) {
				// dependency keeper (SDK / IBC / ethermint): record module-address arguments (e.g. the ethermint EVM keeper's authority)
				for _, a := range call.Args {
					if as := c.src(a); strings.Contains(as, "NewModuleAddress(") {
						wiring = append(wiring, [2]string{c.src(se.X) + ".NewKeeper", as})
					}
				}
				return true
			}
			fd := c.findFunc(strings.TrimPrefix(ip, modPath), "", "NewKeeper")
			if fd == nil {
				return true
			}
			idx, i := -1, 0
			for _, prm := range fd.Type.Params.List {
				names := len(prm.Names)
				if names == 0 {
					names = 1
				}
				for j := 0; j < len(prm.Names); j++ {
					if prm.Names[j].Name == "authority" {
						idx = i + j
					}
				}
				i += names
			}
			if idx >= 0 && idx < len(call.Args) {
				wiring = append(wiring, [2]string{c.src(as.Lhs[0]), c.src(call.Args[idx])})
			}
			return true
		})
		return true
	})
	return def, wiring
}

// c16Shape classifies the body of a handler; req is the name of the request parameter.
func c16Shape(c *ctxT, fd *ast.FuncDecl, req string) (string, string) {
	if len(fd.Body.List) == 0 {
		return "unguarded", ""
	}
	ifs, ok := fd.Body.List[0].(*ast.IfStmt)
	if !ok {
		return "unguarded", ""
	}
	returnsErr := func(b *ast.BlockStmt) bool {
		if len(b.List) != 1 {
			return false
		}
		r, ok := b.List[0].(*ast.ReturnStmt)
		if !ok || len(r.Results) != 2 {
			return false
		}
		if id, ok := r.Results[0].(*ast.Ident); !ok || id.Name != "nil" {
			return false
		}
		// second result must be a call producing an error (not nil, not a variable that may be nil)
		_, isCall := r.Results[1].(*ast.CallExpr)
		return isCall
	}
	isReqAuthority := func(e ast.Expr) bool {
		se, ok := e.(*ast.SelectorExpr)
		if !ok || se.Sel.Name != "Authority" {
			return false
		}
		id, ok := se.X.(*ast.Ident)
		return ok && id.Name == req
	}
	isKeeperAuthority := func(e ast.Expr) bool {
		// recv.authority   or   recv.GetAuthority().String()
		s := c.src(e)
		recv := ""
		if fd.Recv != nil && len(fd.Recv.List[0].Names) == 1 {
			recv = fd.Recv.List[0].Names[0].Name
		}
		return s == recv+".authority" || s == recv+".GetAuthority().String()" || s == recv+".GetAuthority()"
	}
	// guard, strict
	if ifs.Init == nil && ifs.Else == nil {
		if be, ok := ifs.Cond.(*ast.BinaryExpr); ok && be.Op == token.NEQ {
			if (isKeeperAuthority(be.X) && isReqAuthority(be.Y)) || (isKeeperAuthority(be.Y) && isReqAuthority(be.X)) {
				if returnsErr(ifs.Body) {
					return "guard", "strict"
				}
			}
		}
		if ue, ok := ifs.Cond.(*ast.UnaryExpr); ok && ue.Op == token.NOT {
			if call, ok := ue.X.(*ast.CallExpr); ok && c.src(call.Fun) == "strings.EqualFold" && len(call.Args) == 2 {
				if (isKeeperAuthority(call.Args[0]) && isReqAuthority(call.Args[1])) || (isKeeperAuthority(call.Args[1]) && isReqAuthority(call.Args[0])) {
					if returnsErr(ifs.Body) {
						return "guard", "fold"
					}
				}
			}
		}
	}
	// forward: if server, err := k.getMsgServerByChainName(msg.GetChainName()); err != nil { return nil, err } else { return server.M(ctx, msg) }
	if len(fd.Body.List) == 1 && ifs.Init != nil && ifs.Else != nil {
		as, ok := ifs.Init.(*ast.AssignStmt)
		if ok && len(as.Rhs) == 1 && strings.Contains(c.src(as.Rhs[0]), "getMsgServerByChainName(") {
			if eb, ok := ifs.Else.(*ast.BlockStmt); ok && len(eb.List) == 1 {
				if r, ok := eb.List[0].(*ast.ReturnStmt); ok && len(r.Results) == 1 {
					if call, ok := r.Results[0].(*ast.CallExpr); ok {
						if se, ok := call.Fun.(*ast.SelectorExpr); ok && c.src(se.X) == "server" && len(call.Args) == 2 && c.src(call.Args[1]) == req {
							// the error branch must return without side effects
							if len(ifs.Body.List) == 1 {
								if _, ok := ifs.Body.List[0].(*ast.ReturnStmt); ok {
									return "forward", se.Sel.Name
								}
							}
						}
					}
				}
			}
		}
	}
	return "unguarded", ""
}
