package main

import (
	"go/ast"
	"os"
	"path/filepath"
	"regexp"
	"strings"
)

// C08 (fourth table, round 4):
//   * erc20 genesis: the keeper calls InitGenesis makes for every imported token pair (loop body, in source order) and the
//     fields ExportGenesis fills, with the keeper call each is filled from;
//   * FIP20Upgradable.sol: the state variables of the contract in declaration order (storage layout relative to the first
//     one) and the BODIES of transfer / transferFrom / mint / burn / approve and of the internal _transfer / _mint / _burn /
//     _approve as statement lists of a small IR, which Model/C08Sol.lean compiles into the slot programs of the StateDB
//     cache model (Props/C08.lean: the compiled programs ARE the programs the mixed-transaction theorems are about).
func init() { register(extractC08d) }

var c08dIdent = regexp.MustCompile(`^[A-Za-z_][A-Za-z0-9_]*(\(\))?$`)

// c08dExpr: identifier | `_msgSender()` | a - b | a + b
func c08dExpr(s string) string {
	s = strings.TrimSpace(s)
	for _, op := range []struct{ tok, ctor string }{{" - ", "sub"}, {" + ", "add"}} {
		if i := strings.LastIndex(s, op.tok); i > 0 {
			return "(.bin " + leanStr(op.ctor) + " " + c08dExpr(s[:i]) + " " + c08dExpr(s[i+len(op.tok):]) + ")"
		}
	}
	if c08dIdent.MatchString(s) {
		return "(.id " + leanStr(s) + ")"
	}
	return "(.unk " + leanStr(s) + ")"
}

// c08dRef: `_totalSupply` | `_balanceOf[a]` | `_allowance[a][b]`
func c08dRef(s string) (string, bool) {
	s = strings.TrimSpace(s)
	name := s
	var idx []string
	if i := strings.Index(s, "["); i > 0 {
		name = s[:i]
		rest := s[i:]
		for len(rest) > 0 {
			if rest[0] != '[' {
				return "", false
			}
			depth, j := 0, 0
			for j = 0; j < len(rest); j++ {
				if rest[j] == '[' {
					depth++
				} else if rest[j] == ']' {
					depth--
					if depth == 0 {
						break
					}
				}
			}
			if j >= len(rest) {
				return "", false
			}
			idx = append(idx, c08dExpr(rest[1:j]))
			rest = rest[j+1:]
		}
	}
	if !c08dIdent.MatchString(name) || strings.HasSuffix(name, ")") {
		return "", false
	}
	return "⟨" + leanStr(name) + ", " + leanList(idx) + "⟩", true
}

func c08dSplitArgs(s string) []string {
	var out []string
	depth, start := 0, 0
	inStr := false
	for i := 0; i < len(s); i++ {
		switch {
		case s[i] == '"':
			inStr = !inStr
		case inStr:
		case s[i] == '(' || s[i] == '[':
			depth++
		case s[i] == ')' || s[i] == ']':
			depth--
		case s[i] == ',' && depth == 0:
			out = append(out, strings.TrimSpace(s[start:i]))
			start = i + 1
		}
	}
	if t := strings.TrimSpace(s[start:]); t != "" {
		out = append(out, t)
	}
	return out
}

func c08dStmt(s string) string {
	s = strings.Join(strings.Fields(s), " ")
	s = strings.ReplaceAll(strings.ReplaceAll(s, "( ", "("), " )", ")")
	switch {
	case s == "":
		return ""
	case strings.HasPrefix(s, "emit "):
		return ".emit"
	case s == "return true":
		return ".ret"
	case strings.HasPrefix(s, "require(") && strings.HasSuffix(s, ")"):
		args := c08dSplitArgs(s[len("require(") : len(s)-1])
		if len(args) >= 1 {
			if i := strings.Index(args[0], " != address(0)"); i > 0 && strings.HasSuffix(args[0], "address(0)") {
				return ".requireNonZero " + c08dExpr(args[0][:i])
			}
			if i := strings.Index(args[0], " >= "); i > 0 {
				return ".requireGe " + c08dExpr(args[0][:i]) + " " + c08dExpr(args[0][i+4:])
			}
		}
	case strings.HasPrefix(s, "uint256 ") && strings.Contains(s, " = "):
		i := strings.Index(s, " = ")
		v := strings.TrimSpace(s[len("uint256 "):i])
		if r, ok := c08dRef(s[i+3:]); ok && c08dIdent.MatchString(v) {
			return ".load " + leanStr(v) + " " + r
		}
	case strings.Contains(s, " += "):
		i := strings.Index(s, " += ")
		if r, ok := c08dRef(s[:i]); ok {
			return ".addTo " + r + " " + c08dExpr(s[i+4:])
		}
	case strings.Contains(s, " -= "):
		i := strings.Index(s, " -= ")
		if r, ok := c08dRef(s[:i]); ok {
			return ".subFrom " + r + " " + c08dExpr(s[i+4:])
		}
	case strings.Contains(s, " = "):
		i := strings.Index(s, " = ")
		if r, ok := c08dRef(s[:i]); ok {
			return ".store " + r + " " + c08dExpr(s[i+3:])
		}
	case strings.HasSuffix(s, ")") && strings.Contains(s, "("):
		i := strings.Index(s, "(")
		if fn := s[:i]; c08dIdent.MatchString(fn) {
			var args []string
			for _, a := range c08dSplitArgs(s[i+1 : len(s)-1]) {
				args = append(args, c08dExpr(a))
			}
			return ".call " + leanStr(fn) + " " + leanList(args)
		}
	}
	return ".unknown " + leanStr(s)
}

// c08dContract returns the text of `contract <name> … { … }` (between its braces)
func c08dContract(src, name string) string {
	i := strings.Index(src, "contract "+name)
	if i < 0 {
		return ""
	}
	j := strings.Index(src[i:], "{")
	if j < 0 {
		return ""
	}
	start := i + j + 1
	depth := 1
	for k := start; k < len(src); k++ {
		switch src[k] {
		case '{':
			depth++
		case '}':
			depth--
			if depth == 0 {
				return src[start:k]
			}
		}
	}
	return ""
}

func extractC08d(c *ctxT) {
	var sb strings.Builder
	sb.WriteString("namespace FxVerif.Gen.C08d\n\n")

	// ---- erc20 genesis ----
	var loopCalls, afterCalls []string
	if fd := c.findFunc("x/erc20/keeper", "Keeper", "InitGenesis"); fd != nil && fd.Body != nil {
		keeperCalls := func(n ast.Node, out *[]string) {
			ast.Inspect(n, func(x ast.Node) bool {
				if ce, ok := x.(*ast.CallExpr); ok {
					if se, ok := ce.Fun.(*ast.SelectorExpr); ok {
						if id, ok := se.X.(*ast.Ident); ok && id.Name == "k" {
							*out = append(*out, leanStr(se.Sel.Name))
						}
					}
				}
				return true
			})
		}
		seenLoop := false
		for _, st := range fd.Body.List {
			if rs, ok := st.(*ast.RangeStmt); ok && strings.Contains(c.src(rs.X), "TokenPairs") {
				keeperCalls(rs.Body, &loopCalls)
				seenLoop = true
			} else if seenLoop {
				keeperCalls(st, &afterCalls)
			}
		}
	}
	var fields []string
	if fd := c.findFunc("x/erc20/keeper", "Keeper", "ExportGenesis"); fd != nil && fd.Body != nil {
		ast.Inspect(fd.Body, func(x ast.Node) bool {
			if kv, ok := x.(*ast.KeyValueExpr); ok {
				val := c.src(kv.Value)
				if ce, ok := kv.Value.(*ast.CallExpr); ok {
					if se, ok := ce.Fun.(*ast.SelectorExpr); ok {
						val = se.Sel.Name
					}
				}
				fields = append(fields, "("+leanStr(c.src(kv.Key))+", "+leanStr(val)+")")
			}
			return true
		})
	}
	sb.WriteString("/-- keeper calls of `InitGenesis` for every imported token pair (body of the loop over `data.TokenPairs`), in source order -/\n")
	sb.WriteString("def initGenesis_loop_calls : List String := " + leanList(loopCalls) + "\n")
	sb.WriteString("/-- keeper calls of `InitGenesis` after the loop -/\n")
	sb.WriteString("def initGenesis_after_calls : List String := " + leanList(afterCalls) + "\n")
	sb.WriteString("/-- fields of the exported `GenesisState` and the keeper call each is filled from -/\n")
	sb.WriteString("def exportGenesis_fields : List (String × String) := " + leanList(fields) + "\n\n")
	c.facts["C08.genesis"] = map[string]any{"loop": loopCalls, "after": afterCalls, "export": fields}

	// ---- FIP20Upgradable.sol ----
	sb.WriteString("inductive E where\n  | id (s : String)\n  | bin (op : String) (a b : E)\n  | unk (s : String)\n  deriving Repr\n\n")
	sb.WriteString("structure Ref where\n  var : String\n  idx : List E\n  deriving Repr\n\n")
	sb.WriteString("inductive Stmt where\n  | requireNonZero (e : E)\n  | requireGe (a b : E)\n  | load (v : String) (r : Ref)\n  | store (r : Ref) (e : E)\n  | addTo (r : Ref) (e : E)\n  | subFrom (r : Ref) (e : E)\n  | call (fn : String) (args : List E)\n  | emit\n  | ret\n  | unknown (s : String)\n  deriving Repr\n\n")
	sb.WriteString("structure Fn where\n  name : String\n  params : List String\n  modifiers : List String\n  body : List Stmt\n  deriving Repr\n\n")
	var vars, fns []string
	layout := map[string]int{}
	raw, err := os.ReadFile(filepath.Join(c.repo, "solidity/contracts/fip20/FIP20Upgradable.sol"))
	if err == nil {
		body := c08dContract(solStripComments(string(raw)), "FIP20Upgradable")
		// state variables: declarations at depth 0 of the contract body, before / between the functions
		depth := 0
		var cur strings.Builder
		var top []string // depth-0 chunks, split at ';' and at the end of every '{…}' block
		for i := 0; i < len(body); i++ {
			ch := body[i]
			switch {
			case ch == '{':
				depth++
				cur.WriteByte(ch)
			case ch == '}':
				depth--
				cur.WriteByte(ch)
				if depth == 0 {
					top = append(top, cur.String())
					cur.Reset()
				}
			case ch == ';' && depth == 0:
				top = append(top, cur.String())
				cur.Reset()
			default:
				cur.WriteByte(ch)
			}
		}
		varRe := regexp.MustCompile(`^(.*\S)\s+(?:private|internal|public)\s+([A-Za-z_][A-Za-z0-9_]*)$`)
		fnRe := regexp.MustCompile(`(?s)^function\s+([A-Za-z_][A-Za-z0-9_]*)\s*\((.*?)\)(.*?)\{(.*)\}$`)
		want := map[string]bool{"transfer": true, "transferFrom": true, "approve": true, "mint": true, "burn": true,
			"_transfer": true, "_mint": true, "_burn": true, "_approve": true}
		for _, t := range top {
			t = strings.TrimSpace(t)
			flat := strings.Join(strings.Fields(t), " ")
			if m := varRe.FindStringSubmatch(flat); m != nil && !strings.HasPrefix(flat, "function") && !strings.HasPrefix(flat, "event") {
				layout[m[2]] = len(vars)
				vars = append(vars, "("+leanStr(m[2])+", "+leanStr(strings.ReplaceAll(m[1], " ", ""))+")")
				continue
			}
			if m := fnRe.FindStringSubmatch(t); m != nil && want[m[1]] {
				var params []string
				for _, p := range c08dSplitArgs(strings.Join(strings.Fields(m[2]), " ")) {
					f := strings.Fields(p)
					if len(f) >= 2 {
						params = append(params, leanStr(f[len(f)-1]))
					} else {
						params = append(params, leanStr("?"+p))
					}
				}
				var mods []string
				for _, w := range strings.Fields(strings.ReplaceAll(m[3], "returns (bool)", "")) {
					switch w {
					case "external", "internal", "public", "private", "override", "virtual", "view":
					default:
						mods = append(mods, leanStr(w))
					}
				}
				var stmts []string
				for _, s := range strings.Split(m[4], ";") {
					if st := c08dStmt(s); st != "" {
						stmts = append(stmts, st)
					}
				}
				fns = append(fns, "⟨"+leanStr(m[1])+", "+leanList(params)+", "+leanList(mods)+", "+leanList(stmts)+"⟩")
			}
		}
	}
	sb.WriteString("/-- state variables of `contract FIP20Upgradable` in declaration order: (name, type).  Storage slot = slot of the first\none + position (every one of them occupies a slot of its own: two strings, a uint8, a uint256, two mappings, an address). -/\n")
	sb.WriteString("def fip20_stateVars : List (String × String) := " + leanList(vars) + "\n\n")
	sb.WriteString("/-- bodies of the token methods and of the internal functions they call, statement by statement -/\n")
	sb.WriteString("def fip20_functions : List Fn := [\n  " + strings.Join(fns, ",\n  ") + "]\n")
	sb.WriteString("\nend FxVerif.Gen.C08d\n")
	c.write("C08d.lean", sb.String())
	c.facts["C08.fip20.layout"] = layout
}
