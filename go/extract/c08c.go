package main

import (
	"go/ast"
	"go/token"
	"strings"
)

// C08 (third table): how the evm keeper's ERC-20 wrappers (x/evm/keeper/erc20.go ERC20Transfer / ERC20Mint / ERC20Burn)
// decide that a keeper-level token call SUCCEEDED: the sequence of `if … { return … }` after `ApplyContract`, translated
// into a Lean boolean function of four atoms
//     vmOk       the EVM call neither failed nor reverted (ApplyContract returned no error)
//     retEmpty   the call returned no data               (len(res.Ret) == 0)
//     unpackErr  the return data does not decode as bool  (UnpackIntoInterface returned an error)
//     value      the decoded bool                         (unpackedRet.Value; false when decoding failed)
// The unified model's keeper-level transfer uses this function as its success predicate (Model/C08U.lean stepUA, through
// the driver), and Props/C08.lean proves from it that a reverting call and a `false` return are failures.
func init() { register(extractC08c) }

type c08cCtx struct {
	c      *ctxT
	errSrc string // what `err` currently refers to: "vm" | "unpack"
	ok     bool
}

// cond translates a Go condition into a Lean Bool expression over the atoms
func (x *c08cCtx) cond(e ast.Expr) string {
	switch v := e.(type) {
	case *ast.ParenExpr:
		return "(" + x.cond(v.X) + ")"
	case *ast.UnaryExpr:
		if v.Op == token.NOT {
			return "(!" + x.cond(v.X) + ")"
		}
	case *ast.BinaryExpr:
		switch v.Op {
		case token.LAND:
			return "(" + x.cond(v.X) + " && " + x.cond(v.Y) + ")"
		case token.LOR:
			return "(" + x.cond(v.X) + " || " + x.cond(v.Y) + ")"
		case token.NEQ, token.EQL:
			l, r := x.c.src(v.X), x.c.src(v.Y)
			neg := v.Op == token.NEQ
			switch {
			case l == "err" && r == "nil":
				atom := "(!vmOk)"
				if x.errSrc == "unpack" {
					atom = "unpackErr"
				}
				if neg {
					return atom
				}
				return "(!" + atom + ")"
			case l == "len(res.Ret)" && r == "0":
				if neg {
					return "(!retEmpty)"
				}
				return "retEmpty"
			}
		}
	case *ast.SelectorExpr:
		if x.c.src(v) == "unpackedRet.Value" {
			return "value"
		}
	}
	x.ok = false
	return "false /- untranslated: " + strings.ReplaceAll(x.c.src(e), "-/", "- /") + " -/"
}

// accepts translates the statements after the ApplyContract call into `if c then <returns nil?> else …`
func (x *c08cCtx) accepts(stmts []ast.Stmt) (string, []string) {
	var checks []string
	expr := ""
	closeN := 0
	for _, st := range stmts {
		switch s := st.(type) {
		case *ast.AssignStmt:
			if strings.Contains(x.c.src(s), "ApplyContract(") {
				x.errSrc = "vm"
			}
		case *ast.IfStmt:
			if s.Init != nil && strings.Contains(x.c.src(s.Init), "UnpackIntoInterface(") {
				x.errSrc = "unpack"
			}
			if len(s.Body.List) == 0 {
				continue
			}
			rs, ok := s.Body.List[len(s.Body.List)-1].(*ast.ReturnStmt)
			if !ok || len(rs.Results) != 1 {
				x.ok = false
				continue
			}
			res := "false"
			if x.c.src(rs.Results[0]) == "nil" {
				res = "true"
			}
			c := x.cond(s.Cond)
			expr += "if " + c + " then " + res + " else "
			closeN++
			what := c08ErrName(x.c, rs.Results[0])
			if what == "" {
				what = x.c.src(rs.Results[0])
			}
			checks = append(checks, "("+leanStr(strings.Join(strings.Fields(x.c.src(s.Cond)), " "))+", "+leanStr(what)+")")
		case *ast.ReturnStmt:
			if len(s.Results) == 1 && x.c.src(s.Results[0]) == "nil" {
				expr += "true"
			} else if len(s.Results) == 1 && x.c.src(s.Results[0]) == "err" {
				if x.errSrc == "unpack" {
					expr += "(!unpackErr)"
				} else {
					expr += "vmOk"
				}
			} else {
				x.ok = false
				expr += "false"
			}
			return expr, checks
		}
	}
	x.ok = false
	return expr + "false", checks
}

func extractC08c(c *ctxT) {
	var sb strings.Builder
	sb.WriteString("namespace FxVerif.Gen.C08c\n\n")
	facts := map[string]any{}
	for _, f := range []struct{ fn, lean string }{{"ERC20Transfer", "erc20Transfer"}, {"ERC20Mint", "erc20Mint"}, {"ERC20Burn", "erc20Burn"}} {
		x := &c08cCtx{c: c, ok: true}
		expr, checks := "false", []string(nil)
		where := "(function not found)"
		if fd := c.findFunc("x/evm/keeper", "Keeper", f.fn); fd != nil && fd.Body != nil {
			expr, checks = x.accepts(fd.Body.List)
			where = c.pos(fd)
		} else {
			x.ok = false
		}
		sb.WriteString("/-- `" + f.fn + "` " + where + ": the keeper treats the token call as done iff … -/\n")
		sb.WriteString("def " + f.lean + "_accepts (vmOk retEmpty unpackErr value : Bool) : Bool :=\n  " + expr + "\n")
		sb.WriteString("/-- the `if … return …` checks in source order (condition, what is returned) -/\n")
		sb.WriteString("def " + f.lean + "_checks : List (String × String) := " + leanList(checks) + "\n")
		if x.ok {
			sb.WriteString("def " + f.lean + "_translated : Bool := true\n\n")
		} else {
			sb.WriteString("def " + f.lean + "_translated : Bool := false\n\n")
		}
		facts[f.fn] = map[string]any{"accepts": expr, "checks": checks, "translated": x.ok}
	}
	sb.WriteString("end FxVerif.Gen.C08c\n")
	c.write("C08c.lean", sb.String())
	c.facts["C08c"] = facts
}
