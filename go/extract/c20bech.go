package main

// C20 (round 5) -> Gen/C20Bech32.lean
//
// What the bech32 decoder behind every Cosmos-address check is made of, re-read on every run:
//   * fx-core: `AddressPrefix`, `AddrLen` and the conditions of `fxtypes.VerifyAddressFormat` (types/constant.go);
//   * github.com/cosmos/btcutil/bech32 at the version of /repo/go.mod (module cache): the `charset` constant, the `gen`
//     table, the minimum length tested by `DecodeNoLimit`, the separator condition of `DecodeUnsafe`, the slice expressions of
//     its result, the printable range of `Normalize`;
//   * the cosmos-sdk fork (module cache): the length limit `types/bech32.DecodeAndConvert` hands to `bech32.Decode`.
// `Model/C20Bech32.lean` is the hand-written decoder; `Props/C20.lean` proves the model's constants equal to these, so a
// dependency bump that changes the decoder breaks a proof.

import (
	"fmt"
	"go/ast"
	"go/parser"
	"go/printer"
	"go/token"
	"path/filepath"
	"sort"
	"strings"
)

func init() { register(extractC20Bech) }

func extractC20Bech(c *ctxT) {
	var sb strings.Builder
	sb.WriteString("namespace FxVerif.Gen.C20Bech32\n\n")
	strOf := func(e ast.Expr) string {
		if bl, ok := e.(*ast.BasicLit); ok && bl.Kind == token.STRING {
			return strings.Trim(bl.Value, "\"`")
		}
		return ""
	}
	prefix := strOf(c.valueSpec("types", "AddressPrefix"))
	addrLen := c.natOf(c.valueSpec("types", "AddrLen"))
	fmt.Fprintf(&sb, "/-- `fxtypes.AddressPrefix` -/\ndef addressPrefix : String := %s\n/-- `fxtypes.AddrLen` -/\ndef addrLen : Int := %d\n", leanStr(prefix), addrLen)
	var conds []string
	if fd := c.findFunc("types", "", "VerifyAddressFormat"); fd != nil {
		for _, st := range fd.Body.List {
			if is, ok := st.(*ast.IfStmt); ok {
				conds = append(conds, strings.Join(strings.Fields(c.src(is.Cond)), " "))
			}
		}
	}
	fmt.Fprintf(&sb, "/-- conditions of the `if … { return error }` statements of `fxtypes.VerifyAddressFormat`, in order -/\ndef verifyAddressConds : List String := %s\n\n", leanList(mapStr(conds, leanStr)))

	gm := readGoMod(filepath.Join(c.repo, "go.mod"))
	fset := token.NewFileSet()
	parsePkg := func(ip string) []*ast.File {
		mod, dir := gm.moduleOf(c.repo, ip)
		if dir == "" {
			return nil
		}
		sub := strings.TrimPrefix(strings.TrimPrefix(ip, mod), "/")
		matches, _ := filepath.Glob(filepath.Join(dir, sub, "*.go"))
		sort.Strings(matches)
		var fs []*ast.File
		for _, m := range matches {
			if strings.HasSuffix(m, "_test.go") {
				continue
			}
			if f, err := parser.ParseFile(fset, m, nil, 0); err == nil {
				fs = append(fs, f)
			}
		}
		return fs
	}
	srcOf := func(n ast.Node) string {
		var b strings.Builder
		_ = printer.Fprint(&b, fset, n)
		return strings.Join(strings.Fields(b.String()), " ")
	}
	charset, minLen, sepCond := "", int64(-1), ""
	var gen, slices, rangeConds []string
	for _, f := range parsePkg("github.com/cosmos/btcutil/bech32") {
		for _, d := range f.Decls {
			switch x := d.(type) {
			case *ast.GenDecl:
				for _, sp := range x.Specs {
					vs, ok := sp.(*ast.ValueSpec)
					if !ok {
						continue
					}
					for i, n := range vs.Names {
						if i >= len(vs.Values) {
							continue
						}
						if n.Name == "charset" {
							charset = strOf(vs.Values[i])
						}
						if n.Name == "gen" {
							if cl, ok := vs.Values[i].(*ast.CompositeLit); ok {
								for _, e := range cl.Elts {
									gen = append(gen, srcOf(e))
								}
							}
						}
					}
				}
			case *ast.FuncDecl:
				if x.Body == nil {
					continue
				}
				switch x.Name.Name {
				case "DecodeNoLimit":
					for _, st := range x.Body.List {
						if is, ok := st.(*ast.IfStmt); ok {
							if be, ok := is.Cond.(*ast.BinaryExpr); ok && be.Op == token.LSS && srcOf(be.X) == "len(bech)" {
								if bl, ok := be.Y.(*ast.BasicLit); ok {
									fmt.Sscan(bl.Value, &minLen)
								}
							}
						}
					}
				case "DecodeUnsafe":
					for _, st := range x.Body.List {
						if is, ok := st.(*ast.IfStmt); ok && sepCond == "" && strings.Contains(srcOf(is.Cond), "one") {
							sepCond = srcOf(is.Cond)
						}
					}
					ast.Inspect(x.Body, func(n ast.Node) bool {
						if se, ok := n.(*ast.SliceExpr); ok {
							slices = append(slices, srcOf(se))
						}
						return true
					})
				case "Normalize":
					ast.Inspect(x.Body, func(n ast.Node) bool {
						if is, ok := n.(*ast.IfStmt); ok {
							rangeConds = append(rangeConds, srcOf(is.Cond))
						}
						return true
					})
				}
			}
		}
	}
	limit := int64(-1)
	for _, f := range parsePkg("github.com/cosmos/cosmos-sdk/types/bech32") {
		for _, d := range f.Decls {
			if fd, ok := d.(*ast.FuncDecl); ok && fd.Name.Name == "DecodeAndConvert" && fd.Body != nil {
				ast.Inspect(fd.Body, func(n ast.Node) bool {
					if ce, ok := n.(*ast.CallExpr); ok && srcOf(ce.Fun) == "bech32.Decode" && len(ce.Args) == 2 {
						if bl, ok := ce.Args[1].(*ast.BasicLit); ok {
							fmt.Sscan(bl.Value, &limit)
						}
					}
					return true
				})
			}
		}
	}
	fmt.Fprintf(&sb, "/-- btcutil/bech32 `charset` -/\ndef charset : String := %s\n", leanStr(charset))
	fmt.Fprintf(&sb, "/-- btcutil/bech32 `gen` -/\ndef gen : List Nat := [%s]\n", strings.Join(gen, ", "))
	fmt.Fprintf(&sb, "/-- `DecodeNoLimit`: `if len(bech) < N` -/\ndef minLen : Int := %d\n", minLen)
	fmt.Fprintf(&sb, "/-- `DecodeAndConvert`: `bech32.Decode(bech, N)` (cosmos-sdk fork) -/\ndef limit : Int := %d\n", limit)
	fmt.Fprintf(&sb, "/-- `DecodeUnsafe`: the separator condition and the slice expressions -/\ndef separatorCond : String := %s\ndef decodeUnsafeSlices : List String := %s\n", leanStr(sepCond), leanList(mapStr(slices, leanStr)))
	fmt.Fprintf(&sb, "/-- `Normalize`: the conditions of its `if`s, in order -/\ndef normalizeConds : List String := %s\n", leanList(mapStr(rangeConds, leanStr)))
	sb.WriteString("\nend FxVerif.Gen.C20Bech32\n")
	c.write("C20Bech32.lean", sb.String())
	c.facts["C20.bech32"] = map[string]any{"prefix": prefix, "addrLen": addrLen, "limit": limit, "minLen": minLen}
}
