package main

import (
	"fmt"
	"go/ast"
	"strings"
)

// C15, x/gov/keeper/tally.go `Tally`: the arithmetic and the decision sequence, read off the AST.
//
//   - the decision sequence: the top-level statements of the function body, in source order, that either compute
//     `percentVoting` or are an `if <cond> { return <passes>, <burn>, tallyResults, nil }`, and the final return.  The Lean
//     model interprets this list in order (a `Quo` by zero is a panic), so both the comparison operators and the ORDER of
//     the tests (zero bonded before the turnout division, all-abstain before the veto and yes divisions) are regenerated;
//   - where the veto threshold and the yes threshold (expedited / regular) come from;
//   - the voting-power expressions of a voting delegator and of a voting validator, the deduction of voting delegators'
//     shares from their validator, the weighting of the options, the accumulation, the removal of counted votes.
func (c *ctxT) c15Tally(b *strings.Builder, tl *ast.FuncDecl, str func(name, doc, v string), boolean func(name, doc string, v bool)) {
	b.WriteString(`/-- a test of the decision sequence of ` + "`Tally`" + ` -/
inductive TallyCond where
  /-- totalBonded.IsZero() -/
  | bondedZero
  /-- percentVoting.<cmp>(quorum) -/
  | turnout (cmp : String)
  /-- totalVotingPower.Sub(results[v1.OptionAbstain]).Equal(math.LegacyZeroDec()) -/
  | nonAbstainZero
  /-- results[v1.OptionNoWithVeto].Quo(totalVotingPower).<cmp>(vetoThreshold), vetoThreshold parsed from <thr> -/
  | veto (cmp : String) (thr : String)
  /-- results[v1.OptionYes].Quo(totalVotingPower.Sub(results[v1.OptionAbstain])).<cmp>(threshold) -/
  | yes (cmp : String)
  | unknown (src : String)
  deriving Repr, DecidableEq

/-- a top-level statement of ` + "`Tally`" + ` that takes part in the decision -/
inductive TallyStep where
  /-- percentVoting := totalVotingPower.Quo(math.LegacyNewDecFromInt(totalBonded)) (ok = it is exactly this) -/
  | percent (ok : Bool) (src : String)
  /-- if <cond> { return <passes>, <burn>, tallyResults, nil } -/
  | ret (cond : TallyCond) (passes : Bool) (burn : String)
  | other (src : String)
  deriving Repr, DecidableEq

`)
	type step struct{ lean, fact string }
	var steps []step
	finalPasses, finalBurn := false, "<not found>"
	thrExp, thrReg := "<not found>", "<not found>"
	delPower, valPower, afterDed := "<not found>", "<not found>", "<not found>"
	subDel, subVal := "<not found>", "<not found>"
	deducts, recorded, skips, removes, delGuard := false, false, false, false, false
	addsTotal, addsResult := 0, 0

	if tl != nil && tl.Body != nil {
		binds := map[string]ast.Expr{}
		for _, n := range c15All(tl.Body, func(n ast.Node) bool { _, ok := n.(*ast.AssignStmt); return ok }) {
			as := n.(*ast.AssignStmt)
			if len(as.Rhs) == 1 && len(as.Lhs) >= 1 {
				binds[c.src(as.Lhs[0])] = as.Rhs[0]
			}
		}
		// trace an identifier through `x, _ := math.LegacyNewDecFromStr(y)` / `x := y` to the expression it is parsed from
		trace := func(e ast.Expr) string {
			for i := 0; i < 4; i++ {
				if id, ok := e.(*ast.Ident); ok {
					if d, ok := binds[id.Name]; ok {
						e = d
						continue
					}
				}
				if _, m, ce := c.callSel(e); ce != nil && m == "LegacyNewDecFromStr" && len(ce.Args) == 1 {
					e = ce.Args[0]
					continue
				}
				break
			}
			return squash(c.src(e))
		}
		classify := func(cond ast.Expr) string {
			src := squash(c.src(cond))
			if src == "totalBonded.IsZero()" {
				return ".bondedZero"
			}
			if src == "totalVotingPower.Sub(results[v1.OptionAbstain]).Equal(math.LegacyZeroDec())" {
				return ".nonAbstainZero"
			}
			recv, m, ce := c.callSel(cond)
			if ce != nil && len(ce.Args) == 1 {
				arg := squash(c.src(ce.Args[0]))
				switch {
				case recv == "percentVoting" && arg == "quorum":
					return fmt.Sprintf("(.turnout %s)", leanStr(m))
				case squash(recv) == "results[v1.OptionNoWithVeto].Quo(totalVotingPower)" && arg == "vetoThreshold":
					return fmt.Sprintf("(.veto %s %s)", leanStr(m), leanStr(trace(ce.Args[0])))
				case squash(recv) == "results[v1.OptionYes].Quo(totalVotingPower.Sub(results[v1.OptionAbstain]))" && arg == "threshold":
					return fmt.Sprintf("(.yes %s)", leanStr(m))
				}
			}
			return fmt.Sprintf("(.unknown %s)", leanStr(src))
		}
		decisionReturn := func(s ast.Stmt) (*ast.ReturnStmt, bool) {
			rs, ok := s.(*ast.ReturnStmt)
			if !ok || len(rs.Results) != 4 || c.src(rs.Results[3]) != "nil" {
				return nil, false
			}
			return rs, true
		}
		for i, st := range tl.Body.List {
			switch x := st.(type) {
			case *ast.AssignStmt:
				if len(x.Lhs) == 1 && c.src(x.Lhs[0]) == "percentVoting" && len(x.Rhs) == 1 {
					src := squash(c.src(x.Rhs[0]))
					ok := src == "totalVotingPower.Quo(math.LegacyNewDecFromInt(totalBonded))"
					steps = append(steps, step{fmt.Sprintf(".percent %v %s", ok, leanStr(src)), "percent:" + src})
				}
			case *ast.IfStmt:
				if x.Else == nil && x.Init == nil && len(x.Body.List) == 1 {
					if rs, ok := decisionReturn(x.Body.List[0]); ok {
						p := c.src(rs.Results[0])
						if p == "true" || p == "false" {
							steps = append(steps, step{fmt.Sprintf(".ret %s %s %s", classify(x.Cond), p, leanStr(squash(c.src(rs.Results[1])))),
								"if " + squash(c.src(x.Cond)) + " return " + p + "," + squash(c.src(rs.Results[1]))})
							continue
						}
					}
				}
				// any other top-level `if` that returns a decision
				if c15Find(x, func(n ast.Node) bool {
					s, ok := n.(ast.Stmt)
					if !ok {
						return false
					}
					_, ok = decisionReturn(s)
					return ok
				}) != nil {
					steps = append(steps, step{".other " + leanStr(squash(c.src(x))), "other:" + squash(c.src(x))})
				}
			case *ast.ReturnStmt:
				if rs, ok := decisionReturn(x); ok && i == len(tl.Body.List)-1 {
					finalPasses = c.src(rs.Results[0]) == "true"
					finalBurn = squash(c.src(rs.Results[1]))
				}
			}
		}
		// threshold selection
		for _, n := range c15All(tl.Body, func(n ast.Node) bool { _, ok := n.(*ast.IfStmt); return ok }) {
			is := n.(*ast.IfStmt)
			if c.src(is.Cond) != "proposal.Expedited" || is.Else == nil || len(is.Body.List) != 1 {
				continue
			}
			get := func(s ast.Stmt) string {
				as, ok := s.(*ast.AssignStmt)
				if !ok || len(as.Lhs) != 1 || len(as.Rhs) != 1 || c.src(as.Lhs[0]) != "thresholdStr" {
					return "<other>"
				}
				return squash(c.src(as.Rhs[0]))
			}
			thrExp = get(is.Body.List[0])
			if eb, ok := is.Else.(*ast.BlockStmt); ok && len(eb.List) == 1 {
				thrReg = get(eb.List[0])
			}
		}
		if d, ok := binds["threshold"]; !ok || squash(c.src(d)) != "math.LegacyNewDecFromStr(thresholdStr)" {
			thrExp, thrReg = "<threshold is not parsed from thresholdStr>", "<threshold is not parsed from thresholdStr>"
		}
		// the validator loop
		var valLoop *ast.RangeStmt
		if n := c15Find(tl.Body, func(n ast.Node) bool {
			rs, ok := n.(*ast.RangeStmt)
			return ok && c.src(rs.X) == "currValidators"
		}); n != nil {
			valLoop = n.(*ast.RangeStmt)
		}
		inVal := func(n ast.Node) bool { return valLoop != nil && n.Pos() >= valLoop.Pos() && n.End() <= valLoop.End() }
		// a statement that is executed for every voter whose validator is bonded: a direct child of an
		// `if val, ok := currValidators[valAddrStr]; ok { … }` block (not under a further condition)
		directlyUnderBondedCheck := func(st ast.Stmt) bool {
			return c15Find(tl.Body, func(n ast.Node) bool {
				is, ok := n.(*ast.IfStmt)
				if !ok || is.Init == nil || squash(c.src(is.Init)) != "val, ok := currValidators[valAddrStr]" || c.src(is.Cond) != "ok" {
					return false
				}
				for _, x := range is.Body.List {
					if x == st {
						return true
					}
				}
				return false
			}) != nil
		}
		for _, n := range c15All(tl.Body, func(n ast.Node) bool { _, ok := n.(*ast.AssignStmt); return ok }) {
			as := n.(*ast.AssignStmt)
			if len(as.Lhs) != 1 || len(as.Rhs) != 1 {
				continue
			}
			l, r := squash(c.src(as.Lhs[0])), squash(c.src(as.Rhs[0]))
			switch {
			case l == "votingPower" && inVal(as):
				valPower = r
			case l == "votingPower":
				delPower = r
			case l == "sharesAfterDeductions":
				afterDed = r
			case l == "subPower" && inVal(as):
				subVal = r
			case l == "subPower":
				subDel = r
			case l == "val.DelegatorDeductions" && r == "val.DelegatorDeductions.Add(delegation.GetShares())":
				deducts = directlyUnderBondedCheck(as)
			case l == "val.Vote" && r == "vote.Options":
				recorded = directlyUnderBondedCheck(as)
			case l == "totalVotingPower" && r == "totalVotingPower.Add(votingPower)":
				addsTotal++
			case l == "results[option.Option]" && r == "results[option.Option].Add(subPower)":
				addsResult++
			}
		}
		if valLoop != nil && len(valLoop.Body.List) > 0 {
			skips = squash(c.src(valLoop.Body.List[0])) == "if len(val.Vote) == 0 { continue }"
		}
		removes = c15Find(tl.Body, func(n ast.Node) bool {
			rs, ok := n.(*ast.ReturnStmt)
			return ok && len(rs.Results) == 2 && c.src(rs.Results[0]) == "false" &&
				squash(c.src(rs.Results[1])) == "keeper.Votes.Remove(ctx, collections.Join(vote.ProposalId, sdk.AccAddress(voter)))"
		}) != nil
		// the delegator's power is counted only for validators in currValidators (bonded)
		delGuard = c15Find(tl.Body, func(n ast.Node) bool {
			is, ok := n.(*ast.IfStmt)
			if !ok || is.Init == nil || squash(c.src(is.Init)) != "val, ok := currValidators[valAddrStr]" || c.src(is.Cond) != "ok" {
				return false
			}
			return c15Find(is.Body, func(n ast.Node) bool {
				as, ok := n.(*ast.AssignStmt)
				return ok && len(as.Lhs) == 1 && c.src(as.Lhs[0]) == "votingPower"
			}) != nil
		}) != nil
	}

	b.WriteString("/-- the decision sequence of `Tally`, in source order -/\ndef tallySteps : List TallyStep := [\n")
	var fsteps []string
	for i, s := range steps {
		sep := ","
		if i == len(steps)-1 {
			sep = ""
		}
		fmt.Fprintf(b, "  %s%s\n", s.lean, sep)
		fsteps = append(fsteps, s.fact)
	}
	b.WriteString("]\n\n")
	c.facts["C15.tallySteps"] = fsteps
	boolean("tallyFinalPasses", "the final `return <passes>, <burn>, tallyResults, nil`", finalPasses)
	str("tallyFinalBurn", "… its burn value", finalBurn)
	str("tallyThresholdExpedited", "`thresholdStr` of an expedited proposal", thrExp)
	str("tallyThresholdRegular", "`thresholdStr` of a regular proposal", thrReg)
	str("tallyDelegatorPower", "voting power of one delegation of a voter", delPower)
	str("tallyValidatorPower", "voting power of a validator that voted", valPower)
	str("tallySharesAfterDeductions", "… where sharesAfterDeductions is", afterDed)
	str("tallySubPowerDelegator", "weighting of one option (delegator)", subDel)
	str("tallySubPowerValidator", "weighting of one option (validator)", subVal)
	boolean("tallyDeductsDelegatorShares", "val.DelegatorDeductions = val.DelegatorDeductions.Add(delegation.GetShares()) for every delegation of a voter", deducts)
	boolean("tallyRecordsValidatorVote", "val.Vote = vote.Options when the voter is the operator of a bonded validator", recorded)
	boolean("tallySkipsSilentValidators", "`if len(val.Vote) == 0 { continue }` first in the validator loop", skips)
	boolean("tallyRemovesVotes", "every counted vote is removed: `return false, keeper.Votes.Remove(...)`", removes)
	boolean("tallyDelegationNeedsBondedValidator", "a delegation counts only under `if val, ok := currValidators[valAddrStr]; ok`", delGuard)
	boolean("tallyAccumulatesBoth", "`totalVotingPower = totalVotingPower.Add(votingPower)` and `results[option.Option] = results[option.Option].Add(subPower)` occur in both loops", addsTotal == 2 && addsResult == 2)
}
