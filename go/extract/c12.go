package main

import (
	"encoding/hex"
	"encoding/json"
	"fmt"
	"go/ast"
	"go/token"
	"os"
	"path/filepath"
	"regexp"
	"strconv"
	"strings"
)

// C12: the three checkpoint layouts as the sources state them —
//   (a) Go (eth-style chains): ABI input (name, type) of the packing helper method in the embedded ABI JSON zipped with
//       the argument expressions of the `Pack(...)` call in `GetCheckpoint` (field path + cast, loops resolved);
//   (b) Go (tron): the `[]abi.Param{{"type": expr}, …}` list of x/tron/types/checkpoint.go;
//   (c) Solidity: the argument list of every `abi.encode(...)` in solidity/contracts/bridge/FxBridgeLogic*.sol with the
//       declared type of each argument (function parameter, local, state variable, struct member, array element) —
//       small hand-written scanner, no compiler;
//   (d) method tags, the signed-message prefixes (Go, tron, Solidity), and the guard conditions of the confirm handlers.
func init() { register(extractC12) }

type c12Src struct {
	Kind string   `json:"kind"` // gravityId | tag | field | each | unknown
	Tag  string   `json:"tag,omitempty"`
	List string   `json:"list,omitempty"`
	Path []string `json:"path,omitempty"`
	Conv string   `json:"conv,omitempty"`
	Text string   `json:"text,omitempty"`
}

type c12GoArg struct {
	AbiName string `json:"abiName"`
	AbiType string `json:"abiType"`
	Src     c12Src `json:"src"`
}

type c12Layout struct {
	Kind         string     `json:"kind"`
	Method       string     `json:"method"`
	DropSelector bool       `json:"dropSelector"`
	Args         []c12GoArg `json:"args"`
	Where        string     `json:"where"`
}

type c12SolArg struct {
	Expr string `json:"expr"`
	Ty   string `json:"ty"`
	Lit  string `json:"lit,omitempty"`
}

type c12SolSite struct {
	File string      `json:"file"`
	Func string      `json:"func"`
	Args []c12SolArg `json:"args"`
}

// ---- Go side ---------------------------------------------------------------------------------------------------

type c12Env struct {
	c       *ctxT
	base    string               // identifier of the object (receiver / first parameter)
	gid     string               // identifier of the gravity id parameter
	defs    map[string]ast.Expr  // x := rhs (first result)
	eachOf  map[string][3]string // slice var -> list field, loop var, (index into elems)
	elems   map[string]ast.Expr  // slice var -> element expression
	packVar string
	drop    bool
}

func selPath(e ast.Expr, base string) ([]string, bool) {
	var path []string
	for {
		switch x := e.(type) {
		case *ast.SelectorExpr:
			path = append([]string{x.Sel.Name}, path...)
			e = x.X
		case *ast.Ident:
			return path, x.Name == base && len(path) > 0
		default:
			return nil, false
		}
	}
}

func callName(e ast.Expr) (string, []ast.Expr, bool) {
	ce, ok := e.(*ast.CallExpr)
	if !ok {
		return "", nil, false
	}
	switch f := ce.Fun.(type) {
	case *ast.SelectorExpr:
		if id, ok := f.X.(*ast.Ident); ok {
			return id.Name + "." + f.Sel.Name, ce.Args, true
		}
		return "." + f.Sel.Name, []ast.Expr{f.X}, true // method call on an expression: receiver as the argument
	case *ast.Ident:
		return f.Name, ce.Args, true
	}
	return "", nil, false
}

// leaf resolves `conv(base.path)`.
func (e *c12Env) leaf(x ast.Expr, base string) (path []string, conv string, ok bool) {
	if p, ok := selPath(x, base); ok {
		return p, "none", true
	}
	name, args, isCall := callName(x)
	if !isCall || len(args) != 1 {
		return nil, "", false
	}
	switch {
	case name == "big.NewInt":
		if n2, a2, ok := callName(args[0]); ok && n2 == "int64" && len(a2) == 1 {
			if p, ok := selPath(a2[0], base); ok {
				return p, "i64", true
			}
		}
		if p, ok := selPath(args[0], base); ok {
			return p, "other:big.NewInt", true
		}
	case strings.HasSuffix(name, ".HexToAddress"):
		if p, ok := selPath(args[0], base); ok {
			return p, "addr", true
		}
	case name == ".BigInt":
		if p, ok := selPath(args[0], base); ok {
			return p, "bigint", true
		}
	case name == "hex.DecodeString":
		if p, ok := selPath(args[0], base); ok {
			return p, "hexbytes", true
		}
	default:
		if p, ok := selPath(args[0], base); ok {
			return p, "other:" + name, true
		}
	}
	return nil, "", false
}

func (e *c12Env) resolve(x ast.Expr) c12Src {
	if id, ok := x.(*ast.Ident); ok {
		if ea, ok := e.eachOf[id.Name]; ok {
			if p, conv, ok := e.leaf(e.elems[id.Name], ea[1]); ok {
				return c12Src{Kind: "each", List: ea[0], Path: p, Conv: conv}
			}
			return c12Src{Kind: "unknown", Text: e.c.src(e.elems[id.Name])}
		}
		if rhs, ok := e.defs[id.Name]; ok {
			if name, args, ok := callName(rhs); ok && strings.HasSuffix(name, ".StrToByte32") && len(args) == 1 {
				if a, ok := args[0].(*ast.Ident); ok && a.Name == e.gid {
					return c12Src{Kind: "gravityId"}
				}
				if lit, ok := args[0].(*ast.BasicLit); ok && lit.Kind == token.STRING {
					s, _ := strconv.Unquote(lit.Value)
					return c12Src{Kind: "tag", Tag: s}
				}
			}
			if p, conv, ok := e.leaf(rhs, e.base); ok {
				return c12Src{Kind: "field", Path: p, Conv: conv}
			}
			return c12Src{Kind: "unknown", Text: e.c.src(rhs)}
		}
	}
	if p, conv, ok := e.leaf(x, e.base); ok {
		return c12Src{Kind: "field", Path: p, Conv: conv}
	}
	return c12Src{Kind: "unknown", Text: e.c.src(x)}
}

// scan collects definitions, loops and the Pack call / params literal of a checkpoint function.
func (e *c12Env) scan(body *ast.BlockStmt) (pack *ast.CallExpr, params *ast.CompositeLit) {
	var walk func(stmts []ast.Stmt, loopList, loopVar, loopIdx string)
	walk = func(stmts []ast.Stmt, loopList, loopVar, loopIdx string) {
		for _, st := range stmts {
			switch s := st.(type) {
			case *ast.AssignStmt:
				if len(s.Rhs) == 1 && len(s.Lhs) >= 1 {
					rhs := s.Rhs[0]
					if name, _, ok := callName(rhs); ok && strings.HasSuffix(name, ".Pack") {
						pack = rhs.(*ast.CallExpr)
						if id, ok := s.Lhs[0].(*ast.Ident); ok {
							e.packVar = id.Name
						}
						continue
					}
					if cl, ok := rhs.(*ast.CompositeLit); ok {
						if at, ok := cl.Type.(*ast.ArrayType); ok && e.c.src(at.Elt) == "abi.Param" {
							params = cl
							continue
						}
					}
					switch l := s.Lhs[0].(type) {
					case *ast.Ident:
						if loopVar != "" {
							// arr = append(arr, elem)
							if name, args, ok := callName(rhs); ok && name == "append" && len(args) == 2 {
								if a0, ok := args[0].(*ast.Ident); ok && a0.Name == l.Name {
									e.eachOf[l.Name] = [3]string{loopList, loopVar, ""}
									e.elems[l.Name] = args[1]
									continue
								}
							}
						}
						if _, seen := e.defs[l.Name]; !seen && s.Tok == token.DEFINE {
							e.defs[l.Name] = rhs
						}
					case *ast.IndexExpr:
						// arr[i] = elem inside a range loop over the list with index i
						if a, ok := l.X.(*ast.Ident); ok && loopVar != "" {
							if ix, ok := l.Index.(*ast.Ident); ok && ix.Name == loopIdx {
								e.eachOf[a.Name] = [3]string{loopList, loopVar, ""}
								e.elems[a.Name] = rhs
							}
						}
					}
				}
			case *ast.RangeStmt:
				p, ok := selPath(s.X, e.base)
				v, vok := s.Value.(*ast.Ident)
				if ok && len(p) == 1 && vok {
					idx := ""
					if k, ok := s.Key.(*ast.Ident); ok {
						idx = k.Name
					}
					walk(s.Body.List, p[0], v.Name, idx)
				}
			case *ast.IfStmt:
				if s.Init != nil {
					walk([]ast.Stmt{s.Init}, loopList, loopVar, loopIdx)
				}
			}
		}
	}
	walk(body.List, "", "", "")
	ast.Inspect(body, func(n ast.Node) bool {
		if se, ok := n.(*ast.SliceExpr); ok {
			if id, ok := se.X.(*ast.Ident); ok && id.Name == e.packVar && se.Low != nil && e.c.src(se.Low) == "4" && se.High == nil {
				e.drop = true
			}
		}
		return true
	})
	return pack, params
}

type abiInput struct {
	Name string `json:"name"`
	Type string `json:"type"`
}
type abiEntry struct {
	Type   string     `json:"type"`
	Name   string     `json:"name"`
	Inputs []abiInput `json:"inputs"`
}

func (c *ctxT) c12ABI() map[string][]abiInput {
	f := c.pkg("contract")["IFxBridgeLogic.go"]
	res := map[string][]abiInput{}
	if f == nil {
		return res
	}
	ast.Inspect(f, func(n ast.Node) bool {
		kv, ok := n.(*ast.KeyValueExpr)
		if !ok {
			return true
		}
		if k, ok := kv.Key.(*ast.Ident); !ok || k.Name != "ABI" {
			return true
		}
		lit, ok := kv.Value.(*ast.BasicLit)
		if !ok || lit.Kind != token.STRING {
			return true
		}
		s, err := strconv.Unquote(lit.Value)
		if err != nil {
			return true
		}
		var es []abiEntry
		if json.Unmarshal([]byte(s), &es) == nil {
			for _, e := range es {
				if e.Type == "function" {
					res[e.Name] = e.Inputs
				}
			}
		}
		return false
	})
	return res
}

func (c *ctxT) c12GoLayout(rel, recv, fn, kind string, abis map[string][]abiInput) c12Layout {
	fd := c.findFunc(rel, recv, fn)
	L := c12Layout{Kind: kind}
	if fd == nil || fd.Body == nil {
		return L
	}
	L.Where = c.pos(fd)
	env := &c12Env{c: c, defs: map[string]ast.Expr{}, eachOf: map[string][3]string{}, elems: map[string]ast.Expr{}}
	var prm []string
	for _, p := range fd.Type.Params.List {
		for _, n := range p.Names {
			prm = append(prm, n.Name)
		}
	}
	if recv != "" {
		if len(fd.Recv.List[0].Names) > 0 {
			env.base = fd.Recv.List[0].Names[0].Name
		}
		if len(prm) > 0 {
			env.gid = prm[0]
		}
	} else if len(prm) >= 2 {
		env.base, env.gid = prm[0], prm[1]
	}
	pack, params := env.scan(fd.Body)
	L.DropSelector = env.drop
	switch {
	case pack != nil && len(pack.Args) > 0:
		if lit, ok := pack.Args[0].(*ast.BasicLit); ok {
			L.Method, _ = strconv.Unquote(lit.Value)
		}
		ins := abis[L.Method]
		for i, a := range pack.Args[1:] {
			ga := c12GoArg{Src: env.resolve(a)}
			if i < len(ins) {
				ga.AbiName, ga.AbiType = ins[i].Name, ins[i].Type
			}
			L.Args = append(L.Args, ga)
		}
		for i := len(pack.Args) - 1; i < len(ins); i++ { // ABI inputs without a Go argument
			L.Args = append(L.Args, c12GoArg{AbiName: ins[i].Name, AbiType: ins[i].Type, Src: c12Src{Kind: "unknown", Text: "<missing>"}})
		}
	case params != nil:
		L.Method = fn
		for _, el := range params.Elts {
			ga := c12GoArg{Src: c12Src{Kind: "unknown", Text: c.src(el)}}
			if cl, ok := el.(*ast.CompositeLit); ok && len(cl.Elts) == 1 {
				if kv, ok := cl.Elts[0].(*ast.KeyValueExpr); ok {
					if k, ok := kv.Key.(*ast.BasicLit); ok {
						ga.AbiType, _ = strconv.Unquote(k.Value)
					}
					ga.Src = env.resolve(kv.Value)
				}
			}
			L.Args = append(L.Args, ga)
		}
	}
	return L
}

// ---- Solidity side ---------------------------------------------------------------------------------------------

func solStripComments(s string) string {
	var sb strings.Builder
	i := 0
	for i < len(s) {
		switch {
		case s[i] == '"':
			j := i + 1
			for j < len(s) && s[j] != '"' {
				if s[j] == '\\' {
					j++
				}
				j++
			}
			if j >= len(s) {
				j = len(s) - 1
			}
			sb.WriteString(s[i : j+1])
			i = j + 1
		case strings.HasPrefix(s[i:], "//"):
			for i < len(s) && s[i] != '\n' {
				i++
			}
		case strings.HasPrefix(s[i:], "/*"):
			j := strings.Index(s[i+2:], "*/")
			if j < 0 {
				i = len(s)
			} else {
				i += j + 4
			}
			sb.WriteByte(' ')
		default:
			sb.WriteByte(s[i])
			i++
		}
	}
	return sb.String()
}

// matchParen returns the index of the parenthesis closing the one at s[open].
func matchParen(s string, open int) int {
	depth := 0
	for i := open; i < len(s); i++ {
		switch s[i] {
		case '(', '[', '{':
			depth++
		case ')', ']', '}':
			depth--
			if depth == 0 {
				return i
			}
		case '"':
			i++
			for i < len(s) && s[i] != '"' {
				if s[i] == '\\' {
					i++
				}
				i++
			}
		}
	}
	return -1
}

func splitTop(s string) []string {
	var out []string
	depth, start := 0, 0
	for i := 0; i < len(s); i++ {
		switch s[i] {
		case '(', '[', '{':
			depth++
		case ')', ']', '}':
			depth--
		case '"':
			i++
			for i < len(s) && s[i] != '"' {
				if s[i] == '\\' {
					i++
				}
				i++
			}
		case ',':
			if depth == 0 {
				out = append(out, strings.TrimSpace(s[start:i]))
				start = i + 1
			}
		}
	}
	if t := strings.TrimSpace(s[start:]); t != "" {
		out = append(out, t)
	}
	return out
}

var solWS = regexp.MustCompile(`\s+`)

func solNormType(t string) string {
	t = strings.TrimSpace(solWS.ReplaceAllString(t, " "))
	t = strings.TrimSuffix(t, " payable")
	switch t {
	case "uint":
		return "uint256"
	case "uint[]":
		return "uint256[]"
	}
	return t
}

// solDecl parses "type [memory|calldata|storage|public|…] name" -> (type, name).
func solDecl(d string) (string, string) {
	fs := strings.Fields(d)
	var keep []string
	for _, f := range fs {
		switch f {
		case "memory", "calldata", "storage", "public", "private", "internal", "constant", "immutable", "indexed":
		default:
			keep = append(keep, f)
		}
	}
	if len(keep) < 2 {
		return solNormType(strings.Join(keep, " ")), ""
	}
	return solNormType(strings.Join(keep[:len(keep)-1], " ")), keep[len(keep)-1]
}

var (
	solFuncRe   = regexp.MustCompile(`\bfunction\s+(\w+)\s*\(`)
	solStructRe = regexp.MustCompile(`\bstruct\s+(\w+)\s*\{`)
	solHexRe    = regexp.MustCompile(`^0x[0-9a-fA-F]+$`)
	solIndexRe  = regexp.MustCompile(`^(\w+)\[(\d+)\]$`)
	solMemberRe = regexp.MustCompile(`^(\w+)\.(\w+)$`)
	solIdentRe  = regexp.MustCompile(`^\w+$`)
	solFixedArr = regexp.MustCompile(`^(.+)\[\d+\]$`)
)

type solFile struct {
	name    string
	src     string
	structs map[string]map[string]string // struct -> member -> type
}

func (f *solFile) stateVarType(name string) string {
	re := regexp.MustCompile(`(?m)^\s*([\w\[\]]+(?:\s+payable)?)\s+(?:(?:public|private|internal|constant|immutable)\s+)*` + regexp.QuoteMeta(name) + `\s*(?:=[^;]*)?;`)
	if m := re.FindStringSubmatch(f.src); m != nil && m[1] != "return" {
		return solNormType(m[1])
	}
	return ""
}

// localDecl finds `type [memory] name = init;` in the function text before the site.
func localDecl(fn string, name string) (ty, init string) {
	re := regexp.MustCompile(`([\w\[\]]+)\s+(?:memory\s+|storage\s+|calldata\s+)?` + regexp.QuoteMeta(name) + `\s*=\s*([^;]*);`)
	if m := re.FindStringSubmatch(fn); m != nil {
		return solNormType(m[1]), strings.TrimSpace(m[2])
	}
	return "", ""
}

func (f *solFile) resolve(arg string, params map[string]string, fnText string) c12SolArg {
	a := c12SolArg{Expr: solWS.ReplaceAllString(arg, " ")}
	typeOfIdent := func(id string) (string, string) {
		if t, ok := params[id]; ok {
			return t, ""
		}
		if t, init := localDecl(fnText, id); t != "" {
			return t, init
		}
		return f.stateVarType(id), ""
	}
	switch {
	case solHexRe.MatchString(arg):
		if len(arg) == 66 {
			a.Ty = "literal"
		} else {
			a.Ty = "literal-short"
		}
		a.Lit = strings.ToLower(arg)
	case solIdentRe.MatchString(arg):
		t, init := typeOfIdent(arg)
		a.Ty = t
		if solHexRe.MatchString(init) {
			a.Lit = strings.ToLower(init)
		}
	case solIndexRe.MatchString(arg):
		m := solIndexRe.FindStringSubmatch(arg)
		t, _ := typeOfIdent(m[1])
		if mm := solFixedArr.FindStringSubmatch(t); mm != nil {
			a.Ty = mm[1]
		} else if strings.HasSuffix(t, "[]") {
			a.Ty = strings.TrimSuffix(t, "[]")
		}
	case solMemberRe.MatchString(arg):
		m := solMemberRe.FindStringSubmatch(arg)
		t, _ := typeOfIdent(m[1])
		if st, ok := f.structs[t]; ok {
			a.Ty = st[m[2]]
		}
	}
	if a.Ty == "" {
		a.Ty = "unknown"
	}
	return a
}

func c12Solidity(path string) ([]c12SolSite, []byte) {
	bz, err := os.ReadFile(path)
	if err != nil {
		return nil, nil
	}
	f := &solFile{name: filepath.Base(path), src: solStripComments(string(bz)), structs: map[string]map[string]string{}}
	for _, m := range solStructRe.FindAllStringSubmatchIndex(f.src, -1) {
		open := m[1] - 1
		cl := matchParen(f.src, open)
		if cl < 0 {
			continue
		}
		mem := map[string]string{}
		for _, d := range strings.Split(f.src[open+1:cl], ";") {
			if t, n := solDecl(d); n != "" {
				mem[n] = t
			}
		}
		f.structs[f.src[m[2]:m[3]]] = mem
	}
	funcs := solFuncRe.FindAllStringSubmatchIndex(f.src, -1)
	var sites []c12SolSite
	var prefix []byte
	pos := 0
	for {
		i := strings.Index(f.src[pos:], "abi.encode")
		if i < 0 {
			break
		}
		i += pos
		pos = i + len("abi.encode")
		rest := f.src[pos:]
		packed := strings.HasPrefix(rest, "Packed")
		if packed {
			rest = rest[len("Packed"):]
			pos += len("Packed")
		}
		if !strings.HasPrefix(strings.TrimLeft(rest, " \n\t"), "(") {
			continue
		}
		open := pos + strings.Index(f.src[pos:], "(")
		cl := matchParen(f.src, open)
		if cl < 0 {
			continue
		}
		args := splitTop(f.src[open+1 : cl])
		// enclosing function
		var fm []int
		for _, m := range funcs {
			if m[0] < i {
				fm = m
			}
		}
		if fm == nil {
			continue
		}
		fname := f.src[fm[2]:fm[3]]
		popen := fm[1] - 1
		pcl := matchParen(f.src, popen)
		params := map[string]string{}
		if pcl > 0 {
			for _, d := range splitTop(f.src[popen+1 : pcl]) {
				if t, n := solDecl(d); n != "" {
					params[n] = t
				}
			}
		}
		fnText := f.src[fm[0]:i]
		if packed {
			// the signed-message prefix: abi.encodePacked("\x19Ethereum Signed Message:\n32", _theHash)
			if len(args) == 2 && strings.HasPrefix(args[0], "\"") {
				prefix = solUnescape(strings.Trim(args[0], "\""))
			}
			continue
		}
		site := c12SolSite{File: f.name, Func: fname}
		for _, a := range args {
			site.Args = append(site.Args, f.resolve(a, params, fnText))
		}
		sites = append(sites, site)
	}
	return sites, prefix
}

func solUnescape(s string) []byte {
	var out []byte
	for i := 0; i < len(s); i++ {
		if s[i] == '\\' && i+1 < len(s) {
			switch s[i+1] {
			case 'x':
				if i+3 < len(s) {
					if b, err := hex.DecodeString(s[i+2 : i+4]); err == nil {
						out = append(out, b[0])
						i += 3
						continue
					}
				}
			case 'n':
				out = append(out, '\n')
				i++
				continue
			case 't':
				out = append(out, '\t')
				i++
				continue
			case '\\', '"':
				out = append(out, s[i+1])
				i++
				continue
			}
		}
		out = append(out, s[i])
	}
	return out
}

// ---- emit ------------------------------------------------------------------------------------------------------

func c12LeanConv(conv string) string {
	switch conv {
	case "none", "i64", "addr", "bigint", "hexbytes":
		return "." + conv
	}
	return "(.other " + leanStr(conv) + ")"
}

func c12LeanStrs(xs []string) string {
	q := make([]string, len(xs))
	for i, x := range xs {
		q[i] = leanStr(x)
	}
	return leanList(q)
}

func c12TagWord(s string) string {
	b := make([]byte, 32)
	copy(b, s)
	return "0x" + hex.EncodeToString(b)
}

func c12LeanSrc(s c12Src) string {
	switch s.Kind {
	case "gravityId":
		return ".gravityId"
	case "tag":
		return fmt.Sprintf("(.tag %s %s)", leanStr(s.Tag), c12TagWord(s.Tag))
	case "field":
		return fmt.Sprintf("(.field %s %s)", c12LeanStrs(s.Path), c12LeanConv(s.Conv))
	case "each":
		return fmt.Sprintf("(.each %s %s %s)", leanStr(s.List), c12LeanStrs(s.Path), c12LeanConv(s.Conv))
	}
	return "(.unknown " + leanStr(s.Text) + ")"
}

func c12LeanLayouts(name string, ls []c12Layout) string {
	var sb strings.Builder
	fmt.Fprintf(&sb, "def %s : List GoLayout := [\n", name)
	for i, l := range ls {
		fmt.Fprintf(&sb, "  { kind := %s, method := %s, dropSelector := %v, args := [  -- %s\n", leanStr(l.Kind), leanStr(l.Method), l.DropSelector, l.Where)
		for j, a := range l.Args {
			sep := ","
			if j == len(l.Args)-1 {
				sep = ""
			}
			fmt.Fprintf(&sb, "      ⟨%s, %s, %s⟩%s\n", leanStr(a.AbiName), leanStr(a.AbiType), c12LeanSrc(a.Src), sep)
		}
		sep := ","
		if i == len(ls)-1 {
			sep = ""
		}
		fmt.Fprintf(&sb, "    ] }%s\n", sep)
	}
	sb.WriteString("]\n\n")
	return sb.String()
}

func c12Bytes(b []byte) string {
	xs := make([]string, len(b))
	for i, x := range b {
		xs[i] = strconv.Itoa(int(x))
	}
	return leanList(xs)
}

func (c *ctxT) c12StringConst(rel, name string) []byte {
	for _, f := range c.pkg(rel) {
		for _, d := range f.Decls {
			gd, ok := d.(*ast.GenDecl)
			if !ok || gd.Tok != token.CONST {
				continue
			}
			for _, sp := range gd.Specs {
				vs := sp.(*ast.ValueSpec)
				for i, n := range vs.Names {
					if n.Name == name && i < len(vs.Values) {
						if lit, ok := vs.Values[i].(*ast.BasicLit); ok {
							s, _ := strconv.Unquote(lit.Value)
							return []byte(s)
						}
					}
				}
			}
		}
	}
	return nil
}

// guards of a keeper function: every `if` condition and every `Validate*Signature(...)` call, in source order.
func (c *ctxT) c12Guards(rel, fn string) []string {
	fd := c.findFunc(rel, "Keeper", fn)
	var out []string
	if fd == nil || fd.Body == nil {
		return out
	}
	ast.Inspect(fd.Body, func(n ast.Node) bool {
		switch x := n.(type) {
		case *ast.IfStmt:
			if x.Init != nil {
				out = append(out, solWS.ReplaceAllString(c.src(x.Init), " "))
			}
			out = append(out, "if "+solWS.ReplaceAllString(c.src(x.Cond), " "))
		case *ast.ExprStmt:
			if ce, ok := x.X.(*ast.CallExpr); ok {
				s := c.src(ce.Fun)
				if strings.Contains(s, "Confirm") && strings.HasPrefix(s, "k.Set") {
					out = append(out, solWS.ReplaceAllString(c.src(ce), " "))
				}
			}
		}
		return true
	})
	return out
}

func extractC12(c *ctxT) {
	abis := c.c12ABI()
	goL := []c12Layout{
		c.c12GoLayout("x/crosschain/types", "OracleSet", "GetCheckpoint", "oracleSet", abis),
		c.c12GoLayout("x/crosschain/types", "OutgoingTxBatch", "GetCheckpoint", "batch", abis),
		c.c12GoLayout("x/crosschain/types", "OutgoingBridgeCall", "GetCheckpoint", "bridgeCall", abis),
	}
	tronL := []c12Layout{
		c.c12GoLayout("x/tron/types", "", "GetCheckpointOracleSet", "oracleSet", abis),
		c.c12GoLayout("x/tron/types", "", "GetCheckpointConfirmBatch", "batch", abis),
		c.c12GoLayout("x/tron/types", "", "GetCheckpointBridgeCall", "bridgeCall", abis),
	}
	var sites []c12SolSite
	solPrefix := map[string][]byte{}
	var solFiles []string
	for _, n := range []string{"FxBridgeLogic.sol", "FxBridgeLogicETH.sol", "FxBridgeLogicBSC.sol"} {
		p := filepath.Join(c.repo, "solidity", "contracts", "bridge", n)
		if _, err := os.Stat(p); err != nil {
			continue
		}
		solFiles = append(solFiles, n)
		ss, pre := c12Solidity(p)
		sites = append(sites, ss...)
		solPrefix[n] = pre
	}

	var sb strings.Builder
	sb.WriteString(`namespace FxVerif.Gen.C12

/-- conversion applied by the Go code to a field before packing -/
inductive Conv where
  | none      -- value passed as is (tron: address text handed to the tron ABI encoder)
  | i64       -- big.NewInt(int64(x))
  | addr      -- gethcommon.HexToAddress(x)
  | bigint    -- x.BigInt()
  | hexbytes  -- hex.DecodeString(x)
  | other (s : String)
  deriving DecidableEq, Repr

/-- where a packed argument comes from, as read from the Go source -/
inductive GoSrc where
  | gravityId                                              -- fxtypes.StrToByte32(<gravity id parameter>)
  | tag (s : String) (w : Nat)                             -- fxtypes.StrToByte32("<s>"); w = the 32 bytes, big-endian
  | field (path : List String) (c : Conv)                  -- conv(obj.path)
  | each (list : String) (path : List String) (c : Conv)   -- [conv(x.path) for x in obj.list]
  | unknown (text : String)
  deriving DecidableEq, Repr

structure GoArg where
  abiName : String
  abiType : String
  src : GoSrc
  deriving DecidableEq, Repr

/-- one argument of a Solidity abi.encode(...): expression text, declared type, literal value (if it is one) -/
structure SolArg where
  expr : String
  ty : String
  lit : Option Nat
  deriving DecidableEq, Repr

structure GoLayout where
  kind : String
  method : String
  dropSelector : Bool
  args : List GoArg
  deriving DecidableEq, Repr

structure SolSite where
  file : String
  func : String
  args : List SolArg
  deriving DecidableEq, Repr

`)
	sb.WriteString(c12LeanLayouts("goLayouts", goL))
	sb.WriteString(c12LeanLayouts("tronLayouts", tronL))
	sb.WriteString("def solSites : List SolSite := [\n")
	for i, s := range sites {
		fmt.Fprintf(&sb, "  { file := %s, func := %s, args := [\n", leanStr(s.File), leanStr(s.Func))
		for j, a := range s.Args {
			lit := "none"
			if a.Lit != "" {
				lit = "(some " + a.Lit + ")"
			}
			sep := ","
			if j == len(s.Args)-1 {
				sep = ""
			}
			fmt.Fprintf(&sb, "      ⟨%s, %s, %s⟩%s\n", leanStr(a.Expr), leanStr(a.Ty), lit, sep)
		}
		sep := ","
		if i == len(sites)-1 {
			sep = ""
		}
		fmt.Fprintf(&sb, "    ] }%s\n", sep)
	}
	sb.WriteString("]\n\n")
	fmt.Fprintf(&sb, "def solFiles : List String := %s\n\n", c12LeanStrs(solFiles))
	goPre := c.c12StringConst("x/crosschain/types", "signaturePrefix")
	tronPre := c.c12StringConst("x/tron/types", "tronSignaturePrefix")
	fmt.Fprintf(&sb, "/-- `signaturePrefix` of x/crosschain/types/eth_signer.go (bytes) -/\ndef goSignPrefix : List Nat := %s\n", c12Bytes(goPre))
	fmt.Fprintf(&sb, "/-- `tronSignaturePrefix` of x/tron/types/signer.go (bytes) -/\ndef tronSignPrefix : List Nat := %s\n", c12Bytes(tronPre))
	sb.WriteString("/-- first argument of `abi.encodePacked(<prefix>, _theHash)` in verifySig, per Solidity file (bytes) -/\ndef solSignPrefix : List (String × List Nat) := [")
	for i, n := range solFiles {
		if i > 0 {
			sb.WriteString(", ")
		}
		fmt.Fprintf(&sb, "(%s, %s)", leanStr(n), c12Bytes(solPrefix[n]))
	}
	sb.WriteString("]\n\n")
	guards := map[string][]string{}
	sb.WriteString("/-- `if` conditions (with their init statements) and confirm-store writes of the confirm handlers, in source order -/\ndef handlerGuards : List (String × List String) := [\n")
	hs := []string{"ValidateConfirmSign", "BatchConfirmHandler", "OracleSetConfirmHandler", "BridgeCallConfirmHandler"}
	for i, h := range hs {
		g := c.c12Guards("x/crosschain/keeper", h)
		guards[h] = g
		sep := ","
		if i == len(hs)-1 {
			sep = ""
		}
		fmt.Fprintf(&sb, "  (%s, %s)%s\n", leanStr(h), c12LeanStrs(g), sep)
	}
	sb.WriteString("]\n\n")
	sb.WriteString(c.c12PlanLean())
	sb.WriteString("end FxVerif.Gen.C12\n")
	c.write("C12.lean", sb.String())
	c.facts["C12.goLayouts"] = goL
	c.facts["C12.tronLayouts"] = tronL
	c.facts["C12.solSites"] = sites
	c.facts["C12.handlerGuards"] = guards
	pfx := map[string]string{}
	for n, b := range solPrefix {
		pfx[n] = hex.EncodeToString(b)
	}
	c.facts["C12.solSignPrefix"] = pfx
}
