package main

import (
	"fmt"
	"go/ast"
	"regexp"
	"sort"
	"strings"
)

// C03, round 3: what the claim handlers READ of a claim, as values — the "handler view".
//
// For every claim type the translator walks every function of x/crosschain/keeper that has a variable of that concrete
// claim type in hand (a parameter `*types.MsgXClaim`, or the binding of a single-type case of a type switch) and collects
// every MAXIMAL expression rooted at that variable:
//
//   - `v.F` / `v.GetF()`                      -> the value of field F;
//   - `v.M(...)` (a method of the claim type) -> the method is followed into x/crosschain/types and replaced by what ITS body
//     reads of the receiver (recursively), e.g. `GetSenderAddr()` = `ExternalAddrToHexAddr(m.ChainName, m.Sender)`;
//   - `f(..., v.ChainName, ...)` where the parameter of the types-package function `f` at that position is only ever used
//     as the index of `externalAddressRouter[...]` (or inside an error / panic message): the handler sees only the ADDRESS
//     CLASS the chain name is registered with, not the name — the entry carries `Go.chainClass chains c.ChainName`;
//   - `v` itself handed to a function that is not one of the scanned keeper functions: the entry is `.whole` (the
//     translator cannot see what is read; `handler_view_of_effect` then no longer checks);
//   - calls of `k.Logger(...)` and of the telemetry packages are skipped (no consensus state).
//
// The result is emitted per claim type as a Lean function `MsgXClaim.handlerView : MsgXClaim -> List HEntry` over the
// model's claim record — a list of (function, Go expression shape, values).  `Props/C03.lean` proves that the view is
// determined by the hashed path (`handler_view_is_voted`), for the view that is in the source NOW.

type c03ViewEntry struct {
	Fn     string
	Expr   string
	Leaves []string
}

type c03Viewer struct {
	c         *ctxT
	tn        string
	ftype     map[string]string
	classOnly map[string]map[int]bool // types-package function -> parameter positions that are only used as a router index
	scanned   map[string]bool         // keeper functions that take the typed claim (followed on their own)
}

// c03ClassOnly: for every plain function of x/crosschain/types, the string parameters that are used only as the index of
// `externalAddressRouter[p]` or inside panic / error-message calls
func (c *ctxT) c03ClassOnly() map[string]map[int]bool {
	res := map[string]map[int]bool{}
	for _, fd := range c.funcDecls(c03Pkg) {
		if fd.Recv != nil || fd.Body == nil {
			continue
		}
		idx := 0
		for _, p := range fd.Type.Params.List {
			for _, nm := range p.Names {
				i := idx
				idx++
				if c.src(p.Type) != "string" {
					continue
				}
				total, routed, indexed := 0, 0, 0
				var walk func(n ast.Node, inMsg bool)
				walk = func(n ast.Node, inMsg bool) {
					ast.Inspect(n, func(m ast.Node) bool {
						switch x := m.(type) {
						case *ast.IndexExpr:
							if id, ok := x.X.(*ast.Ident); ok && id.Name == "externalAddressRouter" {
								if ix, ok := x.Index.(*ast.Ident); ok && ix.Name == nm.Name {
									total++
									routed++
									indexed++
									return false
								}
							}
						case *ast.CallExpr:
							f := c.src(x.Fun)
							if f == "panic" || f == "fmt.Errorf" || strings.HasSuffix(f, ".Wrapf") || strings.HasSuffix(f, ".Wrap") {
								for _, a := range x.Args {
									ast.Inspect(a, func(k ast.Node) bool {
										if id, ok := k.(*ast.Ident); ok && id.Name == nm.Name {
											total++
											routed++
										}
										return true
									})
								}
								return false
							}
						case *ast.Ident:
							if x.Name == nm.Name {
								total++
							}
						}
						return true
					})
				}
				walk(fd.Body, false)
				if indexed > 0 && routed == total {
					if res[fd.Name.Name] == nil {
						res[fd.Name.Name] = map[int]bool{}
					}
					res[fd.Name.Name][i] = true
				}
			}
		}
	}
	return res
}

func (v *c03Viewer) leaf(field string) string {
	t := v.ftype[field]
	switch {
	case t == "string":
		return ".str c." + field
	case t == "uint64" || t == "uint32" || t == "int64":
		return ".nat c." + field
	case t == "bool":
		return ".bool c." + field
	case t == "[]string":
		return ".strs c." + field
	case strings.HasPrefix(t, "[]") && strings.HasSuffix(t, "BridgeValidator"):
		return ".members c." + field
	case strings.HasPrefix(t, "[]") && strings.HasSuffix(t, "Int"):
		return ".ints c." + field
	case strings.HasSuffix(t, "Int"):
		return ".int c." + field
	}
	return ".whole " + leanStr("field "+field+" of unmodelled type "+t)
}

func c03IsLogCall(fun string) bool {
	return strings.HasPrefix(fun, "k.Logger(") || strings.HasPrefix(fun, "s.Logger(") || strings.HasPrefix(fun, "telemetry.") ||
		strings.HasPrefix(fun, "fxtelemetry.") || strings.HasPrefix(fun, "metrics.")
}

// walk collects the entries of one body in which `rv` is the claim variable
func (v *c03Viewer) walk(body ast.Node, rv string, fn string, seen map[string]bool) (out []c03ViewEntry) {
	c := v.c
	isVar := func(e ast.Expr) bool {
		id, ok := e.(*ast.Ident)
		return ok && id.Name == rv
	}
	var visit func(n ast.Node) bool
	visit = func(n ast.Node) bool {
		switch m := n.(type) {
		case *ast.CallExpr:
			fun := c.src(m.Fun)
			if c03IsLogCall(fun) {
				return false
			}
			if se, ok := m.Fun.(*ast.SelectorExpr); ok && isVar(se.X) {
				name := se.Sel.Name
				if f := strings.TrimPrefix(name, "Get"); strings.HasPrefix(name, "Get") && v.ftype[f] != "" && len(m.Args) == 0 {
					out = append(out, c03ViewEntry{fn, f, []string{v.leaf(f)}})
					return false
				}
				out = append(out, v.method(name, fn, seen))
				for _, a := range m.Args {
					ast.Inspect(a, visit)
				}
				return false
			}
			// a types-package function some of whose parameters are only a router index
			short := fun
			if i := strings.LastIndex(short, "."); i >= 0 {
				short = short[i+1:]
			}
			if cls := v.classOnly[short]; cls != nil && (fun == short || fun == "types."+short) {
				for i, a := range m.Args {
					if se, ok := a.(*ast.SelectorExpr); ok && isVar(se.X) && se.Sel.Name == "ChainName" && cls[i] {
						out = append(out, c03ViewEntry{fn, short + "#class", []string{".kind (Go.chainClass FxVerif.Gen.C03.chains c.ChainName)"}})
						continue
					}
					ast.Inspect(a, visit)
				}
				return false
			}
			// the claim itself handed on
			passed := false
			for _, a := range m.Args {
				if isVar(a) {
					passed = true
					callee := short
					if !v.scanned[callee] {
						out = append(out, c03ViewEntry{fn, "whole->" + fun, []string{".whole " + leanStr(fun)}})
					}
				}
			}
			if passed {
				ast.Inspect(m.Fun, visit)
				for _, a := range m.Args {
					if !isVar(a) {
						ast.Inspect(a, visit)
					}
				}
				return false
			}
			return true
		case *ast.Ident:
			// the claim variable used as a value in any other way (assigned to another variable, stored in a composite
			// literal, returned, compared …): the translator does not follow it
			if m.Name == rv {
				out = append(out, c03ViewEntry{fn, "whole: used as a value", []string{".whole " + leanStr("claim variable used as a value in "+fn)}})
			}
			return false
		case *ast.SelectorExpr:
			if isVar(m.X) {
				if v.ftype[m.Sel.Name] != "" {
					out = append(out, c03ViewEntry{fn, m.Sel.Name, []string{v.leaf(m.Sel.Name)}})
				}
				return false
			}
		}
		return true
	}
	ast.Inspect(body, visit)
	return out
}

// method: what a method of the claim type reads of its receiver, flattened into one entry
func (v *c03Viewer) method(name, fn string, seen map[string]bool) c03ViewEntry {
	if seen[name] {
		return c03ViewEntry{fn, name + "(){recursive}", nil}
	}
	fd := v.c.findFunc(c03Pkg, v.tn, name)
	if fd == nil || fd.Body == nil || len(fd.Recv.List[0].Names) != 1 {
		return c03ViewEntry{fn, name + "(){?}", []string{".whole " + leanStr("method "+name+" not found")}}
	}
	seen2 := map[string]bool{name: true}
	for k := range seen {
		seen2[k] = true
	}
	sub := v.walk(fd.Body, fd.Recv.List[0].Names[0].Name, fn, seen2)
	sub = c03DedupView(sub, false)
	var parts, leaves []string
	for _, e := range sub {
		parts = append(parts, e.Expr)
		leaves = append(leaves, e.Leaves...)
	}
	return c03ViewEntry{fn, name + "(){" + strings.Join(parts, ",") + "}", leaves}
}

func c03DedupView(es []c03ViewEntry, doSort bool) []c03ViewEntry {
	seen := map[string]bool{}
	var out []c03ViewEntry
	for _, e := range es {
		k := e.Fn + "\x00" + e.Expr
		if !seen[k] {
			seen[k] = true
			out = append(out, e)
		}
	}
	if doSort {
		sort.SliceStable(out, func(i, j int) bool {
			if out[i].Fn != out[j].Fn {
				return out[i].Fn < out[j].Fn
			}
			return out[i].Expr < out[j].Expr
		})
	}
	return out
}

// c03HandlerView: the view of claim type tn over all keeper functions that hold a variable of that type
func (c *ctxT) c03HandlerView(tn string, ftype map[string]string, classOnly map[string]map[int]bool) []c03ViewEntry {
	v := &c03Viewer{c: c, tn: tn, ftype: ftype, classOnly: classOnly, scanned: map[string]bool{}}
	isT := func(t ast.Expr) bool {
		s := c.src(t)
		return s == "*types."+tn || s == "types."+tn || s == "*"+tn
	}
	for _, fd := range c.funcDecls(c03Keeper) {
		if fd.Body == nil {
			continue
		}
		for _, p := range fd.Type.Params.List {
			if isT(p.Type) {
				v.scanned[fd.Name.Name] = true
			}
		}
	}
	var out []c03ViewEntry
	for _, fd := range c.funcDecls(c03Keeper) {
		if fd.Body == nil {
			continue
		}
		for _, p := range fd.Type.Params.List {
			if isT(p.Type) {
				for _, nm := range p.Names {
					out = append(out, v.walk(fd.Body, nm.Name, fd.Name.Name, map[string]bool{})...)
				}
			}
		}
		// a type assertion binding: `x, ok := e.(*types.T)` makes x a variable of the concrete type for the rest of the function
		ast.Inspect(fd.Body, func(n ast.Node) bool {
			as, ok := n.(*ast.AssignStmt)
			if !ok || len(as.Rhs) != 1 || len(as.Lhs) < 1 {
				return true
			}
			ta, ok := as.Rhs[0].(*ast.TypeAssertExpr)
			if !ok || ta.Type == nil || !isT(ta.Type) {
				return true
			}
			if id, ok := as.Lhs[0].(*ast.Ident); ok && id.Name != "_" {
				for _, e := range v.walk(fd.Body, id.Name, fd.Name.Name, map[string]bool{}) {
					// the binding occurrence itself is not a use
					if e.Expr == "whole: used as a value" {
						continue
					}
					out = append(out, e)
				}
			}
			return true
		})
		ast.Inspect(fd.Body, func(n ast.Node) bool {
			ts, ok := n.(*ast.TypeSwitchStmt)
			if !ok {
				return true
			}
			as, ok := ts.Assign.(*ast.AssignStmt)
			if !ok || len(as.Lhs) != 1 {
				return true
			}
			bind := c.src(as.Lhs[0])
			for _, cc := range ts.Body.List {
				cl := cc.(*ast.CaseClause)
				if len(cl.List) == 1 && isT(cl.List[0]) {
					for _, st := range cl.Body {
						out = append(out, v.walk(st, bind, fd.Name.Name, map[string]bool{})...)
					}
				}
			}
			return true
		})
	}
	return c03DedupView(out, true)
}

var c03ReLeafField = regexp.MustCompile(`\bc\.([A-Za-z0-9_]+)`)

// c03ViewFields: the claim fields whose values occur in the view
func c03ViewFields(es []c03ViewEntry) []string {
	set := map[string]bool{}
	for _, e := range es {
		for _, l := range e.Leaves {
			for _, m := range c03ReLeafField.FindAllStringSubmatch(l, -1) {
				set[m[1]] = true
			}
			if strings.HasPrefix(l, ".whole") {
				set["*"] = true
			}
		}
	}
	return sortedKeys(set)
}

func c03ViewLean(tn string, es []c03ViewEntry) string {
	var sb strings.Builder
	var vf []string
	for _, f := range c03ViewFields(es) {
		vf = append(vf, leanStr(f))
	}
	fmt.Fprintf(&sb, "/-- the fields whose values occur in `handlerView` (`*`: the whole claim) -/\ndef %s.viewFields : List String := %s\n\n", tn, leanList(vf))
	fmt.Fprintf(&sb, "/-- what x/crosschain/keeper reads of a claim of this type while executing it, as VALUES (function, expression shape,\nvalues): methods of the claim followed into x/crosschain/types, chain names reduced to their address class where the code\nonly uses them as the index of `externalAddressRouter` -/\ndef %s.handlerView (c : %s) : List HEntry := [", tn, tn)
	for i, e := range es {
		if i > 0 {
			sb.WriteString(",")
		}
		fmt.Fprintf(&sb, "\n  ⟨%s, %s, [%s]⟩", leanStr(e.Fn), leanStr(e.Expr), strings.Join(e.Leaves, ", "))
	}
	if len(es) > 0 {
		sb.WriteString("\n")
	}
	sb.WriteString("]\n\n")
	return sb.String()
}

// c03KeyLayoutLean: the byte layout of the attestation store key and of the pending-execute-claim key (key.go), as parts
// the model interprets (`Model/C03Go.lean` `keyBytes`)
func (c *ctxT) c03KeyLayoutLean() string {
	var sb strings.Builder
	emit := func(def, fn string, comment string) {
		ps := c.c12KeyParts(fn)
		var xs []string
		for _, p := range ps {
			switch p.Kind {
			case "const":
				xs = append(xs, ".lit "+c12Bytes(c.c12KeyPrefix(p.Arg)))
			case "be8":
				xs = append(xs, ".be64 "+leanStr(p.Arg))
			case "other":
				if ok := func() bool {
					fd := c.keyFnDecl(fn)
					if fd == nil {
						return false
					}
					names, tys := c.fnParams(fd)
					for i, n := range names {
						if n == p.Arg && tys[i] == "[]byte" {
							return true
						}
					}
					return false
				}(); ok {
					xs = append(xs, ".raw "+leanStr(p.Arg))
				} else {
					xs = append(xs, ".unknown "+leanStr(p.Arg))
				}
			default:
				xs = append(xs, ".unknown "+leanStr(p.Kind+" "+p.Arg))
			}
		}
		fmt.Fprintf(&sb, "/-- %s -/\ndef %s : List KeyPart := %s\n\n", comment, def, leanList(xs))
		c.facts["C03."+def] = ps
	}
	emit("attestationKeyParts", "GetAttestationKey", "`types.GetAttestationKey(eventNonce, claimHash)` (x/crosschain/types/key.go): what it concatenates, in order")
	emit("pendingClaimKeyParts", "GetPendingExecuteClaimKey", "`types.GetPendingExecuteClaimKey(nonce)`")
	return sb.String()
}

// c03Dispatch: the two type switches that decide WHEN a claim is executed — `AttestationHandler` (which claim types are
// only stored by SavePendingExecuteClaim, which are handled at once) and `ExecuteClaim` (which stored types it can run)
func (c *ctxT) c03Dispatch() (stored, immediate, runnable []string, problems []string) {
	cases := func(fn string, visit func(types []string, body []ast.Stmt, isDefault bool)) {
		fd := c.findFunc(c03Keeper, "Keeper", fn)
		if fd == nil || fd.Body == nil {
			problems = append(problems, fn+" not found")
			return
		}
		found := false
		ast.Inspect(fd.Body, func(n ast.Node) bool {
			ts, ok := n.(*ast.TypeSwitchStmt)
			if !ok || found {
				return true
			}
			found = true
			for _, cc := range ts.Body.List {
				cl := cc.(*ast.CaseClause)
				var tys []string
				for _, t := range cl.List {
					tys = append(tys, strings.TrimPrefix(strings.TrimPrefix(c.src(t), "*"), "types."))
				}
				visit(tys, cl.Body, cl.List == nil)
			}
			return false
		})
		if !found {
			problems = append(problems, fn+": no type switch")
		}
	}
	callsIn := func(body []ast.Stmt, name string) bool {
		hit := false
		for _, st := range body {
			ast.Inspect(st, func(n ast.Node) bool {
				if ce, ok := n.(*ast.CallExpr); ok && strings.HasSuffix(c.src(ce.Fun), "."+name) {
					hit = true
				}
				return true
			})
		}
		return hit
	}
	cases("AttestationHandler", func(tys []string, body []ast.Stmt, isDefault bool) {
		if isDefault {
			return
		}
		if callsIn(body, "SavePendingExecuteClaim") {
			stored = append(stored, tys...)
		} else {
			immediate = append(immediate, tys...)
		}
	})
	cases("ExecuteClaim", func(tys []string, body []ast.Stmt, isDefault bool) {
		if !isDefault {
			runnable = append(runnable, tys...)
		}
	})
	sort.Strings(stored)
	sort.Strings(immediate)
	sort.Strings(runnable)
	return
}

func (c *ctxT) c03DispatchLean() string {
	stored, immediate, runnable, problems := c.c03Dispatch()
	q := func(xs []string) string {
		var out []string
		for _, x := range xs {
			out = append(out, leanStr(x))
		}
		return leanList(out)
	}
	var sb strings.Builder
	for _, p := range problems {
		fmt.Fprintf(&sb, "-- extractor: %s\n", p)
	}
	fmt.Fprintf(&sb, "/-- `AttestationHandler`: the claim types whose case only calls `SavePendingExecuteClaim` (executed later by `ExecuteClaim`) -/\ndef storedTypes : List String := %s\n\n", q(stored))
	fmt.Fprintf(&sb, "/-- `AttestationHandler`: the claim types handled at once -/\ndef immediateTypes : List String := %s\n\n", q(immediate))
	fmt.Fprintf(&sb, "/-- `ExecuteClaim`: the stored claim types it can run -/\ndef runnableTypes : List String := %s\n\n", q(runnable))
	c.facts["C03.dispatch"] = map[string]any{"stored": stored, "immediate": immediate, "runnable": runnable, "problems": problems}
	return sb.String()
}
