package main

import (
	"fmt"
	"go/ast"
	"go/parser"
	"path/filepath"
	"strings"
)

// C09, third table: the DEPENDENCY code the frame model is a model of, re-read from the module cache on every run (the
// forks are pinned by /repo/go.mod; a bump of either fork is followed automatically):
//
//   * ethermint fork x/evm/statedb/statedb.go `(*StateDB).ExecuteNativeAction`: its statements in source order as a small
//     program (`nativeActionProg`) that Model/C09Dep.lean INTERPRETS — snapshot, run the action, on error restore + return,
//     journal the snapshot, return nil;
//   * go-ethereum fork core/vm/evm.go `Call` / `CallCode` / `DelegateCall` / `StaticCall`: statements in source order
//     (`callProgs`): depth check, balance check (returns before any snapshot, handing back all the gas), Snapshot, value
//     Transfer, run the callee (precompile or interpreter), on error RevertToSnapshot and — unless the error is
//     ErrExecutionReverted — burn the gas, return;
//   * single facts (`stateDBFacts`): Snapshot = journal length, journal.Revert walks newest-first down to the snapshot and
//     truncates, nativeChange.Revert restores the snapshot, Clone/Restore, Context() hands out the very ctx native actions
//     run on, Commit writes the native store before the dirty EVM storage, Transfer is itself a native action.
//
// Nothing here is compared with a hand-written expectation in Go: the Lean side proves that interpreting these programs
// gives exactly the functions the frame model (Model/C09.lean) is built from, so a change of statement order in either
// fork breaks a proof obligation.

func init() { register(extractC09Dep) }

func c09flat(s string) string { return strings.Join(strings.Fields(s), " ") }

// round 4: the statements the dependency translator takes as NEUTRAL (no effect on what the frame model keeps: journal,
// native store, gas handed back) are no longer only a trusted prefix list inside this file: every statement so classified
// is printed into Gen/C09Dep.lean IN FULL (function, flattened source), together with the StateDB methods it calls and
// whether it can return from the function — Props/C09.lean compares the list with the reviewed one and decides that the
// StateDB methods reached are account bookkeeping only.
type c09Neutral struct {
	fn, src string
	calls   []string // methods called on evm.StateDB / s (the StateDB itself) inside the statement
	returns bool     // the statement contains a return
}

var c09NeutralStmts []c09Neutral

func (c *ctxT) c09RecordNeutral(fn string, st ast.Node) {
	n := c09Neutral{fn: fn, src: c09flat(c.src(st))}
	seen := map[string]bool{}
	ast.Inspect(st, func(x ast.Node) bool {
		switch y := x.(type) {
		case *ast.ReturnStmt:
			n.returns = true
		case *ast.CallExpr:
			if se, ok := y.Fun.(*ast.SelectorExpr); ok {
				recv := c09flat(c.src(se.X))
				if (recv == "evm.StateDB" || recv == "s" || recv == "s.journal" || recv == "s.cacheMS") && !seen[se.Sel.Name] {
					seen[se.Sel.Name] = true
					n.calls = append(n.calls, se.Sel.Name)
				}
			}
		}
		return true
	})
	c09NeutralStmts = append(c09NeutralStmts, n)
}

func (c *ctxT) c09NAProg(fd *ast.FuncDecl) []string {
	var steps []string
	for _, st := range fd.Body.List {
		src := c09flat(c.src(st))
		switch s := st.(type) {
		case *ast.AssignStmt:
			switch {
			case strings.Contains(src, ":= s.snapshotNativeState()"):
				steps = append(steps, ".snapshot")
			case strings.HasPrefix(src, "eventManager := sdk.NewEventManager()"), strings.HasPrefix(src, "events := eventManager.Events()"),
				strings.HasPrefix(src, "s.nativeEvents = s.nativeEvents.AppendEvents(events)"):
				steps = append(steps, ".events "+leanStr(src))
				c.c09RecordNeutral("ExecuteNativeAction", st)
			default:
				steps = append(steps, ".unknown "+leanStr(src))
			}
		case *ast.IfStmt:
			init := ""
			if s.Init != nil {
				init = c09flat(c.src(s.Init))
			}
			cond := c09flat(c.src(s.Cond))
			if strings.HasPrefix(init, "err := action(") && cond == "err != nil" && s.Else == nil {
				steps = append(steps, ".run")
				for _, b := range s.Body.List {
					bs := c09flat(c.src(b))
					switch {
					case strings.HasPrefix(bs, "s.revertNativeStateToSnapshot(snapshot)"):
						steps = append(steps, ".onErr .restore")
					case bs == "return err":
						steps = append(steps, ".onErr .retErr")
					default:
						steps = append(steps, ".onErr (.unknown "+leanStr(bs)+")")
					}
				}
			} else {
				steps = append(steps, ".unknown "+leanStr(src))
			}
		case *ast.ExprStmt:
			switch {
			case strings.HasPrefix(src, "s.journal.append(nativeChange{snapshot: snapshot"):
				steps = append(steps, ".journal")
			case strings.HasPrefix(src, "s.emitNativeEvents("):
				steps = append(steps, ".events "+leanStr(src))
				c.c09RecordNeutral("ExecuteNativeAction", st)
			case strings.HasPrefix(src, "s.revertNativeStateToSnapshot(snapshot)"):
				steps = append(steps, ".restore")
			default:
				steps = append(steps, ".unknown "+leanStr(src))
			}
		case *ast.ReturnStmt:
			switch src {
			case "return nil":
				steps = append(steps, ".retNil")
			case "return err":
				steps = append(steps, ".retErr")
			default:
				steps = append(steps, ".unknown "+leanStr(src))
			}
		default:
			steps = append(steps, ".unknown "+leanStr(src))
		}
	}
	return steps
}

func (c *ctxT) c09CallProg(fd *ast.FuncDecl) []string {
	var steps []string
	neutralPrefixes := []string{"p, isPrecompile := evm.Precompile(addr)", "debug := evm.Config.Tracer != nil", "if debug {", "if evm.Config.Debug {",
		"if !evm.StateDB.Exist(addr) {", "var (", "evm.StateDB.AddBalance(addr, big0)", "if evm.Config.Tracer != nil {"}
	for _, st := range fd.Body.List {
		src := c09flat(c.src(st))
		switch s := st.(type) {
		case *ast.IfStmt:
			cond := c09flat(c.src(s.Cond))
			body := c09flat(c.src(s.Body))
			switch {
			case strings.HasPrefix(cond, "evm.depth > int(params.CallCreateDepth)") && strings.Contains(body, "return nil, gas, ErrDepth"):
				steps = append(steps, ".depthCheck")
			case strings.Contains(cond, "!evm.Context.CanTransfer(evm.StateDB, caller.Address(), value)") && strings.Contains(body, "return nil, gas, ErrInsufficientBalance") && s.Else == nil:
				steps = append(steps, ".fundCheck")
			case (cond == "isPrecompile" || (s.Init != nil && strings.HasPrefix(c09flat(c.src(s.Init)), "p, isPrecompile := evm.Precompile(addr)") && cond == "isPrecompile")) &&
				s.Else != nil && strings.Contains(body, "evm.RunPrecompiledContract(p, caller, input, gas,"):
				steps = append(steps, ".runCallee")
			case cond == "err != nil" && s.Else == nil && s.Init == nil:
				for _, b := range s.Body.List {
					bs := c09flat(c.src(b))
					switch {
					case bs == "evm.StateDB.RevertToSnapshot(snapshot)":
						steps = append(steps, ".onErr .revert")
					case bs == "if err != ErrExecutionReverted { gas = 0 }":
						steps = append(steps, ".onErr .burnGasUnlessReverted")
					default:
						steps = append(steps, ".onErr (.unknown "+leanStr(bs)+")")
					}
				}
			default:
				neutral := false
				for _, p := range neutralPrefixes {
					if strings.HasPrefix(src, p) {
						neutral = true
					}
				}
				if neutral {
					steps = append(steps, ".neutral "+leanStr(firstWords(src, 6)))
					c.c09RecordNeutral(fd.Name.Name, st)
				} else {
					steps = append(steps, ".unknown "+leanStr(src))
				}
			}
		case *ast.AssignStmt:
			switch {
			case src == "snapshot := evm.StateDB.Snapshot()":
				steps = append(steps, ".snapshot")
			case strings.HasPrefix(src, "p, isPrecompile := evm.Precompile(addr)"), strings.HasPrefix(src, "debug := "):
				steps = append(steps, ".neutral "+leanStr(firstWords(src, 6)))
				c.c09RecordNeutral(fd.Name.Name, st)
			default:
				steps = append(steps, ".unknown "+leanStr(src))
			}
		case *ast.ExprStmt:
			switch {
			case src == "evm.Context.Transfer(evm.StateDB, caller.Address(), addr, value)":
				steps = append(steps, ".transfer")
			case src == "evm.StateDB.AddBalance(addr, big0)":
				steps = append(steps, ".neutral "+leanStr(src))
				c.c09RecordNeutral(fd.Name.Name, st)
			default:
				steps = append(steps, ".unknown "+leanStr(src))
			}
		case *ast.ReturnStmt:
			if src == "return ret, gas, err" {
				steps = append(steps, ".ret")
			} else {
				steps = append(steps, ".unknown "+leanStr(src))
			}
		case *ast.DeclStmt:
			steps = append(steps, ".neutral "+leanStr(firstWords(src, 6)))
			c.c09RecordNeutral(fd.Name.Name, st)
		default:
			steps = append(steps, ".unknown "+leanStr(src))
		}
	}
	return steps
}

// c09CreateProg: the statements of (*EVM).create.  Statements that only touch EVM-side account state (nonce bump of the
// creator before the snapshot, access list, CreateAccount / nonce of the new account after it), the collision test and
// the three post-checks on the returned runtime code (size, 0xEF, deposit gas — all vacuous for a constructor that
// returns no code, which is what the harness deploys) are `neutral`; everything else must be one of the known steps.
func (c *ctxT) c09CreateProg(fd *ast.FuncDecl) []string {
	var steps []string
	neutralPrefixes := []string{"nonce := evm.StateDB.GetNonce(caller.Address())", "if nonce+1 < nonce {", "evm.StateDB.SetNonce(caller.Address(), nonce+1)",
		"if evm.chainRules.IsBerlin { evm.StateDB.AddAddressToAccessList(address) }", "contractHash := evm.StateDB.GetCodeHash(address)",
		"if evm.StateDB.GetNonce(address) != 0 ||", "evm.StateDB.CreateAccount(address)", "if evm.chainRules.IsEIP158 { evm.StateDB.SetNonce(address, 1) }",
		"contract := NewContract(caller, AccountRef(address), value, gas)", "contract.SetCodeOptionalHash(&address, codeAndHash)", "if evm.Config.Tracer != nil {",
		"if err == nil && evm.chainRules.IsEIP158 && len(ret) > params.MaxCodeSize {", "if err == nil && len(ret) >= 1 && ret[0] == 0xEF && evm.chainRules.IsLondon {",
		"if err == nil { createDataGas := uint64(len(ret)) * params.CreateDataGas"}
	for _, st := range fd.Body.List {
		src := c09flat(c.src(st))
		is, isIf := st.(*ast.IfStmt)
		switch {
		case isIf && strings.HasPrefix(c09flat(c.src(is.Cond)), "evm.depth > int(params.CallCreateDepth)") && strings.Contains(src, "return nil, common.Address{}, gas, ErrDepth"):
			steps = append(steps, ".depthCheck")
		case isIf && c09flat(c.src(is.Cond)) == "!evm.Context.CanTransfer(evm.StateDB, caller.Address(), value)" && strings.Contains(src, "return nil, common.Address{}, gas, ErrInsufficientBalance") && is.Else == nil:
			steps = append(steps, ".fundCheck")
		case src == "snapshot := evm.StateDB.Snapshot()":
			steps = append(steps, ".snapshot")
		case src == "evm.Context.Transfer(evm.StateDB, caller.Address(), address, value)":
			steps = append(steps, ".transfer")
		case src == "ret, err := evm.interpreter.Run(contract, nil, false)":
			steps = append(steps, ".runCallee")
		case isIf && c09flat(c.src(is.Cond)) == "err != nil && (evm.chainRules.IsHomestead || err != ErrCodeStoreOutOfGas)" && is.Else == nil:
			for _, b := range is.Body.List {
				bs := c09flat(c.src(b))
				switch bs {
				case "evm.StateDB.RevertToSnapshot(snapshot)":
					steps = append(steps, ".onErr .revert")
				case "if err != ErrExecutionReverted { contract.UseGas(contract.Gas) }":
					steps = append(steps, ".onErr .burnGasUnlessReverted")
				default:
					steps = append(steps, ".onErr (.unknown "+leanStr(bs)+")")
				}
			}
		case src == "return ret, address, contract.Gas, err":
			steps = append(steps, ".ret")
		default:
			neutral := false
			for _, p := range neutralPrefixes {
				if strings.HasPrefix(src, p) {
					neutral = true
				}
			}
			if neutral {
				steps = append(steps, ".neutral "+leanStr(firstWords(src, 6)))
				c.c09RecordNeutral("create", st)
			} else {
				steps = append(steps, ".unknown "+leanStr(src))
			}
		}
	}
	return steps
}

func firstWords(s string, n int) string {
	f := strings.Fields(s)
	if len(f) > n {
		f = f[:n]
	}
	return strings.Join(f, " ")
}

// c09CreateEntry: one entry point of contract creation as a Lean tuple
func (c *ctxT) c09CreateEntry(fd *ast.FuncDecl) string {
	var stmts, calls []string
	for _, st := range fd.Body.List {
		stmts = append(stmts, c09flat(c.src(st)))
	}
	lastOk, typ, addrArg := false, "", ""
	n := len(fd.Body.List)
	if n > 0 {
		if rs, ok := fd.Body.List[n-1].(*ast.ReturnStmt); ok && len(rs.Results) == 1 {
			if ce, ok := rs.Results[0].(*ast.CallExpr); ok && c09flat(c.src(ce.Fun)) == "evm.create" && len(ce.Args) == 6 {
				lastOk, typ, addrArg = true, c09flat(c.src(ce.Args[5])), c09flat(c.src(ce.Args[4]))
			}
		}
		seen := map[string]bool{}
		for _, st := range fd.Body.List[:n-1] {
			ast.Inspect(st, func(x ast.Node) bool {
				if ce, ok := x.(*ast.CallExpr); ok {
					if se, ok := ce.Fun.(*ast.SelectorExpr); ok && c09flat(c.src(se.X)) == "evm.StateDB" && !seen[se.Sel.Name] {
						seen[se.Sel.Name] = true
						calls = append(calls, se.Sel.Name)
					}
				}
				return true
			})
		}
	}
	return "(" + leanStr(fd.Name.Name) + ", " + leanStrs(stmts) + ", " + leanBool(lastOk) + ", " + leanStr(typ) + ", " + leanStr(addrArg) + ", " + leanStrs(calls) + ")"
}

func extractC09Dep(c *ctxT) {
	c09NeutralStmts = nil
	var sb strings.Builder
	sb.WriteString("namespace FxVerif.Gen.C09Dep\n\n")
	sb.WriteString(`/-- statements of the ethermint fork's (*StateDB).ExecuteNativeAction -/
inductive NAStep
  | snapshot | run | onErr (s : NAStep) | restore | retErr | journal | retNil
  | events (src : String) | unknown (src : String)
  deriving Repr, DecidableEq

/-- statements of the go-ethereum fork's EVM.Call / CallCode / DelegateCall / StaticCall -/
inductive CStep
  | depthCheck | fundCheck | snapshot | transfer | runCallee | onErr (s : CStep) | revert | burnGasUnlessReverted | ret
  | neutral (src : String) | unknown (src : String)
  deriving Repr, DecidableEq

`)
	facts := map[string]string{}
	var na []string
	edir := c.depDir("github.com/evmos/ethermint")
	if edir != "" {
		if f, err := parser.ParseFile(c.fset, filepath.Join(edir, "x", "evm", "statedb", "statedb.go"), nil, 0); err == nil {
			for _, d := range f.Decls {
				fd, ok := d.(*ast.FuncDecl)
				if !ok || fd.Body == nil || recvName(fd) != "StateDB" {
					continue
				}
				body := c09flat(c.src(fd.Body))
				switch fd.Name.Name {
				case "ExecuteNativeAction":
					na = c.c09NAProg(fd)
					ast.Inspect(fd.Body, func(x ast.Node) bool {
						if ce, ok := x.(*ast.CallExpr); ok && calleeName(ce) == "action" && len(ce.Args) == 1 {
							facts["actionCtx"] = c09flat(c.src(ce.Args[0]))
						}
						return true
					})
				case "Context":
					facts["Context"] = body
				case "snapshotNativeState":
					facts["snapshotNativeState"] = body
				case "revertNativeStateToSnapshot":
					facts["revertNativeStateToSnapshot"] = body
				case "Snapshot":
					facts["Snapshot.records"] = fmt.Sprint(strings.Contains(body, "revision{id, s.journal.length()}"))
				case "RevertToSnapshot":
					facts["RevertToSnapshot.journalIndex"] = fmt.Sprint(strings.Contains(body, "snapshot := s.validRevisions[idx].journalIndex") && strings.Contains(body, "s.journal.Revert(s, snapshot)"))
				case "Commit":
					i, j := strings.Index(body, "s.commitMS()"), strings.Index(body, "range s.journal.sortedDirties()")
					facts["Commit.nativeFirst"] = fmt.Sprint(i >= 0 && j >= 0 && i < j)
				case "Transfer":
					facts["Transfer.isNativeAction"] = fmt.Sprint(strings.Contains(body, "s.ExecuteNativeAction(common.Address{}, nil, func(ctx sdk.Context) error { return s.keeper.Transfer(ctx, senderAddr, recipientAddr, coins) })"))
				case "AddLog":
					facts["AddLog.journaled"] = fmt.Sprint(strings.HasPrefix(body, "{ s.journal.append(addLogChange{})"))
				}
			}
		} else {
			facts["statedb.go"] = "cannot parse: " + err.Error()
		}
		for _, jf := range []string{"journal.go", "native.go"} {
			f, err := parser.ParseFile(c.fset, filepath.Join(edir, "x", "evm", "statedb", jf), nil, 0)
			if err != nil {
				facts[jf] = "cannot parse: " + err.Error()
				continue
			}
			for _, d := range f.Decls {
				fd, ok := d.(*ast.FuncDecl)
				if !ok || fd.Body == nil {
					continue
				}
				body := c09flat(c.src(fd.Body))
				switch {
				case recvName(fd) == "journal" && fd.Name.Name == "Revert":
					facts["journal.Revert.newestFirst"] = fmt.Sprint(strings.Contains(body, "for i := len(j.entries) - 1; i >= snapshot; i-- {") && strings.Contains(body, "j.entries[i].Revert(statedb)"))
					facts["journal.Revert.truncates"] = fmt.Sprint(strings.HasSuffix(body, "j.entries = j.entries[:snapshot] }"))
				case recvName(fd) == "journal" && fd.Name.Name == "append":
					facts["journal.append.atEnd"] = fmt.Sprint(strings.HasPrefix(body, "{ j.entries = append(j.entries, entry)"))
				case recvName(fd) == "journal" && fd.Name.Name == "length":
					facts["journal.length"] = body
				case recvName(fd) == "nativeChange" && fd.Name.Name == "Revert":
					facts["nativeChange.Revert"] = body
				case recvName(fd) == "storageChange" && fd.Name.Name == "Revert":
					facts["storageChange.Revert"] = body
				}
			}
		}
	}
	sb.WriteString("/-- ethermint fork x/evm/statedb/statedb.go (*StateDB).ExecuteNativeAction, statement by statement -/\n")
	sb.WriteString("def nativeActionProg : List NAStep := " + leanList(na) + "\n\n")

	progs := map[string][]string{}
	var entries []string
	gdir := c.depDir("github.com/ethereum/go-ethereum")
	if gdir != "" {
		if f, err := parser.ParseFile(c.fset, filepath.Join(gdir, "core", "vm", "evm.go"), nil, 0); err == nil {
			for _, d := range f.Decls {
				fd, ok := d.(*ast.FuncDecl)
				if !ok || fd.Body == nil || recvName(fd) != "EVM" {
					continue
				}
				switch fd.Name.Name {
				case "Call", "CallCode", "DelegateCall", "StaticCall":
					progs[fd.Name.Name] = c.c09CallProg(fd)
				case "create":
					progs["Create"] = c.c09CreateProg(fd)
				case "Create", "Create2":
					// round 5: the two ENTRY POINTS of contract creation (opCreate / opCreate2 call them): everything but the
					// closing `return evm.create(…)` only computes the address of the new contract
					entries = append(entries, c.c09CreateEntry(fd))
				}
			}
		}
		if f, err := parser.ParseFile(c.fset, filepath.Join(gdir, "core", "vm", "contracts.go"), nil, 0); err == nil {
			for _, d := range f.Decls {
				fd, ok := d.(*ast.FuncDecl)
				if !ok || fd.Body == nil || fd.Name.Name != "runPrecompiledContract" {
					continue
				}
				body := c09flat(c.src(fd.Body))
				i, j := strings.Index(body, "gasCost := p.RequiredGas(input)"), strings.Index(body, "p.Run(evm, contract, readOnly)")
				k := strings.Index(body, "if !contract.UseGas(gasCost) { return nil, contract.Gas, ErrOutOfGas }")
				facts["runPrecompiledContract.requiredGasFirst"] = fmt.Sprint(i >= 0 && k > i && j > k)
			}
		}
	}
	for _, k := range []string{"Call", "CallCode", "DelegateCall", "StaticCall", "Create"} {
		fmt.Fprintf(&sb, "/-- go-ethereum fork core/vm/evm.go (*EVM).%s, statement by statement -/\ndef prog%s : List CStep := %s\n\n", k, k, leanList(progs[k]))
	}
	sb.WriteString("/-- go-ethereum fork core/vm/evm.go (*EVM).Create and (*EVM).Create2, the entry points of CREATE / CREATE2: name, statements\n(flattened source), is the LAST statement `return evm.create(<8 results passed through>)`?, the creation kind it passes, its\naddress argument, StateDB methods called by the statements before it -/\n")
	sb.WriteString("def createEntries : List (String × List String × Bool × String × String × List String) := [\n  " + strings.Join(entries, ",\n  ") + "]\n\n")
	c.facts["C09.dep.createEntries"] = entries
	var fs []string
	for _, k := range sortedKeys(facts) {
		fs = append(fs, "("+leanStr(k)+", "+leanStr(facts[k])+")")
	}
	sb.WriteString("/-- single facts about the StateDB / journal / runPrecompiledContract sources -/\n")
	sb.WriteString("def stateDBFacts : List (String × String) := [\n  " + strings.Join(fs, ",\n  ") + "]\n\n")
	sb.WriteString("/-- every statement of the dependency functions above that the translator took as NEUTRAL, in full: function, flattened\nsource, StateDB methods called inside it, whether it contains a return -/\n")
	var ns []string
	var nj [][]string
	for _, n := range c09NeutralStmts {
		ns = append(ns, "("+leanStr(n.fn)+", "+leanStr(n.src)+", "+leanStrs(n.calls)+", "+leanBool(n.returns)+")")
		nj = append(nj, []string{n.fn, n.src, strings.Join(n.calls, ","), fmt.Sprint(n.returns)})
	}
	sb.WriteString("def neutralStmts : List (String × String × List String × Bool) := [\n  " + strings.Join(ns, ",\n  ") + "]\n\n")
	c.facts["C09.dep.neutralStmts"] = nj
	sb.WriteString("end FxVerif.Gen.C09Dep\n")
	c.write("C09Dep.lean", sb.String())
	c.facts["C09.dep.nativeActionProg"] = na
	c.facts["C09.dep.callProgs"] = progs
	c.facts["C09.dep.stateDBFacts"] = facts
}
