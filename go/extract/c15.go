package main

import (
	"fmt"
	"go/ast"
	"go/token"
	"math/big"
	"strconv"
	"strings"
)

// C15: facts of the gov wrapper that the Lean model is parametrised by and the theorems are stated over:
//   - x/gov/abci.go EndBlocker: the expression added to VotingStartTime when a failed expedited proposal is converted
//     to a regular one; the guard of the refund/burn; burn-vs-refund branches; cached execution of the messages;
//   - x/gov/keeper/tally.go Tally: where the quorum string comes from and how it is compared;
//   - x/gov/keeper/proposal.go: what GetCustomMsgQuorum / GetCustomMsgVotingPeriod return, ActivateVotingPeriod;
//   - x/gov/keeper/deposit.go: comparison used for activation, the EGF rule (type, fold comparison, rounding, combine);
//   - x/gov/keeper/msg_server.go checkProposalMsgs: comparison of type urls;
//   - x/gov/types/params.go: the genesis custom-parameter table (ratio, period, quorum per message type).
func init() { register(extractC15) }

// known proto type urls of the Go message types the gov wrapper names (checked against the real registry by the harness)
var c15Urls = map[string]string{
	"distributiontypes.MsgCommunityPoolSpend": "/cosmos.distribution.v1beta1.MsgCommunityPoolSpend",
	"erc20types.MsgRegisterCoin":              "/fx.erc20.v1.MsgRegisterCoin",
	"erc20types.MsgRegisterERC20":             "/fx.erc20.v1.MsgRegisterERC20",
	"erc20types.MsgToggleTokenConversion":     "/fx.erc20.v1.MsgToggleTokenConversion",
	"erc20types.MsgUpdateDenomAlias":          "/fx.erc20.v1.MsgUpdateDenomAlias",
	"evmtypes.MsgCallContract":                "/fx.evm.v1.MsgCallContract",
	"govv1.MsgExecLegacyContent":              "/cosmos.gov.v1.MsgExecLegacyContent",
	"v1.MsgExecLegacyContent":                 "/cosmos.gov.v1.MsgExecLegacyContent",
}

func c15Find(n ast.Node, pred func(ast.Node) bool) ast.Node {
	var res ast.Node
	if n == nil {
		return nil
	}
	ast.Inspect(n, func(x ast.Node) bool {
		if res != nil || x == nil {
			return false
		}
		if pred(x) {
			res = x
			return false
		}
		return true
	})
	return res
}

func c15All(n ast.Node, pred func(ast.Node) bool) []ast.Node {
	var res []ast.Node
	if n == nil {
		return nil
	}
	ast.Inspect(n, func(x ast.Node) bool {
		if x != nil && pred(x) {
			res = append(res, x)
		}
		return true
	})
	return res
}

// callSel returns (receiver source, method name) for a call `recv.Method(...)`.
func (c *ctxT) callSel(n ast.Node) (string, string, *ast.CallExpr) {
	ce, ok := n.(*ast.CallExpr)
	if !ok {
		return "", "", nil
	}
	se, ok := ce.Fun.(*ast.SelectorExpr)
	if !ok {
		return "", "", nil
	}
	return c.src(se.X), se.Sel.Name, ce
}


// msgTypeOfURLExpr: sdk.MsgTypeURL(&pkg.Type{}) -> "pkg.Type"
func (c *ctxT) msgTypeOfURLExpr(e ast.Expr) string {
	_, m, ce := c.callSel(e)
	if ce == nil || m != "MsgTypeURL" || len(ce.Args) != 1 {
		return ""
	}
	ue, ok := ce.Args[0].(*ast.UnaryExpr)
	if !ok || ue.Op != token.AND {
		return ""
	}
	cl, ok := ue.X.(*ast.CompositeLit)
	if !ok {
		return ""
	}
	return c.src(cl.Type)
}

// evaluates the few constant shapes used in x/gov/types/params.go; returns (value, ok).  Decimals are scaled by 10^18,
// durations are seconds.
func (c *ctxT) c15Const(e ast.Expr, env map[string]ast.Expr, depth int) (*big.Int, bool) {
	if depth > 8 {
		return nil, false
	}
	switch x := e.(type) {
	case *ast.BasicLit:
		if x.Kind == token.INT {
			v, ok := new(big.Int).SetString(x.Value, 0)
			return v, ok
		}
	case *ast.ParenExpr:
		return c.c15Const(x.X, env, depth+1)
	case *ast.Ident:
		if d, ok := env[x.Name]; ok {
			return c.c15Const(d, env, depth+1)
		}
	case *ast.SelectorExpr:
		switch c.src(x) {
		case "time.Hour":
			return big.NewInt(3600), true
		case "time.Minute":
			return big.NewInt(60), true
		case "time.Second":
			return big.NewInt(1), true
		}
	case *ast.BinaryExpr:
		a, ok1 := c.c15Const(x.X, env, depth+1)
		b, ok2 := c.c15Const(x.Y, env, depth+1)
		if ok1 && ok2 && x.Op == token.MUL {
			return new(big.Int).Mul(a, b), true
		}
	case *ast.CallExpr:
		_, m, ce := c.callSel(x)
		if ce == nil {
			return nil, false
		}
		switch m {
		case "LegacyZeroDec":
			return big.NewInt(0), true
		case "LegacyOneDec":
			return new(big.Int).Exp(big.NewInt(10), big.NewInt(18), nil), true
		case "LegacyNewDecWithPrec":
			if len(ce.Args) == 2 {
				a, ok1 := c.c15Const(ce.Args[0], env, depth+1)
				p, ok2 := c.c15Const(ce.Args[1], env, depth+1)
				if ok1 && ok2 && p.IsInt64() && p.Int64() <= 18 {
					return new(big.Int).Mul(a, new(big.Int).Exp(big.NewInt(10), big.NewInt(18-p.Int64()), nil)), true
				}
			}
		case "String":
			if se, ok := ce.Fun.(*ast.SelectorExpr); ok && len(ce.Args) == 0 {
				return c.c15Const(se.X, env, depth+1)
			}
		}
	}
	return nil, false
}

func extractC15(c *ctxT) {
	const kdir, adir, tdir = "x/gov/keeper", "x/gov", "x/gov/types"
	b := &strings.Builder{}
	b.WriteString("namespace FxVerif.Gen.C15\n\n")
	str := func(name, doc, v string) {
		fmt.Fprintf(b, "/-- %s -/\ndef %s : String := %s\n\n", doc, name, leanStr(v))
		c.facts["C15."+name] = v
	}
	boolean := func(name, doc string, v bool) {
		fmt.Fprintf(b, "/-- %s -/\ndef %s : Bool := %v\n\n", doc, name, v)
		c.facts["C15."+name] = v
	}

	// ---------------------------------------------------------------- abci.go EndBlocker
	eb := c.findFunc(adir, "", "EndBlocker")
	convExpr, convCustom := "<not found>", false
	settleGuard, settleOk := "<not found>", false
	settleFound, settleBefore, settleViaHelper := false, false, false
	inactiveOk := false
	execCache := false
	execErrVisible := false
	if eb != nil {
		// the `case proposal.Expedited:` clause
		cc := c15Find(eb.Body, func(n ast.Node) bool {
			x, ok := n.(*ast.CaseClause)
			return ok && len(x.List) == 1 && c.src(x.List[0]) == "proposal.Expedited"
		})
		if cc != nil {
			// names bound to keeper.GetCustomMsgVotingPeriod(ctx, params.VotingPeriod, proposal)
			custom := map[string]bool{}
			isCustomCall := func(e ast.Expr) bool {
				_, m, ce := c.callSel(e)
				return ce != nil && m == "GetCustomMsgVotingPeriod" && len(ce.Args) == 3 &&
					c.src(ce.Args[1]) == "params.VotingPeriod" && c.src(ce.Args[2]) == "proposal"
			}
			for _, n := range c15All(cc, func(n ast.Node) bool { _, ok := n.(*ast.AssignStmt); return ok }) {
				as := n.(*ast.AssignStmt)
				if len(as.Lhs) == 1 && len(as.Rhs) == 1 && isCustomCall(as.Rhs[0]) {
					custom[c.src(as.Lhs[0])] = true
				}
			}
			for _, n := range c15All(cc, func(n ast.Node) bool { _, ok := n.(*ast.AssignStmt); return ok }) {
				as := n.(*ast.AssignStmt)
				if len(as.Lhs) != 1 || len(as.Rhs) != 1 || c.src(as.Lhs[0]) != "endTime" {
					continue
				}
				recv, m, ce := c.callSel(as.Rhs[0])
				if ce == nil || m != "Add" || recv != "proposal.VotingStartTime" || len(ce.Args) != 1 {
					convExpr = squash(c.src(as.Rhs[0]))
					continue
				}
				convExpr = squash(c.src(ce.Args[0]))
				if se, ok := ce.Args[0].(*ast.StarExpr); ok {
					if custom[c.src(se.X)] || isCustomCall(se.X) {
						convCustom = true
					}
				}
			}
		}
		// refund / burn guard of the active queue
		for _, n := range c15All(eb.Body, func(n ast.Node) bool { _, ok := n.(*ast.IfStmt); return ok }) {
			is := n.(*ast.IfStmt)
			inner, ok := firstIf(is.Body)
			if !ok || c.src(inner.Cond) != "burnDeposits" {
				continue
			}
			settleGuard = squash(c.src(is.Cond))
			thenBurn := c15Find(inner.Body, func(n ast.Node) bool { _, m, ce := c.callSel(n); return ce != nil && m == "DeleteAndBurnDeposits" }) != nil
			elseRefund := inner.Else != nil && c15Find(inner.Else, func(n ast.Node) bool { _, m, ce := c.callSel(n); return ce != nil && m == "RefundAndDeleteDeposits" }) != nil
			settleOk = settleGuard == "!(proposal.Expedited && !passes)" && thenBurn && elseRefund
		}
		// … and WHERE it stands: the guard reads proposal.Expedited, which the `case proposal.Expedited:` clause of the
		// outcome switch clears — the settlement (inline, or through a helper of this package with the same guard) must
		// come before that switch
		if cl := c15Find(eb.Body, func(n ast.Node) bool {
			fl, ok := n.(*ast.FuncLit)
			return ok && c15Find(fl.Body, func(n ast.Node) bool { _, m, ce := c.callSel(n); return ce != nil && m == "Tally" }) != nil
		}); cl != nil {
			isSettleHelper := func(name string) bool {
				fd := c.findFunc(adir, "", name)
				if fd == nil || fd.Body == nil {
					return false
				}
				guard := c15Find(fd.Body, func(n ast.Node) bool {
					is, ok := n.(*ast.IfStmt)
					return ok && squash(c.src(is.Cond)) == "proposal.Expedited && !passes" && squash(c.src(is.Body)) == "{ return nil }"
				}) != nil
				burn := c15Find(fd.Body, func(n ast.Node) bool {
					is, ok := n.(*ast.IfStmt)
					return ok && c.src(is.Cond) == "burnDeposits" &&
						c15Find(is.Body, func(n ast.Node) bool { _, m, ce := c.callSel(n); return ce != nil && m == "DeleteAndBurnDeposits" }) != nil
				}) != nil
				refund := c15Find(fd.Body, func(n ast.Node) bool { _, m, ce := c.callSel(n); return ce != nil && m == "RefundAndDeleteDeposits" }) != nil
				return guard && burn && refund
			}
			settleIdx, switchIdx := -1, -1
			for i, st := range cl.(*ast.FuncLit).Body.List {
				if sw, ok := st.(*ast.SwitchStmt); ok && sw.Tag == nil && c15Find(sw.Body, func(n ast.Node) bool {
					x, ok := n.(*ast.CaseClause)
					return ok && len(x.List) == 1 && c.src(x.List[0]) == "passes"
				}) != nil {
					switchIdx = i
					continue
				}
				if is, ok := st.(*ast.IfStmt); ok && squash(c.src(is.Cond)) == "!(proposal.Expedited && !passes)" {
					if inner, ok := firstIf(is.Body); ok && c.src(inner.Cond) == "burnDeposits" && settleIdx < 0 {
						settleIdx = i
						continue
					}
				}
				if c15Find(st, func(n ast.Node) bool {
					ce, ok := n.(*ast.CallExpr)
					if !ok {
						return false
					}
					id, ok := ce.Fun.(*ast.Ident)
					if !ok || !isSettleHelper(id.Name) {
						return false
					}
					args := []string{}
					for _, a := range ce.Args {
						args = append(args, c.src(a))
					}
					j := strings.Join(args, ",")
					return strings.Contains(j, "proposal") && strings.Contains(j, "passes") && strings.Contains(j, "burnDeposits")
				}) != nil && settleIdx < 0 {
					settleIdx = i
					settleViaHelper = true
				}
			}
			settleFound = settleIdx >= 0 && switchIdx >= 0
			settleBefore = settleFound && settleIdx < switchIdx
		}
		// inactive queue: refund unless BurnProposalDepositPrevote
		for _, n := range c15All(eb.Body, func(n ast.Node) bool { _, ok := n.(*ast.IfStmt); return ok }) {
			is := n.(*ast.IfStmt)
			if squash(c.src(is.Cond)) != "!params.BurnProposalDepositPrevote" {
				continue
			}
			thenRefund := c15Find(is.Body, func(n ast.Node) bool { _, m, ce := c.callSel(n); return ce != nil && m == "RefundAndDeleteDeposits" }) != nil
			elseBurn := is.Else != nil && c15Find(is.Else, func(n ast.Node) bool { _, m, ce := c.callSel(n); return ce != nil && m == "DeleteAndBurnDeposits" }) != nil
			inactiveOk = thenRefund && elseBurn
		}
		// cached execution: handlers run on cacheCtx; writeCache() only under `if err == nil`
		usesCache := c15Find(eb.Body, func(n ast.Node) bool {
			ce, ok := n.(*ast.CallExpr)
			return ok && c.src(ce.Fun) == "safeExecuteHandler" && len(ce.Args) == 3 && c.src(ce.Args[0]) == "cacheCtx"
		}) != nil
		passCase := c15Find(eb.Body, func(n ast.Node) bool {
			x, ok := n.(*ast.CaseClause)
			return ok && len(x.List) == 1 && c.src(x.List[0]) == "passes"
		})
		writes := c15All(passCase, func(n ast.Node) bool {
			ce, ok := n.(*ast.CallExpr)
			return ok && c.src(ce.Fun) == "writeCache"
		})
		guarded := c15Find(passCase, func(n ast.Node) bool {
			is, ok := n.(*ast.IfStmt)
			if !ok || squash(c.src(is.Cond)) != "err == nil" {
				return false
			}
			return c15Find(is.Body, func(n ast.Node) bool {
				ce, ok := n.(*ast.CallExpr)
				return ok && c.src(ce.Fun) == "writeCache"
			}) != nil
		}) != nil
		execCache = usesCache && len(writes) == 1 && guarded
		// the error tested after the loop is the handler's: the loop ASSIGNS (`res, err = …`) the `err` of the enclosing
		// block; a `:=` would declare a new one that the test after the loop never sees
		for _, n := range c15All(passCase, func(n ast.Node) bool { _, ok := n.(*ast.AssignStmt); return ok }) {
			as := n.(*ast.AssignStmt)
			if len(as.Rhs) != 1 || len(as.Lhs) != 2 {
				continue
			}
			if ce, ok := as.Rhs[0].(*ast.CallExpr); ok && c.src(ce.Fun) == "safeExecuteHandler" {
				execErrVisible = as.Tok == token.ASSIGN && c.src(as.Lhs[1]) == "err"
			}
		}
	}
	str("conversionPeriodExpr", "x/gov/abci.go, `case proposal.Expedited:` — the duration added to VotingStartTime for the new VotingEndTime", convExpr)
	boolean("conversionUsesCustomPeriod", "that duration is keeper.GetCustomMsgVotingPeriod(ctx, params.VotingPeriod, proposal) (per-type period, global as default)", convCustom)
	str("settleGuard", "guard of the refund/burn at the end of the voting period", settleGuard)
	boolean("settleInlineShape", "`if !(proposal.Expedited && !passes) { if burnDeposits { DeleteAndBurnDeposits } else { RefundAndDeleteDeposits } }` occurs in EndBlocker", settleOk)
	boolean("settleViaHelper", "the settlement is a call of a helper of the package with the guard `if proposal.Expedited && !passes { return nil }`", settleViaHelper)
	boolean("settleShapeOk", "the settlement (that `if`, or such a helper call) is a top-level statement of the active-queue walk BEFORE the outcome switch (which clears proposal.Expedited when an expedited proposal is converted)", (settleOk || settleViaHelper) && settleBefore)
	boolean("settleAfterOutcome", "the settlement stands AFTER the outcome switch: its guard sees the already converted proposal", (settleOk || settleViaHelper) && settleFound && !settleBefore)
	boolean("inactiveSettleShapeOk", "`if !params.BurnProposalDepositPrevote { RefundAndDeleteDeposits } else { DeleteAndBurnDeposits }`", inactiveOk)
	boolean("execInCacheCtx", "proposal messages run on cacheCtx and writeCache() is called once, under `if err == nil`", execCache)
	boolean("execErrVisible", "the loop assigns the handler's error to the `err` that is tested after the loop (`res, err = safeExecuteHandler(…)`, not `:=`)", execErrVisible)

	// ---------------------------------------------------------------- tally.go
	tl := c.findFunc(kdir, "Keeper", "Tally")
	quorumExpr, quorumByType, quorumCmp := "<not found>", false, "<not found>"
	if tl != nil {
		binds := map[string]ast.Expr{}
		for _, n := range c15All(tl.Body, func(n ast.Node) bool { _, ok := n.(*ast.AssignStmt); return ok }) {
			as := n.(*ast.AssignStmt)
			if len(as.Rhs) == 1 && len(as.Lhs) >= 1 {
				binds[c.src(as.Lhs[0])] = as.Rhs[0]
			}
		}
		// if percentVoting.<cmp>(quorum)
		for _, n := range c15All(tl.Body, func(n ast.Node) bool { _, ok := n.(*ast.IfStmt); return ok }) {
			is := n.(*ast.IfStmt)
			recv, m, ce := c.callSel(is.Cond)
			if ce == nil || recv != "percentVoting" || len(ce.Args) != 1 {
				continue
			}
			quorumCmp = m
			arg := ce.Args[0]
			// trace: quorum <- LegacyNewDecFromStr(x) ; x <- expr
			for i := 0; i < 4; i++ {
				if id, ok := arg.(*ast.Ident); ok {
					if e, ok := binds[id.Name]; ok {
						arg = e
						continue
					}
				}
				if _, m2, ce2 := c.callSel(arg); ce2 != nil && m2 == "LegacyNewDecFromStr" && len(ce2.Args) == 1 {
					arg = ce2.Args[0]
					continue
				}
				break
			}
			quorumExpr = squash(c.src(arg))
			_, m3, ce3 := c.callSel(arg)
			quorumByType = ce3 != nil && m3 == "GetCustomMsgQuorum" && len(ce3.Args) == 3 &&
				c.src(ce3.Args[1]) == "params.Quorum" && c.src(ce3.Args[2]) == "proposal"
		}
	}
	str("tallyQuorumExpr", "x/gov/keeper/tally.go — source of the quorum that percentVoting is compared with", quorumExpr)
	boolean("tallyQuorumByType", "it is keeper.GetCustomMsgQuorum(ctx, params.Quorum, proposal)", quorumByType)
	str("tallyQuorumCmp", "comparison: the proposal fails for lack of quorum when percentVoting.<cmp>(quorum)", quorumCmp)
	c.c15Tally(b, tl, str, boolean)

	// ---------------------------------------------------------------- proposal.go
	// which type url a custom-parameter lookup uses: the expression bound to msgType, resolved through
	// getProposalMsgType / types.ExtractMsgTypeURL to one of
	//   "first-message-url"      the TypeUrl of the proposal's first message
	//   "unwrap-legacy-content"  … except that a MsgExecLegacyContent is replaced by the type url of its wrapped content
	//   "any-wrapper-url"        sdk.MsgTypeURL of the *codectypes.Any wrapper ("/google.protobuf.Any")
	legacyType := "<not found>"
	extractKind := func() string { // shape of types.ExtractMsgTypeURL
		fd := c.findFunc(tdir, "", "ExtractMsgTypeURL")
		if fd == nil || fd.Body == nil {
			return "other: types.ExtractMsgTypeURL not found"
		}
		unwraps := c15Find(fd.Body, func(n ast.Node) bool {
			is, ok := n.(*ast.IfStmt)
			if !ok {
				return false
			}
			ce, ok := is.Cond.(*ast.CallExpr)
			if !ok || len(ce.Args) != 2 || c.src(ce.Args[0]) != "msg.TypeUrl" {
				return false
			}
			ty := c.msgTypeOfURLExpr(ce.Args[1])
			if !strings.HasSuffix(ty, "MsgExecLegacyContent") {
				return false
			}
			legacyType = ty
			return c15Find(is.Body, func(n ast.Node) bool {
				rs, ok := n.(*ast.ReturnStmt)
				return ok && len(rs.Results) == 1 && c.src(rs.Results[0]) == "content.TypeUrl"
			}) != nil
		}) != nil
		last := squash(c.src(fd.Body.List[len(fd.Body.List)-1]))
		switch {
		case unwraps && last == "return msg.TypeUrl":
			return "unwrap-legacy-content"
		case !unwraps && last == "return msg.TypeUrl":
			return "first-message-url"
		}
		return "other: " + last
	}
	helperKind := func() string { // shape of getProposalMsgType
		fd := c.findFunc(kdir, "", "getProposalMsgType")
		if fd == nil || fd.Body == nil {
			return "other: getProposalMsgType not found"
		}
		if n := c15Find(fd.Body, func(n ast.Node) bool { _, ok := n.(*ast.RangeStmt); return ok }); n != nil {
			rs := n.(*ast.RangeStmt)
			if len(rs.Body.List) == 1 && c.src(rs.X) == "message" && rs.Value != nil {
				if ret, ok := rs.Body.List[0].(*ast.ReturnStmt); ok && len(ret.Results) == 1 {
					switch squash(c.src(ret.Results[0])) {
					case c.src(rs.Value) + ".TypeUrl":
						return "first-message-url"
					case "sdk.MsgTypeURL(" + c.src(rs.Value) + ")":
						return "any-wrapper-url"
					}
					return "other: " + squash(c.src(ret.Results[0]))
				}
			}
			return "other: " + squash(c.src(rs))
		}
		if len(fd.Body.List) == 1 {
			src := squash(c.src(fd.Body.List[0]))
			if src == "return types.ExtractMsgTypeURL(proposal.Messages)" || src == "return types.ExtractMsgTypeURL(proposal.GetMessages())" {
				return extractKind()
			}
			return "other: " + src
		}
		return "other"
	}
	lookupKind := func(fn string) string {
		fd := c.findFunc(kdir, "Keeper", fn)
		if fd == nil || fd.Body == nil || len(fd.Body.List) == 0 {
			return "other: not found"
		}
		as, ok := fd.Body.List[0].(*ast.AssignStmt)
		if !ok || len(as.Lhs) != 1 || len(as.Rhs) != 1 || c.src(as.Lhs[0]) != "msgType" {
			return "other: " + squash(c.src(fd.Body.List[0]))
		}
		switch squash(c.src(as.Rhs[0])) {
		case "getProposalMsgType(proposal)":
			return helperKind()
		case "types.ExtractMsgTypeURL(proposal.GetMessages())", "types.ExtractMsgTypeURL(proposal.Messages)":
			return extractKind()
		}
		return "other: " + squash(c.src(as.Rhs[0]))
	}
	str("periodLookupType", "GetCustomMsgVotingPeriod looks the custom parameters up under: first-message-url | unwrap-legacy-content (a MsgExecLegacyContent is replaced by the type url of the content it wraps) | any-wrapper-url", lookupKind("GetCustomMsgVotingPeriod"))
	str("quorumLookupType", "GetCustomMsgQuorum looks the custom parameters up under", lookupKind("GetCustomMsgQuorum"))
	_ = extractKind()
	str("legacyMsgType", "the Go type types.ExtractMsgTypeURL unwraps", legacyType)
	str("legacyUrl", "its proto type url", c15Urls[legacyType])
	lookupShape := func(fn, field, def string) bool {
		fd := c.findFunc(kdir, "Keeper", fn)
		if fd == nil || fd.Body == nil || len(fd.Body.List) != 3 {
			return false
		}
		as, ok := fd.Body.List[0].(*ast.AssignStmt)
		if !ok || len(as.Lhs) != 1 || c.src(as.Lhs[0]) != "msgType" {
			return false
		}
		is, ok := fd.Body.List[1].(*ast.IfStmt)
		if !ok || is.Init == nil || squash(c.src(is.Init)) != "customParams, found := keeper.GetCustomParams(ctx, msgType)" ||
			c.src(is.Cond) != "found" || len(is.Body.List) != 1 || squash(c.src(is.Body.List[0])) != "return customParams."+field {
			return false
		}
		return squash(c.src(fd.Body.List[2])) == "return "+def
	}
	boolean("customQuorumLookupOk", "GetCustomMsgQuorum: custom params of getProposalMsgType(proposal) found ⇒ its Quorum, else the default argument", lookupShape("GetCustomMsgQuorum", "Quorum", "defaultQuorum"))
	boolean("customPeriodLookupOk", "GetCustomMsgVotingPeriod: custom params of getProposalMsgType(proposal) found ⇒ its VotingPeriod, else the default argument", lookupShape("GetCustomMsgVotingPeriod", "VotingPeriod", "defaultVotingPeriod"))
	// getProposalMsgType: what is returned for the first element of proposal.GetMessages() (a []*codectypes.Any)
	propTypeExpr, propTypeOk := "<not found>", false
	if fd := c.findFunc(kdir, "", "getProposalMsgType"); fd != nil {
		if n := c15Find(fd.Body, func(n ast.Node) bool { _, ok := n.(*ast.RangeStmt); return ok }); n != nil {
			rs := n.(*ast.RangeStmt)
			if len(rs.Body.List) == 1 && c.src(rs.X) == "message" && rs.Value != nil {
				if ret, ok := rs.Body.List[0].(*ast.ReturnStmt); ok && len(ret.Results) == 1 {
					propTypeExpr = squash(c.src(ret.Results[0]))
					propTypeOk = propTypeExpr == c.src(rs.Value)+".TypeUrl"
				}
			}
		} else if len(fd.Body.List) == 1 {
			propTypeExpr = squash(c.src(fd.Body.List[0]))
			propTypeOk = propTypeExpr == "return types.ExtractMsgTypeURL(proposal.Messages)" || propTypeExpr == "return types.ExtractMsgTypeURL(proposal.GetMessages())"
		}
	}
	str("propTypeExpr", "getProposalMsgType: the value returned for the first element of proposal.GetMessages(), which are *codectypes.Any wrappers", propTypeExpr)
	boolean("propTypeIsMessageUrl", "it is the wrapped message's type url (`msg.TypeUrl`), not the url of the wrapper type (`sdk.MsgTypeURL(msg)` on an *Any is \"/google.protobuf.Any\")", propTypeOk)
	actCustom, actDefault := false, false
	if fd := c.findFunc(kdir, "Keeper", "ActivateVotingPeriod"); fd != nil {
		actCustom = c15Find(fd.Body, func(n ast.Node) bool {
			as, ok := n.(*ast.AssignStmt)
			return ok && squash(c.src(as)) == "votingPeriod = keeper.GetCustomMsgVotingPeriod(ctx, votingPeriod, proposal)"
		}) != nil
		actDefault = c15Find(fd.Body, func(n ast.Node) bool {
			is, ok := n.(*ast.IfStmt)
			return ok && c.src(is.Cond) == "proposal.Expedited" && squash(c.src(is.Body)) == "{ votingPeriod = params.ExpeditedVotingPeriod }" &&
				is.Else != nil && squash(c.src(is.Else)) == "{ votingPeriod = params.VotingPeriod }"
		}) != nil
	}
	boolean("activationUsesCustomPeriod", "ActivateVotingPeriod: votingPeriod = keeper.GetCustomMsgVotingPeriod(ctx, votingPeriod, proposal)", actCustom)
	boolean("activationDefaultByExpedited", "ActivateVotingPeriod: default is params.ExpeditedVotingPeriod when expedited, else params.VotingPeriod", actDefault)

	// ---------------------------------------------------------------- deposit.go
	actCmp, actMsgMin := "<not found>", false
	if fd := c.findFunc(kdir, "Keeper", "AddDeposit"); fd != nil {
		for _, n := range c15All(fd.Body, func(n ast.Node) bool { _, ok := n.(*ast.IfStmt); return ok }) {
			is := n.(*ast.IfStmt)
			be, ok := is.Cond.(*ast.BinaryExpr)
			if !ok || be.Op != token.LAND || squash(c.src(be.X)) != "proposal.Status == v1.StatusDepositPeriod" {
				continue
			}
			recv, m, ce := c.callSel(be.Y)
			if ce != nil && recv == "sdk.NewCoins(proposal.TotalDeposit...)" && len(ce.Args) == 1 && c.src(ce.Args[0]) == "minDepositAmount" {
				actCmp = m
			} else {
				actCmp = squash(c.src(be.Y))
			}
			if c15Find(is.Body, func(n ast.Node) bool { _, m, ce := c.callSel(n); return ce != nil && m == "ActivateVotingPeriod" }) == nil {
				actCmp = "<no activation under this test>"
			}
		}
		actMsgMin = c15Find(fd.Body, func(n ast.Node) bool {
			as, ok := n.(*ast.AssignStmt)
			return ok && squash(c.src(as)) == "minDepositAmount, err = keeper.GetMinDepositAmountFromProposalMsgs(ctx, minDepositAmount, proposal)"
		}) != nil
	}
	str("activationCmp", "AddDeposit: voting is activated when sdk.NewCoins(proposal.TotalDeposit...).<cmp>(minDepositAmount)", actCmp)
	boolean("activationUsesMsgMin", "minDepositAmount is first replaced by GetMinDepositAmountFromProposalMsgs(ctx, minDepositAmount, proposal)", actMsgMin)

	egfType, egfCmp, egfRound, egfCombine, egfZero := "<not found>", "<not found>", "<not found>", "<not found>", false
	egfArg := "<not found>"
	if fd := c.findFunc(kdir, "Keeper", "GetMinDepositAmountFromProposalMsgs"); fd != nil {
		for _, n := range c15All(fd.Body, func(n ast.Node) bool { _, ok := n.(*ast.AssignStmt); return ok }) {
			as := n.(*ast.AssignStmt)
			if len(as.Lhs) == 1 && len(as.Rhs) == 1 && c.src(as.Lhs[0]) == "egfMsgTypeURL" {
				egfType = c.msgTypeOfURLExpr(as.Rhs[0])
			}
			if len(as.Lhs) == 1 && len(as.Rhs) == 1 && c.src(as.Lhs[0]) == "minDepositCoins[i].Amount" {
				_, m, ce := c.callSel(as.Rhs[0])
				if ce != nil {
					egfRound = m
				}
			}
		}
		if n := c15Find(fd.Body, func(n ast.Node) bool {
			is, ok := n.(*ast.IfStmt)
			if !ok {
				return false
			}
			ue, ok := is.Cond.(*ast.UnaryExpr)
			if !ok || ue.Op != token.NOT {
				return false
			}
			ce, ok := ue.X.(*ast.CallExpr)
			return ok && len(ce.Args) == 2 && c.src(ce.Args[1]) == "egfMsgTypeURL"
		}); n != nil {
			egfCmp = c.src(n.(*ast.IfStmt).Cond.(*ast.UnaryExpr).X.(*ast.CallExpr).Fun)
			egfArg = squash(c.src(n.(*ast.IfStmt).Cond.(*ast.UnaryExpr).X.(*ast.CallExpr).Args[0]))
		}
		egfZero = c15Find(fd.Body, func(n ast.Node) bool {
			is, ok := n.(*ast.IfStmt)
			return ok && c.src(is.Cond) == "minDepositRatio.IsZero()" && squash(c.src(is.Body)) == "{ return defaultMinDeposit, nil }"
		}) != nil
		l := fd.Body.List
		if len(l) >= 1 {
			last := squash(c.src(l[len(l)-1]))
			switch {
			case last == "return minDepositCoins, nil" && len(l) >= 2 &&
				squash(c.src(l[len(l)-2])) == "if minDepositCoins.IsAllLT(defaultMinDeposit) { return defaultMinDeposit, nil }":
				egfCombine = "share-unless-IsAllLT-default"
			case last == "return minDepositCoins.Max(defaultMinDeposit), nil" || last == "return defaultMinDeposit.Max(minDepositCoins), nil":
				egfCombine = "max"
			default:
				egfCombine = "other: " + last
			}
		}
	}
	egfURL := c15Urls[egfType]
	str("egfMsgType", "the Go type whose url selects the community-pool-spend rule", egfType)
	str("egfUrl", "its proto type url", egfURL)
	str("egfMsgUrlExpr", "what is compared with the EGF url for each element of proposal.GetMessages() (*codectypes.Any wrappers)", egfArg)
	boolean("egfUrlIsMessageUrl", "it is the wrapped message's type url (`msg.TypeUrl`)", egfArg == "msg.TypeUrl")
	str("egfTypeCmp", "comparison of each message's url with the EGF url", egfCmp)
	str("egfRounding", "share = LegacyNewDecFromInt(amount).Mul(ratio).<rounding>()", egfRound)
	boolean("egfZeroRatioIsDefault", "a zero deposit ratio means the default minimum", egfZero)
	str("egfCombine", "how share and default minimum are combined", egfCombine)

	// ---------------------------------------------------------------- msg_server.go
	msgCmp := "<not found>"
	if fd := c.findFunc(kdir, "", "checkProposalMsgs"); fd != nil {
		if n := c15Find(fd.Body, func(n ast.Node) bool {
			ce, ok := n.(*ast.CallExpr)
			return ok && len(ce.Args) == 2 && c.src(ce.Args[0]) == "msgType" && c.src(ce.Args[1]) == "sdk.MsgTypeURL(pMsg)"
		}); n != nil {
			msgCmp = c.src(n.(*ast.CallExpr).Fun)
		}
	}
	str("msgTypeCmp", "checkProposalMsgs: consecutive messages' type urls are compared with", msgCmp)

	// ---------------------------------------------------------------- types/params.go: genesis custom params
	env := map[string]ast.Expr{}
	for _, fn := range sortedKeys(c.pkg(tdir)) {
		for _, d := range c.pkg(tdir)[fn].Decls {
			gd, ok := d.(*ast.GenDecl)
			if !ok || gd.Tok != token.VAR {
				continue
			}
			for _, sp := range gd.Specs {
				vs := sp.(*ast.ValueSpec)
				for i, nm := range vs.Names {
					if i < len(vs.Values) {
						env[nm.Name] = vs.Values[i]
					}
				}
			}
		}
	}
	type row struct {
		url           string
		r, p, q       *big.Int
		okR, okP, okQ bool
	}
	var rows []row
	newCustom := func(e ast.Expr) (row, bool) {
		// *NewCustomParams(a, b, c)
		if se, ok := e.(*ast.StarExpr); ok {
			e = se.X
		}
		ce, ok := e.(*ast.CallExpr)
		if !ok || c.src(ce.Fun) != "NewCustomParams" || len(ce.Args) != 3 {
			return row{}, false
		}
		var r row
		r.r, r.okR = c.c15Const(ce.Args[0], env, 0)
		r.p, r.okP = c.c15Const(ce.Args[1], env, 0)
		r.q, r.okQ = c.c15Const(ce.Args[2], env, 0)
		return r, r.okR && r.okP && r.okQ
	}
	if fd := c.findFunc(tdir, "", "newEGFCustomParams"); fd != nil {
		if n := c15Find(fd.Body, func(n ast.Node) bool {
			ce, ok := n.(*ast.CallExpr)
			return ok && c.src(ce.Fun) == "NewInitGenesisCustomParams" && len(ce.Args) == 2
		}); n != nil {
			ce := n.(*ast.CallExpr)
			if r, ok := newCustom(ce.Args[1]); ok {
				r.url = c15Urls[c.msgTypeOfURLExpr(ce.Args[0])]
				rows = append(rows, r)
			}
		}
	}
	if fd := c.findFunc(tdir, "", "newOtherCustomParams"); fd != nil {
		var def row
		okDef := false
		for _, n := range c15All(fd.Body, func(n ast.Node) bool { _, ok := n.(*ast.AssignStmt); return ok }) {
			as := n.(*ast.AssignStmt)
			if len(as.Lhs) == 1 && len(as.Rhs) == 1 && c.src(as.Lhs[0]) == "defaultParams" {
				def, okDef = newCustom(as.Rhs[0])
			}
		}
		if okDef {
			for _, n := range c15All(fd.Body, func(n ast.Node) bool { _, ok := n.(*ast.CompositeLit); return ok }) {
				cl := n.(*ast.CompositeLit)
				if c.src(cl.Type) != "[]string" {
					continue
				}
				for _, el := range cl.Elts {
					r := def
					r.url = c15Urls[c.msgTypeOfURLExpr(el)]
					rows = append(rows, r)
				}
			}
		}
	}
	b.WriteString("/-- genesis custom parameters (x/gov/types/params.go): (type url, deposit ratio ·10^18, voting period in seconds, quorum ·10^18) -/\n")
	b.WriteString("def genesisCustom : List (String × Nat × Nat × Nat) := [\n")
	var frows []map[string]string
	for i, r := range rows {
		sep := ","
		if i == len(rows)-1 {
			sep = ""
		}
		fmt.Fprintf(b, "  (%s, %s, %s, %s)%s\n", leanStr(r.url), r.r.String(), r.p.String(), r.q.String(), sep)
		frows = append(frows, map[string]string{"url": r.url, "ratio": r.r.String(), "period": r.p.String(), "quorum": r.q.String()})
	}
	b.WriteString("]\n\n")
	c.facts["C15.genesisCustom"] = frows
	_ = strconv.Itoa

	qAct, qConv := c15QueueKeys(c, kdir, adir)
	boolean("activationQueueKeyIsVotingEnd", "ActivateVotingPeriod: the single ActiveProposalsQueue.Set uses collections.Join(*proposal.VotingEndTime, proposal.Id), after `proposal.VotingEndTime = &endTime`", qAct)
	boolean("conversionQueueKeyIsVotingEnd", "EndBlocker, `case proposal.Expedited:` — the single ActiveProposalsQueue.Set uses collections.Join(*proposal.VotingEndTime, proposal.Id), after `proposal.VotingEndTime = &endTime`", qConv)

	steps := c15DepositSteps(c, kdir)
	b.WriteString("/-- x/gov/keeper/deposit.go AddDeposit: its top-level statements in source order (error checks skipped) -/\n")
	b.WriteString("def addDepositSteps : List String := [\n")
	for i, t := range steps {
		sep := ","
		if i == len(steps)-1 {
			sep = ""
		}
		fmt.Fprintf(b, "  %s%s\n", leanStr(t), sep)
	}
	b.WriteString("]\n\n")
	c.facts["C15.addDepositSteps"] = steps

	asteps := c15ActivateSteps(c, kdir)
	b.WriteString("/-- x/gov/keeper/proposal.go ActivateVotingPeriod: its top-level statements in source order (error checks skipped) -/\n")
	b.WriteString("def activateSteps : List String := [\n")
	for i, t := range asteps {
		sep := ","
		if i == len(asteps)-1 {
			sep = ""
		}
		fmt.Fprintf(b, "  %s%s\n", leanStr(t), sep)
	}
	b.WriteString("]\n\n")
	c.facts["C15.activateSteps"] = asteps

	c15EmitLookup(c, b, "customPeriodSteps", "x/gov/keeper/proposal.go GetCustomMsgVotingPeriod: its top-level statements in source order, as (kind, argument) pairs", c15LookupSteps(c, kdir, "GetCustomMsgVotingPeriod", lookupKind("GetCustomMsgVotingPeriod")))
	c15EmitLookup(c, b, "customQuorumSteps", "x/gov/keeper/proposal.go GetCustomMsgQuorum: its top-level statements in source order, as (kind, argument) pairs", c15LookupSteps(c, kdir, "GetCustomMsgQuorum", lookupKind("GetCustomMsgQuorum")))

	c15SdkSteps(c, b)

	b.WriteString("end FxVerif.Gen.C15\n")
	c.write("C15.lean", b.String())
}

func firstIf(bs *ast.BlockStmt) (*ast.IfStmt, bool) {
	if bs == nil || len(bs.List) == 0 {
		return nil, false
	}
	is, ok := bs.List[0].(*ast.IfStmt)
	return is, ok
}
