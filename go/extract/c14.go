package main

import (
	"go/ast"
	"go/token"
	"sort"
	"strings"
)

// C14: facts about x/migrate read from the AST:
//   - every store Delete/Set in DistrStakingMigrate.Execute with the key constructor it uses (so an index that is not
//     rewritten, such as the delegations-by-validator index 0x71, is a visible generated fact);
//   - the upper bound GovMigrate.Validate passes to the two proposal-queue walks;
//   - the statement order of Keeper.MigrateAccount (record checks, account check, validate-all, execute-all, record);
//   - the bytes hashed for the signature (order of prefix/from/to) and what the recovered address is compared with;
//   - the checks of DistrStakingMigrate.Validate.
func init() { register(extractC14) }

const c14Keeper = "x/migrate/keeper"
const c14Types = "x/migrate/types"

func extractC14(c *ctxT) {
	var sb strings.Builder
	sb.WriteString("namespace FxVerif.Gen.C14\n\n")

	// ---- Execute writes -----------------------------------------------------------------------------------
	type wr struct{ op, store, key, args string }
	var writes []wr
	var idxValues []string
	if fd := c.findFunc(c14Keeper, "DistrStakingMigrate", "Execute"); fd != nil && fd.Body != nil {
		// assignments `x := pkg.GetXxx(...)` / `x := storetypes.KVStorePrefixIterator(store, pkg.GetXxx(..))`
		type asg struct {
			pos  token.Pos
			name string
			key  string
			args string
		}
		var asgs []asg
		keyOf := func(e ast.Expr) (string, string, bool) {
			ce, ok := e.(*ast.CallExpr)
			if !ok {
				return "", "", false
			}
			se, ok := ce.Fun.(*ast.SelectorExpr)
			if !ok || !strings.HasPrefix(se.Sel.Name, "Get") {
				return "", "", false
			}
			var as []string
			for _, a := range ce.Args {
				as = append(as, c.src(a))
			}
			return se.Sel.Name, strings.Join(as, ","), true
		}
		ast.Inspect(fd.Body, func(n ast.Node) bool {
			as, ok := n.(*ast.AssignStmt)
			if !ok || len(as.Lhs) != 1 || len(as.Rhs) != 1 {
				return true
			}
			id, ok := as.Lhs[0].(*ast.Ident)
			if !ok {
				return true
			}
			if k, a, ok := keyOf(as.Rhs[0]); ok {
				asgs = append(asgs, asg{as.Pos(), id.Name, k, a})
				return true
			}
			if ce, ok := as.Rhs[0].(*ast.CallExpr); ok {
				if se, ok := ce.Fun.(*ast.SelectorExpr); ok && se.Sel.Name == "KVStorePrefixIterator" && len(ce.Args) == 2 {
					if k, a, ok := keyOf(ce.Args[1]); ok {
						asgs = append(asgs, asg{as.Pos(), id.Name, "iter:" + k, a})
					}
				}
			}
			return true
		})
		resolve := func(name string, at token.Pos) (string, string) {
			best := -1
			for i, a := range asgs {
				if a.name == name && a.pos < at && (best < 0 || a.pos > asgs[best].pos) {
					best = i
				}
			}
			if best < 0 {
				return "?" + name, ""
			}
			return asgs[best].key, asgs[best].args
		}
		ast.Inspect(fd.Body, func(n ast.Node) bool {
			ce, ok := n.(*ast.CallExpr)
			if !ok || len(ce.Args) < 1 {
				return true
			}
			se, ok := ce.Fun.(*ast.SelectorExpr)
			if !ok || (se.Sel.Name != "Delete" && se.Sel.Name != "Set") {
				return true
			}
			st, ok := se.X.(*ast.Ident)
			if !ok || !strings.HasSuffix(st.Name, "Store") {
				return true
			}
			var key, args string
			switch a := ce.Args[0].(type) {
			case *ast.Ident:
				key, args = resolve(a.Name, ce.Pos())
			case *ast.CallExpr:
				if k, as, ok := keyOf(a); ok {
					key, args = k, as
				} else if s2, ok := a.Fun.(*ast.SelectorExpr); ok && s2.Sel.Name == "Key" {
					if id, ok := s2.X.(*ast.Ident); ok {
						key, args = resolve(id.Name, ce.Pos())
					}
				}
			}
			if key == "" {
				key = "?" + c.src(ce.Args[0])
			}
			writes = append(writes, wr{se.Sel.Name, st.Name, key, args})
			if key == "GetUnbondingIndexKey" && len(ce.Args) == 2 {
				// the value the unbonding-id index is pointed at: a record key constructor with its arguments
				if vk, va, ok := keyOf(ce.Args[1]); ok {
					idxValues = append(idxValues, vk+"("+va+")")
				} else {
					idxValues = append(idxValues, "?"+c.src(ce.Args[1]))
				}
			}
			return true
		})
	}
	var dels, sets []string
	sb.WriteString("/-- (operation, store, key constructor, arguments) of every store write in `DistrStakingMigrate.Execute` -/\n")
	sb.WriteString("def executeWrites : List (String × String × String × String) := [\n")
	for i, w := range writes {
		sep := ","
		if i == len(writes)-1 {
			sep = ""
		}
		sb.WriteString("  (" + leanStr(w.op) + ", " + leanStr(w.store) + ", " + leanStr(w.key) + ", " + leanStr(w.args) + ")" + sep + "\n")
		if w.op == "Delete" {
			dels = append(dels, strings.TrimPrefix(w.key, "iter:"))
		} else {
			sets = append(sets, w.key)
		}
	}
	sb.WriteString("]\n\n")
	// iterator prefixes name the record key family: GetDelegationsKey -> GetDelegationKey etc.
	norm := map[string]string{"GetDelegationsKey": "GetDelegationKey", "GetUBDsKey": "GetUBDKey", "GetREDsKey": "GetREDKey"}
	for i, d := range dels {
		if n, ok := norm[d]; ok {
			dels[i] = n
		}
	}
	q := func(xs []string) string {
		var o []string
		for _, x := range xs {
			o = append(o, leanStr(x))
		}
		return leanList(o)
	}
	sb.WriteString("def executeDeleteKeys : List String := " + q(dels) + "\n")
	sb.WriteString("def executeSetKeys : List String := " + q(sets) + "\n\n")
	sb.WriteString("/-- the record keys the unbonding-id index (0x38) entries are pointed at, in source order -/\n")
	sb.WriteString("def unbondingIndexValues : List String := " + q(idxValues) + "\n\n")
	c.facts["C14.unbondingIndexValues"] = idxValues
	c.facts["C14.executeDeleteKeys"] = dels
	c.facts["C14.executeSetKeys"] = sets

	// ---- gov scan bound ------------------------------------------------------------------------------------
	bounds := map[string]string{"IteratorInactiveProposal": "?", "IteratorActiveProposal": "?"}
	if fd := c.findFunc(c14Keeper, "GovMigrate", "Validate"); fd != nil && fd.Body != nil {
		ast.Inspect(fd.Body, func(n ast.Node) bool {
			ce, ok := n.(*ast.CallExpr)
			if !ok {
				return true
			}
			se, ok := ce.Fun.(*ast.SelectorExpr)
			if !ok {
				return true
			}
			if _, want := bounds[se.Sel.Name]; want && len(ce.Args) >= 2 {
				b := c.src(ce.Args[1])
				if id, ok := ce.Args[1].(*ast.Ident); ok {
					if init := c.pkgVarInit(c14Keeper, id.Name); init != "" {
						b = init
					}
				}
				bounds[se.Sel.Name] = b
			}
			return true
		})
	}
	sb.WriteString("/-- second argument of the proposal-queue walks in `GovMigrate.Validate` (package variables resolved to their initialiser) -/\n")
	sb.WriteString("def govInactiveBound : String := " + leanStr(bounds["IteratorInactiveProposal"]) + "\n")
	sb.WriteString("def govActiveBound : String := " + leanStr(bounds["IteratorActiveProposal"]) + "\n\n")
	c.facts["C14.govInactiveBound"] = bounds["IteratorInactiveProposal"]
	c.facts["C14.govActiveBound"] = bounds["IteratorActiveProposal"]

	// ---- handler order -------------------------------------------------------------------------------------
	var order []string
	var recChecks [][2]string // (predicate called, which address)
	if fd := c.findFunc(c14Keeper, "Keeper", "MigrateAccount"); fd != nil && fd.Body != nil {
		for _, st := range fd.Body.List {
			src := c.src(st)
			switch s := st.(type) {
			case *ast.IfStmt:
				cond := c.src(s.Cond)
				if s.Init != nil {
					cond = c.src(s.Init) + ";" + cond
				}
				returnsErr := strings.Contains(c.src(s.Body), "return nil,")
				// `if k.<Pred>(ctx, fromAddress|toAddress…) { return nil, … "has been migrated" … }`
				if ce, ok := s.Cond.(*ast.CallExpr); ok && s.Init == nil && returnsErr && len(ce.Args) == 2 &&
					strings.Contains(c.src(s.Body), "has been migrated") {
					if se, ok := ce.Fun.(*ast.SelectorExpr); ok {
						arg := c.src(ce.Args[1])
						switch {
						case strings.HasPrefix(arg, "fromAddress"):
							order = append(order, "check-record-from")
							recChecks = append(recChecks, [2]string{se.Sel.Name, "from"})
						case strings.HasPrefix(arg, "toAddress"):
							order = append(order, "check-record-to")
							recChecks = append(recChecks, [2]string{se.Sel.Name, "to"})
						}
					}
				}
				// `if k.accountKeeper.GetAccount(ctx, <X>.Bytes()) == nil { k.accountKeeper.SetAccount(ctx, …NewAccountWithAddress(ctx, <Y>.Bytes())) }`:
				// the account of X is created when it does not exist.  Emitted as `ensure-account:<X>:<Y>` with the
				// Go variables as written (`ensure-to-account` only when both are toAddress and the body stores the
				// new account with SetAccount), so a creation for the wrong address, or one that is never stored,
				// reaches the model as a statement it does not know.
				if be, ok := s.Cond.(*ast.BinaryExpr); ok && s.Init == nil && !returnsErr && be.Op.String() == "==" && c.src(be.Y) == "nil" {
					if ce, ok := be.X.(*ast.CallExpr); ok && len(ce.Args) == 2 {
						if se, ok := ce.Fun.(*ast.SelectorExpr); ok && se.Sel.Name == "GetAccount" {
							x := strings.TrimSuffix(c.src(ce.Args[1]), ".Bytes()")
							y, stored := "", false
							ast.Inspect(s.Body, func(n ast.Node) bool {
								ce2, ok := n.(*ast.CallExpr)
								if !ok {
									return true
								}
								if se2, ok := ce2.Fun.(*ast.SelectorExpr); ok {
									if se2.Sel.Name == "NewAccountWithAddress" && len(ce2.Args) == 2 {
										y = strings.TrimSuffix(c.src(ce2.Args[1]), ".Bytes()")
									}
									if se2.Sel.Name == "SetAccount" && len(ce2.Args) == 2 && strings.Contains(c.src(ce2.Args[1]), "NewAccountWithAddress") {
										stored = true
									}
								}
								return true
							})
							if x == "toAddress" && y == "toAddress" && stored && len(s.Body.List) == 1 && s.Else == nil {
								order = append(order, "ensure-to-account")
							} else {
								st := "stored"
								if !stored {
									st = "not-stored"
								}
								order = append(order, "ensure-account:"+x+":"+y+":"+st)
							}
						}
					}
				}
				_ = cond
			case *ast.AssignStmt:
				if strings.Contains(src, "checkMigrateFrom(ctx, fromAddress)") {
					order = append(order, "check-from-account")
				}
			case *ast.RangeStmt:
				if strings.Contains(c.src(s.X), "GetMigrateI()") {
					body := c.src(s.Body)
					switch {
					case strings.Contains(body, ".Validate(ctx, k.cdc, fromAddress, toAddress)") && strings.Contains(body, "return nil, err"):
						order = append(order, "validate-all")
					case strings.Contains(body, ".Execute(ctx, k.cdc, fromAddress, toAddress)") && strings.Contains(body, "return nil, err"):
						order = append(order, "execute-all")
					default:
						order = append(order, "range:?")
					}
				}
			case *ast.ExprStmt:
				if strings.Contains(src, "SetMigrateRecord(ctx, fromAddress, toAddress)") {
					order = append(order, "set-record")
				}
			}
		}
	}
	sb.WriteString("/-- recognised statements of `Keeper.MigrateAccount`, in source order -/\n")
	sb.WriteString("def handlerOrder : List String := " + q(order) + "\n\n")
	c.facts["C14.handlerOrder"] = order

	// ---- the handlers registered with the keeper (app wiring): constructors passed to SetMigrateI, in order; and for every
	// constructor the handler type it returns with what that type's Validate / Execute do at the top level ("nil" = the
	// body is a bare `return nil`)
	var handlers []string
	for _, fd := range c.funcDecls("app/keepers") {
		if fd.Body == nil {
			continue
		}
		ast.Inspect(fd.Body, func(n ast.Node) bool {
			ce, ok := n.(*ast.CallExpr)
			if !ok {
				return true
			}
			se, ok := ce.Fun.(*ast.SelectorExpr)
			if !ok || se.Sel.Name != "SetMigrateI" {
				return true
			}
			for _, a := range ce.Args {
				name := c.src(a)
				if ac, ok := a.(*ast.CallExpr); ok {
					switch f := ac.Fun.(type) {
					case *ast.SelectorExpr:
						name = f.Sel.Name
					case *ast.Ident:
						name = f.Name
					}
				}
				handlers = append(handlers, name)
			}
			return true
		})
	}
	var handlerTypes [][2]string  // (constructor, type it returns)
	var handlerBodies [][2]string // (Type.Method, "nil" | "code")
	for _, fd := range c.funcDecls(c14Keeper) {
		if fd.Recv == nil && fd.Body != nil && strings.HasPrefix(fd.Name.Name, "New") && strings.HasSuffix(fd.Name.Name, "Migrate") {
			ty := "?"
			ast.Inspect(fd.Body, func(n ast.Node) bool {
				if cl, ok := n.(*ast.CompositeLit); ok && ty == "?" {
					ty = c.src(cl.Type)
				}
				return true
			})
			handlerTypes = append(handlerTypes, [2]string{fd.Name.Name, ty})
		}
		if fd.Recv != nil && fd.Body != nil && (fd.Name.Name == "Validate" || fd.Name.Name == "Execute") && len(fd.Recv.List) == 1 {
			rt := strings.TrimPrefix(c.src(fd.Recv.List[0].Type), "*")
			if !strings.HasSuffix(rt, "Migrate") {
				continue
			}
			kind := "code"
			if len(fd.Body.List) == 1 {
				if rs, ok := fd.Body.List[0].(*ast.ReturnStmt); ok && len(rs.Results) == 1 && c.src(rs.Results[0]) == "nil" {
					kind = "nil"
				}
			}
			handlerBodies = append(handlerBodies, [2]string{rt + "." + fd.Name.Name, kind})
		}
	}
	sort.Slice(handlerTypes, func(i, j int) bool { return handlerTypes[i][0] < handlerTypes[j][0] })
	sort.Slice(handlerBodies, func(i, j int) bool { return handlerBodies[i][0] < handlerBodies[j][0] })
	sb.WriteString("/-- constructors of the handlers registered with the migrate keeper (`SetMigrateI` in app/keepers), in order -/\n")
	sb.WriteString("def migrateHandlers : List String := " + q(handlers) + "\n")
	c.facts["C14.migrateHandlers"] = handlers
	pairs2 := func(xs [][2]string) string {
		var o []string
		for _, x := range xs {
			o = append(o, "("+leanStr(x[0])+", "+leanStr(x[1])+")")
		}
		return leanList(o)
	}
	sb.WriteString("/-- (constructor, handler type it returns) and (Type.Method, `nil` when the body is a bare `return nil`, else `code`) -/\n")
	sb.WriteString("def handlerTypes : List (String × String) := " + pairs2(handlerTypes) + "\n")
	sb.WriteString("def handlerBodies : List (String × String) := " + pairs2(handlerBodies) + "\n\n")
	c.facts["C14.handlerTypes"] = handlerTypes
	c.facts["C14.handlerBodies"] = handlerBodies

	// ---- migration records: which predicate guards which address, which key each predicate reads, which keys are written
	pair := func(xs [][2]string) string {
		var o []string
		for _, x := range xs {
			o = append(o, "("+leanStr(x[0])+", "+leanStr(x[1])+")")
		}
		return leanList(o)
	}
	var preds [][2]string // (predicate, key constructor its store.Has reads)
	for _, fd := range c.funcDecls(c14Keeper) {
		if recvName(fd) != "Keeper" || fd.Body == nil || !strings.HasPrefix(fd.Name.Name, "Has") {
			continue
		}
		ast.Inspect(fd.Body, func(n ast.Node) bool {
			ce, ok := n.(*ast.CallExpr)
			if !ok || len(ce.Args) != 1 {
				return true
			}
			if se, ok := ce.Fun.(*ast.SelectorExpr); ok && se.Sel.Name == "Has" {
				if kc, ok := ce.Args[0].(*ast.CallExpr); ok {
					if ks, ok := kc.Fun.(*ast.SelectorExpr); ok {
						preds = append(preds, [2]string{fd.Name.Name, ks.Sel.Name})
					}
				}
			}
			return true
		})
	}
	sort.Slice(preds, func(i, j int) bool { return preds[i][0] < preds[j][0] })
	var recWrites [][2]string // (key constructor, argument) of every store.Set in SetMigrateRecord
	if fd := c.findFunc(c14Keeper, "Keeper", "SetMigrateRecord"); fd != nil && fd.Body != nil {
		ast.Inspect(fd.Body, func(n ast.Node) bool {
			ce, ok := n.(*ast.CallExpr)
			if !ok || len(ce.Args) != 2 {
				return true
			}
			if se, ok := ce.Fun.(*ast.SelectorExpr); ok && se.Sel.Name == "Set" {
				if kc, ok := ce.Args[0].(*ast.CallExpr); ok && len(kc.Args) == 1 {
					if ks, ok := kc.Fun.(*ast.SelectorExpr); ok {
						arg := c.src(kc.Args[0])
						who := "?" + arg
						switch {
						case strings.HasPrefix(arg, "from"):
							who = "from"
						case strings.HasPrefix(arg, "to"):
							who = "to"
						}
						recWrites = append(recWrites, [2]string{ks.Sel.Name, who})
					}
				}
			}
			return true
		})
	}
	sb.WriteString("/-- the already-migrated guards of `Keeper.MigrateAccount`: (predicate called, address it is applied to), in source order -/\n")
	sb.WriteString("def recordChecks : List (String × String) := " + pair(recChecks) + "\n")
	sb.WriteString("/-- every `Has…` method of the migrate keeper with the key constructor its `store.Has` reads -/\n")
	sb.WriteString("def recordPredicates : List (String × String) := " + pair(preds) + "\n")
	sb.WriteString("/-- every `store.Set` of `Keeper.SetMigrateRecord`: (key constructor, address it is keyed by) -/\n")
	sb.WriteString("def recordWrites : List (String × String) := " + pair(recWrites) + "\n\n")
	c.facts["C14.recordChecks"] = recChecks
	c.facts["C14.recordPredicates"] = preds
	c.facts["C14.recordWrites"] = recWrites


	// ---- how the `To` / `From` strings of the message are parsed, per site -----------------------------------
	// every call that receives the field itself (m.To, msg.To, …), in source order; whatever is derived from the field
	// at one site must be derived the same way at every other site, or the sites disagree about who the target is
	parseSites := func(field string) [][2]string {
		var out [][2]string
		for _, site := range []struct{ rel, recv, fn string }{
			{c14Types, "MsgMigrateAccount", "ValidateBasic"}, {c14Keeper, "Keeper", "MigrateAccount"},
		} {
			fd := c.findFunc(site.rel, site.recv, site.fn)
			if fd == nil || fd.Body == nil {
				out = append(out, [2]string{site.fn, "?missing"})
				continue
			}
			var calls []string
			ast.Inspect(fd.Body, func(n ast.Node) bool {
				ce, ok := n.(*ast.CallExpr)
				if !ok {
					return true
				}
				for _, a := range ce.Args {
					if se, ok := a.(*ast.SelectorExpr); ok && se.Sel.Name == field {
						if _, isIdent := se.X.(*ast.Ident); isIdent {
							name := c.src(ce.Fun)
							if i := strings.LastIndex(name, "."); i >= 0 {
								name = name[i+1:]
							}
							if name != "Wrapf" && name != "Wrap" && name != "NewAttribute" && name != "Errorf" {
								calls = append(calls, name)
							}
						}
					}
				}
				return true
			})
			out = append(out, [2]string{site.fn, strings.Join(calls, "+")})
		}
		return out
	}
	toSites, fromSites := parseSites("To"), parseSites("From")
	sb.WriteString("/-- per site (function), the functions the message's `To` string is handed to, in source order -/\n")
	sb.WriteString("def toParseSites : List (String × String) := " + pair(toSites) + "\n")
	sb.WriteString("def fromParseSites : List (String × String) := " + pair(fromSites) + "\n\n")
	c.facts["C14.toParseSites"] = toSites
	c.facts["C14.fromParseSites"] = fromSites

	// ---- bank handler: which keeper call yields the amount that is sent, and the SendCoins arguments
	bankCall, bankSend := "?", "?"
	if fd := c.findFunc(c14Keeper, "BankMigrate", "Execute"); fd != nil && fd.Body != nil {
		amountVar := ""
		ast.Inspect(fd.Body, func(n ast.Node) bool {
			switch x := n.(type) {
			case *ast.AssignStmt:
				if len(x.Lhs) == 1 && len(x.Rhs) == 1 {
					if ce, ok := x.Rhs[0].(*ast.CallExpr); ok {
						if se, ok := ce.Fun.(*ast.SelectorExpr); ok && strings.HasSuffix(c.src(se.X), "bankKeeper") {
							if id, ok := x.Lhs[0].(*ast.Ident); ok {
								amountVar = id.Name
								var as []string
								for _, a := range ce.Args[1:] {
									as = append(as, c.src(a))
								}
								bankCall = se.Sel.Name + "(" + strings.Join(as, ",") + ")"
							}
						}
					}
				}
			case *ast.CallExpr:
				if se, ok := x.Fun.(*ast.SelectorExpr); ok && se.Sel.Name == "SendCoins" && len(x.Args) == 4 {
					amt := c.src(x.Args[3])
					if amt == amountVar {
						amt = "amount"
					}
					bankSend = c.src(x.Args[1]) + "," + c.src(x.Args[2]) + "," + amt
				}
			}
			return true
		})
	}
	sb.WriteString("/-- the bank keeper call whose result `BankMigrate.Execute` sends, and the (sender, receiver, amount) of its `SendCoins` -/\n")
	sb.WriteString("def bankAmountCall : String := " + leanStr(bankCall) + "\n")
	sb.WriteString("def bankSendArgs : String := " + leanStr(bankSend) + "\n\n")
	c.facts["C14.bankAmountCall"] = bankCall
	c.facts["C14.bankSendArgs"] = bankSend

	// ---- signature -----------------------------------------------------------------------------------------
	var fields []string
	cmp := "none"
	prefix := ""
	if fd := c.findFunc(c14Types, "", "MigrateAccountSignatureHash"); fd != nil && fd.Body != nil {
		var params []string
		for _, p := range fd.Type.Params.List {
			for _, n := range p.Names {
				params = append(params, n.Name)
			}
		}
		// actuals in ValidateBasic
		actual := map[string]string{}
		recovered := ""
		if vb := c.findFunc(c14Types, "MsgMigrateAccount", "ValidateBasic"); vb != nil && vb.Body != nil {
			ast.Inspect(vb.Body, func(n ast.Node) bool {
				switch x := n.(type) {
				case *ast.CallExpr:
					if id, ok := x.Fun.(*ast.Ident); ok && id.Name == "MigrateAccountSignatureHash" {
						for i, a := range x.Args {
							if i < len(params) {
								s := c.src(a)
								switch {
								case strings.HasPrefix(s, "fromAddress"):
									actual[params[i]] = "from"
								case strings.HasPrefix(s, "toAddress"):
									actual[params[i]] = "to"
								default:
									actual[params[i]] = "?" + s
								}
							}
						}
					}
				case *ast.AssignStmt:
					if len(x.Lhs) == 1 && len(x.Rhs) == 1 && strings.Contains(c.src(x.Rhs[0]), "crypto.PubkeyToAddress(") &&
						strings.Contains(c.src(vb.Body), "crypto.SigToPub(MigrateAccountSignatureHash(") {
						recovered = c.src(x.Lhs[0])
					}
				case *ast.IfStmt:
					cond := c.src(x.Cond)
					if recovered != "" && strings.HasPrefix(cond, "!bytes.Equal("+recovered+".Bytes(), ") && strings.Contains(c.src(x.Body), "return ") {
						rest := strings.TrimPrefix(cond, "!bytes.Equal("+recovered+".Bytes(), ")
						switch {
						case strings.HasPrefix(rest, "toAddress"):
							cmp = "to"
						case strings.HasPrefix(rest, "fromAddress"):
							cmp = "from"
						default:
							cmp = "?" + rest
						}
					}
				}
				return true
			})
		}
		ast.Inspect(fd.Body, func(n ast.Node) bool {
			ce, ok := n.(*ast.CallExpr)
			if !ok {
				return true
			}
			if se, ok := ce.Fun.(*ast.SelectorExpr); ok && se.Sel.Name == "Keccak256" {
				for _, a := range ce.Args {
					s := c.src(a)
					if id, ok := a.(*ast.Ident); ok {
						if v, ok := actual[id.Name]; ok {
							fields = append(fields, v)
							continue
						}
					}
					if strings.Contains(s, "MigrateAccountSignaturePrefix") {
						fields = append(fields, "prefix")
						continue
					}
					fields = append(fields, "?"+s)
				}
				return false
			}
			return true
		})
	}
	prefix = c.constString(c14Types, "MigrateAccountSignaturePrefix")
	sb.WriteString("/-- arguments of the Keccak256 call of `MigrateAccountSignatureHash`, with the actuals `ValidateBasic` passes -/\n")
	sb.WriteString("def signedFields : List String := " + q(fields) + "\n")
	sb.WriteString("/-- what `ValidateBasic` compares the recovered address with (`none` = no comparison found) -/\n")
	sb.WriteString("def sigComparedWith : String := " + leanStr(cmp) + "\n")
	sb.WriteString("def signaturePrefix : String := " + leanStr(prefix) + "\n\n")
	c.facts["C14.signedFields"] = fields
	c.facts["C14.sigComparedWith"] = cmp


	// ---- gov callbacks: which involvement each callback refuses, in source order ----------------------------
	cbChecks := func(name string) []string {
		var out []string
		fd := c.findFunc(c14Keeper, "GovMigrate", name)
		if fd == nil || fd.Body == nil {
			return out
		}
		var lit *ast.FuncLit
		ast.Inspect(fd.Body, func(n ast.Node) bool {
			if fl, ok := n.(*ast.FuncLit); ok && lit == nil {
				lit = fl
				return false
			}
			return true
		})
		if lit == nil {
			return out
		}
		who := func(arg string) string {
			switch {
			case arg == "from" || strings.HasPrefix(arg, "from."):
				return "from"
			case arg == "to" || strings.HasPrefix(arg, "to.") || strings.Contains(arg, "(to."):
				return "to"
			}
			return "?" + arg
		}
		returnsErr := func(b *ast.BlockStmt) bool {
			for _, st := range b.List {
				if rs, ok := st.(*ast.ReturnStmt); ok && len(rs.Results) == 2 && c.src(rs.Results[1]) != "nil" {
					return true
				}
			}
			return false
		}
		stmts := lit.Body.List
		for i, st := range stmts {
			// a return WITHOUT error anywhere in front of the callback's last statement ends the checks of this proposal early
			// (whatever follows is skipped for it): emitted as `early-exit`, a statement the model does not know
			if i < len(stmts)-1 {
				early := false
				ast.Inspect(st, func(n ast.Node) bool {
					if rs, ok := n.(*ast.ReturnStmt); ok && len(rs.Results) == 2 && c.src(rs.Results[1]) == "nil" {
						early = true
					}
					return true
				})
				if early {
					out = append(out, "early-exit")
				}
			}
			switch x := st.(type) {
			case *ast.IfStmt:
				// if A.Equals(sdk.AccAddress(proposer)) { return false, err }
				if ce, ok := x.Cond.(*ast.CallExpr); ok && returnsErr(x.Body) {
					if se, ok := ce.Fun.(*ast.SelectorExpr); ok && se.Sel.Name == "Equals" && len(ce.Args) == 1 &&
						strings.Contains(c.src(ce.Args[0]), "proposer") {
						out = append(out, "proposer-"+who(c.src(se.X)))
					}
				}
			case *ast.AssignStmt:
				if len(x.Rhs) != 1 || len(x.Lhs) != 2 {
					continue
				}
				ce, ok := x.Rhs[0].(*ast.CallExpr)
				if !ok {
					continue
				}
				// the following statements must return the error / refuse on the flag
				refusedOn := func(v string) bool {
					for _, nx := range stmts[i+1:] {
						if is, ok := nx.(*ast.IfStmt); ok && c.src(is.Cond) == v && returnsErr(is.Body) {
							return true
						}
						if as, ok := nx.(*ast.AssignStmt); ok && len(as.Lhs) > 0 && c.src(as.Lhs[0]) == v {
							return false // overwritten before it was looked at
						}
					}
					return false
				}
				if se, ok := ce.Fun.(*ast.SelectorExpr); ok && (se.Sel.Name == "HasDeposit" || se.Sel.Name == "HasVote") && len(ce.Args) == 3 &&
					c.src(ce.Args[1]) == "proposal.Id" {
					kind := "deposit-"
					if se.Sel.Name == "HasVote" {
						kind = "vote-"
					}
					if refusedOn(c.src(x.Lhs[0])) {
						out = append(out, kind+who(c.src(ce.Args[2])))
					}
					continue
				}
				// b, err := m.DepositPeriodCallback(ctx, from, to)(proposal); if err != nil { return b, err }
				if inner, ok := ce.Fun.(*ast.CallExpr); ok && len(ce.Args) == 1 && c.src(ce.Args[0]) == "proposal" {
					if se, ok := inner.Fun.(*ast.SelectorExpr); ok && se.Sel.Name == "DepositPeriodCallback" &&
						len(inner.Args) == 3 && c.src(inner.Args[1]) == "from" && c.src(inner.Args[2]) == "to" {
						if i+1 < len(stmts) {
							if is, ok := stmts[i+1].(*ast.IfStmt); ok && c.src(is.Cond) == "err != nil" && returnsErr(is.Body) {
								out = append(out, "deposit-callback")
							}
						}
					}
				}
			}
		}
		return out
	}
	depChecks, voteChecks := cbChecks("DepositPeriodCallback"), cbChecks("VotePeriodCallback")
	sb.WriteString("/-- what `DepositPeriodCallback` / `VotePeriodCallback` refuse, in source order (`deposit-callback` = the vote callback first runs the deposit callback) -/\n")
	sb.WriteString("def govDepositChecks : List String := " + q(depChecks) + "\n")
	sb.WriteString("def govVoteChecks : List String := " + q(voteChecks) + "\n\n")
	c.facts["C14.govDepositChecks"] = depChecks
	c.facts["C14.govVoteChecks"] = voteChecks

	// ---- the per-entry queue rewrite loops of Execute -----------------------------------------------------
	// (entries ranged over, branch statements inside the entry loop, the condition under which a queue element is renamed,
	//  where the rewrite flag is declared)
	var qloops [][4]string
	if fd := c.findFunc(c14Keeper, "DistrStakingMigrate", "Execute"); fd != nil && fd.Body != nil {
		ast.Inspect(fd.Body, func(n ast.Node) bool {
			rs, ok := n.(*ast.RangeStmt)
			if !ok || !strings.HasSuffix(c.src(rs.X), ".Entries") {
				return true
			}
			var branches, conds []string
			flag := "outside"
			ast.Inspect(rs.Body, func(m ast.Node) bool {
				switch y := m.(type) {
				case *ast.BranchStmt:
					branches = append(branches, y.Tok.String())
				case *ast.DeclStmt:
					if strings.Contains(c.src(y), "Flag bool") {
						flag = "inside"
					}
				case *ast.IfStmt:
					if strings.Contains(c.src(y.Body), ".DelegatorAddress =") {
						conds = append(conds, c.src(y.Cond))
					}
				}
				return true
			})
			qloops = append(qloops, [4]string{c.src(rs.X), strings.Join(branches, ","), strings.Join(conds, " ;; "), flag})
			return true
		})
	}
	sb.WriteString("/-- the entry loops of `Execute`: (entries, branch statements in the loop, rename condition, rewrite flag declared) -/\n")
	sb.WriteString("def queueLoops : List (String × String × String × String) := [")
	for i, l := range qloops {
		if i > 0 {
			sb.WriteString(", ")
		}
		sb.WriteString("(" + leanStr(l[0]) + ", " + leanStr(l[1]) + ", " + leanStr(l[2]) + ", " + leanStr(l[3]) + ")")
	}
	sb.WriteString("]\n\n")
	c.facts["C14.queueLoops"] = qloops

	// ---- staking Validate checks ---------------------------------------------------------------------------
	var checks []string
	if fd := c.findFunc(c14Keeper, "DistrStakingMigrate", "Validate"); fd != nil && fd.Body != nil {
		seen := map[string]bool{}
		// a check = a keeper call whose result feeds an `if` that returns an error
		body := c.src(fd.Body)
		add := func(name string, ok bool) {
			if ok && !seen[name] {
				seen[name] = true
				checks = append(checks, name)
			}
		}
		ast.Inspect(fd.Body, func(n ast.Node) bool {
			is, ok := n.(*ast.IfStmt)
			if !ok || !strings.Contains(c.src(is.Body), "return ") {
				return true
			}
			hdr := c.src(is.Cond)
			if is.Init != nil {
				hdr = c.src(is.Init) + ";" + hdr
			}
			add("validator-from", strings.Contains(hdr, "GetValidator(ctx, sdk.ValAddress(from))") && strings.Contains(hdr, "err == nil"))
			add("validator-to", strings.Contains(hdr, "GetValidator(ctx, to.Bytes())") && strings.Contains(hdr, "err == nil"))
			add("delegations-to", strings.Contains(hdr, "len(delegations) > 0") && strings.Contains(body, "delegations, err := m.stakingKeeper.GetDelegatorDelegations(ctx, to.Bytes(), 1)"))
			add("unbonding-to", strings.Contains(hdr, "len(undelegations) > 0") && strings.Contains(body, "undelegations, err := m.stakingKeeper.GetUnbondingDelegations(ctx, to.Bytes(), 1)"))
			add("redelegations-to", strings.Contains(hdr, "len(redelegations) > 0") && strings.Contains(body, "redelegations, err := m.stakingKeeper.GetRedelegations(ctx, to.Bytes(), 1)"))
			return true
		})
	}
	sb.WriteString("/-- the rejecting checks of `DistrStakingMigrate.Validate` in source order (a program the model interprets) -/\n")
	sb.WriteString("def stakingValidateProgram : List String := " + q(checks) + "\n")
	c.facts["C14.stakingValidateProgram"] = append([]string{}, checks...)
	sort.Strings(checks)
	sb.WriteString("/-- rejecting checks found in `DistrStakingMigrate.Validate` -/\n")
	sb.WriteString("def stakingValidateChecks : List String := " + q(checks) + "\n\n")
	c.facts["C14.stakingValidateChecks"] = checks

	// ---- genesis export / import of the migrate module ----------------------------------------------------
	// IterateMigrateRecords: the value flag named by the `continue` branch of its loop; ExportGenesis: where the exported
	// From / To come from (record key / record value), what the callback does with a record and what it returns;
	// InitGenesis: the keeper calls made per exported record, arguments traced back to the record's fields
	expSkip := "none"
	var expShape []string
	if fd := c.findFunc(c14Keeper, "Keeper", "IterateMigrateRecords"); fd != nil && fd.Body != nil {
		ast.Inspect(fd.Body, func(n ast.Node) bool {
			switch x := n.(type) {
			case *ast.IfStmt:
				if len(x.Body.List) == 1 {
					if br, ok := x.Body.List[0].(*ast.BranchStmt); ok && br.Tok == token.CONTINUE {
						cond := c.src(x.Cond)
						switch {
						case strings.HasPrefix(cond, "bytes.Equal(iter.Value()[:1], ") && strings.Contains(cond, "ValuePrefixMigrateToFlag"):
							expSkip = "ValuePrefixMigrateToFlag"
						case strings.HasPrefix(cond, "bytes.Equal(iter.Value()[:1], ") && strings.Contains(cond, "ValuePrefixMigrateFromFlag"):
							expSkip = "ValuePrefixMigrateFromFlag"
						default:
							expSkip = "?" + cond
						}
					}
				}
			case *ast.CompositeLit:
				if strings.HasSuffix(c.src(x.Type), "MigrateRecord") {
					for _, el := range x.Elts {
						if kv, ok := el.(*ast.KeyValueExpr); ok {
							k, v := c.src(kv.Key), c.src(kv.Value)
							if k != "From" && k != "To" {
								continue
							}
							switch {
							case strings.Contains(v, "iter.Key()[1:]"):
								expShape = append(expShape, k+"=key")
							case strings.Contains(v, "iter.Value()[1 : addressLen+1]") || strings.Contains(v, "iter.Value()[1:addressLen+1]"):
								expShape = append(expShape, k+"=value")
							default:
								expShape = append(expShape, k+"=?"+v)
							}
						}
					}
				}
			}
			return true
		})
	}
	if fd := c.findFunc(c14Keeper, "Keeper", "ExportGenesis"); fd != nil && fd.Body != nil {
		ast.Inspect(fd.Body, func(n ast.Node) bool {
			fl, ok := n.(*ast.FuncLit)
			if !ok {
				return true
			}
			for _, st := range fl.Body.List {
				switch x := st.(type) {
				case *ast.AssignStmt:
					if strings.Contains(c.src(x), "MigrateRecords = append(") && strings.HasSuffix(strings.TrimSpace(c.src(x)), ", record)") {
						expShape = append(expShape, "append")
					} else {
						expShape = append(expShape, "?"+c.src(x))
					}
				case *ast.ReturnStmt:
					expShape = append(expShape, "return "+c.src(x.Results[0]))
				default:
					expShape = append(expShape, "?"+c.src(st))
				}
			}
			return false
		})
	}
	var impCalls []string
	if fd := c.findFunc(c14Keeper, "Keeper", "InitGenesis"); fd != nil && fd.Body != nil {
		ast.Inspect(fd.Body, func(n ast.Node) bool {
			rs, ok := n.(*ast.RangeStmt)
			if !ok || !strings.HasSuffix(c.src(rs.X), ".MigrateRecords") {
				return true
			}
			vars := map[string]string{}
			trace := func(e string) string {
				if v, ok := vars[e]; ok {
					return v
				}
				for _, f := range []string{"record.From", "record.To"} {
					if strings.Contains(e, f) {
						return f
					}
				}
				return "?" + e
			}
			ast.Inspect(rs.Body, func(m ast.Node) bool {
				switch y := m.(type) {
				case *ast.AssignStmt:
					if len(y.Lhs) >= 1 && len(y.Rhs) == 1 {
						if id, ok := y.Lhs[0].(*ast.Ident); ok && id.Name != "err" && id.Name != "_" {
							vars[id.Name] = trace(c.src(y.Rhs[0]))
						}
					}
				case *ast.CallExpr:
					if se, ok := y.Fun.(*ast.SelectorExpr); ok && c.src(se.X) == "k" {
						var as []string
						for _, a := range y.Args[1:] {
							as = append(as, trace(c.src(a)))
						}
						impCalls = append(impCalls, se.Sel.Name+"("+strings.Join(as, ",")+")")
					}
				}
				return true
			})
			return false
		})
	}
	sb.WriteString("/-- genesis: the value flag whose records `IterateMigrateRecords` skips; where `From` / `To` of an exported record come from and what\n`ExportGenesis`' callback does; the keeper calls `InitGenesis` makes per record (arguments traced to the record's fields) -/\n")
	sb.WriteString("def genesisExportSkip : String := " + leanStr(expSkip) + "\n")
	sb.WriteString("def genesisExportShape : List String := " + q(expShape) + "\n")
	sb.WriteString("def genesisImportCalls : List String := " + q(impCalls) + "\n\n")
	c.facts["C14.genesisExportSkip"] = expSkip
	c.facts["C14.genesisExportShape"] = expShape
	c.facts["C14.genesisImportCalls"] = impCalls

	// ---- Execute as a program: the store statements of each iterator loop, outside / inside its entry loop, in source order
	// (scope, op, store, key constructor, arguments, value); the model parses and INTERPRETS this list
	type xst struct{ scope, op, store, key, args, val string }
	var prog []xst
	if fd := c.findFunc(c14Keeper, "DistrStakingMigrate", "Execute"); fd != nil && fd.Body != nil {
		srcOf := func(e ast.Expr) string { return strings.Join(strings.Fields(c.src(e)), "") }
		keyCall := func(e ast.Expr) (string, string, bool) {
			ce, ok := e.(*ast.CallExpr)
			if !ok {
				return "", "", false
			}
			se, ok := ce.Fun.(*ast.SelectorExpr)
			if !ok || !strings.HasPrefix(se.Sel.Name, "Get") || se.Sel.Name == "Get" || strings.HasSuffix(srcOf(se.X), "Store") {
				return "", "", false
			}
			var as []string
			for _, a := range ce.Args {
				as = append(as, srcOf(a))
			}
			return se.Sel.Name, strings.Join(as, ","), true
		}
		// iterator variable -> scope
		iterScope := map[string]string{}
		ast.Inspect(fd.Body, func(n ast.Node) bool {
			as, ok := n.(*ast.AssignStmt)
			if !ok || len(as.Lhs) != 1 || len(as.Rhs) != 1 {
				return true
			}
			if ce, ok := as.Rhs[0].(*ast.CallExpr); ok {
				if se, ok := ce.Fun.(*ast.SelectorExpr); ok && se.Sel.Name == "KVStorePrefixIterator" && len(ce.Args) == 2 {
					if k, a, ok := keyCall(ce.Args[1]); ok {
						sc := "?" + k
						switch k + "(" + a + ")" {
						case "GetDelegationsKey(from)":
							sc = "del"
						case "GetUBDsKey(from)":
							sc = "ubd"
						case "GetREDsKey(from)":
							sc = "red"
						}
						iterScope[srcOf(as.Lhs[0])] = sc
					}
				}
			}
			return true
		})
		var walk func(stmts []ast.Stmt, scope string, vars map[string][2]string, relabel map[string]string)
		walk = func(stmts []ast.Stmt, scope string, vars map[string][2]string, relabel map[string]string) {
			for _, st := range stmts {
				switch x := st.(type) {
				case *ast.ForStmt:
					sc := scope
					if x.Cond != nil {
						if ce, ok := x.Cond.(*ast.CallExpr); ok {
							if se, ok := ce.Fun.(*ast.SelectorExpr); ok && se.Sel.Name == "Valid" {
								if v, ok := iterScope[srcOf(se.X)]; ok {
									sc = v
								}
							}
						}
					}
					if sc == scope && scope != "" {
						continue // the inner `for i := range queue` loops belong to the Queue statement
					}
					walk(x.Body.List, sc, map[string][2]string{}, map[string]string{})
				case *ast.RangeStmt:
					if strings.HasSuffix(srcOf(x.X), ".Entries") && scope != "" && !strings.HasSuffix(scope, ".entry") {
						walk(x.Body.List, scope+".entry", vars, relabel)
					}
				case *ast.AssignStmt:
					if len(x.Rhs) != 1 {
						continue
					}
					lhs := srcOf(x.Lhs[0])
					// X.DelegatorAddress = sdk.AccAddress(to.Bytes()).String()
					if strings.HasSuffix(lhs, ".DelegatorAddress") {
						who := "?" + srcOf(x.Rhs[0])
						switch srcOf(x.Rhs[0]) {
						case "sdk.AccAddress(to.Bytes()).String()":
							who = "to"
						case "from.String()":
							who = "from"
						}
						relabel[strings.TrimSuffix(lhs, ".DelegatorAddress")] = who
						continue
					}
					if k, a, ok := keyCall(x.Rhs[0]); ok && len(x.Lhs) == 1 {
						vars[lhs] = [2]string{k, a}
						continue
					}
					if ce, ok := x.Rhs[0].(*ast.CallExpr); ok {
						if se, ok := ce.Fun.(*ast.SelectorExpr); ok {
							switch {
							case se.Sel.Name == "Get" && strings.HasSuffix(srcOf(se.X), "Store") && len(ce.Args) == 1:
								k, a := "?"+srcOf(ce.Args[0]), ""
								if kk, aa, ok := keyCall(ce.Args[0]); ok {
									k, a = kk, aa
								} else if v, ok := vars[srcOf(ce.Args[0])]; ok {
									k, a = v[0], v[1]
								}
								prog = append(prog, xst{scope, "Get", srcOf(se.X), k, a, lhs})
							case strings.HasSuffix(se.Sel.Name, "QueueTimeSlice") && len(ce.Args) == 2 && strings.HasSuffix(scope, ".entry"):
								prog = append(prog, xst{scope, "Queue", "stakingKeeper", se.Sel.Name, srcOf(ce.Args[1]), ""})
							}
						}
					}
				case *ast.ExprStmt:
					ce, ok := x.X.(*ast.CallExpr)
					if !ok {
						continue
					}
					se, ok := ce.Fun.(*ast.SelectorExpr)
					if !ok || (se.Sel.Name != "Delete" && se.Sel.Name != "Set") || !strings.HasSuffix(srcOf(se.X), "Store") || len(ce.Args) < 1 {
						continue
					}
					k, a := "?"+srcOf(ce.Args[0]), ""
					if kk, aa, ok := keyCall(ce.Args[0]); ok {
						k, a = kk, aa
					} else if v, ok := vars[srcOf(ce.Args[0])]; ok {
						k, a = v[0], v[1]
					} else if strings.HasSuffix(srcOf(ce.Args[0]), "Iterator.Key()") {
						k, a = "iter", iterScope[strings.TrimSuffix(srcOf(ce.Args[0]), ".Key()")]
					}
					val := ""
					if se.Sel.Name == "Set" && len(ce.Args) == 2 {
						v := srcOf(ce.Args[1])
						switch {
						case v == "[]byte{}":
							val = "empty"
						case strings.HasPrefix(v, "stakingtypes.MustMarshal") && strings.HasPrefix(v[strings.Index(v, "(")+1:], "cdc,"):
							obj := strings.TrimSuffix(v[strings.Index(v, "(")+5:], ")")
							val = "record:" + relabel[obj]
						default:
							if kk, aa, ok := keyCall(ce.Args[1]); ok {
								val = kk + "(" + aa + ")"
							} else {
								val = v
							}
						}
					}
					prog = append(prog, xst{scope, se.Sel.Name, srcOf(se.X), k, a, val})
				case *ast.IfStmt:
					// `if flag { key := …TimeKey(entry.CompletionTime); … Set(key, value) }` closes the Queue statement
					if strings.HasSuffix(scope, ".entry") && strings.HasSuffix(srcOf(x.Cond), "Flag") {
						tk := "?"
						ast.Inspect(x.Body, func(m ast.Node) bool {
							if as, ok := m.(*ast.AssignStmt); ok && len(as.Rhs) == 1 {
								if kk, aa, ok := keyCall(as.Rhs[0]); ok && strings.HasSuffix(kk, "TimeKey") {
									tk = kk + "(" + aa + ")"
								}
							}
							return true
						})
						for i := len(prog) - 1; i >= 0; i-- {
							if prog[i].op == "Queue" && prog[i].scope == scope && prog[i].val == "" {
								prog[i].val = tk
								break
							}
						}
					}
				}
			}
		}
		walk(fd.Body.List, "", map[string][2]string{}, map[string]string{})
	}
	sb.WriteString("/-- `DistrStakingMigrate.Execute` as a program: the store statements of each iterator loop (`del` / `ubd` / `red`), outside and\ninside (`.entry`) its entry loop, in source order: (scope, operation, store, key constructor, arguments, value) -/\n")
	sb.WriteString("def executeProgram : List (String × String × String × String × String × String) := [\n")
	var progFacts [][]string
	for i, w := range prog {
		sep := ","
		if i == len(prog)-1 {
			sep = ""
		}
		sb.WriteString("  (" + leanStr(w.scope) + ", " + leanStr(w.op) + ", " + leanStr(w.store) + ", " + leanStr(w.key) + ", " + leanStr(w.args) + ", " + leanStr(w.val) + ")" + sep + "\n")
		progFacts = append(progFacts, []string{w.scope, w.op, w.store, w.key, w.args, w.val})
	}
	sb.WriteString("]\n\n")
	c.facts["C14.executeProgram"] = progFacts

	sb.WriteString("end FxVerif.Gen.C14\n")
	c.write("C14.lean", sb.String())
}

// pkgVarInit returns the initialiser source of a package-level variable, or "".
func (c *ctxT) pkgVarInit(rel, name string) string {
	p := c.pkg(rel)
	for _, fn := range sortedKeys(p) {
		for _, d := range p[fn].Decls {
			gd, ok := d.(*ast.GenDecl)
			if !ok || gd.Tok != token.VAR {
				continue
			}
			for _, sp := range gd.Specs {
				vs := sp.(*ast.ValueSpec)
				for i, n := range vs.Names {
					if n.Name == name && i < len(vs.Values) {
						return c.src(vs.Values[i])
					}
				}
			}
		}
	}
	return ""
}

// constString returns the value of a package-level string constant, or "".
func (c *ctxT) constString(rel, name string) string {
	p := c.pkg(rel)
	for _, fn := range sortedKeys(p) {
		for _, d := range p[fn].Decls {
			gd, ok := d.(*ast.GenDecl)
			if !ok || gd.Tok != token.CONST {
				continue
			}
			for _, sp := range gd.Specs {
				vs := sp.(*ast.ValueSpec)
				for i, n := range vs.Names {
					if n.Name == name && i < len(vs.Values) {
						if bl, ok := vs.Values[i].(*ast.BasicLit); ok && bl.Kind == token.STRING {
							return strings.Trim(bl.Value, "\"")
						}
					}
				}
			}
		}
	}
	return ""
}
