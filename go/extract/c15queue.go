package main

// C15, round 3: the keys under which a proposal is entered into the ACTIVE queue — by ActivateVotingPeriod and by the
// expedited→regular conversion of the end-blocker — must be the voting end that is stored in the proposal (two sites that
// have to agree: the stored end decides what is shown and cancelled, the queue key decides when the tally happens).

import (
	"go/ast"
)

const c15QueueKey = "collections.Join(*proposal.VotingEndTime, proposal.Id)"

// c15QueueKeys: (activation site ok, conversion site ok)
func c15QueueKeys(c *ctxT, kdir, adir string) (bool, bool) {
	isSet := func(n ast.Node) (string, bool) {
		recv, m, ce := c.callSel(n)
		if ce == nil || m != "Set" || recv != "keeper.ActiveProposalsQueue" || len(ce.Args) != 3 {
			return "", false
		}
		return squash(c.src(ce.Args[1])), true
	}
	act := false
	if fd := c.findFunc(kdir, "Keeper", "ActivateVotingPeriod"); fd != nil && fd.Body != nil {
		// the stored end is assigned before the queue entry is written, and every queue write of the function uses it
		assigned, n, ok := false, 0, true
		for _, st := range fd.Body.List {
			if as, isAs := st.(*ast.AssignStmt); isAs && squash(c.src(as)) == "proposal.VotingEndTime = &endTime" {
				assigned = true
			}
			for _, x := range c15All(st, func(x ast.Node) bool { _, is := isSet(x); return is }) {
				key, _ := isSet(x)
				n++
				if key != c15QueueKey || !assigned {
					ok = false
				}
			}
		}
		act = ok && n == 1
	}
	conv := false
	if eb := c.findFunc(adir, "", "EndBlocker"); eb != nil {
		cc := c15Find(eb.Body, func(n ast.Node) bool {
			x, ok := n.(*ast.CaseClause)
			return ok && len(x.List) == 1 && c.src(x.List[0]) == "proposal.Expedited"
		})
		if cc != nil {
			assigned, n, ok := false, 0, true
			for _, st := range cc.(*ast.CaseClause).Body {
				if as, isAs := st.(*ast.AssignStmt); isAs && squash(c.src(as)) == "proposal.VotingEndTime = &endTime" {
					assigned = true
				}
				for _, x := range c15All(st, func(x ast.Node) bool { _, is := isSet(x); return is }) {
					key, _ := isSet(x)
					n++
					if key != c15QueueKey || !assigned {
						ok = false
					}
				}
			}
			conv = ok && n == 1
		}
	}
	return act, conv
}
