package main

import (
	"fmt"
	"go/ast"
	"strings"
)

// C19, fifth part (round 5): WHICH DENOMINATION the ibc-go transfer application credits, and how.
//
// `Keeper.OnRecvPacket` of ibc-go's transfer application (read from the module cache at the version of go.mod) is
// translated with the same machinery as `parseIBCCoinDenom` (c19parse.go): locals are inlined, `if c { x = e }` becomes
// `ite`, a recognised question about the packet denomination (`ReceiverChainIsSource(<port>, <channel>, data.Denom)`)
// splits the path.  Differences: the function does not RETURN the denomination, it CREDITS it — so the result of a path
// is the denomination of the coin handed to the first crediting call on that path (`unescrowToken(ctx, escrow,
// receiver, token)` = un-escrow, `SendCoinsFromModuleToAccount(ctx, module, receiver, coins)` after a `MintCoins` =
// mint), obtained by inlining the coin argument down to `sdk.NewCoin(<denomination>, amount)`; and `if … { return err }`
// blocks whose condition is not a question about the denomination are failure guards (no credit on that path, the
// packet is answered with an error acknowledgement), which the walker passes.
//
// Emitted: `appRecvProg : List (PCond × String × PRes)` — (condition, "unescrow" | "mint" | "send" | "none", denomination).
// The model INTERPRETS it (`appDenomBy`) and proves it equal to its former hand-written `appDenom` on every path.
//
// Also here: whether the erc20 module's genesis export / import carries the IBC tracking records.

type creditPath struct{ cond, kind, res string }

// splitTopArgs splits "f(a,b(c,d),e)" -> ("f", ["a","b(c,d)","e"]); ok=false when s is not a call
func splitTopArgs(s string) (string, []string, bool) {
	i := strings.Index(s, "(")
	if i < 0 || !strings.HasSuffix(s, ")") {
		return "", nil, false
	}
	fn, body := s[:i], s[i+1:len(s)-1]
	var args []string
	depth, start := 0, 0
	for j, r := range body {
		switch r {
		case '(', '[', '{':
			depth++
		case ')', ']', '}':
			depth--
		case ',':
			if depth == 0 {
				args = append(args, body[start:j])
				start = j + 1
			}
		}
	}
	if depth != 0 {
		return "", nil, false
	}
	args = append(args, body[start:])
	return fn, args, true
}

// coinDenom: the denomination expression inside `sdk.NewCoins(sdk.NewCoin(<d>, amt))` / `sdk.NewCoin(<d>, amt)`
func coinDenom(s string) (string, bool) {
	for k := 0; k < 3; k++ {
		fn, args, ok := splitTopArgs(s)
		if !ok {
			return "", false
		}
		switch {
		case strings.HasSuffix(fn, "NewCoins") && len(args) == 1:
			s = args[0]
		case strings.HasSuffix(fn, "NewCoin") && len(args) == 2:
			return args[0], true
		default:
			return "", false
		}
	}
	return "", false
}

// creditCall: the first call of the statement that hands coins to the receiver / mints; returns (name, call)
func creditCallIn(n ast.Node) (string, *ast.CallExpr) {
	var name string
	var call *ast.CallExpr
	ast.Inspect(n, func(m ast.Node) bool {
		if call != nil {
			return false
		}
		if _, isFn := m.(*ast.FuncLit); isFn {
			return false
		}
		ce, ok := m.(*ast.CallExpr)
		if !ok {
			return true
		}
		if sel, ok := ce.Fun.(*ast.SelectorExpr); ok {
			switch sel.Sel.Name {
			case "unescrowToken", "SendCoinsFromModuleToAccount", "SendCoins", "MintCoins":
				name, call = sel.Sel.Name, ce
				return false
			}
		}
		return true
	})
	return name, call
}

func (t *parseTr) credit(stmts []ast.Stmt, env map[string]string, minted bool) []creditPath {
	none := func(why string) []creditPath {
		return []creditPath{{".tt", "none", "(.unknown " + leanStr(why) + ")"}}
	}
	for i, st := range stmts {
		if _, isDefer := st.(*ast.DeferStmt); isDefer {
			continue
		}
		// the head of the statement (everything but the body of an `if`)
		var head ast.Node = st
		if is, ok := st.(*ast.IfStmt); ok {
			head = is.Init
			if head == nil {
				head = is.Cond
			}
		}
		if name, ce := creditCallIn(head); ce != nil {
			if name == "MintCoins" {
				minted = true
				continue
			}
			coinArg := len(ce.Args) - 1
			d, ok := coinDenom(t.inline(ce.Args[coinArg], env))
			if !ok {
				return none("coin argument of " + name + ": " + t.inline(ce.Args[coinArg], env))
			}
			kind := "send"
			switch {
			case name == "unescrowToken":
				kind = "unescrow"
			case minted:
				kind = "mint"
			}
			return []creditPath{{".tt", kind, t.classify(d)}}
		}
		switch x := st.(type) {
		case *ast.ReturnStmt:
			return none("returns without a credit")
		case *ast.IfStmt:
			if x.Init != nil {
				t.assign(x.Init, env)
			}
			if t.isBranchPoint(x, env) {
				cnd := t.cond(x.Cond, env)
				var out []creditPath
				join := func(c string, body []ast.Stmt) {
					e2 := c19CopyEnv(env)
					for _, p := range t.credit(append(append([]ast.Stmt{}, body...), stmts[i+1:]...), e2, minted) {
						out = append(out, creditPath{pand(c, p.cond), p.kind, p.res})
					}
				}
				join(cnd, x.Body.List)
				ncnd := "(.not " + cnd + ")"
				switch el := x.Else.(type) {
				case nil:
					join(ncnd, nil)
				case *ast.BlockStmt:
					join(ncnd, el.List)
				default:
					join(ncnd, []ast.Stmt{el})
				}
				return out
			}
			if x.Else == nil && endsWithReturn(x.Body) {
				continue // failure guard: error acknowledgement, nothing credited
			}
			if !containsReturn(x) {
				if n, _ := creditCallIn(x.Body); n == "" {
					t.assign(st, env) // `if c { x = e }`, or a block that only writes bookkeeping
					continue
				}
			}
			return none("if not understood: " + firstLine(t.c.src(st)))
		default:
			t.assign(st, env)
		}
	}
	return none("no credit")
}

func (c *ctxT) c19RecvApp(sb *strings.Builder) {
	var paths []creditPath
	if fd := c.depFunc("github.com/cosmos/ibc-go/v8", "modules/apps/transfer/keeper/relay.go", "Keeper", "OnRecvPacket"); fd != nil && fd.Body != nil {
		ps := paramNames(fd)
		if len(ps) == 3 {
			// the application names the packet `packet` like the middleware does; the denomination is a field of the data
			t := &parseTr{c: c, denom: ps[2] + ".Denom", pkg: "types"}
			if ps[1] == "packet" {
				paths = t.credit(fd.Body.List, map[string]string{}, false)
			}
		}
	}
	var xs, facts []string
	for _, p := range paths {
		xs = append(xs, "("+p.cond+", "+leanStr(p.kind)+", "+p.res+")")
		facts = append(facts, p.cond+" => "+p.kind+" "+p.res)
	}
	fmt.Fprintf(sb, "/-- Keeper.OnRecvPacket of the ibc-go transfer application (module cache, version of go.mod): exclusive paths as (condition over the packet denomination, how the receiver is credited — unescrow / mint / send / none —, denomination of the credited coin); empty = source not found -/\ndef appRecvProg : List (PCond × String × PRes) := [%s]\n", strings.Join(xs, ", "))
	c.facts["C19.appRecvProg"] = facts

	// erc20 genesis: do ExportGenesis / InitGenesis mention the IBC tracking records at all
	mentions := func(method string) bool {
		fd := c.findFunc("x/erc20/keeper", "Keeper", method)
		if fd == nil || fd.Body == nil {
			return false
		}
		s := c.src(fd.Body)
		return strings.Contains(s, "IBCTransfer") || strings.Contains(s, "IbcTransfer")
	}
	exp, imp := mentions("ExportGenesis"), mentions("InitGenesis")
	fmt.Fprintf(sb, "/-- erc20 ExportGenesis mentions the IBC tracking records -/\ndef genesisExportsRelations : Bool := %s\n/-- erc20 InitGenesis mentions the IBC tracking records -/\ndef genesisImportsRelations : Bool := %s\n", leanBool(exp), leanBool(imp))
	c.facts["C19.genesisExportsRelations"] = exp
	c.facts["C19.genesisImportsRelations"] = imp
}
