package main

import (
	"go/ast"
	"go/token"
	"sort"
	"strings"
)

// C08: how the erc20 keeper maintains its indexes: the ordered index / metadata calls on every success path of
// UpdateDenomAliases, RegisterNativeCoin, RegisterNativeERC20, ToggleTokenConvert, and the store prefixes written /
// deleted by AddTokenPair / RemoveTokenPair.
func init() { register(extractC08) }

func extractC08(c *ctxT) {
	c08Mode = true
	defer func() { c08Mode = false }()
	var sb strings.Builder
	sb.WriteString("namespace FxVerif.Gen.C08\n\ninductive ICall where\n  | setAliases | deleteAliases | setMetadata | addTokenPair | setTokenPair\n  deriving DecidableEq, Repr\n\n")
	type want struct {
		name string
		must []string
	}
	fns := []struct {
		name  string
		wants []want
	}{
		{"UpdateDenomAliases", []want{
			{"updateAlias_add", []string{"+!found"}},
			{"updateAlias_remove", []string{"-!found", "+registeredDenom == denom"}}}},
		{"RegisterNativeCoin", []want{
			{"registerCoin_newMetadata", []string{"+len(coinMetadata.DenomUnits) > 0", "-isExist"}},
			{"registerCoin_existingMetadata", []string{"+len(coinMetadata.DenomUnits) > 0", "+isExist"}}}},
		{"RegisterNativeERC20", []want{{"registerERC20_aliases", []string{"+len(aliases) > 0"}}}},
		{"ToggleTokenConvert", []want{{"toggle", nil}}},
	}
	facts := map[string]any{}
	for _, f := range fns {
		fd := c.findFunc("x/erc20/keeper", "Keeper", f.name)
		var paths []c04Path
		if fd != nil && fd.Body != nil {
			paths = c04Walk(c, fd.Body.List, []c04Path{{}})
		}
		var ok []c04Path
		var all []string
		for _, p := range paths {
			if !p.fail {
				ok = append(ok, p)
				all = append(all, strings.Join(p.conds, " ; ")+" => "+strings.Join(p.calls, ","))
			}
		}
		sort.Strings(all)
		facts[f.name] = all
		for _, w := range f.wants {
			seen := map[string]bool{}
			var variants []string
			for _, p := range ok {
				key := strings.Join(p.conds, "\n")
				match := true
				for _, m := range w.must {
					if !strings.Contains(key, m) {
						match = false
					}
				}
				if match {
					v := leanList(p.calls)
					if !seen[v] {
						seen[v] = true
						variants = append(variants, v)
					}
				}
			}
			sort.Strings(variants)
			// all success paths of the branch, as the set of distinct call sequences
			sb.WriteString("def " + w.name + " : List (List ICall) := " + leanList(variants) + "\n")
		}
	}
	// store prefixes touched by AddTokenPair / RemoveTokenPair
	for _, name := range []string{"AddTokenPair", "RemoveTokenPair"} {
		fd := c.findFunc("x/erc20/keeper", "Keeper", name)
		var ops []string
		if fd != nil && fd.Body != nil {
			ast.Inspect(fd.Body, func(n ast.Node) bool {
				ce, ok := n.(*ast.CallExpr)
				if !ok {
					return true
				}
				se, ok := ce.Fun.(*ast.SelectorExpr)
				if !ok {
					return true
				}
				if id, ok := se.X.(*ast.Ident); ok && id.Name == "store" && (se.Sel.Name == "Set" || se.Sel.Name == "Delete") && len(ce.Args) > 0 {
					src := c.src(ce.Args[0])
					for _, pfx := range []string{"KeyPrefixTokenPairByDenom", "KeyPrefixTokenPairByERC20", "KeyPrefixTokenPair"} {
						if strings.Contains(src, "types."+pfx+",") || strings.Contains(src, "types."+pfx+")") {
							ops = append(ops, leanStr(se.Sel.Name+":"+pfx))
							break
						}
					}
				}
				if se.Sel.Name == "DeleteAliasesDenom" {
					ops = append(ops, leanStr("DeleteAliases"))
				}
				return true
			})
		}
		_ = token.NoPos
		sb.WriteString("def " + strings.ToLower(name[:1]) + name[1:] + "_store : List String := " + leanList(ops) + "\n")
	}
	sb.WriteString("\nend FxVerif.Gen.C08\n")
	c.write("C08.lean", sb.String())
	c.facts["C08.paths"] = facts
}
