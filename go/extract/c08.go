package main

import (
	"go/ast"
	"go/token"
	"sort"
	"strings"
)

// C08: how the erc20 keeper maintains its indexes: the ordered index / metadata calls on every success path of
// UpdateDenomAliases, RegisterNativeCoin, RegisterNativeERC20, ToggleTokenConvert, and the store prefixes written /
// deleted by AddTokenPair / RemoveTokenPair.
func init() { register(extractC08) }

func extractC08(c *ctxT) {
	c08Mode = true
	defer func() { c08Mode = false }()
	var sb strings.Builder
	sb.WriteString("namespace FxVerif.Gen.C08\n\ninductive ICall where\n  | setAliases | deleteAliases | setMetadata | addTokenPair | setTokenPair\n  deriving DecidableEq, Repr\n\n")
	type want struct {
		name string
		must []string
	}
	fns := []struct {
		name  string
		wants []want
	}{
		{"UpdateDenomAliases", []want{
			{"updateAlias_add", []string{"+!found"}},
			{"updateAlias_remove", []string{"-!found", "+registeredDenom == denom"}}}},
		{"RegisterNativeCoin", []want{
			{"registerCoin_newMetadata", []string{"+len(coinMetadata.DenomUnits) > 0", "-isExist"}},
			{"registerCoin_existingMetadata", []string{"+len(coinMetadata.DenomUnits) > 0", "+isExist"}}}},
		{"RegisterNativeERC20", []want{{"registerERC20_aliases", []string{"+len(aliases) > 0"}}}},
		{"ToggleTokenConvert", []want{{"toggle", nil}}},
	}
	facts := map[string]any{}
	for _, f := range fns {
		fd := c.findFunc("x/erc20/keeper", "Keeper", f.name)
		var paths []c04Path
		if fd != nil && fd.Body != nil {
			paths = c04Walk(c, fd.Body.List, []c04Path{{}})
		}
		var ok []c04Path
		var all []string
		for _, p := range paths {
			if !p.fail {
				ok = append(ok, p)
				all = append(all, strings.Join(p.conds, " ; ")+" => "+strings.Join(p.calls, ","))
			}
		}
		sort.Strings(all)
		facts[f.name] = all
		for _, w := range f.wants {
			seen := map[string]bool{}
			var variants []string
			for _, p := range ok {
				key := strings.Join(p.conds, "\n")
				match := true
				for _, m := range w.must {
					if !strings.Contains(key, m) {
						match = false
					}
				}
				if match {
					v := leanList(p.calls)
					if !seen[v] {
						seen[v] = true
						variants = append(variants, v)
					}
				}
			}
			sort.Strings(variants)
			// all success paths of the branch, as the set of distinct call sequences
			sb.WriteString("def " + w.name + " : List (List ICall) := " + leanList(variants) + "\n")
		}
	}
	// store prefixes touched by AddTokenPair / RemoveTokenPair
	for _, name := range []string{"AddTokenPair", "RemoveTokenPair"} {
		fd := c.findFunc("x/erc20/keeper", "Keeper", name)
		var ops []string
		if fd != nil && fd.Body != nil {
			ast.Inspect(fd.Body, func(n ast.Node) bool {
				ce, ok := n.(*ast.CallExpr)
				if !ok {
					return true
				}
				se, ok := ce.Fun.(*ast.SelectorExpr)
				if !ok {
					return true
				}
				if id, ok := se.X.(*ast.Ident); ok && id.Name == "store" && (se.Sel.Name == "Set" || se.Sel.Name == "Delete") && len(ce.Args) > 0 {
					src := c.src(ce.Args[0])
					for _, pfx := range []string{"KeyPrefixTokenPairByDenom", "KeyPrefixTokenPairByERC20", "KeyPrefixTokenPair"} {
						if strings.Contains(src, "types."+pfx+",") || strings.Contains(src, "types."+pfx+")") {
							ops = append(ops, leanStr(se.Sel.Name+":"+pfx))
							break
						}
					}
				}
				if se.Sel.Name == "DeleteAliasesDenom" {
					ops = append(ops, leanStr("DeleteAliases"))
				}
				return true
			})
		}
		_ = token.NoPos
		sb.WriteString("def " + strings.ToLower(name[:1]) + name[1:] + "_store : List String := " + leanList(ops) + "\n")
	}
	// guards (condition, error) of the registrations and of the alias update, in source order, loops included
	norm := func(x string) string { return strings.Join(strings.Fields(x), " ") }
	var guardsOf func(list []ast.Stmt, out *[]string)
	guardsOf = func(list []ast.Stmt, out *[]string) {
		for _, st := range list {
			switch s := st.(type) {
			case *ast.IfStmt:
				isGuard := false
				if n := len(s.Body.List); n > 0 {
					if rs, ok := s.Body.List[n-1].(*ast.ReturnStmt); ok && len(rs.Results) > 0 {
						if e := c08ErrName(c, rs.Results[len(rs.Results)-1]); e != "" {
							cond := norm(c.src(s.Cond))
							if s.Init != nil {
								cond = norm(c.src(s.Init)) + "; " + cond
							}
							*out = append(*out, "("+leanStr(cond)+", "+leanStr(e)+")")
							isGuard = true
						}
					}
				}
				if !isGuard {
					guardsOf(s.Body.List, out)
				}
				if eb, ok := s.Else.(*ast.BlockStmt); ok {
					guardsOf(eb.List, out)
				} else if ei, ok := s.Else.(*ast.IfStmt); ok {
					guardsOf([]ast.Stmt{ei}, out)
				}
			case *ast.RangeStmt:
				guardsOf(s.Body.List, out)
			case *ast.ForStmt:
				guardsOf(s.Body.List, out)
			}
		}
	}
	for _, name := range []string{"RegisterNativeCoin", "RegisterNativeERC20", "UpdateDenomAliases"} {
		var gs []string
		if fd := c.findFunc("x/erc20/keeper", "Keeper", name); fd != nil && fd.Body != nil {
			guardsOf(fd.Body.List, &gs)
		}
		sb.WriteString("def " + strings.ToLower(name[:1]) + name[1:] + "_guards : List (String × String) := " + leanList(gs) + "\n")
		facts[name+".guards"] = gs
	}
	// the loop that rebuilds the alias list when an alias is removed, and the expression that extends it when one is added
	var filter []string
	addExpr := ""
	if fd := c.findFunc("x/erc20/keeper", "Keeper", "UpdateDenomAliases"); fd != nil && fd.Body != nil {
		ast.Inspect(fd.Body, func(n ast.Node) bool {
			switch x := n.(type) {
			case *ast.RangeStmt:
				filter = append(filter, leanStr("range "+norm(c.src(x.X))))
				for _, b := range x.Body.List {
					filter = append(filter, leanStr(norm(c.src(b))))
				}
				return false
			case *ast.AssignStmt:
				if len(x.Lhs) == 1 && c.src(x.Lhs[0]) == "newAliases" && len(x.Rhs) == 1 && strings.HasPrefix(c.src(x.Rhs[0]), "append(") && addExpr == "" {
					addExpr = norm(c.src(x.Rhs[0]))
				}
			}
			return true
		})
	}
	sb.WriteString("def updateAlias_removeFilter : List String := " + leanList(filter) + "\n")
	sb.WriteString("def updateAlias_addExpr : String := " + leanStr(addExpr) + "\n")
	sb.WriteString("\nend FxVerif.Gen.C08\n")
	c.write("C08.lean", sb.String())
	c.facts["C08.paths"] = facts
}
