package main

import (
	"fmt"
	"go/ast"
	"go/parser"
	"go/token"
	"os"
	"path/filepath"
	"strings"
)

// C19, third part: HOW an acknowledgement is classified.
//
// The acknowledgement a counterparty writes is a protobuf oneof { bytes result; string error } in its JSON form; what the
// sending chain does with it is decided twice: by the ICS-20 transfer application (un-escrow / re-mint: "the transfer
// failed") and by the middleware's keeper hook (convert the refund back to ERC-20 and drop the tracking record, or only
// drop the record).  Both decisions are translated, statement by statement, into a DECISION PROGRAM: a list of
// (condition over the decoded acknowledgement, keeper calls made on that path), the conditions being mutually exclusive
// by construction (an `if` without `else` contributes `not cond` to everything after it, the `default` clause of a type
// switch is the conjunction of the negated cases).  The Lean model interprets both programs on every wire shape of an
// acknowledgement; the theorems demand that they agree.
//
//   ackDecision      Keeper.OnAcknowledgementPacket of x/ibc/middleware/keeper (this repository)
//   appAckDecision   Keeper.OnAcknowledgementPacket of ibc-go's transfer application (module cache, version of go.mod)
//   ackMiddlewareSteps / timeoutMiddlewareSteps   order of "application", "decode", "hook" in IBCMiddleware

type ackBr struct {
	cond  string
	calls []string
	term  bool
}

type ackTr struct {
	c     *ctxT
	ack   string            // name of the acknowledgement parameter
	alias map[string]string // local variable -> source of the expression it was bound to
	roots []string
}

func (t *ackTr) subst(e ast.Expr) string {
	s := t.c.src(e)
	if v, ok := t.alias[s]; ok {
		return v
	}
	return s
}

// atom: what an expression over the acknowledgement denotes ("err-text", "res-bytes", "")
func (t *ackTr) atom(e ast.Expr) string {
	switch t.subst(e) {
	case t.ack + ".GetError()":
		return "err"
	case t.ack + ".GetResult()":
		return "res"
	}
	return ""
}

func (t *ackTr) typeCond(e ast.Expr) string {
	s := t.c.src(e)
	switch {
	case strings.HasSuffix(s, "Acknowledgement_Error"):
		return ".isError"
	case strings.HasSuffix(s, "Acknowledgement_Result"):
		return ".isResult"
	case s == "nil":
		return ".isUnset"
	}
	return "(.unknown " + leanStr(s) + ")"
}

func isIntLit(e ast.Expr, v string) bool {
	bl, ok := e.(*ast.BasicLit)
	return ok && bl.Kind == token.INT && bl.Value == v
}

func isEmptyStr(e ast.Expr) bool {
	bl, ok := e.(*ast.BasicLit)
	return ok && bl.Kind == token.STRING && (bl.Value == `""` || bl.Value == "``")
}

func (t *ackTr) cond(e ast.Expr) string {
	unknown := func() string { return "(.unknown " + leanStr(t.c.src(e)) + ")" }
	ne := func(a string) string {
		if a == "err" {
			return ".errNonEmpty"
		}
		return ".resNonEmpty"
	}
	switch x := e.(type) {
	case *ast.ParenExpr:
		return t.cond(x.X)
	case *ast.Ident:
		if v, ok := t.alias[x.Name]; ok && strings.HasPrefix(v, "cond:") {
			return strings.TrimPrefix(v, "cond:")
		}
		if x.Name == "true" {
			return ".tt"
		}
	case *ast.UnaryExpr:
		if x.Op == token.NOT {
			return "(.not " + t.cond(x.X) + ")"
		}
	case *ast.CallExpr:
		if t.c.src(x.Fun) == t.ack+".Success" && len(x.Args) == 0 {
			return ".success"
		}
	case *ast.BinaryExpr:
		switch x.Op {
		case token.LAND:
			return "(.and " + t.cond(x.X) + " " + t.cond(x.Y) + ")"
		case token.LOR:
			return "(.or " + t.cond(x.X) + " " + t.cond(x.Y) + ")"
		}
		// len(X) > 0, len(X) != 0, 0 < len(X), len(X) == 0, X != "", X == "", ack.Response == nil / != nil
		lenOf := func(y ast.Expr) string {
			if ce, ok := y.(*ast.CallExpr); ok && t.c.src(ce.Fun) == "len" && len(ce.Args) == 1 {
				return t.atom(ce.Args[0])
			}
			return ""
		}
		if a := lenOf(x.X); a != "" && isIntLit(x.Y, "0") {
			switch x.Op {
			case token.GTR, token.NEQ:
				return ne(a)
			case token.EQL, token.LEQ:
				return "(.not " + ne(a) + ")"
			}
		}
		if a := lenOf(x.Y); a != "" && isIntLit(x.X, "0") {
			switch x.Op {
			case token.LSS, token.NEQ:
				return ne(a)
			case token.EQL, token.GEQ:
				return "(.not " + ne(a) + ")"
			}
		}
		if a := t.atom(x.X); a == "err" && isEmptyStr(x.Y) {
			switch x.Op {
			case token.NEQ:
				return ne(a)
			case token.EQL:
				return "(.not " + ne(a) + ")"
			}
		}
		if a := t.atom(x.Y); a == "err" && isEmptyStr(x.X) {
			switch x.Op {
			case token.NEQ:
				return ne(a)
			case token.EQL:
				return "(.not " + ne(a) + ")"
			}
		}
		if t.subst(x.X) == t.ack+".Response" && t.c.src(x.Y) == "nil" {
			switch x.Op {
			case token.EQL:
				return ".isUnset"
			case token.NEQ:
				return "(.not .isUnset)"
			}
		}
	}
	return unknown()
}

// mentionsAck: does the expression (after alias substitution of its identifiers) talk about the acknowledgement
func (t *ackTr) mentionsAck(n ast.Node) bool {
	found := false
	ast.Inspect(n, func(m ast.Node) bool {
		if id, ok := m.(*ast.Ident); ok {
			if id.Name == t.ack {
				found = true
			}
			if _, ok := t.alias[id.Name]; ok {
				found = true
			}
		}
		return !found
	})
	return found
}

// bind records `x := <expr over ack>` and `_, ok := ack.Response.(*T)`
func (t *ackTr) bind(st ast.Stmt) {
	as, ok := st.(*ast.AssignStmt)
	if !ok || as.Tok != token.DEFINE {
		return
	}
	// only a pure expression rooted at the acknowledgement (ack.GetError(), ack.Response, …) becomes an alias
	if len(as.Lhs) == 1 && len(as.Rhs) == 1 && strings.HasPrefix(t.c.src(as.Rhs[0]), t.ack+".") {
		t.alias[t.c.src(as.Lhs[0])] = t.subst(as.Rhs[0])
	}
	if len(as.Lhs) == 2 && len(as.Rhs) == 1 {
		if ta, ok := as.Rhs[0].(*ast.TypeAssertExpr); ok && ta.Type != nil && t.subst(ta.X) == t.ack+".Response" {
			t.alias[t.c.src(as.Lhs[1])] = "cond:" + t.typeCond(ta.Type)
		}
	}
}

func and(a, b string) string {
	switch {
	case a == ".tt":
		return b
	case b == ".tt":
		return a
	}
	return "(.and " + a + " " + b + ")"
}

// prog translates a statement list into exclusive branches
func (t *ackTr) prog(stmts []ast.Stmt) []ackBr {
	var pre []string
	seq := func(brs []ackBr, rest []ast.Stmt) []ackBr {
		// every non-terminating branch continues with the rest of the list
		var out []ackBr
		var restBrs []ackBr
		for _, b := range brs {
			if b.term {
				out = append(out, ackBr{b.cond, append(append([]string{}, pre...), b.calls...), true})
				continue
			}
			if restBrs == nil {
				restBrs = t.prog(rest)
			}
			for _, r := range restBrs {
				calls := append(append(append([]string{}, pre...), b.calls...), r.calls...)
				out = append(out, ackBr{and(b.cond, r.cond), calls, r.term})
			}
		}
		return out
	}
	for i, st := range stmts {
		switch x := st.(type) {
		case *ast.TypeSwitchStmt:
			// switch [v :=] ack.Response.(type)
			var ta *ast.TypeAssertExpr
			switch a := x.Assign.(type) {
			case *ast.ExprStmt:
				ta, _ = a.X.(*ast.TypeAssertExpr)
			case *ast.AssignStmt:
				if len(a.Rhs) == 1 {
					ta, _ = a.Rhs[0].(*ast.TypeAssertExpr)
				}
			}
			if ta == nil || t.subst(ta.X) != t.ack+".Response" {
				pre = append(pre, t.c.selCalls(st, t.roots...)...)
				continue
			}
			var brs []ackBr
			neg := ".tt"
			var def *ast.CaseClause
			for _, cs := range x.Body.List {
				cc := cs.(*ast.CaseClause)
				if len(cc.List) == 0 {
					def = cc
					continue
				}
				cnd := ""
				for _, ty := range cc.List {
					if cnd == "" {
						cnd = t.typeCond(ty)
					} else {
						cnd = "(.or " + cnd + " " + t.typeCond(ty) + ")"
					}
				}
				neg = and(neg, "(.not "+cnd+")")
				for _, sb := range t.prog(cc.Body) {
					brs = append(brs, ackBr{and(cnd, sb.cond), sb.calls, sb.term})
				}
			}
			if def != nil {
				for _, sb := range t.prog(def.Body) {
					brs = append(brs, ackBr{and(neg, sb.cond), sb.calls, sb.term})
				}
			} else {
				brs = append(brs, ackBr{neg, nil, false})
			}
			return seq(brs, stmts[i+1:])
		case *ast.IfStmt:
			if x.Init != nil {
				t.bind(x.Init)
			}
			if !t.mentionsAck(x.Cond) {
				pre = append(pre, t.c.selCalls(st, t.roots...)...)
				continue
			}
			if x.Init != nil {
				pre = append(pre, t.c.selCalls(x.Init, t.roots...)...)
			}
			cnd := t.cond(x.Cond)
			var brs []ackBr
			for _, sb := range t.prog(x.Body.List) {
				brs = append(brs, ackBr{and(cnd, sb.cond), sb.calls, sb.term})
			}
			ncnd := "(.not " + cnd + ")"
			switch el := x.Else.(type) {
			case nil:
				brs = append(brs, ackBr{ncnd, nil, false})
			case *ast.BlockStmt:
				for _, sb := range t.prog(el.List) {
					brs = append(brs, ackBr{and(ncnd, sb.cond), sb.calls, sb.term})
				}
			default: // else if …
				for _, sb := range t.prog([]ast.Stmt{el}) {
					brs = append(brs, ackBr{and(ncnd, sb.cond), sb.calls, sb.term})
				}
			}
			return seq(brs, stmts[i+1:])
		case *ast.ReturnStmt:
			pre = append(pre, t.c.selCalls(st, t.roots...)...)
			return []ackBr{{".tt", pre, true}}
		default:
			t.bind(st)
			pre = append(pre, t.c.selCalls(st, t.roots...)...)
		}
	}
	return []ackBr{{".tt", pre, false}}
}

// ackParamName: the parameter of type …Acknowledgement
func (c *ctxT) ackParamName(fd *ast.FuncDecl) string {
	if fd == nil || fd.Type.Params == nil {
		return ""
	}
	for _, f := range fd.Type.Params.List {
		if strings.HasSuffix(c.src(f.Type), "Acknowledgement") && len(f.Names) > 0 {
			return f.Names[0].Name
		}
	}
	return ""
}

func (c *ctxT) c19AckProg(fd *ast.FuncDecl, roots ...string) []ackBr {
	if fd == nil || fd.Body == nil {
		return nil
	}
	t := &ackTr{c: c, ack: c.ackParamName(fd), alias: map[string]string{}, roots: roots}
	if t.ack == "" {
		return nil
	}
	return t.prog(fd.Body.List)
}

func leanAckProg(brs []ackBr) string {
	var xs []string
	for _, b := range brs {
		xs = append(xs, "("+b.cond+", "+leanStrs(b.calls)+")")
	}
	return "[" + strings.Join(xs, ", ") + "]"
}

// depFunc parses one file of a dependency (module cache) and returns the function
func (c *ctxT) depFunc(mod, rel, recv, name string) *ast.FuncDecl {
	dir := c.depDir(mod)
	if dir == "" {
		return nil
	}
	path := filepath.Join(dir, rel)
	if _, err := os.Stat(path); err != nil {
		return nil
	}
	f, err := parser.ParseFile(c.fset, path, nil, 0)
	if err != nil {
		return nil
	}
	for _, d := range f.Decls {
		if fd, ok := d.(*ast.FuncDecl); ok && fd.Name.Name == name && (recv == "*" || recvName(fd) == recv) {
			return fd
		}
	}
	return nil
}

// c19Steps: the order of "app" (the wrapped ICS-20 application), "decode-ack", "decode-data" and "hook" (the keeper) in a
// callback of IBCMiddleware, each with how its error is treated
func (c *ctxT) c19Steps(fd *ast.FuncDecl, method string) []string {
	var out []string
	if fd == nil {
		return out
	}
	for _, st := range fd.Body.List {
		s := c.src(st)
		treat := "ignored"
		if is, ok := st.(*ast.IfStmt); ok && is.Init != nil && strings.Contains(c.src(is.Cond), "err != nil") && endsWithReturn(is.Body) {
			treat = "returned"
			if strings.Contains(c.src(is.Body), "return nil") {
				treat = "swallowed"
			}
		}
		if _, ok := st.(*ast.ReturnStmt); ok {
			treat = "returned"
		}
		switch {
		case strings.Contains(s, "im.IBCModule."+method+"("):
			out = append(out, "app:"+treat)
		case strings.Contains(s, "im.Keeper."+method+"("):
			out = append(out, "hook:"+treat)
		case strings.Contains(s, "UnmarshalJSON(acknowledgement"):
			out = append(out, "decode-ack:"+treat)
		case strings.Contains(s, "bytes.Equal(") && strings.Contains(s, ".Acknowledgement()") && strings.Contains(s, "acknowledgement"):
			// canonical-encoding check: the decoded acknowledgement must re-marshal to the bytes that were relayed
			t := "ignored"
			if is, ok := st.(*ast.IfStmt); ok && strings.HasPrefix(strings.TrimSpace(c.src(is.Cond)), "!bytes.Equal(") && endsWithReturn(is.Body) && !strings.Contains(c.src(is.Body), "return nil") {
				t = "returned"
			}
			out = append(out, "canonical-ack:"+t)
		case strings.Contains(s, "UnmarshalJSON(packet.GetData()"):
			out = append(out, "decode-data:"+treat)
		}
	}
	return out
}

func (c *ctxT) c19Ack(sb *strings.Builder) {
	sb.WriteString(`/-- conditions over a decoded acknowledgement (translated from the Go AST): dynamic type of the oneof, emptiness of the
error text / result bytes, ` + "`ack.Success()`" + ` -/
inductive AckCond where
  | isError | isResult | isUnset | errNonEmpty | resNonEmpty | success
  | not (c : AckCond) | and (a b : AckCond) | or (a b : AckCond) | tt | unknown (src : String)
  deriving DecidableEq, Repr
`)
	fx := c.c19AckProg(c.findFunc("x/ibc/middleware/keeper", "Keeper", "OnAcknowledgementPacket"), "k")
	fmt.Fprintf(sb, "/-- Keeper.OnAcknowledgementPacket (x/ibc/middleware/keeper): exclusive paths as (condition, keeper calls in order) -/\ndef ackDecision : List (AckCond × List String) := %s\n", leanAckProg(fx))
	var fxFacts []string
	for _, b := range fx {
		fxFacts = append(fxFacts, b.cond+" => "+strings.Join(b.calls, ","))
	}
	c.facts["C19.ackDecision"] = fxFacts

	app := c.c19AckProg(c.depFunc("github.com/cosmos/ibc-go/v8", "modules/apps/transfer/keeper/relay.go", "Keeper", "OnAcknowledgementPacket"), "k")
	fmt.Fprintf(sb, "/-- Keeper.OnAcknowledgementPacket of the ibc-go transfer application (module cache, version of go.mod): the same translation; empty = source not found -/\ndef appAckDecision : List (AckCond × List String) := %s\n", leanAckProg(app))
	var appFacts []string
	for _, b := range app {
		appFacts = append(appFacts, b.cond+" => "+strings.Join(b.calls, ","))
	}
	c.facts["C19.appAckDecision"] = appFacts

	strs := func(name string, v []string, doc string) {
		fmt.Fprintf(sb, "/-- %s -/\ndef %s : List String := %s\n", doc, name, leanStrs(v))
		c.facts["C19."+name] = v
	}
	strs("ackMiddlewareSteps", c.c19Steps(c.findFunc("x/ibc/middleware", "IBCMiddleware", "OnAcknowledgementPacket"), "OnAcknowledgementPacket"),
		"IBCMiddleware.OnAcknowledgementPacket: its steps in order, each with how its error is treated")
	strs("timeoutMiddlewareSteps", c.c19Steps(c.findFunc("x/ibc/middleware", "IBCMiddleware", "OnTimeoutPacket"), "OnTimeoutPacket"),
		"IBCMiddleware.OnTimeoutPacket: its steps in order")
	// the same lists as (step, treatment) pairs: the model FOLDS over them (`runMw`)
	pairs := func(name string, v []string, doc string) {
		var xs []string
		for _, st := range v {
			k, t, _ := strings.Cut(st, ":")
			xs = append(xs, "("+leanStr(k)+", "+leanStr(t)+")")
		}
		fmt.Fprintf(sb, "/-- %s -/\ndef %s : List (String × String) := [%s]\n", doc, name, strings.Join(xs, ", "))
	}
	pairs("ackMiddlewareProg", c.c19Steps(c.findFunc("x/ibc/middleware", "IBCMiddleware", "OnAcknowledgementPacket"), "OnAcknowledgementPacket"),
		"IBCMiddleware.OnAcknowledgementPacket as a program: (step, how its error is treated) in statement order; interpreted by the model")
	pairs("timeoutMiddlewareProg", c.c19Steps(c.findFunc("x/ibc/middleware", "IBCMiddleware", "OnTimeoutPacket"), "OnTimeoutPacket"),
		"IBCMiddleware.OnTimeoutPacket as a program")
}
