package main

import (
	"fmt"
	"go/ast"
	"go/token"
	"path/filepath"
	"sort"
	"strconv"
	"strings"
)

// C03: for every type of x/crosschain/types that has a `ClaimHash` method, the `fmt.Sprintf` format string and
// argument expressions of the hashed path, emitted as a Lean function over the model's claim record (so the path
// the theorems talk about IS what the source says now), the list of hashed fields, the struct fields of the message
// (tx.pb.go) so that a field added to the message but not to the hash is visible, how the path is hashed, and the
// table chain name -> external address class (RegisterExternalAddress calls).
func init() { register(extractC03) }

const c03Pkg = "x/crosschain/types"

type c03Seg struct {
	Lit   string // literal text (when Verb == "")
	Verb  string // d, s, v, t, x, ...
	Field string // struct field
	Tag   string // Go type tag of the rendered expression
}

func c03TypeTag(src string) string {
	switch src {
	case "uint64":
		return "uint64"
	case "string":
		return "string"
	case "bool":
		return "bool"
	case "[]string":
		return "sliceString"
	case "cosmossdk_io_math.Int", "sdkmath.Int":
		return "Int"
	case "[]cosmossdk_io_math.Int", "[]sdkmath.Int":
		return "sliceInt"
	case "[]BridgeValidator":
		return "sliceBridgeValidator"
	}
	var sb strings.Builder
	for _, r := range src {
		if (r >= 'a' && r <= 'z') || (r >= 'A' && r <= 'Z') || (r >= '0' && r <= '9') {
			sb.WriteRune(r)
		} else {
			sb.WriteByte('_')
		}
	}
	return "T" + sb.String()
}

func c03CharList(s string) string {
	var xs []string
	for _, b := range []byte(s) {
		if b > 32 && b < 127 && b != '\'' && b != '\\' {
			xs = append(xs, "'"+string(rune(b))+"'")
		} else {
			xs = append(xs, fmt.Sprintf("Char.ofNat %d", b))
		}
	}
	return "[" + strings.Join(xs, ", ") + "]"
}

func extractC03(c *ctxT) {
	structs := c.structs(c03Pkg)
	type claimT struct {
		Name    string
		Segs    []c03Seg
		Format  string
		HashFn  string
		Where   string
		Fields  [][2]string
		Problem string
	}
	var claims []claimT
	for _, fd := range c.funcDecls(c03Pkg) {
		if fd.Name.Name != "ClaimHash" || fd.Recv == nil || fd.Body == nil {
			continue
		}
		cl := claimT{Name: recvName(fd), Where: c.pos(fd)}
		recvVar := ""
		if len(fd.Recv.List[0].Names) == 1 {
			recvVar = fd.Recv.List[0].Names[0].Name
		}
		st := structs[cl.Name]
		ftype := map[string]string{}
		if st != nil {
			for _, f := range st.Fields.List {
				for _, n := range f.Names {
					ftype[n.Name] = c.src(f.Type)
					cl.Fields = append(cl.Fields, [2]string{n.Name, c.src(f.Type)})
				}
			}
		}
		// the Sprintf call
		var call *ast.CallExpr
		ast.Inspect(fd.Body, func(n ast.Node) bool {
			if ce, ok := n.(*ast.CallExpr); ok && call == nil && c.src(ce.Fun) == "fmt.Sprintf" {
				call = ce
			}
			return true
		})
		// how the path is turned into the hash: the returned expression
		for _, s := range fd.Body.List {
			if r, ok := s.(*ast.ReturnStmt); ok && len(r.Results) == 1 {
				cl.HashFn = c.src(r.Results[0])
			}
		}
		if call == nil || len(call.Args) == 0 {
			cl.Problem = "no fmt.Sprintf call"
			claims = append(claims, cl)
			continue
		}
		lit, ok := call.Args[0].(*ast.BasicLit)
		if !ok || lit.Kind != token.STRING {
			cl.Problem = "format is not a string literal"
			claims = append(claims, cl)
			continue
		}
		format, err := strconv.Unquote(lit.Value)
		if err != nil {
			fail("C03: %s: cannot unquote format %s", cl.Where, lit.Value)
		}
		cl.Format = format
		args := call.Args[1:]
		ai := 0
		cur := ""
		flush := func() {
			if cur != "" {
				cl.Segs = append(cl.Segs, c03Seg{Lit: cur})
				cur = ""
			}
		}
		bs := []byte(format)
		for i := 0; i < len(bs); i++ {
			if bs[i] != '%' {
				cur += string(bs[i])
				continue
			}
			if i+1 < len(bs) && bs[i+1] == '%' {
				cur += "%"
				i++
				continue
			}
			// verb with optional flags/width: everything up to the first letter
			j := i + 1
			for j < len(bs) && !((bs[j] >= 'a' && bs[j] <= 'z') || (bs[j] >= 'A' && bs[j] <= 'Z')) {
				j++
			}
			if j >= len(bs) {
				cl.Problem = "dangling % in format"
				break
			}
			verb := string(bs[i+1 : j+1])
			verb = strings.NewReplacer("+", "plus", "#", "sharp", "-", "minus", " ", "sp", ".", "dot", "0", "zero").Replace(verb)
			flush()
			if ai >= len(args) {
				cl.Problem = "more verbs than arguments"
				break
			}
			seg := c03Seg{Verb: verb}
			a := args[ai]
			ai++
			// m.Field   |   m.Field.String()
			if se, ok := a.(*ast.SelectorExpr); ok && c.src(se.X) == recvVar {
				seg.Field = se.Sel.Name
				seg.Tag = c03TypeTag(ftype[se.Sel.Name])
			} else if ce, ok := a.(*ast.CallExpr); ok && len(ce.Args) == 0 {
				if se, ok := ce.Fun.(*ast.SelectorExpr); ok {
					if in, ok := se.X.(*ast.SelectorExpr); ok && c.src(in.X) == recvVar {
						seg.Field = in.Sel.Name
						seg.Tag = c03TypeTag(ftype[in.Sel.Name]) + se.Sel.Name
					}
				}
			}
			if seg.Field == "" {
				// an expression that is not a plain field: name it so that the Lean side does not compile
				seg.Field = "UNSUPPORTED"
				seg.Tag = c03TypeTag(c.src(a))
			}
			cl.Segs = append(cl.Segs, seg)
			i = j
		}
		flush()
		if cl.Problem == "" && ai != len(args) {
			cl.Problem = "more arguments than verbs"
		}
		claims = append(claims, cl)
	}
	if len(claims) == 0 {
		fail("C03: no ClaimHash methods found in %s", c03Pkg)
	}
	sort.Slice(claims, func(i, j int) bool { return claims[i].Name < claims[j].Name })

	var sb strings.Builder
	sb.WriteString("import FxVerif.Model.C03Fmt\n\n-- the generated `path` of each claim type lives in the namespace of the model's claim record (so `c.path` resolves)\nnamespace FxVerif.Model.C03\n\n")
	var names []string
	factClaims := map[string]any{}
	for _, cl := range claims {
		names = append(names, leanStr(cl.Name))
		fmt.Fprintf(&sb, "/-! ### %s  (%s)\n  format %s -/\n\n", cl.Name, cl.Where, strings.ReplaceAll(leanStr(cl.Format), "-/", "- /"))
		if cl.Problem != "" {
			fmt.Fprintf(&sb, "-- extractor: %s\n", cl.Problem)
		}
		// path function, right-nested: seg ++ (lit :: (seg ++ …))
		var hashed []string
		expr := ""
		for i := len(cl.Segs) - 1; i >= 0; i-- {
			s := cl.Segs[i]
			if s.Verb == "" {
				if expr == "" {
					expr = c03CharList(s.Lit)
				} else {
					cs := strings.TrimSuffix(strings.TrimPrefix(c03CharList(s.Lit), "["), "]")
					expr = strings.ReplaceAll(cs, ", ", " :: ") + " :: (" + expr + ")"
				}
			} else {
				f := fmt.Sprintf("fmt_%s_%s c.%s", s.Verb, s.Tag, s.Field)
				if expr == "" {
					expr = f
				} else {
					expr = f + "\n  ++ (" + expr + ")"
				}
				hashed = append([]string{leanStr(s.Field)}, hashed...)
			}
		}
		if expr == "" {
			expr = "[]"
		}
		fmt.Fprintf(&sb, "def %s.path (c : %s) : Str :=\n  %s\n\n", cl.Name, cl.Name, expr)
		fmt.Fprintf(&sb, "def %s.hashedFields : List String := %s\n\n", cl.Name, leanList(hashed))
		var sf []string
		for _, f := range cl.Fields {
			sf = append(sf, leanStr(f[0]))
		}
		fmt.Fprintf(&sb, "def %s.structFields : List String := %s\n\n", cl.Name, leanList(sf))
		fmt.Fprintf(&sb, "def %s.hashExpr : String := %s\n\n", cl.Name, leanStr(cl.HashFn))
		var fsegs []map[string]string
		for _, s := range cl.Segs {
			fsegs = append(fsegs, map[string]string{"lit": s.Lit, "verb": s.Verb, "field": s.Field, "tag": s.Tag})
		}
		factClaims[cl.Name] = map[string]any{"format": cl.Format, "segments": fsegs, "where": cl.Where, "hash": cl.HashFn, "fields": cl.Fields}
	}
	sb.WriteString("end FxVerif.Model.C03\n\nnamespace FxVerif.Gen.C03\nopen FxVerif.Model.C03\n\n")
	fmt.Fprintf(&sb, "/-- every type with a `ClaimHash` method -/\ndef claimTypes : List String := %s\n\n", leanList(names))

	// chain table
	type chainT struct{ name, kind, where string }
	var chains []chainT
	keyFiles, _ := filepath.Glob(filepath.Join(c.repo, "x", "*", "types"))
	sort.Strings(keyFiles)
	for _, dir := range keyFiles {
		rel, _ := filepath.Rel(c.repo, dir)
		p := c.pkg(rel)
		consts := map[string]string{}
		for _, fn := range sortedKeys(p) {
			for _, d := range p[fn].Decls {
				gd, ok := d.(*ast.GenDecl)
				if !ok || gd.Tok != token.CONST {
					continue
				}
				for _, sp := range gd.Specs {
					vs := sp.(*ast.ValueSpec)
					for i, n := range vs.Names {
						if i < len(vs.Values) {
							if bl, ok := vs.Values[i].(*ast.BasicLit); ok && bl.Kind == token.STRING {
								consts[n.Name], _ = strconv.Unquote(bl.Value)
							}
						}
					}
				}
			}
		}
		for _, fn := range sortedKeys(p) {
			ast.Inspect(p[fn], func(n ast.Node) bool {
				ce, ok := n.(*ast.CallExpr)
				if !ok || len(ce.Args) != 2 {
					return true
				}
				f := c.src(ce.Fun)
				if f != "crosschaintypes.RegisterExternalAddress" && f != "RegisterExternalAddress" {
					return true
				}
				name := c.src(ce.Args[0])
				if v, ok := consts[name]; ok {
					name = v
				} else if bl, ok := ce.Args[0].(*ast.BasicLit); ok {
					name, _ = strconv.Unquote(bl.Value)
				} else {
					return true // the declaration of RegisterExternalAddress itself, or a non-constant name
				}
				kind := "other"
				switch c.src(ce.Args[1]) {
				case "crosschaintypes.EthereumAddress{}", "EthereumAddress{}":
					kind = "eth"
				case "tronAddress{}":
					kind = "tron"
				}
				chains = append(chains, chainT{name, kind, c.pos(ce)})
				return true
			})
		}
	}
	sort.Slice(chains, func(i, j int) bool { return chains[i].name < chains[j].name })
	sb.WriteString("/-- chain name → external address class (`RegisterExternalAddress` calls) -/\ndef chains : List (String × AddrKind) := [\n")
	var fchains []map[string]string
	for i, ch := range chains {
		sep := ","
		if i == len(chains)-1 {
			sep = ""
		}
		fmt.Fprintf(&sb, "  (%s, .%s)%s  -- %s\n", leanStr(ch.name), ch.kind, sep, ch.where)
		fchains = append(fchains, map[string]string{"name": ch.name, "kind": ch.kind})
	}
	sb.WriteString("]\n\nend FxVerif.Gen.C03\n")
	c.write("C03.lean", sb.String())
	c.facts["C03.claims"] = factClaims
	c.facts["C03.chains"] = fchains
}
