package main

import (
	"fmt"
	"go/ast"
	"go/token"
	"path/filepath"
	"regexp"
	"sort"
	"strconv"
	"strings"
)

// C03: for every type of x/crosschain/types that has a `ClaimHash` method
//   - the hashed path as a Lean function over the model's claim record: the `fmt.Sprintf` format string and its argument
//     EXPRESSIONS, translated structurally (receiver fields, local variables, calls of package functions and methods such
//     as `strings.ToLower(m.X)` or `fxtypes.ParseFxTarget(m.TargetIbc, true).GetTarget()`, string concatenation,
//     conversions).  Functions are emitted by name (`Go.<pkg>_<Func>`, `Go.<pkg>_<Type>_<Method>`); the ones that
//     lean/FxVerif/Model/C03Go.lean models make the generated file compile, so that the model follows the code, the
//     driver can still be compared with the real ClaimHash and the injectivity PROOF breaks; an unmodelled function makes
//     the generated file itself fail to compile;
//   - the list of hashed fields (every receiver field mentioned in an argument), the struct fields of the message
//     (tx.pb.go), how the path is hashed, statements of ClaimHash that are not modelled;
//   - `validGen`: the syntactic part of the type's `ValidateBasic` (source order, `validateBasic` helpers inlined),
//     recognised check by check; an unrecognised statement is dropped (that only enlarges the valid set: sound for the
//     theorems) and listed under `unmodelledChecks`;
//   - `readFields`: the fields of the claim that x/crosschain/keeper reads while executing it (selectors and methods on
//     every parameter / type-switch binding of that claim type, methods followed into x/crosschain/types);
// plus the table chain name -> external address class (RegisterExternalAddress calls).
func init() { register(extractC03) }

const (
	c03Pkg    = "x/crosschain/types"
	c03Keeper = "x/crosschain/keeper"
)

type c03Seg struct {
	Lit    string   // literal text (when Verb == "")
	Verb   string   // d, s, v, t, x, ...
	Field  string   // principal struct field ("" when the argument mentions none)
	Fields []string // every receiver field mentioned by the argument
	Tag    string   // Go type tag of the rendered expression
	Lean   string   // Lean term of the argument
	Src    string   // Go source of the argument
	Plain  bool     // the argument is a plain receiver field (or field.String() of an Int)
	Opaque bool     // the argument could not be modelled: rendered by the opaque `Go.unmodelledStr`
}

func c03TypeTag(src string) string {
	switch src {
	case "uint64":
		return "uint64"
	case "string":
		return "string"
	case "bool":
		return "bool"
	case "int":
		return "int"
	case "[]string":
		return "sliceString"
	case "cosmossdk_io_math.Int", "sdkmath.Int":
		return "Int"
	case "[]cosmossdk_io_math.Int", "[]sdkmath.Int":
		return "sliceInt"
	case "[]BridgeValidator":
		return "sliceBridgeValidator"
	case "":
		return "Tunknown"
	}
	return "T" + c03San(src)
}

func c03San(src string) string {
	var sb strings.Builder
	for _, r := range src {
		if (r >= 'a' && r <= 'z') || (r >= 'A' && r <= 'Z') || (r >= '0' && r <= '9') {
			sb.WriteRune(r)
		} else {
			sb.WriteByte('_')
		}
	}
	return sb.String()
}

func c03CharList(s string) string {
	var xs []string
	for _, b := range []byte(s) {
		if b > 32 && b < 127 && b != '\'' && b != '\\' {
			xs = append(xs, "'"+string(rune(b))+"'")
		} else {
			xs = append(xs, fmt.Sprintf("Char.ofNat %d", b))
		}
	}
	return "[" + strings.Join(xs, ", ") + "]"
}

// ---------------------------------------------------------------------------------------------------------
// expression translator

type c03Val struct {
	Lean   string
	Type   string // Go type source; "@<rel>#<T>" for a named type of the repository; "" unknown
	Fields []string
	Plain  string // name of the receiver field when the expression is exactly that field
	Segs   []c03Seg
	Format string
}

type c03Tr struct {
	c       *ctxT
	rel     string
	imports map[string]string
	recvVar string
	ftype   map[string]string
	env     map[string]c03Val
}

// result types of the non-repository functions and methods an argument may plausibly go through
var c03ExtResult = map[string]string{
	"strings.ToLower": "string", "strings.ToUpper": "string", "strings.TrimSpace": "string", "strings.TrimPrefix": "string",
	"strings.TrimSuffix": "string", "strings.Trim": "string", "strings.TrimLeft": "string", "strings.TrimRight": "string",
	"strings.Join": "string", "strings.ReplaceAll": "string", "strings.Replace": "string", "strings.Title": "string",
	"strings.Repeat": "string", "strings.ToTitle": "string", "strings.Fields": "[]string", "strings.Split": "[]string",
	"encoding/hex.EncodeToString": "string", "encoding/hex.DecodeString": "[]byte",
	"strconv.Itoa": "string", "strconv.FormatUint": "string", "strconv.FormatInt": "string", "strconv.FormatBool": "string", "strconv.Quote": "string",
	"fmt.Sprint": "string", "fmt.Sprintf": "string",
	"github.com/ethereum/go-ethereum/common.HexToAddress":   "common.Address",
	"github.com/ethereum/go-ethereum/common.BytesToAddress": "common.Address",
	"github.com/ethereum/go-ethereum/common.HexToHash":      "common.Hash",
	"github.com/ethereum/go-ethereum/common.Bytes2Hex":      "string",
	"github.com/ethereum/go-ethereum/common.FromHex":        "[]byte",
	"common.Address.Hex": "string", "common.Address.String": "string", "common.Address.Bytes": "[]byte",
	"common.Hash.Hex": "string", "common.Hash.String": "string", "common.Hash.Bytes": "[]byte",
	"Int.String": "string", "Int.Uint64": "uint64", "Int.Int64": "int64", "Int.BigInt": "*big.Int", "Int.Abs": "Int", "Int.IsNil": "bool",
	"*big.Int.String": "string", "*big.Int.Uint64": "uint64", "*big.Int.Int64": "int64", "*big.Int.Text": "string", "*big.Int.Bytes": "[]byte",
	"path.Join": "string", "path.Clean": "string", "path/filepath.Join": "string",
}

// the functions lean/FxVerif/Model/C03Go.lean (and C03Fmt.lean) define — keep in sync.  A generated term that mentions
// anything else is replaced by the opaque-but-compilable `Go.unmodelledStr "<go source>"`, so that Gen/C03.lean always
// compiles: the driver then disagrees with the real hash and the proofs (not the Lean build of Gen) stop checking
var c03Modelled = map[string]bool{
	"strings_ToLower": true, "strings_ToUpper": true, "strings_HasPrefix": true, "strings_HasSuffix": true, "strings_TrimPrefix": true,
	"strings_TrimSuffix": true, "strings_TrimSpace": true, "strings_Split": true, "strings_Join": true, "hex_DecodeString": true,
	"hex_EncodeToString": true, "math_Int_String": true, "conv_string": true, "conv___byte": true, "len": true,
	"types_ParseFxTarget": true, "types_FxTarget_GetTarget": true, "types_FxTarget_String": true, "types_FxTarget_IsIBC": true,
	"types_FxTarget_IBCValidate": true, "concatMap": true, "joinMap": true, "unmodelledStr": true, "unmodelledList": true, "strconv_FormatUint": true,
	"strconv_Itoa": true,
}

var c03FmtModelled = map[string]bool{
	"fmt_d_uint64": true, "fmt_s_string": true, "fmt_v_string": true, "fmt_x_string": true, "fmt_t_bool": true, "fmt_s_IntString": true,
	"fmt_v_IntString": true, "fmt_s_sliceString": true, "fmt_v_sliceString": true, "fmt_v_sliceInt": true, "fmt_s_sliceInt": true,
	"fmt_v_sliceBridgeValidator": true, "fmt_v_bool": true, "fmt_v_uint64": true, "fmt_d_int": true, "fmt_v_int": true, "fmt_x_uint64": true,
}

var c03ReGoName = regexp.MustCompile(`Go\.([A-Za-z0-9_]+)`)
var c03ReFmtName = regexp.MustCompile(`\bfmt_[A-Za-z0-9_]+`)

// c03Compilable: does the term only mention modelled functions
func c03Compilable(term string) bool {
	for _, m := range c03ReGoName.FindAllStringSubmatch(term, -1) {
		if !c03Modelled[m[1]] {
			return false
		}
	}
	for _, m := range c03ReFmtName.FindAllString(term, -1) {
		if !c03FmtModelled[m] {
			return false
		}
	}
	return true
}

func c03Opaque(src string) string {
	return "Go.unmodelledStr " + leanStr(strings.Join(strings.Fields(src), " "))
}

func c03IsBuilder(t string) bool { return t == "strings.Builder" || t == "bytes.Buffer" }

func c03IsInt(t string) bool { return t == "cosmossdk_io_math.Int" || t == "sdkmath.Int" || t == "Int" }

func c03Union(a, b []string) []string {
	seen := map[string]bool{}
	var out []string
	for _, x := range append(append([]string{}, a...), b...) {
		if !seen[x] {
			seen[x] = true
			out = append(out, x)
		}
	}
	return out
}

func (x *c03Tr) unsupported(e ast.Node, why string) c03Val {
	return c03Val{Lean: "Go.UNSUPPORTED_" + c03San(why) + "_" + c03San(x.c.src(e)), Type: ""}
}

// resultOf returns the (first) result type of a function or method declared in a repository package
func (x *c03Tr) repoResult(rel, recv, name string) (string, bool) {
	fd := x.c.findFunc(rel, recv, name)
	if fd == nil || fd.Type.Results == nil || len(fd.Type.Results.List) == 0 {
		return "", false
	}
	t := fd.Type.Results.List[0].Type
	src := x.c.src(t)
	if id, ok := t.(*ast.Ident); ok && x.c.structs(rel)[id.Name] != nil {
		return "@" + rel + "#" + id.Name, true
	}
	if st, ok := t.(*ast.StarExpr); ok {
		if id, ok := st.X.(*ast.Ident); ok && x.c.structs(rel)[id.Name] != nil {
			return "@" + rel + "#" + id.Name, true
		}
	}
	return src, true
}

func (x *c03Tr) args(as []ast.Expr) (string, []string) {
	var sb strings.Builder
	var fields []string
	for _, a := range as {
		v := x.expr(a)
		sb.WriteString(" " + c03Paren(v.Lean))
		fields = c03Union(fields, v.Fields)
	}
	return sb.String(), fields
}

func c03Paren(s string) string {
	if strings.ContainsAny(s, " \n") && !(strings.HasPrefix(s, "[") && strings.HasSuffix(s, "]") && !strings.Contains(s, "++")) {
		return "(" + s + ")"
	}
	return s
}

func (x *c03Tr) expr(e ast.Expr) c03Val {
	c := x.c
	switch n := e.(type) {
	case *ast.ParenExpr:
		return x.expr(n.X)
	case *ast.BasicLit:
		switch n.Kind {
		case token.STRING:
			s, err := strconv.Unquote(n.Value)
			if err != nil {
				return x.unsupported(e, "literal")
			}
			return c03Val{Lean: c03CharList(s), Type: "string"}
		case token.INT:
			return c03Val{Lean: n.Value, Type: "int"}
		case token.CHAR:
			s, err := strconv.Unquote(n.Value)
			if err != nil || len(s) != 1 {
				return x.unsupported(e, "literal")
			}
			return c03Val{Lean: fmt.Sprintf("(Char.ofNat %d)", s[0]), Type: "byte"}
		}
		return x.unsupported(e, "literal")
	case *ast.Ident:
		switch n.Name {
		case "true", "false":
			return c03Val{Lean: n.Name, Type: "bool"}
		}
		if v, ok := x.env[n.Name]; ok {
			return v
		}
		return x.unsupported(e, "identifier")
	case *ast.SelectorExpr:
		if id, ok := n.X.(*ast.Ident); ok && id.Name == x.recvVar {
			if t, ok := x.ftype[n.Sel.Name]; ok {
				return c03Val{Lean: "c." + n.Sel.Name, Type: t, Fields: []string{n.Sel.Name}, Plain: n.Sel.Name}
			}
			return x.unsupported(e, "no_such_field")
		}
		if id, ok := n.X.(*ast.Ident); ok {
			if _, isPkg := x.imports[id.Name]; isPkg {
				if _, shadow := x.env[id.Name]; !shadow {
					// a package-level constant or variable
					return c03Val{Lean: "Go." + c03San(x.pkgKey(id.Name)) + "_" + n.Sel.Name, Type: ""}
				}
			}
		}
		v := x.expr(n.X)
		if strings.HasPrefix(v.Type, "@") {
			rel, tn := c03Split(v.Type)
			if st := c.structs(rel)[tn]; st != nil {
				for _, f := range st.Fields.List {
					for _, fn := range f.Names {
						if fn.Name == n.Sel.Name {
							return c03Val{Lean: c03Paren(v.Lean) + "." + n.Sel.Name, Type: c.src(f.Type), Fields: v.Fields}
						}
					}
				}
			}
		}
		return c03Val{Lean: "Go.field_" + n.Sel.Name + " " + c03Paren(v.Lean), Type: "", Fields: v.Fields}
	case *ast.BinaryExpr:
		if n.Op == token.ADD {
			a, b := x.expr(n.X), x.expr(n.Y)
			if a.Type == "string" && b.Type == "string" {
				return c03Val{Lean: c03Paren(a.Lean) + " ++ " + c03Paren(b.Lean), Type: "string", Fields: c03Union(a.Fields, b.Fields)}
			}
		}
		return x.unsupported(e, "operator")
	case *ast.CallExpr:
		return x.call(n)
	}
	return x.unsupported(e, "expression")
}

func c03Split(t string) (string, string) {
	t = strings.TrimPrefix(t, "@")
	i := strings.LastIndex(t, "#")
	return t[:i], t[i+1:]
}

// pkgKey names a package in generated identifiers: repository packages by their directory, others by the last path element
func (x *c03Tr) pkgKey(alias string) string {
	p := x.imports[alias]
	if strings.HasPrefix(p, modPath) {
		return strings.TrimPrefix(p, modPath)
	}
	return p[strings.LastIndex(p, "/")+1:]
}

func (x *c03Tr) call(n *ast.CallExpr) c03Val {
	c := x.c
	// conversions
	switch f := n.Fun.(type) {
	case *ast.ArrayType:
		if len(n.Args) == 1 {
			v := x.expr(n.Args[0])
			return c03Val{Lean: "Go.conv_" + c03San(c.src(f)) + " " + c03Paren(v.Lean), Type: c.src(f), Fields: v.Fields}
		}
	case *ast.Ident:
		if _, local := x.env[f.Name]; !local {
			switch f.Name {
			case "string", "uint64", "int64", "int", "uint32", "uint8", "byte":
				if len(n.Args) == 1 {
					v := x.expr(n.Args[0])
					return c03Val{Lean: "Go.conv_" + f.Name + " " + c03Paren(v.Lean), Type: f.Name, Fields: v.Fields}
				}
			case "len":
				if len(n.Args) == 1 {
					v := x.expr(n.Args[0])
					return c03Val{Lean: "Go.len " + c03Paren(v.Lean), Type: "int", Fields: v.Fields}
				}
			case "make":
				// make([]string, 0[, n]): the empty list of texts (a list accumulator, see rangeLoop)
				if len(n.Args) >= 2 && c.src(n.Args[0]) == "[]string" && c.src(n.Args[1]) == "0" {
					return c03Val{Lean: c03EmptyList, Type: "[]string"}
				}
			}
			// a function of the same package
			as, fs := x.args(n.Args)
			t, _ := x.repoResult(x.rel, "", f.Name)
			return c03Val{Lean: "Go." + c03San(x.rel) + "_" + f.Name + as, Type: t, Fields: fs}
		}
	case *ast.SelectorExpr:
		if id, ok := f.X.(*ast.Ident); ok {
			if ip, isPkg := x.imports[id.Name]; isPkg && id.Name != x.recvVar {
				if _, shadow := x.env[id.Name]; !shadow {
					if ip == "fmt" && f.Sel.Name == "Sprintf" {
						return x.sprintf(n)
					}
					as, fs := x.args(n.Args)
					var t string
					if strings.HasPrefix(ip, modPath) {
						t, _ = x.repoResult(strings.TrimPrefix(ip, modPath), "", f.Sel.Name)
					} else {
						t = c03ExtResult[ip+"."+f.Sel.Name]
					}
					return c03Val{Lean: "Go." + c03San(x.pkgKey(id.Name)) + "_" + f.Sel.Name + as, Type: t, Fields: fs}
				}
			}
			if id.Name == x.recvVar {
				// generated protobuf getter m.GetF() == m.F
				if strings.HasPrefix(f.Sel.Name, "Get") && len(n.Args) == 0 {
					if t, ok := x.ftype[strings.TrimPrefix(f.Sel.Name, "Get")]; ok {
						fn := strings.TrimPrefix(f.Sel.Name, "Get")
						return c03Val{Lean: "c." + fn, Type: t, Fields: []string{fn}, Plain: fn}
					}
				}
				// another method of the claim itself: not followed
				as, fs := x.args(n.Args)
				return c03Val{Lean: "Go.claim_method_" + f.Sel.Name + " c" + as, Type: "", Fields: append(fs, "*"+f.Sel.Name)}
			}
		}
		// method call on an expression
		recv := x.expr(f.X)
		if c03IsBuilder(recv.Type) && f.Sel.Name == "String" && len(n.Args) == 0 {
			return c03Val{Lean: recv.Lean, Type: "string", Fields: recv.Fields}
		}
		as, fs := x.args(n.Args)
		fs = c03Union(recv.Fields, fs)
		switch {
		case strings.HasPrefix(recv.Type, "@"):
			rel, tn := c03Split(recv.Type)
			t, _ := x.repoResult(rel, tn, f.Sel.Name)
			return c03Val{Lean: "Go." + c03San(rel) + "_" + tn + "_" + f.Sel.Name + " " + c03Paren(recv.Lean) + as, Type: t, Fields: fs}
		case c03IsInt(recv.Type):
			return c03Val{Lean: "Go.math_Int_" + f.Sel.Name + " " + c03Paren(recv.Lean) + as, Type: c03ExtResult["Int."+f.Sel.Name], Fields: fs}
		case recv.Type != "":
			return c03Val{Lean: "Go." + c03San(recv.Type) + "_" + f.Sel.Name + " " + c03Paren(recv.Lean) + as, Type: c03ExtResult[recv.Type+"."+f.Sel.Name], Fields: fs}
		}
		return c03Val{Lean: "Go.method_" + f.Sel.Name + " " + c03Paren(recv.Lean) + as, Type: "", Fields: fs}
	}
	return x.unsupported(n, "call")
}

// sprintf translates fmt.Sprintf(<literal>, args...) into the right-nested concatenation seg ++ (lit :: (seg ++ …))
func (x *c03Tr) sprintf(call *ast.CallExpr) c03Val {
	c := x.c
	if len(call.Args) == 0 {
		return x.unsupported(call, "sprintf")
	}
	lit, ok := call.Args[0].(*ast.BasicLit)
	if !ok || lit.Kind != token.STRING {
		return x.unsupported(call, "format_is_not_a_string_literal")
	}
	format, err := strconv.Unquote(lit.Value)
	if err != nil {
		return x.unsupported(call, "format")
	}
	args := call.Args[1:]
	var segs []c03Seg
	ai := 0
	cur := ""
	flush := func() {
		if cur != "" {
			segs = append(segs, c03Seg{Lit: cur})
			cur = ""
		}
	}
	bs := []byte(format)
	for i := 0; i < len(bs); i++ {
		if bs[i] != '%' {
			cur += string(bs[i])
			continue
		}
		if i+1 < len(bs) && bs[i+1] == '%' {
			cur += "%"
			i++
			continue
		}
		// verb with optional flags/width: everything up to the first letter
		j := i + 1
		for j < len(bs) && !((bs[j] >= 'a' && bs[j] <= 'z') || (bs[j] >= 'A' && bs[j] <= 'Z')) {
			j++
		}
		if j >= len(bs) {
			return x.unsupported(call, "dangling_percent_in_format")
		}
		verb := string(bs[i+1 : j+1])
		verb = strings.NewReplacer("+", "plus", "#", "sharp", "-", "minus", " ", "sp", ".", "dot", "0", "zero").Replace(verb)
		flush()
		if ai >= len(args) {
			return x.unsupported(call, "more_verbs_than_arguments")
		}
		a := args[ai]
		ai++
		seg := c03Seg{Verb: verb, Src: c.src(a)}
		v := x.expr(a)
		seg.Fields = v.Fields
		if len(v.Fields) > 0 {
			seg.Field = v.Fields[0]
		}
		seg.Lean, seg.Tag = v.Lean, c03TypeTag(v.Type)
		if v.Plain != "" {
			seg.Plain = true
		}
		// m.F.String() of an sdkmath.Int field: the long-standing combined renderer
		if ce, ok := a.(*ast.CallExpr); ok && len(ce.Args) == 0 {
			if se, ok := ce.Fun.(*ast.SelectorExpr); ok && se.Sel.Name == "String" {
				if r := x.expr(se.X); r.Plain != "" && c03IsInt(r.Type) {
					seg.Lean, seg.Tag, seg.Plain = r.Lean, "IntString", true
				}
			}
		}
		if !c03Compilable(fmt.Sprintf("fmt_%s_%s %s", seg.Verb, seg.Tag, seg.Lean)) {
			// the argument goes through something that is not modelled: an opaque string, so that the file still compiles
			seg.Lean, seg.Tag, seg.Verb, seg.Plain, seg.Opaque = c03Opaque(seg.Src), "string", "s", false, true
		}
		segs = append(segs, seg)
		i = j
	}
	flush()
	if ai != len(args) {
		return x.unsupported(call, "more_arguments_than_verbs")
	}
	expr := ""
	var fields []string
	for i := len(segs) - 1; i >= 0; i-- {
		s := segs[i]
		if s.Verb == "" {
			if expr == "" {
				expr = c03CharList(s.Lit)
			} else {
				cs := strings.TrimSuffix(strings.TrimPrefix(c03CharList(s.Lit), "["), "]")
				expr = strings.ReplaceAll(cs, ", ", " :: ") + " :: (" + expr + ")"
			}
		} else {
			f := fmt.Sprintf("fmt_%s_%s %s", s.Verb, s.Tag, c03Paren(s.Lean))
			if expr == "" {
				expr = f
			} else {
				expr = f + "\n  ++ (" + expr + ")"
			}
		}
	}
	for _, s := range segs {
		fields = c03Union(fields, s.Fields)
	}
	if expr == "" {
		expr = "[]"
	}
	return c03Val{Lean: expr, Type: "string", Fields: fields, Segs: segs, Format: format}
}

// ---------------------------------------------------------------------------------------------------------
// statements of a ClaimHash body: local definitions, string builders, loops that write list elements into a builder

func (x *c03Tr) firstLine(n ast.Node) string { return strings.SplitN(x.c.src(n), "\n", 2)[0] }

// builderWrite recognises b.WriteString(e) / b.WriteByte(c) / b.WriteRune(c) / fmt.Fprintf(&b, format, args...) on a
// known builder and returns the builder's name and the Lean term of what is appended
func (x *c03Tr) builderWrite(s ast.Stmt) (string, c03Val, bool) {
	es, ok := s.(*ast.ExprStmt)
	if !ok {
		return "", c03Val{}, false
	}
	ce, ok := es.X.(*ast.CallExpr)
	if !ok {
		return "", c03Val{}, false
	}
	se, ok := ce.Fun.(*ast.SelectorExpr)
	if !ok {
		return "", c03Val{}, false
	}
	if id, ok := se.X.(*ast.Ident); ok {
		if b, known := x.env[id.Name]; known && c03IsBuilder(b.Type) && len(ce.Args) == 1 {
			switch se.Sel.Name {
			case "WriteString":
				return id.Name, x.expr(ce.Args[0]), true
			case "WriteByte", "WriteRune":
				v := x.expr(ce.Args[0])
				return id.Name, c03Val{Lean: "[" + v.Lean + "]", Type: "string", Fields: v.Fields}, true
			}
		}
		if id.Name == "fmt" && se.Sel.Name == "Fprintf" && len(ce.Args) >= 2 {
			if u, ok := ce.Args[0].(*ast.UnaryExpr); ok && u.Op == token.AND {
				if bid, ok := u.X.(*ast.Ident); ok {
					if b, known := x.env[bid.Name]; known && c03IsBuilder(b.Type) {
						v := x.sprintf(&ast.CallExpr{Fun: ce.Fun, Args: ce.Args[1:]})
						v.Segs = nil
						return bid.Name, v, true
					}
				}
			}
		}
	}
	return "", c03Val{}, false
}

const c03EmptyList = "([] : List Str)"

func c03Append(a, b c03Val) c03Val {
	l := c03Paren(a.Lean) + " ++ " + c03Paren(b.Lean)
	if a.Lean == "([] : Str)" || a.Lean == c03EmptyList {
		l = b.Lean
	}
	return c03Val{Lean: l, Type: a.Type, Fields: c03Union(a.Fields, b.Fields)}
}

// poison: every variable an unmodelled statement assigns or writes to becomes an opaque string
func (x *c03Tr) poison(n ast.Node) {
	ast.Inspect(n, func(m ast.Node) bool {
		switch t := m.(type) {
		case *ast.AssignStmt:
			for _, l := range t.Lhs {
				if id, ok := l.(*ast.Ident); ok && id.Name != "_" {
					if old, known := x.env[id.Name]; known && old.Type == "[]string" {
						x.env[id.Name] = c03Val{Lean: "Go.unmodelledList " + leanStr(strings.Join(strings.Fields(x.firstLine(t)), " ")), Type: "[]string"}
						continue
					}
					x.env[id.Name] = c03Val{Lean: c03Opaque(x.firstLine(t)), Type: "string"}
				}
			}
		case *ast.CallExpr:
			if se, ok := t.Fun.(*ast.SelectorExpr); ok {
				if id, ok := se.X.(*ast.Ident); ok {
					if b, known := x.env[id.Name]; known && c03IsBuilder(b.Type) {
						x.env[id.Name] = c03Val{Lean: c03Opaque(x.firstLine(t)), Type: b.Type, Fields: b.Fields}
					}
				}
			}
		}
		return true
	})
}

func (x *c03Tr) elemType(listType string) string {
	switch listType {
	case "[]string":
		return "string"
	case "[]cosmossdk_io_math.Int", "[]sdkmath.Int":
		return "cosmossdk_io_math.Int"
	case "[]uint64":
		return "uint64"
	}
	if strings.HasPrefix(listType, "[]") {
		if x.c.structs(x.rel)[listType[2:]] != nil {
			return "@" + x.rel + "#" + listType[2:]
		}
	}
	return ""
}

// stmts translates a statement list; onReturn is called for return statements; the result lists what is not modelled
func (x *c03Tr) stmts(list []ast.Stmt, onReturn func(*ast.ReturnStmt)) (problems []string) {
	c := x.c
	notModelled := func(s ast.Stmt) {
		problems = append(problems, "statement not modelled: "+x.firstLine(s))
		x.poison(s)
	}
	for _, s := range list {
		switch n := s.(type) {
		case *ast.AssignStmt:
			switch {
			case len(n.Lhs) == len(n.Rhs):
				vals := make([]c03Val, len(n.Rhs))
				for i := range n.Rhs {
					if cl, ok := n.Rhs[i].(*ast.CompositeLit); ok && c03IsBuilder(c.src(cl.Type)) && len(cl.Elts) == 0 {
						vals[i] = c03Val{Lean: "([] : Str)", Type: c.src(cl.Type)}
						continue
					}
					vals[i] = x.expr(n.Rhs[i])
				}
				for i, l := range n.Lhs {
					if id, ok := l.(*ast.Ident); ok && id.Name != "_" {
						x.env[id.Name] = vals[i]
					} else if !ok {
						problems = append(problems, "assignment to "+c.src(l))
					}
				}
			case len(n.Rhs) == 1 && len(n.Lhs) == 2:
				// v, err := f(...): the first result
				if id, ok := n.Lhs[0].(*ast.Ident); ok && id.Name != "_" {
					x.env[id.Name] = x.expr(n.Rhs[0])
				}
			default:
				notModelled(s)
			}
		case *ast.DeclStmt:
			// var a, b strings.Builder
			gd, ok := n.Decl.(*ast.GenDecl)
			done := false
			if ok && gd.Tok == token.VAR {
				done = true
				for _, sp := range gd.Specs {
					vs := sp.(*ast.ValueSpec)
					switch {
					case vs.Type != nil && c03IsBuilder(c.src(vs.Type)) && len(vs.Values) == 0:
						for _, nm := range vs.Names {
							x.env[nm.Name] = c03Val{Lean: "([] : Str)", Type: c.src(vs.Type)}
						}
					case vs.Type != nil && c.src(vs.Type) == "string" && len(vs.Values) == 0:
						for _, nm := range vs.Names {
							x.env[nm.Name] = c03Val{Lean: "([] : Str)", Type: "string"}
						}
					case len(vs.Values) == len(vs.Names):
						for i, nm := range vs.Names {
							x.env[nm.Name] = x.expr(vs.Values[i])
						}
					default:
						done = false
					}
				}
			}
			if !done {
				notModelled(s)
			}
		case *ast.ExprStmt:
			if b, v, ok := x.builderWrite(s); ok {
				x.env[b] = c03Append(x.env[b], v)
			} else {
				notModelled(s)
			}
		case *ast.RangeStmt:
			if !x.rangeLoop(n) {
				notModelled(s)
			}
		case *ast.ReturnStmt:
			onReturn(n)
		default:
			notModelled(s)
		}
	}
	return problems
}

// rangeLoop: `for i, e := range L { [if i > 0 { b.WriteString(sep) }] b.WriteString(f(e)) … }` appends to every builder b it
// writes the concat-map (or separator-joined map) of its per-element text over L
func (x *c03Tr) rangeLoop(n *ast.RangeStmt) bool {
	c := x.c
	list := x.expr(n.X)
	et := x.elemType(list.Type)
	if et == "" || !c03Compilable(list.Lean) {
		return false
	}
	vName, iName := "", ""
	if id, ok := n.Value.(*ast.Ident); ok && id.Name != "_" {
		vName = id.Name
	}
	if id, ok := n.Key.(*ast.Ident); ok && id.Name != "_" {
		iName = id.Name
	}
	saved := map[string]c03Val{}
	for k, v := range x.env {
		saved[k] = v
	}
	restore := func() { x.env = saved }
	inner := map[string]c03Val{}
	for k, v := range saved {
		inner[k] = v
	}
	if vName != "" {
		inner[vName] = c03Val{Lean: "x", Type: et, Fields: list.Fields}
	}
	x.env = inner
	type acc struct {
		sep   *c03Val
		parts []c03Val
	}
	accs := map[string]*acc{}
	var order []string
	get := func(b string) *acc {
		if accs[b] == nil {
			accs[b] = &acc{}
			order = append(order, b)
		}
		return accs[b]
	}
	listAcc := map[string]bool{}
	for _, st := range n.Body.List {
		if b, v, ok := x.builderWrite(st); ok {
			get(b).parts = append(get(b).parts, v)
			continue
		}
		// l = append(l, f(e)) with l a list of texts: one element per element of L
		if as, ok := st.(*ast.AssignStmt); ok && len(as.Lhs) == 1 && len(as.Rhs) == 1 {
			if id, ok := as.Lhs[0].(*ast.Ident); ok {
				if call, ok := as.Rhs[0].(*ast.CallExpr); ok && c.src(call.Fun) == "append" && len(call.Args) == 2 && c.src(call.Args[0]) == id.Name &&
					saved[id.Name].Type == "[]string" && len(get(id.Name).parts) == 0 && get(id.Name).sep == nil {
					v := x.expr(call.Args[1])
					if v.Type == "string" {
						get(id.Name).parts = append(get(id.Name).parts, v)
						listAcc[id.Name] = true
						continue
					}
				}
			}
		}
		// if i > 0 { b.WriteString(sep) } as the first thing written to b
		if is, ok := st.(*ast.IfStmt); ok && is.Init == nil && is.Else == nil && iName != "" && len(is.Body.List) == 1 {
			cond := c.src(is.Cond)
			if cond == iName+" > 0" || cond == iName+" != 0" || cond == "0 < "+iName {
				if b, v, ok := x.builderWrite(is.Body.List[0]); ok && len(get(b).parts) == 0 && get(b).sep == nil && len(v.Fields) == 0 {
					vv := v
					get(b).sep = &vv
					continue
				}
			}
		}
		restore()
		return false
	}
	restore()
	for _, b := range order {
		a := accs[b]
		if len(a.parts) == 0 {
			return false
		}
		body := a.parts[0]
		for _, p := range a.parts[1:] {
			body = c03Val{Lean: c03Paren(body.Lean) + " ++ " + c03Paren(p.Lean), Fields: c03Union(body.Fields, p.Fields)}
		}
		if listAcc[b] {
			x.env[b] = c03Append(x.env[b], c03Val{Lean: "List.map (fun x => " + body.Lean + ") " + c03Paren(list.Lean), Type: "[]string",
				Fields: c03Union(list.Fields, body.Fields)})
			continue
		}
		term := "Go.concatMap (fun x => " + body.Lean + ") " + c03Paren(list.Lean)
		if a.sep != nil {
			term = "Go.joinMap " + c03Paren(a.sep.Lean) + " (fun x => " + body.Lean + ") " + c03Paren(list.Lean)
		}
		x.env[b] = c03Append(x.env[b], c03Val{Lean: term, Type: "string", Fields: c03Union(list.Fields, body.Fields)})
	}
	return true
}

// ---------------------------------------------------------------------------------------------------------
// ValidateBasic -> validGen

type c03Check struct {
	Kind string // chain bech ext nonneg hex nonzero nonempty leneq allext members
	Lean string
	Src  string
}

var (
	c03ReField = `(\w+)\.(\w+)`
	c03ReBech  = regexp.MustCompile(`^_, err :?= sdk\.AccAddressFromBech32\(` + c03ReField + `\)$`)
	c03ReExt   = regexp.MustCompile(`^err :?= ValidateExternalAddr\((\w+)\.ChainName, ([\w.]+)\)$`)
	c03ReHex   = regexp.MustCompile(`^_, err :?= hex\.DecodeString\(` + c03ReField + `\)$`)
	c03ReNeg   = regexp.MustCompile(`^` + c03ReField + `\.IsNil\(\) \|\| (\w+)\.(\w+)\.IsNegative\(\)$`)
	c03ReZero  = regexp.MustCompile(`^([\w.]+) == 0$`)
	c03ReEmpty = regexp.MustCompile(`^len\(` + c03ReField + `\) == 0$`)
	c03ReLenGt = regexp.MustCompile(`^len\(` + c03ReField + `\) > 0$`)
	c03ReLenNe = regexp.MustCompile(`^len\(` + c03ReField + `\) != len\((\w+)\.(\w+)\)$`)
	c03ReChain = regexp.MustCompile(`^_, ok :?= externalAddressRouter\[(\w+)\.ChainName\]$`)
)

// c03Checks translates the statements of a ValidateBasic body; `recv` is the receiver variable, `elem` (when non-empty) the
// loop variable of an enclosing range statement, rendered as Lean variable `x`
func (x *c03Tr) checks(stmts []ast.Stmt, recv string, elem string, elemIsStruct bool, depth int) (out []c03Check, unmodelled []string) {
	c := x.c
	leanOf := func(sel string) (string, bool) { // "m.F" | "elem" | "elem.F"
		if strings.HasPrefix(sel, recv+".") {
			f := strings.TrimPrefix(sel, recv+".")
			if _, ok := x.ftype[f]; ok {
				return "c." + f, true
			}
		}
		if elem != "" && sel == elem {
			return "x", true
		}
		if elem != "" && strings.HasPrefix(sel, elem+".") {
			return "x." + strings.TrimPrefix(sel, elem+"."), true
		}
		return "", false
	}
	for _, s := range stmts {
		src := c.src(s)
		first := strings.SplitN(src, "\n", 2)[0]
		switch n := s.(type) {
		case *ast.ReturnStmt:
			if len(n.Results) == 1 {
				if ce, ok := n.Results[0].(*ast.CallExpr); ok && len(ce.Args) == 0 && depth < 3 {
					if se, ok := ce.Fun.(*ast.SelectorExpr); ok && c.src(se.X) == recv {
						// return m.validateBasic(): inline
						if fd := c.findFunc(x.rel, "*", se.Sel.Name); fd != nil && fd.Body != nil && recvNameOf(fd) != "" {
							r2 := ""
							if len(fd.Recv.List[0].Names) == 1 {
								r2 = fd.Recv.List[0].Names[0].Name
							}
							o, u := x.checks(fd.Body.List, r2, "", false, depth+1)
							out = append(out, o...)
							unmodelled = append(unmodelled, u...)
							continue
						}
					}
				}
				if c.src(n.Results[0]) == "nil" {
					continue
				}
			}
			unmodelled = append(unmodelled, first)
		case *ast.IfStmt:
			init, cond := "", c.src(n.Cond)
			if n.Init != nil {
				init = c.src(n.Init)
			}
			switch {
			case c03ReChain.MatchString(init) && cond == "!ok":
				out = append(out, c03Check{Kind: "chain", Src: first})
			case c03ReBech.MatchString(init) && cond == "err != nil":
				m := c03ReBech.FindStringSubmatch(init)
				if l, ok := leanOf(m[1] + "." + m[2]); ok {
					out = append(out, c03Check{"bech", "isBech32ish " + l, first})
				} else {
					unmodelled = append(unmodelled, first)
				}
			case c03ReExt.MatchString(init) && cond == "err != nil":
				m := c03ReExt.FindStringSubmatch(init)
				if l, ok := leanOf(m[2]); ok {
					out = append(out, c03Check{"ext", "isExtAddr k " + l, first})
				} else {
					unmodelled = append(unmodelled, first)
				}
			case init == "" && c03ReNeg.MatchString(cond):
				m := c03ReNeg.FindStringSubmatch(cond)
				if l, ok := leanOf(m[1] + "." + m[2]); ok && m[1] == m[3] && m[2] == m[4] {
					out = append(out, c03Check{"nonneg", "isNonNeg " + l, first})
				} else {
					unmodelled = append(unmodelled, first)
				}
			case c03ReHex.MatchString(init) && strings.HasSuffix(cond, " && err != nil") && c03ReLenGt.MatchString(strings.TrimSuffix(cond, " && err != nil")):
				m := c03ReHex.FindStringSubmatch(init)
				g := c03ReLenGt.FindStringSubmatch(strings.TrimSuffix(cond, " && err != nil"))
				if l, ok := leanOf(m[1] + "." + m[2]); ok && g[1] == m[1] && g[2] == m[2] {
					out = append(out, c03Check{"hex", "isHexData " + l, first})
				} else {
					unmodelled = append(unmodelled, first)
				}
			case c03ReHex.MatchString(init) && cond == "err != nil":
				// unconditional hex.DecodeString: the empty string decodes fine, same class
				m := c03ReHex.FindStringSubmatch(init)
				if l, ok := leanOf(m[1] + "." + m[2]); ok {
					out = append(out, c03Check{"hex", "isHexData " + l, first})
				} else {
					unmodelled = append(unmodelled, first)
				}
			case init == "" && c03ReLenGt.MatchString(cond) && len(n.Body.List) == 1 && n.Else == nil:
				// if len(m.F) > 0 { if _, err = hex.DecodeString(m.F); err != nil { return … } }
				g := c03ReLenGt.FindStringSubmatch(cond)
				in, ok := n.Body.List[0].(*ast.IfStmt)
				if ok && in.Init != nil && c03ReHex.MatchString(c.src(in.Init)) && c.src(in.Cond) == "err != nil" {
					m := c03ReHex.FindStringSubmatch(c.src(in.Init))
					if l, ok := leanOf(m[1] + "." + m[2]); ok && g[1] == m[1] && g[2] == m[2] {
						out = append(out, c03Check{"hex", "isHexData " + l, first})
						continue
					}
				}
				unmodelled = append(unmodelled, first)
			case init == "" && c03ReZero.MatchString(cond):
				m := c03ReZero.FindStringSubmatch(cond)
				if l, ok := leanOf(m[1]); ok {
					out = append(out, c03Check{"nonzero", l + " != 0", first})
				} else {
					unmodelled = append(unmodelled, first)
				}
			case init == "" && c03ReEmpty.MatchString(cond):
				m := c03ReEmpty.FindStringSubmatch(cond)
				if l, ok := leanOf(m[1] + "." + m[2]); ok {
					out = append(out, c03Check{"nonempty", "!" + l + ".isEmpty", first})
				} else {
					unmodelled = append(unmodelled, first)
				}
			case init == "" && c03ReLenNe.MatchString(cond):
				m := c03ReLenNe.FindStringSubmatch(cond)
				a, ok1 := leanOf(m[1] + "." + m[2])
				b, ok2 := leanOf(m[3] + "." + m[4])
				if ok1 && ok2 {
					out = append(out, c03Check{"leneq", a + ".length == " + b + ".length", first})
				} else {
					unmodelled = append(unmodelled, first)
				}
			default:
				unmodelled = append(unmodelled, first)
			}
		case *ast.RangeStmt:
			// for _, e := range m.F { checks on e }
			l, ok := leanOf(c.src(n.X))
			v, isId := n.Value.(*ast.Ident)
			if !ok || !isId || elem != "" {
				unmodelled = append(unmodelled, first)
				continue
			}
			inner, u := x.checks(n.Body.List, recv, v.Name, true, depth)
			unmodelled = append(unmodelled, u...)
			if len(inner) == 0 {
				continue
			}
			var parts []string
			for _, ic := range inner {
				parts = append(parts, ic.Lean)
			}
			body := strings.Join(parts, " && ")
			if len(inner) == 1 && strings.HasSuffix(body, " x") && !strings.Contains(strings.TrimSuffix(body, " x"), "x.") {
				out = append(out, c03Check{"all", l + ".all (" + strings.TrimSuffix(body, " x") + ")", first})
			} else {
				out = append(out, c03Check{"all", l + ".all (fun x => " + body + ")", first})
			}
		default:
			unmodelled = append(unmodelled, first)
		}
	}
	return out, unmodelled
}

func recvNameOf(fd *ast.FuncDecl) string { return recvName(fd) }

// ---------------------------------------------------------------------------------------------------------
// fields of a claim the keeper reads while executing it

// methodReads: receiver fields a method of the claim type reads (methods of the same receiver followed)
func (c *ctxT) c03MethodReads(tn, method string, seen map[string]bool) []string {
	if seen[method] {
		return nil
	}
	seen[method] = true
	fd := c.findFunc(c03Pkg, tn, method)
	if fd == nil || fd.Body == nil || len(fd.Recv.List[0].Names) != 1 {
		return nil
	}
	rv := fd.Recv.List[0].Names[0].Name
	var out []string
	ast.Inspect(fd.Body, func(n ast.Node) bool {
		if ce, ok := n.(*ast.CallExpr); ok {
			if se, ok := ce.Fun.(*ast.SelectorExpr); ok {
				if id, ok := se.X.(*ast.Ident); ok && id.Name == rv {
					out = append(out, c.c03MethodReads(tn, se.Sel.Name, seen)...)
				}
			}
		}
		if se, ok := n.(*ast.SelectorExpr); ok {
			if id, ok := se.X.(*ast.Ident); ok && id.Name == rv {
				out = append(out, se.Sel.Name)
			}
		}
		return true
	})
	return out
}

// c03ReadFields scans x/crosschain/keeper for variables of type *types.<tn> (parameters and type-switch bindings) and
// collects the fields read through them
func (c *ctxT) c03ReadFields(tn string, fields map[string]bool) (reads []string, sites []string) {
	set := map[string]bool{}
	add := func(f string) {
		if fields[f] {
			set[f] = true
		}
	}
	scan := func(body ast.Node, v string, where string) {
		used := false
		ast.Inspect(body, func(n ast.Node) bool {
			switch m := n.(type) {
			case *ast.CallExpr:
				if se, ok := m.Fun.(*ast.SelectorExpr); ok {
					if id, ok := se.X.(*ast.Ident); ok && id.Name == v {
						used = true
						name := se.Sel.Name
						if strings.HasPrefix(name, "Get") && fields[strings.TrimPrefix(name, "Get")] {
							add(strings.TrimPrefix(name, "Get"))
						}
						for _, f := range c.c03MethodReads(tn, name, map[string]bool{}) {
							add(f)
						}
					}
				}
			case *ast.SelectorExpr:
				if id, ok := m.X.(*ast.Ident); ok && id.Name == v {
					used = true
					add(m.Sel.Name)
				}
			}
			return true
		})
		if used {
			sites = append(sites, where)
		}
	}
	isT := func(t ast.Expr) bool {
		s := c.src(t)
		return s == "*types."+tn || s == "types."+tn || s == "*"+tn
	}
	for _, fd := range c.funcDecls(c03Keeper) {
		if fd.Body == nil {
			continue
		}
		for _, p := range fd.Type.Params.List {
			if isT(p.Type) {
				for _, nm := range p.Names {
					scan(fd.Body, nm.Name, c.pos(fd)+" "+fd.Name.Name)
				}
			}
		}
		// switch claim := x.(type) { case *types.T: … }
		ast.Inspect(fd.Body, func(n ast.Node) bool {
			ts, ok := n.(*ast.TypeSwitchStmt)
			if !ok {
				return true
			}
			as, ok := ts.Assign.(*ast.AssignStmt)
			if !ok || len(as.Lhs) != 1 {
				return true
			}
			v := c.src(as.Lhs[0])
			for _, cc := range ts.Body.List {
				cl := cc.(*ast.CaseClause)
				if len(cl.List) == 1 && isT(cl.List[0]) {
					for _, st := range cl.Body {
						scan(st, v, c.pos(cl)+" "+fd.Name.Name+" (type switch)")
					}
				}
			}
			return true
		})
	}
	reads = sortedKeys(set)
	sort.Strings(sites)
	return reads, sites
}

// ---------------------------------------------------------------------------------------------------------
// call structure of Keeper.Attest: every call of TryAttestation reachable from it with the voter's claim in hand — which
// attestation and which claim object it is handed, under which guard

type c03Site struct {
	Fn, Where, AttSrc, ClaimSrc, Guard string
	AttSel, ClaimSel                string
	InLoop                          bool
}

// the assignments to the attestation variable of Keeper.Attest that receives the vote, in source order
var (
	c03LookupVar string
	c03Lookup    []string
)

func (c *ctxT) c03TrySites() (sites []c03Site, problems []string) {
	c03LookupVar, c03Lookup = "", nil
	start := c.findFunc(c03Keeper, "Keeper", "Attest")
	if start == nil {
		return nil, []string{"Keeper.Attest not found"}
	}
	claimParamOf := func(fd *ast.FuncDecl) string {
		for _, p := range fd.Type.Params.List {
			if c.src(p.Type) == "types.ExternalClaim" && len(p.Names) == 1 {
				return p.Names[0].Name
			}
		}
		return ""
	}
	var walk func(fd *ast.FuncDecl, claimParam string, guards []string, inLoop bool, depth int)
	walk = func(fd *ast.FuncDecl, claimParam string, guards []string, inLoop bool, depth int) {
		voted := map[string]bool{}
		recordedOf := map[string]string{}
		// every assignment to a local, in source order: where an attestation variable gets its value from
		srcOf := map[string][]string{}
		anyOfClaim := map[string]bool{} // locals holding codectypes.NewAnyWithValue(<the voter's claim>)
		ast.Inspect(fd.Body, func(n ast.Node) bool {
			as, ok := n.(*ast.AssignStmt)
			if !ok || len(as.Rhs) != 1 || len(as.Lhs) == 0 {
				return true
			}
			lhs, ok := as.Lhs[0].(*ast.Ident)
			if !ok {
				return true
			}
			kind := "other:" + strings.SplitN(c.src(as.Rhs[0]), "\n", 2)[0]
			switch rhs := as.Rhs[0].(type) {
			case *ast.CallExpr:
				fn := c.src(rhs.Fun)
				if strings.HasSuffix(fn, ".GetAttestation") && len(rhs.Args) == 3 && c.src(rhs.Args[1]) == claimParam+".GetEventNonce()" && c.src(rhs.Args[2]) == claimParam+".ClaimHash()" {
					kind = "ownKey"
				}
				if strings.HasSuffix(fn, "UnpackAttestationClaim") && len(rhs.Args) == 2 {
					recordedOf[lhs.Name] = c.src(rhs.Args[1])
				}
				if strings.HasSuffix(fn, "NewAnyWithValue") && len(rhs.Args) == 1 && c.src(rhs.Args[0]) == claimParam {
					anyOfClaim[lhs.Name] = true
				}
			case *ast.UnaryExpr:
				if cl, ok := rhs.X.(*ast.CompositeLit); ok && strings.HasSuffix(c.src(cl.Type), "Attestation") {
					fresh, votes := false, false
					for _, el := range cl.Elts {
						if kv, ok := el.(*ast.KeyValueExpr); ok {
							switch c.src(kv.Key) {
							case "Claim":
								fresh = anyOfClaim[c.src(kv.Value)]
							case "Votes":
								votes = true
							}
						}
					}
					if fresh && !votes {
						kind = "fresh"
					}
				}
			}
			srcOf[lhs.Name] = append(srcOf[lhs.Name], kind)
			return true
		})
		for v, srcs := range srcOf {
			own, has := true, false
			for _, k := range srcs {
				if k == "ownKey" {
					has = true
				} else if k != "fresh" {
					own = false
				}
			}
			voted[v] = own && has
		}
		if depth == 0 {
			// the variable the vote is appended to (`att.Votes = append(att.Votes, …)`)
			ast.Inspect(fd.Body, func(n ast.Node) bool {
				as, ok := n.(*ast.AssignStmt)
				if !ok || len(as.Rhs) != 1 || len(as.Lhs) != 1 {
					return true
				}
				se, ok := as.Lhs[0].(*ast.SelectorExpr)
				if !ok || se.Sel.Name != "Votes" {
					return true
				}
				if ce, ok := as.Rhs[0].(*ast.CallExpr); ok && c.src(ce.Fun) == "append" {
					if id, ok := se.X.(*ast.Ident); ok && c03LookupVar == "" {
						c03LookupVar = id.Name
						c03Lookup = append([]string{}, srcOf[id.Name]...)
					}
				}
				return true
			})
		}
		var calls func(n ast.Node, guards []string, inLoop bool)
		var block func(list []ast.Stmt, guards []string, inLoop bool)
		calls = func(n ast.Node, guards []string, inLoop bool) {
			if n == nil {
				return
			}
			ast.Inspect(n, func(m ast.Node) bool {
				if _, isBlock := m.(*ast.BlockStmt); isBlock {
					return false // nested blocks are walked by `block` with their own guard
				}
				if fl, isFn := m.(*ast.FuncLit); isFn {
					block(fl.Body.List, append(append([]string{}, guards...), "<closure>"), true)
					return false
				}
				ce, ok := m.(*ast.CallExpr)
				if !ok {
					return true
				}
				se, ok := ce.Fun.(*ast.SelectorExpr)
				if !ok {
					return true
				}
				if se.Sel.Name == "TryAttestation" && len(ce.Args) == 3 {
					st := c03Site{Fn: fd.Name.Name, Where: c.pos(ce), AttSrc: c.src(ce.Args[1]), ClaimSrc: c.src(ce.Args[2]),
						Guard: strings.Join(guards, " && "), InLoop: inLoop, AttSel: "stored", ClaimSel: "other"}
					if voted[st.AttSrc] {
						st.AttSel = "voted"
					}
					switch {
					case st.ClaimSrc == claimParam:
						st.ClaimSel = "voter"
					case recordedOf[st.ClaimSrc] == st.AttSrc && st.AttSrc != "":
						st.ClaimSel = "recorded"
					}
					sites = append(sites, st)
					return true
				}
				// a keeper method that is handed the voter's claim: follow
				for i, a := range ce.Args {
					if id, ok := a.(*ast.Ident); ok && id.Name == claimParam && depth < 4 {
						if callee := c.findFunc(c03Keeper, "Keeper", se.Sel.Name); callee != nil && callee.Body != nil && callee != fd {
							// the parameter that receives it
							idx := 0
							name := ""
							for _, p := range callee.Type.Params.List {
								for _, nm := range p.Names {
									if idx == i {
										name = nm.Name
									}
									idx++
								}
							}
							if name != "" && se.Sel.Name != "TryAttestation" {
								hasTry := false
								ast.Inspect(callee.Body, func(q ast.Node) bool {
									if c2, ok := q.(*ast.CallExpr); ok {
										if s2, ok := c2.Fun.(*ast.SelectorExpr); ok && s2.Sel.Name == "TryAttestation" {
											hasTry = true
										}
									}
									return true
								})
								if hasTry {
									walk(callee, name, append(append([]string{}, guards...), "<in "+se.Sel.Name+">"), inLoop, depth+1)
								}
							}
						}
					}
				}
				return true
			})
		}
		block = func(list []ast.Stmt, guards []string, inLoop bool) {
			for _, s := range list {
				switch n := s.(type) {
				case *ast.IfStmt:
					calls(n.Init, guards, inLoop)
					calls(n.Cond, guards, inLoop)
					g := append(append([]string{}, guards...), c.src(n.Cond))
					block(n.Body.List, g, inLoop)
					if n.Else != nil {
						ge := append(append([]string{}, guards...), "!("+c.src(n.Cond)+")")
						if eb, ok := n.Else.(*ast.BlockStmt); ok {
							block(eb.List, ge, inLoop)
						} else {
							block([]ast.Stmt{n.Else}, ge, inLoop)
						}
					}
				case *ast.ForStmt:
					calls(n.Init, guards, inLoop)
					calls(n.Cond, guards, true)
					block(n.Body.List, guards, true)
				case *ast.RangeStmt:
					calls(n.X, guards, inLoop)
					block(n.Body.List, guards, true)
				case *ast.BlockStmt:
					block(n.List, guards, inLoop)
				case *ast.SwitchStmt:
					calls(n.Init, guards, inLoop)
					calls(n.Tag, guards, inLoop)
					for _, cc := range n.Body.List {
						block(cc.(*ast.CaseClause).Body, append(append([]string{}, guards...), "<case>"), inLoop)
					}
				default:
					calls(s, guards, inLoop)
				}
			}
		}
		block(fd.Body.List, guards, inLoop)
	}
	cp := claimParamOf(start)
	if cp == "" {
		return nil, []string{"Keeper.Attest has no types.ExternalClaim parameter"}
	}
	walk(start, cp, nil, false, 0)
	if len(sites) == 0 {
		problems = append(problems, "no TryAttestation call reachable from Keeper.Attest")
	}
	return sites, problems
}

// ---------------------------------------------------------------------------------------------------------

func extractC03(c *ctxT) {
	structs := c.structs(c03Pkg)
	type claimT struct {
		Name       string
		Segs       []c03Seg
		Format     string
		Path       string
		HashFn     string
		Where      string
		Fields     [][2]string
		Hashed     []string
		Problems   []string
		Checks     []c03Check
		Unmodelled []string
		ValidWhere string
		Reads      []string
		ReadSites  []string
	}
	var claims []claimT
	p := c.pkg(c03Pkg)
	for _, fn := range sortedKeys(p) {
		file := p[fn]
		for _, d := range file.Decls {
			fd, ok := d.(*ast.FuncDecl)
			if !ok || fd.Name.Name != "ClaimHash" || fd.Recv == nil || fd.Body == nil {
				continue
			}
			cl := claimT{Name: recvName(fd), Where: c.pos(fd)}
			recvVar := ""
			if len(fd.Recv.List[0].Names) == 1 {
				recvVar = fd.Recv.List[0].Names[0].Name
			}
			st := structs[cl.Name]
			ftype := map[string]string{}
			fset := map[string]bool{}
			if st != nil {
				for _, f := range st.Fields.List {
					for _, n := range f.Names {
						ftype[n.Name] = c.src(f.Type)
						fset[n.Name] = true
						cl.Fields = append(cl.Fields, [2]string{n.Name, c.src(f.Type)})
					}
				}
			}
			tr := &c03Tr{c: c, rel: c03Pkg, imports: imports(file), recvVar: recvVar, ftype: ftype, env: map[string]c03Val{}}
			// straight-line body: local definitions, then `return tmhash.Sum([]byte(<path expression>))`
			var pathVal *c03Val
			cl.Problems = append(cl.Problems, tr.stmts(fd.Body.List, func(n *ast.ReturnStmt) {
				if len(n.Results) != 1 {
					return
				}
				cl.HashFn = c.src(n.Results[0])
				// tmhash.Sum([]byte(X))
				if ce, ok := n.Results[0].(*ast.CallExpr); ok && len(ce.Args) == 1 {
					if conv, ok := ce.Args[0].(*ast.CallExpr); ok && len(conv.Args) == 1 {
						if _, isArr := conv.Fun.(*ast.ArrayType); isArr {
							v := tr.expr(conv.Args[0])
							pathVal = &v
							// normalise: the hashed expression is named `path` in the Lean text
							cl.HashFn = c.src(ce.Fun) + "([]byte(path))"
						}
					}
				}
			})...)
			if pathVal == nil {
				// no recognisable hashed expression: fall back to the first fmt.Sprintf of the body
				var call *ast.CallExpr
				ast.Inspect(fd.Body, func(n ast.Node) bool {
					if ce, ok := n.(*ast.CallExpr); ok && call == nil && c.src(ce.Fun) == "fmt.Sprintf" {
						call = ce
					}
					return true
				})
				if call != nil {
					v := tr.sprintf(call)
					pathVal = &v
				} else {
					cl.Problems = append(cl.Problems, "no hashed path expression found")
					pathVal = &c03Val{Lean: c03Opaque("no hashed path expression found"), Type: "string"}
				}
			}
			if !c03Compilable(pathVal.Lean) {
				cl.Problems = append(cl.Problems, "hashed expression not modelled: "+pathVal.Lean)
				pathVal.Lean, pathVal.Segs = c03Opaque(pathVal.Lean), nil
			}
			cl.Path, cl.Segs, cl.Format, cl.Hashed = pathVal.Lean, pathVal.Segs, pathVal.Format, pathVal.Fields
			// ValidateBasic
			if vb := c.findFunc(c03Pkg, cl.Name, "ValidateBasic"); vb != nil && vb.Body != nil && len(vb.Recv.List[0].Names) == 1 {
				cl.ValidWhere = c.pos(vb)
				cl.Checks, cl.Unmodelled = tr.checks(vb.Body.List, vb.Recv.List[0].Names[0].Name, "", false, 0)
			} else {
				cl.Unmodelled = append(cl.Unmodelled, "no ValidateBasic method found")
			}
			cl.Reads, cl.ReadSites = c.c03ReadFields(cl.Name, fset)
			claims = append(claims, cl)
		}
	}
	if len(claims) == 0 {
		fail("C03: no ClaimHash methods found in %s", c03Pkg)
	}
	sort.Slice(claims, func(i, j int) bool { return claims[i].Name < claims[j].Name })

	var csb strings.Builder
	// chain table
	type chainT struct{ name, kind, where string }
	var chains []chainT
	keyFiles, _ := filepath.Glob(filepath.Join(c.repo, "x", "*", "types"))
	sort.Strings(keyFiles)
	for _, dir := range keyFiles {
		rel, _ := filepath.Rel(c.repo, dir)
		p := c.pkg(rel)
		consts := map[string]string{}
		for _, fn := range sortedKeys(p) {
			for _, d := range p[fn].Decls {
				gd, ok := d.(*ast.GenDecl)
				if !ok || gd.Tok != token.CONST {
					continue
				}
				for _, sp := range gd.Specs {
					vs := sp.(*ast.ValueSpec)
					for i, n := range vs.Names {
						if i < len(vs.Values) {
							if bl, ok := vs.Values[i].(*ast.BasicLit); ok && bl.Kind == token.STRING {
								consts[n.Name], _ = strconv.Unquote(bl.Value)
							}
						}
					}
				}
			}
		}
		for _, fn := range sortedKeys(p) {
			ast.Inspect(p[fn], func(n ast.Node) bool {
				ce, ok := n.(*ast.CallExpr)
				if !ok || len(ce.Args) != 2 {
					return true
				}
				f := c.src(ce.Fun)
				if f != "crosschaintypes.RegisterExternalAddress" && f != "RegisterExternalAddress" {
					return true
				}
				name := c.src(ce.Args[0])
				if v, ok := consts[name]; ok {
					name = v
				} else if bl, ok := ce.Args[0].(*ast.BasicLit); ok {
					name, _ = strconv.Unquote(bl.Value)
				} else {
					return true // the declaration of RegisterExternalAddress itself, or a non-constant name
				}
				kind := "other"
				switch c.src(ce.Args[1]) {
				case "crosschaintypes.EthereumAddress{}", "EthereumAddress{}":
					kind = "eth"
				case "tronAddress{}":
					kind = "tron"
				}
				chains = append(chains, chainT{name, kind, c.pos(ce)})
				return true
			})
		}
	}
	sort.Slice(chains, func(i, j int) bool { return chains[i].name < chains[j].name })
	csb.WriteString("/-- chain name → external address class (`RegisterExternalAddress` calls) -/\ndef chains : List (String × AddrKind) := [\n")
	var fchains []map[string]string
	for i, ch := range chains {
		sep := ","
		if i == len(chains)-1 {
			sep = ""
		}
		fmt.Fprintf(&csb, "  (%s, .%s)%s  -- %s\n", leanStr(ch.name), ch.kind, sep, ch.where)
		fchains = append(fchains, map[string]string{"name": ch.name, "kind": ch.kind})
	}
	csb.WriteString("]\n\n")
	classOnly := c.c03ClassOnly()
	flowTypes := map[string]map[string]string{}
	c.facts["C03.classOnlyParams"] = classOnly
	var sb strings.Builder
	sb.WriteString("import FxVerif.Model.C03Prog\nimport FxVerif.Model.C03Flow\n\nnamespace FxVerif.Gen.C03\nopen FxVerif.Model.C03\n\n" + csb.String() + "end FxVerif.Gen.C03\n\n-- the generated `path` / `validGen` / `handlerView` of each claim type live in the namespace of the model's claim record (so `c.path` resolves)\nnamespace FxVerif.Model.C03\n\n")
	var names []string
	factClaims := map[string]any{}
	viewFacts := map[string]any{}
	viewFieldFacts := map[string]any{}
	for _, cl := range claims {
		names = append(names, leanStr(cl.Name))
		fmt.Fprintf(&sb, "/-! ### %s  (%s)\n  format %s -/\n\n", cl.Name, cl.Where, strings.ReplaceAll(leanStr(cl.Format), "-/", "- /"))
		for _, pr := range cl.Problems {
			fmt.Fprintf(&sb, "-- extractor: %s\n", strings.ReplaceAll(pr, "-/", "- /"))
		}
		var hashed []string
		for _, f := range cl.Hashed {
			if !strings.HasPrefix(f, "*") {
				hashed = append(hashed, leanStr(f))
			}
		}
		fmt.Fprintf(&sb, "def %s.path (c : %s) : Str :=\n  %s\n\n", cl.Name, cl.Name, cl.Path)
		fmt.Fprintf(&sb, "def %s.hashedFields : List String := %s\n\n", cl.Name, leanList(hashed))
		var sf []string
		for _, f := range cl.Fields {
			sf = append(sf, leanStr(f[0]))
		}
		fmt.Fprintf(&sb, "def %s.structFields : List String := %s\n\n", cl.Name, leanList(sf))
		fmt.Fprintf(&sb, "def %s.hashExpr : String := %s\n\n", cl.Name, leanStr(cl.HashFn))
		// arguments that are not plain fields (function applications over fields)
		var derived []string
		for _, s := range cl.Segs {
			if s.Verb != "" && !s.Plain {
				derived = append(derived, leanStr(s.Src))
			}
		}
		if cl.Segs == nil {
			derived = append(derived, leanStr("<path is not a single fmt.Sprintf>"))
		}
		fmt.Fprintf(&sb, "/-- hashed arguments that are not a plain field of the message (function applications) -/\ndef %s.derivedArgs : List String := %s\n\n", cl.Name, leanList(derived))
		var prs []string
		for _, pr := range cl.Problems {
			prs = append(prs, leanStr(pr))
		}
		fmt.Fprintf(&sb, "/-- statements of ClaimHash the translator does not model -/\ndef %s.unmodelledStatements : List String := %s\n\n", cl.Name, leanList(prs))
		// validGen
		fmt.Fprintf(&sb, "/-- syntactic part of `ValidateBasic` (%s), check by check in source order -/\ndef %s.validGen (k : AddrKind) (c : %s) : Bool :=\n", cl.ValidWhere, cl.Name, cl.Name)
		var conj []string
		var fchecks []map[string]string
		for _, ch := range cl.Checks {
			fchecks = append(fchecks, map[string]string{"kind": ch.Kind, "lean": ch.Lean, "src": ch.Src})
			if ch.Kind == "chain" {
				continue
			}
			conj = append(conj, ch.Lean)
		}
		if len(conj) == 0 {
			conj = []string{"true"}
		}
		sb.WriteString("  " + strings.Join(conj, "\n  && ") + "\n\n")
		var um []string
		for _, u := range cl.Unmodelled {
			um = append(um, leanStr(u))
		}
		fmt.Fprintf(&sb, "/-- statements of ValidateBasic that were not recognised (dropped: the generated class is a superset) -/\ndef %s.unmodelledChecks : List String := %s\n\n", cl.Name, leanList(um))
		var rd []string
		for _, r := range cl.Reads {
			rd = append(rd, leanStr(r))
		}
		fmt.Fprintf(&sb, "/-- fields x/crosschain/keeper reads through a variable of this claim type\n")
		for _, s := range cl.ReadSites {
			fmt.Fprintf(&sb, "  %s\n", s)
		}
		fmt.Fprintf(&sb, "-/\ndef %s.readFields : List String := %s\n\n", cl.Name, leanList(rd))
		ftv := map[string]string{}
		for _, f := range cl.Fields {
			ftv[f[0]] = f[1]
		}
		flowTypes[cl.Name] = ftv
		view := c.c03HandlerView(cl.Name, ftv, classOnly)
		sb.WriteString(c03ViewLean(cl.Name, view))
		viewFacts[cl.Name] = view
		viewFieldFacts[cl.Name] = c03ViewFields(view)

		var fsegs []map[string]any
		for _, s := range cl.Segs {
			fsegs = append(fsegs, map[string]any{"lit": s.Lit, "verb": s.Verb, "field": s.Field, "tag": s.Tag, "src": s.Src, "plain": s.Plain, "fields": s.Fields})
		}
		factClaims[cl.Name] = map[string]any{"format": cl.Format, "segments": fsegs, "where": cl.Where, "hash": cl.HashFn, "fields": cl.Fields,
			"checks": fchecks, "unmodelled_checks": cl.Unmodelled, "read_fields": cl.Reads, "read_sites": cl.ReadSites, "problems": cl.Problems, "path": cl.Path}
	}
	sb.WriteString("end FxVerif.Model.C03\n\nnamespace FxVerif.Gen.C03\nopen FxVerif.Model.C03\n\n")
	fmt.Fprintf(&sb, "/-- every type with a `ClaimHash` method -/\ndef claimTypes : List String := %s\n\n", leanList(names))

	// what the keeper reads through the interface `types.ExternalClaim` (Attest, TryAttestation, handlers, pruning …):
	// getters `GetF()` of a field F every claim type has
	common := map[string]int{}
	for _, cl := range claims {
		for _, f := range cl.Fields {
			common[f[0]]++
		}
	}
	generic := map[string]bool{}
	var genericSites []string
	for _, fd := range c.funcDecls(c03Keeper) {
		if fd.Body == nil {
			continue
		}
		for _, prm := range fd.Type.Params.List {
			if t := c.src(prm.Type); t != "types.ExternalClaim" {
				continue
			}
			for _, nm := range prm.Names {
				used := false
				ast.Inspect(fd.Body, func(n ast.Node) bool {
					ce, ok := n.(*ast.CallExpr)
					if !ok {
						return true
					}
					se, ok := ce.Fun.(*ast.SelectorExpr)
					if !ok {
						return true
					}
					if id, ok := se.X.(*ast.Ident); ok && id.Name == nm.Name && strings.HasPrefix(se.Sel.Name, "Get") {
						if f := strings.TrimPrefix(se.Sel.Name, "Get"); common[f] == len(claims) {
							generic[f] = true
							used = true
						}
					}
					return true
				})
				if used {
					genericSites = append(genericSites, c.pos(fd)+" "+fd.Name.Name)
				}
			}
		}
	}
	var gl []string
	for _, f := range sortedKeys(generic) {
		gl = append(gl, leanStr(f))
	}
	sort.Strings(genericSites)
	fmt.Fprintf(&sb, "/-- fields x/crosschain/keeper reads through the interface `types.ExternalClaim` (getters of fields every claim type has)\n")
	for _, st := range genericSites {
		fmt.Fprintf(&sb, "  %s\n", st)
	}
	fmt.Fprintf(&sb, "-/\ndef externalClaimReads : List String := %s\n\n", leanList(gl))
	c.facts["C03.externalClaimReads"] = sortedKeys(generic)

	// call structure of Attest
	sites, sprob := c.c03TrySites()
	sb.WriteString("/-- every call of `TryAttestation` reachable from `Keeper.Attest` with the voter's claim in hand: which attestation it is\nhanded (`voted` = the one looked up under the voter's own `nonce ‖ ClaimHash`, `stored` = any other stored one) and which\nclaim object (`voter` = the claim being submitted, `recorded` = the claim recorded in that very attestation)\n")
	for _, st := range sites {
		fmt.Fprintf(&sb, "  %s %s: TryAttestation(ctx, %s, %s)  when %s\n", st.Where, st.Fn, st.AttSrc, st.ClaimSrc, strings.ReplaceAll(st.Guard, "-/", "- /"))
	}
	for _, pr := range sprob {
		fmt.Fprintf(&sb, "  extractor: %s\n", pr)
	}
	sb.WriteString("-/\ndef attestTrySites : List TrySite := [\n")
	var fsites []map[string]any
	for i, st := range sites {
		sep := ","
		if i == len(sites)-1 {
			sep = ""
		}
		fmt.Fprintf(&sb, "  { att := .%s, claim := .%s, inLoop := %v, fn := %s, guard := %s }%s\n", st.AttSel, st.ClaimSel, st.InLoop, leanStr(st.Fn), leanStr(st.Guard), sep)
		fsites = append(fsites, map[string]any{"fn": st.Fn, "where": st.Where, "att": st.AttSel, "claim": st.ClaimSel, "in_loop": st.InLoop, "guard": st.Guard, "att_src": st.AttSrc, "claim_src": st.ClaimSrc})
	}
	sb.WriteString("]\n\n")
	c.facts["C03.attestTrySites"] = fsites
	// where Attest gets the attestation the vote is appended to
	fmt.Fprintf(&sb, "/-- `Keeper.Attest`: the assignments to `%s`, the attestation the vote is appended to, in program order -/\ndef attestLookup : List AttSource := [", c03LookupVar)
	if c03LookupVar == "" {
		c03Lookup = []string{"other:no `x.Votes = append(x.Votes, …)` found in Keeper.Attest"}
	}
	for i, k := range c03Lookup {
		if i > 0 {
			sb.WriteString(", ")
		}
		switch {
		case k == "ownKey" || k == "fresh":
			sb.WriteString("." + k)
		default:
			sb.WriteString(".otherStored " + leanStr(strings.TrimPrefix(k, "other:")))
		}
	}
	sb.WriteString("]\n\n")
	c.facts["C03.attestLookup"] = c03Lookup

	sb.WriteString(c.c03KeyLayoutLean())
	sb.WriteString(c.c03DispatchLean())
	sb.WriteString(c.c03ProgLean())
	sb.WriteString(c.c03FlowLean(flowTypes, classOnly))
	sb.WriteString(c.c03InterfaceLean())
	sb.WriteString("end FxVerif.Gen.C03\n")
	c.write("C03.lean", sb.String())
	c.facts["C03.claims"] = factClaims
	c.facts["C03.handlerView"] = viewFacts
	c.facts["C03.viewFields"] = viewFieldFacts
	c.facts["C03.chains"] = fchains
}
