package main

import (
	"fmt"
	"go/ast"
	"go/token"
	"os"
	"path/filepath"
	"regexp"
	"strconv"
	"strings"
)

// C12 (part 2): the *key plan* of the three confirm handlers, read off the Go AST.
//
// For every handler (BatchConfirmHandler, OracleSetConfirmHandler, BridgeCallConfirmHandler):
//   * every assignment to the object variable, in source order (`obj := k.GetX(ctx, …)`, later `obj = k.GetY(ctx, …)`
//     fallbacks), each resolved THROUGH the callee: the `types.Get…Key(…)` call in the callee's body with the callee's
//     parameters substituted by the caller's argument expressions; a callee that has no key call but compares fields
//     of iterated objects with its parameters (`x.F == p`) becomes a partial-key scan;
//   * the expression the checkpoint is computed over and the gravity id expression;
//   * the argument list of ValidateConfirmSign;
//   * the duplicate check and the confirm-store write, resolved to their key calls the same way;
//   * the order of these steps.
// Also: the key of the three object stores (StoreBatch, StoreOracleSet, SetOutgoingBridgeCall), the parameters every key
// function uses, the Delete* calls of the pruning sites, and the constants of the two signature decoders.

type c12Slot struct {
	Kind string `json:"kind"` // token | nonce | oracle | other:<type>
	Expr string `json:"expr"` // msg.X | obj.X | oracle | ?<text>
}

type c12KeyRef struct {
	Via   string    `json:"via"`   // keeper method called by the handler
	KeyFn string    `json:"keyFn"` // types.Get…Key function reached ("scan" for a compare-while-iterating callee, "" if none)
	Slots []c12Slot `json:"slots"`
}

type c12Plan struct {
	Handler    string      `json:"handler"`
	Kind       string      `json:"kind"`
	Lookups    []c12KeyRef `json:"lookups"`
	Checkpoint []string    `json:"checkpoint"` // "<fn>(<object expr>; <gravity id expr>)" per GetCheckpoint call
	Validate   []string    `json:"validate"`   // arguments of ValidateConfirmSign after ctx
	Dup        c12KeyRef   `json:"dup"`
	Store      c12KeyRef   `json:"store"`
	Order      []string    `json:"order"`
}

func exprIdent(e ast.Expr) string {
	if id, ok := e.(*ast.Ident); ok {
		return id.Name
	}
	return ""
}

// keeperCall: `k.Name(args…)` -> Name, args
func keeperCall(e ast.Expr) (string, []ast.Expr, bool) {
	ce, ok := e.(*ast.CallExpr)
	if !ok {
		return "", nil, false
	}
	se, ok := ce.Fun.(*ast.SelectorExpr)
	if !ok {
		return "", nil, false
	}
	if id, ok := se.X.(*ast.Ident); !ok || id.Name != "k" {
		return "", nil, false
	}
	return se.Sel.Name, ce.Args, true
}

func (c *ctxT) fnParams(fd *ast.FuncDecl) (names, tys []string) {
	for _, p := range fd.Type.Params.List {
		t := c.src(p.Type)
		for _, n := range p.Names {
			names = append(names, n.Name)
			tys = append(tys, t)
		}
	}
	return
}

func slotKindOfType(t string) string {
	switch t {
	case "string":
		return "token"
	case "uint64":
		return "nonce"
	case "sdk.AccAddress":
		return "oracle"
	}
	return "other:" + t
}

func slotKindOfField(f string) string {
	switch {
	case strings.Contains(f, "Nonce"):
		return "nonce"
	case strings.Contains(f, "Contract"):
		return "token"
	}
	return "other:" + f
}

// subst rewrites an expression of the callee in terms of the caller: a parameter becomes the caller's argument text,
// `param.Field` becomes `<arg>.Field`.
func (c *ctxT) subst(e ast.Expr, env map[string]string) string {
	switch x := e.(type) {
	case *ast.Ident:
		if v, ok := env[x.Name]; ok {
			return v
		}
		return "?" + x.Name
	case *ast.SelectorExpr:
		if id, ok := x.X.(*ast.Ident); ok {
			if v, ok := env[id.Name]; ok {
				return v + "." + x.Sel.Name
			}
		}
	case *ast.CompositeLit, *ast.CallExpr:
		// `[]byte{}`, `sdk.AccAddress{}`, `nil`-like empty suffixes of prefix keys
		s := solWS.ReplaceAllString(c.src(e), "")
		if strings.HasSuffix(s, "{}") {
			return "<empty>"
		}
	}
	return "?" + solWS.ReplaceAllString(c.src(e), " ")
}

// keyFnDecl finds `func Get…Key(...)` in x/crosschain/types.
func (c *ctxT) keyFnDecl(name string) *ast.FuncDecl {
	return c.findFunc("x/crosschain/types", "", name)
}

// resolveKey resolves `k.<via>(ctx, args…)` to the key it reads / writes.
func (c *ctxT) resolveKey(via string, args []ast.Expr, callerEnv func(ast.Expr) string) c12KeyRef {
	ref := c12KeyRef{Via: via}
	fd := c.findFunc("x/crosschain/keeper", "Keeper", via)
	if fd == nil || fd.Body == nil {
		return ref
	}
	names, _ := c.fnParams(fd)
	env := map[string]string{}
	for i, n := range names {
		// names[0] is ctx; args are the call's arguments after ctx
		if i >= 1 && i-1 < len(args) {
			env[n] = callerEnv(args[i-1])
		}
	}
	// first `types.Get…Key(…)` call of the body
	var keyCall *ast.CallExpr
	ast.Inspect(fd.Body, func(n ast.Node) bool {
		if keyCall != nil {
			return false
		}
		if ce, ok := n.(*ast.CallExpr); ok {
			if se, ok := ce.Fun.(*ast.SelectorExpr); ok {
				if id, ok := se.X.(*ast.Ident); ok && id.Name == "types" && strings.HasPrefix(se.Sel.Name, "Get") && strings.HasSuffix(se.Sel.Name, "Key") {
					keyCall = ce
					return false
				}
			}
		}
		return true
	})
	if keyCall != nil {
		ref.KeyFn = keyCall.Fun.(*ast.SelectorExpr).Sel.Name
		var ptys []string
		if kd := c.keyFnDecl(ref.KeyFn); kd != nil {
			_, ptys = c.fnParams(kd)
		}
		for i, a := range keyCall.Args {
			kind := "other:?"
			if i < len(ptys) {
				kind = slotKindOfType(ptys[i])
			}
			ref.Slots = append(ref.Slots, c12Slot{Kind: kind, Expr: c.subst(a, env)})
		}
		return ref
	}
	// no key call: comparisons `x.F == param` (either side) while iterating
	ast.Inspect(fd.Body, func(n ast.Node) bool {
		be, ok := n.(*ast.BinaryExpr)
		if !ok || be.Op != token.EQL {
			return true
		}
		for _, pr := range [][2]ast.Expr{{be.X, be.Y}, {be.Y, be.X}} {
			se, ok := pr[0].(*ast.SelectorExpr)
			id, ok2 := pr[1].(*ast.Ident)
			if !ok || !ok2 {
				continue
			}
			if v, isParam := env[id.Name]; isParam {
				ref.KeyFn = "scan"
				ref.Slots = append(ref.Slots, c12Slot{Kind: slotKindOfField(se.Sel.Name), Expr: v})
			}
		}
		return true
	})
	return ref
}

func (c *ctxT) c12Plan(handler, kind string) c12Plan {
	p := c12Plan{Handler: handler, Kind: kind}
	fd := c.findFunc("x/crosschain/keeper", "Keeper", handler)
	if fd == nil || fd.Body == nil {
		return p
	}
	names, _ := c.fnParams(fd)
	msgVar := ""
	if len(names) >= 2 {
		msgVar = names[1]
	}
	objVar, oracleVar, cpVar := "", "", ""
	norm := func(e ast.Expr) string {
		s := solWS.ReplaceAllString(c.src(e), " ")
		switch x := e.(type) {
		case *ast.Ident:
			switch {
			case x.Name == objVar && objVar != "":
				return "obj"
			case x.Name == oracleVar && oracleVar != "":
				return "oracle"
			case x.Name == cpVar && cpVar != "":
				return "checkpoint"
			case x.Name == msgVar:
				return "msg"
			}
		case *ast.SelectorExpr:
			if id, ok := x.X.(*ast.Ident); ok {
				switch {
				case id.Name == msgVar:
					return "msg." + x.Sel.Name
				case id.Name == objVar && objVar != "":
					return "obj." + x.Sel.Name
				}
			}
		}
		return s
	}
	step := func(s string) {
		if len(p.Order) == 0 || p.Order[len(p.Order)-1] != s {
			p.Order = append(p.Order, s)
		}
	}
	isConfirmStoreRead := func(name string) bool {
		return strings.HasSuffix(name, "Confirm") && (strings.HasPrefix(name, "Get") || strings.HasPrefix(name, "Has"))
	}
	var walk func(stmts []ast.Stmt)
	handleAssign := func(s *ast.AssignStmt) {
		if len(s.Rhs) != 1 {
			return
		}
		rhs := s.Rhs[0]
		lhs0 := exprIdent(s.Lhs[0])
		if name, args, ok := keeperCall(rhs); ok {
			switch {
			case name == "ValidateConfirmSign":
				oracleVar = lhs0
				for _, a := range args[1:] {
					p.Validate = append(p.Validate, norm(a))
				}
				step("validate")
				return
			case strings.HasPrefix(name, "Get") && !isConfirmStoreRead(name) && name != "GetGravityID" && (objVar == "" || lhs0 == objVar):
				if objVar == "" {
					objVar = lhs0
				}
				if len(args) > 0 {
					p.Lookups = append(p.Lookups, c.resolveKey(name, args[1:], norm))
				}
				step("lookup")
				return
			}
		}
		// checkpoint, err = obj.GetCheckpoint(gid) / trontypes.GetCheckpointX(obj, gid)
		if ce, ok := rhs.(*ast.CallExpr); ok {
			if se, ok := ce.Fun.(*ast.SelectorExpr); ok && strings.HasPrefix(se.Sel.Name, "GetCheckpoint") {
				cpVar = lhs0
				fn := se.Sel.Name
				var obj, gid string
				if id, ok := se.X.(*ast.Ident); ok && id.Name == "trontypes" {
					fn = "trontypes." + fn
					if len(ce.Args) == 2 {
						obj, gid = norm(ce.Args[0]), norm(ce.Args[1])
					}
				} else if len(ce.Args) == 1 {
					obj, gid = norm(se.X), norm(ce.Args[0])
				}
				p.Checkpoint = append(p.Checkpoint, fmt.Sprintf("%s(%s; %s)", fn, obj, gid))
				step("checkpoint")
			}
		}
	}
	walk = func(stmts []ast.Stmt) {
		for _, st := range stmts {
			switch s := st.(type) {
			case *ast.AssignStmt:
				handleAssign(s)
			case *ast.IfStmt:
				if s.Init != nil {
					if as, ok := s.Init.(*ast.AssignStmt); ok {
						handleAssign(as)
					}
				}
				// duplicate check: a confirm-store read inside the condition
				isDup := false
				ast.Inspect(s.Cond, func(n ast.Node) bool {
					if name, args, ok := keeperCall2(n); ok && isConfirmStoreRead(name) && len(args) > 0 {
						p.Dup = c.resolveKey(name, args[1:], norm)
						isDup = true
						step("dup")
						return false
					}
					return true
				})
				if !isDup {
					cond := solWS.ReplaceAllString(c.src(s.Cond), " ")
					if objVar != "" && (cond == objVar+" == nil" || cond == "!found") && oracleVar == "" && cpVar == "" {
						// `if obj == nil { obj = fallback }` has an assignment to the object variable in its body
						hasFallback := false
						for _, b := range s.Body.List {
							if as, ok := b.(*ast.AssignStmt); ok && exprIdent(as.Lhs[0]) == objVar {
								hasFallback = true
							}
						}
						if !hasFallback {
							step("notfound")
						}
					}
				}
				walk(s.Body.List)
				if el, ok := s.Else.(*ast.BlockStmt); ok {
					walk(el.List)
				}
			case *ast.ExprStmt:
				if name, args, ok := keeperCall(s.X); ok && strings.HasPrefix(name, "Set") && strings.HasSuffix(name, "Confirm") && len(args) > 0 {
					p.Store = c.resolveKey(name, args[1:], norm)
					step("store")
				}
			}
		}
	}
	walk(fd.Body.List)
	return p
}

func keeperCall2(n ast.Node) (string, []ast.Expr, bool) {
	e, ok := n.(ast.Expr)
	if !ok {
		return "", nil, false
	}
	return keeperCall(e)
}

// object stores: the key under which each object kind is written, in terms of the stored object's own fields
func (c *ctxT) c12ObjectKey(fn string) c12KeyRef {
	fd := c.findFunc("x/crosschain/keeper", "Keeper", fn)
	if fd == nil {
		return c12KeyRef{Via: fn}
	}
	names, _ := c.fnParams(fd)
	var args []ast.Expr
	for _, n := range names[1:] {
		args = append(args, ast.NewIdent(n))
	}
	obj := ""
	if len(names) > 1 {
		obj = names[1]
	}
	return c.resolveKey(fn, args, func(e ast.Expr) string {
		if id, ok := e.(*ast.Ident); ok && id.Name == obj {
			return "obj"
		}
		return "?" + c.src(e)
	})
}

// keyFnUses: for a key function, its parameters and which of them occur in the body
func (c *ctxT) c12KeyFnUses(name string) (params []string, used []string) {
	fd := c.keyFnDecl(name)
	if fd == nil || fd.Body == nil {
		return nil, nil
	}
	params, _ = c.fnParams(fd)
	seen := map[string]bool{}
	ast.Inspect(fd.Body, func(n ast.Node) bool {
		if id, ok := n.(*ast.Ident); ok {
			seen[id.Name] = true
		}
		return true
	})
	for _, p := range params {
		if seen[p] {
			used = append(used, p)
		}
	}
	return
}

// delete calls (`k.Delete…(ctx, …)`) of a keeper function, in source order
func (c *ctxT) c12Deletes(fn string) []string {
	fd := c.findFunc("x/crosschain/keeper", "Keeper", fn)
	var out []string
	if fd == nil || fd.Body == nil {
		return out
	}
	ast.Inspect(fd.Body, func(n ast.Node) bool {
		if name, _, ok := keeperCall2(n); ok && strings.HasPrefix(name, "Delete") {
			out = append(out, name)
		}
		return true
	})
	return out
}

type c12SigRule struct {
	Func   string   `json:"func"`
	MinLen string   `json:"minLen"` // the `len(signature) < N` guard
	VNorm  []string `json:"vNorm"`  // values of signature[64] that are normalised
	VSub   string   `json:"vSub"`   // … by subtracting this
	Prefix string   `json:"prefix"` // constant hashed in front of the digest
	Cmp    string   `json:"cmp"`    // comparison in Validate…Signature
}

func (c *ctxT) c12SigRule(rel, fn, validate string) c12SigRule {
	r := c12SigRule{Func: fn}
	fd := c.findFunc(rel, "", fn)
	if fd == nil || fd.Body == nil {
		return r
	}
	ast.Inspect(fd.Body, func(n ast.Node) bool {
		switch x := n.(type) {
		case *ast.BinaryExpr:
			s := solWS.ReplaceAllString(c.src(x), " ")
			if x.Op == token.LSS && strings.HasPrefix(s, "len(signature) < ") {
				r.MinLen = strings.TrimPrefix(s, "len(signature) < ")
			}
			if x.Op == token.EQL && strings.HasPrefix(s, "signature[64] == ") {
				r.VNorm = append(r.VNorm, strings.TrimPrefix(s, "signature[64] == "))
			}
		case *ast.AssignStmt:
			s := solWS.ReplaceAllString(c.src(x), " ")
			if strings.HasPrefix(s, "signature[64] -= ") {
				r.VSub = strings.TrimPrefix(s, "signature[64] -= ")
			}
		case *ast.CallExpr:
			if c.src(x.Fun) == "append" && len(x.Args) == 2 {
				a0 := solWS.ReplaceAllString(c.src(x.Args[0]), "")
				if strings.HasPrefix(a0, "[]uint8(") {
					r.Prefix = strings.TrimSuffix(strings.TrimPrefix(a0, "[]uint8("), ")")
				}
			}
		}
		return true
	})
	if vd := c.findFunc(rel, "", validate); vd != nil && vd.Body != nil {
		ast.Inspect(vd.Body, func(n ast.Node) bool {
			if is, ok := n.(*ast.IfStmt); ok {
				s := solWS.ReplaceAllString(c.src(is.Cond), " ")
				if strings.HasPrefix(s, "addr ") {
					r.Cmp = s
				}
			}
			return true
		})
	}
	return r
}

func c12LeanKeyRef(r c12KeyRef) string {
	var ss []string
	for _, s := range r.Slots {
		ss = append(ss, fmt.Sprintf("(%s, %s)", leanStr(s.Kind), leanStr(s.Expr)))
	}
	return fmt.Sprintf("⟨%s, %s, %s⟩", leanStr(r.Via), leanStr(r.KeyFn), leanList(ss))
}

func (c *ctxT) c12PlanLean() string {
	var sb strings.Builder
	sb.WriteString(`/-- a store key as the code builds it: the keeper method called, the ` + "`types.Get…Key`" + ` function it reaches ("scan": the
callee compares fields of iterated objects instead), and per key component (kind from the key function's parameter
type: string = token, uint64 = nonce, sdk.AccAddress = oracle) the caller-side expression it is fed with
(` + "`msg.X`" + `: message field, ` + "`obj.X`" + `: field of the looked-up object, ` + "`oracle`" + `: the address ValidateConfirmSign returned) -/
structure KeyRef where
  via : String
  keyFn : String
  slots : List (String × String)
  deriving DecidableEq, Repr

structure Plan where
  handler : String
  kind : String
  lookups : List KeyRef        -- assignments to the object variable, in source order (later ones are fallbacks)
  checkpoint : List String     -- every GetCheckpoint call: "<fn>(<object expr>; <gravity id expr>)"
  validate : List String       -- arguments of ValidateConfirmSign after ctx
  dup : KeyRef                 -- the duplicate check
  store : KeyRef               -- the confirm-store write
  order : List String          -- order of the steps in the source
  deriving DecidableEq, Repr

`)
	plans := []c12Plan{
		c.c12Plan("BatchConfirmHandler", "batch"),
		c.c12Plan("OracleSetConfirmHandler", "oracleSet"),
		c.c12Plan("BridgeCallConfirmHandler", "bridgeCall"),
	}
	sb.WriteString("def handlerPlans : List Plan := [\n")
	for i, p := range plans {
		var lk []string
		for _, l := range p.Lookups {
			lk = append(lk, c12LeanKeyRef(l))
		}
		sep := ","
		if i == len(plans)-1 {
			sep = ""
		}
		fmt.Fprintf(&sb, "  { handler := %s, kind := %s,\n    lookups := %s,\n    checkpoint := %s,\n    validate := %s,\n    dup := %s,\n    store := %s,\n    order := %s }%s\n",
			leanStr(p.Handler), leanStr(p.Kind), leanList(lk), c12LeanStrs(p.Checkpoint), c12LeanStrs(p.Validate),
			c12LeanKeyRef(p.Dup), c12LeanKeyRef(p.Store), c12LeanStrs(p.Order), sep)
	}
	sb.WriteString("]\n\n")
	c.facts["C12.handlerPlans"] = plans

	objKeys := map[string]c12KeyRef{}
	sb.WriteString("/-- the key each object store writes under, in terms of the stored object's own fields -/\ndef objectKeys : List (String × KeyRef) := [\n")
	oks := [][2]string{{"batch", "StoreBatch"}, {"oracleSet", "StoreOracleSet"}, {"bridgeCall", "SetOutgoingBridgeCall"}}
	for i, ok := range oks {
		r := c.c12ObjectKey(ok[1])
		objKeys[ok[0]] = r
		sep := ","
		if i == len(oks)-1 {
			sep = ""
		}
		fmt.Fprintf(&sb, "  (%s, %s)%s\n", leanStr(ok[0]), c12LeanKeyRef(r), sep)
	}
	sb.WriteString("]\n\n")
	c.facts["C12.objectKeys"] = objKeys

	// key functions reached anywhere above: parameters and the parameters their body uses
	keyFns := map[string]bool{}
	for _, p := range plans {
		for _, l := range p.Lookups {
			keyFns[l.KeyFn] = true
		}
		keyFns[p.Dup.KeyFn], keyFns[p.Store.KeyFn] = true, true
	}
	for _, r := range objKeys {
		keyFns[r.KeyFn] = true
	}
	sb.WriteString("/-- per key function: its parameters, and those of them its body mentions -/\ndef keyFnUses : List (String × List String × List String) := [\n")
	first := true
	for _, n := range sortedKeys(keyFns) {
		if n == "" || n == "scan" {
			continue
		}
		ps, us := c.c12KeyFnUses(n)
		if !first {
			sb.WriteString(",\n")
		}
		first = false
		fmt.Fprintf(&sb, "  (%s, %s, %s)", leanStr(n), c12LeanStrs(ps), c12LeanStrs(us))
	}
	sb.WriteString("\n]\n\n")
	var kfs []string
	for _, n := range sortedKeys(keyFns) {
		if n != "" && n != "scan" {
			kfs = append(kfs, n)
		}
	}
	sb.WriteString(c.c12KeyLayoutLean(kfs))

	dels := map[string][]string{}
	sb.WriteString("/-- `k.Delete…` calls of the sites that remove a stored object, in source order -/\ndef deleteSites : List (String × List String) := [\n")
	dfs := []string{"OutgoingTxBatchExecuted", "CancelOutgoingTxBatch", "pruneOracleSet", "DeleteOutgoingBridgeCallRecord"}
	for i, f := range dfs {
		d := c.c12Deletes(f)
		dels[f] = d
		sep := ","
		if i == len(dfs)-1 {
			sep = ""
		}
		fmt.Fprintf(&sb, "  (%s, %s)%s\n", leanStr(f), c12LeanStrs(d), sep)
	}
	sb.WriteString("]\n\n")
	c.facts["C12.deleteSites"] = dels

	rules := []c12SigRule{
		c.c12SigRule("x/crosschain/types", "EthAddressFromSignature", "ValidateEthereumSignature"),
		c.c12SigRule("x/tron/types", "TronAddressFromSignature", "ValidateTronSignature"),
	}
	sb.WriteString("/-- the two signature decoders: minimum length guard, the values of the recovery byte that are normalised, the\nsubtrahend, the prefix constant hashed before the digest, the final comparison -/\nstructure SigRule where\n  func : String\n  minLen : String\n  vNorm : List String\n  vSub : String\n  pfx : String\n  cmp : String\n  minLenN : Nat        -- the same constants as numbers (0 when the text is not a decimal literal)\n  vNormN : List Nat\n  vSubN : Nat\n  deriving DecidableEq, Repr\n\ndef sigRules : List SigRule := [\n")
	for i, r := range rules {
		sep := ","
		if i == len(rules)-1 {
			sep = ""
		}
		num := func(t string) string {
			if n, err := strconv.ParseUint(t, 10, 32); err == nil {
				return strconv.FormatUint(n, 10)
			}
			return "0"
		}
		var vn []string
		for _, v := range r.VNorm {
			vn = append(vn, num(v))
		}
		fmt.Fprintf(&sb, "  ⟨%s, %s, %s, %s, %s, %s, %s, %s, %s⟩%s\n", leanStr(r.Func), leanStr(r.MinLen), c12LeanStrs(r.VNorm), leanStr(r.VSub), leanStr(r.Prefix), leanStr(r.Cmp),
			num(r.MinLen), leanList(vn), num(r.VSub), sep)
	}
	sb.WriteString("]\n\n")
	c.facts["C12.sigRules"] = rules

	// transaction signer of the confirm messages (proto option cosmos.msg.v1.signer), and the MsgConfirm wrapper
	signers := c.c12ProtoSigners([]string{"MsgOracleSetConfirm", "MsgConfirmBatch", "MsgBridgeCallConfirm", "MsgConfirm"})
	sb.WriteString("/-- `option (cosmos.msg.v1.signer)` of the confirm messages in proto/fx/gravity/crosschain/v1/tx.proto: the field whose\naccount must have signed the transaction -/\ndef confirmSigners : List (String × String) := [")
	for i, kv := range signers {
		if i > 0 {
			sb.WriteString(", ")
		}
		fmt.Fprintf(&sb, "(%s, %s)", leanStr(kv[0]), leanStr(kv[1]))
	}
	sb.WriteString("]\n\n")
	c.facts["C12.confirmSigners"] = signers
	unpack := c.findFunc("x/crosschain/types", "MsgConfirm", "UnpackInterfaces") != nil
	fmt.Fprintf(&sb, "/-- does `MsgConfirm` implement `UnpackInterfaces` (without it the inner `Any` of a decoded transaction has no cached\nvalue and `MsgServer.Confirm` rejects every transaction) -/\ndef msgConfirmUnpacks : Bool := %v\n\n", unpack)
	var wg []string
	if fd := c.findFunc("x/crosschain/keeper", "MsgServer", "Confirm"); fd != nil && fd.Body != nil {
		ast.Inspect(fd.Body, func(n ast.Node) bool {
			if is, ok := n.(*ast.IfStmt); ok {
				wg = append(wg, "if "+solWS.ReplaceAllString(c.src(is.Cond), " "))
			}
			return true
		})
	}
	fmt.Fprintf(&sb, "/-- `if` conditions of `MsgServer.Confirm` (the wrapper): nothing compares the wrapper's bridger with the inner one -/\ndef wrapperGuards : List String := %s\n\n", c12LeanStrs(wg))
	c.facts["C12.msgConfirmUnpacks"] = unpack
	return sb.String()
}

var protoMsgRe = regexp.MustCompile(`message\s+(\w+)\s*\{`)
var protoSignerRe = regexp.MustCompile(`option\s*\(cosmos\.msg\.v1\.signer\)\s*=\s*"(\w+)"`)

func (c *ctxT) c12ProtoSigners(msgs []string) [][2]string {
	var out [][2]string
	bz, err := os.ReadFile(filepath.Join(c.repo, "proto", "fx", "gravity", "crosschain", "v1", "tx.proto"))
	if err != nil {
		return out
	}
	found := map[string]string{}
	src := string(bz)
	for _, m := range protoMsgRe.FindAllStringSubmatchIndex(src, -1) {
		open := m[1] - 1
		cl := matchParen(src, open)
		if cl < 0 {
			continue
		}
		name := src[m[2]:m[3]]
		if sm := protoSignerRe.FindStringSubmatch(src[open:cl]); sm != nil {
			found[name] = sm[1]
		} else {
			found[name] = ""
		}
	}
	for _, n := range msgs {
		out = append(out, [2]string{n, found[n]})
	}
	return out
}

// ---- byte layout of the key functions ------------------------------------------------------------------------------

type c12KeyPart struct {
	Kind string `json:"kind"` // const | text | be8 | addr | other
	Arg  string `json:"arg"`
}

// flattenAppend flattens nested `append(a, b...)` into the sequence of concatenated parts.
func (c *ctxT) flattenAppend(e ast.Expr, params map[string]bool) []c12KeyPart {
	switch x := e.(type) {
	case *ast.Ident:
		if params[x.Name] {
			return []c12KeyPart{{"other", x.Name}}
		}
		return []c12KeyPart{{"const", x.Name}}
	case *ast.CallExpr:
		fn := solWS.ReplaceAllString(c.src(x.Fun), "")
		switch {
		case fn == "append" && len(x.Args) == 2 && x.Ellipsis.IsValid():
			return append(c.flattenAppend(x.Args[0], params), c.flattenAppend(x.Args[1], params)...)
		case fn == "[]byte" && len(x.Args) == 1:
			if id, ok := x.Args[0].(*ast.Ident); ok && params[id.Name] {
				return []c12KeyPart{{"text", id.Name}}
			}
		case fn == "sdk.Uint64ToBigEndian" && len(x.Args) == 1:
			if id, ok := x.Args[0].(*ast.Ident); ok && params[id.Name] {
				return []c12KeyPart{{"be8", id.Name}}
			}
		case strings.HasSuffix(fn, ".Bytes") && len(x.Args) == 0:
			if se, ok := x.Fun.(*ast.SelectorExpr); ok {
				if id, ok := se.X.(*ast.Ident); ok && params[id.Name] {
					return []c12KeyPart{{"addr", id.Name}}
				}
			}
		}
	}
	return []c12KeyPart{{"other", solWS.ReplaceAllString(c.src(e), " ")}}
}

// c12KeyParts: the parts a key function concatenates (its body must be a single return of nested appends).
func (c *ctxT) c12KeyParts(name string) []c12KeyPart {
	fd := c.keyFnDecl(name)
	if fd == nil || fd.Body == nil {
		return nil
	}
	names, _ := c.fnParams(fd)
	params := map[string]bool{}
	for _, n := range names {
		params[n] = true
	}
	if len(fd.Body.List) != 1 {
		return []c12KeyPart{{"other", fmt.Sprintf("<%d statements>", len(fd.Body.List))}}
	}
	rs, ok := fd.Body.List[0].(*ast.ReturnStmt)
	if !ok || len(rs.Results) != 1 {
		return []c12KeyPart{{"other", "<no single return>"}}
	}
	return c.flattenAppend(rs.Results[0], params)
}

// c12KeyPrefix: bytes of a `Name = []byte{0x..}` declaration of x/crosschain/types
func (c *ctxT) c12KeyPrefix(name string) []byte {
	for _, f := range c.pkg("x/crosschain/types") {
		for _, d := range f.Decls {
			gd, ok := d.(*ast.GenDecl)
			if !ok || gd.Tok != token.VAR {
				continue
			}
			for _, sp := range gd.Specs {
				vs := sp.(*ast.ValueSpec)
				for i, n := range vs.Names {
					if n.Name != name || i >= len(vs.Values) {
						continue
					}
					cl, ok := vs.Values[i].(*ast.CompositeLit)
					if !ok {
						return nil
					}
					var out []byte
					for _, el := range cl.Elts {
						if lit, ok := el.(*ast.BasicLit); ok {
							if v, err := strconv.ParseUint(lit.Value, 0, 8); err == nil {
								out = append(out, byte(v))
							}
						}
					}
					return out
				}
			}
		}
	}
	return nil
}

func (c *ctxT) c12KeyLayoutLean(fns []string) string {
	var sb strings.Builder
	sb.WriteString("/-- what each key function concatenates, in order: `const` = a package-level prefix, `text` = []byte(<string parameter>),\n`be8` = sdk.Uint64ToBigEndian(<uint64 parameter>), `addr` = <address parameter>.Bytes() -/\ndef keyParts : List (String × List (String × String)) := [\n")
	consts := map[string]bool{}
	layout := map[string][]c12KeyPart{}
	for i, fn := range fns {
		ps := c.c12KeyParts(fn)
		layout[fn] = ps
		var xs []string
		for _, p := range ps {
			xs = append(xs, fmt.Sprintf("(%s, %s)", leanStr(p.Kind), leanStr(p.Arg)))
			if p.Kind == "const" {
				consts[p.Arg] = true
			}
		}
		sep := ","
		if i == len(fns)-1 {
			sep = ""
		}
		fmt.Fprintf(&sb, "  (%s, %s)%s\n", leanStr(fn), leanList(xs), sep)
	}
	sb.WriteString("]\n\n/-- the prefix bytes -/\ndef keyPrefixes : List (String × List Nat) := [")
	for i, n := range sortedKeys(consts) {
		if i > 0 {
			sb.WriteString(", ")
		}
		fmt.Fprintf(&sb, "(%s, %s)", leanStr(n), c12Bytes(c.c12KeyPrefix(n)))
	}
	sb.WriteString("]\n\n")
	c.facts["C12.keyParts"] = layout
	return sb.String()
}
