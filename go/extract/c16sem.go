package main

import (
	"fmt"
	"go/ast"
	"go/token"
	"os"
	"path/filepath"
	"regexp"
	"sort"
	"strings"
)

// C16 (semantic layer): re-reads the Go source and emits, as terms of the small languages of Model/C16Syntax.lean,
//   - every method of an in-repo type whose request carries an `Authority` field, statement by statement (guard
//     EXPRESSIONS: which two values are compared and how; helper methods followed one level);
//   - the router dispatch: Msg services (methods of the generated MsgServer interfaces), RegisterMsgServer call sites with
//     the concrete type registered, struct types with their embedded fields (for method promotion), the crosschain
//     per-chain routes;
//   - what ValidateBasic of each authority message does with the authority;
//   - the raw-store-update loop(s) of MsgUpdateStore, step by step in source order.
//
// Anything that is not recognised is emitted as `.other` / `.work`, so that a theorem, not the translator, breaks.
func init() { register(extractC16Sem) }

type c16Type struct {
	name   string // pkg.Type
	rel    string
	file   *ast.File
	st     *ast.StructType
	embeds []string
}

type c16x struct {
	c        *ctxT
	dirs     []string
	authMsgs map[string]map[string]bool          // pkg rel -> Msg type -> has Authority string field
	types    map[string]*c16Type                 // pkg.Type
	methods  map[string]map[string]*ast.FuncDecl // pkg.Type -> method -> decl
	fileOf   map[*ast.FuncDecl]*ast.File
	relOf    map[*ast.FuncDecl]string
	helpers  map[string]string // key -> lean term of body
	hOrder   []string
	otherID  int
	atoms    map[string]bool // non-governance operands that occur in authority checks (facts for the generator)
	mod      string          // import-path prefix of the module being read ("" = fx-core itself)
}

func (x *c16x) modPrefix() string {
	if x.mod != "" {
		return x.mod
	}
	return modPath
}

// c16Dirs lists every directory under x/ and app/ that contains non-test Go files.
func c16Dirs(c *ctxT) []string {
	var dirs []string
	for _, root := range []string{"x", "app", "types"} {
		_ = filepath.Walk(filepath.Join(c.repo, root), func(p string, info os.FileInfo, err error) error {
			if err != nil || !info.IsDir() {
				return nil
			}
			ents, _ := os.ReadDir(p)
			for _, e := range ents {
				n := e.Name()
				if !e.IsDir() && strings.HasSuffix(n, ".go") && !strings.HasSuffix(n, "_test.go") {
					rel, _ := filepath.Rel(c.repo, p)
					dirs = append(dirs, filepath.ToSlash(rel))
					break
				}
			}
			return nil
		})
	}
	sort.Strings(dirs)
	return dirs
}

func (x *c16x) typeName(rel string, f *ast.File, e ast.Expr) string {
	if s, ok := e.(*ast.StarExpr); ok {
		e = s.X
	}
	switch t := e.(type) {
	case *ast.Ident:
		return rel + "." + t.Name
	case *ast.SelectorExpr:
		if id, ok := t.X.(*ast.Ident); ok {
			ip := imports(f)[id.Name]
			if strings.HasPrefix(ip, x.modPrefix()) {
				return strings.TrimPrefix(ip, x.modPrefix()) + "." + t.Sel.Name
			}
			return "ext:" + id.Name + "." + t.Sel.Name
		}
	}
	return "?" + x.c.src(e)
}

func (x *c16x) load() {
	c := x.c
	for _, rel := range x.dirs {
		p := c.pkg(rel)
		for _, fn := range sortedKeys(p) {
			f := p[fn]
			for _, d := range f.Decls {
				switch dd := d.(type) {
				case *ast.GenDecl:
					if dd.Tok != token.TYPE {
						continue
					}
					for _, sp := range dd.Specs {
						ts := sp.(*ast.TypeSpec)
						st, ok := ts.Type.(*ast.StructType)
						if !ok {
							continue
						}
						t := &c16Type{name: rel + "." + ts.Name.Name, rel: rel, file: f, st: st}
						for _, fld := range st.Fields.List {
							if len(fld.Names) == 0 {
								t.embeds = append(t.embeds, x.typeName(rel, f, fld.Type))
							}
						}
						x.types[t.name] = t
						if strings.HasPrefix(ts.Name.Name, "Msg") {
							for _, fld := range st.Fields.List {
								for _, n := range fld.Names {
									if id, ok := fld.Type.(*ast.Ident); ok && n.Name == "Authority" && id.Name == "string" {
										if x.authMsgs[rel] == nil {
											x.authMsgs[rel] = map[string]bool{}
										}
										x.authMsgs[rel][ts.Name.Name] = true
									}
								}
							}
						}
					}
				case *ast.FuncDecl:
					x.fileOf[dd] = f
					x.relOf[dd] = rel
					if dd.Recv != nil {
						tn := rel + "." + recvName(dd)
						if x.methods[tn] == nil {
							x.methods[tn] = map[string]*ast.FuncDecl{}
						}
						x.methods[tn][dd.Name.Name] = dd
					}
				}
			}
		}
	}
}

// resolveMethod implements Go's method promotion syntactically: the method declared on the type, else on an embedded
// in-repo struct at the shallowest depth.  Returns the declaring type too.
func (x *c16x) resolveMethod(tn, m string) (*ast.FuncDecl, string) {
	level := []string{tn}
	for depth := 0; depth < 4 && len(level) > 0; depth++ {
		var next []string
		for _, t := range level {
			if fd, ok := x.methods[t][m]; ok {
				return fd, t
			}
			if td, ok := x.types[t]; ok {
				next = append(next, td.embeds...)
			}
		}
		level = next
	}
	return nil, ""
}

// fieldType follows a chain of field selectors from a type: returns the type name of recvType.f1.f2…
func (x *c16x) fieldType(tn, field string) string {
	td, ok := x.types[tn]
	if !ok {
		return "?" + tn + "." + field
	}
	for _, fld := range td.st.Fields.List {
		if len(fld.Names) == 0 {
			n := x.typeName(td.rel, td.file, fld.Type)
			if n[strings.LastIndex(n, ".")+1:] == field {
				return n
			}
		}
		for _, nm := range fld.Names {
			if nm.Name == field {
				return x.typeName(td.rel, td.file, fld.Type)
			}
		}
	}
	// promoted field
	for _, e := range td.embeds {
		if r := x.fieldType(e, field); !strings.HasPrefix(r, "?") {
			return r
		}
	}
	return "?" + tn + "." + field
}

type c16fn struct {
	fd       *ast.FuncDecl
	rel      string
	file     *ast.File
	recvVar  string
	recvType string
	req      string
	params   map[string]int
	inHelper bool
	// round 4: locals that hold the bytes some decoder made of a string operand (name -> decoder, operand), the error
	// variable of such a decoding (name -> decoder, operand), and string locals standing for a recognised expression
	locals  map[string][2]string
	errOf   map[string][2]string
	slocals map[string]string
}

// c16Decoders: functions that turn an address string into bytes, by selector name -> Dec constructor of Model/C16Syntax.lean
var c16Decoders = map[string]string{"AccAddressFromBech32": ".acc", "MustAccAddressFromBech32": ".acc", "ParseAddress": ".lenient"}

// decodeDef: `v, err := sdk.AccAddressFromBech32(S)` / `v, _, err := fxtypes.ParseAddress(S)` / `v := sdk.MustAcc…(S)`:
// records v (and err) and returns true.
func (x *c16x) decodeDef(fc *c16fn, as *ast.AssignStmt) bool {
	if len(as.Rhs) != 1 || len(as.Lhs) < 1 || len(as.Lhs) > 3 {
		return false
	}
	call, ok := as.Rhs[0].(*ast.CallExpr)
	if !ok || len(call.Args) != 1 {
		return false
	}
	se, ok := call.Fun.(*ast.SelectorExpr)
	if !ok {
		return false
	}
	dec, ok := c16Decoders[se.Sel.Name]
	if !ok {
		return false
	}
	op := x.sexpr(fc, call.Args[0])
	if strings.HasPrefix(op, ".other") {
		return false
	}
	if fc.locals == nil {
		fc.locals, fc.errOf = map[string][2]string{}, map[string][2]string{}
	}
	for i, l := range as.Lhs {
		id, ok := l.(*ast.Ident)
		if !ok {
			return false
		}
		if id.Name == "_" {
			continue
		}
		if i == 0 {
			fc.locals[id.Name] = [2]string{dec, op}
		} else if i == len(as.Lhs)-1 {
			fc.errOf[id.Name] = [2]string{dec, op}
		}
	}
	return true
}

// bytesOperand: the decoder and the string operand behind an expression that holds address BYTES.
func (x *c16x) bytesOperand(fc *c16fn, e ast.Expr) (dec, op string) {
	if p, ok := e.(*ast.ParenExpr); ok {
		return x.bytesOperand(fc, p.X)
	}
	if id, ok := e.(*ast.Ident); ok {
		if l, ok := fc.locals[id.Name]; ok {
			return l[0], l[1]
		}
	}
	if call, ok := e.(*ast.CallExpr); ok && len(call.Args) == 1 {
		if se, ok := call.Fun.(*ast.SelectorExpr); ok {
			switch se.Sel.Name {
			case "BytesToAddress": // common.BytesToAddress: the last 20 bytes
				if d, o := x.bytesOperand(fc, call.Args[0]); d == ".acc" {
					return ".evm20", o
				}
				return "?", x.sexpr(fc, e)
			case "Bytes":
			}
			if d, ok := c16Decoders[se.Sel.Name]; ok {
				return d, x.sexpr(fc, call.Args[0])
			}
		}
	}
	if call, ok := e.(*ast.CallExpr); ok && len(call.Args) == 0 {
		if se, ok := call.Fun.(*ast.SelectorExpr); ok && se.Sel.Name == "Bytes" {
			return x.bytesOperand(fc, se.X)
		}
	}
	return ".acc", x.sexpr(fc, e)
}

func (x *c16x) decCmp(fc *c16fn, a, b ast.Expr, whole ast.Node) string {
	da, oa := x.bytesOperand(fc, a)
	db, ob := x.bytesOperand(fc, b)
	if da != db || da == "?" {
		return x.bother(whole)
	}
	if da == ".acc" {
		return ".addrEq " + par(oa) + " " + par(ob)
	}
	return ".decEq " + da + " " + par(oa) + " " + par(ob)
}

func isCallTo(e ast.Expr, name string) bool {
	if p, ok := e.(*ast.ParenExpr); ok {
		return isCallTo(p.X, name)
	}
	call, ok := e.(*ast.CallExpr)
	if !ok {
		return false
	}
	se, ok := call.Fun.(*ast.SelectorExpr)
	return ok && se.Sel.Name == name
}

// constStr: the value of a string constant expression (a literal, or <alias>.<Name> declared in a package that can be read).
func (x *c16x) constStr(fc *c16fn, e ast.Expr) string {
	switch t := e.(type) {
	case *ast.BasicLit:
		if t.Kind == token.STRING {
			return strings.Trim(t.Value, "\"`")
		}
	case *ast.SelectorExpr:
		id, ok := t.X.(*ast.Ident)
		if !ok {
			break
		}
		ip := imports(fc.file)[id.Name]
		if !strings.HasPrefix(ip, x.modPrefix()) {
			break
		}
		rel := strings.TrimPrefix(ip, x.modPrefix())
		for _, f := range x.c.pkg(rel) {
			for _, d := range f.Decls {
				gd, ok := d.(*ast.GenDecl)
				if !ok || gd.Tok != token.CONST {
					continue
				}
				for _, sp := range gd.Specs {
					vs := sp.(*ast.ValueSpec)
					for i, n := range vs.Names {
						if n.Name == t.Sel.Name && i < len(vs.Values) {
							if bl, ok := vs.Values[i].(*ast.BasicLit); ok && bl.Kind == token.STRING {
								return strings.Trim(bl.Value, "\"`")
							}
						}
					}
				}
			}
		}
	}
	return ""
}

// moduleAccountFetch: e is `<recv…>.GetModuleAccount(ctx, NAME)` or a call of a receiver-rooted one-line getter whose body
// is `return <…>.GetModuleAccount(ctx, NAME)`; returns the module name ("" when not recognised).
func (x *c16x) moduleAccountFetch(fc *c16fn, e ast.Expr, depth int) string {
	call, ok := e.(*ast.CallExpr)
	if !ok || depth > 2 {
		return ""
	}
	se, ok := call.Fun.(*ast.SelectorExpr)
	if !ok {
		return ""
	}
	bt, rooted := x.rootedAtRecv(fc, se.X)
	if !rooted {
		return ""
	}
	if se.Sel.Name == "GetModuleAccount" && len(call.Args) == 2 {
		return x.constStr(fc, call.Args[1])
	}
	fd, _ := x.resolveMethod(bt, se.Sel.Name)
	if fd == nil || fd.Body == nil || len(fd.Body.List) != 1 {
		return ""
	}
	r, ok := fd.Body.List[0].(*ast.ReturnStmt)
	if !ok || len(r.Results) != 1 {
		return ""
	}
	return x.moduleAccountFetch(x.fnCtx(fd, ""), r.Results[0], depth+1)
}

func (x *c16x) fnCtx(fd *ast.FuncDecl, req string) *c16fn {
	fc := &c16fn{fd: fd, rel: x.relOf[fd], file: x.fileOf[fd], req: req, params: map[string]int{}}
	if fd.Recv != nil && len(fd.Recv.List) == 1 {
		if len(fd.Recv.List[0].Names) == 1 {
			fc.recvVar = fd.Recv.List[0].Names[0].Name
		}
		fc.recvType = fc.rel + "." + recvName(fd)
	}
	return fc
}

// rootedAtRecv: e is recv, recv.f, recv.f.g …; returns the type of the expression
func (x *c16x) rootedAtRecv(fc *c16fn, e ast.Expr) (string, bool) {
	switch t := e.(type) {
	case *ast.Ident:
		if t.Name == fc.recvVar && fc.recvVar != "" {
			return fc.recvType, true
		}
	case *ast.SelectorExpr:
		if bt, ok := x.rootedAtRecv(fc, t.X); ok {
			return x.fieldType(bt, t.Sel.Name), true
		}
	}
	return "", false
}

func (x *c16x) sexpr(fc *c16fn, e ast.Expr) string {
	c := x.c
	if p, ok := e.(*ast.ParenExpr); ok {
		return x.sexpr(fc, p.X)
	}
	switch t := e.(type) {
	case *ast.BasicLit:
		if t.Kind == token.STRING {
			s := strings.Trim(t.Value, "\"`")
			x.atoms["lit:"+s] = true
			return ".lit " + leanStr(s)
		}
	case *ast.Ident:
		if i, ok := fc.params[t.Name]; ok {
			return fmt.Sprintf(".param %d", i)
		}
		if sl, ok := fc.slocals[t.Name]; ok {
			return sl
		}
	case *ast.SelectorExpr:
		if id, ok := t.X.(*ast.Ident); ok && id.Name == fc.req && fc.req != "" {
			if t.Sel.Name == "Authority" {
				return ".reqAuthority"
			}
			x.atoms["field:"+t.Sel.Name] = true
			return ".reqField " + leanStr(t.Sel.Name)
		}
		if t.Sel.Name == "authority" {
			if _, ok := x.rootedAtRecv(fc, t.X); ok {
				return ".keeperAuthority"
			}
		}
	case *ast.CallExpr:
		if se, ok := t.Fun.(*ast.SelectorExpr); ok {
			// req.GetAuthority() / req.GetX()
			if id, ok := se.X.(*ast.Ident); ok && id.Name == fc.req && fc.req != "" && len(t.Args) == 0 && strings.HasPrefix(se.Sel.Name, "Get") {
				f := strings.TrimPrefix(se.Sel.Name, "Get")
				if f == "Authority" {
					return ".reqAuthority"
				}
				x.atoms["field:"+f] = true
				return ".reqField " + leanStr(f)
			}
			// recv.GetAuthority()  (string getter of an fx-core keeper, or the address getter of the embedded ethermint keeper)
			if se.Sel.Name == "GetAuthority" && len(t.Args) == 0 {
				if _, ok := x.rootedAtRecv(fc, se.X); ok {
					return ".keeperAuthority"
				}
			}
			// <addr>.String()
			if se.Sel.Name == "String" && len(t.Args) == 0 {
				inner := x.sexpr(fc, se.X)
				if inner == ".keeperAuthority" || strings.HasPrefix(inner, ".moduleAddr ") {
					return inner
				}
			}
			if se.Sel.Name == "NewModuleAddress" && len(t.Args) == 1 {
				x.atoms["module:"+c.src(t.Args[0])] = true
				return ".moduleAddr " + leanStr(c.src(t.Args[0]))
			}
			// address decoding wrappers in an address comparison: the operand is the encoded string
			if (se.Sel.Name == "MustAccAddressFromBech32" || se.Sel.Name == "AccAddress") && len(t.Args) == 1 {
				return x.sexpr(fc, t.Args[0])
			}
		}
	}
	return ".other " + leanStr(oneLine(c.src(e), 80))
}

func oneLine(s string, n int) string {
	s = strings.Join(strings.Fields(s), " ")
	if len(s) > n {
		s = s[:n] + "…"
	}
	return s
}

func (x *c16x) bother(e ast.Node) string {
	x.otherID++
	return fmt.Sprintf(".other %d %s", x.otherID, leanStr(oneLine(x.c.src(e), 80)))
}

func par(s string) string { return "(" + s + ")" }

func (x *c16x) bexpr(fc *c16fn, e ast.Expr) string {
	c := x.c
	switch t := e.(type) {
	case *ast.ParenExpr:
		return x.bexpr(fc, t.X)
	case *ast.UnaryExpr:
		if t.Op == token.NOT {
			return ".not " + par(x.bexpr(fc, t.X))
		}
	case *ast.BinaryExpr:
		switch t.Op {
		case token.NEQ, token.EQL:
			// `err != nil` where err is the error of a recognised address decoding
			if id, ok := t.X.(*ast.Ident); ok && isNil(t.Y) {
				if d, ok := fc.errOf[id.Name]; ok {
					ok := ".decodes " + d[0] + " " + par(d[1])
					if t.Op == token.NEQ {
						return ".not " + par(ok)
					}
					return ok
				}
			}
			// comparison of [20]byte values made by common.BytesToAddress
			if isCallTo(t.X, "BytesToAddress") || isCallTo(t.Y, "BytesToAddress") {
				cmp := x.decCmp(fc, t.X, t.Y, e)
				if t.Op == token.NEQ && !strings.HasPrefix(cmp, ".other") {
					return ".not " + par(cmp)
				}
				return cmp
			}
			a, b := x.sexpr(fc, t.X), x.sexpr(fc, t.Y)
			// only string comparisons: at least one side must be a recognised string operand
			if strings.HasPrefix(a, ".other") && strings.HasPrefix(b, ".other") {
				return x.bother(e)
			}
			op := ".ne "
			if t.Op == token.EQL {
				op = ".eq "
			}
			return op + par(a) + " " + par(b)
		case token.LAND:
			return ".and " + par(x.bexpr(fc, t.X)) + " " + par(x.bexpr(fc, t.Y))
		case token.LOR:
			return ".or " + par(x.bexpr(fc, t.X)) + " " + par(x.bexpr(fc, t.Y))
		}
	case *ast.CallExpr:
		fs := c.src(t.Fun)
		if fs == "strings.EqualFold" && len(t.Args) == 2 {
			return ".equalFold " + par(x.sexpr(fc, t.Args[0])) + " " + par(x.sexpr(fc, t.Args[1]))
		}
		if fs == "bytes.Equal" && len(t.Args) == 2 {
			return x.decCmp(fc, t.Args[0], t.Args[1], e)
		}
		if se, ok := t.Fun.(*ast.SelectorExpr); ok {
			if se.Sel.Name == "Equals" && len(t.Args) == 1 {
				return x.decCmp(fc, se.X, t.Args[0], e)
			}
			// bool helper method of the receiver, followed one level
			if !fc.inHelper {
				if bt, ok := x.rootedAtRecv(fc, se.X); ok {
					if key := x.helper(bt, se.Sel.Name, "bool"); key != "" {
						return ".call " + leanStr(key) + " " + x.sargs(fc, t.Args)
					}
				}
			}
		}
	}
	return x.bother(e)
}

// passesAuthority: a call is followed as an authority-check helper only if it receives the request's authority (or the
// request itself); any other call is ordinary work of the handler.
func (x *c16x) passesAuthority(fc *c16fn, args []ast.Expr) bool {
	for _, a := range args {
		if id, ok := a.(*ast.Ident); ok && id.Name == fc.req && fc.req != "" {
			return true
		}
		if se, ok := a.(*ast.SelectorExpr); ok && se.Sel.Name == "Authority" {
			if id, ok := se.X.(*ast.Ident); ok && id.Name == fc.req && fc.req != "" {
				return true
			}
		}
		if call, ok := a.(*ast.CallExpr); ok && len(call.Args) == 0 {
			if se, ok := call.Fun.(*ast.SelectorExpr); ok && se.Sel.Name == "GetAuthority" {
				if id, ok := se.X.(*ast.Ident); ok && id.Name == fc.req && fc.req != "" {
					return true
				}
			}
		}
	}
	return false
}

func (x *c16x) sargs(fc *c16fn, args []ast.Expr) string {
	var xs []string
	for _, a := range args {
		xs = append(xs, x.sexpr(fc, a))
	}
	return leanList(xs)
}

var c16ErrCtors = map[string]bool{"Wrap": true, "Wrapf": true, "New": true, "Errorf": true}

func isErrCtor(e ast.Expr) bool {
	call, ok := e.(*ast.CallExpr)
	if !ok {
		return false
	}
	se, ok := call.Fun.(*ast.SelectorExpr)
	return ok && c16ErrCtors[se.Sel.Name]
}

func isNil(e ast.Expr) bool {
	id, ok := e.(*ast.Ident)
	return ok && id.Name == "nil"
}

// helper translates a helper method (result kind "bool" or "error") of type bt, declared in the repo (possibly promoted);
// returns its key or "" when it cannot be followed.
func (x *c16x) helper(bt, name, kind string) string {
	fd, decl := x.resolveMethod(bt, name)
	if fd == nil || fd.Body == nil || fd.Type.Results == nil || len(fd.Type.Results.List) != 1 {
		return ""
	}
	if id, ok := fd.Type.Results.List[0].Type.(*ast.Ident); !ok || id.Name != kind {
		return ""
	}
	key := decl + "." + name
	if _, ok := x.helpers[key]; ok {
		return key
	}
	fc := x.fnCtx(fd, "")
	fc.inHelper = true
	i := 0
	for _, prm := range fd.Type.Params.List {
		for _, n := range prm.Names {
			fc.params[n.Name] = i
			i++
		}
		if len(prm.Names) == 0 {
			i++
		}
		// a request parameter inside a helper: its Authority field is the request's
		if st, ok := prm.Type.(*ast.StarExpr); ok && len(prm.Names) == 1 {
			if tn := x.typeName(fc.rel, fc.file, st.X); x.isAuthMsg(tn) {
				fc.req = prm.Names[0].Name
				delete(fc.params, fc.req)
			}
		}
	}
	val := func(e ast.Expr) (string, bool) {
		if kind == "bool" {
			if id, ok := e.(*ast.Ident); ok && (id.Name == "true" || id.Name == "false") {
				return id.Name, true
			}
			return "", false
		}
		if isNil(e) {
			return "false", true
		}
		if isErrCtor(e) {
			return "true", true
		}
		return "", false
	}
	// a NAMED result (`(err error)`): assignments to it do not return; `return err` / bare `return` return its value
	named := ""
	if ns := fd.Type.Results.List[0].Names; len(ns) == 1 {
		named = ns[0].Name
	}
	assignsNamed := func(n ast.Node) bool {
		found := false
		if named == "" {
			return false
		}
		ast.Inspect(n, func(m ast.Node) bool {
			if as, ok := m.(*ast.AssignStmt); ok && as.Tok == token.ASSIGN {
				for _, l := range as.Lhs {
					if id, ok := l.(*ast.Ident); ok && id.Name == named {
						found = true
					}
				}
			}
			return true
		})
		return found
	}
	reqPath := func(e ast.Expr) string {
		src := x.c.src(e)
		if fc.req != "" && strings.HasPrefix(src, fc.req+".") {
			return strings.TrimPrefix(src, fc.req+".")
		}
		return ""
	}
	var stmts []string
	for _, s := range fd.Body.List {
		switch t := s.(type) {
		case *ast.AssignStmt:
			// v, err := <decoder>(S): no statement of its own; v and err stand for the decoding of S below
			if !assignsNamed(t) && x.decodeDef(fc, t) {
				continue
			}
		case *ast.IfStmt:
			if t.Init == nil && t.Else == nil && len(t.Body.List) == 1 {
				if r, ok := t.Body.List[0].(*ast.ReturnStmt); ok && len(r.Results) == 1 {
					if v, ok := val(r.Results[0]); ok {
						stmts = append(stmts, ".retIf "+par(x.bexpr(fc, t.Cond))+" "+v)
						continue
					}
				}
				// if c { err = <value> }   — sets the named result and FALLS THROUGH
				if as, ok := t.Body.List[0].(*ast.AssignStmt); ok && named != "" && as.Tok == token.ASSIGN && len(as.Lhs) == 1 && len(as.Rhs) == 1 {
					if id, ok := as.Lhs[0].(*ast.Ident); ok && id.Name == named {
						if v, ok := val(as.Rhs[0]); ok {
							stmts = append(stmts, ".setIf "+par(x.bexpr(fc, t.Cond))+" "+v)
							continue
						}
					}
				}
			}
			// if x, err := f(…); <cond> { return <error> }   — a local check that can only reject or fall through (the
			// init DEFINES fresh locals scoped to the `if`, so nothing outside is assigned)
			if as, ok := t.Init.(*ast.AssignStmt); ok && as.Tok == token.DEFINE && t.Else == nil && len(t.Body.List) == 1 && kind == "error" && !assignsNamed(t) {
				if r, ok := t.Body.List[0].(*ast.ReturnStmt); ok && len(r.Results) == 1 {
					if v, ok := val(r.Results[0]); ok && v == "true" {
						x.otherID++
						stmts = append(stmts, fmt.Sprintf(".retIf (.other %d %s) true", x.otherID, leanStr(oneLine(x.c.src(t.Init)+"; "+x.c.src(t.Cond), 80))))
						continue
					}
				}
			}
		case *ast.RangeStmt:
			if path := reqPath(t.X); path != "" {
				x.atoms["list:"+path] = true
				if !assignsNamed(t.Body) {
					// a loop that can only return errors
					okLoop := true
					ast.Inspect(t.Body, func(m ast.Node) bool {
						if r, ok := m.(*ast.ReturnStmt); ok {
							if len(r.Results) != 1 {
								okLoop = false
							} else if v, ok := val(r.Results[0]); !ok || v != "true" {
								okLoop = false
							}
						}
						return true
					})
					if okLoop {
						stmts = append(stmts, ".checkLoop "+leanStr(path))
						continue
					}
				} else if len(t.Body.List) == 1 {
					// for … { if err = f(x); err != nil { return <error> } }
					if ifs, ok := t.Body.List[0].(*ast.IfStmt); ok && ifs.Else == nil && x.c.src(ifs.Cond) == named+" != nil" && len(ifs.Body.List) == 1 {
						as, ok1 := ifs.Init.(*ast.AssignStmt)
						r, ok2 := ifs.Body.List[0].(*ast.ReturnStmt)
						if ok1 && ok2 && as.Tok == token.ASSIGN && len(as.Lhs) == 1 && x.c.src(as.Lhs[0]) == named && len(r.Results) == 1 &&
							(isErrCtor(r.Results[0]) || x.c.src(r.Results[0]) == named) {
							stmts = append(stmts, ".clobberLoop "+leanStr(path))
							continue
						}
					}
				}
			}
		case *ast.ReturnStmt:
			if named != "" && (len(t.Results) == 0 || (len(t.Results) == 1 && x.c.src(t.Results[0]) == named)) {
				stmts = append(stmts, ".retVar")
				continue
			}
			if len(t.Results) == 1 {
				if v, ok := val(t.Results[0]); ok {
					stmts = append(stmts, ".ret "+v)
					continue
				}
				if kind == "bool" {
					stmts = append(stmts, ".retB "+par(x.bexpr(fc, t.Results[0])))
					continue
				}
			}
		}
		if assignsNamed(s) {
			x.otherID++
			stmts = append(stmts, fmt.Sprintf(".clobber %d %s", x.otherID, leanStr(oneLine(x.c.src(s), 80))))
			continue
		}
		stmts = append(stmts, ".other "+leanStr(oneLine(x.c.src(s), 80)))
	}
	x.helpers[key] = leanList(stmts)
	x.hOrder = append(x.hOrder, key)
	return key
}

func (x *c16x) isAuthMsg(tn string) bool {
	i := strings.LastIndex(tn, ".")
	if i < 0 {
		return false
	}
	return x.authMsgs[tn[:i]][tn[i+1:]]
}

// rejecting body: exactly `return nil, <error constructor call>` (or `return nil, err` when errVar is given)
func returnsErr(b *ast.BlockStmt, errVar string) bool {
	if len(b.List) != 1 {
		return false
	}
	r, ok := b.List[0].(*ast.ReturnStmt)
	if !ok || len(r.Results) != 2 || !isNil(r.Results[0]) {
		return false
	}
	if errVar != "" {
		id, ok := r.Results[1].(*ast.Ident)
		return ok && id.Name == errVar
	}
	return isErrCtor(r.Results[1])
}

// concreteType resolves the concrete type an expression evaluates to (constructor calls, composite literals, local
// variables, receiver fields); "?…" when it cannot.
func (x *c16x) concreteType(fc *c16fn, e ast.Expr, depth int) string {
	c := x.c
	if depth > 5 {
		return "?" + oneLine(c.src(e), 60)
	}
	switch t := e.(type) {
	case *ast.ParenExpr:
		return x.concreteType(fc, t.X, depth+1)
	case *ast.UnaryExpr:
		if t.Op == token.AND {
			return x.concreteType(fc, t.X, depth+1)
		}
	case *ast.CompositeLit:
		if t.Type != nil {
			return x.typeName(fc.rel, fc.file, t.Type)
		}
	case *ast.Ident:
		// local variable: its defining assignment in the enclosing function; or a parameter: its declared type
		var rhs ast.Expr
		ast.Inspect(fc.fd.Body, func(n ast.Node) bool {
			as, ok := n.(*ast.AssignStmt)
			if !ok || len(as.Lhs) != len(as.Rhs) {
				return true
			}
			for i, l := range as.Lhs {
				if id, ok := l.(*ast.Ident); ok && id.Name == t.Name && rhs == nil {
					rhs = as.Rhs[i]
				}
			}
			return true
		})
		if rhs != nil {
			return x.concreteType(fc, rhs, depth+1)
		}
		for _, prm := range fc.fd.Type.Params.List {
			for _, n := range prm.Names {
				if n.Name == t.Name {
					return x.typeName(fc.rel, fc.file, prm.Type)
				}
			}
		}
	case *ast.SelectorExpr:
		if bt, ok := x.rootedAtRecv(fc, t); ok {
			return bt
		}
	case *ast.CallExpr:
		var fd *ast.FuncDecl
		switch f := t.Fun.(type) {
		case *ast.Ident:
			fd = c.findFunc(fc.rel, "", f.Name)
		case *ast.SelectorExpr:
			if id, ok := f.X.(*ast.Ident); ok {
				ip := imports(fc.file)[id.Name]
				if strings.HasPrefix(ip, modPath) {
					fd = c.findFunc(strings.TrimPrefix(ip, modPath), "", f.Sel.Name)
				} else if ip != "" {
					return "ext:" + id.Name + "." + f.Sel.Name + "()"
				}
			}
		}
		if fd != nil && fd.Body != nil {
			if _, ok := x.relOf[fd]; !ok {
				return "?" + oneLine(c.src(e), 60)
			}
			fc2 := x.fnCtx(fd, "")
			res := ""
			ast.Inspect(fd.Body, func(n ast.Node) bool {
				if _, ok := n.(*ast.FuncLit); ok {
					return false
				}
				r, ok := n.(*ast.ReturnStmt)
				if !ok || len(r.Results) == 0 {
					return true
				}
				tn := x.concreteType(fc2, r.Results[0], depth+1)
				if res == "" {
					res = tn
				} else if res != tn {
					res = "?several:" + res + "|" + tn
				}
				return true
			})
			if res != "" {
				return res
			}
		}
	}
	return "?" + oneLine(c.src(e), 60)
}

// forwardTargets: the concrete types the per-chain `server` (returned by the lookup helper) can have: the lookup helper
// returns `<…>.<Field>` of a struct; every composite literal of that struct in the repo assigns <Field>.
func (x *c16x) forwardTargets(fc *c16fn, lookup *ast.CallExpr) []string {
	se, ok := lookup.Fun.(*ast.SelectorExpr)
	if !ok {
		return []string{"?lookup"}
	}
	bt, ok := x.rootedAtRecv(fc, se.X)
	if !ok {
		return []string{"?lookup-recv"}
	}
	fd, _ := x.resolveMethod(bt, se.Sel.Name)
	if fd == nil || fd.Body == nil {
		return []string{"?lookup-decl"}
	}
	field := ""
	ast.Inspect(fd.Body, func(n ast.Node) bool {
		r, ok := n.(*ast.ReturnStmt)
		if !ok || len(r.Results) != 2 || isNil(r.Results[0]) {
			return true
		}
		if s, ok := r.Results[0].(*ast.SelectorExpr); ok {
			field = s.Sel.Name
		} else {
			field = "?"
		}
		return true
	})
	if field == "" || field == "?" {
		return []string{"?lookup-result"}
	}
	set := map[string]bool{}
	for _, rel := range x.dirs {
		for _, f := range x.c.pkg(rel) {
			for _, d := range f.Decls {
				fd2, ok := d.(*ast.FuncDecl)
				if !ok || fd2.Body == nil {
					continue
				}
				ast.Inspect(fd2.Body, func(n ast.Node) bool {
					cl, ok := n.(*ast.CompositeLit)
					if !ok || cl.Type == nil {
						return true
					}
					tn := x.typeName(rel, f, cl.Type)
					td, ok := x.types[tn]
					if !ok || !hasField(td.st, field) || td.rel != fc.rel {
						return true
					}
					fc2 := x.fnCtx(fd2, "")
					for _, el := range cl.Elts {
						if kv, ok := el.(*ast.KeyValueExpr); ok {
							if id, ok := kv.Key.(*ast.Ident); ok && id.Name == field {
								set[x.concreteType(fc2, kv.Value, 0)] = true
							}
						}
					}
					return true
				})
			}
		}
	}
	if len(set) == 0 {
		return []string{"?no-literal-of-" + field}
	}
	return sortedKeys(set)
}

func leanStrList(xs []string) string {
	var q []string
	for _, s := range xs {
		q = append(q, leanStr(s))
	}
	return leanList(q)
}

// body translates the top-level statements of a handler.
func (x *c16x) body(fc *c16fn) []string {
	c := x.c
	var out []string
	for i, s := range fc.fd.Body.List {
		switch t := s.(type) {
		case *ast.IfStmt:
			// if cond { return nil, <error> }
			if t.Init == nil && t.Else == nil && returnsErr(t.Body, "") {
				out = append(out, ".rejectIf "+par(x.bexpr(fc, t.Cond)))
				continue
			}
			// if err != nil { return nil, err } after a recognised decoding
			if t.Init == nil && t.Else == nil {
				if be, ok := t.Cond.(*ast.BinaryExpr); ok && be.Op == token.NEQ && isNil(be.Y) {
					if id, ok := be.X.(*ast.Ident); ok {
						if _, dec := fc.errOf[id.Name]; dec && returnsErr(t.Body, id.Name) {
							out = append(out, ".rejectIf "+par(x.bexpr(fc, t.Cond)))
							continue
						}
					}
				}
			}
			// if err := recv.helper(args); err != nil { return nil, err }
			if as, ok := t.Init.(*ast.AssignStmt); ok && t.Else == nil && as.Tok == token.DEFINE && len(as.Lhs) == 1 && len(as.Rhs) == 1 {
				if ev, ok := as.Lhs[0].(*ast.Ident); ok && c.src(t.Cond) == ev.Name+" != nil" && returnsErr(t.Body, ev.Name) {
					if call, ok := as.Rhs[0].(*ast.CallExpr); ok {
						if se, ok := call.Fun.(*ast.SelectorExpr); ok {
							if bt, ok := x.rootedAtRecv(fc, se.X); ok && x.passesAuthority(fc, call.Args) {
								if key := x.helper(bt, se.Sel.Name, "error"); key != "" {
									out = append(out, ".rejectIf "+par(".call "+leanStr(key)+" "+x.sargs(fc, call.Args)))
									continue
								}
							}
						}
					}
				}
			}
			// if server, err := recv.lookup(req.GetChainName()); err != nil { return nil, err } else { return server.M(ctx, req) }
			if as, ok := t.Init.(*ast.AssignStmt); ok && t.Else != nil && len(as.Lhs) == 2 && len(as.Rhs) == 1 && i == len(fc.fd.Body.List)-1 {
				sv, ok1 := as.Lhs[0].(*ast.Ident)
				ev, ok2 := as.Lhs[1].(*ast.Ident)
				lookup, ok3 := as.Rhs[0].(*ast.CallExpr)
				eb, ok4 := t.Else.(*ast.BlockStmt)
				if ok1 && ok2 && ok3 && ok4 && c.src(t.Cond) == ev.Name+" != nil" && returnsErr(t.Body, ev.Name) && len(eb.List) == 1 {
					if r, ok := eb.List[0].(*ast.ReturnStmt); ok && len(r.Results) == 1 {
						if call, ok := r.Results[0].(*ast.CallExpr); ok && len(call.Args) == 2 && c.src(call.Args[1]) == fc.req {
							if se, ok := call.Fun.(*ast.SelectorExpr); ok && c.src(se.X) == sv.Name {
								out = append(out, fmt.Sprintf(".forward true %s %s", leanStrList(x.forwardTargets(fc, lookup)), leanStr(se.Sel.Name)))
								continue
							}
						}
					}
				}
			}
		case *ast.AssignStmt:
			// ctx := sdk.UnwrapSDKContext(c): no state access
			if len(t.Rhs) == 1 {
				if call, ok := t.Rhs[0].(*ast.CallExpr); ok && c.src(call.Fun) == "sdk.UnwrapSDKContext" {
					out = append(out, ".nop "+leanStr(oneLine(c.src(s), 80)))
					continue
				}
			}
			// authority, err := sdk.AccAddressFromBech32(req.Authority): decoding a request / keeper value touches no state
			if x.decodeDef(fc, t) {
				out = append(out, ".nop "+leanStr(oneLine(c.src(s), 80)))
				continue
			}
			// v := recv.GetGovernanceAccount(ctx).GetAddress().String(): the module account as the x/auth state has it
			if t.Tok == token.DEFINE && len(t.Lhs) == 1 && len(t.Rhs) == 1 {
				if c1, ok := t.Rhs[0].(*ast.CallExpr); ok && len(c1.Args) == 0 {
					if s1, ok := c1.Fun.(*ast.SelectorExpr); ok && s1.Sel.Name == "String" {
						if c2, ok := s1.X.(*ast.CallExpr); ok && len(c2.Args) == 0 {
							if s2, ok := c2.Fun.(*ast.SelectorExpr); ok && s2.Sel.Name == "GetAddress" {
								if name := x.moduleAccountFetch(fc, s2.X, 0); name != "" {
									if id, ok := t.Lhs[0].(*ast.Ident); ok {
										if fc.slocals == nil {
											fc.slocals = map[string]string{}
										}
										fc.slocals[id.Name] = ".moduleAccInState " + leanStr(name)
										out = append(out, ".ensureModuleAcc "+leanStr(name)+" "+leanStr(oneLine(c.src(s), 80)))
										continue
									}
								}
							}
						}
					}
				}
			}
		case *ast.ReturnStmt:
			// return recv.<field…>.M(ctx, req)
			if len(t.Results) == 1 {
				if call, ok := t.Results[0].(*ast.CallExpr); ok && len(call.Args) == 2 && c.src(call.Args[1]) == fc.req {
					if se, ok := call.Fun.(*ast.SelectorExpr); ok {
						if bt, ok := x.rootedAtRecv(fc, se.X); ok {
							out = append(out, fmt.Sprintf(".forward false %s %s", leanStrList([]string{bt}), leanStr(se.Sel.Name)))
							continue
						}
					}
				}
			}
		}
		out = append(out, fmt.Sprintf(".work %d %s", i, leanStr(oneLine(c.src(s), 70))))
	}
	return out
}

// ---- raw store update loops

func (x *c16x) updateStoreProg(fd *ast.FuncDecl, req string) [][]string {
	c := x.c
	var prog [][]string
	for _, s := range fd.Body.List {
		rs, ok := s.(*ast.RangeStmt)
		if !ok {
			continue
		}
		if c.src(rs.X) != req+".UpdateStores" || rs.Value == nil {
			prog = append(prog, []string{".other " + leanStr(oneLine(c.src(s), 80))})
			continue
		}
		ent := c.src(rs.Value)
		defs := map[string]string{}
		inline := func(e ast.Node) string {
			s := oneLine(c.src(e), 400)
			for k := 0; k < 4; k++ {
				for v, d := range defs {
					s = regexp.MustCompile(`\b`+regexp.QuoteMeta(v)+`\b`).ReplaceAllString(s, strings.ReplaceAll(d, "$", "$$"))
				}
			}
			return s
		}
		E := regexp.QuoteMeta(ent)
		keyVar, okVar := "", ""
		lookedUp := false
		storeOf := func() string {
			alts := []string{`[\w.]+\.storeKeys\[` + E + `\.Space\]`}
			if lookedUp && keyVar != "" {
				alts = append(alts, regexp.QuoteMeta(keyVar))
			}
			return `\w+\.KVStore\((?:` + strings.Join(alts, "|") + `)\)`
		}
		var steps []string
		body := rs.Body.List
		tmp := 0
		for i := 0; i < len(body); i++ {
			st := body[i]
			if as, ok := st.(*ast.AssignStmt); ok && as.Tok == token.DEFINE && len(as.Rhs) == 1 {
				rhs := inline(as.Rhs[0])
				// key, ok := <…>.storeKeys[entry.Space]  followed by  if !ok { return nil, err }
				if len(as.Lhs) == 2 && regexp.MustCompile(`^[\w.]+\.storeKeys\[`+E+`\.Space\]$`).MatchString(rhs) && i+1 < len(body) {
					if ifs, ok := body[i+1].(*ast.IfStmt); ok && ifs.Init == nil && ifs.Else == nil &&
						c.src(ifs.Cond) == "!"+c.src(as.Lhs[1]) && returnsErr(ifs.Body, "") {
						keyVar, okVar = c.src(as.Lhs[0]), c.src(as.Lhs[1])
						_ = okVar
						lookedUp = true
						steps = append(steps, ".lookupSpace")
						i++
						continue
					}
				}
				if len(as.Lhs) == 1 {
					v := c.src(as.Lhs[0])
					if regexp.MustCompile(`^` + storeOf() + `\.Get\(` + E + `\.KeyToBytes\(\)\)$`).MatchString(rhs) {
						steps = append(steps, ".get "+leanStr(v))
						continue
					}
					if regexp.MustCompile(`^`+storeOf()+`$`).MatchString(rhs) || regexp.MustCompile(`^`+E+`\.\w+ToBytes\(\)$`).MatchString(rhs) {
						defs[v] = rhs
						continue
					}
				}
			}
			if ifs, ok := st.(*ast.IfStmt); ok && ifs.Init == nil && ifs.Else == nil && returnsErr(ifs.Body, "") {
				cond := inline(ifs.Cond)
				if m := regexp.MustCompile(`^!bytes\.Equal\((.+), ` + E + `\.(\w+)ToBytes\(\)\)$`).FindStringSubmatch(cond); m != nil {
					if regexp.MustCompile(`^\w+$`).MatchString(m[1]) {
						steps = append(steps, ".failUnlessEq "+leanStr(m[1])+" "+leanStr(m[2]))
						continue
					}
					if regexp.MustCompile(`^` + storeOf() + `\.Get\(` + E + `\.KeyToBytes\(\)\)$`).MatchString(m[1]) {
						tmp++
						v := fmt.Sprintf("_t%d", tmp)
						steps = append(steps, ".get "+leanStr(v), ".failUnlessEq "+leanStr(v)+" "+leanStr(m[2]))
						continue
					}
				}
			}
			if es, ok := st.(*ast.ExprStmt); ok {
				call := inline(es.X)
				if m := regexp.MustCompile(`^` + storeOf() + `\.Set\(` + E + `\.KeyToBytes\(\), ` + E + `\.(\w+)ToBytes\(\)\)$`).FindStringSubmatch(call); m != nil {
					steps = append(steps, ".set "+leanStr(m[1]))
					continue
				}
			}
			steps = append(steps, ".other "+leanStr(oneLine(c.src(st), 80)))
		}
		prog = append(prog, steps)
	}
	return prog
}

func extractC16Sem(c *ctxT) {
	x := &c16x{c: c, dirs: c16Dirs(c), authMsgs: map[string]map[string]bool{}, types: map[string]*c16Type{},
		methods: map[string]map[string]*ast.FuncDecl{}, fileOf: map[*ast.FuncDecl]*ast.File{}, relOf: map[*ast.FuncDecl]string{},
		helpers: map[string]string{}, atoms: map[string]bool{}}
	x.load()

	var sb strings.Builder
	sb.WriteString("import FxVerif.Model.C16Syntax\nnamespace FxVerif.Gen.C16Sem\nopen FxVerif.Model.C16\n\n")

	// ---- implementations
	type implT struct{ recv, method, msg, pos, body string }
	var impls []implT
	var usProg [][]string
	usWhere := ""
	usedTypes := map[string]bool{}
	for _, rel := range x.dirs {
		p := c.pkg(rel)
		for _, fn := range sortedKeys(p) {
			if strings.HasSuffix(fn, ".pb.go") || strings.HasSuffix(fn, ".pb.gw.go") {
				continue // generated client stubs / Unimplemented servers
			}
			for _, d := range p[fn].Decls {
				fd, ok := d.(*ast.FuncDecl)
				if !ok || fd.Recv == nil || fd.Body == nil || fd.Type.Params == nil || !fd.Name.IsExported() {
					continue
				}
				if fd.Type.Results == nil || len(fd.Type.Results.List) != 2 || len(fd.Type.Params.List) < 2 {
					continue
				}
				for _, prm := range fd.Type.Params.List {
					st, ok := prm.Type.(*ast.StarExpr)
					if !ok || len(prm.Names) != 1 {
						continue
					}
					tn := x.typeName(rel, p[fn], st.X)
					if !x.isAuthMsg(tn) {
						continue
					}
					fc := x.fnCtx(fd, prm.Names[0].Name)
					impls = append(impls, implT{fc.recvType, fd.Name.Name, tn, c.pos(fd), leanList(x.body(fc))})
					usedTypes[fc.recvType] = true
					if strings.HasSuffix(tn, ".MsgUpdateStore") {
						usProg = x.updateStoreProg(fd, fc.req)
						usWhere = c.pos(fd)
					}
				}
			}
		}
	}
	if len(impls) == 0 {
		fail("C16: no authority-carrying handlers found")
	}
	sb.WriteString("def helpers : List Helper := [\n")
	for i, k := range x.hOrder {
		sep := ","
		if i == len(x.hOrder)-1 {
			sep = ""
		}
		fmt.Fprintf(&sb, "  { key := %s, body := %s }%s\n", leanStr(k), x.helpers[k], sep)
	}
	sb.WriteString("]\n\ndef impls : List Impl := [\n")
	var fImpls []map[string]string
	for i, im := range impls {
		sep := ","
		if i == len(impls)-1 {
			sep = ""
		}
		fmt.Fprintf(&sb, "  { recv := %s, method := %s, msg := %s, pos := %s,\n    body := %s }%s\n",
			leanStr(im.recv), leanStr(im.method), leanStr(im.msg), leanStr(im.pos), im.body, sep)
		fImpls = append(fImpls, map[string]string{"recv": im.recv, "method": im.method, "msg": im.msg, "pos": im.pos, "body": im.body})
	}
	sb.WriteString("]\n\n")

	// ---- services and registrations
	type regT struct{ site, service, impl string }
	var regs []regT
	var services []string
	for _, rel := range x.dirs {
		p := c.pkg(rel)
		for _, fn := range sortedKeys(p) {
			f := p[fn]
			for _, d := range f.Decls {
				fd, ok := d.(*ast.FuncDecl)
				if !ok || fd.Body == nil {
					continue
				}
				if fd.Recv == nil && fd.Name.Name == "RegisterMsgServer" {
					// the generated MsgServer interface of this package
					for _, d2 := range f.Decls {
						gd, ok := d2.(*ast.GenDecl)
						if !ok || gd.Tok != token.TYPE {
							continue
						}
						for _, sp := range gd.Specs {
							ts := sp.(*ast.TypeSpec)
							it, ok := ts.Type.(*ast.InterfaceType)
							if !ok || ts.Name.Name != "MsgServer" {
								continue
							}
							var ms []string
							for _, m := range it.Methods.List {
								ft, ok := m.Type.(*ast.FuncType)
								if !ok || len(m.Names) != 1 || len(ft.Params.List) != 2 {
									continue
								}
								msg := ""
								if st, ok := ft.Params.List[1].Type.(*ast.StarExpr); ok {
									if tn := x.typeName(rel, f, st.X); x.isAuthMsg(tn) {
										msg = tn
									}
								}
								ms = append(ms, "("+leanStr(m.Names[0].Name)+", "+leanStr(msg)+")")
							}
							services = append(services, fmt.Sprintf("  { pkg := %s, methods := %s }", leanStr(rel), leanList(ms)))
						}
					}
				}
				fc := x.fnCtx(fd, "")
				ast.Inspect(fd.Body, func(n ast.Node) bool {
					call, ok := n.(*ast.CallExpr)
					if !ok || len(call.Args) != 2 {
						return true
					}
					se, ok := call.Fun.(*ast.SelectorExpr)
					if !ok || se.Sel.Name != "RegisterMsgServer" {
						return true
					}
					id, ok := se.X.(*ast.Ident)
					if !ok {
						return true
					}
					ip := imports(f)[id.Name]
					svc := "ext:" + ip
					if strings.HasPrefix(ip, modPath) {
						svc = strings.TrimPrefix(ip, modPath)
					}
					it := x.concreteType(fc, call.Args[1], 0)
					regs = append(regs, regT{c.pos(call), svc, it})
					usedTypes[it] = true
					return true
				})
			}
		}
	}
	sb.WriteString("def services : List Service := [\n" + strings.Join(services, ",\n") + "\n]\n\n")
	sb.WriteString("def registrations : List Registration := [\n")
	var fRegs []map[string]string
	for i, r := range regs {
		sep := ","
		if i == len(regs)-1 {
			sep = ""
		}
		fmt.Fprintf(&sb, "  { site := %s, service := %s, impl := %s }%s\n", leanStr(r.site), leanStr(r.service), leanStr(r.impl), sep)
		fRegs = append(fRegs, map[string]string{"site": r.site, "service": r.service, "impl": r.impl})
	}
	sb.WriteString("]\n\n")

	// ---- struct types reachable from the implementations / registrations through embedding
	var todo []string
	for t := range usedTypes {
		todo = append(todo, t)
	}
	for _, im := range impls {
		_ = im
	}
	// forward targets are type names inside bodies: add every in-repo struct type that embeds something or is embedded
	seen := map[string]bool{}
	var tnames []string
	for len(todo) > 0 {
		t := todo[len(todo)-1]
		todo = todo[:len(todo)-1]
		if seen[t] {
			continue
		}
		seen[t] = true
		if td, ok := x.types[t]; ok {
			tnames = append(tnames, t)
			todo = append(todo, td.embeds...)
		}
	}
	// every type that has an authority-carrying method, and every struct embedding one of those (wrappers)
	for changed := true; changed; {
		changed = false
		for _, tn := range sortedKeys(x.types) {
			if seen[tn] {
				continue
			}
			for _, e := range x.types[tn].embeds {
				if seen[e] && x.types[e] != nil {
					seen[tn] = true
					tnames = append(tnames, tn)
					changed = true
					break
				}
			}
		}
	}
	sort.Strings(tnames)
	sb.WriteString("def types : List TypeDecl := [\n")
	for i, t := range tnames {
		sep := ","
		if i == len(tnames)-1 {
			sep = ""
		}
		fmt.Fprintf(&sb, "  { name := %s, embeds := %s }%s\n", leanStr(t), leanStrList(x.types[t].embeds), sep)
	}
	sb.WriteString("]\n\n")

	// ---- authority messages and their ValidateBasic
	sb.WriteString("def msgInfos : List MsgInfo := [\n")
	var infos []string
	var fMsgs []map[string]any
	for _, rel := range sortedKeys(x.authMsgs) {
		for _, m := range sortedKeys(x.authMsgs[rel]) {
			has, dec := false, false
			if fd, ok := x.methods[rel+"."+m]["ValidateBasic"]; ok && fd.Body != nil {
				has = true
				rv := ""
				if len(fd.Recv.List[0].Names) == 1 {
					rv = fd.Recv.List[0].Names[0].Name
				}
				for _, s := range fd.Body.List {
					ifs, ok := s.(*ast.IfStmt)
					if !ok || ifs.Else != nil {
						continue
					}
					as, ok := ifs.Init.(*ast.AssignStmt)
					if !ok || len(as.Rhs) != 1 || len(as.Lhs) != 2 {
						continue
					}
					call, ok := as.Rhs[0].(*ast.CallExpr)
					if !ok || len(call.Args) != 1 || c.src(call.Args[0]) != rv+".Authority" {
						continue
					}
					if se, ok := call.Fun.(*ast.SelectorExpr); ok && se.Sel.Name == "AccAddressFromBech32" &&
						c.src(ifs.Cond) == c.src(as.Lhs[1])+" != nil" && len(ifs.Body.List) == 1 {
						if r, ok := ifs.Body.List[0].(*ast.ReturnStmt); ok && len(r.Results) == 1 && (isErrCtor(r.Results[0]) || c.src(r.Results[0]) == c.src(as.Lhs[1])) {
							dec = true
						}
					}
					break // only a check that comes first counts (nothing can return success before it)
				}
			}
			infos = append(infos, fmt.Sprintf("  { msg := %s, hasValidateBasic := %v, decodesAuthority := %v }", leanStr(rel+"."+m), has, dec))
			fMsgs = append(fMsgs, map[string]any{"msg": rel + "." + m, "hasValidateBasic": has, "decodesAuthority": dec})
		}
	}
	sb.WriteString(strings.Join(infos, ",\n") + "\n]\n\n")

	// ---- crosschain routes (app/keepers/keepers.go): AddRoute(<name>, <…>.NewModuleHandler(<keeper>))
	var routes []string
	if f, ok := c.pkg("app/keepers")["keepers.go"]; ok {
		imps := imports(f)
		ast.Inspect(f, func(n ast.Node) bool {
			call, ok := n.(*ast.CallExpr)
			if !ok || len(call.Args) != 2 {
				return true
			}
			se, ok := call.Fun.(*ast.SelectorExpr)
			if !ok || se.Sel.Name != "AddRoute" {
				return true
			}
			a1, ok := call.Args[1].(*ast.CallExpr)
			if !ok {
				return true
			}
			if s1, ok := a1.Fun.(*ast.SelectorExpr); !ok || s1.Sel.Name != "NewModuleHandler" {
				return true
			}
			routes = append(routes, x.constString(imps, call.Args[0]))
			return true
		})
	}
	sort.Strings(routes)
	sb.WriteString("/-- names under which a per-chain Msg server is registered on the crosschain router -/\ndef routes : List String := " + leanStrList(routes) + "\n\n")

	// ---- address format constants (types/constant.go)
	prefix, addrLen := "", "0"
	for _, f := range c.pkg("types") {
		for _, d := range f.Decls {
			gd, ok := d.(*ast.GenDecl)
			if !ok || gd.Tok != token.CONST {
				continue
			}
			for _, sp := range gd.Specs {
				vs := sp.(*ast.ValueSpec)
				for i, n := range vs.Names {
					if i < len(vs.Values) {
						if bl, ok := vs.Values[i].(*ast.BasicLit); ok {
							if n.Name == "AddressPrefix" {
								prefix = strings.Trim(bl.Value, "\"")
							}
							if n.Name == "AddrLen" {
								addrLen = bl.Value
							}
						}
					}
				}
			}
		}
	}
	fmt.Fprintf(&sb, "def accPrefix : String := %s\ndef addrLen : Nat := %s\n\n", leanStr(prefix), addrLen)

	// ---- raw store update program
	sb.WriteString("/-- the range loops over `req.UpdateStores` of the raw-store-update handler (" + usWhere + "), in source order -/\ndef updateStoreProg : List (List UStep) := [\n")
	for i, l := range usProg {
		sep := ","
		if i == len(usProg)-1 {
			sep = ""
		}
		sb.WriteString("  " + leanList(l) + sep + "\n")
	}
	sb.WriteString("]\n\n")
	pe := c16ProposalExec(c)
	fmt.Fprintf(&sb, "/-- x/gov/abci.go EndBlocker, `case passes:` -/\ndef proposalExec : ProposalExec := { runsOnCache := %v, breaksOnError := %v, writeGuardedByNoError := %v }\n\n", pe[0], pe[1], pe[2])
	sb.WriteString("end FxVerif.Gen.C16Sem\n")
	c.write("C16Sem.lean", sb.String())
	c.facts["C16.proposalExec"] = pe

	c.facts["C16.impls"] = fImpls
	c.facts["C16.registrations"] = fRegs
	c.facts["C16.msgInfos"] = fMsgs
	c.facts["C16.routes"] = routes
	c.facts["C16.guardAtoms"] = sortedKeys(x.atoms)
	c.facts["C16.updateStoreProg"] = usProg
}

// constString resolves `<alias>.<Const>` to its string literal value, "?<src>" if it cannot.
func (x *c16x) constString(imps map[string]string, e ast.Expr) string {
	if bl, ok := e.(*ast.BasicLit); ok && bl.Kind == token.STRING {
		return strings.Trim(bl.Value, "\"")
	}
	se, ok := e.(*ast.SelectorExpr)
	if !ok {
		return "?" + x.c.src(e)
	}
	id, ok := se.X.(*ast.Ident)
	if !ok {
		return "?" + x.c.src(e)
	}
	ip := imps[id.Name]
	if !strings.HasPrefix(ip, modPath) {
		return "?" + x.c.src(e)
	}
	for _, f := range x.c.pkg(strings.TrimPrefix(ip, modPath)) {
		for _, d := range f.Decls {
			gd, ok := d.(*ast.GenDecl)
			if !ok || gd.Tok != token.CONST {
				continue
			}
			for _, sp := range gd.Specs {
				vs := sp.(*ast.ValueSpec)
				for i, n := range vs.Names {
					if n.Name == se.Sel.Name && i < len(vs.Values) {
						if bl, ok := vs.Values[i].(*ast.BasicLit); ok && bl.Kind == token.STRING {
							return strings.Trim(bl.Value, "\"")
						}
					}
				}
			}
		}
	}
	return "?" + x.c.src(e)
}

// c16ProposalExec reads how the fx-core governance end-blocker executes the messages of a passed proposal:
// [handlers run on the context from ctx.CacheContext(), the loop breaks on the first error, writeCache() only under err == nil].
func c16ProposalExec(c *ctxT) [3]bool {
	var res [3]bool
	fd := c.findFunc("x/gov", "", "EndBlocker")
	if fd == nil || fd.Body == nil {
		return res
	}
	ast.Inspect(fd.Body, func(n ast.Node) bool {
		cc, ok := n.(*ast.CaseClause)
		if !ok || len(cc.List) != 1 || c.src(cc.List[0]) != "passes" {
			return true
		}
		cacheVar, writeVar := "", ""
		for _, st := range cc.Body {
			if as, ok := st.(*ast.AssignStmt); ok && len(as.Lhs) == 2 && len(as.Rhs) == 1 && strings.HasSuffix(c.src(as.Rhs[0]), ".CacheContext()") {
				cacheVar, writeVar = c.src(as.Lhs[0]), c.src(as.Lhs[1])
			}
		}
		if cacheVar == "" {
			return false
		}
		loops, onCache, brk := 0, true, false
		writes, guarded := 0, 0
		for _, st := range cc.Body {
			switch t := st.(type) {
			case *ast.RangeStmt:
				loops++
				calls := 0
				ast.Inspect(t.Body, func(m ast.Node) bool {
					if call, ok := m.(*ast.CallExpr); ok {
						fs := c.src(call.Fun)
						if (fs == "safeExecuteHandler" || fs == "handler") && len(call.Args) >= 2 {
							calls++
							if c.src(call.Args[0]) != cacheVar {
								onCache = false
							}
						}
					}
					return true
				})
				if calls == 0 {
					onCache = false
				}
				for _, bs := range t.Body.List {
					if ifs, ok := bs.(*ast.IfStmt); ok && ifs.Init == nil && c.src(ifs.Cond) == "err != nil" && len(ifs.Body.List) == 1 {
						if b, ok := ifs.Body.List[0].(*ast.BranchStmt); ok && b.Tok == token.BREAK {
							brk = true
						}
					}
				}
			case *ast.IfStmt:
				if t.Init == nil && c.src(t.Cond) == "err == nil" {
					ast.Inspect(t.Body, func(m ast.Node) bool {
						if call, ok := m.(*ast.CallExpr); ok && c.src(call.Fun) == writeVar {
							guarded++
						}
						return true
					})
				}
			}
			ast.Inspect(st, func(m ast.Node) bool {
				if call, ok := m.(*ast.CallExpr); ok && c.src(call.Fun) == writeVar {
					writes++
				}
				return true
			})
		}
		res = [3]bool{loops == 1 && onCache, brk, writes >= 1 && writes == guarded}
		return false
	})
	return res
}
