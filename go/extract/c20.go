package main

import (
	"fmt"
	"go/ast"
	"go/token"
	"sort"
	"strings"
)

// C20, part 1: the fee rule.  A small translator from the Go AST of ante/fees.go into Lean definitions
// (Gen/C20.lean) written in the vocabulary of Model/C20Base.lean.  The boolean helpers (isByPassMinFee and what it
// calls) go through a generic statement/expression translator for exactly the constructs they use; the decorator
// body (checkTxFeeWithValidatorMinGasPrices) is translated structurally (if / early return / fallthrough) with its
// leaf calls mapped through a table.  A construct the translator does not know becomes `unknownBool "<source>"`
// (opaque in Lean), so the theorems over the generated definitions stop checking instead of silently defaulting.
//
// part 2 (c20sites.go): inventory of potentially panicking constructs.
func init() { register(extractC20) }

type c20tr struct {
	c        *ctxT
	recv     string          // receiver variable name (ctf)
	methods  map[string]bool // translated helper methods of the receiver
	unknowns []string
	aux      []string // auxiliary definitions (loops) emitted before the function
	fn       string
}

func (t *c20tr) unk(kind string, n ast.Node) string {
	s := strings.Join(strings.Fields(t.c.src(n)), " ")
	t.unknowns = append(t.unknowns, t.fn+": "+s)
	return "(" + kind + " " + leanStr(s) + ")"
}

// natural-number / boolean expression translator
func (t *c20tr) expr(e ast.Expr) string {
	switch x := e.(type) {
	case *ast.ParenExpr:
		return t.expr(x.X)
	case *ast.Ident:
		return x.Name
	case *ast.BasicLit:
		if x.Kind == token.INT {
			return strings.ReplaceAll(x.Value, "_", "")
		}
	case *ast.UnaryExpr:
		if x.Op == token.NOT {
			return "(!" + t.expr(x.X) + ")"
		}
	case *ast.BinaryExpr:
		a, b := t.expr(x.X), t.expr(x.Y)
		switch x.Op {
		case token.LAND:
			return "(" + a + " && " + b + ")"
		case token.LOR:
			return "(" + a + " || " + b + ")"
		case token.GEQ:
			return "(decide (" + a + " ≥ " + b + "))"
		case token.LEQ:
			return "(decide (" + a + " ≤ " + b + "))"
		case token.GTR:
			return "(decide (" + a + " > " + b + "))"
		case token.LSS:
			return "(decide (" + a + " < " + b + "))"
		case token.MUL:
			return "(mulU64 " + a + " " + b + ")" // all arithmetic in these helpers is on uint64
		}
	case *ast.SelectorExpr:
		if id, ok := x.X.(*ast.Ident); ok && id.Name == t.recv {
			return "(" + t.recv + "." + x.Sel.Name + ")"
		}
	case *ast.CallExpr:
		fun := t.c.src(x.Fun)
		switch {
		case fun == "uint64" && len(x.Args) == 1:
			// uint64(len(xs)): len is a non-negative int, the conversion is the identity
			if c2, ok := x.Args[0].(*ast.CallExpr); ok && t.c.src(c2.Fun) == "len" && len(c2.Args) == 1 {
				return "(" + t.expr(c2.Args[0]) + ".length)"
			}
		case fun == "len" && len(x.Args) == 1:
			return "(" + t.expr(x.Args[0]) + ".length)"
		case fun == "sdk.MsgTypeURL" && len(x.Args) == 1:
			// messages are modelled by their type URL
			return t.expr(x.Args[0])
		}
		if se, ok := x.Fun.(*ast.SelectorExpr); ok {
			if id, ok := se.X.(*ast.Ident); ok && id.Name == t.recv && t.methods[se.Sel.Name] {
				args := []string{t.recv}
				for _, a := range x.Args {
					args = append(args, t.expr(a))
				}
				return "(" + se.Sel.Name + " " + strings.Join(args, " ") + ")"
			}
		}
	}
	return t.unk("unknownBool", e)
}

// assigned collects identifiers assigned with `=` in a block
func assignedVars(b *ast.BlockStmt) []string {
	set := map[string]bool{}
	ast.Inspect(b, func(n ast.Node) bool {
		if as, ok := n.(*ast.AssignStmt); ok && as.Tok == token.ASSIGN {
			for _, l := range as.Lhs {
				if id, ok := l.(*ast.Ident); ok && id.Name != "_" {
					set[id.Name] = true
				}
			}
		}
		return true
	})
	return sortedKeys(set)
}

// stmts translates a statement list of a Bool function.  loop != "" means we are inside the body of the loop helper
// named loop: `return e` becomes `(some e, st)` and falling off the end continues with the tail of the list.
func (t *c20tr) stmts(list []ast.Stmt, ind string, loop string, st string) string {
	if len(list) == 0 {
		if loop != "" {
			return ind + loop + " rest " + st + "\n"
		}
		return ind + t.unk("unknownBool", &ast.BlockStmt{}) + "\n"
	}
	s, rest := list[0], list[1:]
	switch x := s.(type) {
	case *ast.ReturnStmt:
		if len(x.Results) == 1 {
			if loop != "" {
				return ind + "(some " + t.expr(x.Results[0]) + ", " + st + ")\n"
			}
			return ind + t.expr(x.Results[0]) + "\n"
		}
	case *ast.AssignStmt:
		if len(x.Lhs) == 1 && len(x.Rhs) == 1 {
			if id, ok := x.Lhs[0].(*ast.Ident); ok {
				return ind + "let " + id.Name + " := " + t.expr(x.Rhs[0]) + "\n" + t.stmts(rest, ind, loop, st)
			}
		}
	case *ast.IfStmt:
		pre := ""
		ok := x.Else == nil
		if x.Init != nil {
			ok = false
			// `_, ok := m[k]`
			if as, isAs := x.Init.(*ast.AssignStmt); isAs && as.Tok == token.DEFINE && len(as.Lhs) == 2 && len(as.Rhs) == 1 {
				if ie, isIdx := as.Rhs[0].(*ast.IndexExpr); isIdx {
					if l0, _ := as.Lhs[0].(*ast.Ident); l0 != nil && l0.Name == "_" {
						if l1, _ := as.Lhs[1].(*ast.Ident); l1 != nil {
							pre = ind + "let " + l1.Name + " := mapHas " + t.expr(ie.X) + " " + t.expr(ie.Index) + "\n"
							ok = x.Else == nil
						}
					}
				}
			}
		}
		if ok && len(x.Body.List) == 1 {
			if _, isRet := x.Body.List[0].(*ast.ReturnStmt); isRet {
				return pre + ind + "if " + t.expr(x.Cond) + " then\n" + t.stmts(x.Body.List, ind+"  ", loop, st) +
					ind + "else\n" + t.stmts(rest, ind+"  ", loop, st)
			}
		}
	case *ast.RangeStmt:
		// for _, v := range xs { body } ; rest
		if loop == "" && x.Tok == token.DEFINE && x.Value != nil {
			if k, _ := x.Key.(*ast.Ident); k != nil && k.Name == "_" {
				if v, _ := x.Value.(*ast.Ident); v != nil {
					vars := assignedVars(x.Body)
					if len(vars) == 1 {
						name := t.fn + "_loop"
						body := t.stmts(x.Body.List, "    ", name+" "+t.recv, vars[0])
						t.aux = append(t.aux, fmt.Sprintf(
							"/-- the `for _, %s := range %s` loop of `%s`: `some r` = early `return r`; loop-carried variable `%s` -/\ndef %s (%s : CheckTxFeees) : List String → Bool → (Option Bool × Bool)\n  | [], %s => (none, %s)\n  | %s :: rest, %s =>\n%s",
							v.Name, t.c.src(x.X), t.fn, vars[0], name, t.recv, vars[0], vars[0], v.Name, vars[0], body))
						return ind + "match " + name + " " + t.recv + " " + t.expr(x.X) + " " + vars[0] + " with\n" +
							ind + "| (some r, _) => r\n" +
							ind + "| (none, " + vars[0] + ") =>\n" + t.stmts(rest, ind+"  ", "", "")
					}
				}
			}
		}
	}
	// unknown statement: poison the result
	return ind + "if " + t.unk("unknownBool", s) + " then true else\n" + t.stmts(rest, ind, loop, st)
}

func (t *c20tr) boolFunc(fd *ast.FuncDecl) string {
	t.fn = fd.Name.Name
	t.recv = "ctf"
	if fd.Recv != nil && len(fd.Recv.List) == 1 && len(fd.Recv.List[0].Names) == 1 {
		t.recv = fd.Recv.List[0].Names[0].Name
	}
	params := []string{"(" + t.recv + " : CheckTxFeees)"}
	for _, p := range fd.Type.Params.List {
		ty := ""
		switch t.c.src(p.Type) {
		case "[]sdk.Msg":
			ty = "List String"
		case "uint64":
			ty = "Nat"
		default:
			ty = "Nat"
			t.unknowns = append(t.unknowns, t.fn+": parameter type "+t.c.src(p.Type))
		}
		for _, n := range p.Names {
			params = append(params, "("+n.Name+" : "+ty+")")
		}
	}
	body := t.stmts(fd.Body.List, "  ", "", "")
	return fmt.Sprintf("/-- `%s` (%s) -/\ndef %s %s : Bool :=\n%s", fd.Name.Name, t.c.pos(fd), fd.Name.Name, strings.Join(params, " "), body)
}

// ---- the decorator body -------------------------------------------------------------------------------------

var c20CondTable = map[string]string{
	"ok":                              "isFeeTx",
	"ctx.IsCheckTx()":                 "isCheckTx",
	"minGasPrices.IsZero()":           "(decCoinsIsZero minGasPrices)",
	"feeCoins.IsAnyGTE(requiredFees)": "(isAnyGTE feeCoins requiredFees)",
	"ctf.isByPassMinFee(feeTx.GetMsgs(), gas)": "(isByPassMinFee ctf msgs gas)",
}

func (t *c20tr) cond(e ast.Expr) string {
	switch x := e.(type) {
	case *ast.ParenExpr:
		return t.cond(x.X)
	case *ast.UnaryExpr:
		if x.Op == token.NOT {
			return "(!" + t.cond(x.X) + ")"
		}
	case *ast.BinaryExpr:
		if x.Op == token.LAND {
			return "(" + t.cond(x.X) + " && " + t.cond(x.Y) + ")"
		}
		if x.Op == token.LOR {
			return "(" + t.cond(x.X) + " || " + t.cond(x.Y) + ")"
		}
	}
	s := strings.Join(strings.Fields(t.c.src(e)), " ")
	if l, ok := c20CondTable[s]; ok {
		return l
	}
	return t.unk("unknownBool", e)
}

// verdict statements; k = Lean text of the continuation when the list falls through
func (t *c20tr) verdict(list []ast.Stmt, ind string, k string) string {
	if len(list) == 0 {
		return ind + k + "\n"
	}
	s, rest := list[0], list[1:]
	src := strings.Join(strings.Fields(t.c.src(s)), " ")
	switch x := s.(type) {
	case *ast.ReturnStmt:
		if len(x.Results) == 3 {
			last := t.c.src(x.Results[2])
			if last == "nil" {
				return ind + ".accept\n"
			}
			if _, isCall := x.Results[2].(*ast.CallExpr); isCall && t.c.src(x.Results[0]) == "nil" {
				if strings.Contains(last, "ErrTxDecode") {
					return ind + ".notFeeTx\n"
				}
				return ind + ".refuse\n"
			}
		}
	case *ast.AssignStmt:
		switch src {
		case "feeTx, ok := tx.(sdk.FeeTx)", "feeCoins := feeTx.GetFee()", "gas := feeTx.GetGas()", "minGasPrices := ctx.MinGasPrices()":
			return ind + "-- " + src + "   (parameter of the model)\n" + t.verdict(rest, ind, k)
		case "requiredFees := make(sdk.Coins, len(minGasPrices))":
			return ind + "-- " + src + "   (filled by the loop below)\n" + t.verdict(rest, ind, k)
		case "glDec := sdkmath.LegacyNewDec(int64(gas))":
			return ind + "let glDec := legacyNewDec (int64OfU64 gas)\n" + t.verdict(rest, ind, k)
		case "priority := getTxPriority(feeCoins, int64(gas))":
			// getTxPriority divides every fee amount by int64(gas): QuoRaw(0) panics
			return ind + "if " + t.priorityPanics() + " then .panic else\n" + t.verdict(rest, ind, k)
		}
	case *ast.RangeStmt:
		if src == "for i, gp := range minGasPrices { fee := gp.Amount.Mul(glDec) requiredFees[i] = sdk.NewCoin(gp.Denom, fee.Ceil().RoundInt()) }" {
			return ind + "let requiredFees := minGasPrices.map (fun gp =>\n" +
				ind + "  let fee := decMul gp.amount glDec\n" +
				ind + "  Coin.mk gp.denom (decCeilInt fee))\n" +
				ind + "if requiredFees.any newCoinPanics then .panic else   -- sdk.NewCoin panics on a negative amount\n" +
				t.verdict(rest, ind, k)
		}
	case *ast.IfStmt:
		if x.Init == nil && x.Else == nil {
			inner := t.verdict(x.Body.List, ind+"  ", "\x00")
			if !strings.Contains(inner, "\x00") {
				// the body always returns
				return ind + "if " + t.cond(x.Cond) + " then\n" + inner + ind + "else\n" + t.verdict(rest, ind+"  ", k)
			}
			// the body may fall through to the rest of the list
			if len(rest) == 0 {
				inner = strings.ReplaceAll(inner, "\x00", k)
				return ind + "if " + t.cond(x.Cond) + " then\n" + inner + ind + "else\n" + ind + "  " + k + "\n"
			}
			// name the continuation
			kname := fmt.Sprintf("k%d", len(ind))
			restTxt := t.verdict(rest, ind+"  ", k)
			inner = strings.ReplaceAll(inner, "\x00", kname+" ()")
			return ind + "let " + kname + " : Unit → Outcome := fun _ =>\n" + restTxt +
				ind + "if " + t.cond(x.Cond) + " then\n" + inner + ind + "else\n" + ind + "  " + kname + " ()\n"
		}
	}
	return ind + "if " + t.unk("unknownBool", s) + " then .panic else\n" + t.verdict(rest, ind, k)
}

// getTxPriority: panics iff some fee coin is divided by zero
func (t *c20tr) priorityPanics() string {
	fd := t.c.findFunc("ante", "", "getTxPriority")
	if fd == nil {
		return "(unknownBool \"getTxPriority missing\")"
	}
	quo := 0
	ast.Inspect(fd.Body, func(n ast.Node) bool {
		if ce, ok := n.(*ast.CallExpr); ok {
			if se, ok := ce.Fun.(*ast.SelectorExpr); ok && strings.HasPrefix(se.Sel.Name, "Quo") {
				if t.c.src(ce) == "c.Amount.QuoRaw(gas)" {
					quo++
				} else {
					quo += 100
				}
			}
		}
		if be, ok := n.(*ast.BinaryExpr); ok && (be.Op == token.QUO || be.Op == token.REM) {
			quo += 100
		}
		return true
	})
	if quo != 1 {
		return "(unknownBool \"getTxPriority: division sites changed\")"
	}
	return "(decide (int64OfU64 gas = 0) && !feeCoins.isEmpty)"
}

func extractC20(c *ctxT) {
	t := &c20tr{c: c, methods: map[string]bool{"isByPassMinFee": true, "bypassMinFeeMsgs": true, "isBypassMinFeeMsgGasUsage": true}}
	var sb strings.Builder
	sb.WriteString("import FxVerif.Model.C20Base\nnamespace FxVerif.Gen.C20\nopen FxVerif.Model.C20Base\n\n")
	var defs []string
	for _, name := range []string{"bypassMinFeeMsgs", "isBypassMinFeeMsgGasUsage", "isByPassMinFee"} {
		fd := c.findFunc("ante", "CheckTxFeees", name)
		if fd == nil {
			t.unknowns = append(t.unknowns, "missing function "+name)
			defs = append(defs, fmt.Sprintf("def %s (ctf : CheckTxFeees) (msgs : List String) (gas : Nat := 0) : Bool := unknownBool \"missing %s\"\n", name, name))
			continue
		}
		t.aux = nil
		d := t.boolFunc(fd)
		defs = append(defs, strings.Join(t.aux, "\n")+"\n"+d)
	}
	sb.WriteString(strings.Join(defs, "\n"))

	// the constructor: map keys = the configured list
	ctor := c.findFunc("ante", "", "NewCheckTxFeees")
	ctorOK := false
	if ctor != nil {
		s := strings.Join(strings.Fields(c.src(ctor.Body)), " ")
		ctorOK = strings.Contains(s, "for _, msgType := range bypassMinFeeMsgTypes { bypassMinFeeMsgTypesMap[msgType] = true }") &&
			strings.Contains(s, "bypassMsgTypesMap: bypassMinFeeMsgTypesMap") && strings.Contains(s, "maxBypassMsgGasUsage: maxBypassMinFeeMsgGasUsage")
	}
	fmt.Fprintf(&sb, "\n/-- `NewCheckTxFeees` stores exactly the configured type list (as map keys) and allowance -/\ndef ctorStoresConfig : Bool := %v\n", ctorOK)

	// the decorator
	fd := c.findFunc("ante", "CheckTxFeees", "checkTxFeeWithValidatorMinGasPrices")
	t.fn = "checkTxFee"
	t.aux = nil
	sb.WriteString("\n/-- `checkTxFeeWithValidatorMinGasPrices`: verdict of the fee checker.  `msgs` are the type URLs of `feeTx.GetMsgs()` -/\n")
	sb.WriteString("def checkTxFee (ctf : CheckTxFeees) (isFeeTx isCheckTx : Bool) (msgs : List String) (gas : Nat) (feeCoins : List Coin)\n    (minGasPrices : List DecCoin) : Outcome :=\n")
	if fd == nil {
		t.unknowns = append(t.unknowns, "missing checkTxFeeWithValidatorMinGasPrices")
		sb.WriteString("  if unknownBool \"missing\" then .panic else .refuse\n")
	} else {
		sb.WriteString(t.verdict(fd.Body.List, "  ", ".refuse /- unreachable: the Go function ends with return -/"))
	}
	// Check delegates to it
	chk := c.findFunc("ante", "CheckTxFeees", "Check")
	chkOK := chk != nil && strings.Join(strings.Fields(c.src(chk.Body)), " ") == "{ return ctf.checkTxFeeWithValidatorMinGasPrices(ctx, tx) }"
	fmt.Fprintf(&sb, "\n/-- `Check` (the ante.TxFeeChecker handed to DeductFeeDecorator) is `checkTxFeeWithValidatorMinGasPrices` -/\ndef checkDelegates : Bool := %v\n", chkOK)

	// NewAnteHandler: first statement is `defer evmante.Recover(ctx.Logger(), &err)`
	recov := false
	if nah := c.findFunc("ante", "", "NewAnteHandler"); nah != nil {
		ast.Inspect(nah.Body, func(n ast.Node) bool {
			if fl, ok := n.(*ast.FuncLit); ok && len(fl.Body.List) > 0 {
				if ds, ok := fl.Body.List[0].(*ast.DeferStmt); ok && strings.HasSuffix(c.src(ds.Call.Fun), ".Recover") &&
					len(ds.Call.Args) == 2 && c.src(ds.Call.Args[1]) == "&err" {
					// err must be the named result
					if fl.Type.Results != nil {
						for _, r := range fl.Type.Results.List {
							for _, n := range r.Names {
								if n.Name == "err" {
									recov = true
								}
							}
						}
					}
				}
				return false
			}
			return true
		})
	}
	fmt.Fprintf(&sb, "\n/-- the closure returned by `NewAnteHandler` starts with `defer evmante.Recover(ctx.Logger(), &err)` on its named result -/\ndef anteRecoversFirst : Bool := %v\n", recov)

	// wiring facts (ante chain, routing, app.go, ValidateModuleName, Byte32ToString)
	c20Wire(c, &sb, &t.unknowns)
	sort.Strings(t.unknowns)
	sb.WriteString("\n/-- constructs the translator did not know (must be empty) -/\ndef unknownConstructs : List String := " + leanList(mapStr(t.unknowns, leanStr)) + "\n")
	sb.WriteString("\nend FxVerif.Gen.C20\n")
	c.write("C20.lean", sb.String())
	c.facts["C20.unknownConstructs"] = t.unknowns
	c.facts["C20.anteRecoversFirst"] = recov

	extractC20Sites(c)
}

func mapStr(xs []string, f func(string) string) []string {
	out := make([]string, len(xs))
	for i, x := range xs {
		out[i] = f(x)
	}
	return out
}
