package main

import (
	"fmt"
	"go/ast"
	"regexp"
	"strings"
)

// C01/C02 round 3: facts of the crosschain genesis code and of the claim hashes.
//
//   - InitGenesis as a STATEMENT LIST (`genesisImport : List GenStmt`): the top-level statements of
//     x/crosschain/keeper/genesis.go:InitGenesis that touch the prefixes of the C01/C02 model, in source order.  The Lean
//     model INTERPRETS this list (`Model.C01.importGenesis`), so the position of `SetLastTotalPower` relative to the loop
//     that stores the oracle records, and the position of the last-observed nonce relative to the reconstruction of the
//     per-oracle last nonces, are the ones of the source.
//   - ExportGenesis: which of the modelled prefixes are exported at all (parked claims 0x54 and the per-oracle last nonce
//     0x23 are not: the first is lost, the second is reconstructed from the votes of the exported attestations).
//   - the six ClaimHash methods: whether each covers `m.BlockHeight` and `m.EventNonce` (votes that report a different
//     external height for an event nonce are votes for a different event and must not be tallied together).
func (c *ctxT) c01Genesis(facts map[string]any) string {
	norm := func(n ast.Node) string { return strings.Join(strings.Fields(stripComments(c.src(n))), " ") }
	var stmts []string
	var raw []string
	if fd := c.findFunc(c01Keeper, "", "InitGenesis"); fd != nil && fd.Body != nil {
		for _, st := range fd.Body.List {
			s := norm(st)
			kind := ""
			switch x := st.(type) {
			case *ast.IfStmt:
				if x.Init != nil && strings.HasPrefix(norm(x.Init), "err := k.SetParams(ctx, &state.Params)") {
					kind = ".setParams"
				}
			case *ast.ExprStmt:
				switch s {
				case "k.SetLastObservedEventNonce(ctx, state.LastObservedEventNonce)":
					kind = ".setLastObserved"
				case "k.SetProposalOracle(ctx, &state.ProposalOracle)":
					kind = ".setProposal"
				case "k.SetLastTotalPower(ctx)":
					kind = ".refreshTotal"
				default:
					if strings.Contains(s, "SetLastTotalPower") || strings.Contains(s, "SetLastObservedEventNonce(") {
						kind = ".unknown" // one of the modelled writes in a shape that is not recognised
					}
				}
			case *ast.RangeStmt:
				if norm(x.X) == "state.Oracles" && x.Body != nil {
					rec, ib, ie, otherStmt := false, false, false, false
					val := ""
					if id, ok := x.Value.(*ast.Ident); ok {
						val = id.Name
					}
					for _, b := range x.Body.List {
						switch norm(b) {
						case "k.SetOracle(ctx, " + val + ")":
							rec = true
						case "k.SetOracleAddrByBridgerAddr(ctx, " + val + ".GetBridger(), " + val + ".GetOracle())":
							ib = true
						case "k.SetOracleAddrByExternalAddr(ctx, " + val + ".ExternalAddress, " + val + ".GetOracle())":
							ie = true
						default:
							otherStmt = true
						}
					}
					kind = fmt.Sprintf("(.loadOracles %s %s %s)", leanBool(rec), leanBool(ib), leanBool(ie))
					if otherStmt {
						kind = ".unknown"
					}
				}
			case *ast.ForStmt:
				if x.Body != nil && strings.Contains(norm(x.Cond), "len(state.Attestations)") {
					// the WHOLE loop body must be the one the model interprets (every attestation, every vote, `>` against the
					// effective last nonce); anything else is `.unknown`
					const unpack = `att := state.Attestations[i] claim, err := types.UnpackAttestationClaim(k.cdc, &att) if err != nil { panic("couldn't cast to claim") } `
					switch norm(x.Body) {
					case "{ " + unpack + "k.SetAttestation(ctx, claim.GetEventNonce(), claim.ClaimHash(), &att) }":
						kind = ".loadAtts"
					case "{ " + unpack + "for _, vote := range att.Votes { oracle := sdk.MustAccAddressFromBech32(vote) last := k.GetLastEventNonceByOracle(ctx, oracle) if claim.GetEventNonce() > last { k.SetLastEventNonceByOracle(ctx, oracle, claim.GetEventNonce()) k.SetLastEventBlockHeightByOracle(ctx, oracle, claim.GetBlockHeight()) } } }":
						kind = ".rebuildLastNonce"
					default:
						kind = ".unknown"
						facts["C01.genesisUnknownLoop"] = norm(x.Body)
					}
				}
			}
			if kind == "" {
				// statements that write none of the modelled prefixes
				if strings.Contains(s, "SetOracle(") || strings.Contains(s, "SetLastTotalPower") || strings.Contains(s, "SetAttestation(") ||
					strings.Contains(s, "SetLastEventNonceByOracle(") || strings.Contains(s, "SetLastObservedEventNonce(") || strings.Contains(s, "SetPendingExecuteClaim") ||
					strings.Contains(s, "SavePendingExecuteClaim") {
					kind = ".unknown"
				} else {
					continue
				}
			}
			stmts = append(stmts, kind)
			if len(s) > 90 {
				s = s[:90]
			}
			raw = append(raw, kind+" <- "+s)
		}
	}
	facts["C01.genesisImport"] = raw

	// ExportGenesis: which modelled prefixes leave the store
	expOracles, expAtts, expLastObs, expProposal, expPending, expLastNonce := false, false, false, false, false, false
	if fd := c.findFunc(c01Keeper, "", "ExportGenesis"); fd != nil && fd.Body != nil {
		b := norm(fd.Body)
		expOracles = strings.Contains(b, "k.IterateOracle(ctx, func(oracle types.Oracle) bool { state.Oracles = append(state.Oracles, oracle) return false })")
		expAtts = strings.Contains(b, "k.IterateAttestations(ctx, func(attestation *types.Attestation) bool { state.Attestations = append(state.Attestations, *attestation) return false })")
		expLastObs = strings.Contains(b, "LastObservedEventNonce: k.GetLastObservedEventNonce(ctx)")
		expProposal = strings.Contains(b, "state.ProposalOracle, _ = k.GetProposalOracle(ctx)")
		expPending = strings.Contains(b, "PendingExecuteClaim")
		expLastNonce = strings.Contains(b, "LastEventNonceByOracle")
	}
	facts["C01.genesisExport"] = map[string]bool{"oracles": expOracles, "attestations": expAtts, "lastObserved": expLastObs,
		"proposal": expProposal, "pendingExecuteClaims": expPending, "lastEventNonceByOracle": expLastNonce}

	// ClaimHash: every implementation formats m.BlockHeight and m.EventNonce into the hashed path
	hashTypes := []string{"MsgSendToFxClaim", "MsgBridgeCallClaim", "MsgBridgeCallResultClaim", "MsgSendToExternalClaim", "MsgBridgeTokenClaim", "MsgOracleSetUpdatedClaim"}
	coversHeight, coversNonce := true, true
	perType := map[string]string{}
	// round 5: identity fields that FOLLOW EACH OTHER in the hashed path WITHOUT a separator (two verbs of the format string
	// with nothing between them): (claim type, left argument, right argument); a format that is not a string literal, or whose
	// verbs do not match its arguments, is reported as ("?", "?")
	var joined [][3]string
	reVerb := regexp.MustCompile(`%[-+# 0]*[0-9]*(\.[0-9]+)?[a-zA-Z]`)
	reArg := regexp.MustCompile(`\bm\.(BlockHeight|EventNonce)\b`)
	for _, tn := range hashTypes {
		fd := c.findFunc(c01Types, tn, "ClaimHash")
		h, n := false, false
		if fd != nil && fd.Body != nil {
			ast.Inspect(fd.Body, func(x ast.Node) bool {
				ce, ok := x.(*ast.CallExpr)
				if !ok {
					return true
				}
				if se, ok := ce.Fun.(*ast.SelectorExpr); ok && (se.Sel.Name == "Sprintf" || se.Sel.Name == "Fprintf" || se.Sel.Name == "Sprint") {
					if se.Sel.Name == "Sprintf" {
						lit, isLit := ce.Args[0].(*ast.BasicLit)
						if !isLit {
							joined = append(joined, [3]string{tn, "?", "?"})
						} else {
							f := strings.Trim(lit.Value, "\"`")
							locs := reVerb.FindAllStringIndex(f, -1)
							if len(locs) != len(ce.Args)-1 {
								joined = append(joined, [3]string{tn, "?", "?"})
							} else {
								for vi := 0; vi+1 < len(locs); vi++ {
									if locs[vi][1] == locs[vi+1][0] {
										joined = append(joined, [3]string{tn, c.src(ce.Args[1+vi]), c.src(ce.Args[2+vi])})
									}
								}
							}
						}
					}
					for _, a := range ce.Args[1:] {
						for _, m := range reArg.FindAllStringSubmatch(c.src(a), -1) {
							if m[1] == "BlockHeight" {
								h = true
							} else {
								n = true
							}
						}
					}
				}
				return true
			})
		}
		perType[tn] = fmt.Sprintf("height=%v nonce=%v", h, n)
		coversHeight = coversHeight && h
		coversNonce = coversNonce && n
	}
	facts["C01.claimHashCovers"] = perType
	facts["C01.claimHashJoined"] = joined

	var sb strings.Builder
	sb.WriteString("/-- the statements of `InitGenesis` that write a modelled prefix (`loadOracles rec idxB idxE`: the loop over `state.Oracles` stores the record / the bridger index / the external-address index) -/\ninductive GenStmt where\n  | setParams | setLastObserved | setProposal\n  | loadOracles (rec idxB idxE : Bool)\n  | refreshTotal | loadAtts | rebuildLastNonce | unknown\n  deriving DecidableEq, Repr\n\n")
	fmt.Fprintf(&sb, "/-- x/crosschain/keeper/genesis.go:InitGenesis — its statements that write a modelled prefix, in source order -/\ndef genesisImport : List GenStmt := [%s]\n\n", strings.Join(stmts, ", "))
	w := func(doc, name string, v bool) {
		fmt.Fprintf(&sb, "/-- %s -/\ndef %s : Bool := %s\n\n", doc, name, leanBool(v))
	}
	w("ExportGenesis exports every oracle record (IterateOracle)", "exportHasOracles", expOracles)
	w("ExportGenesis exports every attestation (IterateAttestations)", "exportHasAtts", expAtts)
	w("ExportGenesis exports LastObservedEventNonce", "exportHasLastObserved", expLastObs)
	w("ExportGenesis exports the proposal oracle list", "exportHasProposal", expProposal)
	w("ExportGenesis exports the parked (pending execute) claims", "exportHasPending", expPending)
	w("ExportGenesis exports LastEventNonceByOracle (otherwise InitGenesis reconstructs it from the votes)", "exportHasLastNonce", expLastNonce)
	w("all six ClaimHash implementations format m.BlockHeight into the hashed path", "claimHashCoversHeight", coversHeight)
	w("all six ClaimHash implementations format m.EventNonce into the hashed path", "claimHashCoversNonce", coversNonce)
	var js []string
	for _, j := range joined {
		js = append(js, fmt.Sprintf("(%q, %q, %q)", j[0], j[1], j[2]))
	}
	fmt.Fprintf(&sb, "/-- ClaimHash format strings: pairs of identity fields that follow each other WITHOUT a separator (claim type, left argument, right argument) -/\ndef claimHashJoined : List (String × String × String) := [%s]\n\n", strings.Join(js, ", "))
	return sb.String()
}
