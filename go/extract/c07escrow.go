package main

import (
	"fmt"
	"go/ast"
	"strings"
)

// C07 (gov escrow): the two guards that keep the gov module account able to pay every recorded deposit, read off the AST
//   * `case passes:` of gov.EndBlocker (x/gov/abci.go) as a list of steps in SOURCE ORDER: cache, getMsgs, msgLoop,
//     check:<Keeper method called on cacheCtx whose `false` answer sets err>, commitIfOk (the `if err == nil { … writeCache() … }`);
//   * the shape of that check method (x/gov/keeper): which collection it walks, what it sums, whose balance it reads and how it
//     compares;
//   * `Keeper.AddDeposit`: the order of the refusal of the gov account as depositor, the transfer into the module account and
//     the deposit record.
// → Gen/C07.lean (`govPassBranch`, `govEscrowChecks`, `addDepositSteps`); Model/C07 turns them into `C07Escrow.Code`.

func c07HasCall(c *ctxT, n ast.Node, pred func(fun string, ce *ast.CallExpr) bool) bool {
	found := false
	if n == nil {
		return false
	}
	ast.Inspect(n, func(x ast.Node) bool {
		if ce, ok := x.(*ast.CallExpr); ok && pred(squash(c.src(ce.Fun)), ce) {
			found = true
		}
		return !found
	})
	return found
}

func c07EscrowFacts(c *ctxT, sb *strings.Builder) {
	sb.WriteString("/-! ## x/gov: the deposit escrow — pass branch of the end-blocker, the escrow check, `AddDeposit` -/\n\n")
	var branch []string
	var checks []string
	if fd := c.findFunc(c07GovMod, "", "EndBlocker"); fd != nil && fd.Body != nil {
		var clause *ast.CaseClause
		ast.Inspect(fd.Body, func(n ast.Node) bool {
			if cc, ok := n.(*ast.CaseClause); ok && clause == nil && len(cc.List) == 1 && squash(c.src(cc.List[0])) == "passes" {
				clause = cc
			}
			return clause == nil
		})
		if clause != nil {
			for _, st := range clause.Body {
				switch x := st.(type) {
				case *ast.DeclStmt:
					continue
				case *ast.AssignStmt:
					rhs := squash(c.src(x.Rhs[0]))
					switch {
					case strings.HasSuffix(rhs, ".CacheContext()"):
						branch = append(branch, "cache")
					case strings.HasSuffix(rhs, ".GetMsgs()"):
						branch = append(branch, "getMsgs")
					default:
						branch = append(branch, "other:"+squash(c.src(st)))
					}
				case *ast.RangeStmt:
					if squash(c.src(x.X)) == "messages" && c07HasCall(c, x.Body, func(f string, _ *ast.CallExpr) bool { return f == "safeExecuteHandler" }) {
						branch = append(branch, "msgLoop")
					} else {
						branch = append(branch, "other:range "+squash(c.src(x.X)))
					}
				case *ast.IfStmt:
					cond := squash(c.src(x.Cond))
					switch {
					case cond == "err != nil" && x.Init == nil:
						branch = append(branch, "getMsgsFail")
					case cond == "err == nil" && c07HasCall(c, x.Body, func(f string, _ *ast.CallExpr) bool { return f == "writeCache" }):
						if x.Else != nil {
							branch = append(branch, "commitIfOk")
						} else {
							branch = append(branch, "commitIfOk:no-else")
						}
					case cond == "err == nil":
						// a check on the cache context: `ok, err = keeper.X(cacheCtx); err == nil && !ok → err = …`
						name := ""
						ast.Inspect(x.Body, func(n ast.Node) bool {
							if ce, ok := n.(*ast.CallExpr); ok && name == "" {
								if se, ok := ce.Fun.(*ast.SelectorExpr); ok && squash(c.src(se.X)) == "keeper" && len(ce.Args) == 1 && squash(c.src(ce.Args[0])) == "cacheCtx" {
									name = se.Sel.Name
								}
							}
							return name == ""
						})
						setsErr := false
						ast.Inspect(x.Body, func(n ast.Node) bool {
							if ifs, ok := n.(*ast.IfStmt); ok && strings.Contains(squash(c.src(ifs.Cond)), "!") {
								for _, s := range ifs.Body.List {
									if as, ok := s.(*ast.AssignStmt); ok && len(as.Lhs) == 1 && squash(c.src(as.Lhs[0])) == "err" && squash(c.src(as.Rhs[0])) != "nil" {
										setsErr = true
									}
								}
							}
							return true
						})
						if name != "" && setsErr {
							branch = append(branch, "check:"+name)
							checks = append(checks, name)
						} else {
							branch = append(branch, "other:if err == nil")
						}
					default:
						branch = append(branch, "other:if "+cond)
					}
				default:
					branch = append(branch, "other:"+squash(c.src(st)))
				}
			}
		}
	}
	// the tallied-proposal callback: where the refund / burn sits relative to the outcome switch
	var active []string
	if fd := c.findFunc(c07GovMod, "", "EndBlocker"); fd != nil && fd.Body != nil {
		ast.Inspect(fd.Body, func(n ast.Node) bool {
			fl, ok := n.(*ast.FuncLit)
			if !ok || len(active) > 0 {
				return true
			}
			if !c07HasCall(c, fl.Body, func(f string, _ *ast.CallExpr) bool { return strings.HasSuffix(f, ".Tally") }) {
				return true
			}
			isSettle := func(f string, _ *ast.CallExpr) bool {
				return strings.HasSuffix(f, ".RefundAndDeleteDeposits") || strings.HasSuffix(f, ".DeleteAndBurnDeposits")
			}
			for _, st := range fl.Body.List {
				switch x := st.(type) {
				case *ast.SwitchStmt:
					word := "outcomeSwitch"
					if c07HasCall(c, x, isSettle) {
						word = "outcomeSwitch+settle"
					}
					active = append(active, word)
					continue
				case *ast.IfStmt:
					if c07HasCall(c, x.Body, isSettle) && !c07HasCall(c, x.Body, func(f string, _ *ast.CallExpr) bool { return f == "failUnsupportedProposal" }) {
						active = append(active, "settle:"+squash(c.src(x.Cond)))
						continue
					}
				}
				switch {
				case c07HasCall(c, st, func(f string, _ *ast.CallExpr) bool { return strings.HasSuffix(f, ".Tally") }):
					active = append(active, "tally")
				case c07HasCall(c, st, isSettle) && !c07HasCall(c, st, func(f string, _ *ast.CallExpr) bool { return f == "failUnsupportedProposal" }):
					active = append(active, "settle:always")
				case c07HasCall(c, st, func(f string, _ *ast.CallExpr) bool { return strings.HasSuffix(f, ".ActiveProposalsQueue.Remove") }) && !c07HasCall(c, st, func(f string, _ *ast.CallExpr) bool { return f == "failUnsupportedProposal" }):
					active = append(active, "dequeue")
				case c07HasCall(c, st, func(f string, _ *ast.CallExpr) bool { return strings.HasSuffix(f, ".SetProposal") }):
					active = append(active, "setProposal")
				}
			}
			return true
		})
	}
	var arows []string
	for _, b := range active {
		arows = append(arows, leanStr(b))
	}
	fmt.Fprintf(sb, "/-- the callback of the active-queue walk of gov.EndBlocker: tally, refund / burn (with its condition), queue removal, the outcome switch, the proposal write — in source order -/\ndef govActiveSteps : List String := %s\n\n", leanList(arows))
	c.facts["C07.govActiveSteps"] = active

	var rows []string
	for _, b := range branch {
		rows = append(rows, leanStr(b))
	}
	fmt.Fprintf(sb, "/-- `case passes:` of gov.EndBlocker, statement kinds in source order -/\ndef govPassBranch : List String := %s\n\n", leanList(rows))

	// shape of each check method
	var shapes []string
	for _, name := range checks {
		var shape []string
		if fd := c.findFunc(c07GovKeeper, "Keeper", name); fd != nil && fd.Body != nil {
			ast.Inspect(fd.Body, func(n ast.Node) bool {
				switch x := n.(type) {
				case *ast.CallExpr:
					f := squash(c.src(x.Fun))
					switch {
					case strings.HasSuffix(f, ".Walk") && len(x.Args) >= 2:
						shape = append(shape, "walk:"+strings.TrimSuffix(f, ".Walk")+":"+squash(c.src(x.Args[1])))
					case strings.HasSuffix(f, ".GetModuleAddress") && len(x.Args) == 1:
						shape = append(shape, "addr:"+squash(c.src(x.Args[0])))
					}
				case *ast.AssignStmt:
					if len(x.Lhs) == 1 && len(x.Rhs) == 1 {
						if ce, ok := x.Rhs[0].(*ast.CallExpr); ok {
							if se, ok := ce.Fun.(*ast.SelectorExpr); ok && se.Sel.Name == "Add" && squash(c.src(se.X)) == squash(c.src(x.Lhs[0])) && len(ce.Args) == 1 {
								shape = append(shape, "sum:"+squash(c.src(x.Lhs[0]))+"+="+squash(c.src(ce.Args[0])))
							}
						}
					}
				case *ast.ReturnStmt:
					if len(x.Results) == 2 && squash(c.src(x.Results[1])) == "nil" {
						shape = append(shape, "ret:"+squash(c.src(x.Results[0])))
					}
				}
				return true
			})
		}
		var q []string
		for _, s := range shape {
			q = append(q, leanStr(s))
		}
		shapes = append(shapes, fmt.Sprintf("(%s, %s)", leanStr(name), leanList(q)))
	}
	fmt.Fprintf(sb, "/-- the checks of the pass branch: method of the fx gov keeper, and what its body does (walks, sums, module address, returned comparison) -/\ndef govEscrowChecks : List (String × List String) := %s\n\n", leanList(shapes))

	// AddDeposit: order of guard / transfer / record
	var steps []string
	if fd := c.findFunc(c07GovKeeper, "Keeper", "AddDeposit"); fd != nil && fd.Body != nil {
		for _, st := range fd.Body.List {
			if ifs, ok := st.(*ast.IfStmt); ok {
				cond := squash(c.src(ifs.Cond))
				if strings.Contains(cond, "depositorAddr.Equals(") && strings.Contains(cond, "GetModuleAddress(govtypes.ModuleName)") && !strings.HasPrefix(cond, "!") && blockReturnsErr(ifs.Body) {
					steps = append(steps, "refuse:govDepositor")
					continue
				}
			}
			if c07HasCall(c, st, func(f string, ce *ast.CallExpr) bool {
				return strings.HasSuffix(f, ".SendCoinsFromAccountToModule") && len(ce.Args) == 4 && squash(c.src(ce.Args[1])) == "depositorAddr"
			}) {
				steps = append(steps, "transfer")
			}
			if c07HasCall(c, st, func(f string, _ *ast.CallExpr) bool { return f == "keeper.SetDeposit" || f == "keeper.Deposits.Set" }) {
				steps = append(steps, "record")
			}
		}
	}
	var q []string
	for _, s := range steps {
		q = append(q, leanStr(s))
	}
	fmt.Fprintf(sb, "/-- `Keeper.AddDeposit` (x/gov/keeper/deposit.go): refusal of the gov module account as depositor, transfer into the module account, deposit record — in source order -/\ndef addDepositSteps : List String := %s\n\n", leanList(q))
	c.facts["C07.govPassBranch"] = branch
	c.facts["C07.govEscrowChecks"] = checks
	c.facts["C07.addDepositSteps"] = steps
}
