package main

import (
	"fmt"
	"go/ast"
	"go/token"
	"os"
	"sort"
	"strconv"
	"strings"
)

// C20, part 2: inventory of potentially panicking constructs in the fx-core functions reachable (syntactic call graph,
// fx-core packages only, generated *.pb.go excluded: those are the protobuf decoders, outside the model) from
// stateless validation (ValidateBasic / Validate / validateBasic), precompile argument parsing (ParseMethodArgs),
// target and address parsers and the ante package.  For every site the extractor records whether a dominating guard
// is present.  Typing is syntactic ("light"): struct field types are read from the struct declarations (including the
// generated ones), locals only when their type is evident.

var c20Pkgs = []string{"ante", "types", "contract", "x/crosschain/types", "x/staking/types", "x/erc20/types",
	"x/migrate/types", "x/gov/types", "x/evm/types", "x/ibc/middleware/types", "x/crosschain/precompile", "x/staking/precompile"}

type c20Ty struct {
	pkg, name string // import path ("" = builtin / unknown) and type name
	ptr       bool
	elem      *c20Ty // slice / array element
	isMap     bool
	isArray   bool
}

func (t *c20Ty) String() string {
	if t == nil {
		return "?"
	}
	s := ""
	if t.ptr {
		s += "*"
	}
	if t.elem != nil {
		return s + "[]" + t.elem.String()
	}
	if t.isMap {
		return s + "map"
	}
	return s + t.pkg + "." + t.name
}

const (
	pathMath = "cosmossdk.io/math"
	pathSdk  = "github.com/cosmos/cosmos-sdk/types"
	pathBig  = "math/big"
)

// class of a type with respect to nil-dereference on use
func (t *c20Ty) class() string {
	if t == nil || t.elem != nil || t.isMap {
		if t != nil && t.elem != nil && !t.ptr && (t.elem.pkg == pathSdk && (t.elem.name == "Coin" || t.elem.name == "DecCoin")) {
			return "nilcoins"
		}
		return ""
	}
	switch {
	case t.pkg == pathMath && (t.name == "Int" || t.name == "LegacyDec" || t.name == "Uint"):
		return "nilint"
	case t.pkg == pathBig && t.name == "Int" && t.ptr:
		return "nilint"
	case t.pkg == pathSdk && (t.name == "Coin" || t.name == "DecCoin") && !t.ptr:
		return "nilcoin"
	case t.pkg == pathSdk && (t.name == "Coins" || t.name == "DecCoins"):
		return "nilcoins"
	}
	return ""
}

type c20Struct struct {
	st   *ast.StructType
	file *ast.File
	rel  string
}

type c20Func struct {
	rel  string
	file *ast.File
	fd   *ast.FuncDecl
	name string // Recv.Method or Func
}

type c20Site struct {
	Pkg, Fn, Kind, Expr, Guard string
	Line                       int
	Guarded                    bool
}

type c20Inv struct {
	c       *ctxT
	structs map[string]map[string]*c20Struct // rel -> type name -> struct
	named   map[string]map[string]ast.Expr   // rel -> type name -> underlying type expr (non-struct)
	namedF  map[string]map[string]*ast.File
	funcs   map[string][]*c20Func // rel -> funcs (non-generated files)
	pkgVars map[string]map[string]*c20Ty
}

func isGenerated(fn string) bool {
	return strings.HasSuffix(fn, ".pb.go") || strings.HasSuffix(fn, ".pb.gw.go")
}

func (v *c20Inv) load(rel string) {
	if _, ok := v.structs[rel]; ok {
		return
	}
	v.structs[rel] = map[string]*c20Struct{}
	v.named[rel] = map[string]ast.Expr{}
	v.namedF[rel] = map[string]*ast.File{}
	v.pkgVars[rel] = map[string]*c20Ty{}
	p := v.c.pkg(rel)
	for _, fn := range sortedKeys(p) {
		f := p[fn]
		for _, d := range f.Decls {
			switch x := d.(type) {
			case *ast.GenDecl:
				for _, sp := range x.Specs {
					switch s := sp.(type) {
					case *ast.TypeSpec:
						if st, ok := s.Type.(*ast.StructType); ok {
							v.structs[rel][s.Name.Name] = &c20Struct{st: st, file: f, rel: rel}
						} else {
							v.named[rel][s.Name.Name] = s.Type
							v.namedF[rel][s.Name.Name] = f
						}
					case *ast.ValueSpec:
						if x.Tok == token.VAR && !isGenerated(fn) {
							for i, n := range s.Names {
								var t *c20Ty
								if s.Type != nil {
									t = v.resolve(rel, f, s.Type)
								} else if i < len(s.Values) {
									t = v.litType(rel, f, s.Values[i])
								}
								if t != nil {
									v.pkgVars[rel][n.Name] = t
								}
							}
						}
					}
				}
			case *ast.FuncDecl:
				if x.Body == nil || isGenerated(fn) {
					continue
				}
				name := x.Name.Name
				if r := recvName(x); r != "" {
					name = r + "." + name
				}
				v.funcs[rel] = append(v.funcs[rel], &c20Func{rel: rel, file: f, fd: x, name: name})
			}
		}
	}
}

// litType: type of `make(T, ..)`, `T{}`, `&T{}`, `map[..]..{}`
func (v *c20Inv) litType(rel string, f *ast.File, e ast.Expr) *c20Ty {
	switch x := e.(type) {
	case *ast.CompositeLit:
		if x.Type != nil {
			return v.resolve(rel, f, x.Type)
		}
	case *ast.UnaryExpr:
		if x.Op == token.AND {
			if t := v.litType(rel, f, x.X); t != nil {
				c := *t
				c.ptr = true
				return &c
			}
		}
	case *ast.CallExpr:
		if id, ok := x.Fun.(*ast.Ident); ok && id.Name == "make" && len(x.Args) > 0 {
			return v.resolve(rel, f, x.Args[0])
		}
	}
	return nil
}

func (v *c20Inv) resolve(rel string, f *ast.File, e ast.Expr) *c20Ty {
	switch x := e.(type) {
	case *ast.Ident:
		if _, ok := v.structs[rel][x.Name]; ok {
			return &c20Ty{pkg: modPath + rel, name: x.Name}
		}
		if u, ok := v.named[rel][x.Name]; ok {
			t := v.resolve(rel, v.namedF[rel][x.Name], u)
			if t != nil && (t.elem != nil || t.isMap) {
				return t
			}
			return &c20Ty{pkg: modPath + rel, name: x.Name}
		}
		return &c20Ty{name: x.Name}
	case *ast.SelectorExpr:
		if id, ok := x.X.(*ast.Ident); ok {
			if ip, ok := imports(f)[id.Name]; ok {
				if strings.HasPrefix(ip, modPath) {
					r2 := strings.TrimPrefix(ip, modPath)
					if dirExists(v.c.repo + "/" + r2) {
						v.load(r2)
						return v.resolve(r2, nil, &ast.Ident{Name: x.Sel.Name})
					}
				}
				return &c20Ty{pkg: ip, name: x.Sel.Name}
			}
		}
	case *ast.StarExpr:
		if t := v.resolve(rel, f, x.X); t != nil {
			c := *t
			c.ptr = true
			return &c
		}
	case *ast.ArrayType:
		if t := v.resolve(rel, f, x.Elt); t != nil {
			return &c20Ty{elem: t, isArray: x.Len != nil}
		}
	case *ast.Ellipsis:
		if t := v.resolve(rel, f, x.Elt); t != nil {
			return &c20Ty{elem: t}
		}
	case *ast.MapType:
		return &c20Ty{isMap: true}
	}
	return nil
}

func dirExists(p string) bool {
	_, err := readDirNames(p)
	return err == nil
}

func (v *c20Inv) fieldType(t *c20Ty, field string) *c20Ty {
	if t == nil || t.elem != nil || t.isMap {
		return nil
	}
	if t.pkg == pathSdk && (t.name == "Coin" || t.name == "DecCoin") {
		switch field {
		case "Denom":
			return &c20Ty{name: "string"}
		case "Amount":
			if t.name == "Coin" {
				return &c20Ty{pkg: pathMath, name: "Int"}
			}
			return &c20Ty{pkg: pathMath, name: "LegacyDec"}
		}
	}
	if !strings.HasPrefix(t.pkg, modPath) {
		return nil
	}
	rel := strings.TrimPrefix(t.pkg, modPath)
	v.load(rel)
	st, ok := v.structs[rel][t.name]
	if !ok {
		return nil
	}
	for _, fl := range st.st.Fields.List {
		for _, n := range fl.Names {
			if n.Name == field {
				return v.resolve(rel, st.file, fl.Type)
			}
		}
	}
	return nil
}

// ---- per-function analysis ---------------------------------------------------------------------------------

type c20Fn struct {
	v       *c20Inv
	f       *c20Func
	env     map[string]*c20Ty
	parents map[ast.Node]ast.Node
	sites   []c20Site
	calls   map[string]bool // "rel|Name" or "rel|.Method"
}

func (a *c20Fn) src(n ast.Node) string { return strings.Join(strings.Fields(a.v.c.src(n)), " ") }

func (a *c20Fn) typeOf(e ast.Expr) *c20Ty {
	switch x := e.(type) {
	case *ast.ParenExpr:
		return a.typeOf(x.X)
	case *ast.Ident:
		if t, ok := a.env[x.Name]; ok {
			return t
		}
		if t, ok := a.v.pkgVars[a.f.rel][x.Name]; ok {
			return t
		}
	case *ast.SelectorExpr:
		if t := a.typeOf(x.X); t != nil {
			return a.v.fieldType(t, x.Sel.Name)
		}
	case *ast.IndexExpr:
		if t := a.typeOf(x.X); t != nil && t.elem != nil {
			return t.elem
		}
	case *ast.StarExpr:
		if t := a.typeOf(x.X); t != nil {
			c := *t
			c.ptr = false
			return &c
		}
	case *ast.UnaryExpr:
		if x.Op == token.AND {
			if t := a.typeOf(x.X); t != nil {
				c := *t
				c.ptr = true
				return &c
			}
		}
	case *ast.CompositeLit, *ast.CallExpr:
		return a.v.litType(a.f.rel, a.f.file, e)
	}
	return nil
}

func (a *c20Fn) buildEnv() {
	fd := a.f.fd
	add := func(fl *ast.FieldList) {
		if fl == nil {
			return
		}
		for _, p := range fl.List {
			t := a.v.resolve(a.f.rel, a.f.file, p.Type)
			for _, n := range p.Names {
				if t != nil {
					a.env[n.Name] = t
				}
			}
		}
	}
	add(fd.Recv)
	add(fd.Type.Params)
	ast.Inspect(fd.Body, func(n ast.Node) bool {
		switch x := n.(type) {
		case *ast.AssignStmt:
			if x.Tok == token.DEFINE && len(x.Lhs) == len(x.Rhs) {
				for i, l := range x.Lhs {
					if id, ok := l.(*ast.Ident); ok && id.Name != "_" {
						if t := a.typeOf(x.Rhs[i]); t != nil {
							a.env[id.Name] = t
						}
					}
				}
			}
		case *ast.RangeStmt:
			if x.Tok == token.DEFINE {
				if t := a.typeOf(x.X); t != nil && t.elem != nil {
					if id, ok := x.Value.(*ast.Ident); ok && id.Name != "_" {
						a.env[id.Name] = t.elem
					}
				}
				if id, ok := x.Key.(*ast.Ident); ok && id.Name != "_" {
					a.env[id.Name] = &c20Ty{name: "int"}
				}
			}
		case *ast.DeclStmt:
			if gd, ok := x.Decl.(*ast.GenDecl); ok && gd.Tok == token.VAR {
				for _, sp := range gd.Specs {
					vs := sp.(*ast.ValueSpec)
					if vs.Type != nil {
						if t := a.v.resolve(a.f.rel, a.f.file, vs.Type); t != nil {
							for _, n := range vs.Names {
								a.env[n.Name] = t
							}
						}
					}
				}
			}
		}
		return true
	})
}

func (a *c20Fn) buildParents() {
	var stack []ast.Node
	ast.Inspect(a.f.fd.Body, func(n ast.Node) bool {
		if n == nil {
			stack = stack[:len(stack)-1]
			return true
		}
		if len(stack) > 0 {
			a.parents[n] = stack[len(stack)-1]
		}
		stack = append(stack, n)
		return true
	})
}

func flatten(e ast.Expr, op token.Token) []ast.Expr {
	switch x := e.(type) {
	case *ast.ParenExpr:
		return flatten(x.X, op)
	case *ast.BinaryExpr:
		if x.Op == op {
			return append(flatten(x.X, op), flatten(x.Y, op)...)
		}
	}
	return []ast.Expr{e}
}

func terminates(b *ast.BlockStmt) bool {
	if b == nil || len(b.List) == 0 {
		return false
	}
	switch x := b.List[len(b.List)-1].(type) {
	case *ast.ReturnStmt:
		return true
	case *ast.BranchStmt:
		return x.Tok == token.CONTINUE || x.Tok == token.BREAK
	case *ast.ExprStmt:
		if ce, ok := x.X.(*ast.CallExpr); ok {
			if id, ok := ce.Fun.(*ast.Ident); ok && id.Name == "panic" {
				return true
			}
		}
	}
	return false
}

// dominated reports whether some expression accepted by bad (a condition that is true when the site would panic, in
// an `||` chain to the left of the site or in an earlier `if … { return }`) or by good (a condition that is true only
// when the site is safe, in an `&&` chain to the left or in an enclosing `if`) dominates the site.
func (a *c20Fn) dominated(site ast.Node, bad, good func(ast.Expr) bool) (bool, string) {
	check := func(es []ast.Expr, f func(ast.Expr) bool) (bool, string) {
		for _, e := range es {
			if f(e) {
				return true, a.src(e)
			}
		}
		return false, ""
	}
	child := site
	for p := a.parents[site]; p != nil; child, p = p, a.parents[p] {
		switch x := p.(type) {
		case *ast.BinaryExpr:
			if x.Y == child || containsNode(x.Y, child) {
				if x.Op == token.LOR {
					if ok, g := check(flatten(x.X, token.LOR), bad); ok {
						return true, g
					}
				}
				if x.Op == token.LAND {
					if ok, g := check(flatten(x.X, token.LAND), good); ok {
						return true, g
					}
				}
			}
		case *ast.IfStmt:
			if x.Body == child {
				if ok, g := check(flatten(x.Cond, token.LAND), good); ok {
					return true, "if " + g
				}
			}
			if x.Else == child {
				if ok, g := check(flatten(x.Cond, token.LOR), bad); ok {
					return true, "else of if " + g
				}
			}
		case *ast.CaseClause:
			// switch { case cond: body }
			for _, ce := range x.List {
				inBody := false
				for _, s := range x.Body {
					if s == child {
						inBody = true
					}
				}
				if inBody && len(x.List) == 1 {
					if ok, g := check(flatten(ce, token.LAND), good); ok {
						return true, "case " + g
					}
				}
			}
		case *ast.RangeStmt:
			if x.Body == child {
				if good(&ast.CallExpr{Fun: &ast.Ident{Name: "__range"}, Args: []ast.Expr{x.Key, x.X}}) {
					return true, "for " + a.src(x.Key) + " := range " + a.src(x.X)
				}
			}
		case *ast.ForStmt:
			if x.Body == child && x.Cond != nil {
				if ok, g := check(flatten(x.Cond, token.LAND), good); ok {
					return true, "for …; " + g
				}
			}
		case *ast.BlockStmt:
			for _, s := range x.List {
				if s == child {
					break
				}
				if is, ok := s.(*ast.IfStmt); ok && is.Else == nil && terminates(is.Body) {
					if ok, g := check(flatten(is.Cond, token.LOR), bad); ok {
						return true, "if " + g + " { return }"
					}
				}
			}
		}
	}
	return false, ""
}

func containsNode(root, n ast.Node) bool {
	found := false
	ast.Inspect(root, func(x ast.Node) bool {
		if x == n {
			found = true
		}
		return !found
	})
	return found
}

func (a *c20Fn) add(n ast.Node, kind, expr string, guarded bool, guard string) {
	a.sites = append(a.sites, c20Site{Pkg: a.f.rel, Fn: a.f.name, Kind: kind, Expr: expr, Guarded: guarded, Guard: guard,
		Line: a.v.c.fset.Position(n.Pos()).Line})
}

var c20SafeMethods = map[string]bool{"IsNil": true, "String": true, "IsAnyNil": true, "Len": true, "Empty": true,
	"IsValid": true, "GetDenom": true}

func intLit(e ast.Expr) (int, bool) {
	if bl, ok := e.(*ast.BasicLit); ok && bl.Kind == token.INT {
		n, err := strconv.Atoi(strings.ReplaceAll(bl.Value, "_", ""))
		return n, err == nil
	}
	return 0, false
}

// lenCmp matches `len(S) op k` (or mirrored) and returns op normalised to len-on-the-left
func (a *c20Fn) lenCmp(e ast.Expr, s string) (token.Token, int, bool) {
	be, ok := e.(*ast.BinaryExpr)
	if !ok {
		return 0, 0, false
	}
	isLen := func(x ast.Expr) bool {
		ce, ok := x.(*ast.CallExpr)
		return ok && a.src(ce.Fun) == "len" && len(ce.Args) == 1 && a.src(ce.Args[0]) == s
	}
	mirror := map[token.Token]token.Token{token.LSS: token.GTR, token.GTR: token.LSS, token.LEQ: token.GEQ, token.GEQ: token.LEQ, token.EQL: token.EQL, token.NEQ: token.NEQ}
	if isLen(be.X) {
		if k, ok := intLit(be.Y); ok {
			return be.Op, k, true
		}
	}
	if isLen(be.Y) {
		if k, ok := intLit(be.X); ok {
			if m, ok := mirror[be.Op]; ok {
				return m, k, true
			}
		}
	}
	return 0, 0, false
}

func (a *c20Fn) analyse() {
	a.buildEnv()
	a.buildParents()
	fd := a.f.fd
	imps := imports(a.f.file)
	ast.Inspect(fd.Body, func(n ast.Node) bool {
		switch x := n.(type) {
		case *ast.CallExpr:
			a.call(x, imps)
		case *ast.IndexExpr:
			a.index(x)
		case *ast.SliceExpr:
			if x.Low == nil && x.High == nil {
				break
			}
			if t := a.typeOf(x.X); t != nil && t.isMap {
				break
			}
			s := a.src(x.X)
			need := -1
			for _, b := range []ast.Expr{x.Low, x.High, x.Max} {
				if b == nil {
					continue
				}
				if k, ok := intLit(b); ok {
					if k > need {
						need = k
					}
				} else {
					need = 1 << 30
				}
			}
			g, gs := false, ""
			if need < 1<<30 {
				g, gs = a.dominated(x, func(e ast.Expr) bool {
					op, k, ok := a.lenCmp(e, s)
					return ok && ((op == token.LSS && k >= need) || (op == token.LEQ && k >= need-1) || (op == token.NEQ && k >= need))
				}, func(e ast.Expr) bool {
					op, k, ok := a.lenCmp(e, s)
					return ok && ((op == token.EQL && k >= need) || (op == token.GTR && k >= need-1) || (op == token.GEQ && k >= need))
				})
			}
			a.add(x, "slice", a.src(x), g, gs)
		case *ast.TypeAssertExpr:
			if x.Type == nil {
				break // type switch
			}
			if as, ok := a.parents[x].(*ast.AssignStmt); ok && len(as.Lhs) == 2 && len(as.Rhs) == 1 {
				break // v, ok := x.(T)
			}
			if vs, ok := a.parents[x].(*ast.ValueSpec); ok && len(vs.Names) == 2 {
				break
			}
			a.add(x, "assert", a.src(x), false, "")
		case *ast.BinaryExpr:
			if x.Op == token.QUO || x.Op == token.REM {
				if _, ok := intLit(x.Y); ok {
					break
				}
				if bl, ok := x.Y.(*ast.BasicLit); ok && bl.Kind == token.FLOAT {
					break
				}
				s := a.src(x.Y)
				g, gs := a.dominated(x, func(e ast.Expr) bool {
					es := a.src(e)
					return es == s+" == 0" || es == s+" <= 0"
				}, func(e ast.Expr) bool {
					es := a.src(e)
					return es == s+" != 0" || es == s+" > 0"
				})
				a.add(x, "div", a.src(x), g, gs)
			}
		case *ast.StarExpr:
			// pointer dereference in expression position
			if _, isType := a.parents[x].(*ast.Field); isType {
				break
			}
			if a.isTypeExpr(x) {
				break
			}
			s := a.src(x.X)
			g, gs := a.dominated(x, func(e ast.Expr) bool { return a.src(e) == s+" == nil" }, func(e ast.Expr) bool { return a.src(e) == s+" != nil" })
			a.add(x, "deref", a.src(x), g, gs)
		}
		return true
	})
}

func (a *c20Fn) isTypeExpr(x *ast.StarExpr) bool {
	switch p := a.parents[x].(type) {
	case *ast.TypeAssertExpr:
		return p.Type == x
	case *ast.CompositeLit:
		return p.Type == x
	case *ast.ValueSpec:
		return p.Type == x
	case *ast.ParenExpr:
		// (*T)(nil)
		if ce, ok := a.parents[p].(*ast.CallExpr); ok && ce.Fun == p {
			return true
		}
	case *ast.CallExpr:
		// new(*T), make
		if id, ok := p.Fun.(*ast.Ident); ok && (id.Name == "new" || id.Name == "make") {
			return true
		}
	case *ast.ArrayType, *ast.MapType, *ast.StarExpr, *ast.CaseClause:
		return true
	}
	return false
}

func (a *c20Fn) index(x *ast.IndexExpr) {
	t := a.typeOf(x.X)
	if t != nil && t.isMap {
		return
	}
	// generic instantiation / map literal heuristics: skip when X is a call result of make(map…)
	s := a.src(x.X)
	if t == nil {
		// unknown operand type: a map declared with `make(map[...]…)` or a map literal in this function
		if id, ok := x.X.(*ast.Ident); ok {
			if a.localIsMap(id.Name) {
				return
			}
		}
	}
	// comma-ok map read: `_, ok := m[k]`
	if as, ok := a.parents[x].(*ast.AssignStmt); ok && len(as.Lhs) == 2 && len(as.Rhs) == 1 && as.Rhs[0] == x {
		return
	}
	// assignment target of an array sized with len of the ranged slice is still an index: keep
	var g bool
	var gs string
	if k, ok := intLit(x.Index); ok {
		g, gs = a.dominated(x, func(e ast.Expr) bool {
			op, c, ok := a.lenCmp(e, s)
			return ok && ((op == token.LSS && c > k) || (op == token.LEQ && c >= k) || (op == token.NEQ && c > k) || (op == token.EQL && c == 0 && false))
		}, func(e ast.Expr) bool {
			op, c, ok := a.lenCmp(e, s)
			return ok && ((op == token.EQL && c > k) || (op == token.GTR && c >= k) || (op == token.GEQ && c > k))
		})
		if !g && t != nil && t.isArray {
			g, gs = true, "constant index into a fixed-size array (checked by the compiler)"
		}
	} else if id, ok := x.Index.(*ast.Ident); ok {
		g, gs = a.dominated(x, func(e ast.Expr) bool { return false }, func(e ast.Expr) bool {
			// `for i := range S`
			if ce, ok := e.(*ast.CallExpr); ok {
				if f, ok := ce.Fun.(*ast.Ident); ok && f.Name == "__range" && len(ce.Args) == 2 && ce.Args[0] != nil {
					return a.src(ce.Args[0]) == id.Name && a.src(ce.Args[1]) == s
				}
			}
			// `i < len(S)`
			es := a.src(e)
			return es == id.Name+" < len("+s+")"
		})
	}
	a.add(x, "index", a.src(x), g, gs)
}

func (a *c20Fn) localIsMap(name string) bool {
	is := false
	ast.Inspect(a.f.fd.Body, func(n ast.Node) bool {
		if as, ok := n.(*ast.AssignStmt); ok {
			for i, l := range as.Lhs {
				if id, ok := l.(*ast.Ident); ok && id.Name == name && i < len(as.Rhs) {
					if t := a.v.litType(a.f.rel, a.f.file, as.Rhs[i]); t != nil && t.isMap {
						is = true
					}
				}
			}
		}
		return true
	})
	return is
}

func (a *c20Fn) call(x *ast.CallExpr, imps map[string]string) {
	switch f := x.Fun.(type) {
	case *ast.Ident:
		if f.Name == "panic" {
			a.add(x, "panic", a.src(x), false, "")
			return
		}
		a.calls[a.f.rel+"|"+f.Name] = true
		if strings.HasPrefix(f.Name, "Must") || strings.HasPrefix(f.Name, "must") {
			a.must(x, f.Name)
		}
	case *ast.SelectorExpr:
		name := f.Sel.Name
		if id, ok := f.X.(*ast.Ident); ok {
			if ip, ok := imps[id.Name]; ok && a.env[id.Name] == nil {
				// package-qualified call
				if strings.HasPrefix(ip, modPath) {
					a.calls[strings.TrimPrefix(ip, modPath)+"|"+name] = true
				}
				if strings.HasPrefix(name, "Must") {
					a.must(x, name)
				}
				return
			}
		}
		// method call
		t := a.typeOf(f.X)
		if strings.HasPrefix(name, "Must") {
			a.must(x, name)
		}
		if strings.HasPrefix(name, "Quo") || name == "Mod" || name == "ModRaw" {
			a.add(x, "div", a.src(x), false, "")
		}
		cls := t.class()
		if cls != "" && !c20SafeMethods[name] || cls == "nilcoins" && (name == "IsValid") {
			r := a.src(f.X)
			bad := func(e ast.Expr) bool {
				es := a.src(e)
				if es == r+".IsNil()" || es == r+" == nil" || es == r+".IsAnyNil()" || es == "!"+r+".IsValid()" {
					return true
				}
				// C.Amount guarded by !C.IsValid()
				if strings.HasSuffix(r, ".Amount") && es == "!"+strings.TrimSuffix(r, ".Amount")+".IsValid()" {
					return true
				}
				return false
			}
			good := func(e ast.Expr) bool {
				es := a.src(e)
				if es == r+" != nil" || es == "!"+r+".IsNil()" || es == r+".IsValid()" || es == "!"+r+".IsAnyNil()" {
					return true
				}
				return strings.HasSuffix(r, ".Amount") && es == strings.TrimSuffix(r, ".Amount")+".IsValid()"
			}
			if cls == "nilcoins" {
				// Coins.Validate / IsValid / … dereference every amount: only an IsAnyNil test helps
				bad = func(e ast.Expr) bool { return a.src(e) == r+".IsAnyNil()" }
				good = func(e ast.Expr) bool { return a.src(e) == "!"+r+".IsAnyNil()" }
			}
			g, gs := a.dominated(x, bad, good)
			a.add(x, cls, a.src(x), g, gs)
		}
		// call-graph edge: method of a same-module type, or unknown receiver type (matched by name)
		switch {
		case t != nil && strings.HasPrefix(t.pkg, modPath) && t.elem == nil:
			a.calls[strings.TrimPrefix(t.pkg, modPath)+"|"+t.name+"."+name] = true
		case t == nil:
			a.calls[a.f.rel+"|."+name] = true
		}
	}
}

// must: a call to a Must* function; guarded when the non-Must twin was called earlier in the function with the same
// first argument (its error then having been checked)
func (a *c20Fn) must(x *ast.CallExpr, name string) {
	twin := strings.TrimPrefix(strings.TrimPrefix(name, "Must"), "must")
	arg := ""
	if len(x.Args) > 0 {
		arg = a.src(x.Args[0])
	}
	g, gs := false, ""
	ast.Inspect(a.f.fd.Body, func(n ast.Node) bool {
		ce, ok := n.(*ast.CallExpr)
		if !ok || ce.Pos() >= x.Pos() || g {
			return true
		}
		fn := ""
		switch f := ce.Fun.(type) {
		case *ast.Ident:
			fn = f.Name
		case *ast.SelectorExpr:
			fn = f.Sel.Name
		}
		if fn == twin && len(ce.Args) > 0 && a.src(ce.Args[0]) == arg {
			g, gs = true, a.src(ce)
		}
		return true
	})
	a.add(x, "must", a.src(x), g, gs)
}

// ---- driver ------------------------------------------------------------------------------------------------

// c20IsRoot: 2 = root followed through the call graph, 1 = shallow root (own body only: the precompile dispatchers, whose
// callees are the stateful method bodies — not argument decoding), 0 = not a root
func c20IsRoot(f *c20Func) int {
	if strings.HasSuffix(f.rel, "/precompile") {
		switch f.fd.Name.Name {
		case "UnpackInput":
			return 2
		case "Run", "RequiredGas":
			if recvName(f.fd) == "Contract" {
				return 1
			}
		}
		return 0
	}
	if c20IsRootDeep(f) {
		return 2
	}
	return 0
}

func c20IsRootDeep(f *c20Func) bool {
	n := f.fd.Name.Name
	if f.rel == "ante" {
		return true
	}
	if f.fd.Recv != nil {
		return n == "ValidateBasic" || n == "Validate" || n == "validateBasic"
	}
	for _, p := range []string{"Parse", "Validate", "validate", "StrToByte32", "IsValid", "IsZeroEthAddress"} {
		if strings.HasPrefix(n, p) {
			return true
		}
	}
	return false
}

func extractC20Sites(c *ctxT) {
	v := &c20Inv{c: c, structs: map[string]map[string]*c20Struct{}, named: map[string]map[string]ast.Expr{}, namedF: map[string]map[string]*ast.File{},
		funcs: map[string][]*c20Func{}, pkgVars: map[string]map[string]*c20Ty{}}
	for _, rel := range c20Pkgs {
		if dirExists(c.repo + "/" + rel) {
			v.load(rel)
		}
	}
	// analyse every function once
	an := map[*c20Func]*c20Fn{}
	byKey := map[string][]*c20Func{}
	for _, rel := range c20Pkgs {
		for _, f := range v.funcs[rel] {
			a := &c20Fn{v: v, f: f, env: map[string]*c20Ty{}, parents: map[ast.Node]ast.Node{}, calls: map[string]bool{}}
			a.analyse()
			an[f] = a
			byKey[rel+"|"+f.name] = append(byKey[rel+"|"+f.name], f)
			if f.fd.Recv != nil {
				byKey[rel+"|."+f.fd.Name.Name] = append(byKey[rel+"|."+f.fd.Name.Name], f)
			}
		}
	}
	// reachability
	reach := map[*c20Func]bool{}
	var roots []string
	var todo []*c20Func
	for _, rel := range c20Pkgs {
		for _, f := range v.funcs[rel] {
			switch c20IsRoot(f) {
			case 2:
				reach[f] = true
				todo = append(todo, f)
				roots = append(roots, rel+":"+f.name)
			case 1:
				reach[f] = true
				roots = append(roots, rel+":"+f.name+" (shallow)")
			}
		}
	}
	for len(todo) > 0 {
		f := todo[len(todo)-1]
		todo = todo[:len(todo)-1]
		for k := range an[f].calls {
			for _, g := range byKey[k] {
				if !reach[g] {
					reach[g] = true
					todo = append(todo, g)
				}
			}
		}
	}
	var sites []c20Site
	nfun := 0
	for _, rel := range c20Pkgs {
		for _, f := range v.funcs[rel] {
			if reach[f] {
				nfun++
				sites = append(sites, an[f].sites...)
			}
		}
	}
	sort.SliceStable(sites, func(i, j int) bool {
		if sites[i].Pkg != sites[j].Pkg {
			return sites[i].Pkg < sites[j].Pkg
		}
		if sites[i].Fn != sites[j].Fn {
			return sites[i].Fn < sites[j].Fn
		}
		return sites[i].Line < sites[j].Line
	})
	var sb strings.Builder
	sb.WriteString("import FxVerif.Model.C20Base\nnamespace FxVerif.Gen.C20Sites\nopen FxVerif.Model.C20Base\n\n")
	fmt.Fprintf(&sb, "/-- number of fx-core functions reachable from the validation / ante / argument-decoding roots -/\ndef reachableFunctions : Nat := %d\n\n", nfun)
	sb.WriteString("/-- every potentially panicking construct in those functions -/\ndef sites : List Site := [\n")
	for i, s := range sites {
		sep := ","
		if i == len(sites)-1 {
			sep = ""
		}
		recv, meth := "", s.Fn
		if i := strings.IndexByte(s.Fn, '.'); i >= 0 {
			recv, meth = s.Fn[:i], s.Fn[i+1:]
		}
		fmt.Fprintf(&sb, "  { pkg := %s, recv := %s, meth := %s, line := %d, kind := %s, expr := %s, guarded := %v, guard := %s }%s\n",
			leanStr(s.Pkg), leanStr(recv), leanStr(meth), s.Line, leanStr(s.Kind), leanStr(s.Expr), s.Guarded, leanStr(s.Guard), sep)
	}
	sb.WriteString("]\n\n/-- the sites without a recognised dominating guard -/\ndef unguarded : List Site := sites.filter (fun s => !s.guarded)\n")
	sb.WriteString("\nend FxVerif.Gen.C20Sites\n")
	c.write("C20Sites.lean", sb.String())
	var fs []map[string]any
	for _, s := range sites {
		fs = append(fs, map[string]any{"pkg": s.Pkg, "fn": s.Fn, "line": s.Line, "kind": s.Kind, "expr": s.Expr, "guarded": s.Guarded, "guard": s.Guard})
	}
	c.facts["C20.sites"] = fs
	sort.Strings(roots)
	c.facts["C20.roots"] = roots
}

func readDirNames(p string) ([]string, error) {
	ents, err := os.ReadDir(p)
	if err != nil {
		return nil, err
	}
	var out []string
	for _, e := range ents {
		out = append(out, e.Name())
	}
	return out, nil
}
