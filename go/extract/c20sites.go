package main

func extractC20Sites(c *ctxT) {}
