package main

import (
	"fmt"
	"go/ast"
	"sort"
	"strings"
)

// C07 (third file): the APP-LEVEL block pipeline, regenerated from app/modules.go + app/app.go + x/<module>/module.go:
//   * which AppModules `appModules()` registers, and which of them are fx-core packages (x/…);
//   * for every fx-core AppModule: the PreBlock / BeginBlock / EndBlock methods the package DECLARES (receiver AppModule): the
//     callees of the body in source order, the returned expression, the declared type of the `keeper` field; and the dependency
//     AppModule it embeds (whose blockers are promoted unless overridden);
//   * the module manager's pre / begin / end order lists;
//   * the error-return / panic sites of the x/evm keeper BeginBlock.
// → appended to Gen/C07.lean; Model/C07 must classify every row (`app_blockers_covered`), and the eight crosschain modules must all
// run the one keeper end-blocker the model has (`crosschain_end_blockers_uniform`).

type c07Blocker struct {
	Phase, Module      string
	Declared           bool
	Embeds             string
	Calls              []string
	Ret, Keeper, Where string
}

func c07ShortName(path string) string {
	p := strings.TrimSuffix(path, "/types")
	return p[strings.LastIndex(p, "/")+1:]
}

// c07ReturnedList: the elements of `return []T{ … }` of a function
func c07ReturnedList(fd *ast.FuncDecl) []ast.Expr {
	if fd == nil || fd.Body == nil {
		return nil
	}
	for _, st := range fd.Body.List {
		if r, ok := st.(*ast.ReturnStmt); ok && len(r.Results) == 1 {
			if cl, ok := r.Results[0].(*ast.CompositeLit); ok {
				return cl.Elts
			}
		}
	}
	return nil
}

func c07AppFacts(c *ctxT, sb *strings.Builder) {
	app := c.pkg("app")
	var modFile *ast.File
	var fnModules, fnBegin, fnEnd *ast.FuncDecl
	for _, fn := range sortedKeys(app) {
		for _, d := range app[fn].Decls {
			fd, ok := d.(*ast.FuncDecl)
			if !ok || fd.Recv != nil {
				continue
			}
			switch fd.Name.Name {
			case "appModules":
				fnModules, modFile = fd, app[fn]
			case "orderBeginBlockers":
				fnBegin = fd
			case "orderEndBlockers":
				fnEnd = fd
			}
		}
	}
	imps := map[string]string{}
	if modFile != nil {
		imps = imports(modFile)
	}
	// registered AppModules
	type regT struct{ alias, path, dir string }
	var regs []regT
	for _, e := range c07ReturnedList(fnModules) {
		ce, ok := e.(*ast.CallExpr)
		if !ok {
			continue
		}
		se, ok := ce.Fun.(*ast.SelectorExpr)
		if !ok || se.Sel.Name != "NewAppModule" {
			continue
		}
		alias := squash(c.src(se.X))
		path := imps[alias]
		dir := ""
		if strings.HasPrefix(path, modPath+"x/") {
			dir = strings.TrimPrefix(path, modPath)
		}
		regs = append(regs, regT{alias, path, dir})
	}
	// order lists
	orderOf := func(elts []ast.Expr, im map[string]string) []string {
		var res []string
		for _, e := range elts {
			se, ok := e.(*ast.SelectorExpr)
			if !ok {
				res = append(res, "?"+squash(c.src(e)))
				continue
			}
			res = append(res, c07ShortName(im[squash(c.src(se.X))]))
		}
		return res
	}
	begin, end := orderOf(c07ReturnedList(fnBegin), imps), orderOf(c07ReturnedList(fnEnd), imps)
	var pre []string
	for _, fn := range sortedKeys(app) {
		im := imports(app[fn])
		ast.Inspect(app[fn], func(n ast.Node) bool {
			ce, ok := n.(*ast.CallExpr)
			if !ok {
				return true
			}
			if se, ok := ce.Fun.(*ast.SelectorExpr); ok && se.Sel.Name == "SetOrderPreBlockers" {
				pre = append(pre, orderOf(ce.Args, im)...)
			}
			return true
		})
	}
	// the fx-core AppModules
	var rows []c07Blocker
	var fxMods []string
	phases := map[string]string{"PreBlock": "pre", "BeginBlock": "begin", "EndBlock": "end"}
	for _, r := range regs {
		if r.dir == "" {
			continue
		}
		name := r.dir[strings.LastIndex(r.dir, "/")+1:]
		fxMods = append(fxMods, name)
		p := c.pkg(r.dir)
		keeperT, embeds := "", ""
		for _, fn := range sortedKeys(p) {
			im := imports(p[fn])
			for _, d := range p[fn].Decls {
				gd, ok := d.(*ast.GenDecl)
				if !ok {
					continue
				}
				for _, sp := range gd.Specs {
					ts, ok := sp.(*ast.TypeSpec)
					if !ok || ts.Name.Name != "AppModule" {
						continue
					}
					st, ok := ts.Type.(*ast.StructType)
					if !ok {
						continue
					}
					for _, f := range st.Fields.List {
						if len(f.Names) == 0 {
							if se, ok := f.Type.(*ast.SelectorExpr); ok && se.Sel.Name == "AppModule" {
								embeds = im[squash(c.src(se.X))]
							}
							continue
						}
						for _, n := range f.Names {
							if n.Name == "keeper" {
								keeperT = squash(c.src(f.Type))
							}
						}
					}
				}
			}
		}
		declared := map[string]bool{}
		for _, fd := range c.funcDecls(r.dir) {
			ph, ok := phases[fd.Name.Name]
			if !ok || recvName(fd) != "AppModule" || fd.Body == nil {
				continue
			}
			declared[ph] = true
			var calls []string
			ast.Inspect(fd.Body, func(n ast.Node) bool {
				if ce, ok := n.(*ast.CallExpr); ok {
					calls = append(calls, squash(c.src(ce.Fun)))
				}
				return true
			})
			ret := ""
			if len(fd.Body.List) > 0 {
				if rs, ok := fd.Body.List[len(fd.Body.List)-1].(*ast.ReturnStmt); ok && len(rs.Results) > 0 {
					ret = squash(c.src(rs.Results[len(rs.Results)-1]))
				}
			}
			rows = append(rows, c07Blocker{ph, name, true, embeds, calls, ret, keeperT, c.pos(fd)})
		}
		if embeds != "" {
			// whatever blockers the embedded dependency AppModule has and this package does not override are promoted
			for _, ph := range []string{"pre", "begin", "end"} {
				if !declared[ph] {
					rows = append(rows, c07Blocker{ph, name, false, embeds, nil, "", keeperT, r.dir + "/module.go"})
				}
			}
		}
	}
	sort.SliceStable(rows, func(i, j int) bool {
		if rows[i].Module != rows[j].Module {
			return rows[i].Module < rows[j].Module
		}
		return rows[i].Phase < rows[j].Phase
	})
	sort.Strings(fxMods)
	// x/evm keeper BeginBlock: error-return sites
	var evmSites []string
	if fd := c.findFunc("x/evm/keeper", "Keeper", "BeginBlock"); fd != nil && fd.Body != nil {
		ast.Inspect(fd.Body, func(n ast.Node) bool {
			is, ok := n.(*ast.IfStmt)
			if !ok {
				return true
			}
			if as, ok := is.Init.(*ast.AssignStmt); ok && len(as.Rhs) == 1 && blockReturnsErr(is.Body) {
				if ce, ok := as.Rhs[0].(*ast.CallExpr); ok {
					evmSites = append(evmSites, squash(c.src(ce.Fun)))
				}
			}
			if blockPanics(is.Body) {
				evmSites = append(evmSites, "panic")
			}
			return true
		})
		ast.Inspect(fd.Body, func(n ast.Node) bool {
			if ce, ok := n.(*ast.CallExpr); ok {
				if se, ok := ce.Fun.(*ast.SelectorExpr); ok && strings.HasPrefix(se.Sel.Name, "Must") {
					evmSites = append(evmSites, squash(c.src(ce.Fun)))
				}
			}
			return true
		})
	}

	sb.WriteString("/-! ## app level: the module manager's block pipeline (app/modules.go, app/app.go, x/<module>/module.go) -/\n\n")
	sb.WriteString("/-- a PreBlock / BeginBlock / EndBlock of an fx-core AppModule registered with the module manager -/\nstructure AppBlocker where\n  phase : String          -- \"pre\" | \"begin\" | \"end\"\n  module : String         -- directory under x/ of the fx-core package\n  declared : Bool         -- the package declares the method itself (false: promoted from the embedded dependency AppModule, if that has one)\n  embeds : String         -- import path of the embedded dependency AppModule (\"\" = none)\n  calls : List String     -- callees of the method body, in source order\n  ret : String            -- the returned expression\n  keeper : String         -- declared type of the AppModule's `keeper` field\n  deriving DecidableEq, Repr\n\n")
	sb.WriteString("def fxAppBlockers : List AppBlocker := [\n")
	var fs []map[string]any
	for i, r := range rows {
		var cs []string
		for _, x := range r.Calls {
			cs = append(cs, leanStr(x))
		}
		sep := ","
		if i == len(rows)-1 {
			sep = ""
		}
		fmt.Fprintf(sb, "  ⟨%s, %s, %s, %s, %s, %s, %s⟩%s  -- %s\n", leanStr(r.Phase), leanStr(r.Module), lb(r.Declared), leanStr(r.Embeds), leanList(cs), leanStr(r.Ret), leanStr(r.Keeper), sep, r.Where)
		fs = append(fs, map[string]any{"phase": r.Phase, "module": r.Module, "declared": r.Declared, "embeds": r.Embeds, "ret": r.Ret, "keeper": r.Keeper})
	}
	sb.WriteString("]\n\n")
	q := func(xs []string) string {
		var r []string
		for _, x := range xs {
			r = append(r, leanStr(x))
		}
		return leanList(r)
	}
	fmt.Fprintf(sb, "/-- the fx-core packages (x/…) whose AppModule `appModules()` registers -/\ndef fxAppModules : List String := %s\n\n", q(fxMods))
	var allRegs []string
	for _, r := range regs {
		allRegs = append(allRegs, r.path)
	}
	fmt.Fprintf(sb, "/-- every `X.NewAppModule(…)` of `appModules()`: import path of X, in order -/\ndef appModuleCtors : List String := %s\n\n", q(allRegs))
	fmt.Fprintf(sb, "/-- `SetOrderPreBlockers` / `orderBeginBlockers()` / `orderEndBlockers()`: module names (last path element of the package that owns `ModuleName`) -/\ndef orderPreBlockers : List String := %s\ndef orderBeginBlockers : List String := %s\ndef orderEndBlockers : List String := %s\n\n", q(pre), q(begin), q(end))
	fmt.Fprintf(sb, "/-- error-return / panic / Must* sites of x/evm `Keeper.BeginBlock` -/\ndef evmBeginBlockSites : List String := %s\n\n", q(evmSites))
	c.facts["C07.app"] = map[string]any{"blockers": fs, "fxModules": fxMods, "pre": pre, "begin": begin, "end": end, "evmBeginBlockSites": evmSites}
}
