module fxverif/extract

go 1.23
