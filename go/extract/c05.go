package main

import (
	"fmt"
	"go/ast"
	"go/token"
	"os"
	"path/filepath"
	"regexp"
	"sort"
	"strings"
)

// C05 / C06: facts of the outgoing pool / batch / bridge-call lifecycle read from the Go AST and the Solidity text.
//
//   - constants: OutgoingTxBatchSize, the store prefixes of the records involved;
//   - pool key layout (component order of GetOutgoingTxPoolKey, fee width) and the direction of the pool / batch /
//     bridge-call iterators;
//   - cleanupTimedOutBatches / cleanupTimeOutBridgeCall: comparison operator (normalised to `timeout <op> height`),
//     where the height comes from, whether the callback stops early; every caller of the two functions and the order
//     of the calls inside TryAttestation;
//   - CalExternalTimeoutHeight zero guard, BuildOutgoingTxBatch / BuildOutgoingBridgeCall zero-timeout rejection;
//   - handleRemoveFromOutgoingPoolAndRefund: sender check, terms of the refunded amount;
//   - pickUnBatchedTx: base-fee comparison, stop, removal from the pool; OutgoingTxBatchExecuted: which batches
//     are cancelled;
//   - FxBridgeLogic.sol: the `require(block.number < timeout)` rules of submitBatch / submitBridgeCall and the
//     batch-nonce rule.
func init() { register(extractC05) }

// the per-record settlement statements whose ORDER matters: the refund reads the from-message mark that the record
// deletion removes
var c05SettleStmts = []string{"HandleOutgoingBridgeCallRefund", "DeleteOutgoingBridgeCallRecord", "DeleteOutgoingBridgeCall", "DeleteBridgeCallFromMsg"}

const c05Keeper = "x/crosschain/keeper"

func cmpName(op token.Token) string {
	switch op {
	case token.LSS:
		return "lt"
	case token.LEQ:
		return "le"
	case token.GTR:
		return "gt"
	case token.GEQ:
		return "ge"
	case token.EQL:
		return "eq"
	case token.NEQ:
		return "ne"
	}
	return "unknown"
}

func flipCmp(s string) string {
	switch s {
	case "lt":
		return "gt"
	case "le":
		return "ge"
	case "gt":
		return "lt"
	case "ge":
		return "le"
	}
	return s
}

func cmpFromText(op string) string {
	switch op {
	case "<":
		return "lt"
	case "<=":
		return "le"
	case ">":
		return "gt"
	case ">=":
		return "ge"
	case "==":
		return "eq"
	case "!=":
		return "ne"
	}
	return "unknown"
}

// resolveIdent returns the source of the right-hand side of `name := expr` inside fd ("" if none).
func resolveIdent(c *ctxT, fd *ast.FuncDecl, name string) string {
	res := ""
	ast.Inspect(fd.Body, func(n ast.Node) bool {
		as, ok := n.(*ast.AssignStmt)
		if !ok || as.Tok != token.DEFINE || len(as.Lhs) != 1 || len(as.Rhs) != 1 {
			return true
		}
		if id, ok := as.Lhs[0].(*ast.Ident); ok && id.Name == name && res == "" {
			res = c.src(as.Rhs[0])
		}
		return true
	})
	return res
}

// resolveLhs returns the source of the right-hand side of the first `..., name, ... := expr` (any arity) inside fd.
func resolveLhs(c *ctxT, fd *ast.FuncDecl, name string) string {
	res := ""
	ast.Inspect(fd.Body, func(n ast.Node) bool {
		as, ok := n.(*ast.AssignStmt)
		if !ok || as.Tok != token.DEFINE || len(as.Rhs) != 1 || res != "" {
			return true
		}
		for _, l := range as.Lhs {
			if id, ok := l.(*ast.Ident); ok && id.Name == name {
				res = c.src(as.Rhs[0])
			}
		}
		return true
	})
	return res
}

func heightSrc(src string) string {
	s := strings.ReplaceAll(src, " ", "")
	return heightSrcOf(s)
}

// heightSrcVia classifies the source of a height expression; an expression that is a call of a keeper helper
// `k.F(ctx)` is classified by what the body of F reads (one level).
func heightSrcVia(c *ctxT, src string) string {
	s := strings.ReplaceAll(src, " ", "")
	if r := heightSrcOf(s); r != "unknown" {
		return r
	}
	if m := regexp.MustCompile(`^k\.([A-Za-z0-9_]+)\(ctx\)(\.[A-Za-z0-9_]+)?$`).FindStringSubmatch(s); m != nil {
		if fd := c.findFunc(c05Keeper, "Keeper", m[1]); fd != nil && fd.Body != nil {
			body := strings.ReplaceAll(c.src(fd.Body), " ", "")
			switch {
			case strings.Contains(body, "AverageBlockTime") || strings.Contains(body, "ctx.BlockTime()"):
				return "projected"
			case strings.Contains(body, "ctx.BlockHeight()") || strings.Contains(body, "ctx.BlockHeader()"):
				return "fxHeight"
			case strings.Contains(body, "GetLastObservedBlockHeight(ctx).BlockHeight") && !strings.Contains(body, "ExternalBlockHeight"):
				return "observedFx"
			case strings.Contains(body, "GetLastObservedBlockHeight(ctx).ExternalBlockHeight") && m[2] == "":
				return "observedExternal"
			}
		}
	}
	return "unknown"
}

func heightSrcOf(s string) string {
	switch {
	case s == "k.GetLastObservedBlockHeight(ctx).ExternalBlockHeight":
		return "observedExternal"
	case strings.Contains(s, "ctx.BlockHeight()") || strings.Contains(s, "ctx.BlockHeader()"):
		return "fxHeight"
	case strings.Contains(s, "GetLastObservedBlockHeight(ctx).BlockHeight"):
		return "observedFx"
	case strings.Contains(s, "CalExternalTimeoutHeight") || strings.Contains(s, "AverageBlockTime") || strings.Contains(s, "ctx.BlockTime()"):
		return "projected"
	}
	return "unknown"
}

// firstFuncLit returns the first function literal passed as an argument anywhere in fd.
func firstFuncLit(fd *ast.FuncDecl) *ast.FuncLit {
	var fl *ast.FuncLit
	ast.Inspect(fd.Body, func(n ast.Node) bool {
		if fl != nil {
			return false
		}
		if f, ok := n.(*ast.FuncLit); ok {
			fl = f
			return false
		}
		return true
	})
	return fl
}

// timeoutCmp finds the first `if A op B` in body where exactly one operand mentions field; returns the operator
// normalised so that the field operand is on the left, the source of the other operand, and the if statement.
func timeoutCmp(c *ctxT, body ast.Node, field string) (string, string, *ast.IfStmt) {
	var cmp, other string
	var ifs *ast.IfStmt
	ast.Inspect(body, func(n ast.Node) bool {
		if ifs != nil {
			return false
		}
		is, ok := n.(*ast.IfStmt)
		if !ok {
			return true
		}
		be, ok := is.Cond.(*ast.BinaryExpr)
		if !ok {
			return true
		}
		l, r := c.src(be.X), c.src(be.Y)
		lh, rh := strings.Contains(l, field), strings.Contains(r, field)
		if lh == rh {
			return true
		}
		ifs = is
		if lh {
			cmp, other = cmpName(be.Op), r
		} else {
			cmp, other = flipCmp(cmpName(be.Op)), l
		}
		return false
	})
	return cmp, other, ifs
}

// returnsBool reports whether the block's last statement is `return <lit>`; found=false if it is something else.
func lastReturnBool(b *ast.BlockStmt) (val bool, found bool) {
	if b == nil || len(b.List) == 0 {
		return false, false
	}
	r, ok := b.List[len(b.List)-1].(*ast.ReturnStmt)
	if !ok || len(r.Results) != 1 {
		return false, false
	}
	id, ok := r.Results[0].(*ast.Ident)
	if !ok {
		return false, false
	}
	switch id.Name {
	case "true":
		return true, true
	case "false":
		return false, true
	}
	return false, false
}

func callsNamed(c *ctxT, n ast.Node, name string) bool {
	hit := false
	ast.Inspect(n, func(x ast.Node) bool {
		if ce, ok := x.(*ast.CallExpr); ok {
			if se, ok := ce.Fun.(*ast.SelectorExpr); ok && se.Sel.Name == name {
				hit = true
			}
			if id, ok := ce.Fun.(*ast.Ident); ok && id.Name == name {
				hit = true
			}
		}
		return !hit
	})
	return hit
}

// callsInOrder lists, in source order, the calls inside n whose function name is one of names.
func callsInOrder(n ast.Node, names ...string) []string {
	var out []string
	if n == nil {
		return out
	}
	ast.Inspect(n, func(x ast.Node) bool {
		if ce, ok := x.(*ast.CallExpr); ok {
			nm := ""
			if se, ok := ce.Fun.(*ast.SelectorExpr); ok {
				nm = se.Sel.Name
			}
			if id, ok := ce.Fun.(*ast.Ident); ok {
				nm = id.Name
			}
			for _, w := range names {
				if nm == w {
					out = append(out, nm)
				}
			}
		}
		return true
	})
	return out
}

func iterKind(c *ctxT, fd *ast.FuncDecl) string {
	if fd == nil {
		return "unknown"
	}
	switch {
	case callsNamed(c, fd.Body, "KVStoreReversePrefixIterator") || callsNamed(c, fd.Body, "ReverseIterator"):
		return "reverse"
	case callsNamed(c, fd.Body, "KVStorePrefixIterator") || callsNamed(c, fd.Body, "Iterator"):
		return "forward"
	}
	return "unknown"
}

func flattenAppend(c *ctxT, e ast.Expr, out *[]string) {
	if ce, ok := e.(*ast.CallExpr); ok {
		if id, ok := ce.Fun.(*ast.Ident); ok && id.Name == "append" {
			for _, a := range ce.Args {
				flattenAppend(c, a, out)
			}
			return
		}
	}
	*out = append(*out, strings.ReplaceAll(c.src(e), " ", ""))
}

func leanBool(b bool) string {
	if b {
		return "true"
	}
	return "false"
}

func extractC05(c *ctxT) {
	var sb strings.Builder
	facts := map[string]any{}
	sb.WriteString("namespace FxVerif.Gen.C05\n\n")
	sb.WriteString("/-- comparison operator as written in the source, normalised to `lhs <op> rhs` -/\ninductive Cmp where | lt | le | gt | ge | eq | ne | unknown\n  deriving DecidableEq, Repr\n\n")
	sb.WriteString("def Cmp.eval : Cmp → Nat → Nat → Bool\n  | .lt, a, b => decide (a < b)\n  | .le, a, b => decide (a ≤ b)\n  | .gt, a, b => decide (b < a)\n  | .ge, a, b => decide (b ≤ a)\n  | .eq, a, b => decide (a = b)\n  | .ne, a, b => decide (a ≠ b)\n  | .unknown, _, _ => false\n\n")
	sb.WriteString("/-- where a height used in a comparison comes from -/\ninductive HeightSrc where | observedExternal | observedFx | fxHeight | projected | unknown\n  deriving DecidableEq, Repr\n\n")
	sb.WriteString("inductive IterDir where | forward | reverse | unknown\n  deriving DecidableEq, Repr\n\n")
	def := func(name, typ, val, comment string) {
		fmt.Fprintf(&sb, "/-- %s -/\ndef %s : %s := %s\n\n", comment, name, typ, val)
		facts["C05."+name] = val
	}

	// ---- constants -----------------------------------------------------------------------------------------
	batchSize := ""
	prefixes := map[string]string{}
	for _, fn := range sortedKeys(c.pkg("x/crosschain/types")) {
		f := c.pkg("x/crosschain/types")[fn]
		if strings.HasSuffix(fn, ".pb.go") {
			continue
		}
		for _, d := range f.Decls {
			gd, ok := d.(*ast.GenDecl)
			if !ok || (gd.Tok != token.CONST && gd.Tok != token.VAR) {
				continue
			}
			for _, sp := range gd.Specs {
				vs := sp.(*ast.ValueSpec)
				for i, n := range vs.Names {
					if i >= len(vs.Values) {
						continue
					}
					v := c.src(vs.Values[i])
					if n.Name == "OutgoingTxBatchSize" {
						batchSize = v
					}
					if m := regexp.MustCompile(`^\[\]byte\{0x([0-9a-fA-F]+)\}$`).FindStringSubmatch(v); m != nil {
						prefixes[n.Name] = m[1]
					}
				}
			}
		}
	}
	if !regexp.MustCompile(`^[0-9]+$`).MatchString(batchSize) {
		batchSize = "0 -- not a literal: " + batchSize
	}
	def("outgoingTxBatchSize", "Nat", batchSize, "types.OutgoingTxBatchSize")
	for _, p := range []string{"OutgoingTxPoolKey", "OutgoingTxBatchKey", "OutgoingTxBatchBlockKey", "SequenceKeyPrefix", "OutgoingBridgeCallNonceKey", "OutgoingBridgeCallAddressAndNonceKey", "BridgeCallFromMsgKey", "LastObservedBlockHeightKey", "PendingExecuteClaimKey"} {
		v := "0"
		if h, ok := prefixes[p]; ok {
			v = "0x" + h
		}
		def("prefix"+p, "Nat", v, "store prefix types."+p)
	}

	// ---- pool key layout and iterators --------------------------------------------------------------------
	var layout []string
	feeWidth := "0"
	if fd := c.findFunc("x/crosschain/types", "", "GetOutgoingTxPoolKey"); fd != nil {
		ast.Inspect(fd.Body, func(n ast.Node) bool {
			if r, ok := n.(*ast.ReturnStmt); ok && len(r.Results) == 1 {
				flattenAppend(c, r.Results[0], &layout)
			}
			if ce, ok := n.(*ast.CallExpr); ok {
				if id, ok := ce.Fun.(*ast.Ident); ok && id.Name == "make" && len(ce.Args) == 2 {
					if bl, ok := ce.Args[1].(*ast.BasicLit); ok {
						feeWidth = bl.Value
					}
				}
			}
			return true
		})
	}
	var ll []string
	for _, l := range layout {
		ll = append(ll, leanStr(l))
	}
	def("poolKeyLayout", "List String", leanList(ll), "components of GetOutgoingTxPoolKey in key order")
	def("poolKeyFeeWidth", "Nat", feeWidth, "width in bytes of the big-endian fee component")
	def("poolIter", "IterDir", "."+iterKind(c, c.findFunc(c05Keeper, "Keeper", "IterateUnbatchedTransactions")), "direction of IterateUnbatchedTransactions")
	def("batchIter", "IterDir", "."+iterKind(c, c.findFunc(c05Keeper, "Keeper", "IterateOutgoingTxBatches")), "direction of IterateOutgoingTxBatches")
	def("callIter", "IterDir", "."+iterKind(c, c.findFunc(c05Keeper, "Keeper", "IterateOutgoingBridgeCalls")), "direction of IterateOutgoingBridgeCalls")

	// ---- cleanupTimedOutBatches --------------------------------------------------------------------------
	{
		cmp, src, cancels, cont := "unknown", "unknown", false, false
		if fd := c.findFunc(c05Keeper, "Keeper", "cleanupTimedOutBatches"); fd != nil {
			if fl := firstFuncLit(fd); fl != nil {
				op, other, ifs := timeoutCmp(c, fl.Body, "Timeout")
				if ifs != nil {
					cmp = op
					if id := strings.TrimSpace(other); regexp.MustCompile(`^[A-Za-z_][A-Za-z0-9_]*$`).MatchString(id) {
						if r := resolveIdent(c, fd, id); r != "" {
							other = r
						}
					}
					src = heightSrcVia(c, other)
					cancels = callsNamed(c, ifs.Body, "CancelOutgoingTxBatch")
				}
				if v, ok := lastReturnBool(fl.Body); ok && !v {
					cont = true
				}
			}
		}
		def("batchCleanupCmp", "Cmp", "."+cmp, "cleanupTimedOutBatches cancels a batch when `batch.BatchTimeout <op> height`")
		def("batchCleanupSrc", "HeightSrc", "."+src, "the height cleanupTimedOutBatches compares against")
		def("batchCleanupCancels", "Bool", leanBool(cancels), "the guarded statement is CancelOutgoingTxBatch")
		def("batchCleanupVisitsAll", "Bool", leanBool(cont), "the iteration callback always returns false (no early stop)")
	}
	// ---- cleanupTimeOutBridgeCall ------------------------------------------------------------------------
	{
		cmp, src, stops, refunds, deletes := "unknown", "unknown", false, false, false
		var cleanupBody []string
		if fd := c.findFunc(c05Keeper, "Keeper", "cleanupTimeOutBridgeCall"); fd != nil {
			if fl := firstFuncLit(fd); fl != nil {
				op, other, ifs := timeoutCmp(c, fl.Body, "Timeout")
				if ifs != nil {
					cmp = op
					if id := strings.TrimSpace(other); regexp.MustCompile(`^[A-Za-z_][A-Za-z0-9_]*$`).MatchString(id) {
						if r := resolveIdent(c, fd, id); r != "" {
							other = r
						}
					}
					src = heightSrcVia(c, other)
					if v, ok := lastReturnBool(ifs.Body); ok && v && len(ifs.Body.List) == 1 {
						stops = true
					}
				}
				// after the guard: refund, delete, return false
				if len(fl.Body.List) >= 2 {
					rest := &ast.BlockStmt{List: fl.Body.List[1:]}
					refunds = callsNamed(c, rest, "HandleOutgoingBridgeCallRefund")
					deletes = callsNamed(c, rest, "DeleteOutgoingBridgeCallRecord")
					cleanupBody = callsInOrder(rest, c05SettleStmts...)
				}
			}
		}
		def("callCleanupStopCmp", "Cmp", "."+cmp, "cleanupTimeOutBridgeCall stops at the first record with `data.Timeout <op> height`")
		def("callCleanupSrc", "HeightSrc", "."+src, "the height cleanupTimeOutBridgeCall compares against")
		def("callCleanupStops", "Bool", leanBool(stops), "the guard body is exactly `return true` (stop the iteration)")
		def("callCleanupRefunds", "Bool", leanBool(refunds), "records passing the guard are refunded")
		def("callCleanupDeletes", "Bool", leanBool(deletes), "records passing the guard are deleted")
		def("callCleanupBody", "List String", leanStrs(cleanupBody), "what cleanupTimeOutBridgeCall does to every record passing the guard: its refund / delete-record / delete-mark calls, in source order (the model runs them in this order)")
	}
	// ---- callers of the cleanup functions; order inside TryAttestation --------------------------------
	{
		callers := map[string]bool{}
		for _, fd := range c.funcDecls(c05Keeper) {
			if fd.Body == nil {
				continue
			}
			if callsNamed(c, fd.Body, "cleanupTimedOutBatches") || callsNamed(c, fd.Body, "cleanupTimeOutBridgeCall") {
				callers[fd.Name.Name] = true
			}
		}
		// other packages of the repo that might call them (they are unexported, so only the keeper package can)
		var cl []string
		for _, k := range sortedKeys(callers) {
			cl = append(cl, leanStr(k))
		}
		def("cleanupCallers", "List String", leanList(cl), "every function of x/crosschain/keeper that calls one of the two cleanup functions")
		var order []string
		if fd := c.findFunc(c05Keeper, "Keeper", "TryAttestation"); fd != nil {
			interesting := map[string]bool{"SetLastObservedEventNonce": true, "SetLastObservedBlockHeight": true, "processAttestation": true,
				"cleanupTimedOutBatches": true, "cleanupTimeOutBridgeCall": true}
			ast.Inspect(fd.Body, func(n ast.Node) bool {
				if ce, ok := n.(*ast.CallExpr); ok {
					if se, ok := ce.Fun.(*ast.SelectorExpr); ok && interesting[se.Sel.Name] {
						order = append(order, leanStr(se.Sel.Name))
						if se.Sel.Name == "SetLastObservedBlockHeight" && len(ce.Args) >= 2 {
							facts["C05.observedHeightArg"] = c.src(ce.Args[1])
							def("observedHeightArg", "String", leanStr(strings.ReplaceAll(c.src(ce.Args[1]), " ", "")), "what TryAttestation stores as the observed external height")
						}
					}
				}
				return true
			})
		}
		def("tryAttestationOrder", "List String", leanList(order), "order of the state-changing calls inside TryAttestation")
		// the clean-ups EndBlocker runs (directly, or through a keeper helper it calls: one level), in call order
		var eb []string
		if fd := c.findFunc(c05Keeper, "Keeper", "EndBlocker"); fd != nil && fd.Body != nil {
			var visit func(body ast.Node, depth int)
			visit = func(body ast.Node, depth int) {
				ast.Inspect(body, func(n ast.Node) bool {
					ce, ok := n.(*ast.CallExpr)
					if !ok {
						return true
					}
					se, ok := ce.Fun.(*ast.SelectorExpr)
					if !ok {
						return true
					}
					switch se.Sel.Name {
					case "cleanupTimedOutBatches", "cleanupTimeOutBridgeCall":
						eb = append(eb, leanStr(se.Sel.Name))
					default:
						if depth == 0 && c.src(se.X) == "k" {
							if h := c.findFunc(c05Keeper, "Keeper", se.Sel.Name); h != nil && h.Body != nil {
								visit(h.Body, 1)
							}
						}
					}
					return true
				})
			}
			visit(fd.Body, 0)
		}
		def("endBlockerCleanups", "List String", leanList(eb), "the clean-up functions EndBlocker runs (every block, no observation needed), in call order")
	}
	// ---- AddUnbatchedTxBridgeFee: which account pays the added fee -----------------------------------------
	{
		payer := "unknown"
		var payers []string
		if fd := c.findFunc(c05Keeper, "Keeper", "AddUnbatchedTxBridgeFee"); fd != nil && fd.Body != nil {
			ast.Inspect(fd.Body, func(n ast.Node) bool {
				ce, ok := n.(*ast.CallExpr)
				if !ok {
					return true
				}
				se, ok := ce.Fun.(*ast.SelectorExpr)
				if !ok || len(ce.Args) < 2 {
					return true
				}
				switch se.Sel.Name {
				case "SendCoinsFromAccountToModule", "SendCoins", "TransferBridgeCoinToExternal", "BaseCoinToBridgeToken", "BurnCoinsFromAccount":
				default:
					return true
				}
				a := strings.ReplaceAll(c.src(ce.Args[1]), " ", "")
				if r := resolveIdent(c, fd, a); r != "" {
					a = strings.ReplaceAll(r, " ", "")
				}
				cls := "unknown"
				switch {
				case a == "sender":
					cls = "msgSender"
				case strings.Contains(a, "tx.Sender"):
					cls = "txSender"
				}
				payers = append(payers, cls)
				return true
			})
		}
		if len(payers) > 0 {
			payer = payers[0]
			for _, p := range payers {
				if p != payer {
					payer = "unknown"
				}
			}
		}
		sb.WriteString("/-- the account debited by a fee increase -/\ninductive Payer where | msgSender | txSender | unknown\n  deriving DecidableEq, Repr\n\n")
		def("incFeePayer", "Payer", "."+payer, "AddUnbatchedTxBridgeFee takes the added fee from: the `sender` argument (the message signer) / the creator stored in the pool entry")
	}
	// ---- CalExternalTimeoutHeight / zero-timeout rejection ------------------------------------------------
	{
		cmp, ret0 := "unknown", false
		if fd := c.findFunc(c05Keeper, "Keeper", "CalExternalTimeoutHeight"); fd != nil {
			op, other, ifs := timeoutCmp(c, fd.Body, "ExternalBlockHeight")
			if ifs != nil && strings.TrimSpace(other) == "0" {
				cmp = op
				if len(ifs.Body.List) == 1 {
					if r, ok := ifs.Body.List[0].(*ast.ReturnStmt); ok && len(r.Results) == 1 && c.src(r.Results[0]) == "0" {
						ret0 = true
					}
				}
			}
		}
		def("calTimeoutGuardCmp", "Cmp", "."+cmp, "CalExternalTimeoutHeight: `heights.ExternalBlockHeight <op> 0` …")
		def("calTimeoutGuardReturnsZero", "Bool", leanBool(ret0), "… returns 0")
		zero := func(fn, v string) (string, bool) {
			fd := c.findFunc(c05Keeper, "Keeper", fn)
			if fd == nil {
				return "unknown", false
			}
			op, other, ifs := timeoutCmp(c, fd.Body, v)
			if ifs == nil || strings.TrimSpace(other) != "0" || len(ifs.Body.List) != 1 {
				return "unknown", false
			}
			r, ok := ifs.Body.List[0].(*ast.ReturnStmt)
			if !ok || len(r.Results) != 2 || c.src(r.Results[0]) != "nil" {
				return op, false
			}
			_, isCall := r.Results[1].(*ast.CallExpr)
			// the computed timeout must come from CalExternalTimeoutHeight
			return op, isCall && strings.Contains(resolveIdent(c, fd, v), "CalExternalTimeoutHeight")
		}
		op, ok := zero("BuildOutgoingTxBatch", "batchTimeout")
		def("batchZeroTimeoutCmp", "Cmp", "."+op, "BuildOutgoingTxBatch rejects when `batchTimeout <op> 0`")
		def("batchZeroTimeoutRejects", "Bool", leanBool(ok), "… by returning an error, the timeout being CalExternalTimeoutHeight(…)")
		op, ok = zero("BuildOutgoingBridgeCall", "bridgeCallTimeout")
		def("callZeroTimeoutCmp", "Cmp", "."+op, "BuildOutgoingBridgeCall rejects when `bridgeCallTimeout <op> 0`")
		def("callZeroTimeoutRejects", "Bool", leanBool(ok), "… by returning an error, the timeout being CalExternalTimeoutHeight(…)")
	}
	// ---- cancel: sender check and refunded amount --------------------------------------------------------
	{
		check := false
		var terms []string
		if fd := c.findFunc(c05Keeper, "Keeper", "handleRemoveFromOutgoingPoolAndRefund"); fd != nil {
			sender := "sender"
			for _, st := range fd.Body.List {
				ifs, ok := st.(*ast.IfStmt)
				if !ok || ifs.Init != nil {
					continue
				}
				ue, ok := ifs.Cond.(*ast.UnaryExpr)
				if !ok || ue.Op != token.NOT {
					continue
				}
				ce, ok := ue.X.(*ast.CallExpr)
				if !ok || len(ce.Args) != 1 {
					continue
				}
				se, ok := ce.Fun.(*ast.SelectorExpr)
				if !ok || se.Sel.Name != "Equals" {
					continue
				}
				a, b := c.src(se.X), c.src(ce.Args[0])
				lhsIsTxSender := strings.Contains(resolveIdent(c, fd, a), "tx.Sender")
				if lhsIsTxSender && b == sender && len(ifs.Body.List) == 1 {
					if r, ok := ifs.Body.List[0].(*ast.ReturnStmt); ok && len(r.Results) == 2 {
						if _, isCall := r.Results[1].(*ast.CallExpr); isCall {
							check = true
						}
					}
				}
				break
			}
			// the check must precede the removal from the pool
			if check {
				seenRemove := false
				for _, st := range fd.Body.List {
					if ifs, ok := st.(*ast.IfStmt); ok {
						if ue, ok := ifs.Cond.(*ast.UnaryExpr); ok && ue.Op == token.NOT && strings.Contains(c.src(ue.X), ".Equals(") {
							if seenRemove {
								check = false
							}
							break
						}
					}
					if callsNamed(c, st, "removeUnbatchedTx") {
						seenRemove = true
					}
				}
			}
			ast.Inspect(fd.Body, func(n ast.Node) bool {
				ce, ok := n.(*ast.CallExpr)
				if !ok {
					return true
				}
				se, ok := ce.Fun.(*ast.SelectorExpr)
				if !ok || se.Sel.Name != "handleCancelRefund" || len(ce.Args) != 5 {
					return true
				}
				var walk func(e ast.Expr)
				walk = func(e ast.Expr) {
					if call, ok := e.(*ast.CallExpr); ok {
						if s, ok := call.Fun.(*ast.SelectorExpr); ok && s.Sel.Name == "Add" && len(call.Args) == 1 {
							walk(s.X)
							walk(call.Args[0])
							return
						}
					}
					terms = append(terms, leanStr(strings.ReplaceAll(c.src(e), " ", "")))
				}
				walk(ce.Args[4])
				facts["C05.cancelRefundReceiver"] = c.src(ce.Args[2])
				def("cancelRefundReceiver", "String", leanStr(c.src(ce.Args[2])), "who handleCancelRefund pays")
				return false
			})
		}
		def("cancelSenderCheck", "Bool", leanBool(check), "handleRemoveFromOutgoingPoolAndRefund rejects, before touching the pool, a caller that is not tx.Sender")
		def("cancelRefundTerms", "List String", leanList(terms), "summands of the amount refunded on cancel")
	}
	// ---- pickUnBatchedTx ----------------------------------------------------------------------------------
	{
		cmp, stops, removes, maxStop := "unknown", false, false, false
		if fd := c.findFunc(c05Keeper, "Keeper", "pickUnBatchedTx"); fd != nil {
			if fl := firstFuncLit(fd); fl != nil {
				for _, st := range fl.Body.List {
					ifs, ok := st.(*ast.IfStmt)
					if !ok {
						continue
					}
					ce, ok := ifs.Cond.(*ast.CallExpr)
					if !ok || len(ce.Args) != 1 || c.src(ce.Args[0]) != "baseFee" {
						continue
					}
					se, ok := ce.Fun.(*ast.SelectorExpr)
					if !ok || c.src(se.X) != "tx.Fee.Amount" {
						continue
					}
					cmp = strings.ToLower(se.Sel.Name)
					if cmp == "lte" {
						cmp = "le"
					} else if cmp == "gte" {
						cmp = "ge"
					} else if cmp == "equal" {
						cmp = "eq"
					} else if cmp != "lt" && cmp != "gt" {
						cmp = "unknown"
					}
					if v, ok := lastReturnBool(ifs.Body); ok && v {
						stops = true
					}
					break
				}
				removes = callsNamed(c, fl.Body, "removeUnbatchedTx")
				if n := len(fl.Body.List); n > 0 {
					s := strings.ReplaceAll(c.src(fl.Body.List[n-1]), " ", "")
					maxStop = s == "returnerr!=nil||uint(len(selectedTx))==maxElements"
				}
			}
		}
		def("pickBaseFeeCmp", "Cmp", "."+cmp, "pickUnBatchedTx: `tx.Fee.Amount <op> baseFee` …")
		def("pickBaseFeeStops", "Bool", leanBool(stops), "… stops the iteration")
		def("pickRemovesFromPool", "Bool", leanBool(removes), "every selected tx is removed from the pool")
		def("pickStopsAtMax", "Bool", leanBool(maxStop), "iteration stops when len(selected) == maxElements")
	}
	// ---- OutgoingTxBatchExecuted: which other batches are cancelled -------------------------------------
	{
		cmp, same := "unknown", false
		if fd := c.findFunc(c05Keeper, "Keeper", "OutgoingTxBatchExecuted"); fd != nil {
			if fl := firstFuncLit(fd); fl != nil && len(fl.Body.List) > 0 {
				if ifs, ok := fl.Body.List[0].(*ast.IfStmt); ok {
					s := strings.ReplaceAll(c.src(ifs.Cond), " ", "")
					if m := regexp.MustCompile(`^iterBatch\.BatchNonce(<|<=|>|>=|==|!=)batch\.BatchNonce&&iterBatch\.TokenContract==tokenContract$`).FindStringSubmatch(s); m != nil {
						cmp, same = cmpFromText(m[1]), true
					} else if m := regexp.MustCompile(`^iterBatch\.BatchNonce(<|<=|>|>=|==|!=)batch\.BatchNonce$`).FindStringSubmatch(s); m != nil {
						cmp = cmpFromText(m[1])
					}
					if !callsNamed(c, ifs.Body, "CancelOutgoingTxBatch") {
						cmp = "unknown"
					}
				}
			}
		}
		def("executedCancelsCmp", "Cmp", "."+cmp, "OutgoingTxBatchExecuted cancels batches with `iterBatch.BatchNonce <op> batch.BatchNonce` …")
		def("executedCancelsSameToken", "Bool", leanBool(same), "… of the same token contract only")
	}
	// ---- fee increase: token guard --------------------------------------------------------------------------------
	{
		guard := false
		if fd := c.findFunc(c05Keeper, "Keeper", "AddUnbatchedTxBridgeFee"); fd != nil && fd.Body != nil {
			fromDenom := strings.Contains(strings.ReplaceAll(resolveLhs(c, fd, "tokenContract"), " ", ""), "GetContractByBridgeDenom(ctx,addBridgeFee.Denom)")
			for _, st := range fd.Body.List {
				ifs, ok := st.(*ast.IfStmt)
				if !ok {
					continue
				}
				cond := strings.ReplaceAll(c.src(ifs.Cond), " ", "")
				if (cond == "tx.Fee.Contract!=tokenContract" || cond == "tokenContract!=tx.Fee.Contract") && len(ifs.Body.List) == 1 {
					if r, ok := ifs.Body.List[0].(*ast.ReturnStmt); ok && len(r.Results) == 1 {
						if _, isCall := r.Results[0].(*ast.CallExpr); isCall && fromDenom {
							guard = true
						}
					}
				}
			}
		}
		def("incFeeTokenCheck", "Bool", leanBool(guard), "AddUnbatchedTxBridgeFee rejects an added fee whose bridge token is not the transfer's fee token")
	}
	// ---- bridge-call refund: recipient; result handler: which paths refund / delete ---------------------------------
	{
		to := "unknown"
		if fd := c.findFunc(c05Keeper, "Keeper", "HandleOutgoingBridgeCallRefund"); fd != nil && fd.Body != nil {
			ast.Inspect(fd.Body, func(n ast.Node) bool {
				ce, ok := n.(*ast.CallExpr)
				if !ok || to != "unknown" {
					return true
				}
				se, ok := ce.Fun.(*ast.SelectorExpr)
				if !ok || se.Sel.Name != "bridgeCallTransferCoins" || len(ce.Args) < 3 {
					return true
				}
				a := strings.ReplaceAll(c.src(ce.Args[1]), " ", "")
				if r := resolveIdent(c, fd, a); r != "" {
					a = strings.ReplaceAll(r, " ", "")
				}
				switch {
				case strings.Contains(a, "data.GetRefund()") || strings.Contains(a, "data.Refund"):
					to = "refund"
				case strings.Contains(a, "data.GetSender()") || strings.Contains(a, "data.Sender"):
					to = "sender"
				}
				return true
			})
		}
		sb.WriteString("/-- who a refunded outgoing bridge call pays -/\ninductive CallRefundTo where | refund | sender | unknown\n  deriving DecidableEq, Repr\n\n")
		def("callRefundReceiver", "CallRefundTo", "."+to, "HandleOutgoingBridgeCallRefund pays the record's refund address / its sender")
		// BridgeCallResultHandler: per outcome, is the record refunded / deleted
		refundF, refundS, delF, delS := false, false, false, false
		var bodyF, bodyS []string
		if fd := c.findFunc(c05Keeper, "Keeper", "BridgeCallResultHandler"); fd != nil && fd.Body != nil {
			mark := func(n ast.Node, onF, onS bool) {
				if onF {
					bodyF = append(bodyF, callsInOrder(n, c05SettleStmts...)...)
				}
				if onS {
					bodyS = append(bodyS, callsInOrder(n, c05SettleStmts...)...)
				}
				if callsNamed(c, n, "HandleOutgoingBridgeCallRefund") {
					refundF, refundS = refundF || onF, refundS || onS
				}
				if callsNamed(c, n, "DeleteOutgoingBridgeCallRecord") {
					delF, delS = delF || onF, delS || onS
				}
			}
			for _, st := range fd.Body.List {
				ifs, ok := st.(*ast.IfStmt)
				if !ok {
					mark(st, true, true)
					continue
				}
				cond := strings.ReplaceAll(c.src(ifs.Cond), " ", "")
				switch cond {
				case "!claim.Success":
					mark(ifs.Body, true, false)
					if ifs.Else != nil {
						mark(ifs.Else, false, true)
					}
				case "claim.Success":
					mark(ifs.Body, false, true)
					if ifs.Else != nil {
						mark(ifs.Else, true, false)
					}
				default:
					if !strings.HasPrefix(cond, "!found") { // the not-found panic guard
						mark(ifs, true, true)
					}
				}
			}
		}
		def("resultRefundsOnFailure", "Bool", leanBool(refundF), "BridgeCallResultHandler refunds the record when the result says failure")
		def("resultRefundsOnSuccess", "Bool", leanBool(refundS), "… when it says success")
		def("resultDeletesOnFailure", "Bool", leanBool(delF), "BridgeCallResultHandler deletes the record when the result says failure")
		def("resultDeletesOnSuccess", "Bool", leanBool(delS), "… when it says success")
		def("resultFailureBody", "List String", leanStrs(bodyF), "what BridgeCallResultHandler does to the record when the result says failure: its refund / delete-record / delete-mark calls, in source order (the model runs them in this order)")
		def("resultSuccessBody", "List String", leanStrs(bodyS), "… when it says success")
	}
	// ---- what the message servers hand over, and which field of the stored record gets which argument ----------------
	{
		args := func(fn, callee string) []string {
			var out []string
			if fd := c.findFunc(c05Keeper, "MsgServer", fn); fd != nil && fd.Body != nil {
				ast.Inspect(fd.Body, func(n ast.Node) bool {
					ce, ok := n.(*ast.CallExpr)
					if !ok || out != nil {
						return true
					}
					if se, ok := ce.Fun.(*ast.SelectorExpr); ok && se.Sel.Name == callee {
						for _, a := range ce.Args {
							out = append(out, leanStr(strings.ReplaceAll(c.src(a), " ", "")))
						}
					}
					return true
				})
			}
			return out
		}
		fields := func(fn, typ string) []string {
			var out []string
			if fd := c.findFunc(c05Keeper, "Keeper", fn); fd != nil && fd.Body != nil {
				ast.Inspect(fd.Body, func(n ast.Node) bool {
					cl, ok := n.(*ast.CompositeLit)
					if !ok || out != nil || !strings.HasSuffix(c.src(cl.Type), typ) {
						return true
					}
					for _, el := range cl.Elts {
						if kv, ok := el.(*ast.KeyValueExpr); ok {
							out = append(out, "("+leanStr(c.src(kv.Key))+", "+leanStr(strings.ReplaceAll(c.src(kv.Value), " ", ""))+")")
						}
					}
					return true
				})
			}
			return out
		}
		params := func(fn string) []string {
			var out []string
			if fd := c.findFunc(c05Keeper, "Keeper", fn); fd != nil {
				for _, f := range fd.Type.Params.List {
					for _, n := range f.Names {
						out = append(out, leanStr(n.Name))
					}
				}
			}
			return out
		}
		passed := func(fn, callee string) []string {
			var out []string
			if fd := c.findFunc(c05Keeper, "Keeper", fn); fd != nil && fd.Body != nil {
				ast.Inspect(fd.Body, func(n ast.Node) bool {
					ce, ok := n.(*ast.CallExpr)
					if !ok || out != nil {
						return true
					}
					if se, ok := ce.Fun.(*ast.SelectorExpr); ok && se.Sel.Name == callee {
						for _, a := range ce.Args {
							out = append(out, leanStr(strings.ReplaceAll(c.src(a), " ", "")))
						}
					}
					return true
				})
			}
			return out
		}
		def("bridgeCallMsgArgs", "List String", leanList(args("BridgeCall", "AddOutgoingBridgeCall")), "arguments MsgServer.BridgeCall passes to AddOutgoingBridgeCall")
		def("bridgeCallAddParams", "List String", leanList(params("AddOutgoingBridgeCall")), "parameter names of AddOutgoingBridgeCall")
		def("bridgeCallBuildArgs", "List String", leanList(passed("AddOutgoingBridgeCall", "BuildOutgoingBridgeCall")), "arguments AddOutgoingBridgeCall passes to BuildOutgoingBridgeCall")
		def("bridgeCallBuildParams", "List String", leanList(params("BuildOutgoingBridgeCall")), "parameter names of BuildOutgoingBridgeCall")
		def("bridgeCallRecordFields", "List (String × String)", leanList(fields("BuildOutgoingBridgeCall", "OutgoingBridgeCall")), "(field, value) of the OutgoingBridgeCall literal BuildOutgoingBridgeCall stores")
		def("sendMsgArgs", "List String", leanList(args("SendToExternal", "AddToOutgoingPool")), "arguments MsgServer.SendToExternal passes to AddToOutgoingPool")
		def("sendAddParams", "List String", leanList(params("AddToOutgoingPool")), "parameter names of AddToOutgoingPool")
		def("sendPoolArgs", "List String", leanList(passed("AddToOutgoingPool", "addToOutgoingPool")), "arguments AddToOutgoingPool passes to addToOutgoingPool")
		def("sendPoolParams", "List String", leanList(params("addToOutgoingPool")), "parameter names of addToOutgoingPool")
		def("sendRecordFields", "List (String × String)", leanList(fields("addToOutgoingPool", "OutgoingTransferTx")), "(field, value) of the OutgoingTransferTx literal addToOutgoingPool stores")
	}
	// ---- origin of an entry (message / precompile) and the form of its refund ---------------------------------------
	{
		const pre = "x/crosschain/precompile"
		callArgs := func(fd *ast.FuncDecl, callee string) ([]string, bool) {
			var out []string
			found := false
			if fd != nil && fd.Body != nil {
				ast.Inspect(fd.Body, func(n ast.Node) bool {
					ce, ok := n.(*ast.CallExpr)
					if !ok || found {
						return true
					}
					if se, ok := ce.Fun.(*ast.SelectorExpr); ok && se.Sel.Name == callee {
						found = true
						for _, a := range ce.Args {
							out = append(out, leanStr(strings.ReplaceAll(c.src(a), " ", "")))
						}
					}
					return true
				})
			}
			return out, found
		}
		paramsOf := func(fd *ast.FuncDecl) []string {
			var out []string
			if fd != nil {
				for _, f := range fd.Type.Params.List {
					for _, n := range f.Names {
						out = append(out, leanStr(n.Name))
					}
				}
			}
			return out
		}
		// HandleOutgoingBridgeCallRefund: `if k.HasBridgeCallFromMsg(ctx, data.Nonce) { return … }` and only then the
		// conversion of the refunded coins to ERC-20 (bridgeCallTransferTokens)
		evmUnless := false
		if fd := c.findFunc(c05Keeper, "Keeper", "HandleOutgoingBridgeCallRefund"); fd != nil && fd.Body != nil {
			guardAt, convAt := -1, -1
			for i, st := range fd.Body.List {
				if ifs, ok := st.(*ast.IfStmt); ok && ifs.Init == nil {
					cond := strings.ReplaceAll(c.src(ifs.Cond), " ", "")
					if strings.HasPrefix(cond, "k.HasBridgeCallFromMsg(ctx,data.Nonce)") && len(ifs.Body.List) == 1 {
						if _, isRet := ifs.Body.List[0].(*ast.ReturnStmt); isRet && guardAt < 0 {
							guardAt = i
						}
					}
				}
				if callsNamed(c, st, "bridgeCallTransferTokens") && convAt < 0 {
					convAt = i
				}
			}
			evmUnless = guardAt >= 0 && convAt > guardAt
		}
		def("callRefundEvmUnlessFromMsg", "Bool", leanBool(evmUnless), "HandleOutgoingBridgeCallRefund converts the refunded coins to ERC-20 for the refund address unless the record is marked BridgeCallFromMsg (the guard returns before the conversion)")
		dropsFromMsg := false
		if fd := c.findFunc(c05Keeper, "Keeper", "DeleteOutgoingBridgeCallRecord"); fd != nil {
			dropsFromMsg = callsNamed(c, fd.Body, "DeleteBridgeCallFromMsg")
		}
		def("deleteRecordDropsFromMsg", "Bool", leanBool(dropsFromMsg), "DeleteOutgoingBridgeCallRecord deletes the BridgeCallFromMsg mark")
		{
			var body []string
			if fd := c.findFunc(c05Keeper, "Keeper", "DeleteOutgoingBridgeCallRecord"); fd != nil && fd.Body != nil {
				body = callsInOrder(fd.Body, "HandleOutgoingBridgeCallRefund", "DeleteOutgoingBridgeCall", "DeleteBridgeCallConfirm", "DeleteBridgeCallFromMsg")
			}
			def("deleteRecordBody", "List String", leanStrs(body), "the calls of DeleteOutgoingBridgeCallRecord, in source order")
		}
		// MsgServer.BridgeCall marks the nonce AddOutgoingBridgeCall returned
		setsFromMsg := false
		if fd := c.findFunc(c05Keeper, "MsgServer", "BridgeCall"); fd != nil {
			if a, ok := callArgs(fd, "SetBridgeCallFromMsg"); ok && len(a) == 2 {
				v := strings.Trim(a[1], "\"")
				setsFromMsg = strings.Contains(strings.ReplaceAll(resolveLhs(c, fd, v), " ", ""), "AddOutgoingBridgeCall(")
			}
		}
		def("msgBridgeCallSetsFromMsg", "Bool", leanBool(setsFromMsg), "MsgServer.BridgeCall marks the nonce returned by AddOutgoingBridgeCall as BridgeCallFromMsg")
		preRun := c.findFunc(pre, "BridgeCallMethod", "Run")
		def("precompileBridgeCallSetsFromMsg", "Bool", leanBool(preRun != nil && callsNamed(c, preRun.Body, "SetBridgeCallFromMsg")), "the bridgeCall precompile marks its record as BridgeCallFromMsg")
		a1, _ := callArgs(preRun, "AddOutgoingBridgeCall")
		def("bridgeCallPrecompileArgs", "List String", leanList(a1), "arguments BridgeCallMethod.Run passes to AddOutgoingBridgeCall")
		// increaseBridgeFee: MsgServer.IncreaseBridgeFee / IncreaseBridgeFeeMethod.Run -> AddUnbatchedTxBridgeFee, and where the
		// precompile takes the added fee from (handlerERC20Token with the caller)
		{
			var msgArgs []string
			if fd := c.findFunc(c05Keeper, "MsgServer", "IncreaseBridgeFee"); fd != nil {
				msgArgs, _ = callArgs(fd, "AddUnbatchedTxBridgeFee")
			}
			def("incFeeMsgArgs", "List String", leanList(msgArgs), "arguments MsgServer.IncreaseBridgeFee passes to AddUnbatchedTxBridgeFee")
			def("incFeeAddParams", "List String", leanList(paramsOf(c.findFunc(c05Keeper, "Keeper", "AddUnbatchedTxBridgeFee"))), "parameter names of AddUnbatchedTxBridgeFee")
			ifRun := c.findFunc(pre, "IncreaseBridgeFeeMethod", "Run")
			a5, _ := callArgs(ifRun, "AddUnbatchedTxBridgeFee")
			def("incFeePrecompileArgs", "List String", leanList(a5), "arguments IncreaseBridgeFeeMethod.Run passes to AddUnbatchedTxBridgeFee")
			a6, _ := callArgs(ifRun, "handlerERC20Token")
			def("incFeePrecompileTakeArgs", "List String", leanList(a6), "arguments IncreaseBridgeFeeMethod.Run passes to handlerERC20Token (whose ERC-20 balance pays, which token, how much)")
			a7, _ := callArgs(ifRun, "ConvertDenomToTarget")
			def("incFeePrecompileConvertArgs", "List String", leanList(a7), "arguments IncreaseBridgeFeeMethod.Run passes to ConvertDenomToTarget (base coins of the caller -> bridge denom)")
		}
		// crossChain precompile: Run -> handlerCrossChain -> outgoingTransfer -> AddToOutgoingPool, then the relation
		ccRun := c.findFunc(pre, "CrossChainMethod", "Run")
		a2, _ := callArgs(ccRun, "handlerCrossChain")
		def("sendPrecompileArgs", "List String", leanList(a2), "arguments CrossChainMethod.Run passes to handlerCrossChain")
		hcc := c.findFunc(pre, "Keeper", "handlerCrossChain")
		def("sendPrecompileHandlerParams", "List String", leanList(paramsOf(hcc)), "parameter names of handlerCrossChain")
		a3, _ := callArgs(hcc, "outgoingTransfer")
		def("sendPrecompileTransferArgs", "List String", leanList(a3), "arguments handlerCrossChain passes to outgoingTransfer")
		ot := c.findFunc(pre, "Keeper", "outgoingTransfer")
		def("sendPrecompileTransferParams", "List String", leanList(paramsOf(ot)), "parameter names of outgoingTransfer")
		a4, _ := callArgs(ot, "AddToOutgoingPool")
		def("sendPrecompilePoolArgs", "List String", leanList(a4), "arguments outgoingTransfer passes to AddToOutgoingPool")
		setsRel := false
		if ot != nil && ot.Body != nil {
			for _, st := range ot.Body.List {
				if ifs, ok := st.(*ast.IfStmt); ok && strings.ReplaceAll(c.src(ifs.Cond), " ", "") == "!originToken" {
					if a, ok := callArgs(&ast.FuncDecl{Body: ifs.Body}, "SetOutgoingTransferRelation"); ok && len(a) == 3 {
						v := strings.Trim(a[2], "\"")
						setsRel = strings.Contains(strings.ReplaceAll(resolveLhs(c, ot, v), " ", ""), "AddToOutgoingPool(")
					}
				}
			}
		}
		def("precompileSendSetsRelation", "Bool", leanBool(setsRel), "outgoingTransfer records an OutgoingTransferRelation for the id AddToOutgoingPool returned, unless the token is the origin token")
		// cancel: handleCancelRefund -> handleOutgoingTransferRelation -> (relation exists) HookOutgoingRefund = ConvertCoin + delete relation
		hook := false
		if fd := c.findFunc(c05Keeper, "Keeper", "handleCancelRefund"); fd != nil && callsNamed(c, fd.Body, "handleOutgoingTransferRelation") {
			if h := c.findFunc(c05Keeper, "Keeper", "handleOutgoingTransferRelation"); h != nil && h.Body != nil && len(h.Body.List) >= 2 {
				guard := false
				if ifs, ok := h.Body.List[0].(*ast.IfStmt); ok {
					cond := strings.ReplaceAll(c.src(ifs.Cond), " ", "")
					_, isRet := ifs.Body.List[len(ifs.Body.List)-1].(*ast.ReturnStmt)
					guard = strings.HasPrefix(cond, "!k.erc20Keeper.HasOutgoingTransferRelation(ctx,k.moduleName,txId)") && isRet
				}
				if e := c.findFunc("x/erc20/keeper", "Keeper", "HookOutgoingRefund"); e != nil {
					hook = guard && callsNamed(c, &ast.BlockStmt{List: h.Body.List[1:]}, "HookOutgoingRefund") &&
						callsNamed(c, e.Body, "ConvertCoin") && callsNamed(c, e.Body, "DeleteOutgoingTransferRelation")
				}
			}
		}
		def("cancelRefundHook", "Bool", leanBool(hook), "a cancelled pool entry that has an OutgoingTransferRelation is refunded as ERC-20 (ConvertCoin for the sender) and the relation is deleted")
		execDel := false
		if fd := c.findFunc(c05Keeper, "Keeper", "OutgoingTxBatchExecuted"); fd != nil && fd.Body != nil {
			for _, st := range fd.Body.List {
				if rs, ok := st.(*ast.RangeStmt); ok && strings.ReplaceAll(c.src(rs.X), " ", "") == "batch.Transactions" {
					execDel = execDel || callsNamed(c, rs.Body, "DeleteOutgoingTransferRelation")
				}
			}
		}
		def("executedDeletesRelation", "Bool", leanBool(execDel), "OutgoingTxBatchExecuted deletes the OutgoingTransferRelation of every transfer of the executed batch")
	}
	// ---- Solidity ----------------------------------------------------------------------------------------
	{
		bz, err := os.ReadFile(filepath.Join(c.repo, "solidity", "contracts", "bridge", "FxBridgeLogic.sol"))
		sol := string(bz)
		if err != nil {
			sol = ""
		}
		fnBody := func(name string) string {
			i := strings.Index(sol, "function "+name+"(")
			if i < 0 {
				return ""
			}
			rest := sol[i+len("function "):]
			if j := strings.Index(rest, "\n    function "); j >= 0 {
				rest = rest[:j]
			}
			return rest
		}
		rule := func(body, pat string) string {
			flat := regexp.MustCompile(`\s+`).ReplaceAllString(body, "")
			m := regexp.MustCompile(pat).FindStringSubmatch(flat)
			if m == nil {
				return "unknown"
			}
			return cmpFromText(m[1])
		}
		sb1 := fnBody("submitBatch")
		def("solBatchTimeoutCmp", "Cmp", "."+rule(sb1, `require\(block\.number(<=|>=|<|>|==|!=)_batchTimeout,`), "submitBatch: require(block.number <op> _batchTimeout)")
		def("solBatchNonceCmp", "Cmp", "."+rule(sb1, `require\(state_lastBatchNonces\[_tokenContract\](<=|>=|<|>|==|!=)_nonceArray\[1\],`), "submitBatch: require(state_lastBatchNonces[token] <op> batchNonce)")
		// submitBridgeCall delegates its checks to verifySubmitBridgeCall
		sb2 := fnBody("submitBridgeCall")
		verifies := strings.Contains(regexp.MustCompile(`\s+`).ReplaceAllString(sb2, ""), "verifySubmitBridgeCall(")
		sb3 := sb2
		if verifies {
			sb3 = sb2 + fnBody("verifySubmitBridgeCall")
		}
		def("solCallTimeoutCmp", "Cmp", "."+rule(sb3, `require\(block\.number(<=|>=|<|>|==|!=)_input\.timeout,`), "submitBridgeCall: require(block.number <op> _input.timeout)")
		once := strings.Contains(regexp.MustCompile(`\s+`).ReplaceAllString(sb3, ""), "require(!state_lastBridgeCallNonces[_nonceArray[1]],") &&
			strings.Contains(regexp.MustCompile(`\s+`).ReplaceAllString(sb2, ""), "state_lastBridgeCallNonces[_nonceArray[1]]=true;")
		def("solCallNonceOnce", "Bool", leanBool(once), "submitBridgeCall: a bridge-call nonce is accepted at most once")

		// ---- the whole check-then-update program of the two submit functions, in source order ---------------------
		// Every `require(cond, msg)`, the two state updates (`state_lastBatchNonces[token] = nonce`,
		// `state_lastBridgeCallNonces[nonce] = true`), the signature check and the first value-moving statement are
		// emitted as a statement list that the external-chain ghost (Model/C05Ext.lean) INTERPRETS; an internal
		// function that is called (verifySubmitBridgeCall) is inlined at the call site.
		sb.WriteString("/-- a quantity a `require` of the bridge contract compares -/\ninductive SolVar where | blockNumber | timeout | lastNonce | nonce | nonceUsed | power | threshold | other (src : String)\n  deriving DecidableEq, Repr\n\n")
		sb.WriteString("/-- one statement of `submitBatch` / `submitBridgeCall`, as far as the ghost interprets it -/\ninductive SolStmt where\n  | require (lhs : SolVar) (op : Cmp) (rhs : SolVar)\n  | requireNot (v : SolVar)\n  | requireOther (src : String)\n  | setLastNonce\n  | setNonceUsed\n  | checkSignatures\n  | moveValue\n  deriving DecidableEq, Repr\n\n")
		solVar := func(e string) string {
			switch e {
			case "block.number":
				return ".blockNumber"
			case "_batchTimeout", "_input.timeout":
				return ".timeout"
			case "state_lastBatchNonces[_tokenContract]":
				return ".lastNonce"
			case "_nonceArray[1]":
				return ".nonce"
			case "state_lastBridgeCallNonces[_nonceArray[1]]":
				return ".nonceUsed"
			case "cumulativePower":
				return ".power"
			case "_powerThreshold", "state_powerThreshold":
				return ".threshold"
			}
			return "(.other " + leanStr(e) + ")"
		}
		ws := regexp.MustCompile(`\s+`)
		var program func(name string, depth int) []string
		program = func(name string, depth int) []string {
			flat := ws.ReplaceAllString(regexp.MustCompile(`(?m)//.*$`).ReplaceAllString(fnBody(name), ""), "")
			if i := strings.Index(flat, "{"); i >= 0 {
				flat = flat[i:]
			}
			type item struct {
				at   int
				stms []string
			}
			var items []item
			// require(...)
			for _, m := range regexp.MustCompile(`require\(`).FindAllStringIndex(flat, -1) {
				depthP, j := 1, m[1]
				lastComma := -1
				inStr := false
				for ; j < len(flat) && depthP > 0; j++ {
					switch ch := flat[j]; {
					case ch == '"':
						inStr = !inStr
					case inStr:
					case ch == '(' || ch == '[':
						depthP++
					case ch == ')' || ch == ']':
						depthP--
					case ch == ',' && depthP == 1:
						lastComma = j
					}
				}
				cond := flat[m[1] : j-1]
				if lastComma > 0 {
					cond = flat[m[1]:lastComma]
				}
				st := ""
				if mm := regexp.MustCompile(`^([A-Za-z_.\[\]0-9]+)(<=|>=|<|>|==|!=)([A-Za-z_.\[\]0-9]+)$`).FindStringSubmatch(cond); mm != nil &&
					!strings.HasPrefix(solVar(mm[1]), "(.other") && !strings.HasPrefix(solVar(mm[3]), "(.other") {
					st = fmt.Sprintf(".require %s .%s %s", solVar(mm[1]), cmpFromText(mm[2]), solVar(mm[3]))
				} else if strings.HasPrefix(cond, "!") && !strings.HasPrefix(solVar(cond[1:]), "(.other") {
					st = ".requireNot " + solVar(cond[1:])
				} else {
					st = ".requireOther " + leanStr(cond)
				}
				items = append(items, item{m[0], []string{st}})
			}
			for _, m := range regexp.MustCompile(`state_lastBatchNonces\[_tokenContract\]=_nonceArray\[1\];`).FindAllStringIndex(flat, -1) {
				items = append(items, item{m[0], []string{".setLastNonce"}})
			}
			for _, m := range regexp.MustCompile(`state_lastBridgeCallNonces\[_nonceArray\[1\]\]=true;`).FindAllStringIndex(flat, -1) {
				items = append(items, item{m[0], []string{".setNonceUsed"}})
			}
			for _, m := range regexp.MustCompile(`checkOracleSignatures\(`).FindAllStringIndex(flat, -1) {
				items = append(items, item{m[0], []string{".checkSignatures"}})
			}
			if m := regexp.MustCompile(`\.safeTransfer\(|\.mint\(|this\._transferAndBridgeCallback\(`).FindStringIndex(flat); m != nil {
				items = append(items, item{m[0], []string{".moveValue"}})
			}
			if depth == 0 {
				for _, m := range regexp.MustCompile(`verifySubmitBridgeCall\(`).FindAllStringIndex(flat, -1) {
					items = append(items, item{m[0], program("verifySubmitBridgeCall", 1)})
				}
			}
			sort.Slice(items, func(i, j int) bool { return items[i].at < items[j].at })
			var out []string
			for _, it := range items {
				out = append(out, it.stms...)
			}
			return out
		}
		def("solSubmitBatch", "List SolStmt", leanList(program("submitBatch", 0)), "submitBatch of FxBridgeLogic.sol: requires, state update, signature check, first value-moving statement, in source order")
		def("solSubmitBridgeCall", "List SolStmt", leanList(program("submitBridgeCall", 0)), "submitBridgeCall (verifySubmitBridgeCall inlined at its call site)")
		def("solCheckSignatures", "List SolStmt", leanList(program("checkOracleSignatures", 1)), "checkOracleSignatures: its requires (the last one compares the cumulative power of the valid signatures with the threshold)")
	}
	sb.WriteString("end FxVerif.Gen.C05\n")
	c.write("C05.lean", sb.String())
	for k, v := range facts {
		c.facts[k] = v
	}
}
