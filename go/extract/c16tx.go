package main

// C16, the transaction pipeline: baseapp.runTx of the Cosmos SDK version (and replacement) /repo/go.mod pins, read from
// the Go module cache and emitted STATEMENT BY STATEMENT IN SOURCE ORDER as terms of `TStep` / `AStep`
// (Model/C16Syntax.lean) into Gen/C16Tx.lean.  The model INTERPRETS this program (Model/C16Tx.lean `runTxProg`): that the
// messages' ValidateBasic runs before the ante handler, that the ante handler and the messages each run on a branch of
// the state, that the ante branch is written only after its error check and the message branch only under `err == nil`,
// are read off the source, and the theorems that a failed transaction leaves exactly what the ante handler wrote depend
// on that order.  Also: whether runMsgs stops at the first failing message.

import (
	"fmt"
	"go/ast"
	"go/token"
	"path/filepath"
	"strings"
)

func init() { register(extractC16Tx) }

func c16hasCall(c *ctxT, n ast.Node, pred func(fun string) bool) bool {
	found := false
	ast.Inspect(n, func(m ast.Node) bool {
		if call, ok := m.(*ast.CallExpr); ok && pred(c.src(call.Fun)) {
			found = true
		}
		return true
	})
	return found
}

func c16hasReturn(n ast.Node) bool {
	found := false
	ast.Inspect(n, func(m ast.Node) bool {
		if _, ok := m.(*ast.FuncLit); ok {
			return false
		}
		if _, ok := m.(*ast.ReturnStmt); ok {
			found = true
		}
		return true
	})
	return found
}

// c16Effectful: the statement calls something that can touch the stores we model or leaves the function
func c16Effectful(c *ctxT, n ast.Node) bool {
	return c16hasReturn(n) || c16hasCall(c, n, func(f string) bool {
		return strings.HasSuffix(f, ".Write") || strings.HasSuffix(f, "cacheTxContext") || strings.HasSuffix(f, "anteHandler") ||
			strings.HasSuffix(f, "postHandler") || strings.HasSuffix(f, "runMsgs") || strings.HasSuffix(f, "handler")
	})
}

func extractC16Tx(c *ctxT) {
	gm := readGoMod(filepath.Join(c.repo, "go.mod"))
	ip := "github.com/cosmos/cosmos-sdk/baseapp"
	mod, dir := gm.moduleOf(c.repo, ip)
	var steps []string
	stops := false
	where := "not found"
	postSet := false
	for _, f := range c.pkg("app") {
		if c16hasCall(c, f, func(fn string) bool { return strings.HasSuffix(fn, ".SetPostHandler") }) {
			postSet = true
		}
	}
	if mod != "" && hasGoFiles(filepath.Join(dir, "baseapp")) {
		c2 := &ctxT{repo: dir, out: c.out, fset: c.fset, facts: map[string]any{}, pkgs: map[string]map[string]*ast.File{}}
		fd := c2.findFunc("baseapp", "BaseApp", "runTx")
		// a runTx that only forwards to another method of the app: follow it
		for k := 0; k < 3 && fd != nil && fd.Body != nil && len(fd.Body.List) == 1; k++ {
			r, ok := fd.Body.List[0].(*ast.ReturnStmt)
			if !ok || len(r.Results) != 1 {
				break
			}
			call, ok := r.Results[0].(*ast.CallExpr)
			if !ok {
				break
			}
			se, ok := call.Fun.(*ast.SelectorExpr)
			if !ok {
				break
			}
			next := c2.findFunc("baseapp", "BaseApp", se.Sel.Name)
			if next == nil {
				break
			}
			fd = next
		}
		if fd != nil && fd.Body != nil {
			where = filepath.Base(dir) + "/" + c2.pos(fd)
			steps = c16TxSteps(c2, fd)
		}
		// runMsgs: the handler call inside the loop is followed by `if err != nil { return nil, … }`
		if rm := c2.findFunc("baseapp", "BaseApp", "runMsgs"); rm != nil && rm.Body != nil {
			for _, s := range rm.Body.List {
				rs, ok := s.(*ast.RangeStmt)
				if !ok {
					continue
				}
				for i, bs := range rs.Body.List {
					as, ok := bs.(*ast.AssignStmt)
					if !ok || len(as.Rhs) != 1 || len(as.Lhs) != 2 {
						continue
					}
					if call, ok := as.Rhs[0].(*ast.CallExpr); !ok || c2.src(call.Fun) != "handler" {
						continue
					}
					if i+1 < len(rs.Body.List) {
						if ifs, ok := rs.Body.List[i+1].(*ast.IfStmt); ok && ifs.Init == nil && c2.src(ifs.Cond) == c2.src(as.Lhs[1])+" != nil" &&
							len(ifs.Body.List) == 1 {
							if r, ok := ifs.Body.List[0].(*ast.ReturnStmt); ok && len(r.Results) == 2 && isNil(r.Results[0]) {
								stops = true
							}
						}
					}
				}
			}
		}
	}
	var sb strings.Builder
	sb.WriteString("import FxVerif.Model.C16Syntax\nnamespace FxVerif.Gen.C16Tx\nopen FxVerif.Model.C16\n\n")
	fmt.Fprintf(&sb, "/-- baseapp.runTx (%s), top-level statements in source order -/\ndef runTxProg : List TStep := [\n  %s\n]\n\n", where, strings.Join(steps, ",\n  "))
	fmt.Fprintf(&sb, "/-- baseapp.runMsgs returns at the first message whose handler returns an error -/\ndef runMsgsStopsAtError : Bool := %v\n\n", stops)
	fmt.Fprintf(&sb, "/-- app/*.go calls SetPostHandler -/\ndef postHandlerSet : Bool := %v\n\nend FxVerif.Gen.C16Tx\n", postSet)
	c.write("C16Tx.lean", sb.String())
	c.facts["C16.runTxProg"] = steps
	c.facts["C16.runMsgsStopsAtError"] = stops
}

func c16TxSteps(c *ctxT, fd *ast.FuncDecl) []string {
	var out []string
	id := 0
	other := func(s ast.Node) string { return ".other " + leanStr(oneLine(c.src(s), 90)) }
	skip := func(s ast.Node) string { return ".skip " + leanStr(oneLine(c.src(s), 60)) }
	envReject := func(s ast.Node) string {
		id++
		return fmt.Sprintf(".rejectIfEnv %d %s", id, leanStr(oneLine(c.src(s), 70)))
	}
	// `if <…> != nil { … return … }` whose last statement returns
	returnsOnErr := func(ifs *ast.IfStmt, errVar string) bool {
		if ifs.Else != nil || len(ifs.Body.List) == 0 || c.src(ifs.Cond) != errVar+" != nil" {
			return false
		}
		_, ok := ifs.Body.List[len(ifs.Body.List)-1].(*ast.ReturnStmt)
		return ok
	}
	branchVar, writeVar := "", ""
	body := fd.Body.List
	for i := 0; i < len(body); i++ {
		s := body[i]
		switch t := s.(type) {
		case *ast.AssignStmt:
			if len(t.Rhs) == 1 {
				if call, ok := t.Rhs[0].(*ast.CallExpr); ok {
					fs := c.src(call.Fun)
					if strings.HasSuffix(fs, ".cacheTxContext") && len(t.Lhs) == 2 {
						branchVar, writeVar = c.src(t.Lhs[0]), c.src(t.Lhs[1])
						out = append(out, ".branchMsgs")
						continue
					}
					// tx, err := app.txDecoder(txBytes); if err != nil { return … }
					if strings.HasSuffix(fs, ".txDecoder") && len(t.Lhs) == 2 && i+1 < len(body) {
						if ifs, ok := body[i+1].(*ast.IfStmt); ok && ifs.Init == nil && returnsOnErr(ifs, c.src(t.Lhs[1])) {
							out = append(out, envReject(s))
							i++
							continue
						}
					}
				}
			}
		case *ast.IfStmt:
			cond := c.src(t.Cond)
			// if err := validateBasicTxMsgs(msgs); err != nil { return … }
			if as, ok := t.Init.(*ast.AssignStmt); ok && len(as.Rhs) == 1 && len(as.Lhs) == 1 {
				if call, ok := as.Rhs[0].(*ast.CallExpr); ok && c.src(call.Fun) == "validateBasicTxMsgs" && returnsOnErr(t, c.src(as.Lhs[0])) {
					out = append(out, ".validateBasic")
					continue
				}
			}
			if t.Init == nil && strings.HasSuffix(cond, ".anteHandler != nil") && t.Else == nil {
				out = append(out, ".ante "+leanList(c16AnteSteps(c, t.Body)))
				continue
			}
			if t.Init == nil && strings.HasSuffix(cond, ".postHandler != nil") && t.Else == nil {
				// the post handler runs on the message branch; its failure returns before any Write
				onBranch := c16hasCall(c, t.Body, func(f string) bool { return strings.HasSuffix(f, ".postHandler") }) && branchVar != "" &&
					strings.Contains(c.src(t.Body), branchVar) && !c16hasCall(c, t.Body, func(f string) bool { return strings.HasSuffix(f, ".Write") })
				out = append(out, fmt.Sprintf(".post %v", onBranch))
				continue
			}
			// if err == nil { result, err = app.runMsgs(runMsgCtx, …) }
			if t.Init == nil && t.Else == nil && len(t.Body.List) == 1 {
				if as, ok := t.Body.List[0].(*ast.AssignStmt); ok && len(as.Rhs) == 1 {
					if call, ok := as.Rhs[0].(*ast.CallExpr); ok && strings.HasSuffix(c.src(call.Fun), ".runMsgs") && len(call.Args) >= 1 {
						out = append(out, fmt.Sprintf(".runMsgs %v", branchVar != "" && c.src(call.Args[0]) == branchVar))
						continue
					}
				}
			}
			// if err == nil { if mode == execModeFinalize { …; msCache.Write() } … }
			if t.Init == nil && cond == "err == nil" && t.Else == nil && writeVar != "" &&
				c16hasCall(c, t.Body, func(f string) bool { return f == writeVar+".Write" }) && !c16hasReturn(t.Body) {
				out = append(out, ".writeIfOk")
				continue
			}
			// an early return decided by the environment (block gas left, the mempool): no write, no handler inside
			if t.Init == nil && c16hasReturn(t) &&
				!c16hasCall(c, t, func(f string) bool {
					return strings.HasSuffix(f, ".Write") || strings.HasSuffix(f, "Handler") || strings.HasSuffix(f, "handler") ||
						strings.HasSuffix(f, ".runMsgs") || strings.HasSuffix(f, ".cacheTxContext")
				}) {
				out = append(out, envReject(s))
				continue
			}
		case *ast.RangeStmt:
			// for _, msg := range msgs { handler := …Handler(msg); if handler == nil { return … } }
			if c16hasCall(c, t.Body, func(f string) bool { return strings.HasSuffix(f, ".Handler") }) && c16hasReturn(t.Body) &&
				!c16hasCall(c, t.Body, func(f string) bool { return f == "handler" || strings.HasSuffix(f, ".Write") }) {
				out = append(out, envReject(s))
				continue
			}
		case *ast.ExprStmt:
			if writeVar != "" && c.src(t.X) == writeVar+".Write()" {
				out = append(out, ".writeAlways")
				continue
			}
		case *ast.ReturnStmt:
			if i == len(body)-1 {
				continue
			}
		case *ast.DeferStmt:
			if !c16hasCall(c, t, func(f string) bool { return strings.HasSuffix(f, ".Write") }) {
				out = append(out, skip(s))
				continue
			}
		}
		if !c16Effectful(c, s) {
			out = append(out, skip(s))
			continue
		}
		out = append(out, other(s))
	}
	return out
}

func c16AnteSteps(c *ctxT, b *ast.BlockStmt) []string {
	var out []string
	branchVar, writeVar, errVar := "", "", "err"
	for _, s := range b.List {
		switch t := s.(type) {
		case *ast.AssignStmt:
			if len(t.Rhs) == 1 {
				if call, ok := t.Rhs[0].(*ast.CallExpr); ok {
					fs := c.src(call.Fun)
					if strings.HasSuffix(fs, ".cacheTxContext") && len(t.Lhs) == 2 {
						branchVar, writeVar = c.src(t.Lhs[0]), c.src(t.Lhs[1])
						out = append(out, ".branch")
						continue
					}
					if strings.HasSuffix(fs, ".anteHandler") && len(call.Args) >= 1 && len(t.Lhs) == 2 {
						errVar = c.src(t.Lhs[1])
						out = append(out, fmt.Sprintf(".call %v", branchVar != "" && c.src(call.Args[0]) == branchVar))
						continue
					}
				}
			}
		case *ast.IfStmt:
			if t.Init == nil && t.Else == nil && c.src(t.Cond) == errVar+" != nil" && len(t.Body.List) > 0 {
				if _, ok := t.Body.List[len(t.Body.List)-1].(*ast.ReturnStmt); ok &&
					!c16hasCall(c, t.Body, func(f string) bool { return strings.HasSuffix(f, ".Write") }) {
					out = append(out, ".returnIfErr")
					continue
				}
			}
		case *ast.ExprStmt:
			if writeVar != "" && c.src(t.X) == writeVar+".Write()" {
				out = append(out, ".write")
				continue
			}
		}
		if _, ok := s.(*ast.DeclStmt); ok || !c16Effectful(c, s) {
			out = append(out, ".skip "+leanStr(oneLine(c.src(s), 60)))
			continue
		}
		out = append(out, ".other "+leanStr(oneLine(c.src(s), 90)))
	}
	_ = token.ILLEGAL
	return out
}
