package main

// C15, round 4: the Cosmos SDK gov keeper functions the fx wrapper leaves to the SDK — CancelProposal, DeleteProposal,
// ChargeDeposit, RefundAndDeleteDeposits, DeleteAndBurnDeposits — regenerated from the SDK version that /repo's go.mod
// selects (module cache, replace directives followed), as lists of statement tags in SOURCE ORDER.  The Lean model
// interprets them (`cancelRun`, `deleteProposalRun`, `chargeRun`, `refundRun`, `burnRun` in Model/C15Sdk.lean); statements
// that are not recognised are emitted as `other:<source>` — the interpreter ignores them, the obligations in Props/C15 that
// state the expected lists do not.

import (
	"fmt"
	"go/ast"
	"path/filepath"
	"strings"
)

type c15Rule struct {
	tag  string
	subs []string // all of these occur in the squashed source of the statement
}

// c15TagStmts: one tag per statement; `if err != nil { return … }` (no init) is skipped
func c15TagStmts(c *ctxT, list []ast.Stmt, rules []c15Rule) []string {
	var out []string
	for _, st := range list {
		src := squash(c.src(st))
		if is, ok := st.(*ast.IfStmt); ok && is.Init == nil && squash(c.src(is.Cond)) == "err != nil" {
			continue
		}
		tag := ""
		for _, r := range rules {
			all := true
			for _, s := range r.subs {
				if !strings.Contains(src, s) {
					all = false
					break
				}
			}
			if all {
				tag = r.tag
				break
			}
		}
		if tag == "" {
			if len(src) > 160 {
				src = src[:160] + "…"
			}
			tag = "other:" + src
		}
		out = append(out, tag)
	}
	return out
}

// the body of the first function literal / range statement matching pred
func c15FuncLitBody(n ast.Node) *ast.BlockStmt {
	var res *ast.BlockStmt
	ast.Inspect(n, func(x ast.Node) bool {
		if res != nil {
			return false
		}
		if fl, ok := x.(*ast.FuncLit); ok {
			res = fl.Body
			return false
		}
		return true
	})
	return res
}

func c15SdkSteps(c *ctxT, b *strings.Builder) {
	gm := readGoMod(filepath.Join(c.repo, "go.mod"))
	ip := "github.com/cosmos/cosmos-sdk/x/gov/keeper"
	mod, mdir := gm.moduleOf(c.repo, ip)
	list := func(name, doc string, xs []string) {
		fmt.Fprintf(b, "/-- %s -/\ndef %s : List String := [\n", doc, name)
		for i, t := range xs {
			sep := ","
			if i == len(xs)-1 {
				sep = ""
			}
			fmt.Fprintf(b, "  %s%s\n", leanStr(t), sep)
		}
		b.WriteString("]\n\n")
		c.facts["C15."+name] = xs
	}
	missing := func(why string) {
		for _, n := range []string{"sdkCancelSteps", "sdkDeleteProposalSteps", "sdkChargeSteps", "sdkChargeBody", "sdkChargeCoin", "sdkChargeDest", "sdkRefundCallback", "sdkBurnSteps", "sdkBurnCallback", "sdkDeleteVotesSteps", "sdkSubmitSteps", "sdkSubmitLoop", "sdkAddVoteSteps", "sdkVoteWeightedSteps", "sdkVoteWeightedLoop", "sdkWeightedOptionValid"} {
			list(n, "SDK gov keeper not readable: "+why, []string{"other:<" + why + ">"})
		}
		fmt.Fprintf(b, "def sdkGovSource : String := %s\n\n", leanStr("missing: "+why))
	}
	if mod == "" || mdir == "" || !hasGoFiles(filepath.Join(mdir, "x", "gov", "keeper")) {
		missing("module directory of " + ip + " not found")
		return
	}
	rel, err := filepath.Rel(c.repo, filepath.Join(mdir, "x", "gov", "keeper"))
	if err != nil {
		missing(err.Error())
		return
	}
	fmt.Fprintf(b, "/-- the module directory (below the module cache) the SDK gov keeper was read from -/\ndef sdkGovSource : String := %s\n\n", leanStr(filepath.Base(filepath.Dir(mdir))+"/"+filepath.Base(mdir)))
	c.facts["C15.sdkGovSource"] = filepath.Base(filepath.Dir(mdir)) + "/" + filepath.Base(mdir)

	body := func(name string) []ast.Stmt {
		fd := c.findFunc(rel, "Keeper", name)
		if fd == nil || fd.Body == nil {
			return nil
		}
		return fd.Body.List
	}

	// ---- CancelProposal
	cancelRules := []c15Rule{
		{"sdkCtx", []string{"sdkCtx := sdk.UnwrapSDKContext(ctx)"}},
		{"getProposal", []string{"proposal, err := keeper.Proposals.Get(ctx, proposalID)"}},
		{"needProposer", []string{`if proposal.Proposer == "" {`, "return types.ErrInvalidProposal"}},
		{"checkProposer", []string{"if proposal.Proposer != proposer {", "return types.ErrInvalidProposer"}},
		{"checkOpen", []string{"if (proposal.Status != v1.StatusDepositPeriod) && (proposal.Status != v1.StatusVotingPeriod) {", "return types.ErrInvalidProposal"}},
		{"checkNotEnded", []string{"if proposal.VotingEndTime != nil && proposal.VotingEndTime.Before(sdkCtx.BlockTime()) {", "return types.ErrVotingPeriodEnded"}},
		{"getParams", []string{"params, err := keeper.Params.Get(ctx)"}},
		{"chargeDeposit", []string{"err = keeper.ChargeDeposit(ctx, proposal.Id, params.ProposalCancelDest, params.ProposalCancelRatio)"}},
		{"deleteVotesIfStarted", []string{"if proposal.VotingStartTime != nil {", "err = keeper.deleteVotes(ctx, proposal.Id)"}},
		{"deleteProposal", []string{"err = keeper.DeleteProposal(ctx, proposal.Id)"}},
		{"log", []string{"keeper.Logger(ctx).Info("}},
		{"return", []string{"return nil"}},
	}
	// the more specific rules first: "return nil" is a substring of nothing above only as a whole statement
	tagTop := func(list []ast.Stmt, rules []c15Rule) []string {
		var out []string
		for _, st := range list {
			if _, ok := st.(*ast.ReturnStmt); ok {
				src := squash(c.src(st))
				if src == "return nil" {
					out = append(out, "return")
				} else {
					out = append(out, "return:"+src)
				}
				continue
			}
			out = append(out, c15TagStmts(c, []ast.Stmt{st}, rules)...)
		}
		return out
	}
	list("sdkCancelSteps", "SDK x/gov/keeper/proposal.go CancelProposal: its top-level statements in source order (plain error checks skipped)", tagTop(body("CancelProposal"), cancelRules[:len(cancelRules)-1]))

	// ---- DeleteProposal
	delRules := []c15Rule{
		{"getProposal", []string{"proposal, err := keeper.Proposals.Get(ctx, proposalID)"}},
		{"removeInactive", []string{"if proposal.DepositEndTime != nil {", "keeper.InactiveProposalsQueue.Remove(ctx, collections.Join(*proposal.DepositEndTime, proposalID))"}},
		{"removeActive", []string{"if proposal.VotingEndTime != nil {", "keeper.ActiveProposalsQueue.Remove(ctx, collections.Join(*proposal.VotingEndTime, proposalID))"}},
	}
	dl := body("DeleteProposal")
	var dtags []string
	for _, st := range dl {
		if rs, ok := st.(*ast.ReturnStmt); ok {
			src := squash(c.src(rs))
			if src == "return keeper.Proposals.Remove(ctx, proposalID)" {
				dtags = append(dtags, "removeProposal")
			} else {
				dtags = append(dtags, "return:"+src)
			}
			continue
		}
		dtags = append(dtags, c15TagStmts(c, []ast.Stmt{st}, delRules)...)
	}
	list("sdkDeleteProposalSteps", "SDK DeleteProposal: top-level statements in source order", dtags)

	// ---- deleteVotes
	var vtags []string
	for _, st := range body("deleteVotes") {
		if _, ok := st.(*ast.ReturnStmt); ok {
			vtags = append(vtags, "return")
			continue
		}
		vtags = append(vtags, c15TagStmts(c, []ast.Stmt{st}, []c15Rule{
			{"rangeOfProposal", []string{"rng := collections.NewPrefixedPairRange[uint64, sdk.AccAddress](proposalID)"}},
			{"clearVotes", []string{"err := keeper.Votes.Clear(ctx, rng)"}},
		})...)
	}
	list("sdkDeleteVotesSteps", "SDK deleteVotes: top-level statements", vtags)

	// ---- ChargeDeposit
	chargeRules := []c15Rule{
		{"rate", []string{"rate := sdkmath.LegacyMustNewDecFromStr(proposalCancelRate)"}},
		{"charges0", []string{"var cancellationCharges sdk.Coins"}},
		{"getDeposits", []string{"deposits, err := keeper.GetDeposits(ctx, proposalID)"}},
		{"depositLoop", []string{"for _, deposit := range deposits {"}},
		{"payCharges", []string{"if !cancellationCharges.IsZero() {"}},
	}
	cl := body("ChargeDeposit")
	list("sdkChargeSteps", "SDK ChargeDeposit: top-level statements in source order", tagTop(cl, chargeRules))
	var loopBody, coinBody []ast.Stmt
	var destTags []string
	for _, st := range cl {
		if rs, ok := st.(*ast.RangeStmt); ok && squash(c.src(rs.X)) == "deposits" {
			loopBody = rs.Body.List
			for _, s2 := range rs.Body.List {
				if r2, ok := s2.(*ast.RangeStmt); ok && squash(c.src(r2.X)) == "deposit.Amount" {
					coinBody = r2.Body.List
				}
			}
		}
		if is, ok := st.(*ast.IfStmt); ok && squash(c.src(is.Cond)) == "!cancellationCharges.IsZero()" {
			for _, s2 := range is.Body.List {
				sw, ok := s2.(*ast.SwitchStmt)
				if !ok {
					continue
				}
				for _, cc := range sw.Body.List {
					cs := cc.(*ast.CaseClause)
					cond := "default"
					if len(cs.List) > 0 {
						cond = squash(c.src(cs.List[0]))
					}
					act := "other"
					bs := squash(c.src(&ast.BlockStmt{List: cs.Body}))
					switch {
					case strings.Contains(bs, "keeper.bankKeeper.BurnCoins(ctx, types.ModuleName, cancellationCharges)"):
						act = "burn"
					case strings.Contains(bs, "keeper.distrKeeper.FundCommunityPool(ctx, cancellationCharges, keeper.ModuleAccountAddress())"):
						act = "fundCommunityPool"
					case strings.Contains(bs, "keeper.bankKeeper.SendCoinsFromModuleToAccount( ctx, types.ModuleName, destAccAddress, cancellationCharges, )") ||
						strings.Contains(bs, "keeper.bankKeeper.SendCoinsFromModuleToAccount(ctx, types.ModuleName, destAccAddress, cancellationCharges)"):
						act = "sendToDest"
					}
					destTags = append(destTags, cond+" => "+act)
				}
			}
		}
	}
	list("sdkChargeBody", "… the body of its loop over the deposits of the proposal", c15TagStmts(c, loopBody, []c15Rule{
		{"depositor", []string{"depositerAddress, err := keeper.authKeeper.AddressCodec().StringToBytes(deposit.Depositor)"}},
		{"remaining0", []string{"var remainingAmount sdk.Coins"}},
		{"coinLoop", []string{"for _, coin := range deposit.Amount {"}},
		{"refundRemaining", []string{"if !remainingAmount.IsZero() {", "keeper.bankKeeper.SendCoinsFromModuleToAccount( ctx, types.ModuleName, depositerAddress, remainingAmount, )"}},
		{"removeDeposit", []string{"err = keeper.Deposits.Remove(ctx, collections.Join(deposit.ProposalId, sdk.AccAddress(depositerAddress)))"}},
	}))
	list("sdkChargeCoin", "… the body of the loop over the coins of one deposit", c15TagStmts(c, coinBody, []c15Rule{
		{"burnAmount=trunc(amount*rate)", []string{"burnAmount := sdkmath.LegacyNewDecFromInt(coin.Amount).Mul(rate).TruncateInt()"}},
		{"remaining+=amount-burnAmount", []string{"remainingAmount = remainingAmount.Add( sdk.NewCoin( coin.Denom, coin.Amount.Sub(burnAmount), ), )"}},
		{"charges+=burnAmount", []string{"cancellationCharges = cancellationCharges.Add( sdk.NewCoin( coin.Denom, burnAmount, ), )"}},
	}))
	list("sdkChargeDest", "… what happens to the charges, by destination (the cases of the switch in source order)", destTags)

	// ---- SubmitProposal
	var stop, sloop []string
	for _, st := range body("SubmitProposal") {
		src := squash(c.src(st))
		if is, ok := st.(*ast.IfStmt); ok && is.Init == nil && squash(c.src(is.Cond)) == "err != nil" {
			continue
		}
		switch {
		case src == "sdkCtx := sdk.UnwrapSDKContext(ctx)":
			stop = append(stop, "sdkCtx")
		case src == "err := keeper.assertMetadataLength(metadata)":
			stop = append(stop, "assertMetadata")
		case src == "err = keeper.assertSummaryLength(summary)":
			stop = append(stop, "assertSummary")
		case src == "err = keeper.assertMetadataLength(title)":
			stop = append(stop, "assertTitle")
		case src == `msgsStr := ""`:
			stop = append(stop, "msgsStr0")
		case strings.HasPrefix(src, "for _, msg := range messages {"):
			stop = append(stop, "msgLoop")
			for _, s2 := range st.(*ast.RangeStmt).Body.List {
				s2s := squash(c.src(s2))
				if is, ok := s2.(*ast.IfStmt); ok && is.Init == nil && squash(c.src(is.Cond)) == "err != nil" {
					continue
				}
				switch {
				case strings.HasPrefix(s2s, "msgsStr += "):
					sloop = append(sloop, "msgsStr+=")
				case strings.HasPrefix(s2s, "if m, ok := msg.(sdk.HasValidateBasic); ok { if err := m.ValidateBasic(); err != nil { return v1.Proposal{}, errorsmod.Wrap(types.ErrInvalidProposalMsg"):
					sloop = append(sloop, "validateBasic")
				case s2s == "signers, _, err := keeper.cdc.GetMsgV1Signers(msg)":
					sloop = append(sloop, "getSigners")
				case strings.HasPrefix(s2s, "if len(signers) != 1 { return v1.Proposal{}, types.ErrInvalidSigner"):
					sloop = append(sloop, "oneSigner")
				case strings.HasPrefix(s2s, "if !bytes.Equal(signers[0], keeper.GetGovernanceAccount(ctx).GetAddress()) { return v1.Proposal{}, errorsmod.Wrapf(types.ErrInvalidSigner"):
					sloop = append(sloop, "signerIsGov")
				case s2s == "handler := keeper.router.Handler(msg)":
					sloop = append(sloop, "handler")
				case strings.HasPrefix(s2s, "if handler == nil { return v1.Proposal{}, errorsmod.Wrap(types.ErrUnroutableProposalMsg"):
					sloop = append(sloop, "routable")
				case strings.HasPrefix(s2s, "if msg, ok := msg.(*v1.MsgExecLegacyContent); ok { cacheCtx, _ := sdkCtx.CacheContext() if _, err := handler(cacheCtx, msg); err != nil {"):
					sloop = append(sloop, "legacyDryRun")
				default:
					if len(s2s) > 160 {
						s2s = s2s[:160] + "…"
					}
					sloop = append(sloop, "other:"+s2s)
				}
			}
		case src == "proposalID, err := keeper.ProposalID.Next(ctx)":
			stop = append(stop, "nextId")
		case src == "params, err := keeper.Params.Get(ctx)":
			stop = append(stop, "getParams")
		case src == "submitTime := sdkCtx.BlockHeader().Time":
			stop = append(stop, "submitTime=blockTime")
		case src == "depositPeriod := params.MaxDepositPeriod":
			stop = append(stop, "depositPeriod=maxDepositPeriod")
		case src == "proposal, err := v1.NewProposal(messages, proposalID, submitTime, submitTime.Add(*depositPeriod), metadata, title, summary, proposer, expedited)":
			stop = append(stop, "newProposal(depositEnd=submitTime+depositPeriod)")
		case src == "err = keeper.SetProposal(ctx, proposal)":
			stop = append(stop, "setProposal")
		case src == "err = keeper.InactiveProposalsQueue.Set(ctx, collections.Join(*proposal.DepositEndTime, proposalID), proposalID)":
			stop = append(stop, "inactiveQueueSet:depositEnd")
		case src == "err = keeper.Hooks().AfterProposalSubmission(ctx, proposalID)":
			stop = append(stop, "hooks")
		case strings.HasPrefix(src, "sdkCtx.EventManager().EmitEvent("):
			stop = append(stop, "event")
		case src == "return proposal, nil":
			stop = append(stop, "return")
		default:
			if len(src) > 160 {
				src = src[:160] + "…"
			}
			stop = append(stop, "other:"+src)
		}
	}
	list("sdkSubmitSteps", "SDK x/gov/keeper/proposal.go SubmitProposal: its top-level statements in source order (plain error checks skipped)", stop)
	list("sdkSubmitLoop", "… the body of its loop over the proposal messages", sloop)

	// ---- AddVote
	var vtop []string
	for _, st := range body("AddVote") {
		src := squash(c.src(st))
		if is, ok := st.(*ast.IfStmt); ok && is.Init == nil && squash(c.src(is.Cond)) == "err != nil" {
			continue
		}
		switch {
		case src == "inVotingPeriod, err := keeper.VotingPeriodProposals.Has(ctx, proposalID)":
			vtop = append(vtop, "inVotingPeriod=VotingPeriodProposals.Has")
		case strings.HasPrefix(src, "if !inVotingPeriod { return errors.Wrapf(types.ErrInactiveProposal"):
			vtop = append(vtop, "rejectUnlessVoting")
		case src == "err = keeper.assertMetadataLength(metadata)":
			vtop = append(vtop, "assertMetadata")
		case strings.HasPrefix(src, "for _, option := range options { if !v1.ValidWeightedVoteOption(*option) { return errors.Wrap(types.ErrInvalidVote"):
			vtop = append(vtop, "optionsValid")
		case src == "vote := v1.NewVote(proposalID, voterAddr, options, metadata)":
			vtop = append(vtop, "newVote")
		case src == "err = keeper.Votes.Set(ctx, collections.Join(proposalID, voterAddr), vote)":
			vtop = append(vtop, "votesSet")
		case src == "err = keeper.Hooks().AfterProposalVote(ctx, proposalID, voterAddr)":
			vtop = append(vtop, "hooks")
		case src == "sdkCtx := sdk.UnwrapSDKContext(ctx)":
			vtop = append(vtop, "sdkCtx")
		case strings.HasPrefix(src, "sdkCtx.EventManager().EmitEvent("):
			vtop = append(vtop, "event")
		case src == "return nil":
			vtop = append(vtop, "return")
		default:
			if len(src) > 160 {
				src = src[:160] + "…"
			}
			vtop = append(vtop, "other:"+src)
		}
	}
	list("sdkAddVoteSteps", "SDK x/gov/keeper/vote.go AddVote: its top-level statements in source order (plain error checks skipped)", vtop)

	// ---- msgServer.VoteWeighted (round 5): the validation of the weighted options BEFORE AddVote, top level and loop body
	vwTop, vwLoop := []string{"other:<msgServer.VoteWeighted not found>"}, []string{"other:<msgServer.VoteWeighted not found>"}
	if fd := c.findFunc(rel, "msgServer", "VoteWeighted"); fd != nil && fd.Body != nil {
		vwTop, vwLoop = nil, nil
		for _, st := range fd.Body.List {
			if rs, ok := st.(*ast.RangeStmt); ok && squash(c.src(rs.X)) == "msg.Options" && rs.Value != nil && c.src(rs.Value) == "option" {
				vwTop = append(vwTop, "optionLoop")
				vwLoop = c15TagStmts(c, rs.Body.List, []c15Rule{
					{"rejectInvalidOption", []string{"if !option.IsValid() {", "return nil, errors.Wrap(govtypes.ErrInvalidVote"}},
					{"parseWeight", []string{"weight, err := math.LegacyNewDecFromStr(option.Weight)"}},
					{"total+=weight", []string{"totalWeight = totalWeight.Add(weight)"}},
					{"rejectDuplicate", []string{"if usedOptions[option.Option] {", "return nil, errors.Wrap(govtypes.ErrInvalidVote"}},
					{"markUsed", []string{"usedOptions[option.Option] = true"}},
				})
				continue
			}
			vwTop = append(vwTop, c15TagStmts(c, []ast.Stmt{st}, []c15Rule{
				{"voterAddr", []string{"accAddr, accErr := k.authKeeper.AddressCodec().StringToBytes(msg.Voter)"}},
				{"rejectBadAddr", []string{"if accErr != nil {", "return nil"}},
				{"rejectEmpty", []string{"if len(msg.Options) == 0 {", "return nil, errors.Wrap("}},
				{"total0", []string{"totalWeight := math.LegacyNewDec(0)"}},
				{"used0", []string{"usedOptions := make(map[v1.VoteOption]bool)"}},
				{"rejectTotalGT1", []string{"if totalWeight.GT(math.LegacyNewDec(1)) {", "return nil, errors.Wrap(govtypes.ErrInvalidVote"}},
				{"rejectTotalLT1", []string{"if totalWeight.LT(math.LegacyNewDec(1)) {", "return nil, errors.Wrap(govtypes.ErrInvalidVote"}},
				{"sdkCtx", []string{"ctx := sdk.UnwrapSDKContext(goCtx)"}},
				{"addVote", []string{"err := k.Keeper.AddVote(ctx, msg.ProposalId, accAddr, msg.Options, msg.Metadata)"}},
				{"return", []string{"return &v1.MsgVoteWeightedResponse{}, nil"}},
			})...)
		}
	}
	list("sdkVoteWeightedSteps", "SDK x/gov/keeper/msg_server.go msgServer.VoteWeighted: its top-level statements in source order (plain error checks skipped)", vwTop)
	list("sdkVoteWeightedLoop", "… the body of its loop over the weighted options", vwLoop)
	// WeightedVoteOption.IsValid (x/gov/types/v1/vote.go): the conditions under which it returns false, in source order
	isValid := []string{"other:<WeightedVoteOption.IsValid not found>"}
	if vrel, err := filepath.Rel(c.repo, filepath.Join(mdir, "x", "gov", "types", "v1")); err == nil {
		if fd := c.findFunc(vrel, "WeightedVoteOption", "IsValid"); fd != nil && fd.Body != nil {
			isValid = c15TagStmts(c, fd.Body.List, []c15Rule{
				{"parseWeight", []string{"weight, err := math.LegacyNewDecFromStr(w.Weight)"}},
				{"falseUnlessPositiveAndAtMostOne", []string{"if !weight.IsPositive() || weight.GT(math.LegacyNewDec(1)) {", "return false"}},
				{"return ValidVoteOption", []string{"return ValidVoteOption(w.Option)"}},
			})
		}
	}
	list("sdkWeightedOptionValid", "SDK x/gov/types/v1/vote.go WeightedVoteOption.IsValid: its statements in source order (the `err != nil` test returns false)", isValid)

	// ---- RefundAndDeleteDeposits: `return keeper.IterateDeposits(ctx, proposalID, func(key, deposit) (bool, error) { … })`
	var rtags []string
	if rl := body("RefundAndDeleteDeposits"); len(rl) == 1 {
		if rs, ok := rl[0].(*ast.ReturnStmt); ok && strings.HasPrefix(squash(c.src(rs)), "return keeper.IterateDeposits(ctx, proposalID, func(") {
			if fb := c15FuncLitBody(rs); fb != nil {
				for _, st := range fb.List {
					if r2, ok := st.(*ast.ReturnStmt); ok {
						rtags = append(rtags, "return:"+squash(c.src(r2)))
						continue
					}
					rtags = append(rtags, c15TagStmts(c, []ast.Stmt{st}, []c15Rule{
						{"depositor", []string{"depositor := key.K2()"}},
						{"send", []string{"err := keeper.bankKeeper.SendCoinsFromModuleToAccount(ctx, types.ModuleName, depositor, deposit.Amount)"}},
						{"remove", []string{"err = keeper.Deposits.Remove(ctx, key)"}},
					})...)
				}
			}
		}
	}
	if rtags == nil {
		rtags = []string{"other:<RefundAndDeleteDeposits is not a single IterateDeposits walk>"}
	}
	list("sdkRefundCallback", "SDK RefundAndDeleteDeposits: the statements of the callback of its single IterateDeposits(proposalID) walk", rtags)

	// ---- DeleteAndBurnDeposits
	bl := body("DeleteAndBurnDeposits")
	var btop, bcb []string
	for _, st := range bl {
		src := squash(c.src(st))
		switch {
		case src == "coinsToBurn := sdk.NewCoins()":
			btop = append(btop, "sum0")
		case strings.HasPrefix(src, "err := keeper.IterateDeposits(ctx, proposalID, func("):
			btop = append(btop, "walk")
			if fb := c15FuncLitBody(st); fb != nil {
				for _, s2 := range fb.List {
					s2s := squash(c.src(s2))
					switch s2s {
					case "coinsToBurn = coinsToBurn.Add(deposit.Amount...)":
						bcb = append(bcb, "accumulate")
					case "return false, keeper.Deposits.Remove(ctx, key)":
						bcb = append(bcb, "remove")
					default:
						bcb = append(bcb, "other:"+s2s)
					}
				}
			}
		case src == "return keeper.bankKeeper.BurnCoins(ctx, types.ModuleName, coinsToBurn)":
			btop = append(btop, "burnSum")
		default:
			if is, ok := st.(*ast.IfStmt); ok && is.Init == nil && squash(c.src(is.Cond)) == "err != nil" {
				continue
			}
			btop = append(btop, "other:"+src)
		}
	}
	list("sdkBurnSteps", "SDK DeleteAndBurnDeposits: top-level statements in source order", btop)
	list("sdkBurnCallback", "… the statements of the callback of its walk", bcb)
}

// c15ActivateSteps: the top-level statements of the fx keeper's ActivateVotingPeriod (x/gov/keeper/proposal.go, /repo) in
// source order, as tags the model interprets (`activateRun`): the start is the block time, the period is the default of the
// kind and then the custom one of the message type, the end is START + period, the proposal is stored with both and the
// status, the inactive entry is removed, the active entry is written under the stored end.
func c15ActivateSteps(c *ctxT, kdir string) []string {
	fd := c.findFunc(kdir, "Keeper", "ActivateVotingPeriod")
	if fd == nil || fd.Body == nil {
		return []string{"other:<ActivateVotingPeriod not found>"}
	}
	var out []string
	for _, st := range fd.Body.List {
		src := squash(c.src(st))
		if is, ok := st.(*ast.IfStmt); ok && is.Init == nil && squash(c.src(is.Cond)) == "err != nil" {
			continue
		}
		switch src {
		case "sdkCtx := sdk.UnwrapSDKContext(ctx)":
			out = append(out, "sdkCtx")
		case "startTime := sdkCtx.BlockHeader().Time":
			out = append(out, "startTime=blockTime")
		case "proposal.VotingStartTime = &startTime":
			out = append(out, "setVotingStart")
		case "var votingPeriod *time.Duration":
			out = append(out, "var")
		case "params, err := keeper.Params.Get(ctx)":
			out = append(out, "getParams")
		case "if proposal.Expedited { votingPeriod = params.ExpeditedVotingPeriod } else { votingPeriod = params.VotingPeriod }":
			out = append(out, "periodByExpedited")
		case "votingPeriod = keeper.GetCustomMsgVotingPeriod(ctx, votingPeriod, proposal)":
			out = append(out, "customPeriod")
		case "endTime := proposal.VotingStartTime.Add(*votingPeriod)":
			out = append(out, "endTime=start+period")
		case "proposal.VotingEndTime = &endTime":
			out = append(out, "setVotingEnd")
		case "proposal.Status = v1.StatusVotingPeriod":
			out = append(out, "setStatusVoting")
		case "err = keeper.SetProposal(ctx, proposal)":
			out = append(out, "setProposal")
		case "err = keeper.InactiveProposalsQueue.Remove(ctx, collections.Join(*proposal.DepositEndTime, proposal.Id))":
			out = append(out, "removeInactive")
		case "return keeper.ActiveProposalsQueue.Set(ctx, collections.Join(*proposal.VotingEndTime, proposal.Id), proposal.Id)":
			out = append(out, "setActive:votingEnd")
		default:
			if len(src) > 160 {
				src = src[:160] + "…"
			}
			out = append(out, "other:"+src)
		}
	}
	return out
}
