package main

// C12 (round 4): where the values come from that the checkpoint encoders cast and pad.  Emits Gen/C12Env.lean.
//
//   * fxtypes.StrToByte32 (gravity id / method tag string -> bytes32): array length, the length guard, the copy;
//   * the checks Params.ValidateBasic makes on the gravity id, and every numeric lower bound it enforces;
//   * CalExternalTimeoutHeight as a statement list over an expression tree (uint64 arithmetic), the two timeout callbacks;
//   * the builders of the three signed objects (BuildOutgoingTxBatch, BuildOutgoingBridgeCall, GetCurrentOracleSet +
//     NewOracleSet + AddOracleSetRequest): composite-literal fields with the expression assigned, the local definitions
//     those expressions name, the guards on them, the power normalisation chain, the oracle-set nonce bookkeeping;
//   * autoIncrementID (default, increment, what is returned).

import (
	"fmt"
	"go/ast"
	"go/token"
	"strconv"
	"strings"
)

func init() { register(extractC12Env) }

func c12ws(s string) string { return strings.TrimSpace(solWS.ReplaceAllString(s, " ")) }

func c12IntLit(e ast.Expr) (uint64, bool) {
	switch x := e.(type) {
	case *ast.BasicLit:
		if x.Kind == token.INT {
			v, err := strconv.ParseUint(strings.ReplaceAll(x.Value, "_", ""), 0, 64)
			return v, err == nil
		}
	case *ast.ParenExpr:
		return c12IntLit(x.X)
	}
	return 0, false
}

// ---- expression trees --------------------------------------------------------------------------------------------------

func (c *ctxT) c12TExpr(e ast.Expr) string {
	switch x := e.(type) {
	case *ast.ParenExpr:
		return c.c12TExpr(x.X)
	case *ast.Ident:
		return ".var " + leanStr(x.Name)
	case *ast.BasicLit:
		if v, ok := c12IntLit(x); ok {
			return fmt.Sprintf(".lit %d", v)
		}
	case *ast.SelectorExpr:
		if id, ok := x.X.(*ast.Ident); ok {
			return ".sel " + leanStr(id.Name) + " " + leanStr(x.Sel.Name)
		}
	case *ast.BinaryExpr:
		return ".bin " + leanStr(x.Op.String()) + " (" + c.c12TExpr(x.X) + ") (" + c.c12TExpr(x.Y) + ")"
	case *ast.CallExpr:
		fn := c12ws(c.src(x.Fun))
		if len(x.Args) == 1 {
			switch fn {
			case "uint64", "int64", "uint32", "int", "uint":
				return ".conv " + leanStr(fn) + " (" + c.c12TExpr(x.Args[0]) + ")"
			}
		}
		var args []string
		for _, a := range x.Args {
			args = append(args, leanStr(c12ws(c.src(a))))
		}
		return ".call " + leanStr(fn) + " " + leanList(args)
	}
	return ".other " + leanStr(c12ws(c.src(e)))
}

func (c *ctxT) c12TStmts(stmts []ast.Stmt) []string {
	var out []string
	for _, st := range stmts {
		switch s := st.(type) {
		case *ast.AssignStmt:
			if len(s.Lhs) == 1 && len(s.Rhs) == 1 && exprIdent(s.Lhs[0]) != "" {
				out = append(out, ".assign "+leanStr(exprIdent(s.Lhs[0]))+" ("+c.c12TExpr(s.Rhs[0])+")")
				continue
			}
		case *ast.IfStmt:
			if s.Init == nil && s.Else == nil && len(s.Body.List) == 1 {
				if r, ok := s.Body.List[0].(*ast.ReturnStmt); ok && len(r.Results) == 1 {
					out = append(out, ".ifRet ("+c.c12TExpr(s.Cond)+") ("+c.c12TExpr(r.Results[0])+")")
					continue
				}
			}
		case *ast.ReturnStmt:
			if len(s.Results) == 1 {
				out = append(out, ".ret ("+c.c12TExpr(s.Results[0])+")")
				continue
			}
		}
		out = append(out, ".other "+leanStr(c12ws(c.src(st))))
	}
	return out
}

// ---- builders ----------------------------------------------------------------------------------------------------------

type c12Local struct {
	Name string   `json:"name"`
	Fn   string   `json:"fn"` // callee when the right-hand side is a call, "" otherwise (then Args = [source text])
	Args []string `json:"args"`
}

type c12Builder struct {
	Func   string      `json:"func"`
	Type   string      `json:"type"`
	Fields [][2]string `json:"fields"` // composite literal: field, expression
	Locals []c12Local  `json:"locals"` // name := callee(args…) (single-valued definitions of the function body, in order)
	Guards []string    `json:"guards"` // conditions of `if … { return …, err }`
	Params []string    `json:"params"`
}

func (c *ctxT) c12ReadBuilder(fd *ast.FuncDecl, typ string) c12Builder {
	b := c12Builder{Func: fd.Name.Name, Type: typ}
	for _, p := range fd.Type.Params.List {
		for _, n := range p.Names {
			b.Params = append(b.Params, n.Name)
		}
	}
	ast.Inspect(fd.Body, func(n ast.Node) bool {
		switch x := n.(type) {
		case *ast.AssignStmt:
			if x.Tok == token.DEFINE && len(x.Lhs) == 1 && len(x.Rhs) == 1 && exprIdent(x.Lhs[0]) != "" {
				if cl, ok := x.Rhs[0].(*ast.UnaryExpr); ok {
					if _, isLit := cl.X.(*ast.CompositeLit); isLit {
						return true
					}
				}
				l := c12Local{Name: exprIdent(x.Lhs[0])}
				if ce, ok := x.Rhs[0].(*ast.CallExpr); ok {
					l.Fn = c12ws(c.src(ce.Fun))
					for _, a := range ce.Args {
						l.Args = append(l.Args, c12ws(c.src(a)))
					}
				} else {
					l.Args = []string{c12ws(c.src(x.Rhs[0]))}
				}
				b.Locals = append(b.Locals, l)
			}
		case *ast.IfStmt:
			if x.Init == nil && len(x.Body.List) == 1 {
				if _, ok := x.Body.List[0].(*ast.ReturnStmt); ok {
					b.Guards = append(b.Guards, c12ws(c.src(x.Cond)))
				}
			}
		case *ast.CompositeLit:
			if typeName(x.Type) == typ && len(b.Fields) == 0 {
				for _, el := range x.Elts {
					if kv, ok := el.(*ast.KeyValueExpr); ok {
						b.Fields = append(b.Fields, [2]string{exprIdent(kv.Key), c12ws(c.src(kv.Value))})
					}
				}
			}
		}
		return true
	})
	// keep the definitions of the variables the literal names, and the guards that mention them
	used := map[string]bool{}
	for _, f := range b.Fields {
		used[f[1]] = true
	}
	var ls []c12Local
	for _, l := range b.Locals {
		if used[l.Name] {
			ls = append(ls, l)
		}
	}
	b.Locals = ls
	var gs []string
	for _, g := range b.Guards {
		for v := range used {
			if strings.HasPrefix(g, v+" ") {
				gs = append(gs, g)
			}
		}
	}
	b.Guards = gs
	return b
}

// method chain `a.M1(x).M2(y).M3()` -> [(root, ""), (M1, x), (M2, y), (M3, "")]
func (c *ctxT) c12Chain(e ast.Expr) [][2]string {
	if ce, ok := e.(*ast.CallExpr); ok {
		arg := ""
		if len(ce.Args) > 0 {
			var as []string
			for _, a := range ce.Args {
				as = append(as, c12ws(c.src(a)))
			}
			arg = strings.Join(as, ", ")
		}
		if se, ok := ce.Fun.(*ast.SelectorExpr); ok {
			if _, isCall := se.X.(*ast.CallExpr); isCall {
				return append(c.c12Chain(se.X), [2]string{se.Sel.Name, arg})
			}
			return [][2]string{{c12ws(c.src(ce.Fun)), arg}}
		}
		return [][2]string{{c12ws(c.src(ce.Fun)), arg}}
	}
	return [][2]string{{"?" + c12ws(c.src(e)), ""}}
}

func extractC12Env(c *ctxT) {
	var sb strings.Builder
	sb.WriteString("namespace FxVerif.Gen.C12Env\n\n")

	// ---- 1. StrToByte32 ----
	type str32T struct {
		ArrayLen     uint64   `json:"arrayLen"`
		GuardSubject string   `json:"guardSubject"`
		GuardOp      string   `json:"guardOp"`
		GuardBound   uint64   `json:"guardBound"`
		CopyDst      string   `json:"copyDst"`
		CopySrc      string   `json:"copySrc"`
		Stmts        []string `json:"stmts"`
	}
	var s32 str32T
	if fd := c.findFunc("types", "", "StrToByte32"); fd != nil && fd.Body != nil {
		param := ""
		if len(fd.Type.Params.List) > 0 && len(fd.Type.Params.List[0].Names) > 0 {
			param = fd.Type.Params.List[0].Names[0].Name
		}
		for _, st := range fd.Body.List {
			s32.Stmts = append(s32.Stmts, c12ws(c.src(st)))
			switch s := st.(type) {
			case *ast.DeclStmt:
				if gd, ok := s.Decl.(*ast.GenDecl); ok {
					for _, sp := range gd.Specs {
						if vs, ok := sp.(*ast.ValueSpec); ok {
							if at, ok := vs.Type.(*ast.ArrayType); ok && at.Len != nil {
								if v, ok := c12IntLit(at.Len); ok {
									s32.ArrayLen = v
								}
							}
						}
					}
				}
			case *ast.IfStmt:
				if be, ok := s.Cond.(*ast.BinaryExpr); ok {
					if v, ok := c12IntLit(be.Y); ok {
						s32.GuardSubject = strings.ReplaceAll(c12ws(c.src(be.X)), param, "s")
						s32.GuardOp = be.Op.String()
						s32.GuardBound = v
					}
				}
			case *ast.ExprStmt:
				if ce, ok := s.X.(*ast.CallExpr); ok && exprIdent(ce.Fun) == "copy" && len(ce.Args) == 2 {
					s32.CopyDst = c12ws(c.src(ce.Args[0]))
					s32.CopySrc = strings.ReplaceAll(c12ws(c.src(ce.Args[1])), param, "s")
				}
			}
		}
	}
	c.facts["C12.str32"] = s32
	sb.WriteString("/-- `fxtypes.StrToByte32` (gravity id / method tag text ↦ the `bytes32` the checkpoint packs): length of the result\narray, the length guard (`if <subject> <op> <bound> { return out, error }`), the `copy(dst, src)`, the whole body -/\n")
	sb.WriteString("structure Str32 where\n  arrayLen : Nat\n  guardSubject : String\n  guardOp : String\n  guardBound : Nat\n  copyDst : String\n  copySrc : String\n  stmts : List String\n  deriving DecidableEq, Repr\n\n")
	sb.WriteString(fmt.Sprintf("def str32 : Str32 := ⟨%d, %s, %s, %d, %s, %s, %s⟩\n\n", s32.ArrayLen, leanStr(s32.GuardSubject), leanStr(s32.GuardOp),
		s32.GuardBound, leanStr(s32.CopyDst), leanStr(s32.CopySrc), leanStrs(s32.Stmts)))

	// ---- 2. Params.ValidateBasic: gravity id checks and numeric lower bounds ----
	var gidChecks [][2]string
	type boundT struct {
		Field string `json:"field"`
		Op    string `json:"op"`
		N     uint64 `json:"n"`
	}
	var bounds []boundT
	if fd := c.findFunc("x/crosschain/types", "Params", "ValidateBasic"); fd != nil {
		// the receiver of Params.ValidateBasic is `m *Params`; several types in the package have a ValidateBasic on `m`
		for _, f := range c.funcDecls("x/crosschain/types") {
			if f.Name.Name == "ValidateBasic" && f.Recv != nil && len(f.Recv.List) > 0 && typeName(f.Recv.List[0].Type) == "Params" {
				fd = f
			}
		}
		if fd.Body != nil {
			for _, st := range fd.Body.List {
				is, ok := st.(*ast.IfStmt)
				if !ok {
					continue
				}
				cond := c12ws(c.src(is.Cond))
				if is.Init != nil {
					init := c12ws(c.src(is.Init))
					if strings.Contains(init, "GravityId") {
						if as, ok := is.Init.(*ast.AssignStmt); ok && len(as.Rhs) == 1 {
							gidChecks = append(gidChecks, [2]string{c12ws(c.src(as.Rhs[0])), "failIfErr:" + cond})
						}
					}
					continue
				}
				if strings.Contains(cond, "GravityId") {
					gidChecks = append(gidChecks, [2]string{cond, "failIf"})
					continue
				}
				if be, ok := is.Cond.(*ast.BinaryExpr); ok {
					if se, ok := be.X.(*ast.SelectorExpr); ok && exprIdent(se.X) == "m" {
						if v, ok := c12IntLit(be.Y); ok {
							bounds = append(bounds, boundT{se.Sel.Name, be.Op.String(), v})
						}
					}
				}
			}
		}
	}
	c.facts["C12.gidParamChecks"] = gidChecks
	c.facts["C12.paramBounds"] = bounds
	sb.WriteString("/-- the checks `Params.ValidateBasic` makes on the gravity id, in source order: (`if <cond>` ↦ \"failIf\") or\n(`if _, err := <call>; <cond>` ↦ \"failIfErr:<cond>\") -/\n")
	sb.WriteString("def gidParamChecks : List (String × String) := " + leanPairs(gidChecks) + "\n\n")
	var bs []string
	for _, b := range bounds {
		bs = append(bs, fmt.Sprintf("(%s, %s, %d)", leanStr(b.Field), leanStr(b.Op), b.N))
	}
	sb.WriteString("/-- every `if m.<Field> <op> <literal> { return error }` of `Params.ValidateBasic`: the values REJECTED -/\n")
	sb.WriteString("def paramBounds : List (String × String × Nat) := " + leanList(bs) + "\n\n")

	// ---- 3. CalExternalTimeoutHeight ----
	sb.WriteString("/-- expression of `CalExternalTimeoutHeight` (all operands `uint64`): variables, `root.Field` selections, integer literals,\nconversions, binary operators, calls (arguments as source text) -/\n")
	sb.WriteString("inductive TExpr where\n  | var (name : String)\n  | sel (root field : String)\n  | lit (n : Nat)\n  | conv (ty : String) (e : TExpr)\n  | bin (op : String) (a b : TExpr)\n  | call (fn : String) (args : List String)\n  | other (src : String)\n  deriving DecidableEq, Repr\n\n")
	sb.WriteString("inductive TStmt where\n  | assign (lhs : String) (e : TExpr)\n  | ifRet (cond ret : TExpr)\n  | ret (e : TExpr)\n  | other (src : String)\n  deriving DecidableEq, Repr\n\n")
	var tprog, tparams []string
	if fd := c.findFunc("x/crosschain/keeper", "Keeper", "CalExternalTimeoutHeight"); fd != nil && fd.Body != nil {
		tprog = c.c12TStmts(fd.Body.List)
		for _, p := range fd.Type.Params.List {
			for _, n := range p.Names {
				tparams = append(tparams, n.Name)
			}
		}
	}
	c.facts["C12.timeoutProg"] = tprog
	sb.WriteString("def timeoutParams : List String := " + leanStrs(tparams) + "\n\n")
	sb.WriteString("def timeoutProg : List TStmt := [\n  " + strings.Join(tprog, ",\n  ") + "\n]\n\n")
	var cbs [][2]string
	for _, fd := range c.funcDecls("x/crosschain/keeper") {
		if fd.Recv == nil && fd.Body != nil && len(fd.Body.List) == 1 && fd.Type.Params != nil && len(fd.Type.Params.List) == 1 &&
			typeName(fd.Type.Params.List[0].Type) == "Params" && fd.Type.Results != nil && len(fd.Type.Results.List) == 1 &&
			exprIdent(fd.Type.Results.List[0].Type) == "uint64" {
			if r, ok := fd.Body.List[0].(*ast.ReturnStmt); ok && len(r.Results) == 1 {
				cbs = append(cbs, [2]string{fd.Name.Name, c12ws(c.src(r.Results[0]))})
			}
		}
	}
	c.facts["C12.timeoutCallbacks"] = cbs
	sb.WriteString("/-- the functions `func(params types.Params) uint64` of the keeper package: name ↦ the expression returned -/\n")
	sb.WriteString("def timeoutCallbacks : List (String × String) := " + leanPairs(cbs) + "\n\n")

	// ---- 4. builders ----
	var builders []c12Builder
	for _, spec := range [][3]string{{"x/crosschain/keeper", "BuildOutgoingTxBatch", "OutgoingTxBatch"}, {"x/crosschain/keeper", "BuildOutgoingBridgeCall", "OutgoingBridgeCall"},
		{"x/crosschain/types", "NewOracleSet", "OracleSet"}} {
		recv := "Keeper"
		if spec[0] == "x/crosschain/types" {
			recv = ""
		}
		if fd := c.findFunc(spec[0], recv, spec[1]); fd != nil && fd.Body != nil {
			builders = append(builders, c.c12ReadBuilder(fd, spec[2]))
		} else {
			builders = append(builders, c12Builder{Func: spec[1], Type: spec[2]})
		}
	}
	c.facts["C12.builders"] = builders
	sb.WriteString("/-- a function that builds one of the three signed objects: its parameters, the composite literal of the object (field,\nexpression), the `name := callee(args…)` definitions of the variables the literal names, the conditions of its `if … { return …, err }` exits -/\n")
	sb.WriteString("structure Builder where\n  func : String\n  type : String\n  params : List String\n  fields : List (String × String)\n  locals : List (String × String × List String)\n  guards : List String\n  deriving DecidableEq, Repr\n\n")
	var bl []string
	for _, b := range builders {
		var ll []string
		for _, l := range b.Locals {
			ll = append(ll, "("+leanStr(l.Name)+", "+leanStr(l.Fn)+", "+leanStrs(l.Args)+")")
		}
		bl = append(bl, fmt.Sprintf("⟨%s, %s, %s, %s, %s, %s⟩", leanStr(b.Func), leanStr(b.Type), leanStrs(b.Params), leanPairs(b.Fields), leanList(ll), leanStrs(b.Guards)))
	}
	sb.WriteString("def builders : List Builder := [\n  " + strings.Join(bl, ",\n  ") + "\n]\n\n")

	// GetCurrentOracleSet: the power normalisation chain, the nonce expression, the NewOracleSet call; AddOracleSetRequest: what it records
	var norm [][2]string
	var osLocals [][2]string
	osRet := ""
	if fd := c.findFunc("x/crosschain/keeper", "Keeper", "GetCurrentOracleSet"); fd != nil && fd.Body != nil {
		ast.Inspect(fd.Body, func(n ast.Node) bool {
			switch x := n.(type) {
			case *ast.AssignStmt:
				if len(x.Lhs) == 1 && len(x.Rhs) == 1 {
					lhs := c12ws(c.src(x.Lhs[0]))
					if x.Tok == token.ASSIGN && strings.HasSuffix(lhs, ".Power") {
						norm = c.c12Chain(x.Rhs[0])
					}
					if x.Tok == token.DEFINE && exprIdent(x.Lhs[0]) != "" {
						osLocals = append(osLocals, [2]string{exprIdent(x.Lhs[0]), c12ws(c.src(x.Rhs[0]))})
					}
					if x.Tok == token.ADD_ASSIGN {
						osLocals = append(osLocals, [2]string{lhs + " +=", c12ws(c.src(x.Rhs[0]))})
					}
				}
			case *ast.ReturnStmt:
				if len(x.Results) == 1 {
					osRet = c12ws(c.src(x.Results[0]))
				}
			}
			return true
		})
	}
	var addReq []string
	if fd := c.findFunc("x/crosschain/keeper", "Keeper", "AddOracleSetRequest"); fd != nil && fd.Body != nil {
		for _, st := range fd.Body.List {
			switch s := st.(type) {
			case *ast.IfStmt:
				addReq = append(addReq, "if "+c12ws(c.src(s.Cond)))
			case *ast.ExprStmt:
				if ce, ok := s.X.(*ast.CallExpr); ok {
					if name, _, ok := keeperCall(ce); ok {
						var as []string
						for _, a := range ce.Args[1:] {
							as = append(as, c12ws(c.src(a)))
						}
						addReq = append(addReq, name+"("+strings.Join(as, ", ")+")")
					}
				}
			}
		}
	}
	c.facts["C12.powerNorm"] = norm
	c.facts["C12.oracleSetLocals"] = osLocals
	c.facts["C12.addOracleSetRequest"] = addReq
	sb.WriteString("/-- `GetCurrentOracleSet`: the method chain assigned to a member's `.Power` (root call, then (method, argument) …) -/\n")
	sb.WriteString("def powerNorm : List (String × String) := " + leanPairs(norm) + "\n\n")
	sb.WriteString("/-- `GetCurrentOracleSet`: its `:=` definitions and `+=` accumulations in order, and what it returns -/\n")
	sb.WriteString("def oracleSetLocals : List (String × String) := " + leanPairs(osLocals) + "\n")
	sb.WriteString("def oracleSetReturn : String := " + leanStr(osRet) + "\n\n")
	sb.WriteString("/-- `AddOracleSetRequest`: its guard and the keeper calls it makes (ctx dropped), in order -/\n")
	sb.WriteString("def addOracleSetRequest : List String := " + leanStrs(addReq) + "\n\n")

	// ---- 5. autoIncrementID ----
	var def_, inc uint64
	retVar, incOf := "", ""
	var aiStmts []string
	if fd := c.findFunc("x/crosschain/keeper", "Keeper", "autoIncrementID"); fd != nil && fd.Body != nil {
		for _, st := range fd.Body.List {
			aiStmts = append(aiStmts, c12ws(c.src(st)))
		}
		ast.Inspect(fd.Body, func(n ast.Node) bool {
			switch x := n.(type) {
			case *ast.ValueSpec:
				if len(x.Values) == 1 {
					if v, ok := c12IntLit(x.Values[0]); ok {
						def_ = v
					}
				}
			case *ast.CallExpr:
				if strings.HasSuffix(c12ws(c.src(x.Fun)), "Uint64ToBigEndian") && len(x.Args) == 1 {
					if be, ok := x.Args[0].(*ast.BinaryExpr); ok && be.Op == token.ADD {
						if v, ok := c12IntLit(be.Y); ok {
							inc, incOf = v, exprIdent(be.X)
						}
					}
				}
			case *ast.ReturnStmt:
				if len(x.Results) == 1 {
					retVar = exprIdent(x.Results[0])
				}
			}
			return true
		})
	}
	c.facts["C12.autoIncrement"] = map[string]any{"default": def_, "inc": inc, "ret": retVar, "incOf": incOf}
	sb.WriteString("/-- `autoIncrementID`: the id used when nothing is stored, the increment written back (`Uint64ToBigEndian(<var> + inc)`), the\nvariable incremented, the variable returned, the body -/\n")
	sb.WriteString("structure AutoIncr where\n  default : Nat\n  inc : Nat\n  incOf : String\n  ret : String\n  stmts : List String\n  deriving DecidableEq, Repr\n\n")
	sb.WriteString(fmt.Sprintf("def autoIncr : AutoIncr := ⟨%d, %d, %s, %s, %s⟩\n\n", def_, inc, leanStr(incOf), leanStr(retVar), leanStrs(aiStmts)))

	// ---- 6. what a genesis export carries ----
	type expT struct {
		Field string `json:"field"`
		Call  string `json:"call"`
		Scope string `json:"scope"`
	}
	var exps []expT
	if fd := c.findFunc("x/crosschain/keeper", "", "ExportGenesis"); fd != nil && fd.Body != nil {
		stateVar := ""
		var walk func(stmts []ast.Stmt, scope string)
		record := func(lhs ast.Expr, call, scope string) {
			if se, ok := lhs.(*ast.SelectorExpr); ok && exprIdent(se.X) == stateVar && stateVar != "" {
				exps = append(exps, expT{se.Sel.Name, call, scope})
			}
		}
		callText := func(ce *ast.CallExpr) string {
			var as []string
			for _, a := range ce.Args {
				if _, isFn := a.(*ast.FuncLit); isFn || exprIdent(a) == "ctx" {
					continue
				}
				as = append(as, c12ws(c.src(a)))
			}
			return c12ws(c.src(ce.Fun)) + "(" + strings.Join(as, ", ") + ")"
		}
		walk = func(stmts []ast.Stmt, scope string) {
			for _, st := range stmts {
				switch s := st.(type) {
				case *ast.AssignStmt:
					if len(s.Rhs) == 1 {
						if ue, ok := s.Rhs[0].(*ast.UnaryExpr); ok && len(s.Lhs) == 1 {
							if cl, ok := ue.X.(*ast.CompositeLit); ok && typeName(cl.Type) == "GenesisState" {
								stateVar = exprIdent(s.Lhs[0])
								for _, el := range cl.Elts {
									if kv, ok := el.(*ast.KeyValueExpr); ok {
										call := c12ws(c.src(kv.Value))
										if ce, ok := kv.Value.(*ast.CallExpr); ok {
											call = callText(ce)
										}
										exps = append(exps, expT{exprIdent(kv.Key), call, scope})
									}
								}
								continue
							}
						}
						call := c12ws(c.src(s.Rhs[0]))
						if ce, ok := s.Rhs[0].(*ast.CallExpr); ok {
							call = callText(ce)
						}
						record(s.Lhs[0], call, scope)
					}
				case *ast.ExprStmt:
					if ce, ok := s.X.(*ast.CallExpr); ok {
						for _, a := range ce.Args {
							if fl, ok := a.(*ast.FuncLit); ok {
								ast.Inspect(fl.Body, func(n ast.Node) bool {
									if as, ok := n.(*ast.AssignStmt); ok && len(as.Lhs) == 1 {
										record(as.Lhs[0], callText(ce), scope)
									}
									return true
								})
							}
						}
					}
				case *ast.RangeStmt:
					walk(s.Body.List, c12ws(c.src(s.X)))
				case *ast.IfStmt:
					if s.Init != nil {
						if as, ok := s.Init.(*ast.AssignStmt); ok && len(as.Rhs) == 1 {
							if ce, ok := as.Rhs[0].(*ast.CallExpr); ok {
								for _, b := range s.Body.List {
									if bs, ok := b.(*ast.AssignStmt); ok && len(bs.Lhs) == 1 {
										record(bs.Lhs[0], callText(ce), scope)
									}
								}
								continue
							}
						}
					}
					walk(s.Body.List, scope)
				}
			}
		}
		walk(fd.Body.List, "")
	}
	var stateFields []string
	if st, ok := c.structs("x/crosschain/types")["GenesisState"]; ok {
		for _, f := range st.Fields.List {
			for _, n := range f.Names {
				stateFields = append(stateFields, n.Name)
			}
		}
	}
	var imports []string
	if fd := c.findFunc("x/crosschain/keeper", "", "InitGenesis"); fd != nil && fd.Body != nil {
		seen := map[string]bool{}
		ast.Inspect(fd.Body, func(n ast.Node) bool {
			if se, ok := n.(*ast.SelectorExpr); ok && exprIdent(se.X) == "state" && !seen[se.Sel.Name] {
				seen[se.Sel.Name] = true
				imports = append(imports, se.Sel.Name)
			}
			return true
		})
	}
	c.facts["C12.genesisExports"] = exps
	c.facts["C12.genesisStateFields"] = stateFields
	c.facts["C12.genesisImports"] = imports
	var el []string
	for _, e := range exps {
		el = append(el, "("+leanStr(e.Field)+", "+leanStr(e.Call)+", "+leanStr(e.Scope)+")")
	}
	sb.WriteString("/-- `ExportGenesis`: every field of the exported state with the keeper call that fills it (ctx and callbacks dropped) and\nthe `range` expression it sits under (\"\" = none) -/\n")
	sb.WriteString("def genesisExports : List (String × String × String) := [\n  " + strings.Join(el, ",\n  ") + "\n]\n\n")
	sb.WriteString("/-- the fields of `types.GenesisState` -/\ndef genesisStateFields : List String := " + leanStrs(stateFields) + "\n\n")
	sb.WriteString("/-- the fields of the state `InitGenesis` reads, in order of first use -/\ndef genesisImports : List String := " + leanStrs(imports) + "\n\n")

	sb.WriteString("end FxVerif.Gen.C12Env\n")
	c.write("C12Env.lean", sb.String())
}
