package main

import (
	"fmt"
	"go/ast"
	"go/token"
	"strconv"
	"strings"
)

// C19: facts of the IBC middleware / relation store read from the AST:
//   - key prefix written by SetIBCTransferRelation, deleted inside IbcRefund, and deleted by the erc20-keeper method
//     that AfterIBCAckSuccess calls;
//   - shape of IbcRefund (guarded by the delete, then ConvertCoin);
//   - which branch of OnAcknowledgementPacket / OnTimeoutPacket refunds;
//   - order of calls in the middleware's OnRecvPacket and that a hook error becomes an error acknowledgement;
//   - ibcTransfer sets the relation only for non-origin tokens, after Transfer;
//   - IntermediateSender's format string, its arguments and the arguments of address.Hash.
func init() { register(extractC19) }

// keeperCalls returns the names (last selector component) of calls whose receiver chain starts with one of roots.
func (c *ctxT) selCalls(n ast.Node, roots ...string) []string {
	var out []string
	if n == nil {
		return out
	}
	ast.Inspect(n, func(m ast.Node) bool {
		ce, ok := m.(*ast.CallExpr)
		if !ok {
			return true
		}
		sel, ok := ce.Fun.(*ast.SelectorExpr)
		if !ok {
			return true
		}
		src := c.src(sel.X)
		for _, r := range roots {
			if src == r || strings.HasPrefix(src, r+".") {
				out = append(out, sel.Sel.Name)
				break
			}
		}
		return true
	})
	return out
}

// c19KeyPrefix: the byte value of the prefix variable used by the key function that `fn` (an erc20 keeper method) calls.
func (c *ctxT) c19KeyPrefix(method string) int {
	fd := c.findFunc("x/erc20/keeper", "Keeper", method)
	if fd == nil {
		return -1
	}
	keyFn := ""
	for _, n := range c.selCalls(fd.Body, "types") {
		if strings.HasPrefix(n, "Get") && strings.HasSuffix(n, "Key") {
			keyFn = n
			break
		}
	}
	if keyFn == "" {
		return -1
	}
	kf := c.findFunc("x/erc20/types", "", keyFn)
	if kf == nil {
		return -1
	}
	prefixVar := ""
	ast.Inspect(kf.Body, func(m ast.Node) bool {
		if id, ok := m.(*ast.Ident); ok && strings.HasPrefix(id.Name, "KeyPrefix") && prefixVar == "" {
			prefixVar = id.Name
		}
		return true
	})
	p := c.pkg("x/erc20/types")
	for _, fn := range sortedKeys(p) {
		for _, d := range p[fn].Decls {
			gd, ok := d.(*ast.GenDecl)
			if !ok || gd.Tok != token.VAR {
				continue
			}
			for _, sp := range gd.Specs {
				vs := sp.(*ast.ValueSpec)
				for i, nm := range vs.Names {
					if nm.Name != prefixVar || i >= len(vs.Values) {
						continue
					}
					if cl, ok := vs.Values[i].(*ast.CompositeLit); ok && len(cl.Elts) == 1 {
						if bl, ok := cl.Elts[0].(*ast.BasicLit); ok {
							v, err := strconv.ParseInt(bl.Value, 0, 32)
							if err == nil {
								return int(v)
							}
						}
					}
				}
			}
		}
	}
	return -1
}


func extractC19(c *ctxT) {
	var sb strings.Builder
	sb.WriteString("namespace FxVerif.Gen.C19\n")
	nat := func(name string, v int, doc string) {
		if v < 0 {
			v = 255 // not found: a value no prefix has, so the proofs break rather than the translator
		}
		fmt.Fprintf(&sb, "/-- %s -/\ndef %s : Nat := %d\n", doc, name, v)
		c.facts["C19."+name] = v
	}
	strs := func(name string, v []string, doc string) {
		fmt.Fprintf(&sb, "/-- %s -/\ndef %s : List String := %s\n", doc, name, leanStrs(v))
		c.facts["C19."+name] = v
	}
	str := func(name, v, doc string) {
		fmt.Fprintf(&sb, "/-- %s -/\ndef %s : String := %s\n", doc, name, leanStr(v))
		c.facts["C19."+name] = v
	}
	boolean := func(name string, v bool, doc string) {
		fmt.Fprintf(&sb, "/-- %s -/\ndef %s : Bool := %v\n", doc, name, v)
		c.facts["C19."+name] = v
	}

	nat("relationSetPrefix", c.c19KeyPrefix("SetIBCTransferRelation"), "key prefix byte written by SetIBCTransferRelation")
	nat("refundDeletePrefix", c.c19KeyPrefix("DeleteIBCTransferRelation"), "prefix of the key deleted inside IbcRefund (DeleteIBCTransferRelation)")

	ackCall := ""
	if fd := c.findFunc("x/crosschain/keeper", "Keeper", "AfterIBCAckSuccess"); fd != nil {
		if cs := c.selCalls(fd.Body, "k.erc20Keeper"); len(cs) > 0 {
			ackCall = cs[0]
		}
	}
	str("ackSuccessCall", ackCall, "erc20 keeper method called by AfterIBCAckSuccess")
	nat("ackSuccessDeletePrefix", c.c19KeyPrefix(ackCall), "prefix of the key that method deletes")

	var refundCalls []string
	guarded := false
	if fd := c.findFunc("x/erc20/keeper", "Keeper", "IbcRefund"); fd != nil {
		refundCalls = c.selCalls(fd.Body, "k")
		if len(fd.Body.List) > 0 {
			if is, ok := fd.Body.List[0].(*ast.IfStmt); ok {
				if u, ok := is.Cond.(*ast.UnaryExpr); ok && u.Op == token.NOT && strings.Contains(c.src(u.X), "DeleteIBCTransferRelation") && endsWithReturn(is.Body) {
					guarded = true
				}
			}
		}
	}
	strs("ibcRefundCalls", refundCalls, "IbcRefund: keeper calls in order")
	boolean("ibcRefundGuardedByDelete", guarded, "IbcRefund starts with `if !k.DeleteIBCTransferRelation(..) { return nil }`")

	var toCalls []string
	if fd := c.findFunc("x/ibc/middleware/keeper", "Keeper", "OnTimeoutPacket"); fd != nil {
		toCalls = c.selCalls(fd.Body, "k")
	}
	strs("timeoutCalls", toCalls, "OnTimeoutPacket")

	var recvCalls []string
	errAck := false
	if fd := c.findFunc("x/ibc/middleware", "IBCMiddleware", "OnRecvPacket"); fd != nil {
		ast.Inspect(fd.Body, func(m ast.Node) bool {
			switch x := m.(type) {
			case *ast.CallExpr:
				s := c.src(x.Fun)
				switch {
				case strings.HasSuffix(s, ".ParseAddress"):
					recvCalls = append(recvCalls, "ParseAddress")
				case s == "im.IBCModule.OnRecvPacket":
					recvCalls = append(recvCalls, "IBCModule.OnRecvPacket")
				case s == "im.Keeper.OnRecvPacket":
					recvCalls = append(recvCalls, "Keeper.OnRecvPacket")
				}
			case *ast.IfStmt:
				if x.Init != nil && strings.Contains(c.src(x.Init), "im.Keeper.OnRecvPacket") && c.src(x.Cond) == "err != nil" && len(x.Body.List) == 1 {
					if rs, ok := x.Body.List[0].(*ast.ReturnStmt); ok && len(rs.Results) == 1 && strings.Contains(c.src(rs.Results[0]), "NewErrorAcknowledgement") {
						errAck = true
					}
				}
			}
			return true
		})
	}
	strs("recvCalls", recvCalls, "middleware OnRecvPacket: order of calls")
	boolean("recvErrorReturnsErrorAck", errAck, "a keeper-hook error is returned as NewErrorAcknowledgement")

	sets := false
	if fd := c.findFunc("x/crosschain/precompile", "Keeper", "ibcTransfer"); fd != nil {
		seenTransfer := false
		for _, st := range fd.Body.List {
			if strings.Contains(c.src(st), "ibcTransferKeeper.Transfer(") {
				seenTransfer = true
			}
			if is, ok := st.(*ast.IfStmt); ok && seenTransfer && c.src(is.Cond) == "!originToken" {
				for _, n := range c.selCalls(is.Body, "c.erc20Keeper") {
					if n == "SetIBCTransferRelation" {
						sets = true
					}
				}
			}
		}
	}
	boolean("sendSetsRelationWhenNotOrigin", sets, "ibcTransfer: `if !originToken { SetIBCTransferRelation(..) }` after Transfer")

	fmtStr, fmtArgs, hashArgs := "", []string{}, []string{}
	if fd := c.findFunc("x/ibc/middleware/types", "", "IntermediateSender"); fd != nil {
		ast.Inspect(fd.Body, func(m ast.Node) bool {
			ce, ok := m.(*ast.CallExpr)
			if !ok {
				return true
			}
			switch c.src(ce.Fun) {
			case "fmt.Sprintf":
				if bl, ok := ce.Args[0].(*ast.BasicLit); ok {
					fmtStr, _ = strconv.Unquote(bl.Value)
				}
				for _, a := range ce.Args[1:] {
					fmtArgs = append(fmtArgs, c.src(a))
				}
			case "address.Hash":
				for _, a := range ce.Args {
					hashArgs = append(hashArgs, c.src(a))
				}
			}
			return true
		})
	}
	str("intermediateSenderFmt", fmtStr, "IntermediateSender: format of the hash type prefix")
	strs("intermediateSenderFmtArgs", fmtArgs, "its arguments")
	strs("intermediateSenderHashArgs", hashArgs, "arguments of address.Hash")
	c.c19Flow(&sb)
	c.c19Ack(&sb)
	c.c19Parse(&sb)
	c.c19RecvApp(&sb)
	sb.WriteString("end FxVerif.Gen.C19\n")
	c.write("C19.lean", sb.String())
}
