package main

import (
	"go/ast"
	"sort"
	"strings"
)

// C08 (second table): the erc20 message server as the unified model (Model/C08U.lean) reads it.
//   * MintingEnabled: the ordered guards (condition, error returned);
//   * ConvertCoin / ConvertERC20: what MintingEnabled looks the pair up by, the self-destruct branch (RemoveTokenPair,
//     nil error), and the ownership dispatch (condition, callee, arguments) in order;
//   * ConvertDenom / ConvertDenomToTarget / convertDenomToContractOwner / convertNativeAlias / convertNativeCoin /
//     convertNativeERC20: the ordered bank / helper calls on every success path, per branch;
//   * the crosschain precompile methods that convert a token: through the running EVM (contract.NewERC20Call) or
//     through the keeper (EvmToBaseCoin / BaseCoinToEvm = nested EVM execution).
func init() { register(extractC08b) }

type c08Guard struct{ cond, err string }

// c08ErrName returns the last `Err…` selector mentioned in an expression ("" if none)
func c08ErrName(c *ctxT, n ast.Node) string {
	name := ""
	ast.Inspect(n, func(x ast.Node) bool {
		if se, ok := x.(*ast.SelectorExpr); ok && strings.HasPrefix(se.Sel.Name, "Err") {
			if name == "" {
				name = se.Sel.Name
			}
		}
		return true
	})
	return name
}

func extractC08b(c *ctxT) {
	var sb strings.Builder
	sb.WriteString("namespace FxVerif.Gen.C08b\n\n")
	sb.WriteString("inductive DCall where\n  | sendAccToMod | sendModToAcc | mintCoins | burnCoins | erc20Mint | erc20Burn | erc20Transfer\n  | toTarget | toContractOwner | nativeAlias | nativeCoin | nativeERC20\n  deriving DecidableEq, Repr\n\n")
	facts := map[string]any{}

	// ---- MintingEnabled guards -----------------------------------------------------------------------
	var guards []string
	if fd := c.findFunc("x/erc20/keeper", "Keeper", "MintingEnabled"); fd != nil && fd.Body != nil {
		for _, st := range fd.Body.List {
			is, ok := st.(*ast.IfStmt)
			if !ok || len(is.Body.List) == 0 {
				continue
			}
			if rs, ok := is.Body.List[len(is.Body.List)-1].(*ast.ReturnStmt); ok && len(rs.Results) > 0 {
				if e := c08ErrName(c, rs.Results[len(rs.Results)-1]); e != "" {
					guards = append(guards, "("+leanStr(c.src(is.Cond))+", "+leanStr(e)+")")
				}
			}
		}
	}
	sb.WriteString("/-- `MintingEnabled`: the guards in source order (condition, error) -/\n")
	sb.WriteString("def mintingEnabled_guards : List (String × String) := " + leanList(guards) + "\n\n")
	facts["MintingEnabled"] = guards

	// ---- ConvertCoin / ConvertERC20 handlers ---------------------------------------------------------
	for _, h := range []struct{ fn, lean string }{{"ConvertCoin", "convertCoin"}, {"ConvertERC20", "convertERC20"}} {
		lookup := ""
		removeOnDead := false
		var dispatch []string
		if fd := c.findFunc("x/erc20/keeper", "Keeper", h.fn); fd != nil && fd.Body != nil {
			for _, st := range fd.Body.List {
				switch s := st.(type) {
				case *ast.AssignStmt:
					if len(s.Rhs) == 1 {
						if ce, ok := s.Rhs[0].(*ast.CallExpr); ok {
							if se, ok := ce.Fun.(*ast.SelectorExpr); ok && se.Sel.Name == "MintingEnabled" && len(ce.Args) == 3 {
								lookup = c.src(ce.Args[2])
							}
						}
					}
				case *ast.IfStmt:
					// `if acc := …GetAccount(…); acc == nil || !acc.IsContract() { RemoveTokenPair; return …, nil }`
					if strings.Contains(c.src(s.Cond), "IsContract()") {
						hasRemove, nilErr := false, false
						for _, b := range s.Body.List {
							if strings.Contains(c.src(b), "RemoveTokenPair(") {
								hasRemove = true
							}
							if rs, ok := b.(*ast.ReturnStmt); ok && len(rs.Results) == 2 && c.src(rs.Results[1]) == "nil" {
								nilErr = true
							}
						}
						removeOnDead = hasRemove && nilErr && strings.Contains(c.src(s.Cond), "acc == nil") && strings.Contains(c.src(s.Cond), "!acc.IsContract()")
					}
				case *ast.SwitchStmt:
					if s.Tag != nil {
						continue
					}
					for _, cc := range s.Body.List {
						cl, ok := cc.(*ast.CaseClause)
						if !ok || len(cl.List) != 1 || len(cl.Body) == 0 {
							continue
						}
						if as, ok := cl.Body[0].(*ast.AssignStmt); ok && len(as.Rhs) == 1 {
							if ce, ok := as.Rhs[0].(*ast.CallExpr); ok {
								if se, ok := ce.Fun.(*ast.SelectorExpr); ok {
									var args []string
									for _, a := range ce.Args {
										args = append(args, c.src(a))
									}
									dispatch = append(dispatch, "("+leanStr(c.src(cl.List[0]))+", "+leanStr(se.Sel.Name)+", "+leanStr(strings.Join(args, ", "))+")")
								}
							}
						}
					}
				}
			}
		}
		sb.WriteString("/-- `" + h.fn + "`: third argument of `MintingEnabled` -/\n")
		sb.WriteString("def " + h.lean + "_lookup : String := " + leanStr(lookup) + "\n")
		sb.WriteString("/-- `" + h.fn + "`: a pair whose contract account holds no code is removed and the message succeeds -/\n")
		if removeOnDead {
			sb.WriteString("def " + h.lean + "_removesDeadPair : Bool := true\n")
		} else {
			sb.WriteString("def " + h.lean + "_removesDeadPair : Bool := false\n")
		}
		sb.WriteString("/-- `" + h.fn + "`: ownership dispatch in source order (condition, callee, arguments) -/\n")
		sb.WriteString("def " + h.lean + "_dispatch : List (String × String × String) := " + leanList(dispatch) + "\n\n")
		facts[h.fn] = map[string]any{"lookup": lookup, "removesDeadPair": removeOnDead, "dispatch": dispatch}
	}

	// ---- ConvertDenom family: call sequences per branch ----------------------------------------------
	saved := c08Tracked
	c08Tracked = map[string]string{
		"ConvertDenomToTarget":        ".toTarget",
		"convertDenomToContractOwner": ".toContractOwner",
		"convertNativeAlias":          ".nativeAlias",
		"convertNativeCoin":           ".nativeCoin",
		"convertNativeERC20":          ".nativeERC20",
	}
	c08Mode = true
	defer func() { c08Tracked = saved; c08Mode = false }()
	type want struct {
		name string
		must []string
	}
	base := "coin.Denom == metadata.Base"
	tbase := "targetCoin.Denom == metadata.Base"
	fns := []struct {
		name  string
		wants []want
	}{
		{"ConvertDenom", []want{
			{"convertDenom_otherReceiver", []string{"-targetCoin.Denom == msg.Coin.Denom", "+!sender.Equals(receiver)"}},
			{"convertDenom_sameReceiver", []string{"-targetCoin.Denom == msg.Coin.Denom", "-!sender.Equals(receiver)"}}}},
		{"ConvertDenomToTarget", []want{
			{"convertDenomToTarget_same", []string{"+coin.Denom == targetCoin.Denom"}},
			{"convertDenomToTarget_convert", []string{"-coin.Denom == targetCoin.Denom"}}}},
		{"convertDenomToContractOwner", []want{
			{"toContractOwner_converted", []string{"-!found", "+k.IsConvertedMetadata(metadata)"}},
			{"toContractOwner_nativeCoin", []string{"-!found", "-k.IsConvertedMetadata(metadata)", "+pair.IsNativeCoin()"}},
			{"toContractOwner_nativeERC20", []string{"-!found", "-k.IsConvertedMetadata(metadata)", "-pair.IsNativeCoin()", "+pair.IsNativeERC20()"}}}},
		{"convertNativeAlias", []want{
			{"nativeAlias_baseToAlias", []string{"+" + base + " &&"}},
			{"nativeAlias_aliasToBase", []string{"-" + base + " &&", "+" + tbase + " &&"}},
			{"nativeAlias_aliasToAlias", []string{"-" + base + " &&", "-" + tbase + " &&"}}}},
		{"convertNativeCoin", []want{
			{"nativeCoin_srcIsBase", []string{"+" + base}},
			{"nativeCoin_dstIsBase", []string{"-" + base, "+" + tbase}},
			{"nativeCoin_aliasToAlias", []string{"-" + base, "-" + tbase}}}},
		{"convertNativeERC20", []want{
			{"nativeERC20_srcIsBase", []string{"+" + base}},
			{"nativeERC20_dstIsBase", []string{"-" + base, "+" + tbase}},
			{"nativeERC20_aliasToAlias", []string{"-" + base, "-" + tbase}}}},
	}
	paths := map[string]any{}
	for _, f := range fns {
		fd := c.findFunc("x/erc20/keeper", "Keeper", f.name)
		var ps []c04Path
		if fd != nil && fd.Body != nil {
			ps = c04Walk(c, fd.Body.List, []c04Path{{}})
		}
		var ok []c04Path
		var all []string
		for _, p := range ps {
			if !p.fail {
				ok = append(ok, p)
				all = append(all, strings.Join(p.conds, " ; ")+" => "+strings.Join(p.calls, ","))
			}
		}
		sort.Strings(all)
		paths[f.name] = all
		sb.WriteString("/-! `" + f.name + "` — success paths:\n")
		for _, a := range all {
			sb.WriteString("  " + strings.ReplaceAll(a, "-/", "- /") + "\n")
		}
		sb.WriteString("-/\n")
		for _, w := range f.wants {
			seen := map[string]bool{}
			var variants []string
			for _, p := range ok {
				key := strings.Join(p.conds, "\n") + "\n"
				match := true
				for _, m := range w.must {
					// a signed condition must start a line of the key
					if !strings.Contains("\n"+key, "\n"+m) {
						match = false
					}
				}
				if match {
					v := leanList(p.calls)
					if !seen[v] {
						seen[v] = true
						variants = append(variants, v)
					}
				}
			}
			sort.Strings(variants)
			sb.WriteString("def " + w.name + " : List (List DCall) := " + leanList(variants) + "\n")
		}
		sb.WriteString("\n")
	}
	facts["paths"] = paths

	// ---- crosschain precompile methods that convert a token -------------------------------------------
	// per method file: does Run (or the helper it calls) convert through the keeper (nested EVM) or the running EVM?
	type pm struct{ name, how string }
	var pms []pm
	for _, fd := range c.funcDecls("x/crosschain/precompile") {
		if fd.Name.Name != "Run" || fd.Body == nil {
			continue
		}
		recv := recvName(fd)
		if !strings.HasSuffix(recv, "Method") {
			continue
		}
		src := c.src(fd.Body)
		var how []string
		if strings.Contains(src, ".EvmToBaseCoin(") {
			how = append(how, "keeper|EvmToBaseCoin")
		}
		if strings.Contains(src, ".BaseCoinToEvm(") {
			how = append(how, "keeper|BaseCoinToEvm")
		}
		if strings.Contains(src, ".RemoveFromOutgoingPoolAndRefund(") {
			how = append(how, "keeper|RemoveFromOutgoingPoolAndRefund") // refund -> erc20 HookOutgoingRefund -> ConvertCoin
		}
		if strings.Contains(src, ".ExecuteClaim(") {
			how = append(how, "keeper|ExecuteClaim") // incoming bridge call: coins -> ERC-20 through BaseCoinToEvm
		}
		if strings.Contains(src, "handlerERC20Token(") {
			how = append(how, "runningEVM|handlerERC20Token")
		}
		if strings.Contains(src, "NewERC20Call(") {
			how = append(how, "runningEVM|NewERC20Call")
		}
		for _, h := range how {
			pms = append(pms, pm{recv, h})
		}
	}
	sort.Slice(pms, func(i, j int) bool { return pms[i].name+pms[i].how < pms[j].name+pms[j].how })
	var pl []string
	for _, p := range pms {
		hw := strings.SplitN(p.how, "|", 2)
		pl = append(pl, "("+leanStr(p.name)+", "+leanStr(hw[0])+", "+leanStr(hw[1])+")")
	}
	sb.WriteString("/-- crosschain precompile methods whose `Run` converts an ERC-20: through the erc20 / crosschain keeper (a nested\nEVM execution on the native context) or through the running EVM -/\n")
	sb.WriteString("def precompileTokenConversions : List (String × String × String) := " + leanList(pl) + "\n")
	// handlerERC20Token / convertERC20 of the precompile keeper must themselves use the running EVM only
	usesNested := false
	for _, name := range []string{"handlerERC20Token", "convertERC20"} {
		if fd := c.findFunc("x/crosschain/precompile", "Keeper", name); fd != nil && fd.Body != nil {
			s := c.src(fd.Body)
			if strings.Contains(s, "ConvertERC20(") || strings.Contains(s, "EvmToBaseCoin(") || strings.Contains(s, "evmErc20Keeper") {
				usesNested = true
			}
		}
	}
	if usesNested {
		sb.WriteString("def handlerERC20Token_usesKeeperLevelEVM : Bool := true\n")
	} else {
		sb.WriteString("def handlerERC20Token_usesKeeperLevelEVM : Bool := false\n")
	}
	// the refund hook of the outgoing pool converts back to ERC-20 through the erc20 keeper's ConvertCoin
	hook := false
	if fd := c.findFunc("x/erc20/keeper", "Keeper", "HookOutgoingRefund"); fd != nil && fd.Body != nil {
		hook = strings.Contains(c.src(fd.Body), "k.ConvertCoin(")
	}
	if hook {
		sb.WriteString("def hookOutgoingRefund_usesKeeperConvertCoin : Bool := true\n")
	} else {
		sb.WriteString("def hookOutgoingRefund_usesKeeperConvertCoin : Bool := false\n")
	}
	// what `executeClaim` converts through: ExecuteClaim dispatches a parked MsgSendToFxClaim to SendToFxExecuted, which (target
	// erc20) and BridgeCallEvm (every token) credit ERC-20 through BaseCoinToEvm = the erc20 keeper's ConvertCoin (keeper level)
	bodyHas := func(pkg, fn string, subs ...string) bool {
		fd := c.findFunc(pkg, "Keeper", fn)
		if fd == nil || fd.Body == nil {
			return false
		}
		src := c.src(fd.Body)
		for _, sub := range subs {
			if !strings.Contains(src, sub) {
				return false
			}
		}
		return true
	}
	b2s := func(b bool) string {
		if b {
			return "true"
		}
		return "false"
	}
	sb.WriteString("/-- `ExecuteClaim` hands a parked `MsgSendToFxClaim` to `SendToFxExecuted` and a parked `MsgBridgeCallClaim` to `BridgeCallHandler` -/\n")
	sb.WriteString("def executeClaim_dispatchesDeposits : Bool := " + b2s(bodyHas("x/crosschain/keeper", "ExecuteClaim", "k.SendToFxExecuted(ctx, claim)", "k.BridgeCallHandler(ctx, claim)")) + "\n")
	sb.WriteString("/-- `SendToFxExecuted` with target `erc20` credits the receiver through `BaseCoinToEvm`; so does `BridgeCallEvm` for every token -/\n")
	sb.WriteString("def sendToFxExecuted_erc20Target_usesBaseCoinToEvm : Bool := " + b2s(bodyHas("x/crosschain/keeper", "SendToFxExecuted", "fxtypes.ERC20Target", "k.BaseCoinToEvm(ctx, baseCoin")) + "\n")
	sb.WriteString("def bridgeCallEvm_usesBaseCoinToEvm : Bool := " + b2s(bodyHas("x/crosschain/keeper", "BridgeCallEvm", "k.BaseCoinToEvm(ctx, coin")) + "\n")
	sb.WriteString("/-- `BaseCoinToEvm` is the erc20 keeper's `ConvertCoin` (keeper-level ERC20Mint / ERC20Transfer: a nested EVM execution) -/\n")
	sb.WriteString("def baseCoinToEvm_usesKeeperConvertCoin : Bool := " + b2s(bodyHas("x/crosschain/keeper", "BaseCoinToEvm", "k.erc20Keeper.ConvertCoin(ctx")) + "\n")
	facts["precompileTokenConversions"] = pl

	sb.WriteString("\nend FxVerif.Gen.C08b\n")
	c.write("C08b.lean", sb.String())
	c.facts["C08b"] = facts
}
