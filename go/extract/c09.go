package main

import (
	"fmt"
	"go/ast"
	"go/parser"
	"go/token"
	"os"
	"os/exec"
	"path/filepath"
	"regexp"
	"sort"
	"strconv"
	"strings"
)

// C09 / C10: the method tables of both precompiles (x/staking/precompile, x/crosschain/precompile), read from the AST:
//   - which constructors are listed in NewPrecompiledContract, ABI name, IsReadonly literal, RequiredGas literal;
//   - shape of every Run: number of ExecuteNativeAction closures, ctx-receiving ("keeper") calls inside / outside the
//     closure, use of an outer ctx (`.Context()`), EmitEvent/AddLog inside / outside, whether the closure's error is
//     propagated, `if err != nil { return nil }` sites;
//   - where the account whose assets move comes from (contract.Caller() / an argument / evm.Origin), per keeper call;
//   - shape of both dispatchers (contract.go Run): length guard, readonly guard, gov switch check, error wrapping;
//   - from the go-ethereum fork (dependency, located through go.mod's replace): the literal `readonly` argument that
//     Call / CallCode / DelegateCall / StaticCall pass to RunPrecompiledContract;
//   - CheckContractAddressIsDisabled: the comparison shape (lower-casing, address / address+"/"+methodId).
func init() { register(extractC09) }

type c09Payer struct{ Role, Prov string }

type c09Method struct {
	Contract, Ctor, Type, AbiName, IdSrc string
	Readonly                             bool
	ReadonlyKnown                        bool
	RequiredGas                          int
	NativeCalls                          int
	KeeperInside, KeeperOutside          []string
	ForeignCtxInside, OuterCtx           int
	LogsInside, LogsOutside              int
	ErrPropagated                        bool
	Swallowed                            int
	Payers                               []c09Payer
	Unknown                              []string
	Where                                string
}

type c09Helper struct {
	Contract, Name string
	OuterCtx       int
	Swallowed      int
}

// payer positions: callee -> role -> argument index (or composite-literal field) of the account whose assets move
type c09Pos struct {
	role  string
	arg   int
	field string
}

var c09PayerPos = map[string][]c09Pos{
	"Delegate":                        {{role: "delegator", field: "DelegatorAddress"}},
	"BeginRedelegate":                 {{role: "delegator", field: "DelegatorAddress"}},
	"Undelegate":                      {{role: "delegator", field: "DelegatorAddress"}},
	"WithdrawDelegatorReward":         {{role: "delegator", field: "DelegatorAddress"}},
	"SetAllowance":                    {{role: "owner", arg: 2}},
	"decrementAllowance":              {{role: "owner", arg: 2}, {role: "spender", arg: 3}, {role: "amount", arg: 4}},
	"handlerTransferShares":           {{role: "from", arg: 3}, {role: "amount", arg: 5}},
	"handlerOriginToken":              {{role: "from", arg: 2}},
	"handlerERC20Token":               {{role: "from", arg: 2}},
	"EvmToBaseCoin":                   {{role: "from", arg: 3}},
	"AddOutgoingBridgeCall":           {{role: "from", arg: 1}},
	"handlerCrossChain":               {{role: "from", arg: 1}},
	"RemoveFromOutgoingPoolAndRefund": {{role: "from", arg: 2}},
	"ConvertDenomToTarget":            {{role: "from", arg: 1}},
	"AddUnbatchedTxBridgeFee":         {{role: "from", arg: 2}},
	"ExecuteClaim":                    {},
	"GetRoute":                        {},
}

func calleeName(ce *ast.CallExpr) string {
	switch f := ce.Fun.(type) {
	case *ast.SelectorExpr:
		return f.Sel.Name
	case *ast.Ident:
		return f.Name
	}
	return "?"
}

func isContextCall(e ast.Expr) bool {
	ce, ok := e.(*ast.CallExpr)
	if !ok {
		return false
	}
	se, ok := ce.Fun.(*ast.SelectorExpr)
	return ok && se.Sel.Name == "Context" && len(ce.Args) == 0
}

func isNilIdent(e ast.Expr) bool {
	id, ok := e.(*ast.Ident)
	return ok && id.Name == "nil"
}

// swallowedIn counts `if <x> != nil { ... return ..., nil }` and `if <x> != nil { ... break / continue }` sites: an error turned into success
func swallowedIn(n ast.Node) int {
	cnt := 0
	ast.Inspect(n, func(x ast.Node) bool {
		is, ok := x.(*ast.IfStmt)
		if !ok {
			return true
		}
		be, ok := is.Cond.(*ast.BinaryExpr)
		if !ok || be.Op != token.NEQ || !isNilIdent(be.Y) {
			return true
		}
		if id, ok := be.X.(*ast.Ident); !ok || !strings.HasPrefix(strings.ToLower(id.Name), "err") {
			return true
		}
		for _, st := range is.Body.List {
			if rs, ok := st.(*ast.ReturnStmt); ok && len(rs.Results) > 0 && isNilIdent(rs.Results[len(rs.Results)-1]) {
				cnt++
			}
			// … or leaves the loop / skips the iteration with the error in hand: the function goes on as if nothing had failed
			if bs, ok := st.(*ast.BranchStmt); ok && (bs.Tok == token.BREAK || bs.Tok == token.CONTINUE) {
				cnt++
			}
		}
		return true
	})
	return cnt
}

func (c *ctxT) c09Prov(e ast.Expr, alias map[string]ast.Expr, depth int) []string {
	set := map[string]bool{}
	var walk func(e ast.Node, depth int)
	walk = func(e ast.Node, depth int) {
		ast.Inspect(e, func(x ast.Node) bool {
			switch v := x.(type) {
			case *ast.SelectorExpr:
				if id, ok := v.X.(*ast.Ident); ok {
					switch {
					case id.Name == "contract" && v.Sel.Name == "Caller":
						set["caller"] = true
						return false
					case id.Name == "contract" && v.Sel.Name == "Address":
						set["self"] = true
						return false
					case id.Name == "evm" && v.Sel.Name == "Origin":
						set["origin"] = true
						return false
					case id.Name == "args":
						set["arg:"+v.Sel.Name] = true
						return false
					}
				}
			case *ast.Ident:
				if rhs, ok := alias[v.Name]; ok && depth < 4 {
					walk(rhs, depth+1)
				}
			}
			return true
		})
	}
	walk(e, depth)
	var out []string
	for k := range set {
		out = append(out, k)
	}
	sort.Strings(out)
	if len(out) == 0 {
		out = []string{"other:" + strings.Join(strings.Fields(c.src(e)), "")}
	}
	return out
}

func (c *ctxT) c09AnalyzeRun(m *c09Method, run *ast.FuncDecl) {
	// local aliases x := expr
	alias := map[string]ast.Expr{}
	outerCtxVars := map[string]bool{}
	ast.Inspect(run.Body, func(x ast.Node) bool {
		as, ok := x.(*ast.AssignStmt)
		if !ok || len(as.Lhs) != 1 || len(as.Rhs) != 1 {
			return true
		}
		id, ok := as.Lhs[0].(*ast.Ident)
		if !ok {
			return true
		}
		if _, dup := alias[id.Name]; !dup {
			alias[id.Name] = as.Rhs[0]
		}
		if isContextCall(as.Rhs[0]) {
			outerCtxVars[id.Name] = true
		}
		return true
	})
	// the closures
	type clo struct {
		lit   *ast.FuncLit
		param string
		call  *ast.CallExpr
	}
	var clos []clo
	ast.Inspect(run.Body, func(x ast.Node) bool {
		ce, ok := x.(*ast.CallExpr)
		if !ok {
			return true
		}
		if se, ok := ce.Fun.(*ast.SelectorExpr); ok && se.Sel.Name == "ExecuteNativeAction" {
			m.NativeCalls++
			if len(ce.Args) == 3 {
				if fl, ok := ce.Args[2].(*ast.FuncLit); ok && len(fl.Type.Params.List) == 1 && len(fl.Type.Params.List[0].Names) == 1 {
					clos = append(clos, clo{fl, fl.Type.Params.List[0].Names[0].Name, ce})
				}
			}
		}
		return true
	})
	inside := func(n ast.Node) (bool, string) {
		for _, cl := range clos {
			if n.Pos() >= cl.lit.Pos() && n.End() <= cl.lit.End() {
				return true, cl.param
			}
		}
		return false, ""
	}
	ast.Inspect(run.Body, func(x ast.Node) bool {
		ce, ok := x.(*ast.CallExpr)
		if !ok {
			return true
		}
		name := calleeName(ce)
		if name == "ExecuteNativeAction" {
			return true
		}
		in, param := inside(ce)
		if isContextCall(ce) {
			m.OuterCtx++
			return true
		}
		if name == "EmitEvent" || name == "AddLog" {
			if se, ok := ce.Fun.(*ast.SelectorExpr); ok && name == "EmitEvent" {
				// ctx.EventManager().EmitEvent(...) is a Cosmos event, not an EVM log
				if _, isCall := se.X.(*ast.CallExpr); isCall {
					return true
				}
			}
			if in {
				m.LogsInside++
			} else {
				m.LogsOutside++
			}
			return true
		}
		// does the call receive a ctx?
		ctxKind := ""
		for _, a := range ce.Args {
			switch v := a.(type) {
			case *ast.Ident:
				if in && v.Name == param {
					ctxKind = "own"
				} else if outerCtxVars[v.Name] || (!in && v.Name == "ctx") {
					ctxKind = "outer"
				}
			case *ast.CallExpr:
				if isContextCall(v) {
					ctxKind = "outer"
				}
			}
			if ctxKind != "" {
				break
			}
		}
		if ctxKind == "" {
			return true
		}
		if in && ctxKind == "own" {
			m.KeeperInside = append(m.KeeperInside, name)
			pos, known := c09PayerPos[name]
			if !known {
				m.Unknown = append(m.Unknown, name)
			}
			for _, p := range pos {
				var e ast.Expr
				if p.field != "" {
					for _, a := range ce.Args {
						ue, ok := a.(*ast.UnaryExpr)
						var cl *ast.CompositeLit
						if ok {
							cl, _ = ue.X.(*ast.CompositeLit)
						} else {
							cl, _ = a.(*ast.CompositeLit)
						}
						if cl == nil {
							continue
						}
						for _, el := range cl.Elts {
							if kv, ok := el.(*ast.KeyValueExpr); ok {
								if k, ok := kv.Key.(*ast.Ident); ok && k.Name == p.field {
									e = kv.Value
								}
							}
						}
					}
				} else if p.arg < len(ce.Args) {
					e = ce.Args[p.arg]
				}
				prov := "missing"
				if e != nil {
					prov = strings.Join(c.c09Prov(e, alias, 0), "+")
				}
				m.Payers = append(m.Payers, c09Payer{name + "." + p.role, prov})
			}
		} else if in {
			m.ForeignCtxInside++
			m.KeeperInside = append(m.KeeperInside, name+"@outer-ctx")
		} else {
			m.KeeperOutside = append(m.KeeperOutside, name)
		}
		return true
	})
	// is the closure's error propagated?  `if err = X.ExecuteNativeAction(..); err != nil { return nil, err }` or
	// `err = X.ExecuteNativeAction(..)` ... `return result, err`
	m.ErrPropagated = len(clos) > 0
	for _, cl := range clos {
		ok := false
		ast.Inspect(run.Body, func(x ast.Node) bool {
			switch st := x.(type) {
			case *ast.IfStmt:
				as, isAs := st.Init.(*ast.AssignStmt)
				if !isAs || len(as.Rhs) != 1 || as.Rhs[0] != ast.Expr(cl.call) || len(as.Lhs) != 1 {
					return true
				}
				v, _ := as.Lhs[0].(*ast.Ident)
				be, _ := st.Cond.(*ast.BinaryExpr)
				if v == nil || be == nil || be.Op != token.NEQ || !isNilIdent(be.Y) {
					return true
				}
				if id, _ := be.X.(*ast.Ident); id == nil || id.Name != v.Name {
					return true
				}
				for _, s2 := range st.Body.List {
					if rs, isR := s2.(*ast.ReturnStmt); isR && len(rs.Results) == 2 {
						if id, _ := rs.Results[1].(*ast.Ident); id != nil && id.Name == v.Name {
							ok = true
						}
					}
				}
			case *ast.AssignStmt:
				if len(st.Rhs) == 1 && st.Rhs[0] == ast.Expr(cl.call) && len(st.Lhs) == 1 {
					v, _ := st.Lhs[0].(*ast.Ident)
					if v == nil || v.Name == "_" {
						return true
					}
					// the function's last statement must return that variable as the error
					last := run.Body.List[len(run.Body.List)-1]
					if rs, isR := last.(*ast.ReturnStmt); isR && len(rs.Results) == 2 {
						if id, _ := rs.Results[1].(*ast.Ident); id != nil && id.Name == v.Name {
							ok = true
						}
					}
				}
			}
			return true
		})
		if !ok {
			m.ErrPropagated = false
		}
	}
	m.Swallowed = swallowedIn(run.Body)
}

func leanStrs(xs []string) string {
	ys := make([]string, len(xs))
	for i, x := range xs {
		ys[i] = leanStr(x)
	}
	return leanList(ys)
}

func goModCache() string {
	if v := os.Getenv("GOMODCACHE"); v != "" {
		return v
	}
	if out, err := exec.Command("go", "env", "GOMODCACHE").Output(); err == nil && strings.TrimSpace(string(out)) != "" {
		return strings.TrimSpace(string(out))
	}
	if v := os.Getenv("GOPATH"); v != "" {
		return filepath.Join(v, "pkg", "mod")
	}
	h, _ := os.UserHomeDir()
	return filepath.Join(h, "go", "pkg", "mod")
}

// depDir resolves a module path through go.mod (replace first, then require) to its directory in the module cache.
func (c *ctxT) depDir(mod string) string {
	bz, err := os.ReadFile(filepath.Join(c.repo, "go.mod"))
	if err != nil {
		return ""
	}
	src := string(bz)
	esc := func(p string) string { // module cache escapes upper-case letters
		var sb strings.Builder
		for _, r := range p {
			if r >= 'A' && r <= 'Z' {
				sb.WriteByte('!')
				sb.WriteRune(r + 32)
			} else {
				sb.WriteRune(r)
			}
		}
		return sb.String()
	}
	re := regexp.MustCompile(`(?m)^\s*(?:replace\s+)?` + regexp.QuoteMeta(mod) + `\s+(?:v\S+\s+)?=>\s+(\S+)\s+(v\S+)`)
	if m := re.FindStringSubmatch(src); m != nil {
		return filepath.Join(goModCache(), esc(m[1])+"@"+m[2])
	}
	re = regexp.MustCompile(`(?m)^\s*(?:require\s+)?` + regexp.QuoteMeta(mod) + `\s+(v\S+)`)
	if m := re.FindStringSubmatch(src); m != nil {
		return filepath.Join(goModCache(), esc(mod)+"@"+m[1])
	}
	return ""
}

func extractC09(c *ctxT) {
	var methods []c09Method
	var helpers []c09Helper
	var runFacts []c09RunFacts
	var dispGuards []string
	var sb strings.Builder
	sb.WriteString("namespace FxVerif.Gen.C09\n\n")
	sb.WriteString(`structure Method where
  contract : String
  ctor : String
  type : String
  abiName : String
  idSrc : String
  readonlyKnown : Bool
  readonly : Bool
  requiredGas : Nat
  nativeCalls : Nat
  keeperInside : List String
  keeperOutside : List String
  foreignCtxInside : Nat
  outerCtx : Nat
  logsInside : Nat
  logsOutside : Nat
  errPropagated : Bool
  swallowed : Nat
  payers : List (String × String)
  unknown : List String
  deriving Repr, DecidableEq

structure Helper where
  contract : String
  name : String
  outerCtx : Nat
  swallowed : Nat
  deriving Repr, DecidableEq

structure Dispatcher where
  contract : String
  lenGuard : Bool
  steps : List String
  roCond : String
  roRet : String
  disabledRecv : String
  disabledArgs : List String
  disabledRet : String
  runCall : String
  runErrRet : String
  okRet : String
  unknownRet : String
  deriving Repr, DecidableEq

`)
	type dispT struct {
		Contract                                                          string
		LenGuard                                                          bool
		Steps                                                             []string
		RoCond, RoRet, DisRecv, DisRet, RunCall, RunErrRet, OkRet, UnkRet string
		DisArgs                                                           []string
	}
	var disps []dispT
	for _, pk := range []struct{ name, rel string }{{"staking", "x/staking/precompile"}, {"crosschain", "x/crosschain/precompile"}} {
		decls := c.funcDecls(pk.rel)
		byName := map[string]*ast.FuncDecl{}
		for _, fd := range decls {
			if fd.Recv == nil {
				byName[fd.Name.Name] = fd
			}
		}
		method := func(typ, name string) *ast.FuncDecl {
			for _, fd := range decls {
				if fd.Name.Name == name && recvName(fd) == typ {
					return fd
				}
			}
			return nil
		}
		ctor := byName["NewPrecompiledContract"]
		if ctor == nil || ctor.Body == nil {
			fail("C09: %s: NewPrecompiledContract not found", pk.rel)
		}
		// local aliases in the constructor: delegateV2 := NewDelegateV2Method(keeper)
		calias := map[string]string{}
		var listed []string
		ast.Inspect(ctor.Body, func(x ast.Node) bool {
			switch v := x.(type) {
			case *ast.AssignStmt:
				if len(v.Lhs) == 1 && len(v.Rhs) == 1 {
					if id, ok := v.Lhs[0].(*ast.Ident); ok {
						if ce, ok := v.Rhs[0].(*ast.CallExpr); ok {
							if f, ok := ce.Fun.(*ast.Ident); ok && strings.HasPrefix(f.Name, "New") {
								calias[id.Name] = f.Name
							}
						}
					}
				}
			case *ast.KeyValueExpr:
				if k, ok := v.Key.(*ast.Ident); ok && k.Name == "methods" {
					if cl, ok := v.Value.(*ast.CompositeLit); ok {
						for _, el := range cl.Elts {
							switch e := el.(type) {
							case *ast.CallExpr:
								if f, ok := e.Fun.(*ast.Ident); ok {
									listed = append(listed, f.Name)
								} else {
									listed = append(listed, "?"+c.src(e))
								}
							case *ast.Ident:
								if n, ok := calias[e.Name]; ok {
									listed = append(listed, n)
								} else {
									listed = append(listed, "?"+e.Name)
								}
							default:
								listed = append(listed, "?"+c.src(el))
							}
						}
					}
				}
			}
			return true
		})
		helperLogs := map[string]int{}
		for _, fd := range decls {
			if fd.Body == nil || fd.Name.Name == "Run" || fd.Name.Name == "EmitEvent" {
				continue
			}
			n := 0
			ast.Inspect(fd.Body, func(x ast.Node) bool {
				if ce, ok := x.(*ast.CallExpr); ok {
					if id, ok := ce.Fun.(*ast.Ident); ok && id.Name == "EmitEvent" {
						n++
					}
				}
				return true
			})
			helperLogs[fd.Name.Name] = n
		}
		for _, cn := range listed {
			m := c09Method{Contract: pk.name, Ctor: cn}
			cf := byName[cn]
			if cf != nil && cf.Type.Results != nil && len(cf.Type.Results.List) == 1 {
				if st, ok := cf.Type.Results.List[0].Type.(*ast.StarExpr); ok {
					if id, ok := st.X.(*ast.Ident); ok {
						m.Type = id.Name
					}
				}
				ast.Inspect(cf.Body, func(x ast.Node) bool {
					if ie, ok := x.(*ast.IndexExpr); ok {
						if se, ok := ie.X.(*ast.SelectorExpr); ok && se.Sel.Name == "Methods" {
							if bl, ok := ie.Index.(*ast.BasicLit); ok {
								m.AbiName, _ = strconv.Unquote(bl.Value)
							}
						}
					}
					return true
				})
			}
			if fd := method(m.Type, "IsReadonly"); fd != nil && fd.Body != nil && len(fd.Body.List) == 1 {
				if rs, ok := fd.Body.List[0].(*ast.ReturnStmt); ok && len(rs.Results) == 1 {
					if id, ok := rs.Results[0].(*ast.Ident); ok && (id.Name == "true" || id.Name == "false") {
						m.ReadonlyKnown, m.Readonly = true, id.Name == "true"
					}
				}
			}
			if fd := method(m.Type, "GetMethodId"); fd != nil && fd.Body != nil && len(fd.Body.List) == 1 {
				if rs, ok := fd.Body.List[0].(*ast.ReturnStmt); ok && len(rs.Results) == 1 {
					m.IdSrc = c.src(rs.Results[0])
				}
			}
			if fd := method(m.Type, "RequiredGas"); fd != nil && fd.Body != nil && len(fd.Body.List) == 1 {
				if rs, ok := fd.Body.List[0].(*ast.ReturnStmt); ok && len(rs.Results) == 1 {
					if bl, ok := rs.Results[0].(*ast.BasicLit); ok {
						n, _ := strconv.Atoi(strings.ReplaceAll(bl.Value, "_", ""))
						m.RequiredGas = n
					}
				}
			}
			if run := method(m.Type, "Run"); run != nil && run.Body != nil {
				m.Where = c.pos(run)
				c.c09AnalyzeRun(&m, run)
				runFacts = append(runFacts, c.c09Run(pk.name, m.AbiName, run, decls))
				for _, k := range m.KeeperInside {
					m.LogsInside += helperLogs[k]
				}
				for _, k := range m.KeeperOutside {
					m.LogsOutside += helperLogs[k]
				}
			} else {
				m.Where = "no Run found"
			}
			methods = append(methods, m)
		}
		// helpers: every non-Run function of the package with an sdk.Context parameter
		for _, fd := range decls {
			if fd.Body == nil || fd.Name.Name == "Run" || fd.Type.Params == nil {
				continue
			}
			has := false
			for _, p := range fd.Type.Params.List {
				if se, ok := p.Type.(*ast.SelectorExpr); ok && se.Sel.Name == "Context" {
					has = true
				}
			}
			if !has {
				continue
			}
			h := c09Helper{Contract: pk.name, Name: fd.Name.Name}
			ast.Inspect(fd.Body, func(x ast.Node) bool {
				if e, ok := x.(ast.Expr); ok && isContextCall(e) {
					h.OuterCtx++
				}
				return true
			})
			h.Swallowed = swallowedIn(fd.Body)
			helpers = append(helpers, h)
		}
		// dispatcher
		d := dispT{Contract: pk.name}
		var drun *ast.FuncDecl
		for _, fd := range decls {
			if fd.Name.Name == "Run" && recvName(fd) == "Contract" {
				drun = fd
			}
		}
		if drun != nil && drun.Body != nil {
			retSrc := func(b *ast.BlockStmt) string {
				if b == nil || len(b.List) == 0 {
					return ""
				}
				if rs, ok := b.List[len(b.List)-1].(*ast.ReturnStmt); ok {
					// `return pkg.Fn(...)`: the name of the function whose two results are returned
					if len(rs.Results) == 1 {
						if ce, ok := rs.Results[0].(*ast.CallExpr); ok {
							return calleeName(ce)
						}
					}
					var parts []string
					for _, r := range rs.Results {
						parts = append(parts, c.src(r))
					}
					return strings.Join(parts, ", ")
				}
				return ""
			}
			for i, st := range drun.Body.List {
				switch v := st.(type) {
				case *ast.IfStmt:
					if i == 0 && strings.Join(strings.Fields(c.src(v.Cond)), "") == "len(contract.Input)<=4" && strings.Contains(retSrc(v.Body), "PackRetErr") {
						d.LenGuard = true
					}
				case *ast.RangeStmt:
					if len(v.Body.List) == 1 {
						if is, ok := v.Body.List[0].(*ast.IfStmt); ok && strings.Contains(c.src(is.Cond), "bytes.Equal(method.GetMethodId(), contract.Input[:4])") {
							for _, s2 := range is.Body.List {
								switch w := s2.(type) {
								case *ast.IfStmt:
									cond := c.src(w.Cond)
									if w.Init == nil && strings.Contains(cond, "readonly") {
										d.Steps = append(d.Steps, "readonly-guard")
										d.RoCond = cond
										d.RoRet = retSrc(w.Body)
									} else if as, ok := w.Init.(*ast.AssignStmt); ok && len(as.Rhs) == 1 {
										if ce, ok := as.Rhs[0].(*ast.CallExpr); ok && calleeName(ce) == "CheckDisabledPrecompiles" {
											d.Steps = append(d.Steps, "disabled-check")
											d.DisRecv = c.src(ce.Fun)
											for _, a := range ce.Args {
												d.DisArgs = append(d.DisArgs, c.src(a))
											}
											d.DisRet = retSrc(w.Body)
										} else {
											d.Steps = append(d.Steps, "other-if:"+c.src(w.Init))
										}
									} else if strings.Join(strings.Fields(cond), "") == "err!=nil" {
										d.RunErrRet = retSrc(w.Body)
									} else {
										d.Steps = append(d.Steps, "other-if:"+cond)
									}
								case *ast.AssignStmt:
									if len(w.Rhs) == 1 {
										if ce, ok := w.Rhs[0].(*ast.CallExpr); ok && calleeName(ce) == "Run" {
											d.Steps = append(d.Steps, "run")
											d.RunCall = c.src(w)
										}
									}
								case *ast.ReturnStmt:
									var parts []string
									for _, r := range w.Results {
										parts = append(parts, c.src(r))
									}
									d.OkRet = strings.Join(parts, ", ")
								default:
									d.Steps = append(d.Steps, "other:"+strings.Join(strings.Fields(c.src(s2)), " "))
								}
							}
						}
					}
				case *ast.ReturnStmt:
					d.UnkRet = retSrc(&ast.BlockStmt{List: []ast.Stmt{v}})
				}
			}
		}
		disps = append(disps, d)
		// defer / recover() / panic in the dispatcher itself (a recover there would catch a panic that went through
		// ExecuteNativeAction without restore or journal entry)
		dg := [3]int{}
		if drun != nil && drun.Body != nil {
			ast.Inspect(drun.Body, func(x ast.Node) bool {
				switch v := x.(type) {
				case *ast.DeferStmt:
					dg[0]++
				case *ast.CallExpr:
					switch calleeName(v) {
					case "recover":
						dg[1]++
					case "panic":
						dg[2]++
					}
				}
				return true
			})
		}
		dispGuards = append(dispGuards, fmt.Sprintf("(%s, %d, %d, %d)", leanStr(pk.name), dg[0], dg[1], dg[2]))
	}

	sb.WriteString("def methods : List Method := [\n")
	for i, m := range methods {
		var ps []string
		for _, p := range m.Payers {
			ps = append(ps, "("+leanStr(p.Role)+", "+leanStr(p.Prov)+")")
		}
		fmt.Fprintf(&sb, "  -- %s\n  { contract := %s, ctor := %s, type := %s, abiName := %s, idSrc := %s, readonlyKnown := %s, readonly := %s,\n    requiredGas := %d, nativeCalls := %d, keeperInside := %s, keeperOutside := %s,\n    foreignCtxInside := %d, outerCtx := %d, logsInside := %d, logsOutside := %d, errPropagated := %s, swallowed := %d,\n    payers := %s, unknown := %s }",
			m.Where, leanStr(m.Contract), leanStr(m.Ctor), leanStr(m.Type), leanStr(m.AbiName), leanStr(m.IdSrc), leanBool(m.ReadonlyKnown), leanBool(m.Readonly),
			m.RequiredGas, m.NativeCalls, leanStrs(m.KeeperInside), leanStrs(m.KeeperOutside),
			m.ForeignCtxInside, m.OuterCtx, m.LogsInside, m.LogsOutside, leanBool(m.ErrPropagated), m.Swallowed,
			leanList(ps), leanStrs(m.Unknown))
		if i+1 < len(methods) {
			sb.WriteString(",")
		}
		sb.WriteString("\n")
	}
	sb.WriteString("]\n\ndef helpers : List Helper := [\n")
	for i, h := range helpers {
		fmt.Fprintf(&sb, "  { contract := %s, name := %s, outerCtx := %d, swallowed := %d }", leanStr(h.Contract), leanStr(h.Name), h.OuterCtx, h.Swallowed)
		if i+1 < len(helpers) {
			sb.WriteString(",")
		}
		sb.WriteString("\n")
	}
	sb.WriteString("]\n\ndef dispatchers : List Dispatcher := [\n")
	for i, d := range disps {
		fmt.Fprintf(&sb, "  { contract := %s, lenGuard := %s, steps := %s, roCond := %s, roRet := %s,\n    disabledRecv := %s, disabledArgs := %s, disabledRet := %s,\n    runCall := %s, runErrRet := %s, okRet := %s, unknownRet := %s }",
			leanStr(d.Contract), leanBool(d.LenGuard), leanStrs(d.Steps), leanStr(d.RoCond), leanStr(d.RoRet),
			leanStr(d.DisRecv), leanStrs(d.DisArgs), leanStr(d.DisRet), leanStr(d.RunCall), leanStr(d.RunErrRet), leanStr(d.OkRet), leanStr(d.UnkRet))
		if i+1 < len(disps) {
			sb.WriteString(",")
		}
		sb.WriteString("\n")
	}
	sb.WriteString("]\n\n")
	sb.WriteString(c09RunFactsLean(runFacts))
	sb.WriteString("/-- per dispatcher (contract.go Run): number of defer statements, recover() calls, panic(...) calls -/\n")
	sb.WriteString("def dispatcherDefers : List (String × Nat × Nat × Nat) := " + leanList(dispGuards) + "\n\n")

	// PackRetErrV2 / PackRetError: do they hand the error back as second result?
	packOk := map[string]bool{}
	for _, fd := range c.funcDecls("x/evm/types") {
		if fd.Recv != nil || fd.Body == nil || !strings.HasPrefix(fd.Name.Name, "PackRetErr") {
			continue
		}
		prm := ""
		if fd.Type.Params != nil && len(fd.Type.Params.List) == 1 && len(fd.Type.Params.List[0].Names) == 1 {
			prm = fd.Type.Params.List[0].Names[0].Name
		}
		ok := false
		if n := len(fd.Body.List); n > 0 {
			if rs, isR := fd.Body.List[n-1].(*ast.ReturnStmt); isR && len(rs.Results) == 2 {
				if id, _ := rs.Results[1].(*ast.Ident); id != nil && id.Name == prm && prm != "" {
					ok = true
				}
			}
		}
		packOk[fd.Name.Name] = ok
	}
	var pk []string
	for _, k := range sortedKeys(packOk) {
		pk = append(pk, "("+leanStr(k)+", "+leanBool(packOk[k])+")")
	}
	sb.WriteString("/-- x/evm/types: does `PackRetErr*(err)` return `err` itself as its second result? -/\n")
	sb.WriteString("def packFns : List (String × Bool) := " + leanList(pk) + "\n\n")

	// gov switch: CheckContractAddressIsDisabled shape
	type disT struct {
		LowerEntry, LowerAddr, AddrEq, AddrMethodEq bool
		Fmt, MethodEnc, EmptyShortcut               string
	}
	var dis disT
	if fd := c.findFunc("x/gov/keeper", "", "CheckContractAddressIsDisabled"); fd != nil && fd.Body != nil {
		src := strings.Join(strings.Fields(c.src(fd.Body)), " ")
		dis.LowerAddr = strings.Contains(src, "addrStr := strings.ToLower(addr.String())")
		dis.LowerEntry = strings.Contains(src, "disabledPrecompile = strings.ToLower(disabledPrecompile)")
		dis.AddrEq = strings.Contains(src, "if disabledPrecompile == addrStr { return errors.New(")
		dis.AddrMethodEq = strings.Contains(src, "if disabledPrecompile == addrMethodId { return fmt.Errorf(")
		if m := regexp.MustCompile(`addrMethodId := fmt\.Sprintf\(("[^"]*"), addrStr, methodIdStr\)`).FindStringSubmatch(src); m != nil {
			dis.Fmt, _ = strconv.Unquote(m[1])
		}
		if strings.Contains(src, "methodIdStr := hex.EncodeToString(methodId)") {
			dis.MethodEnc = "hex"
		}
	}
	chk := c.findFunc("x/gov/keeper", "Keeper", "CheckDisabledPrecompiles")
	chkSrc := ""
	if chk != nil && chk.Body != nil {
		chkSrc = strings.Join(strings.Fields(c.src(chk.Body)), " ")
	}
	fmt.Fprintf(&sb, "/-- x/gov/keeper CheckContractAddressIsDisabled: shape of the comparison -/\nstructure DisabledCheck where\n  lowerEntry : Bool\n  lowerAddr : Bool\n  addrEq : Bool\n  addrMethodEq : Bool\n  fmt : String\n  methodEnc : String\n  keeperBody : String\n  deriving Repr, DecidableEq\n\n")
	fmt.Fprintf(&sb, "def disabledCheck : DisabledCheck :=\n  { lowerEntry := %s, lowerAddr := %s, addrEq := %s, addrMethodEq := %s, fmt := %s, methodEnc := %s,\n    keeperBody := %s }\n\n",
		leanBool(dis.LowerEntry), leanBool(dis.LowerAddr), leanBool(dis.AddrEq), leanBool(dis.AddrMethodEq), leanStr(dis.Fmt), leanStr(dis.MethodEnc), leanStr(chkSrc))

	// go-ethereum fork: the readonly literal each call kind passes to RunPrecompiledContract
	kinds := map[string]string{}
	gdir := c.depDir("github.com/ethereum/go-ethereum")
	forkNote := gdir
	if gdir != "" {
		f, err := parser.ParseFile(c.fset, filepath.Join(gdir, "core", "vm", "evm.go"), nil, 0)
		if err == nil {
			for _, d := range f.Decls {
				fd, ok := d.(*ast.FuncDecl)
				if !ok || fd.Body == nil || recvName(fd) != "EVM" {
					continue
				}
				switch fd.Name.Name {
				case "Call", "CallCode", "DelegateCall", "StaticCall":
				default:
					continue
				}
				var lits []string
				ast.Inspect(fd.Body, func(x ast.Node) bool {
					if ce, ok := x.(*ast.CallExpr); ok && calleeName(ce) == "RunPrecompiledContract" && len(ce.Args) > 0 {
						lits = append(lits, c.src(ce.Args[len(ce.Args)-1]))
					}
					return true
				})
				kinds[fd.Name.Name] = strings.Join(lits, ",")
			}
		} else {
			forkNote = "cannot parse fork evm.go: " + err.Error()
		}
	}
	var ks []string
	for _, k := range []string{"Call", "CallCode", "DelegateCall", "StaticCall"} {
		ks = append(ks, "("+leanStr(k)+", "+leanStr(kinds[k])+")")
	}
	sb.WriteString("/-- go-ethereum fork core/vm/evm.go: last argument (`readOnly`) of RunPrecompiledContract per call kind -/\n")
	sb.WriteString("def forkReadonlyArg : List (String × String) := " + leanList(ks) + "\n\n")

	sb.WriteString(`/-- a state-changing method is acceptable for the abstract native action of the frame model -/
def writerOk (m : Method) : Bool :=
  m.readonlyKnown && m.nativeCalls == 1 && m.keeperOutside.isEmpty && m.foreignCtxInside == 0 && m.outerCtx == 0 &&
  !m.keeperInside.isEmpty && m.logsOutside == 0 && m.logsInside ≥ 1 && m.errPropagated && m.swallowed == 0

def retOk (s : String) : Bool :=
  packFns.any (fun p => p.2 && p.1 == s)

def dispatcherOk (d : Dispatcher) : Bool :=
  d.lenGuard && d.steps == ["readonly-guard", "disabled-check", "run"] &&
  d.roCond == "readonly && !method.IsReadonly()" && retOk d.roRet &&
  d.disabledRecv == "c.govKeeper.CheckDisabledPrecompiles" &&
  (d.disabledArgs == ["stateDB.Context()", "c.Address()", "contract.Input[:4]"] ||
   d.disabledArgs == ["stateDB.Context()", "c.Address()", "method.GetMethodId()"]) &&
  retOk d.disabledRet && d.runCall == "ret, err = method.Run(evm, contract)" && retOk d.runErrRet &&
  d.okRet == "ret, nil" && retOk d.unknownRet

end FxVerif.Gen.C09
`)
	c.write("C09.lean", sb.String())
	c.facts["C09.methods"] = methods
	c.facts["C09.helpers"] = helpers
	c.facts["C09.runFacts"] = runFacts
	c.facts["C09.dispatchers"] = disps
	c.facts["C09.forkReadonlyArg"] = kinds
	c.facts["C09.forkDir"] = forkNote
}
