package main

// C15, round 3: the statement ORDER of the fx gov keeper's AddDeposit (x/gov/keeper/deposit.go), regenerated as a list of
// step tags that the Lean model interprets (Model/C15.lean `depositRun`): whether the activation test sees the new total,
// the minimum of the message type, the coins already in the module account … is decided by where these statements stand.

import (
	"go/ast"
	"strings"
)

// c15DepositSteps: one tag per top-level statement of AddDeposit, in source order; plain `if err != nil { return … }`
// checks are skipped, statements that are not recognised are emitted as `other:<source>` (the model ignores them, the
// obligation `addDepositSteps = …` in Props/C15 does not)
func c15DepositSteps(c *ctxT, kdir string) []string {
	fd := c.findFunc(kdir, "Keeper", "AddDeposit")
	if fd == nil || fd.Body == nil {
		return []string{"other:<AddDeposit not found>"}
	}
	has := func(n ast.Node, sub string) bool { return strings.Contains(squash(c.src(n)), sub) }
	var out []string
	for _, st := range fd.Body.List {
		src := squash(c.src(st))
		switch s := st.(type) {
		case *ast.IfStmt:
			cond := squash(c.src(s.Cond))
			switch {
			case s.Init == nil && cond == "err != nil":
				continue
			case strings.Contains(cond, "proposal.Status != v1.StatusDepositPeriod") && strings.Contains(cond, "proposal.Status != v1.StatusVotingPeriod"):
				out = append(out, "statusCheck")
			case s.Init == nil && strings.HasPrefix(cond, "depositorAddr.Equals(keeper.authKeeper.GetModuleAddress(") && strings.HasSuffix(cond, "))") && has(s.Body, "return false,"):
				// a guard that refuses a MODULE account as depositor: `if depositorAddr.Equals(…GetModuleAddress(<module>)) { return false, err }`
				mod := strings.TrimSuffix(strings.TrimPrefix(cond, "depositorAddr.Equals(keeper.authKeeper.GetModuleAddress("), "))")
				if mod == "govtypes.ModuleName" {
					mod = "gov"
				}
				out = append(out, "depositorNotModule:"+mod)
			case s.Init != nil && has(s.Init, "keeper.validateDepositDenom(params, depositAmount)"):
				out = append(out, "denomCheck")
			case cond == "!minDepositRatio.IsZero()":
				out = append(out, "ratioCheck")
			case strings.HasPrefix(cond, "proposal.Status == v1.StatusDepositPeriod &&") && has(s.Body, "keeper.ActivateVotingPeriod(ctx, proposal)"):
				out = append(out, "activate")
			default:
				out = append(out, "other:"+src)
			}
		case *ast.AssignStmt:
			switch {
			case src == "proposal, err := keeper.Proposals.Get(ctx, proposalID)":
				out = append(out, "getProposal")
			case src == "params, err := keeper.Params.Get(ctx)":
				out = append(out, "getParams")
			case src == "minDepositAmount := proposal.GetMinDepositFromParams(params)":
				out = append(out, "defaultMin")
			case strings.HasPrefix(src, "minDepositRatio, err :="):
				out = append(out, "getRatio")
			case src == "err = keeper.bankKeeper.SendCoinsFromAccountToModule(ctx, depositorAddr, govtypes.ModuleName, depositAmount)":
				out = append(out, "sendCoins")
			case src == "proposal.TotalDeposit = sdk.NewCoins(proposal.TotalDeposit...).Add(depositAmount...)":
				out = append(out, "addTotal")
			case src == "err = keeper.SetProposal(ctx, proposal)":
				out = append(out, "setProposal")
			case src == "minDepositAmount, err = keeper.GetMinDepositAmountFromProposalMsgs(ctx, minDepositAmount, proposal)":
				out = append(out, "msgMin")
			case src == "activatedVotingPeriod := false":
				out = append(out, "flag")
			case src == "deposit, err := keeper.Deposits.Get(ctx, collections.Join(proposalID, depositorAddr))":
				out = append(out, "getDeposit")
			case src == "err = keeper.Hooks().AfterProposalDeposit(ctx, proposalID, depositorAddr)":
				out = append(out, "hooks")
			case src == "sdkCtx := sdk.UnwrapSDKContext(ctx)":
				out = append(out, "sdkCtx")
			case src == "err = keeper.SetDeposit(ctx, deposit)":
				out = append(out, "setDeposit")
			default:
				out = append(out, "other:"+src)
			}
		case *ast.SwitchStmt:
			if has(s, "deposit.Amount = sdk.NewCoins(deposit.Amount...).Add(depositAmount...)") && has(s, "deposit = v1.NewDeposit(proposalID, depositorAddr, depositAmount)") {
				out = append(out, "mergeDeposit")
			} else {
				out = append(out, "other:"+src)
			}
		case *ast.ExprStmt:
			if has(s, "EmitEvent") {
				out = append(out, "event")
			} else {
				out = append(out, "other:"+src)
			}
		case *ast.ReturnStmt:
			out = append(out, "return")
		default:
			out = append(out, "other:"+src)
		}
	}
	return out
}
